// lifegen: go/ast fact extractor for the life cycle of the p2p Connection (tie A of C18, Props/C18_LifeGen.lean).
//
// Connection.Start builds a new Peer on every call and hands it to the long-lived components through their
// `start` functions. For a fixed list of functions it emits every statement, flat, in source order, with
//   - depth and the conditions of the enclosing if / for / switch / select statements (guards),
//   - kind: "assign" (one row per left-hand side: lhs, rhs text), "call" (callee, argument texts; also for
//     go / defer), "return", "branch" (break / continue / goto), "if" (condition), "loop", "other".
//
// The Lean side states what it expects of the table (the `peer` field is assigned at depth 0 with no exit in
// front of it; Start passes the Peer it has just built). An early `return`, a guard around the assignment
// or a renamed function changes the table and breaks a named theorem.
package main

import (
	"bytes"
	"flag"
	"fmt"
	"go/ast"
	"go/parser"
	"go/printer"
	"go/token"
	"os"
	"path/filepath"
	"strconv"
	"strings"
)

type target struct {
	file  string
	funcs []string
}

var targets = []target{
	{"pkg/p2p/ratelimit.go", []string{"rateLimit.start"}},
	{"pkg/p2p/message_protocol.go", []string{"MessageProtocol.start"}},
	{"pkg/p2p/p2p.go", []string{"Connection.Start", "Connection.Stop"}},
	{"pkg/p2p/gossipsub.go", []string{"GossipSub.start"}},
	// configuration path (Props/C18_Config.lean): newPeer hands the blacklist to the gater; the peerbook keeps a
	// VIEW of the configuration lists ("*" = every function of the file, so that any write to them is seen)
	{"pkg/p2p/peer.go", []string{"newPeer"}},
	{"pkg/p2p/peerbook.go", []string{"*"}},
	{"pkg/p2p/conngater.go", []string{"connectionGater.optionWithBlacklist"}},
	// ban path (Props/C18_Roles.lean): the ban decision and the disconnect depend on the score only - the exact
	// list of conditions and calls of these functions is pinned, so a role / configuration dependent early return
	// (a peerbook or cfg lookup in front of ClosePeer or of the gater's addPenalty) breaks an obligation
	{"pkg/p2p/peer.go", []string{"Peer.Disconnect", "Peer.addPenalty", "Peer.banPeer"}},
	{"pkg/p2p/p2p.go", []string{"Connection.ApplyPenalty", "Connection.BanPeer"}},
	{"pkg/p2p/message_protocol.go", []string{"MessageProtocol.banRemotePeer"}},
}

var fset = token.NewFileSet()

func src(n ast.Node) string {
	if n == nil {
		return ""
	}
	var b bytes.Buffer
	printer.Fprint(&b, fset, n)
	return strings.Join(strings.Fields(b.String()), " ")
}

func short(n ast.Expr) string {
	if _, ok := n.(*ast.FuncLit); ok {
		return "funclit"
	}
	s := src(n)
	if len(s) > 200 {
		s = s[:200]
	}
	return s
}

type row struct {
	fn     string
	seq    int
	depth  int
	guards []string
	kind   string
	a      string   // assign: lhs; call: callee; if: condition; return: results
	b      []string // assign: [rhs]; call: args
}

var rows []row

type walker struct {
	fn  string
	seq int
}

func (w *walker) emit(depth int, guards []string, kind, a string, b []string) {
	rows = append(rows, row{w.fn, w.seq, depth, append([]string{}, guards...), kind, a, b})
	w.seq++
}

// calls inside an expression (not descending into function literals)
func (w *walker) calls(e ast.Node, depth int, guards []string, prefix string) {
	if e == nil {
		return
	}
	ast.Inspect(e, func(n ast.Node) bool {
		switch x := n.(type) {
		case *ast.FuncLit:
			return false
		case *ast.CallExpr:
			var args []string
			for _, a := range x.Args {
				args = append(args, short(a))
			}
			w.emit(depth, guards, prefix+"call", short(x.Fun), args)
		}
		return true
	})
}

func (w *walker) block(b *ast.BlockStmt, depth int, guards []string) {
	if b == nil {
		return
	}
	for _, s := range b.List {
		w.stmt(s, depth, guards)
	}
}

func with(g []string, s string) []string { return append(append([]string{}, g...), s) }

func (w *walker) stmt(s ast.Stmt, depth int, guards []string) {
	switch x := s.(type) {
	case *ast.BlockStmt:
		w.block(x, depth, guards)
	case *ast.AssignStmt:
		rhs := make([]string, len(x.Rhs))
		for i, r := range x.Rhs {
			rhs[i] = short(r)
		}
		for i, l := range x.Lhs {
			r := strings.Join(rhs, ", ")
			if len(x.Lhs) == len(x.Rhs) {
				r = rhs[i]
			}
			w.emit(depth, guards, "assign", src(l), []string{r})
		}
		for _, r := range x.Rhs {
			w.calls(r, depth, guards, "")
		}
	case *ast.ExprStmt:
		w.calls(x.X, depth, guards, "")
	case *ast.GoStmt:
		w.calls(x.Call, depth, guards, "go-")
	case *ast.DeferStmt:
		w.calls(x.Call, depth, guards, "defer-")
	case *ast.ReturnStmt:
		var res []string
		for _, r := range x.Results {
			res = append(res, short(r))
		}
		w.emit(depth, guards, "return", strings.Join(res, ", "), nil)
		for _, r := range x.Results {
			w.calls(r, depth, guards, "")
		}
	case *ast.BranchStmt:
		w.emit(depth, guards, "branch", x.Tok.String(), nil)
	case *ast.IfStmt:
		if x.Init != nil {
			w.stmt(x.Init, depth, guards)
		}
		w.emit(depth, guards, "if", src(x.Cond), nil)
		w.calls(x.Cond, depth, guards, "")
		w.block(x.Body, depth+1, with(guards, "if "+src(x.Cond)))
		if x.Else != nil {
			w.stmt(x.Else, depth+1, with(guards, "else "+src(x.Cond)))
		}
	case *ast.ForStmt:
		w.emit(depth, guards, "loop", src(x.Cond), nil)
		w.block(x.Body, depth+1, with(guards, "for "+src(x.Cond)))
	case *ast.RangeStmt:
		w.emit(depth, guards, "loop", "range "+short(x.X), nil)
		w.calls(x.X, depth, guards, "")
		w.block(x.Body, depth+1, with(guards, "range "+short(x.X)))
	case *ast.SwitchStmt, *ast.TypeSwitchStmt, *ast.SelectStmt:
		w.emit(depth, guards, "other", "switch/select", nil)
		ast.Inspect(x, func(n ast.Node) bool {
			switch c := n.(type) {
			case *ast.CaseClause:
				for _, b := range c.Body {
					w.stmt(b, depth+1, with(guards, "case"))
				}
				return false
			case *ast.CommClause:
				for _, b := range c.Body {
					w.stmt(b, depth+1, with(guards, "case"))
				}
				return false
			}
			return true
		})
	case *ast.DeclStmt:
		w.emit(depth, guards, "other", src(x), nil)
	case *ast.LabeledStmt:
		w.stmt(x.Stmt, depth, guards)
	case *ast.IncDecStmt, *ast.SendStmt, *ast.EmptyStmt:
		w.emit(depth, guards, "other", src(x), nil)
	default:
		w.emit(depth, guards, "other", src(s), nil)
	}
}

func q(s string) string { return strconv.Quote(s) }

func qs(l []string) string {
	r := make([]string, len(l))
	for i, s := range l {
		r[i] = q(s)
	}
	return "[" + strings.Join(r, ", ") + "]"
}

func main() {
	repo := flag.String("repo", "/repo", "")
	out := flag.String("out", "", "")
	flag.Parse()
	type fnInfo struct {
		name   string
		params []string
	}
	var fns []fnInfo
	for _, t := range targets {
		f, err := parser.ParseFile(fset, filepath.Join(*repo, t.file), nil, 0)
		if err != nil {
			fmt.Fprintln(os.Stderr, "lifegen:", err)
			os.Exit(1)
		}
		found := map[string]bool{}
		for _, d := range f.Decls {
			fd, ok := d.(*ast.FuncDecl)
			if !ok || fd.Body == nil {
				continue
			}
			name := fd.Name.Name
			if fd.Recv != nil && len(fd.Recv.List) == 1 {
				rt := fd.Recv.List[0].Type
				if st, ok := rt.(*ast.StarExpr); ok {
					rt = st.X
				}
				name = src(rt) + "." + name
			}
			want := false
			for _, fn := range t.funcs {
				want = want || fn == name || fn == "*"
			}
			if !want {
				continue
			}
			found[name] = true
			var params []string
			for _, p := range fd.Type.Params.List {
				for _, n := range p.Names {
					params = append(params, n.Name)
				}
			}
			fns = append(fns, fnInfo{name, params})
			w := &walker{fn: name}
			w.block(fd.Body, 0, nil)
		}
		for _, fn := range t.funcs {
			if fn == "*" {
				continue
			}
			if !found[fn] {
				fns = append(fns, fnInfo{fn, []string{"MISSING"}})
			}
		}
	}
	var b strings.Builder
	b.WriteString("/- GENERATED by tools/lifegen from /repo — do not edit. Regenerated on every check run.\n")
	b.WriteString("   Statement skeleton of the functions that bind the long-lived p2p components to the Peer of a run. -/\n\n")
	b.WriteString("namespace LiskVerif.Gen.Life\n\n")
	b.WriteString("structure Fn where\n  name : String\n  params : List String\nderiving Repr, DecidableEq\n\n")
	b.WriteString("structure Stmt where\n  fn : String\n  seq : Nat\n  depth : Nat\n  guards : List String\n  kind : String\n  a : String\n  b : List String\nderiving Repr, DecidableEq\n\n")
	b.WriteString("def fns : List Fn := [\n")
	for i, f := range fns {
		sep := ","
		if i == len(fns)-1 {
			sep = ""
		}
		fmt.Fprintf(&b, "  ⟨%s, %s⟩%s\n", q(f.name), qs(f.params), sep)
	}
	b.WriteString("]\n\ndef stmts : List Stmt := [\n")
	for i, r := range rows {
		sep := ","
		if i == len(rows)-1 {
			sep = ""
		}
		fmt.Fprintf(&b, "  ⟨%s, %d, %d, %s, %s, %s, %s⟩%s\n", q(r.fn), r.seq, r.depth, qs(r.guards), q(r.kind), q(r.a), qs(r.b), sep)
	}
	b.WriteString("]\n\nend LiskVerif.Gen.Life\n")
	tmp := *out + ".tmp"
	if err := os.WriteFile(tmp, []byte(b.String()), 0o644); err != nil {
		fmt.Fprintln(os.Stderr, err)
		os.Exit(1)
	}
	if err := os.Rename(tmp, *out); err != nil {
		fmt.Fprintln(os.Stderr, err)
		os.Exit(1)
	}
	fmt.Printf("lifegen: %d functions, %d statements\n", len(fns), len(rows))
}
