#!/bin/sh
# regenerate lean/LiskVerif/Gen/SyncPaths.lean (validate / processor / append sites of pkg/consensus/sync, C03) from /repo
set -e
cd "$(dirname "$0")"
export GOFLAGS=-mod=mod GOPROXY=off GOSUMDB=off GOTOOLCHAIN=local
mkdir -p ../../.build ../../lean/LiskVerif/Gen
go build -o ../../.build/syncpathgen .
../../.build/syncpathgen -repo "${VERIF_REPO:-/repo}" -out ../../lean/LiskVerif/Gen/SyncPaths.lean
