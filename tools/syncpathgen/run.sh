#!/bin/sh
# regenerate lean/LiskVerif/Gen/SyncPaths.lean (validate / processor / append sites of pkg/consensus/sync, C03) and
# lean/LiskVerif/Gen/SyncCtxSrc.lean (field sources of the sync context, C19) from /repo
set -e
cd "$(dirname "$0")"
export GOFLAGS=-mod=mod GOPROXY=off GOSUMDB=off GOTOOLCHAIN=local
mkdir -p ../../.build ../../lean/LiskVerif/Gen
go build -o ../../.build/syncpathgen .
# -ctxout: sources of the sync context handed to the synchronisers (Executer.createSyncContext, C19) -> Gen/SyncCtxSrc.lean
../../.build/syncpathgen -repo "${VERIF_REPO:-/repo}" -out ../../lean/LiskVerif/Gen/SyncPaths.lean -ctxout ../../lean/LiskVerif/Gen/SyncCtxSrc.lean
