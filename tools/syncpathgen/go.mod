module syncpathgen

go 1.21
