// Command syncpathgen regenerates lean/LiskVerif/Gen/SyncPaths.lean from the current source of
// /repo/pkg/consensus/sync (tie A of property C03 for the block entry paths of the synchronisers;
// obligations in lean/LiskVerif/Props/C03_SyncPaths.lean).
//
// The synchronisers hand downloaded blocks to the processor callback (Executer.processValidated), which
// only checks the rules that need the chain state; the static rules (transaction root and asset root
// against the payload, static transaction validity, field lengths) are Block.Validate, which the
// synchronisers must call themselves on EVERY downloaded object. For every function of the package (files
// `*_test.go` and `*_verif.go` skipped) the tool lists, in program order and as plain Lean data:
//
//	validate  `if err := X.Validate(); err != nil { …; return … }` (or `if X.Validate() != nil { … return }`):
//	          subj = X; exits = the failure branch ends in `return`
//	process   a call `<recv>.processor(ctx, B, …)`: subj = B
//	append    `L = append(L, e…)`: dst = L, one item per element e (subj = e)
//	assign    every other assignment / definition: dst = left-hand side, subj = right-hand side (`f(…)#i`
//	          for the i-th result of a call)
//	call      a call of `.Validate()` that is not a validate item (result unused or handled in another way)
//	escape    a mention of the selector `.processor` that is not the callee of a call (the callback leaves the
//	          function under another name)
//	return    a return statement: subj = the first result, dst = the other results, comma separated
//
// ctx lists the enclosing constructs, outermost first: `range(<elem> in <expr>)`, `for`, `if <cond>`,
// `else <cond>`, `case <text>`, `func` (function literal, incl. go / defer). Expressions are printed by
// go/types.ExprString with the receiver renamed to `self`. Labels and goto are refused (no output is
// written): the Lean criterion reads program order plus ctx as dominance. Only functions with at least one
// validate / process / call / escape item or a `range` over a `.downloaded` channel are emitted;
// `downloadedUses` lists every function that mentions the selector `.downloaded`. Purely syntactic.
package main

import (
	"flag"
	"fmt"
	"go/ast"
	"go/parser"
	"go/token"
	"go/types"
	"os"
	"path/filepath"
	"sort"
	"strconv"
	"strings"
)

type item struct {
	kind, subj, dst string
	ctx             []string
	exits           bool
}

type fn struct {
	name, file string
	items      []item
	keep       bool
}

type walker struct {
	recv  string
	f     *fn
	fatal []string
	// fields: also list the key/value pairs of composite literals (kind "field": dst = <type>.<key>, subj = value);
	// only set for the sync-context extraction (-ctxout), the items of Gen/SyncPaths.lean stay as they are
	fields bool
}

func (w *walker) expr(e ast.Expr) string {
	if e == nil {
		return ""
	}
	s := types.ExprString(e)
	if w.recv == "" {
		return s
	}
	// rename the receiver (whole identifiers only)
	var sb strings.Builder
	inStr := false
	for i := 0; i < len(s); {
		if s[i] == '"' && (i == 0 || s[i-1] != '\\') {
			inStr = !inStr
		}
		if inStr {
			sb.WriteByte(s[i])
			i++
			continue
		}
		j := i
		for j < len(s) && (s[j] == '_' || s[j] >= '0' && s[j] <= '9' || s[j] >= 'a' && s[j] <= 'z' || s[j] >= 'A' && s[j] <= 'Z') {
			j++
		}
		if j > i {
			word := s[i:j]
			if word == w.recv && (i == 0 || s[i-1] != '.') {
				word = "self"
			}
			sb.WriteString(word)
			i = j
			continue
		}
		sb.WriteByte(s[i])
		i++
	}
	return sb.String()
}

func (w *walker) add(it item, ctx []string) {
	it.ctx = append([]string{}, ctx...)
	w.f.items = append(w.f.items, it)
	switch it.kind {
	case "validate", "process", "call", "escape":
		w.f.keep = true
	}
}

func isValidateCall(e ast.Expr) (ast.Expr, bool) {
	c, ok := e.(*ast.CallExpr)
	if !ok || len(c.Args) != 0 {
		return nil, false
	}
	s, ok := c.Fun.(*ast.SelectorExpr)
	if !ok || s.Sel.Name != "Validate" {
		return nil, false
	}
	return s.X, true
}

func endsInReturn(b *ast.BlockStmt) bool {
	if b == nil || len(b.List) == 0 {
		return false
	}
	_, ok := b.List[len(b.List)-1].(*ast.ReturnStmt)
	return ok
}

// scan lists the interesting calls inside an expression (or simple statement): processor calls, Validate
// calls (unless skip), escapes of the processor selector, function literals.
func (w *walker) scan(n ast.Node, ctx []string, skip ast.Expr) {
	if n == nil {
		return
	}
	callees := map[ast.Expr]bool{}
	ast.Inspect(n, func(x ast.Node) bool {
		switch v := x.(type) {
		case *ast.FuncLit:
			w.block(v.Body, append(append([]string{}, ctx...), "func"))
			return false
		case *ast.CompositeLit:
			if w.fields && v.Type != nil {
				for _, el := range v.Elts {
					if kv, ok := el.(*ast.KeyValueExpr); ok {
						if id, ok := kv.Key.(*ast.Ident); ok {
							w.add(item{kind: "field", dst: types.ExprString(v.Type) + "." + id.Name, subj: w.expr(kv.Value)}, ctx)
						}
					}
				}
			}
		case *ast.CallExpr:
			callees[v.Fun] = true
			if s, ok := v.Fun.(*ast.SelectorExpr); ok && s.Sel.Name == "processor" {
				subj := ""
				if len(v.Args) >= 2 {
					subj = w.expr(v.Args[1])
				}
				w.add(item{kind: "process", subj: subj}, ctx)
			}
			if recv, ok := isValidateCall(v); ok && ast.Expr(v) != skip {
				w.add(item{kind: "call", subj: w.expr(recv) + ".Validate()"}, ctx)
			}
		case *ast.SelectorExpr:
			if v.Sel.Name == "processor" && !callees[v] {
				w.add(item{kind: "escape", subj: w.expr(v)}, ctx)
			}
			if v.Sel.Name == "downloaded" {
				w.f.keep = w.f.keep || false
				usesDownloaded[w.f.name] = true
			}
		}
		return true
	})
}

var usesDownloaded = map[string]bool{}

func (w *walker) assign(s *ast.AssignStmt, ctx []string) {
	w.scan(s, ctx, nil)
	// L = append(L, e...)
	if len(s.Lhs) == 1 && len(s.Rhs) == 1 {
		if c, ok := s.Rhs[0].(*ast.CallExpr); ok {
			if id, ok := c.Fun.(*ast.Ident); ok && id.Name == "append" && len(c.Args) >= 1 && w.expr(c.Args[0]) == w.expr(s.Lhs[0]) {
				for _, e := range c.Args[1:] {
					w.add(item{kind: "append", dst: w.expr(s.Lhs[0]), subj: w.expr(e)}, ctx)
				}
				return
			}
		}
	}
	if len(s.Lhs) == len(s.Rhs) {
		for i := range s.Lhs {
			w.add(item{kind: "assign", dst: w.expr(s.Lhs[i]), subj: w.expr(s.Rhs[i])}, ctx)
		}
		return
	}
	if len(s.Rhs) == 1 {
		for i := range s.Lhs {
			w.add(item{kind: "assign", dst: w.expr(s.Lhs[i]), subj: w.expr(s.Rhs[0]) + "#" + strconv.Itoa(i)}, ctx)
		}
		return
	}
	w.fatal = append(w.fatal, "assignment form not understood in "+w.f.name)
}

func (w *walker) ifStmt(s *ast.IfStmt, ctx []string) {
	// the validate pattern
	if s.Else == nil {
		if as, ok := s.Init.(*ast.AssignStmt); ok && len(as.Lhs) == 1 && len(as.Rhs) == 1 {
			if recv, ok := isValidateCall(as.Rhs[0]); ok {
				if b, ok := s.Cond.(*ast.BinaryExpr); ok && b.Op == token.NEQ && w.expr(b.X) == w.expr(as.Lhs[0]) && w.expr(b.Y) == "nil" {
					w.add(item{kind: "validate", subj: w.expr(recv), exits: endsInReturn(s.Body)}, ctx)
					w.block(s.Body, append(append([]string{}, ctx...), "if "+w.expr(recv)+".Validate() != nil"))
					return
				}
			}
		}
		if s.Init == nil {
			if b, ok := s.Cond.(*ast.BinaryExpr); ok && b.Op == token.NEQ && w.expr(b.Y) == "nil" {
				if recv, ok := isValidateCall(b.X); ok {
					w.add(item{kind: "validate", subj: w.expr(recv), exits: endsInReturn(s.Body)}, ctx)
					w.block(s.Body, append(append([]string{}, ctx...), "if "+w.expr(recv)+".Validate() != nil"))
					return
				}
			}
		}
	}
	if s.Init != nil {
		w.stmt(s.Init, ctx)
	}
	w.scan(s.Cond, ctx, nil)
	cond := w.expr(s.Cond)
	w.block(s.Body, append(append([]string{}, ctx...), "if "+cond))
	switch e := s.Else.(type) {
	case nil:
	case *ast.BlockStmt:
		w.block(e, append(append([]string{}, ctx...), "else "+cond))
	case *ast.IfStmt:
		w.ifStmt(e, append(append([]string{}, ctx...), "else "+cond))
	}
}

func (w *walker) block(b *ast.BlockStmt, ctx []string) {
	if b == nil {
		return
	}
	for _, s := range b.List {
		w.stmt(s, ctx)
	}
}

func (w *walker) stmt(s ast.Stmt, ctx []string) {
	switch v := s.(type) {
	case nil, *ast.EmptyStmt, *ast.BranchStmt:
		if b, ok := s.(*ast.BranchStmt); ok && (b.Tok == token.GOTO || b.Label != nil) {
			w.fatal = append(w.fatal, "goto / labelled branch in "+w.f.name)
		}
	case *ast.LabeledStmt:
		w.fatal = append(w.fatal, "label in "+w.f.name)
	case *ast.BlockStmt:
		w.block(v, ctx)
	case *ast.AssignStmt:
		w.assign(v, ctx)
	case *ast.IfStmt:
		w.ifStmt(v, ctx)
	case *ast.RangeStmt:
		w.scan(v.X, ctx, nil)
		elem := v.Key
		if v.Value != nil {
			elem = v.Value
		}
		x := w.expr(v.X)
		if strings.HasSuffix(x, ".downloaded") {
			w.f.keep = true
		}
		w.block(v.Body, append(append([]string{}, ctx...), "range("+w.expr(elem)+" in "+x+")"))
	case *ast.ForStmt:
		inner := append(append([]string{}, ctx...), "for")
		if v.Init != nil {
			w.stmt(v.Init, ctx)
		}
		w.scan(v.Cond, inner, nil)
		if v.Post != nil {
			w.stmt(v.Post, inner)
		}
		w.block(v.Body, inner)
	case *ast.SwitchStmt:
		if v.Init != nil {
			w.stmt(v.Init, ctx)
		}
		w.scan(v.Tag, ctx, nil)
		w.cases(v.Body, ctx, "switch "+w.expr(v.Tag))
	case *ast.TypeSwitchStmt:
		w.cases(v.Body, ctx, "typeswitch")
	case *ast.SelectStmt:
		w.cases(v.Body, ctx, "select")
	case *ast.ReturnStmt:
		w.scan(v, ctx, nil)
		rs := make([]string, len(v.Results))
		for i, r := range v.Results {
			rs[i] = w.expr(r)
		}
		first, rest := "", ""
		if len(rs) > 0 {
			first, rest = rs[0], strings.Join(rs[1:], ",")
		}
		w.add(item{kind: "return", subj: first, dst: rest}, ctx)
	case *ast.GoStmt:
		w.scan(v.Call, append(append([]string{}, ctx...), "go"), nil)
	case *ast.DeferStmt:
		w.scan(v.Call, append(append([]string{}, ctx...), "defer"), nil)
	case *ast.ExprStmt, *ast.SendStmt, *ast.IncDecStmt, *ast.DeclStmt:
		w.scan(v, ctx, nil)
		if d, ok := s.(*ast.DeclStmt); ok {
			if g, ok := d.Decl.(*ast.GenDecl); ok {
				for _, sp := range g.Specs {
					if vs, ok := sp.(*ast.ValueSpec); ok {
						for i, n := range vs.Names {
							val := ""
							if i < len(vs.Values) {
								val = w.expr(vs.Values[i])
							}
							w.add(item{kind: "assign", dst: n.Name, subj: val}, ctx)
						}
					}
				}
			}
		}
	default:
		w.fatal = append(w.fatal, fmt.Sprintf("statement %T not understood in %s", s, w.f.name))
	}
}

func (w *walker) cases(body *ast.BlockStmt, ctx []string, head string) {
	for _, c := range body.List {
		switch cc := c.(type) {
		case *ast.CaseClause:
			label := head + " case"
			for _, e := range cc.List {
				label += " " + w.expr(e)
			}
			inner := append(append([]string{}, ctx...), label)
			for _, s := range cc.Body {
				w.stmt(s, inner)
			}
		case *ast.CommClause:
			inner := append(append([]string{}, ctx...), head+" case")
			if cc.Comm != nil {
				w.stmt(cc.Comm, inner)
			}
			for _, s := range cc.Body {
				w.stmt(s, inner)
			}
		}
	}
}

// ---------------------------------------------------------------------------------------------
// sync context (property C19, obligations in lean/LiskVerif/Props/C19_ContextGen.lean)
//
// The synchronisers run on the sync.SyncContext that Executer.createSyncContext (pkg/consensus/execute.go) builds.
// writeSyncCtx lists, for createSyncContext and for Executer.process (which hands the context to Syncer.Sync), the
// items of the vocabulary above plus `field` items for composite literals, and, over pkg/consensus and
// pkg/consensus/sync (`*_test.go`, `*_verif.go` skipped): every function that contains a composite literal of
// type SyncContext, and every assignment to a selector `.FinalizedBlockHeader` / `.CurrentValidators`.
func writeSyncCtx(repo, out string) error {
	fset := token.NewFileSet()
	var emitted []*fn
	var literals, fieldWrites, fatal []string
	for _, sub := range []string{"", "sync"} {
		dir := filepath.Join(repo, "pkg", "consensus", sub)
		files, err := filepath.Glob(filepath.Join(dir, "*.go"))
		if err != nil || len(files) == 0 {
			return fmt.Errorf("no sources in %s", dir)
		}
		sort.Strings(files)
		for _, path := range files {
			base := filepath.Base(path)
			if strings.HasSuffix(base, "_test.go") || strings.HasSuffix(base, "_verif.go") {
				continue
			}
			file, err := parser.ParseFile(fset, path, nil, 0)
			if err != nil {
				return err
			}
			for _, d := range file.Decls {
				fd, ok := d.(*ast.FuncDecl)
				if !ok || fd.Body == nil {
					continue
				}
				name, recv := fd.Name.Name, ""
				if fd.Recv != nil && len(fd.Recv.List) == 1 {
					t := fd.Recv.List[0].Type
					if st, ok := t.(*ast.StarExpr); ok {
						t = st.X
					}
					name = types.ExprString(t) + "." + name
					if len(fd.Recv.List[0].Names) == 1 {
						recv = fd.Recv.List[0].Names[0].Name
					}
				}
				ast.Inspect(fd.Body, func(x ast.Node) bool {
					switch v := x.(type) {
					case *ast.CompositeLit:
						if v.Type != nil {
							if ts := types.ExprString(v.Type); ts == "SyncContext" || strings.HasSuffix(ts, ".SyncContext") {
								literals = append(literals, name)
							}
						}
					case *ast.AssignStmt:
						for _, l := range v.Lhs {
							if se, ok := l.(*ast.SelectorExpr); ok && (se.Sel.Name == "FinalizedBlockHeader" || se.Sel.Name == "CurrentValidators") {
								fieldWrites = append(fieldWrites, name+": "+types.ExprString(l))
							}
						}
					}
					return true
				})
				if sub == "" && (name == "Executer.createSyncContext" || name == "Executer.process") {
					w := &walker{recv: recv, f: &fn{name: name, file: base}, fields: true}
					w.block(fd.Body, nil)
					fatal = append(fatal, w.fatal...)
					emitted = append(emitted, w.f)
				}
			}
		}
	}
	if len(fatal) != 0 {
		return fmt.Errorf("%s", strings.Join(fatal, "; "))
	}
	var sb strings.Builder
	sb.WriteString("/- GENERATED by tools/syncpathgen (-ctxout) from /repo/pkg/consensus — do not edit. Regenerated on every check run.\n")
	sb.WriteString("   Where the fields of the sync.SyncContext handed to the synchronisers come from: assignment / field / return\n")
	sb.WriteString("   items of Executer.createSyncContext and Executer.process in program order (vocabulary: tools/syncpathgen/main.go). -/\n")
	sb.WriteString("import LiskVerif.Gen.SyncPaths\n\nnamespace LiskVerif.Gen.SyncCtxSrc\nopen LiskVerif.Gen.SyncPaths (Item Fn)\n\n")
	var names []string
	for _, f := range emitted {
		ident := strings.NewReplacer(".", "_").Replace(f.name)
		names = append(names, ident)
		fmt.Fprintf(&sb, "/-- pkg/consensus/%s: %s -/\ndef %s : Fn := { name := %s, file := %s, items := [\n", f.file, f.name, ident, q(f.name), q(f.file))
		for i, it := range f.items {
			fields := []string{"kind := " + q(it.kind)}
			if it.subj != "" {
				fields = append(fields, "subj := "+q(it.subj))
			}
			if it.dst != "" {
				fields = append(fields, "dst := "+q(it.dst))
			}
			if len(it.ctx) != 0 {
				fields = append(fields, "ctx := "+qlist(it.ctx))
			}
			if it.exits {
				fields = append(fields, "exits := true")
			}
			sep := ","
			if i == len(f.items)-1 {
				sep = ""
			}
			fmt.Fprintf(&sb, "  { %s }%s\n", strings.Join(fields, ", "), sep)
		}
		sb.WriteString("] }\n\n")
	}
	fmt.Fprintf(&sb, "/-- the extracted functions, in file order -/\ndef fns : List Fn := [%s]\n\n", strings.Join(names, ", "))
	fmt.Fprintf(&sb, "/-- every function of pkg/consensus and pkg/consensus/sync that builds a SyncContext with a composite literal -/\ndef contextLiterals : List String := %s\n\n", qlist(literals))
	fmt.Fprintf(&sb, "/-- every assignment to a selector `.FinalizedBlockHeader` / `.CurrentValidators` in these packages (`function: lhs`) -/\ndef contextFieldWrites : List String := %s\n\n", qlist(fieldWrites))
	sb.WriteString("end LiskVerif.Gen.SyncCtxSrc\n")
	// (atomic replacement: a failing run leaves the committed file)
	tmp := out + ".tmp"
	if err := os.WriteFile(tmp, []byte(sb.String()), 0o644); err != nil {
		return err
	}
	return os.Rename(tmp, out)
}

func q(s string) string { return strconv.Quote(s) }

func qlist(l []string) string {
	r := make([]string, len(l))
	for i, s := range l {
		r[i] = q(s)
	}
	return "[" + strings.Join(r, ", ") + "]"
}

func main() {
	repo := flag.String("repo", "/repo", "repository root")
	out := flag.String("out", "", "output file")
	ctxOut := flag.String("ctxout", "", "output file for the sources of the sync context (Gen/SyncCtxSrc.lean)")
	flag.Parse()
	if *ctxOut != "" {
		if err := writeSyncCtx(*repo, *ctxOut); err != nil {
			fmt.Fprintln(os.Stderr, "syncpathgen:", err)
			os.Exit(1)
		}
	}
	dir := filepath.Join(*repo, "pkg", "consensus", "sync")
	files, err := filepath.Glob(filepath.Join(dir, "*.go"))
	if err != nil || len(files) == 0 {
		fmt.Fprintln(os.Stderr, "syncpathgen: no sources in", dir)
		os.Exit(1)
	}
	sort.Strings(files)
	fset := token.NewFileSet()
	var fns []*fn
	var fatal []string
	for _, path := range files {
		base := filepath.Base(path)
		if strings.HasSuffix(base, "_test.go") || strings.HasSuffix(base, "_verif.go") {
			continue
		}
		file, err := parser.ParseFile(fset, path, nil, 0)
		if err != nil {
			fmt.Fprintln(os.Stderr, "syncpathgen:", err)
			os.Exit(1)
		}
		for _, d := range file.Decls {
			fd, ok := d.(*ast.FuncDecl)
			if !ok || fd.Body == nil {
				continue
			}
			name, recv := fd.Name.Name, ""
			if fd.Recv != nil && len(fd.Recv.List) == 1 {
				t := fd.Recv.List[0].Type
				if st, ok := t.(*ast.StarExpr); ok {
					t = st.X
				}
				name = types.ExprString(t) + "." + name
				if len(fd.Recv.List[0].Names) == 1 {
					recv = fd.Recv.List[0].Names[0].Name
				}
			}
			w := &walker{recv: recv, f: &fn{name: name, file: base}}
			w.block(fd.Body, nil)
			fatal = append(fatal, w.fatal...)
			fns = append(fns, w.f)
		}
	}
	if len(fatal) != 0 {
		fmt.Fprintln(os.Stderr, "syncpathgen: "+strings.Join(fatal, "; "))
		os.Exit(1)
	}
	var sb strings.Builder
	sb.WriteString("/- GENERATED by tools/syncpathgen from /repo/pkg/consensus/sync — do not edit. Regenerated on every check run.\n")
	sb.WriteString("   Validate / processor / append / assignment / return sites of the synchronisers in program order. -/\n\n")
	sb.WriteString("namespace LiskVerif.Gen.SyncPaths\n\n")
	sb.WriteString("/-- one site of a function body in program order (see tools/syncpathgen/main.go for the vocabulary) -/\n")
	sb.WriteString("structure Item where\n  kind : String\n  subj : String := \"\"\n  dst : String := \"\"\n  ctx : List String := []\n  exits : Bool := false\nderiving Repr, DecidableEq\n\n")
	sb.WriteString("structure Fn where\n  name : String\n  file : String\n  items : List Item\nderiving Repr, DecidableEq\n\n")
	var names []string
	for _, f := range fns {
		if !f.keep {
			continue
		}
		ident := strings.NewReplacer(".", "_").Replace(f.name)
		names = append(names, ident)
		fmt.Fprintf(&sb, "/-- pkg/consensus/sync/%s: %s -/\ndef %s : Fn := { name := %s, file := %s, items := [\n", f.file, f.name, ident, q(f.name), q(f.file))
		for i, it := range f.items {
			fields := []string{"kind := " + q(it.kind)}
			if it.subj != "" {
				fields = append(fields, "subj := "+q(it.subj))
			}
			if it.dst != "" {
				fields = append(fields, "dst := "+q(it.dst))
			}
			if len(it.ctx) != 0 {
				fields = append(fields, "ctx := "+qlist(it.ctx))
			}
			if it.exits {
				fields = append(fields, "exits := true")
			}
			sep := ","
			if i == len(f.items)-1 {
				sep = ""
			}
			fmt.Fprintf(&sb, "  { %s }%s\n", strings.Join(fields, ", "), sep)
		}
		sb.WriteString("] }\n\n")
	}
	fmt.Fprintf(&sb, "/-- every function with a validate / processor site or a loop over a download channel, in file order -/\ndef fns : List Fn := [%s]\n\n", strings.Join(names, ", "))
	var uses []string
	for _, f := range fns {
		if usesDownloaded[f.name] {
			uses = append(uses, f.name)
		}
	}
	fmt.Fprintf(&sb, "/-- every function that mentions the selector `.downloaded` (the channel of downloaded blocks) -/\ndef downloadedUses : List String := %s\n\n", qlist(uses))
	fmt.Fprintf(&sb, "/-- number of functions of the package that were scanned -/\ndef scanned : Nat := %d\n\n", len(fns))
	sb.WriteString("end LiskVerif.Gen.SyncPaths\n")
	if *out == "" {
		fmt.Print(sb.String())
		return
	}
	if err := os.WriteFile(*out, []byte(sb.String()), 0o644); err != nil {
		fmt.Fprintln(os.Stderr, "syncpathgen:", err)
		os.Exit(1)
	}
}
