#!/bin/sh
# regenerate lean/LiskVerif/Gen/AliasFW.lean (C16: who owns the memory returned by the event logger and the state
# batch of the application framework, incl. the package-level getTreeKey) from /repo.
# VERIF_REPO / VERIF_LEAN override the repository and the Lean project (private copies).
exec "$(dirname "$0")/run.sh" -set fw "$@"
