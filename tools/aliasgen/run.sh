#!/bin/sh
# regenerate lean/LiskVerif/Gen/Alias.lean (C20: who owns the memory handed out by the shared structures)
# from /repo. VERIF_REPO / VERIF_LEAN override the repository and the Lean project (private copies).
set -e
cd "$(dirname "$0")"
export GOFLAGS=-mod=mod GOPROXY=off GOSUMDB=off GOTOOLCHAIN=local
LEAN="${VERIF_LEAN:-../../lean}"
mkdir -p ../../.build "$LEAN/LiskVerif/Gen"
go build -o ../../.build/aliasgen .
../../.build/aliasgen -repo "${VERIF_REPO:-/repo}" -leandir "$LEAN/LiskVerif/Gen" "$@"
