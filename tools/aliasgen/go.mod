module aliasgen

go 1.21
