// Command aliasgen regenerates lean/LiskVerif/Gen/Alias.lean from the current source of /repo: for every
// method of the types of the C20 group (the lock-protected blockCache, certificate.Pool, EventEmitter,
// diffdb.Database and the DataAccess / Chain facades that hand the cached data out) it classifies every
// result that can carry memory (slice, map, pointer, struct, interface, channel) by WHO OWNS THE MEMORY
// the caller receives:
//
//	shallow class — the memory the result itself denotes: the backing array of a returned slice, the
//	                returned map (`record` for pointer / struct / interface / channel results: handing out
//	                a pointer to a record kept in the structure is sharing by design and is not judged)
//	deep class    — the slices and maps reachable through records that were BUILT for the result
//	                (composite literals, and fresh slices of such records): e.g. the `value` bytes inside
//	                the key-value entries returned by diffdb Iterate
//
// with the classes
//
//	fresh   allocated for the caller (make, composite literal, append to a fresh slice, string
//	        conversion, a repository function whose own result is fresh)
//	ext     obtained from a component outside the analysed code (interface method, other module)
//	param   aliases an argument the caller passed in (its own memory)
//	view    a field of the receiver, a reslice / element of one, or a local derived from one — followed
//	        through calls of repository functions and methods (e.g. Select -> SingleCommits.GetUntil) by
//	        function summaries, to any depth
//	global  a package-level variable
//	unknown a construct the classifier does not understand (fails the Lean theorems: nothing is dropped)
//
// The analysis is a flow-insensitive abstract interpretation over go/ast with types from go/types (the
// repository packages are type-checked from source, the standard library through the source importer,
// other modules are stubbed: expressions without a type are `ext`). Pointers to records that live in the
// structure (elements of an internal []*T or map[K]*T) are opaque: passing such a pointer on is not a
// view (the records are shared by design: *Block, *SingleCommit), but selecting a slice / map FIELD
// through one is.
package main

import (
	"flag"
	"fmt"
	"go/ast"
	"go/build"
	"go/importer"
	"go/parser"
	"go/token"
	"go/types"
	"os"
	"path/filepath"
	"sort"
	"strings"
)

const modulePath = "github.com/LiskHQ/lisk-engine/"

type typeCfg struct {
	pkg     string
	name    string
	file    string
	guarded bool // the type owns a mutex protecting its fields
	free    bool // also classify the package-level functions of the file (rows "<file base>.<func>")
}

// targetsFW (`-set fw`, output Gen/AliasFW.lean, property C16): the event logger and the state batch of the
// application framework: which results are views of the receiver / of a PARAMETER (getTreeKey must build the
// tree key in fresh memory: its parameter is the key slice the caller keeps, cacheDB.commit puts it into the Diff).
var targetsFW = []typeCfg{
	{pkg: "pkg/statemachine", name: "EventLogger", file: "event_logger.go"},
	{pkg: "pkg/framework", name: "stateSMTBatch", file: "state_batch.go", free: true},
}

var targets = []typeCfg{
	{pkg: "pkg/blockchain", name: "blockCache", file: "block_cache.go", guarded: true},
	{pkg: "pkg/blockchain", name: "DataAccess", file: "data_access.go"},
	{pkg: "pkg/blockchain", name: "Chain", file: "chain.go"},
	{pkg: "pkg/consensus/certificate", name: "Pool", file: "pool.go", guarded: true},
	{pkg: "pkg/event", name: "EventEmitter", file: "event.go", guarded: true},
	{pkg: "pkg/db/diffdb", name: "Database", file: "db.go", guarded: true},
}

// ---------------------------------------------------------------------------------------------
// loading

type pkgData struct {
	tp    *types.Package
	info  *types.Info
	files map[string]*ast.File
	decls map[*types.Func]*ast.FuncDecl
}

type loader struct {
	repo string
	fset *token.FileSet
	pkgs map[string]*pkgData // by import path
	std  types.Importer
	fake map[string]*types.Package
}

func (l *loader) Import(path string) (*types.Package, error) {
	if path == "unsafe" {
		return types.Unsafe, nil
	}
	if strings.HasPrefix(path, modulePath) {
		p := l.load(path)
		if p == nil {
			return nil, fmt.Errorf("cannot load %s", path)
		}
		return p.tp, nil
	}
	if first := strings.SplitN(path, "/", 2)[0]; !strings.Contains(first, ".") {
		if p, err := l.std.Import(path); err == nil {
			return p, nil
		}
	}
	if p, ok := l.fake[path]; ok {
		return p, nil
	}
	name := path[strings.LastIndex(path, "/")+1:]
	if strings.HasPrefix(name, "v") && len(name) <= 3 && strings.Count(path, "/") > 0 { // .../foo/v2
		rest := path[:strings.LastIndex(path, "/")]
		name = rest[strings.LastIndex(rest, "/")+1:]
	}
	name = strings.TrimPrefix(name, "go-")
	name = strings.ReplaceAll(name, "-", "_")
	p := types.NewPackage(path, name)
	p.MarkComplete()
	l.fake[path] = p
	return p, nil
}

func (l *loader) load(path string) *pkgData {
	if p, ok := l.pkgs[path]; ok {
		return p
	}
	dir := filepath.Join(l.repo, strings.TrimPrefix(path, modulePath))
	p := &pkgData{files: map[string]*ast.File{}, decls: map[*types.Func]*ast.FuncDecl{}}
	l.pkgs[path] = p
	matches, _ := filepath.Glob(filepath.Join(dir, "*.go"))
	sort.Strings(matches)
	var files []*ast.File
	ctx := build.Default
	ctx.CgoEnabled = true
	for _, m := range matches {
		base := filepath.Base(m)
		if strings.HasSuffix(base, "_test.go") || strings.HasSuffix(base, "_verif.go") {
			continue
		}
		if ok, err := ctx.MatchFile(dir, base); err != nil || !ok {
			continue
		}
		f, err := parser.ParseFile(l.fset, m, nil, 0)
		if err != nil {
			fmt.Fprintln(os.Stderr, "aliasgen: parse error:", err)
			os.Exit(1)
		}
		p.files[base] = f
		files = append(files, f)
	}
	if len(files) == 0 {
		delete(l.pkgs, path)
		return nil
	}
	p.info = &types.Info{Types: map[ast.Expr]types.TypeAndValue{}, Defs: map[*ast.Ident]types.Object{}, Uses: map[*ast.Ident]types.Object{},
		Selections: map[*ast.SelectorExpr]*types.Selection{}}
	conf := types.Config{Importer: l, Error: func(error) {}, FakeImportC: true}
	p.tp, _ = conf.Check(path, l.fset, files, p.info)
	for _, f := range files {
		for _, d := range f.Decls {
			if fd, ok := d.(*ast.FuncDecl); ok {
				if fn, ok := p.info.Defs[fd.Name].(*types.Func); ok {
					p.decls[fn] = fd
				}
			}
		}
	}
	return p
}

// ---------------------------------------------------------------------------------------------
// abstract values

type atom struct {
	kind string // ext | recv | recvin | param | paramin | global | unknown
	n    int    // parameter index
	desc string
}

type aset map[atom]bool

func (a aset) add(b aset) bool {
	ch := false
	for k := range b {
		if !a[k] {
			a[k] = true
			ch = true
		}
	}
	return ch
}

func union(sets ...aset) aset {
	r := aset{}
	for _, s := range sets {
		r.add(s)
	}
	return r
}

// val: `self` = owners of the memory the value itself denotes (backing array / map / the record a pointer
// points to); `inner` = owners of the slices and maps reachable through it. The empty set is "fresh".
type val struct {
	self, inner aset
}

func fresh() val { return val{aset{}, aset{}} }

func (v val) join(w val) val { return val{union(v.self, w.self), union(v.inner, w.inner)} }

func one(a atom) aset { return aset{a: true} }

func both(a aset) val { return val{union(a), union(a)} }

func isContainer(t types.Type) bool {
	if t == nil {
		return false
	}
	switch u := t.Underlying().(type) {
	case *types.Slice, *types.Map:
		return true
	case *types.Pointer: // *[]T, *SingleCommits
		switch u.Elem().Underlying().(type) {
		case *types.Slice, *types.Map:
			return true
		}
	}
	return false
}

func isRecord(t types.Type) bool {
	if t == nil {
		return false
	}
	if isContainer(t) {
		return false
	}
	switch u := t.Underlying().(type) {
	case *types.Pointer, *types.Struct, *types.Interface, *types.Chan, *types.Signature, *types.Array:
		_ = u
		return true
	}
	return false
}

func underlying(t types.Type) types.Type {
	if t == nil {
		return nil
	}
	return t.Underlying()
}

func isError(t types.Type) bool {
	return t != nil && t.String() == "error"
}

func carries(t types.Type) bool {
	if t == nil {
		return true // untyped (stubbed import): keep what we know
	}
	if b, ok := t.(*types.Basic); ok && b.Kind() == types.Invalid {
		return true
	}
	return (isContainer(t) || isRecord(t)) && !isError(t)
}

func elemType(t types.Type) types.Type {
	if t == nil {
		return nil
	}
	switch u := t.Underlying().(type) {
	case *types.Slice:
		return u.Elem()
	case *types.Array:
		return u.Elem()
	case *types.Map:
		return u.Elem()
	case *types.Pointer:
		return elemType(u.Elem())
	}
	return nil
}

// contribution of a value stored as an element / field of something that is being built
func contribution(v val, t types.Type) aset {
	switch {
	case t == nil || isContainer(t):
		return union(v.self, v.inner)
	case carriesBasic(t):
		return aset{}
	}
	// a record: the pointer itself is opaque, what was built into it counts
	return union(v.inner)
}

func carriesBasic(t types.Type) bool {
	_, ok := t.Underlying().(*types.Basic)
	return ok
}

// element of a container / field of a record
func elemOf(x val, et types.Type) val {
	if et != nil && carriesBasic(et) {
		return fresh()
	}
	if et != nil && isContainer(et) {
		return val{union(x.inner), union(x.inner)}
	}
	return val{union(x.self, x.inner), union(x.inner)}
}

// ---------------------------------------------------------------------------------------------
// function analysis

type summary struct {
	results []val
	done    bool
}

type analyser struct {
	l     *loader
	sums  map[*types.Func]*summary
	depth int
}

type fctx struct {
	a      *analyser
	p      *pkgData
	fd     *ast.FuncDecl
	recv   *types.Var
	params map[*types.Var]int
	env    map[*types.Var]val
	ret    []val
	named  []*types.Var
	change bool
}

func (a *analyser) pkgOf(fn *types.Func) *pkgData {
	if fn.Pkg() == nil {
		return nil
	}
	return a.l.pkgs[fn.Pkg().Path()]
}

func (a *analyser) summarise(fn *types.Func) *summary {
	if s, ok := a.sums[fn]; ok {
		if !s.done { // recursion
			return nil
		}
		return s
	}
	p := a.pkgOf(fn)
	if p == nil {
		return nil
	}
	fd := p.decls[fn]
	if fd == nil || fd.Body == nil {
		return nil
	}
	s := &summary{}
	a.sums[fn] = s
	sig := fn.Type().(*types.Signature)
	c := &fctx{a: a, p: p, fd: fd, recv: sig.Recv(), params: map[*types.Var]int{}, env: map[*types.Var]val{}}
	for i := 0; i < sig.Params().Len(); i++ {
		c.params[sig.Params().At(i)] = i
	}
	c.ret = make([]val, sig.Results().Len())
	for i := range c.ret {
		c.ret[i] = fresh()
		c.named = append(c.named, sig.Results().At(i))
	}
	// the declared objects of the AST parameters are the signature's variables
	for iter := 0; iter < 12; iter++ {
		c.change = false
		c.stmts(fd.Body, true)
		if !c.change {
			break
		}
	}
	s.results = c.ret
	s.done = true
	return s
}

func (c *fctx) typeOf(e ast.Expr) types.Type {
	if tv, ok := c.p.info.Types[e]; ok {
		return tv.Type
	}
	if id, ok := e.(*ast.Ident); ok {
		if o := c.p.info.Uses[id]; o != nil {
			return o.Type()
		}
		if o := c.p.info.Defs[id]; o != nil {
			return o.Type()
		}
	}
	return nil
}

func (c *fctx) pos(n ast.Node) string {
	p := c.a.l.fset.Position(n.Pos())
	return fmt.Sprintf("%s:%d", filepath.Base(p.Filename), p.Line)
}

func (c *fctx) setEnv(v *types.Var, x val) {
	old, ok := c.env[v]
	if !ok {
		old = fresh()
		c.env[v] = old
	}
	if old.self.add(x.self) {
		c.change = true
	}
	if old.inner.add(x.inner) {
		c.change = true
	}
}

func (c *fctx) addInner(v *types.Var, a aset) {
	old, ok := c.env[v]
	if !ok {
		old = fresh()
		c.env[v] = old
	}
	if old.inner.add(a) {
		c.change = true
	}
}

func (c *fctx) varOf(id *ast.Ident) *types.Var {
	if o, ok := c.p.info.Uses[id].(*types.Var); ok {
		return o
	}
	if o, ok := c.p.info.Defs[id].(*types.Var); ok {
		return o
	}
	return nil
}

// rootVar: the local variable an lvalue expression is rooted in (x, x[i], x.f, *x ...)
func (c *fctx) rootVar(e ast.Expr) *types.Var {
	for {
		switch x := e.(type) {
		case *ast.Ident:
			v := c.varOf(x)
			if v == nil || v.IsField() || v == c.recv {
				return nil
			}
			if _, isParam := c.params[v]; isParam {
				return nil
			}
			if v.Parent() == nil || v.Parent() == v.Pkg().Scope() { // package level
				return nil
			}
			return v
		case *ast.IndexExpr:
			e = x.X
		case *ast.SelectorExpr:
			e = x.X
		case *ast.StarExpr:
			e = x.X
		case *ast.ParenExpr:
			e = x.X
		case *ast.SliceExpr:
			e = x.X
		default:
			return nil
		}
	}
}

func (c *fctx) evalIdent(id *ast.Ident) val {
	if id.Name == "nil" || id.Name == "_" {
		return fresh()
	}
	o := c.p.info.Uses[id]
	if o == nil {
		o = c.p.info.Defs[id]
	}
	v, ok := o.(*types.Var)
	if !ok {
		return fresh()
	}
	if !carries(v.Type()) {
		return fresh()
	}
	if v == c.recv {
		return val{one(atom{kind: "recv"}), one(atom{kind: "recvin"})}
	}
	if i, ok := c.params[v]; ok {
		return val{one(atom{kind: "param", n: i, desc: v.Name()}), one(atom{kind: "paramin", n: i, desc: v.Name()})}
	}
	if v.Pkg() != nil && v.Parent() == v.Pkg().Scope() {
		return both(one(atom{kind: "global", desc: v.Name()}))
	}
	if x, ok := c.env[v]; ok {
		return val{union(x.self), union(x.inner)}
	}
	return fresh()
}

func describe(a aset, field string) aset {
	r := aset{}
	for k := range a {
		if (k.kind == "recv" || k.kind == "recvin") && k.desc == "" {
			k.desc = field
		}
		r[k] = true
	}
	return r
}

func (c *fctx) eval(e ast.Expr) val {
	t := c.typeOf(e)
	if t != nil && !carries(t) {
		if _, isTuple := t.(*types.Tuple); !isTuple {
			return fresh()
		}
	}
	switch x := e.(type) {
	case *ast.ParenExpr:
		return c.eval(x.X)
	case *ast.Ident:
		return c.evalIdent(x)
	case *ast.BasicLit, *ast.FuncLit, *ast.BinaryExpr:
		return fresh()
	case *ast.SelectorExpr:
		if sel, ok := c.p.info.Selections[x]; ok {
			if sel.Kind() == types.FieldVal {
				base := c.eval(x.X)
				// a field lives where its record lives; what it contains is what the record contains
				all := describe(union(base.self, base.inner), x.Sel.Name)
				ft := sel.Type()
				if et := elemType(ft); isContainer(ft) && et != nil && isContainer(et) {
					return val{all, union(all)}
				}
				if len(base.self) == 0 {
					// a record built in this function: its fields are not tracked one by one
					return val{all, describe(union(base.inner), x.Sel.Name)}
				}
				// records kept in the structure (elements of an internal []*T / map[K]*T, sub-records) are
				// opaque: shared by design; selecting a slice / map field through one is a view again
				return val{all, aset{}}
			}
			return fresh() // method value
		}
		// qualified identifier pkg.Name
		if o, ok := c.p.info.Uses[x.Sel].(*types.Var); ok && carries(o.Type()) {
			return both(one(atom{kind: "global", desc: x.Sel.Name}))
		}
		if c.typeOf(e) == nil {
			return both(one(atom{kind: "ext", desc: exprString(e)}))
		}
		return fresh()
	case *ast.IndexExpr:
		xt := c.typeOf(x.X)
		if xt != nil {
			if b, ok := xt.Underlying().(*types.Basic); ok && b.Info()&types.IsString != 0 {
				return fresh()
			}
			if _, isSig := xt.Underlying().(*types.Signature); isSig { // generic instantiation
				return fresh()
			}
		}
		return elemOf(c.eval(x.X), t)
	case *ast.SliceExpr:
		xt := c.typeOf(x.X)
		if xt != nil {
			if b, ok := xt.Underlying().(*types.Basic); ok && b.Info()&types.IsString != 0 {
				return fresh()
			}
		}
		return c.eval(x.X)
	case *ast.StarExpr:
		return c.eval(x.X)
	case *ast.UnaryExpr:
		if x.Op == token.AND {
			return c.eval(x.X)
		}
		if x.Op == token.ARROW {
			return both(one(atom{kind: "ext", desc: "received from a channel"}))
		}
		return fresh()
	case *ast.TypeAssertExpr:
		return c.eval(x.X)
	case *ast.CompositeLit:
		r := fresh()
		for _, el := range x.Elts {
			if kv, ok := el.(*ast.KeyValueExpr); ok {
				if _, isMap := underlying(t).(*types.Map); isMap {
					r.inner.add(contribution(c.eval(kv.Key), c.typeOf(kv.Key)))
				}
				el = kv.Value
			}
			r.inner.add(contribution(c.eval(el), c.typeOf(el)))
		}
		return r
	case *ast.CallExpr:
		rs := c.call(x)
		if len(rs) == 0 {
			return fresh()
		}
		return rs[0]
	}
	return both(one(atom{kind: "unknown", desc: c.pos(e)}))
}

func exprString(e ast.Expr) string {
	switch x := e.(type) {
	case *ast.Ident:
		return x.Name
	case *ast.SelectorExpr:
		return exprString(x.X) + "." + x.Sel.Name
	case *ast.CallExpr:
		return exprString(x.Fun) + "()"
	case *ast.StarExpr:
		return exprString(x.X)
	case *ast.ParenExpr:
		return exprString(x.X)
	case *ast.IndexExpr:
		return exprString(x.X)
	}
	return "?"
}

// substitute the symbolic atoms of a callee summary by the values at the call site
func substitute(r val, recv *val, args []val, via string) val {
	sub := func(s aset) aset {
		out := aset{}
		for k := range s {
			switch k.kind {
			case "recv":
				if recv != nil {
					for a := range recv.self {
						out[tag(a, k.desc, via)] = true
					}
				}
			case "recvin":
				if recv != nil {
					for a := range recv.inner {
						out[tag(a, k.desc, via)] = true
					}
				}
			case "param":
				if k.n < len(args) {
					for a := range args[k.n].self {
						out[tag(a, "", via)] = true
					}
				}
			case "paramin":
				if k.n < len(args) {
					for a := range args[k.n].inner {
						out[tag(a, "", via)] = true
					}
				}
			default:
				out[k] = true
			}
		}
		return out
	}
	return val{sub(r.self), sub(r.inner)}
}

func tag(a atom, calleeDesc, via string) atom {
	if a.kind == "recv" || a.kind == "recvin" {
		if a.desc == "" {
			a.desc = calleeDesc
		}
		if via != "" && !strings.Contains(a.desc, " via ") {
			a.desc += " via " + via
		}
	}
	return a
}

func funcName(fn *types.Func) string {
	sig := fn.Type().(*types.Signature)
	if r := sig.Recv(); r != nil {
		t := r.Type()
		if p, ok := t.(*types.Pointer); ok {
			t = p.Elem()
		}
		if n, ok := t.(*types.Named); ok {
			return n.Obj().Name() + "." + fn.Name()
		}
	}
	if fn.Pkg() != nil {
		return fn.Pkg().Name() + "." + fn.Name()
	}
	return fn.Name()
}

// call returns one abstract value per result
func (c *fctx) call(x *ast.CallExpr) []val {
	// conversion
	if tv, ok := c.p.info.Types[x.Fun]; ok && tv.IsType() {
		if len(x.Args) == 1 {
			at := c.typeOf(x.Args[0])
			if at != nil {
				if b, ok := at.Underlying().(*types.Basic); ok && (b.Info()&types.IsString != 0 || b.Kind() == types.UntypedNil) {
					return []val{fresh()}
				}
			}
			return []val{c.eval(x.Args[0])}
		}
		return []val{fresh()}
	}
	fun := x.Fun
	if p, ok := fun.(*ast.ParenExpr); ok {
		fun = p.X
	}
	if ix, ok := fun.(*ast.IndexExpr); ok { // explicit instantiation f[T](...)
		fun = ix.X
	}
	// builtins
	if id, ok := fun.(*ast.Ident); ok {
		if _, isBuiltin := c.p.info.Uses[id].(*types.Builtin); isBuiltin {
			switch id.Name {
			case "append":
				if len(x.Args) == 0 {
					return []val{fresh()}
				}
				base := c.eval(x.Args[0])
				r := val{union(base.self), union(base.inner)}
				for i, a := range x.Args[1:] {
					if x.Ellipsis.IsValid() && i == len(x.Args)-2 {
						at := c.typeOf(a)
						r.inner.add(contribution(elemOf(c.eval(a), elemType(at)), elemType(at)))
					} else {
						r.inner.add(contribution(c.eval(a), c.typeOf(a)))
					}
				}
				return []val{r}
			case "copy":
				if len(x.Args) == 2 {
					if v := c.rootVar(x.Args[0]); v != nil {
						at := c.typeOf(x.Args[1])
						c.addInner(v, contribution(elemOf(c.eval(x.Args[1]), elemType(at)), elemType(at)))
					}
				}
				return []val{fresh()}
			default: // make, new, len, cap, delete, min, max ...
				return []val{fresh()}
			}
		}
	}
	// a function or method of the repository
	var fn *types.Func
	var recvExpr ast.Expr
	switch f := fun.(type) {
	case *ast.Ident:
		fn, _ = c.p.info.Uses[f].(*types.Func)
	case *ast.SelectorExpr:
		if sel, ok := c.p.info.Selections[f]; ok {
			if sel.Kind() == types.MethodVal {
				fn, _ = sel.Obj().(*types.Func)
				recvExpr = f.X
			}
		} else {
			fn, _ = c.p.info.Uses[f.Sel].(*types.Func)
		}
	}
	nres := 1
	if t := c.typeOf(x); t != nil {
		if tup, ok := t.(*types.Tuple); ok {
			nres = tup.Len()
		}
	}
	args := make([]val, len(x.Args))
	for i, a := range x.Args {
		args[i] = c.eval(a)
	}
	if fn != nil {
		fn = fn.Origin()
		if _, isIface := recvIface(fn); !isIface {
			if s := c.a.summarise(fn); s != nil {
				var rv *val
				if recvExpr != nil {
					v := c.eval(recvExpr)
					rv = &v
				}
				out := make([]val, len(s.results))
				for i, r := range s.results {
					out[i] = substitute(r, rv, args, funcName(fn))
				}
				return out
			}
			if c.a.pkgOf(fn) != nil {
				if _, inProgress := c.a.sums[fn]; inProgress {
					out := make([]val, nres)
					for i := range out {
						out[i] = both(one(atom{kind: "unknown", desc: "recursive call of " + funcName(fn) + " at " + c.pos(x)}))
					}
					return out
				}
			}
		}
	}
	// outside the analysed code: standard library, other modules, interface methods, function values
	name := exprString(fun)
	if fn != nil {
		name = funcName(fn)
	}
	out := make([]val, nres)
	for i := range out {
		out[i] = both(one(atom{kind: "ext", desc: name}))
		// sort.Slice & co. return nothing that matters; a few well-known allocating functions are fresh
		if fn != nil && fn.Pkg() != nil {
			switch fn.Pkg().Path() + "." + fn.Name() {
			case "fmt.Sprintf", "fmt.Errorf", "errors.New", "bytes.Join", "bytes.Repeat", "strings.Split":
				out[i] = fresh()
			}
		}
	}
	return out
}

func recvIface(fn *types.Func) (*types.Interface, bool) {
	sig, ok := fn.Type().(*types.Signature)
	if !ok || sig.Recv() == nil {
		return nil, false
	}
	i, ok := sig.Recv().Type().Underlying().(*types.Interface)
	return i, ok
}

func (c *fctx) assign(lhs ast.Expr, v val, rhsType types.Type) {
	switch l := lhs.(type) {
	case *ast.Ident:
		if l.Name == "_" {
			return
		}
		if x := c.varOf(l); x != nil {
			if x == c.recv {
				return
			}
			if _, isParam := c.params[x]; isParam {
				// a reassigned parameter (blocks = blocks[k:]) still aliases the argument plus the new value
				c.setEnvParam(x, v)
				return
			}
			if x.Pkg() != nil && x.Parent() == x.Pkg().Scope() {
				return
			}
			if carries(x.Type()) {
				c.setEnv(x, v)
			}
		}
	case *ast.ParenExpr:
		c.assign(l.X, v, rhsType)
	case *ast.IndexExpr, *ast.SelectorExpr, *ast.StarExpr:
		if x := c.rootVar(lhs); x != nil {
			c.addInner(x, contribution(v, rhsType))
		}
	}
}

// parameters that are reassigned are rare; keep them symbolic and ignore the new value unless it is worse
func (c *fctx) setEnvParam(x *types.Var, v val) {}

func (c *fctx) stmts(n ast.Node, top bool) {
	ast.Inspect(n, func(n ast.Node) bool {
		switch s := n.(type) {
		case *ast.FuncLit:
			// assignments to captured variables count, `return` belongs to the literal
			c.stmts(s.Body, false)
			return false
		case *ast.AssignStmt:
			if len(s.Rhs) == 1 && len(s.Lhs) > 1 {
				var vs []val
				var ts []types.Type
				switch r := s.Rhs[0].(type) {
				case *ast.CallExpr:
					vs = c.call(r)
					if tup, ok := c.typeOf(r).(*types.Tuple); ok {
						for i := 0; i < tup.Len(); i++ {
							ts = append(ts, tup.At(i).Type())
						}
					}
				default: // v, ok := m[k] / x.(T) / <-ch
					vs = []val{c.eval(r)}
					ts = []types.Type{c.typeOf(s.Lhs[0])}
				}
				for i, l := range s.Lhs {
					if i < len(vs) {
						var t types.Type
						if i < len(ts) {
							t = ts[i]
						}
						c.assign(l, vs[i], t)
					}
				}
				return true
			}
			for i, l := range s.Lhs {
				if i < len(s.Rhs) {
					c.assign(l, c.eval(s.Rhs[i]), c.typeOf(s.Rhs[i]))
				}
			}
		case *ast.ValueSpec:
			for i, name := range s.Names {
				if i < len(s.Values) {
					c.assign(name, c.eval(s.Values[i]), c.typeOf(s.Values[i]))
				}
			}
		case *ast.RangeStmt:
			xt := c.typeOf(s.X)
			xv := c.eval(s.X)
			if s.Value != nil {
				c.assign(s.Value, elemOf(xv, elemType(xt)), elemType(xt))
			}
			if s.Key != nil {
				if m, ok := underlying(xt).(*types.Map); ok && carries(m.Key()) && !carriesBasic(m.Key()) {
					c.assign(s.Key, elemOf(xv, m.Key()), m.Key())
				}
			}
		case *ast.ExprStmt:
			if call, ok := s.X.(*ast.CallExpr); ok {
				c.call(call)
			}
		case *ast.ReturnStmt:
			if !top {
				return true
			}
			if len(s.Results) == 0 {
				for i, nv := range c.named {
					if nv != nil && nv.Name() != "" && nv.Name() != "_" {
						if x, ok := c.env[nv]; ok {
							c.retJoin(i, x)
						}
					}
				}
				return true
			}
			if len(s.Results) == 1 && len(c.ret) > 1 {
				if call, ok := s.Results[0].(*ast.CallExpr); ok {
					for i, v := range c.call(call) {
						if i < len(c.ret) {
							c.retJoin(i, v)
						}
					}
				}
				return true
			}
			for i, r := range s.Results {
				if i < len(c.ret) {
					c.retJoin(i, c.eval(r))
				}
			}
		}
		return true
	})
}

func (c *fctx) retJoin(i int, v val) {
	if c.ret[i].self.add(v.self) {
		c.change = true
	}
	if c.ret[i].inner.add(v.inner) {
		c.change = true
	}
}

// ---------------------------------------------------------------------------------------------
// classification and output

func classify(a aset) (string, string) {
	rank := map[string]int{"fresh": 0, "ext": 1, "param": 2, "global": 3, "view": 4, "unknown": 5}
	cls := "fresh"
	whys := map[string][]string{}
	for k := range a {
		c := k.kind
		switch c {
		case "recv", "recvin":
			c = "view"
		case "paramin":
			c = "param"
		}
		if rank[c] > rank[cls] {
			cls = c
		}
		if k.desc != "" && !contains(whys[c], k.desc) {
			whys[c] = append(whys[c], k.desc)
		}
	}
	sort.Strings(whys[cls])
	return cls, strings.Join(whys[cls], "; ")
}

func contains(l []string, s string) bool {
	for _, x := range l {
		if x == s {
			return true
		}
	}
	return false
}

// fieldWrites: every statement that writes a field of a target type (assignment to the field or through
// it, ++/--, delete / copy into it), with the function it occurs in — the facts behind "immutable after
// construction" exceptions.
func fieldWrites(l *loader) [][2]string {
	seen := map[[2]string]bool{}
	isTarget := map[string]string{}
	for _, tc := range targets {
		isTarget[modulePath+tc.pkg+"."+tc.name] = tc.name
	}
	done := map[string]bool{}
	for _, tc := range targets {
		path := modulePath + tc.pkg
		if done[path] {
			continue
		}
		done[path] = true
		p := l.load(path)
		record := func(fn string, e ast.Expr) {
			for {
				switch x := e.(type) {
				case *ast.IndexExpr:
					e = x.X
					continue
				case *ast.SliceExpr:
					e = x.X
					continue
				case *ast.StarExpr:
					e = x.X
					continue
				case *ast.ParenExpr:
					e = x.X
					continue
				case *ast.SelectorExpr:
					if sel, ok := p.info.Selections[x]; ok && sel.Kind() == types.FieldVal {
						rt := sel.Recv()
						if pt, ok := rt.(*types.Pointer); ok {
							rt = pt.Elem()
						}
						if n, ok := rt.(*types.Named); ok && n.Obj().Pkg() != nil {
							if tn, ok := isTarget[n.Obj().Pkg().Path()+"."+n.Obj().Name()]; ok {
								seen[[2]string{tn + "." + x.Sel.Name, fn}] = true
							}
						}
					}
					e = x.X
					continue
				}
				return
			}
		}
		var names []string
		for n := range p.files {
			names = append(names, n)
		}
		sort.Strings(names)
		for _, n := range names {
			for _, d := range p.files[n].Decls {
				fd, ok := d.(*ast.FuncDecl)
				if !ok || fd.Body == nil {
					continue
				}
				fname := fd.Name.Name
				if fn, ok := p.info.Defs[fd.Name].(*types.Func); ok {
					fname = funcName(fn)
				}
				ast.Inspect(fd.Body, func(n ast.Node) bool {
					switch s := n.(type) {
					case *ast.AssignStmt:
						for _, lh := range s.Lhs {
							record(fname, lh)
						}
					case *ast.IncDecStmt:
						record(fname, s.X)
					case *ast.CallExpr:
						if id, ok := s.Fun.(*ast.Ident); ok && (id.Name == "delete" || id.Name == "copy") && len(s.Args) > 0 {
							if _, isBuiltin := p.info.Uses[id].(*types.Builtin); isBuiltin {
								record(fname, s.Args[0])
							}
						}
					}
					return true
				})
			}
		}
	}
	var out [][2]string
	for k := range seen {
		out = append(out, k)
	}
	sort.Slice(out, func(i, j int) bool {
		if out[i][0] != out[j][0] {
			return out[i][0] < out[j][0]
		}
		return out[i][1] < out[j][1]
	})
	return out
}

type row struct {
	name     string
	result   int
	typ      string
	exported bool
	guarded  bool
	shallow  string
	deep     string
	why      string
	file     string
	line     int
}

func leanStr(s string) string {
	s = strings.ReplaceAll(s, "\\", "\\\\")
	s = strings.ReplaceAll(s, "\"", "\\\"")
	return "\"" + s + "\""
}

func main() {
	repo := flag.String("repo", "/repo", "repository root")
	leandir := flag.String("leandir", "../../lean/LiskVerif/Gen", "directory of the generated Lean file")
	set := flag.String("set", "", "target set: \"\" = the C20 types (Alias.lean), \"fw\" = framework types of C16 (AliasFW.lean)")
	flag.Parse()
	leanName := "Alias"
	if *set == "fw" {
		targets = targetsFW
		leanName = "AliasFW"
	} else if *set != "" {
		fmt.Fprintln(os.Stderr, "aliasgen: unknown set", *set)
		os.Exit(1)
	}
	fset := token.NewFileSet()
	l := &loader{repo: *repo, fset: fset, pkgs: map[string]*pkgData{}, fake: map[string]*types.Package{}}
	l.std = importer.ForCompiler(fset, "source", nil)
	a := &analyser{l: l, sums: map[*types.Func]*summary{}}
	var rows []row
	for _, tc := range targets {
		p := l.load(modulePath + tc.pkg)
		if p == nil {
			fmt.Fprintln(os.Stderr, "aliasgen: cannot load", tc.pkg)
			os.Exit(1)
		}
		f := p.files[tc.file]
		if f == nil {
			fmt.Fprintln(os.Stderr, "aliasgen: no file", tc.file, "in", tc.pkg)
			os.Exit(1)
		}
		for _, d := range f.Decls {
			fd, ok := d.(*ast.FuncDecl)
			if !ok || fd.Body == nil || (fd.Recv == nil && !tc.free) {
				continue
			}
			fn, ok := p.info.Defs[fd.Name].(*types.Func)
			if !ok {
				continue
			}
			sig := fn.Type().(*types.Signature)
			rowName := tc.name + "." + fn.Name()
			if fd.Recv == nil {
				rowName = strings.TrimSuffix(tc.file, ".go") + "." + fn.Name()
			} else {
				rt := sig.Recv().Type()
				if pt, ok := rt.(*types.Pointer); ok {
					rt = pt.Elem()
				}
				named, ok := rt.(*types.Named)
				if !ok || named.Obj().Name() != tc.name {
					continue
				}
			}
			s := a.summarise(fn)
			pos := fset.Position(fd.Pos())
			for i := 0; i < sig.Results().Len(); i++ {
				t := sig.Results().At(i).Type()
				if !carries(t) {
					continue
				}
				r := row{name: rowName, result: i, typ: types.TypeString(t, func(p *types.Package) string { return p.Name() }),
					exported: fn.Exported(), guarded: tc.guarded, file: strings.TrimPrefix(pos.Filename, *repo+"/"), line: pos.Line}
				if s == nil {
					r.shallow, r.deep, r.why = "unknown", "unknown", "no summary"
				} else {
					v := s.results[i]
					sh, why1 := classify(v.self)
					dp, why2 := classify(v.inner)
					if isRecord(t) {
						sh, why1 = "record", ""
					}
					r.shallow, r.deep = sh, dp
					r.why = why1
					if why1 == "" || (dp != "fresh" && sh == "fresh") || sh == "record" {
						r.why = why2
					}
				}
				rows = append(rows, r)
			}
		}
	}
	var b strings.Builder
	b.WriteString("/- GENERATED by tools/aliasgen from /repo — do not edit. Regenerated on every check run. -/\n")
	b.WriteString("import LiskVerif.Model.Alias\n\nnamespace LiskVerif.Gen." + leanName + "\nopen LiskVerif.Alias\n\n")
	if *set == "" {
		b.WriteString("/-- one row per memory-carrying result of every method of the C20 types: who owns what the caller receives -/\n")
	} else {
		b.WriteString("/-- one row per memory-carrying result of every method / function of the target set `" + *set + "`: who owns what the caller receives -/\n")
	}
	b.WriteString("def table : List Row :=\n  [")
	for i, r := range rows {
		if i > 0 {
			b.WriteString(",\n   ")
		}
		fmt.Fprintf(&b, "-- %s:%d\n   ", r.file, r.line)
		fmt.Fprintf(&b, "⟨%s, %d, %s, %v, %v, .%s, .%s, %s⟩", leanStr(r.name), r.result, leanStr(r.typ), r.exported, r.guarded, leanCls(r.shallow), leanCls(r.deep), leanStr(r.why))
	}
	b.WriteString("]\n\n/-- (Type.field, function) for every statement that writes a field of one of the types (or through it) -/\n")
	b.WriteString("def fieldWrites : List (String × String) :=\n  [")
	for i, w := range fieldWrites(l) {
		if i > 0 {
			b.WriteString(",\n   ")
		}
		fmt.Fprintf(&b, "(%s, %s)", leanStr(w[0]), leanStr(w[1]))
	}
	b.WriteString("]\n\nend LiskVerif.Gen." + leanName + "\n")
	out := filepath.Join(*leandir, leanName+".lean")
	if err := os.WriteFile(out, []byte(b.String()), 0o644); err != nil {
		fmt.Fprintln(os.Stderr, err)
		os.Exit(1)
	}
	nv := 0
	for _, r := range rows {
		if r.shallow == "view" || r.deep == "view" || r.shallow == "unknown" || r.deep == "unknown" {
			nv++
			fmt.Printf("aliasgen: %s result %d (%s): shallow %s, deep %s — %s\n", r.name, r.result, r.typ, r.shallow, r.deep, r.why)
		}
	}
	fmt.Printf("aliasgen: %d results of %d types classified, %d view/unknown -> %s\n", len(rows), len(targets), nv, out)
}

func leanCls(s string) string {
	if s == "global" {
		return "global_"
	}
	return s
}
