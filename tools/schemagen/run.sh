#!/bin/sh
# regenerate lean/LiskVerif/Gen/Schemas.lean and .build/schemas.json from /repo
set -e
cd "$(dirname "$0")"
export GOFLAGS=-mod=mod GOPROXY=off GOSUMDB=off GOTOOLCHAIN=local
mkdir -p ../../.build ../../lean/LiskVerif/Gen
go build -o ../../.build/schemagen .
../../.build/schemagen -repo "${VERIF_REPO:-/repo}" -lean ../../lean/LiskVerif/Gen/Schemas.lean -json ../../.build/schemas.json "$@"
