module schemagen

go 1.21
