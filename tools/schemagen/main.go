// Command schemagen regenerates the codec schema table from the generated *_codec.go files of
// /repo (the code that actually runs): for every struct the field lists of Encode,
// DecodeFromReader and DecodeStrictFromReader. Output: lean/LiskVerif/Gen/Schemas.lean and
// .build/schemas.json (for the Go harness). With -hooks it (re)writes the verif-tagged codec
// registry files in /repo.
package main

import (
	"encoding/json"
	"fmt"
	"go/ast"
	"go/parser"
	"go/token"
	"os"
	"path/filepath"
	"sort"
	"strconv"
	"strings"
)

type Field struct {
	Num    int    `json:"num"`
	Kind   string `json:"kind"`
	Nested string `json:"nested,omitempty"`
	Strict bool   `json:"strict,omitempty"`
	Src    string `json:"src,omitempty"`
}

type Schema struct {
	Name      string  `json:"name"`
	Pkg       string  `json:"pkg"`     // import path
	PkgName   string  `json:"pkgName"` // package clause
	Type      string  `json:"type"`
	File      string  `json:"file"`
	Enc       []Field `json:"enc"`
	Dec       []Field `json:"dec"`
	DecStrict []Field `json:"decStrict"`
}

var writeKinds = map[string]string{
	"WriteUInt": "uint", "WriteUInt32": "uint32", "WriteInt32": "int32", "WriteBool": "bool", "WriteBytes": "bytes",
	"WriteString": "string", "WriteBytesArray": "bytesArr", "WriteUInts": "uints",
}
var readKinds = map[string]string{
	"ReadUInt": "uint", "ReadUInt32": "uint32", "ReadInt32": "int32", "ReadBool": "bool", "ReadBytes": "bytes",
	"ReadString": "string", "ReadBytesArray": "bytesArr", "ReadUInts": "uints",
	"ReadDecodable": "msg", "ReadDecodables": "msgArr",
}

func intLit(e ast.Expr) (int, bool) {
	b, ok := e.(*ast.BasicLit)
	if !ok || b.Kind != token.INT {
		return 0, false
	}
	n, err := strconv.Atoi(b.Value)
	return n, err == nil
}

func src(fset *token.FileSet, n ast.Node) string {
	return fmt.Sprintf("%s", fset.Position(n.Pos()))
}

// writerCall finds writer.WriteX(n, ...) in a statement (possibly wrapped in if / block / range).
func collectWrites(fset *token.FileSet, s ast.Stmt, inLoop bool, out *[]Field) {
	switch x := s.(type) {
	case *ast.ExprStmt:
		ce, ok := x.X.(*ast.CallExpr)
		if !ok {
			return
		}
		se, ok := ce.Fun.(*ast.SelectorExpr)
		if !ok {
			return
		}
		if id, ok := se.X.(*ast.Ident); !ok || id.Name != "writer" {
			return
		}
		n, ok := intLit(ce.Args[0])
		if !ok {
			*out = append(*out, Field{Kind: "unknown", Src: src(fset, s)})
			return
		}
		if se.Sel.Name == "WriteEncodable" {
			k := "msg"
			if inLoop {
				k = "msgArr"
			}
			*out = append(*out, Field{Num: n, Kind: k})
			return
		}
		k, ok := writeKinds[se.Sel.Name]
		if !ok {
			*out = append(*out, Field{Num: n, Kind: "unknown", Src: se.Sel.Name + " at " + src(fset, s)})
			return
		}
		*out = append(*out, Field{Num: n, Kind: k})
	case *ast.IfStmt:
		for _, b := range x.Body.List {
			collectWrites(fset, b, inLoop, out)
		}
	case *ast.BlockStmt:
		for _, b := range x.List {
			collectWrites(fset, b, inLoop, out)
		}
	case *ast.RangeStmt:
		for _, b := range x.Body.List {
			collectWrites(fset, b, true, out)
		}
	}
}

func typeName(e ast.Expr, pkgName string, imports map[string]string) string {
	switch t := e.(type) {
	case *ast.Ident:
		return pkgName + "." + t.Name
	case *ast.SelectorExpr:
		if id, ok := t.X.(*ast.Ident); ok {
			if p, ok := imports[id.Name]; ok {
				return filepath.Base(p) + "." + t.Sel.Name
			}
			return id.Name + "." + t.Sel.Name
		}
	}
	return "?"
}

func collectReads(fset *token.FileSet, body *ast.BlockStmt, pkgName string, imports map[string]string) []Field {
	var out []Field
	ast.Inspect(body, func(n ast.Node) bool {
		ce, ok := n.(*ast.CallExpr)
		if !ok {
			return true
		}
		se, ok := ce.Fun.(*ast.SelectorExpr)
		if !ok {
			return true
		}
		id, ok := se.X.(*ast.Ident)
		if !ok || id.Name != "reader" {
			return true
		}
		k, ok := readKinds[se.Sel.Name]
		if !ok {
			out = append(out, Field{Kind: "unknown", Src: se.Sel.Name + " at " + src(fset, ce)})
			return false
		}
		num, ok := intLit(ce.Args[0])
		if !ok {
			out = append(out, Field{Kind: "unknown", Src: src(fset, ce)})
			return false
		}
		f := Field{Num: num, Kind: k}
		if k == "msg" || k == "msgArr" {
			// creator: func() codec.DecodableReader { return new(T) }
			if fl, ok := ce.Args[1].(*ast.FuncLit); ok && len(fl.Body.List) == 1 {
				if rs, ok := fl.Body.List[0].(*ast.ReturnStmt); ok && len(rs.Results) == 1 {
					if nc, ok := rs.Results[0].(*ast.CallExpr); ok && len(nc.Args) == 1 {
						f.Nested = typeName(nc.Args[0], pkgName, imports)
					}
				}
			}
			if f.Nested == "" {
				f.Kind, f.Src = "unknown", "creator at "+src(fset, ce)
			}
		}
		// strict flag: last argument when it is a bool literal
		last := ce.Args[len(ce.Args)-1]
		if bid, ok := last.(*ast.Ident); ok && bid.Name == "true" {
			f.Strict = true
		}
		out = append(out, f)
		return false
	})
	return out
}

func leanStr(s string) string { return strconv.Quote(s) }

func leanFields(fs []Field) string {
	parts := []string{}
	for _, f := range fs {
		kind := "." + f.Kind
		switch f.Kind {
		case "msg", "msgArr":
			kind = "(." + f.Kind + " " + leanStr(f.Nested) + ")"
		case "unknown":
			kind = "(.unknown " + leanStr(f.Src) + ")"
		}
		parts = append(parts, fmt.Sprintf("{ num := %d, kind := %s, strict := %v }", f.Num, kind, f.Strict))
	}
	return "[" + strings.Join(parts, ", ") + "]"
}

func main() {
	repo, leanOut, jsonOut := "/repo", "", ""
	hooks := false
	for i := 1; i < len(os.Args); i++ {
		switch os.Args[i] {
		case "-repo":
			repo = os.Args[i+1]
			i++
		case "-lean":
			leanOut = os.Args[i+1]
			i++
		case "-json":
			jsonOut = os.Args[i+1]
			i++
		case "-hooks":
			hooks = true
		}
	}
	var files []string
	_ = filepath.Walk(filepath.Join(repo, "pkg"), func(p string, info os.FileInfo, err error) error {
		if err == nil && strings.HasSuffix(p, "_codec.go") && !strings.Contains(p, "/internal/") {
			files = append(files, p)
		}
		return nil
	})
	sort.Strings(files)
	fset := token.NewFileSet()
	var schemas []*Schema
	for _, file := range files {
		f, err := parser.ParseFile(fset, file, nil, 0)
		if err != nil {
			fmt.Fprintln(os.Stderr, "schemagen:", err)
			os.Exit(1)
		}
		rel, _ := filepath.Rel(repo, file)
		imports := map[string]string{}
		for _, im := range f.Imports {
			p, _ := strconv.Unquote(im.Path.Value)
			name := filepath.Base(p)
			if im.Name != nil {
				name = im.Name.Name
			}
			imports[name] = p
		}
		byType := map[string]*Schema{}
		get := func(t string) *Schema {
			s := byType[t]
			if s == nil {
				s = &Schema{Name: f.Name.Name + "." + t, Pkg: "github.com/LiskHQ/lisk-engine/" + filepath.ToSlash(filepath.Dir(rel)), PkgName: f.Name.Name, Type: t, File: rel}
				byType[t] = s
				schemas = append(schemas, s)
			}
			return s
		}
		for _, d := range f.Decls {
			fd, ok := d.(*ast.FuncDecl)
			if !ok || fd.Recv == nil || len(fd.Recv.List) != 1 {
				continue
			}
			st, ok := fd.Recv.List[0].Type.(*ast.StarExpr)
			if !ok {
				continue
			}
			tid, ok := st.X.(*ast.Ident)
			if !ok {
				continue
			}
			switch fd.Name.Name {
			case "Encode":
				s := get(tid.Name)
				for _, stmt := range fd.Body.List {
					collectWrites(fset, stmt, false, &s.Enc)
				}
			case "DecodeFromReader":
				get(tid.Name).Dec = collectReads(fset, fd.Body, f.Name.Name, imports)
			case "DecodeStrictFromReader":
				get(tid.Name).DecStrict = collectReads(fset, fd.Body, f.Name.Name, imports)
			}
		}
	}
	// resolve nested type names of Encode from the decode list
	for _, s := range schemas {
		for i := range s.Enc {
			if s.Enc[i].Kind == "msg" || s.Enc[i].Kind == "msgArr" {
				for _, d := range s.Dec {
					if d.Num == s.Enc[i].Num {
						s.Enc[i].Nested = d.Nested
					}
				}
				if s.Enc[i].Nested == "" {
					s.Enc[i].Kind, s.Enc[i].Src = "unknown", "no decoder for encodable field"
				}
			}
		}
	}
	if jsonOut != "" {
		b, _ := json.MarshalIndent(schemas, "", " ")
		if err := os.WriteFile(jsonOut, b, 0o644); err != nil {
			fmt.Fprintln(os.Stderr, err)
			os.Exit(1)
		}
	}
	if leanOut != "" {
		var b strings.Builder
		b.WriteString("/- GENERATED by tools/schemagen from the *_codec.go files of /repo — do not edit. -/\nimport LiskVerif.Model.Codec\n\nnamespace LiskVerif.Gen\nopen LiskVerif.Codec\n\n")
		names := []string{}
		for i, s := range schemas {
			id := fmt.Sprintf("schema%d", i)
			names = append(names, id)
			fmt.Fprintf(&b, "/-- %s (%s) -/\ndef %s : Schema :=\n  { name := %s,\n    enc := %s,\n    dec := %s,\n    decStrict := %s }\n\n", s.Name, s.File, id, leanStr(s.Name), leanFields(s.Enc), leanFields(s.Dec), leanFields(s.DecStrict))
		}
		fmt.Fprintf(&b, "def allSchemas : Table := [%s]\n\nend LiskVerif.Gen\n", strings.Join(names, ", "))
		tmp := leanOut + ".tmp"
		if err := os.WriteFile(tmp, []byte(b.String()), 0o644); err != nil {
			fmt.Fprintln(os.Stderr, err)
			os.Exit(1)
		}
		_ = os.Rename(tmp, leanOut)
	}
	if hooks {
		byPkg := map[string][]*Schema{}
		for _, s := range schemas {
			dir := filepath.Dir(filepath.Join(repo, s.File))
			byPkg[dir] = append(byPkg[dir], s)
		}
		for dir, ss := range byPkg {
			var b strings.Builder
			b.WriteString("//go:build verif\n\n// Code generated by /verif/tools/schemagen -hooks; registers the package's codec structs for the verification harness.\n\npackage " + ss[0].PkgName + "\n\n")
			codecPkg := ss[0].PkgName == "codec"
			if !codecPkg {
				b.WriteString("import \"github.com/LiskHQ/lisk-engine/pkg/codec\"\n\n")
			}
			b.WriteString("func init() {\n")
			for _, s := range ss {
				fmt.Fprintf(&b, "\tcodec.VerifRegistry[%q] = func() codec.VerifCodec { return new(%s) }\n", s.Name, s.Type)
			}
			b.WriteString("}\n")
			if err := os.WriteFile(filepath.Join(dir, "codecreg_verif.go"), []byte(b.String()), 0o644); err != nil {
				fmt.Fprintln(os.Stderr, err)
				os.Exit(1)
			}
		}
		reg := "//go:build verif\n\npackage codec\n\n// VerifCodec is what every generated codec struct implements; used by the verification harness only.\ntype VerifCodec interface {\n\tEncodeDecodable\n\tDecodeStrict([]byte) error\n}\n\n// VerifRegistry maps \"<package>.<Type>\" to a constructor. Filled by the codecreg_verif.go files.\nvar VerifRegistry = map[string]func() VerifCodec{}\n"
		if err := os.WriteFile(filepath.Join(repo, "pkg/codec/registry_verif.go"), []byte(reg), 0o644); err != nil {
			fmt.Fprintln(os.Stderr, err)
			os.Exit(1)
		}
	}
	fmt.Fprintf(os.Stderr, "schemagen: %d structs from %d files\n", len(schemas), len(files))
}
