#!/bin/sh
# regenerate lean/LiskVerif/Gen/VerifySkeleton.lean (check / call skeletons of the block verification path, C03) from /repo
set -e
cd "$(dirname "$0")"
export GOFLAGS=-mod=mod GOPROXY=off GOSUMDB=off GOTOOLCHAIN=local
mkdir -p ../../.build ../../lean/LiskVerif/Gen
go build -o ../../.build/vskelgen .
../../.build/vskelgen -repo "${VERIF_REPO:-/repo}" -out ../../lean/LiskVerif/Gen/VerifySkeleton.lean
