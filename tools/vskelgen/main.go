// Command vskelgen regenerates lean/LiskVerif/Gen/VerifySkeleton.lean from the current source of
// /repo (tie A of property C03, DESIGN.md §6 C03; obligations in lean/LiskVerif/Props/C03_Gen.lean).
//
// With `-set bft` (run_bft.sh) the table is `bftTargets` instead - liskbft `Module.BeforeTransactionsExecute` and
// `BFTVotes.updateMaxHeightCertified` - and the output is lean/LiskVerif/Gen/BFTSkeleton.lean (namespace
// LiskVerif.Gen.BFTS; C06 / C02: the certified-height update and the pruning are unconditional, obligations in
// lean/LiskVerif/Props/C06_CertifiedGen.lean).
//
// For the functions of the block acceptance path (table `targets`) it extracts, in program order and
// as plain Lean data (`List Item`, strings only), the *verification skeleton*:
//
//	check   `if cond { [logging] return … }`: the guard (op, lhs, rhs) and what is returned
//	        (ret = err | errorf | new | nil); op callerr = `err != nil` for the error of call lhs
//	branch  an `if` whose body does more than return; its items follow with the condition in ctx
//	sub     statement-level call of another function of the table (callee = its name)
//	call    any other statement-level call (builtins and type conversions excepted)
//	write   chain.AddBlock / RemoveBlock, database.Set…, batch.Write, deleteBlock, syncer.Sync
//	stage   batch.Set / batch.Del / store.Commit(batch)      appwrite  the application's Commit
//	publish event emitter / p2p publish      clear  abi.Clear
//	set     assignment to an in-memory field of the receiver
//	ret     a return that is not the sole effect of an `if`
//
// ctx lists the enclosing `range(…)` loops, conditions, `go` and `defer`. Expressions are canonical
// strings: locals are replaced by their definitions (renaming a local changes nothing), the receiver is
// `self`, parameters keep their names, `x, y, err := f()` binds them to `f()#0`, `f()#1`, `f()#2`, locals
// assigned under an `if` become `ite(cond, new, old)`, accumulators of range loops `fold(range, init,
// step)`, locals filled in place `mut(…)`; the results of a few calls get fixed aliases (table
// `handleCtors`; the definitions are listed in `handles`). Comparisons of +,* arithmetic over such
// atoms are also emitted as Lean functions `g_<function>_<field>` over `Nat` (integer constants of
// `constDirs` inlined; types are NOT resolved, integer widths are not modelled, `-` is refused).
//
// Everything the translator does not understand is an ERROR and no output is written: unknown
// statement or expression forms, `else`, unlisted methods of the chain / database / batch / store / ABI
// handles, unlisted receiver fields, a database, chain or batch handle passed to an unlisted function,
// assignments to anything but locals, whitelisted receiver fields and fresh local objects, effectful
// calls in expression position. Logging and local declarations produce no items. Only go/ast, go/parser
// and the printer types.ExprString are used; names are resolved syntactically.
package main

import (
	"flag"
	"fmt"
	"go/ast"
	"go/parser"
	"go/token"
	"go/types"
	"os"
	"path/filepath"
	"sort"
	"strconv"
	"strings"
)

type target struct{ dir, recv, name string }

var targets = []target{
	{"pkg/consensus", "Executer", "process"},
	{"pkg/consensus", "Executer", "processValidated"},
	{"pkg/consensus", "Executer", "verifyBlock"},
	{"pkg/consensus", "Executer", "verifyAggregateCommit"},
	{"pkg/consensus", "", "newBlockExecuteABI"},
	{"pkg/consensus", "stateExecuter", "Verify"},
	{"pkg/consensus", "stateExecuter", "Execute"},
	{"pkg/consensus", "stateExecuter", "Commit"},
	{"pkg/consensus", "", "getABIConsensus"},
	{"pkg/blockchain", "Block", "Validate"},
	{"pkg/blockchain", "BlockHeader", "Validate"},
	{"pkg/blockchain", "Transaction", "Validate"},
	{"pkg/blockchain", "BlockAssets", "Valid"},
}

// table of `-set bft`: the per-header step of the BFT module
var bftTargets = []target{
	{"pkg/consensus/liskbft", "Module", "BeforeTransactionsExecute"},
	{"pkg/consensus/liskbft", "BFTVotes", "updateMaxHeightCertified"},
}

// namespace and header text of the output (overwritten by `-set bft`)
var outNS = "LiskVerif.Gen.VS"
var outDoc = "   Verification skeletons (ordered checks, calls, staging and write sites) of the block acceptance path:\n" +
	"   Executer.process / processValidated / verifyBlock / verifyAggregateCommit, stateExecuter, Block.Validate … -/\n\n"

// packages whose integer constants are resolved in guards
var constDirs = []string{"pkg/crypto", "pkg/blockchain", "pkg/labi"}

// canonical callee -> function of the table
var subs = map[string]string{
	"Executer|self.verifyBlock": "Executer.verifyBlock", "Executer|self.verifyAggregateCommit": "Executer.verifyAggregateCommit",
	"Executer|self.processValidated": "Executer.processValidated", "newBlockExecuteABI": "newBlockExecuteABI",
	"abi.Verify": "stateExecuter.Verify", "abi.Execute": "stateExecuter.Execute", "abi.Commit": "stateExecuter.Commit",
	"getABIConsensus": "getABIConsensus", "ctx.block.Validate": "Block.Validate",
	"Block|self.Header.Validate": "BlockHeader.Validate", "Block|self.Transactions[*].Validate": "Transaction.Validate",
	"BlockAssets(self.Assets).Valid": "BlockAssets.Valid",
}

// constructors whose result gets a fixed alias instead of being inlined
var handleCtors = map[string]string{"diffdb.New": "store", "newBlockExecuteABI": "abi", "Executer|self.database.NewBatch": "batch", "forkchoice.NewForkChoice": "fc",
	"Executer|self.liskBFT.API().GetGeneratorKeys": "generators", "generators.AtTimestamp": "generator", "Executer|self.liskBFT.API().GetBFTParameters": "bftParams",
	"Executer|self.chain.DataAccess().GetBlockHeaderByHeight": "acHeader", "Executer|self.liskBFT.API().GetBFTHeights": "bftHeights",
	"Executer|self.chain.DataAccess().GetFinalizedHeight": "finalized", "Executer|self.database.IterateKey": "diffKeys", "certificate.NewCertificateFromBlock": "cert",
	"stateExecuter|self.client.BeforeTransactionsExecute": "beforeTxs", "stateExecuter|self.client.VerifyTransaction": "txVerify",
	"stateExecuter|self.client.ExecuteTransaction": "txExec", "stateExecuter|self.client.AfterTransactionsExecute": "afterTxs"}

// classified callees; every other method of the prefixes in `closed` is an error
var callKinds = map[string]string{
	"Executer|self.chain.AddBlock": "write", "Executer|self.chain.RemoveBlock": "write", "Executer|self.database.Set": "write", "Executer|self.database.Del": "write",
	"Executer|self.database.Write": "write", "Executer|self.database.DropAll": "write", "batch.Write": "write", "Executer|self.deleteBlock": "write", "Executer|self.syncer.Sync": "write",
	"batch.Set": "stage", "batch.Del": "stage", "store.Commit": "stage",
	"stateExecuter|self.client.Commit": "appwrite", "abi.Clear": "clear",
	"Executer|self.events.Publish": "publish", "Executer|self.conn.Publish": "publish",
	"Executer|self.chain.LastBlock": "read", "Executer|self.chain.MaxTransactionsLength": "read", "Executer|self.chain.ChainID": "read", "Executer|self.chain.DataAccess": "read",
	"Executer|self.chain.DataAccess().GetFinalizedHeight": "read", "Executer|self.chain.DataAccess().GetBlockHeaderByHeight": "read",
	"Executer|self.database.IterateKey": "read", "Executer|self.database.NewBatch": "read", "Executer|self.database.Get": "read",
	"abi.Events": "read", "Executer|self.createSyncContext": "read",
}
var closed = []string{"Executer|self.chain.", "Executer|self.database.", "batch.", "store.", "abi.", "Executer|self.syncer.", "Executer|self.events.", "Executer|self.conn."}

// callees that may receive the bare database / chain / batch handle
var handleArgOK = map[string]bool{"diffdb.New": true, "Executer|self.chain.AddBlock": true, "Executer|self.chain.RemoveBlock": true, "store.Commit": true}

// receiver fields that may be mentioned (types without an entry are plain data: every field)
var selfFields = map[string]string{
	"Executer":      " liskBFT blockSlot logger abi events conn lastBlockReceived syncying syncer chain database ",
	"stateExecuter": " client bft contextID consensus events ",
}

// in-memory receiver fields that may be assigned
var setFields = map[string]bool{"Executer|self.lastBlockReceived": true, "Executer|self.syncying": true, "stateExecuter|self.consensus": true, "stateExecuter|self.events": true,
	"BFTVotes|self.maxHeightCertified": true}

// calls (besides make / composite literals) that return a fresh local object which may be filled in place
var freshCtors = map[string]bool{"make": true, "certificate.NewCertificateFromBlock": true}

var builtins = map[string]bool{"nil": true, "true": true, "false": true, "len": true, "cap": true, "append": true, "make": true, "copy": true,
	"int": true, "int32": true, "int64": true, "uint": true, "uint8": true, "uint32": true, "uint64": true, "byte": true, "string": true, "bool": true, "float64": true, "error": true}
var intConvs = map[string]bool{"int": true, "int32": true, "int64": true, "uint": true, "uint32": true, "uint64": true}
var effectful = map[string]bool{"write": true, "stage": true, "appwrite": true, "publish": true, "clear": true, "sub": true}

type item struct {
	kind, op, lhs, rhs, ret, callee, guard, note string
	ctx, atoms                                   []string
}

type guardDef struct {
	name, doc, body string
	n               int
}

type pkgInfo struct {
	name  string
	fset  *token.FileSet
	files []*ast.File
	top   map[string]bool // top-level names
	types map[string]bool // … that are types
}

type gen struct {
	repo     string
	pkgs     map[string]*pkgInfo
	consts   map[string]uint64 // integer constants of constDirs
	vars     map[string]uint64 // package variables with an integer literal initialiser (NOT inlined)
	used     map[string]uint64
	usedVars map[string]uint64
	guards   []guardDef
	ranges   []string
	handles  [][3]string
}

type val struct {
	s, call string // canonical text; the call whose (last) result the variable holds
	fresh   bool
}

type tr struct {
	g        *gen
	p        *pkgInfo
	key      string
	recvName string
	recvType string
	names    map[string]bool // imported package names
	env      map[string]val
	defined  map[string]bool
	subOf    map[string]string
	ctx      []string
	items    []item
	slugs    map[string]int
}

type trErr struct{ msg string }

func (t *tr) fail(n ast.Node, f string, a ...interface{}) {
	panic(trErr{fmt.Sprintf("%s: %s: %s", t.p.fset.Position(n.Pos()), t.key, fmt.Sprintf(f, a...))})
}

func main() {
	repo := flag.String("repo", "/repo", "repository root")
	out := flag.String("out", "", "output Lean file")
	set := flag.String("set", "", "table: \"\" = block acceptance path (Gen/VerifySkeleton.lean), bft = per-header step of liskbft (Gen/BFTSkeleton.lean)")
	flag.Parse()
	switch *set {
	case "":
	case "bft":
		targets = bftTargets
		outNS = "LiskVerif.Gen.BFTS"
		outDoc = "   Skeletons (ordered calls, error exits, returns, receiver-field assignments) of the per-header step of liskbft:\n" +
			"   Module.BeforeTransactionsExecute, BFTVotes.updateMaxHeightCertified -/\n\n"
	default:
		fmt.Fprintln(os.Stderr, "vskelgen: unknown -set", *set)
		os.Exit(2)
	}
	g := &gen{repo: *repo, pkgs: map[string]*pkgInfo{}, consts: map[string]uint64{}, used: map[string]uint64{}, vars: map[string]uint64{}, usedVars: map[string]uint64{}}
	if err := g.run(*out); err != nil {
		fmt.Fprintln(os.Stderr, "vskelgen: ERROR:", err)
		os.Exit(1)
	}
}

func (g *gen) load(rel string) (*pkgInfo, error) {
	if p, ok := g.pkgs[rel]; ok {
		return p, nil
	}
	dir := filepath.Join(g.repo, rel)
	ents, err := os.ReadDir(dir)
	if err != nil {
		return nil, err
	}
	p := &pkgInfo{fset: token.NewFileSet(), top: map[string]bool{}, types: map[string]bool{}}
	for _, e := range ents {
		n := e.Name()
		if e.IsDir() || !strings.HasSuffix(n, ".go") || strings.HasSuffix(n, "_test.go") || strings.Contains(n, "_verif") {
			continue
		}
		f, err := parser.ParseFile(p.fset, filepath.Join(dir, n), nil, 0)
		if err != nil {
			return nil, err
		}
		p.name = f.Name.Name
		p.files = append(p.files, f)
		for name, o := range f.Scope.Objects { // top-level functions, types, constants and variables
			p.top[name] = true
			p.types[name] = o.Kind == ast.Typ
		}
	}
	g.pkgs[rel] = p
	return p, nil
}

// loadConsts evaluates the integer constants of a package that are simple literal arithmetic.
func (g *gen) loadConsts(p *pkgInfo) {
	var eval func(e ast.Expr) (uint64, bool)
	eval = func(e ast.Expr) (uint64, bool) {
		switch x := e.(type) {
		case *ast.BasicLit:
			if x.Kind == token.INT {
				v, err := strconv.ParseUint(strings.ReplaceAll(x.Value, "_", ""), 0, 64)
				return v, err == nil
			}
		case *ast.ParenExpr:
			return eval(x.X)
		case *ast.Ident:
			v, ok := g.consts[p.name+"."+x.Name]
			return v, ok
		case *ast.CallExpr:
			if id, ok := x.Fun.(*ast.Ident); ok && intConvs[id.Name] && len(x.Args) == 1 {
				return eval(x.Args[0])
			}
		case *ast.BinaryExpr:
			a, ok1 := eval(x.X)
			b, ok2 := eval(x.Y)
			if ok1 && ok2 {
				switch x.Op {
				case token.ADD:
					return a + b, true
				case token.MUL:
					return a * b, true
				case token.SHL:
					return a << b, b < 64
				}
			}
		}
		return 0, false
	}
	for pass := 0; pass < 2; pass++ {
		for _, f := range p.files {
			for _, d := range f.Decls {
				gd, ok := d.(*ast.GenDecl)
				if !ok || (gd.Tok != token.CONST && gd.Tok != token.VAR) {
					continue
				}
				for _, s := range gd.Specs {
					vs := s.(*ast.ValueSpec)
					for i, id := range vs.Names {
						if i < len(vs.Values) {
							if v, ok := eval(vs.Values[i]); ok && gd.Tok == token.CONST {
								g.consts[p.name+"."+id.Name] = v
							} else if ok {
								g.vars[p.name+"."+id.Name] = v
							}
						}
					}
				}
			}
		}
	}
}

func unparen(e ast.Expr) ast.Expr {
	for {
		p, ok := e.(*ast.ParenExpr)
		if !ok {
			return e
		}
		e = p.X
	}
}

func isNil(e ast.Expr) bool { id, ok := unparen(e).(*ast.Ident); return ok && id.Name == "nil" }

// ---------------------------------------------------------------------------------------------
// canonical expressions

func (t *tr) canon(e ast.Expr) string {
	switch x := e.(type) {
	case *ast.ParenExpr:
		return "(" + t.canon(x.X) + ")"
	case *ast.BasicLit:
		return x.Value
	case *ast.Ident:
		if v, ok := t.env[x.Name]; ok {
			return v.s
		}
		if x.Name == t.recvName && x.Name != "" {
			return "self"
		}
		if t.names[x.Name] || builtins[x.Name] || t.p.top[x.Name] {
			return x.Name
		}
		t.fail(e, "unknown identifier %s", x.Name)
	case *ast.SelectorExpr:
		if id, ok := x.X.(*ast.Ident); ok && id.Name == t.recvName {
			if _, shadow := t.env[id.Name]; !shadow {
				fs, restricted := selfFields[t.recvType]
				n := "self." + x.Sel.Name
				if restricted && !strings.Contains(fs, " "+x.Sel.Name+" ") && subs[t.q(n)] == "" && callKinds[t.q(n)] == "" {
					t.fail(e, "receiver field or method %s is not in the translator's whitelist", x.Sel.Name)
				}
			}
		}
		return t.canon(x.X) + "." + x.Sel.Name
	case *ast.CallExpr:
		text, _, kind, _ := t.call(x)
		if effectful[kind] {
			t.fail(e, "%s call %s in expression position", kind, text)
		}
		return text
	case *ast.UnaryExpr:
		return x.Op.String() + t.canon(x.X)
	case *ast.BinaryExpr:
		return t.canon(x.X) + " " + x.Op.String() + " " + t.canon(x.Y)
	case *ast.IndexExpr:
		return t.canon(x.X) + "[" + t.canon(x.Index) + "]"
	case *ast.SliceExpr:
		lo, hi := "", ""
		if x.Low != nil {
			lo = t.canon(x.Low)
		}
		if x.High != nil && !x.Slice3 {
			hi = t.canon(x.High)
		} else if x.High != nil {
			t.fail(e, "3-index slice")
		}
		return t.canon(x.X) + "[" + lo + ":" + hi + "]"
	case *ast.StarExpr:
		return "*" + t.canon(x.X)
	case *ast.CompositeLit:
		var el []string
		for _, k := range x.Elts {
			if kv, ok := k.(*ast.KeyValueExpr); ok {
				key := ""
				if id, ok := kv.Key.(*ast.Ident); ok {
					key = id.Name
				} else {
					key = t.canon(kv.Key)
				}
				el = append(el, key+": "+t.canon(kv.Value))
			} else {
				el = append(el, t.canon(k))
			}
		}
		return types.ExprString(x.Type) + "{" + strings.Join(el, ", ") + "}"
	case *ast.ArrayType, *ast.MapType:
		return types.ExprString(e)
	}
	t.fail(e, "unsupported expression %T", e)
	return ""
}

// bareHandle reports a database / chain / batch handle mentioned in e outside of nested calls (those are
// classified on their own).
func (t *tr) bareHandle(e ast.Expr) string {
	found := ""
	isH := func(s string) bool { return s == "self.database" || s == "self.chain" || s == "batch" }
	ast.Inspect(e, func(n ast.Node) bool {
		switch x := n.(type) {
		case *ast.CallExpr:
			return false
		case *ast.Ident:
			if v, ok := t.env[x.Name]; ok && isH(v.s) {
				found = v.s
			}
		case *ast.SelectorExpr:
			if id, ok := x.X.(*ast.Ident); ok && id.Name == t.recvName && isH("self."+x.Sel.Name) {
				if _, shadow := t.env[id.Name]; !shadow {
					found = "self." + x.Sel.Name
				}
			}
		}
		return true
	})
	return found
}

// call canonicalises and classifies a call; it emits nothing.
func (t *tr) call(c *ast.CallExpr) (text, callee, kind, sub string) {
	if _, ok := c.Fun.(*ast.FuncLit); ok {
		t.fail(c, "call of a function literal")
	}
	callee = t.canon(c.Fun)
	var args []string
	for _, a := range c.Args {
		args = append(args, t.canon(a))
	}
	if c.Ellipsis.IsValid() {
		args[len(args)-1] += "..."
	}
	text = callee + "(" + strings.Join(args, ", ") + ")"
	qc := t.q(callee)
	if s, ok := subs[qc]; ok {
		return text, callee, "sub", s
	}
	if k, ok := callKinds[qc]; ok {
		kind = k
	} else if strings.HasPrefix(callee, "self.logger.") {
		kind = "log"
	} else {
		for _, pre := range closed {
			// methods of results of store / batch / abi methods are methods of plain values; everything reached
			// through the chain or the database handle stays closed (DataAccess() can write)
			direct := !strings.Contains(pre, "self.") && strings.ContainsAny(qc[min(len(pre), len(qc)):], ".([")
			if strings.HasPrefix(qc, pre) && !direct {
				t.fail(c, "method %s of a chain / database / batch / ABI handle is not classified by the translator", callee)
			}
		}
		kind = "call"
	}
	if !handleArgOK[qc] {
		for _, a := range c.Args {
			if h := t.bareHandle(a); h != "" {
				t.fail(c, "handle %s is passed to %s, which the translator does not know", h, callee)
			}
		}
	}
	return text, callee, kind, ""
}

// q qualifies a canonical name that starts at the receiver with the receiver type (table keys)
func (t *tr) q(c string) string {
	if strings.HasPrefix(c, "self.") {
		return t.recvType + "|" + c
	}
	return c
}

func (t *tr) emit(it item) {
	it.ctx = append([]string(nil), t.ctx...)
	t.items = append(t.items, it)
}

// callStmt translates a statement-level call and emits its item.
func (t *tr) callStmt(c *ast.CallExpr) (text, callee string) {
	text, callee, kind, sub := t.call(c)
	switch kind {
	case "log":
	case "sub":
		t.subOf[text] = sub
		t.emit(item{kind: "sub", lhs: text, callee: sub})
	case "read":
		t.emit(item{kind: "call", lhs: text})
	case "call":
		id, isID := unparen(c.Fun).(*ast.Ident) // builtins and conversions to a type of the package: no item
		shadow := false
		if isID {
			_, shadow = t.env[id.Name]
		}
		if !isID || shadow || !(builtins[id.Name] || t.p.types[id.Name]) {
			t.emit(item{kind: "call", lhs: text})
		}
	default:
		t.emit(item{kind: kind, lhs: text})
	}
	return text, callee
}

// ---------------------------------------------------------------------------------------------
// conditions and guards

type condR struct {
	op, lhs, rhs, callee, guard string
	atoms                       []string
}

func (t *tr) cond(e ast.Expr, top bool) condR {
	e = unparen(e)
	bytesEq := func(x ast.Expr) *ast.CallExpr {
		if c, ok := unparen(x).(*ast.CallExpr); ok && len(c.Args) == 2 {
			if s, ok := c.Fun.(*ast.SelectorExpr); ok && s.Sel.Name == "Equal" {
				if id, ok := s.X.(*ast.Ident); ok && id.Name == "bytes" && t.names["bytes"] {
					return c
				}
			}
		}
		return nil
	}
	switch x := e.(type) {
	case *ast.BinaryExpr:
		switch x.Op {
		case token.LAND, token.LOR:
			return condR{op: x.Op.String(), lhs: t.condStr(x.X), rhs: t.condStr(x.Y)}
		case token.EQL, token.NEQ, token.LSS, token.LEQ, token.GTR, token.GEQ:
			if id, ok := unparen(x.X).(*ast.Ident); ok && isNil(x.Y) && (x.Op == token.EQL || x.Op == token.NEQ) {
				if v, ok := t.env[id.Name]; ok && v.call != "" {
					op := "callerr"
					if x.Op == token.EQL {
						op = "callok"
					}
					return condR{op: op, lhs: v.call, callee: t.subOf[v.call]}
				}
			}
			r := condR{op: x.Op.String(), lhs: t.canon(x.X), rhs: t.canon(x.Y)}
			if top && !isNil(x.X) && !isNil(x.Y) {
				r.guard, r.atoms = t.guard(x, r)
			}
			return r
		}
	case *ast.UnaryExpr:
		if x.Op == token.NOT {
			if c := bytesEq(x.X); c != nil {
				return condR{op: "bytes.ne", lhs: t.canon(c.Args[0]), rhs: t.canon(c.Args[1])}
			}
			return condR{op: "not", lhs: t.canon(x.X)}
		}
	case *ast.CallExpr:
		if c := bytesEq(x); c != nil {
			return condR{op: "bytes.eq", lhs: t.canon(c.Args[0]), rhs: t.canon(c.Args[1])}
		}
	}
	return condR{op: "is", lhs: t.canon(e)}
}

func render(r condR) string {
	switch r.op {
	case "callerr":
		return "err(" + r.lhs + ") != nil"
	case "callok":
		return "err(" + r.lhs + ") == nil"
	case "not":
		return "!" + r.lhs
	case "is":
		return r.lhs
	case "bytes.ne":
		return "!bytes.Equal(" + r.lhs + ", " + r.rhs + ")"
	case "bytes.eq":
		return "bytes.Equal(" + r.lhs + ", " + r.rhs + ")"
	case "&&", "||":
		return "(" + r.lhs + " " + r.op + " " + r.rhs + ")"
	}
	return r.lhs + " " + r.op + " " + r.rhs
}

func (t *tr) condStr(e ast.Expr) string { return render(t.cond(e, false)) }

func slug(s string) string {
	if strings.HasPrefix(s, "len(") && strings.HasSuffix(s, ")") {
		s = s[4 : len(s)-1]
	}
	isID := func(c byte) bool {
		return c == '_' || ('0' <= c && c <= '9') || ('a' <= c && c <= 'z') || ('A' <= c && c <= 'Z')
	}
	for {
		if strings.HasSuffix(s, "[*]") {
			s = s[:len(s)-3]
			continue
		}
		if d := strings.TrimRight(s, "0123456789"); d != s && strings.HasSuffix(d, "#") {
			s = d[:len(d)-1]
			continue
		}
		if strings.HasSuffix(s, ")") {
			depth, i := 0, len(s)-1
			for ; i >= 0; i-- {
				if s[i] == ')' {
					depth++
				} else if s[i] == '(' {
					depth--
					if depth == 0 {
						break
					}
				}
			}
			if i < 0 {
				return "x"
			}
			s = s[:i]
			continue
		}
		i := len(s)
		for i > 0 && isID(s[i-1]) {
			i--
		}
		if i == len(s) {
			return "x"
		}
		return s[i:]
	}
}

var leanOps = map[token.Token]string{token.EQL: "=", token.NEQ: "≠", token.LSS: "<", token.LEQ: "≤", token.GTR: ">", token.GEQ: "≥"}

// guard emits `def g_… (x0 x1 … : Nat) : Bool := decide (…)` for a comparison of integer arithmetic.
func (t *tr) guard(x *ast.BinaryExpr, r condR) (string, []string) {
	var atoms []string
	ok := true
	var ar func(e ast.Expr) string
	ar = func(e ast.Expr) string {
		e = unparen(e)
		switch y := e.(type) {
		case *ast.BasicLit:
			if y.Kind == token.INT {
				if v, err := strconv.ParseUint(strings.ReplaceAll(y.Value, "_", ""), 0, 64); err == nil {
					return strconv.FormatUint(v, 10)
				}
			}
			ok = false
			return ""
		case *ast.BinaryExpr:
			if y.Op == token.ADD || y.Op == token.MUL {
				return "(" + ar(y.X) + " " + y.Op.String() + " " + ar(y.Y) + ")"
			}
			ok = false // subtraction, division, shifts: integer width matters
			return ""
		case *ast.CallExpr:
			if id, isID := y.Fun.(*ast.Ident); isID && intConvs[id.Name] && len(y.Args) == 1 {
				if _, shadow := t.env[id.Name]; !shadow {
					return ar(y.Args[0])
				}
			}
		}
		c := t.canon(e)
		q := c
		if !strings.Contains(q, ".") {
			q = t.p.name + "." + q
		}
		if v, isC := t.g.consts[q]; isC && !strings.ContainsAny(c, "( ") {
			t.g.used[q] = v
			return strconv.FormatUint(v, 10)
		}
		if v, isV := t.g.vars[q]; isV {
			t.g.usedVars[q] = v
		}
		for i, a := range atoms {
			if a == c {
				return "x" + strconv.Itoa(i)
			}
		}
		atoms = append(atoms, c)
		return "x" + strconv.Itoa(len(atoms)-1)
	}
	l, rr := ar(x.X), ar(x.Y)
	if !ok {
		return "", nil
	}
	name := "g_" + strings.ReplaceAll(t.key, ".", "_") + "_" + slug(r.lhs)
	t.slugs[name]++
	if k := t.slugs[name]; k > 1 {
		name += "_" + strconv.Itoa(k)
	}
	t.g.guards = append(t.g.guards, guardDef{name: name, doc: t.key + ": " + render(r), body: "decide (" + l + " " + leanOps[x.Op] + " " + rr + ")", n: len(atoms)})
	return name, atoms
}

// ---------------------------------------------------------------------------------------------
// statements

// scoped runs f in a nested scope: names defined inside are dropped afterwards; other changes of the
// environment are discarded (discard), turned into ite(phi, new, old) (phi != ""), or kept.
func (t *tr) scoped(phi string, discard bool, f func()) {
	old, oldDef := t.env, t.defined
	t.env = map[string]val{}
	for k, v := range old {
		t.env[k] = v
	}
	t.defined = map[string]bool{}
	f()
	cur, def := t.env, t.defined
	t.env, t.defined = old, oldDef
	for k, ov := range old {
		nv := cur[k]
		if def[k] || discard || nv == ov {
			continue
		}
		if phi != "" {
			nv = val{s: "ite(" + phi + ", " + nv.s + ", " + ov.s + ")"}
		}
		t.env[k] = nv
	}
}

func (t *tr) bind(l ast.Expr, v val, tok token.Token) {
	rootLocal := func(e ast.Expr) string {
		for {
			switch x := e.(type) {
			case *ast.SelectorExpr:
				e = x.X
			case *ast.IndexExpr:
				e = x.X
			case *ast.Ident:
				if lv, ok := t.env[x.Name]; ok && lv.fresh {
					return x.Name
				}
				return ""
			default:
				return ""
			}
		}
	}
	switch x := l.(type) {
	case *ast.Ident:
		if x.Name == "_" {
			return
		}
		old, exists := t.env[x.Name]
		switch tok {
		case token.DEFINE:
			t.defined[x.Name] = true
		case token.ADD_ASSIGN:
			if !exists {
				t.fail(l, "+= on %s, which is not a local variable", x.Name)
			}
			v = val{s: "(" + old.s + " + " + v.s + ")"}
		default:
			if !exists {
				t.fail(l, "assignment to %s, which is not a local variable", x.Name)
			}
		}
		t.env[x.Name] = v
		return
	case *ast.SelectorExpr, *ast.IndexExpr:
		if tok == token.ASSIGN {
			if sel, ok := x.(*ast.SelectorExpr); ok {
				if target := t.canon(sel); setFields[t.q(target)] {
					t.emit(item{kind: "set", lhs: target, rhs: v.s})
					return
				}
			}
			if r := rootLocal(l); r != "" {
				if lv := t.env[r]; !strings.HasPrefix(lv.s, "mut(") {
					lv.s = "mut(" + lv.s + ")"
					t.env[r] = lv
				}
				return
			}
		}
	}
	t.fail(l, "unsupported assignment target (only locals, whitelisted receiver fields and elements of fresh local objects)")
}

func (t *tr) assign(s *ast.AssignStmt) {
	if s.Tok != token.DEFINE && s.Tok != token.ASSIGN && s.Tok != token.ADD_ASSIGN {
		t.fail(s, "unsupported assignment operator %s", s.Tok)
	}
	n := len(s.Lhs)
	if len(s.Rhs) == 1 {
		r := unparen(s.Rhs[0])
		if c, ok := r.(*ast.CallExpr); ok {
			text, callee := t.callStmt(c)
			base := text // results are named after the call, or after its alias
			if alias := handleCtors[t.q(callee)]; alias != "" {
				for _, h := range t.g.handles {
					if h[0] == t.key && h[1] == alias {
						t.fail(s, "alias %s is defined twice in one function (second call of %s)", alias, callee)
					}
				}
				t.g.handles = append(t.g.handles, [3]string{t.key, alias, text})
				base = alias
				t.subOf[base] = t.subOf[text]
			}
			for i, l := range s.Lhs {
				v := val{s: base, fresh: freshCtors[callee]}
				if n > 2 || (n == 2 && (i == 1 || base == text)) {
					v.s = base + "#" + strconv.Itoa(i)
				}
				if i == n-1 {
					v.call = base // the last result is the one `!= nil` tests refer to
				}
				t.bind(l, v, s.Tok)
			}
			return
		}
		if n > 1 { // comma-ok forms
			c := t.canon(r)
			for i, l := range s.Lhs {
				t.bind(l, val{s: c + "#" + strconv.Itoa(i)}, s.Tok)
			}
			return
		}
	}
	if n != len(s.Rhs) {
		t.fail(s, "unsupported assignment shape")
	}
	vals := make([]val, n)
	for i, r := range s.Rhs {
		v := val{s: t.canon(r)}
		switch y := unparen(r).(type) {
		case *ast.BinaryExpr:
			v.s = "(" + v.s + ")"
		case *ast.CompositeLit:
			v.fresh = true
		case *ast.UnaryExpr:
			_, v.fresh = y.X.(*ast.CompositeLit)
		}
		vals[i] = v
	}
	for i, l := range s.Lhs {
		t.bind(l, vals[i], s.Tok)
	}
}

func (t *tr) isLog(s ast.Stmt) bool {
	if e, ok := s.(*ast.ExprStmt); ok {
		if c, ok := e.X.(*ast.CallExpr); ok {
			if sel, ok := c.Fun.(*ast.SelectorExpr); ok {
				if in, ok := sel.X.(*ast.SelectorExpr); ok && in.Sel.Name == "logger" {
					id, ok := in.X.(*ast.Ident)
					return ok && id.Name == t.recvName
				}
			}
		}
	}
	return false
}

// retClass classifies what a return statement returns as error.
func (t *tr) retClass(s *ast.ReturnStmt) (ret, lhs, note string) {
	if len(s.Results) == 0 {
		return "nil", "", ""
	}
	for _, r := range s.Results[:len(s.Results)-1] {
		t.canon(r)
	}
	last := unparen(s.Results[len(s.Results)-1])
	switch x := last.(type) {
	case *ast.Ident:
		if x.Name == "nil" {
			return "nil", "", ""
		}
		if v, ok := t.env[x.Name]; ok && v.call != "" {
			return "err", v.call, ""
		}
	case *ast.CallExpr:
		text, callee, kind, _ := t.call(x)
		if callee == "fmt.Errorf" || callee == "errors.New" {
			if len(x.Args) > 0 {
				if b, ok := x.Args[0].(*ast.BasicLit); ok {
					note = b.Value
				}
			}
			return map[string]string{"fmt.Errorf": "errorf", "errors.New": "new"}[callee], "", note
		}
		if kind == "call" || kind == "read" {
			t.callStmt(x)
			return "err", text, ""
		}
	}
	t.fail(s, "unsupported return value (expected nil, an error variable bound to a call, fmt.Errorf, errors.New or a plain call)")
	return
}

func (t *tr) ifStmt(s *ast.IfStmt) {
	if s.Else != nil {
		t.fail(s.Else, "else branches are not supported")
	}
	t.scoped("", false, func() {
		if s.Init != nil {
			t.stmt(s.Init)
		}
		c := t.cond(s.Cond, true)
		body := s.Body.List
		n := len(body)
		var last *ast.ReturnStmt
		if n > 0 {
			last, _ = body[n-1].(*ast.ReturnStmt)
		}
		simple := last != nil
		for _, b := range body[:max(n-1, 0)] {
			simple = simple && t.isLog(b)
		}
		it := item{op: c.op, lhs: c.lhs, rhs: c.rhs, callee: c.callee, guard: c.guard, atoms: c.atoms}
		if simple {
			t.scoped("", true, func() {
				for _, b := range body[:n-1] {
					t.stmt(b)
				}
				it.ret, _, it.note = t.retClass(last)
			})
			it.kind = "check"
			t.emit(it)
			return
		}
		it.kind = "branch"
		t.emit(it)
		t.ctx = append(t.ctx, render(c))
		t.scoped(render(c), last != nil, func() { t.block(body) })
		t.ctx = t.ctx[:len(t.ctx)-1]
	})
}

func (t *tr) rangeStmt(s *ast.RangeStmt) {
	if s.Tok != token.DEFINE && s.Key != nil {
		t.fail(s, "range with assignment to existing variables")
	}
	x := t.canon(s.X)
	var accs []string
	ast.Inspect(s.Body, func(n ast.Node) bool {
		if a, ok := n.(*ast.AssignStmt); ok && a.Tok != token.DEFINE {
			for _, l := range a.Lhs {
				if id, ok := l.(*ast.Ident); ok {
					if _, isLocal := t.env[id.Name]; isLocal && !contains(accs, id.Name) {
						accs = append(accs, id.Name)
					}
				}
			}
		}
		return true
	})
	inits, news := map[string]string{}, map[string]string{}
	t.ctx = append(t.ctx, "range("+x+")")
	if !contains(t.g.ranges, "range("+x+")") {
		t.g.ranges = append(t.g.ranges, "range("+x+")")
	}
	t.scoped("", false, func() {
		for i, a := range accs {
			inits[a] = t.env[a].s
			name := "$acc"
			if i > 0 {
				name += strconv.Itoa(i)
			}
			t.env[a] = val{s: name}
		}
		if s.Key != nil {
			t.bind(s.Key, val{s: "*"}, token.DEFINE)
		}
		if s.Value != nil {
			t.bind(s.Value, val{s: x + "[*]"}, token.DEFINE)
		}
		t.block(s.Body.List)
		for _, a := range accs {
			news[a] = t.env[a].s
		}
	})
	for _, a := range accs {
		t.env[a] = val{s: "fold(" + x + ", " + inits[a] + ", " + news[a] + ")"}
	}
	t.ctx = t.ctx[:len(t.ctx)-1]
}

func contains(l []string, s string) bool {
	for _, x := range l {
		if x == s {
			return true
		}
	}
	return false
}

func (t *tr) closure(n ast.Node, c *ast.CallExpr, tag string) {
	t.ctx = append(t.ctx, tag)
	defer func() { t.ctx = t.ctx[:len(t.ctx)-1] }()
	if fl, ok := c.Fun.(*ast.FuncLit); ok {
		if len(c.Args) != 0 || len(fl.Type.Params.List) != 0 {
			t.fail(n, "function literal with parameters")
		}
		t.scoped("", false, func() { t.block(fl.Body.List) })
		return
	}
	t.callStmt(c)
}

func (t *tr) block(l []ast.Stmt) {
	for _, s := range l {
		t.stmt(s)
	}
}

func (t *tr) stmt(s ast.Stmt) {
	switch x := s.(type) {
	case *ast.AssignStmt:
		t.assign(x)
	case *ast.ExprStmt:
		c, ok := x.X.(*ast.CallExpr)
		if !ok {
			t.fail(s, "expression statement that is not a call")
		}
		t.callStmt(c)
	case *ast.IfStmt:
		t.ifStmt(x)
	case *ast.RangeStmt:
		t.rangeStmt(x)
	case *ast.ReturnStmt:
		ret, lhs, note := t.retClass(x)
		t.emit(item{kind: "ret", ret: ret, lhs: lhs, note: note})
	case *ast.DeferStmt:
		t.closure(s, x.Call, "defer")
	case *ast.GoStmt:
		t.closure(s, x.Call, "go")
	case *ast.BlockStmt:
		t.scoped("", false, func() { t.block(x.List) })
	case *ast.EmptyStmt:
	case *ast.DeclStmt:
		gd := x.Decl.(*ast.GenDecl)
		if gd.Tok != token.VAR {
			t.fail(s, "local %s declaration", gd.Tok)
		}
		for _, sp := range gd.Specs {
			vs := sp.(*ast.ValueSpec)
			for i, id := range vs.Names {
				v := val{s: "zero"}
				if i < len(vs.Values) {
					v.s = t.canon(vs.Values[i])
				} else if len(vs.Values) != 0 {
					t.fail(s, "unsupported var declaration")
				}
				t.bind(id, v, token.DEFINE)
			}
		}
	default:
		t.fail(s, "unsupported statement %T", s)
	}
}

func (g *gen) translate(tg target) (*tr, error) {
	p, err := g.load(tg.dir)
	if err != nil {
		return nil, err
	}
	key := tg.name
	if tg.recv != "" {
		key = tg.recv + "." + tg.name
	}
	var decl *ast.FuncDecl
	var file *ast.File
	for _, f := range p.files {
		for _, d := range f.Decls {
			fd, ok := d.(*ast.FuncDecl)
			if !ok || fd.Name.Name != tg.name || fd.Body == nil {
				continue
			}
			recv := ""
			if fd.Recv != nil && len(fd.Recv.List) == 1 {
				rt := fd.Recv.List[0].Type
				if st, ok := rt.(*ast.StarExpr); ok {
					rt = st.X
				}
				if id, ok := rt.(*ast.Ident); ok {
					recv = id.Name
				}
			}
			if recv != tg.recv {
				continue
			}
			if decl != nil {
				return nil, fmt.Errorf("%s: %s is declared twice", tg.dir, key)
			}
			decl, file = fd, f
		}
	}
	if decl == nil {
		return nil, fmt.Errorf("%s: function %s not found", tg.dir, key)
	}
	t := &tr{g: g, p: p, key: key, recvType: tg.recv, names: map[string]bool{}, env: map[string]val{}, defined: map[string]bool{}, subOf: map[string]string{}, slugs: map[string]int{}}
	if decl.Recv != nil && len(decl.Recv.List[0].Names) == 1 {
		t.recvName = decl.Recv.List[0].Names[0].Name
	}
	for _, im := range file.Imports {
		path, _ := strconv.Unquote(im.Path.Value)
		n := path[strings.LastIndex(path, "/")+1:]
		if im.Name != nil {
			n = im.Name.Name
		}
		t.names[n] = true
	}
	for _, fl := range []*ast.FieldList{decl.Type.Params, decl.Type.Results} {
		if fl == nil {
			continue
		}
		for _, f := range fl.List {
			for _, id := range f.Names {
				t.env[id.Name] = val{s: id.Name} // parameters are locals that stand for themselves
			}
		}
	}
	err = func() (err error) {
		defer func() {
			if r := recover(); r != nil {
				te, ok := r.(trErr)
				if !ok {
					panic(r)
				}
				err = fmt.Errorf("%s", te.msg)
			}
		}()
		t.block(decl.Body.List)
		return nil
	}()
	return t, err
}

// ---------------------------------------------------------------------------------------------
// output

func strList(l []string) string {
	q := make([]string, len(l))
	for i, s := range l {
		q[i] = strconv.Quote(s)
	}
	return "[" + strings.Join(q, ", ") + "]"
}

func (g *gen) run(out string) error {
	for _, d := range constDirs {
		p, err := g.load(d)
		if err != nil {
			return err
		}
		g.loadConsts(p)
	}
	var sb, body strings.Builder
	var names []string
	for _, tg := range targets {
		t, err := g.translate(tg)
		if err != nil {
			return err
		}
		ln := strings.ReplaceAll(t.key, ".", "_")
		names = append(names, fmt.Sprintf("(%q, %s)", t.key, ln))
		body.WriteString(fmt.Sprintf("/-- %s: %s -/\ndef %s : List Item := [\n", tg.dir, t.key, ln))
		for i, it := range t.items {
			f := []string{fmt.Sprintf("kind := %q", it.kind)}
			if len(it.ctx) > 0 {
				f = append(f, "ctx := "+strList(it.ctx))
			}
			for _, kv := range [][2]string{{"op", it.op}, {"lhs", it.lhs}, {"rhs", it.rhs}, {"ret", it.ret}, {"callee", it.callee}, {"guard", it.guard}} {
				if kv[1] != "" {
					f = append(f, fmt.Sprintf("%s := %q", kv[0], kv[1]))
				}
			}
			if len(it.atoms) > 0 {
				f = append(f, "atoms := "+strList(it.atoms))
			}
			sep := ","
			if i+1 == len(t.items) {
				sep = ""
			}
			note := ""
			if it.note != "" {
				note = "  -- " + strings.ReplaceAll(it.note, "\n", " ")
			}
			body.WriteString("  { " + strings.Join(f, ", ") + " }" + sep + note + "\n")
		}
		body.WriteString("]\n\n")
	}
	sb.WriteString("/- GENERATED by tools/vskelgen from /repo — do not edit. Regenerated on every check run.\n")
	sb.WriteString(outDoc)
	sb.WriteString("namespace " + outNS + "\n\n")
	sb.WriteString("/-- one step of a function body in program order (see tools/vskelgen/main.go for the vocabulary) -/\n")
	sb.WriteString("structure Item where\n  kind : String\n  ctx : List String := []\n  op : String := \"\"\n  lhs : String := \"\"\n  rhs : String := \"\"\n  ret : String := \"\"\n  callee : String := \"\"\n  guard : String := \"\"\n  atoms : List String := []\nderiving Repr, DecidableEq\n\n")
	for _, gd := range g.guards {
		ps := ""
		if gd.n > 0 {
			var xs []string
			for i := 0; i < gd.n; i++ {
				xs = append(xs, "x"+strconv.Itoa(i))
			}
			ps = " (" + strings.Join(xs, " ") + " : Nat)"
		}
		sb.WriteString(fmt.Sprintf("/-- %s -/\ndef %s%s : Bool := %s\n\n", strings.ReplaceAll(gd.doc, "-/", "- /"), gd.name, ps, gd.body))
	}
	sb.WriteString(body.String())
	sb.WriteString("/-- every generated skeleton, by Go name -/\ndef fns : List (String × List Item) := [\n  " + strings.Join(names, ",\n  ") + "\n]\n\n")
	var hs []string
	for _, h := range g.handles {
		hs = append(hs, fmt.Sprintf("(%q, %q, %q)", h[0], h[1], h[2]))
	}
	sb.WriteString("/-- aliases used in the canonical expressions: (function, alias, definition) -/\ndef handles : List (String × String × String) := [\n  " + strings.Join(hs, ",\n  ") + "\n]\n\n")
	sb.WriteString("/-- the context entries that stand for range loops -/\ndef ranges : List String := " + strList(g.ranges) + "\n\n")
	for _, m := range []struct {
		name, doc string
		m         map[string]uint64
	}{{"consts", "integer constants of the repository that were inlined into the guard functions", g.used},
		{"varInits", "atoms of guard functions that are package VARIABLES, with their integer initialiser (not inlined: a variable can be reassigned)", g.usedVars}} {
		var cs []string
		for k := range m.m {
			cs = append(cs, k)
		}
		sort.Strings(cs)
		for i, k := range cs {
			cs[i] = fmt.Sprintf("(%q, %d)", k, m.m[k])
		}
		sb.WriteString("/-- " + m.doc + " -/\ndef " + m.name + " : List (String × Nat) := [" + strings.Join(cs, ", ") + "]\n\n")
	}
	sb.WriteString("end " + outNS + "\n")
	if out == "" {
		fmt.Print(sb.String())
		return nil
	}
	tmp := out + ".tmp"
	if err := os.WriteFile(tmp, []byte(sb.String()), 0o644); err != nil {
		return err
	}
	return os.Rename(tmp, out)
}
