module vskelgen

go 1.21
