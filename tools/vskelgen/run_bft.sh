#!/bin/sh
# regenerate lean/LiskVerif/Gen/BFTSkeleton.lean (skeletons of liskbft Module.BeforeTransactionsExecute and
# BFTVotes.updateMaxHeightCertified; C06 / C02, obligations in Props/C06_CertifiedGen.lean) from /repo
set -e
cd "$(dirname "$0")"
export GOFLAGS=-mod=mod GOPROXY=off GOSUMDB=off GOTOOLCHAIN=local
mkdir -p ../../.build ../../lean/LiskVerif/Gen
go build -o ../../.build/vskelgen .
../../.build/vskelgen -set bft -repo "${VERIF_REPO:-/repo}" -out ../../lean/LiskVerif/Gen/BFTSkeleton.lean
