#!/bin/sh
# regenerate from /repo, one Lean file per configured group:
#   lean/LiskVerif/Gen/Skeletons.lean        (C20)   + .build/skeletons.json
#   lean/LiskVerif/Gen/SkeletonsTxPool.lean  (C14)   + .build/skeletons-txpool.json
#   lean/LiskVerif/Gen/SkeletonsP2P.lean     (C17)   + .build/skeletons-p2p.json
#   lean/LiskVerif/Gen/SkeletonsShared.lean  (C20: derived shared fields, queue / emitter wait-for) + .build/skeletons-c20x.json
# VERIF_REPO / VERIF_LEAN override the repository and the Lean project (private copies).
set -e
cd "$(dirname "$0")"
export GOFLAGS=-mod=mod GOPROXY=off GOSUMDB=off GOTOOLCHAIN=local
LEAN="${VERIF_LEAN:-../../lean}"
mkdir -p ../../.build "$LEAN/LiskVerif/Gen"
go build -o ../../.build/skelgen .
../../.build/skelgen -repo "${VERIF_REPO:-/repo}" -leandir "$LEAN/LiskVerif/Gen" -jsondir ../../.build "$@"
