#!/bin/sh
# regenerate lean/LiskVerif/Gen/Skeletons.lean and .build/skeletons.json from /repo
set -e
cd "$(dirname "$0")"
export GOFLAGS=-mod=mod GOPROXY=off GOSUMDB=off GOTOOLCHAIN=local
mkdir -p ../../.build ../../lean/LiskVerif/Gen
go build -o ../../.build/skelgen .
../../.build/skelgen -repo "${VERIF_REPO:-/repo}" -lean ../../lean/LiskVerif/Gen/Skeletons.lean -json ../../.build/skeletons.json "$@"
