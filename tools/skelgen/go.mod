module skelgen

go 1.21
