// Command skelgen regenerates lean/LiskVerif/Gen/Skeletons*.lean from the current source of /repo
// (one generated file per configured *group*: Skeletons.lean for C20, SkeletonsTxPool.lean for C14,
// SkeletonsP2P.lean for C17): for a configured list of types it extracts, for every method, the
// *synchronisation skeleton* in program order (tie A of DESIGN.md §3.3): lock / unlock operations,
// calls to other configured methods, goroutine spawns, channel operations (a communication in a
// `select` with a `default` branch is a non-blocking `trySend` / `tryRecv`; `x = make(chan T, n)`
// with a literal capacity is `makeChan x n`), calls of configured possibly blocking operations
// outside the model (`blockingCall`), accesses to the guarded fields of configured types
// (`delete(field, k)` is `del field`) and writes to captured local variables inside spawned
// closures, with the control structure (choice / loop / return) preserved. Everything the extractor
// does not understand inside a configured function is emitted as `Unknown "<position>"`, which makes
// the Lean criteria fail — nothing is dropped silently. Uses go/ast + go/parser only.
package main

import (
	"encoding/json"
	"flag"
	"fmt"
	"go/ast"
	"go/parser"
	"go/printer"
	"go/token"
	"os"
	"path/filepath"
	"sort"
	"strconv"
	"strings"
)

const modulePath = "github.com/LiskHQ/lisk-engine/"

// ---------------------------------------------------------------------------------------------
// configuration

type typeCfg struct {
	pkg     string            // directory relative to the repository root
	name    string            // Go type name
	file    string            // only methods declared in this file ("" = whole package)
	guarded map[string]string // guarded field -> mutex field of the same struct
	helpers []string          // methods only analysed inlined into their callers (called with the lock held)
	only    []string          // if non-empty: only these methods are extracted
	// methods that are possibly blocking operations outside the model (network I/O): not extracted,
	// every call of one is emitted as `blockingCall "Type.method"`
	blocking []string
}

// extCfg declares a type OUTSIDE the extracted scope (a struct of another package or an interface)
// whose methods may block on something the model does not see (a channel send to a subscriber, a
// network operation, a call into the application): a call of a listed method on a receiver of that
// type is emitted as `blockingCall "Type.method"`. `methods` = ["*"] means every method of the type
// (for a struct: every method declared in its package; for an interface: its method set).
type extCfg struct {
	pkg     string
	name    string
	methods []string
}

// funcCfg selects a plain (top-level) function as an entry point; its skeleton is named after it.
type funcCfg struct {
	pkg  string
	name string
}

// A group is one generated Lean file: its own call table, entry list, guards and lock order.
type group struct {
	name      string // command line name
	file      string // Lean file name under lean/LiskVerif/Gen
	namespace string // Lean namespace of the generated definitions
	about     string // property the file is generated for (header comment)
	types     []typeCfg
	funcs     []funcCfg
	external  []extCfg // possibly blocking operations of types outside the group
	// fixed global acquisition order of the struct mutexes (outermost first); function-local mutexes
	// are appended behind them in order of appearance.
	lockOrder []string
	// derive: the guarded fields of every configured type are DERIVED from the source (see deriveFields):
	// every field assigned outside constructors / Init becomes a shared variable; channel operations on a
	// field of a configured type are named "Type.field"; `make(chan T, n)` inside a composite literal is a
	// makeChan of "Type.field"; a deferred function literal that only accesses shared variables is kept.
	derive bool
}

var groups = []group{
	{name: "c20", file: "Skeletons.lean", namespace: "LiskVerif.Gen.Skeletons", about: "C20 (shared chain data)",
		types: []typeCfg{
			{pkg: "pkg/blockchain", name: "blockCache", file: "block_cache.go",
				guarded: map[string]string{"cachedBlocks": "mutex", "heightIndex": "mutex", "size": "mutex", "currentHeight": "mutex"}},
			{pkg: "pkg/blockchain", name: "DataAccess", file: "data_access.go"},
			{pkg: "pkg/blockchain", name: "Chain", file: "chain.go"},
			{pkg: "pkg/consensus/certificate", name: "Pool", file: "pool.go",
				guarded: map[string]string{"nonGossiped": "mutex", "gossiped": "mutex"}},
			{pkg: "pkg/event", name: "EventEmitter", file: "event.go",
				guarded: map[string]string{"events": "rwMutex"}},
			{pkg: "pkg/db/diffdb", name: "Database", file: "db.go",
				guarded: map[string]string{"cache": "mutex", "snapshots": "mutex", "snapshotCount": "mutex"},
				helpers: []string{"ensureCache", "getKey", "mergeSortLimit"}},
			{pkg: "pkg/consensus/sync", name: "blockSyncer", file: "block_sync.go"},
			{pkg: "pkg/consensus/sync", name: "Syncer", file: "sync.go",
				only: []string{"HandleRPCEndpointGetLastBlock", "HandleRPCEndpointGetHighestCommonBlock", "HandleRPCEndpointGetBlocksFromID"}},
		},
		lockOrder: []string{"EventEmitter.rwMutex", "Pool.mutex", "Database.mutex", "blockCache.mutex"}},

	// C14: the transaction pool. Every method of TransactionPool (txpool.go) and of the per-sender list
	// addressTransactions (txlist.go). The methods documented "the caller must hold t.mutex" and the
	// unexported list helpers are analysed inlined into their callers only. All sender lists share one
	// skeleton mutex name (addressTransactions.mutex): criteria (1)/(2) then forbid holding two list
	// mutexes at once, which is stronger than what the per-instance mutexes need.
	// What the pool calls OUTSIDE the package while it may hold its mutex is not extracted but kept as
	// `blockingCall` (group field `external`): every method of the event emitter (Publish / Emit send
	// on unbuffered subscriber channels with the emitter mutex held, every other method waits for
	// that mutex; the emitter itself is covered by the c20 group), of the application interface ABI
	// (VerifyTransaction: a call into the application process) and of the network interface
	// p2pConnection (Publish / Broadcast / RequestFrom ...). Props/C14_Locks.lean states exactly which
	// of them occur under the pool mutex (C14_gen_blocking_calls_under_pool_lock).
	{name: "txpool", file: "SkeletonsTxPool.lean", namespace: "LiskVerif.Gen.SkeletonsTxPool", about: "C14 (transaction pool)",
		types: []typeCfg{
			{pkg: "pkg/txpool", name: "TransactionPool", file: "txpool.go",
				guarded: map[string]string{"allTransactions": "mutex", "perAccount": "mutex", "feePriorityQueue": "mutex"},
				helpers: []string{"rebuildFeePriorityQueue", "evictUnprocessable", "evictProcessable", "removeLocked"}},
			{pkg: "pkg/txpool", name: "addressTransactions", file: "txlist.go",
				guarded: map[string]string{"transactions": "mutex", "processables": "mutex"},
				helpers: []string{"remove", "demoteAfter", "maxNonce"}},
		},
		external: []extCfg{
			{pkg: "pkg/event", name: "EventEmitter", methods: []string{"*"}},
			{pkg: "pkg/txpool", name: "ABI", methods: []string{"*"}},
			{pkg: "pkg/txpool", name: "p2pConnection", methods: []string{"*"}},
		},
		lockOrder: []string{"TransactionPool.mutex", "addressTransactions.mutex"}},

	// C17 (and the lock side of C18): the request/response layer of the p2p message protocol
	// (message_protocol.go), the per-procedure rate limiter it calls for every received message
	// (ratelimit.go: the methods of rateLimit, the counter struct with its own mutex, and the plain
	// function rateLimiterHandler run as a goroutine), and what the rate limiter calls with a counter
	// mutex held: Peer.addPenalty / banPeer -> the connection gater (own mutex, conngater.go) and
	// Peer.Disconnect, a network operation, represented as `blockingCall "Peer.Disconnect"`.
	// All counters share one skeleton mutex name (rpcMessageCounter.mu), whether reached through
	// `rl.rpcMessageCounters[x].mu`, a local alias or a range variable.
	{name: "p2p", file: "SkeletonsP2P.lean", namespace: "LiskVerif.Gen.SkeletonsP2P", about: "C17 (p2p request/response, rate limiter)",
		types: []typeCfg{
			{pkg: "pkg/p2p", name: "MessageProtocol", file: "message_protocol.go",
				guarded: map[string]string{"resCh": "resMu"}},
			{pkg: "pkg/p2p", name: "rateLimit", file: "ratelimit.go"},
			{pkg: "pkg/p2p", name: "rpcMessageCounter", file: "ratelimit.go",
				guarded: map[string]string{"counters": "mu"}},
			{pkg: "pkg/p2p", name: "Peer", file: "peer.go",
				only: []string{"addPenalty", "banPeer"}, blocking: []string{"Disconnect"}},
			{pkg: "pkg/p2p", name: "connectionGater", file: "conngater.go",
				guarded: map[string]string{"peerScore": "mutex", "blockedAddrs": "mutex"}},
		},
		funcs:     []funcCfg{{pkg: "pkg/p2p", name: "rateLimiterHandler"}},
		lockOrder: []string{"MessageProtocol.resMu", "rpcMessageCounter.mu", "connectionGater.mutex"}},

	// C20, second file (Props/C20_Fields.lean, Props/C20_WaitFor.lean): the shared structures of the c20 group
	// plus the consensus executer, the BFT module, the generator and the RPC endpoints that hand work to the
	// consensus goroutine or read its data, with
	//   * the shared variables DERIVED from the source (group field `derive`): every field of a configured
	//     struct that is assigned (plain / op / index assignment, ++ / --, delete, address taken) in any function
	//     of its package other than a constructor (plain function New* / new*) or a method named Init, guarded by
	//     the struct's own mutex field if it has one and by nothing ("-") otherwise - a NEW memo field shows up
	//     here by itself with all its reads and writes;
	//   * every operation on the process queue and on the subscriber channels under a stable name
	//     ("Executer.processCh"), a send in a `select` with `default` as trySend, the capacity from the
	//     constructor (NewExecuter is extracted as a plain function), the emitter inlined (EventEmitter.Publish
	//     = lock; loop [send]), calls through the generator's `Consensus` interface as
	//     `blockingCall "Consensus.<method>"`.
	{name: "c20x", file: "SkeletonsShared.lean", namespace: "LiskVerif.Gen.SkeletonsShared", about: "C20 (derived shared fields, queue / emitter wait-for)",
		derive: true,
		types: []typeCfg{
			{pkg: "pkg/blockchain", name: "blockCache", file: "block_cache.go"},
			{pkg: "pkg/blockchain", name: "DataAccess", file: "data_access.go"},
			{pkg: "pkg/blockchain", name: "Chain", file: "chain.go"},
			{pkg: "pkg/consensus/certificate", name: "Pool", file: "pool.go"},
			{pkg: "pkg/event", name: "EventEmitter", file: "event.go"},
			{pkg: "pkg/db/diffdb", name: "Database", file: "db.go",
				helpers: []string{"ensureCache", "getKey", "mergeSortLimit"}},
			{pkg: "pkg/consensus", name: "Executer"},
			{pkg: "pkg/consensus/liskbft", name: "Module", file: "module.go"},
			{pkg: "pkg/generator", name: "Generator", file: "generator.go"},
			{pkg: "pkg/engine/endpoint", name: "chainEndpoint", file: "chain_endpoint.go"},
			{pkg: "pkg/engine/endpoint", name: "systemEndpoint", file: "system_endpoint.go"},
			{pkg: "pkg/engine/endpoint", name: "generatorEndpoint", file: "generator_endpoint.go"},
		},
		funcs: []funcCfg{{pkg: "pkg/consensus", name: "NewExecuter"}},
		external: []extCfg{
			{pkg: "pkg/generator", name: "Consensus", methods: []string{"*"}},
		},
		lockOrder: []string{"EventEmitter.rwMutex", "Pool.mutex", "Database.mutex", "blockCache.mutex"}},
}

// ---------------------------------------------------------------------------------------------
// skeleton representation

type action struct {
	Op   string     `json:"op"`
	Arg  string     `json:"arg,omitempty"`
	N    int        `json:"n,omitempty"` // capacity of a makeChan
	Body []action   `json:"body,omitempty"`
	Alts [][]action `json:"alts,omitempty"`
}

type skeleton struct {
	Name   string   `json:"name"` // Type.method
	Lean   string   `json:"lean"` // Lean identifier
	File   string   `json:"file"`
	Line   int      `json:"line"`
	Entry  bool     `json:"entry"`
	Body   []action `json:"body"`
	Unkown int      `json:"unknown"`
}

// ---------------------------------------------------------------------------------------------
// package information

type typeRef struct {
	pkg   string // repository directory ("" = not a repository type)
	name  string
	kind  string // "named" | "chan" | "mutex" | "rwmutex" | "other"
	valid bool
	elem  *typeRef // element type of a slice / array / map / channel type
}

type pkgInfo struct {
	dir     string
	files   map[string]*ast.File
	structs map[string]*ast.StructType
	ifaces  map[string]*ast.InterfaceType
	methods map[string]*ast.FuncDecl // "Type.method"
	funcs   map[string]*ast.FuncDecl
	fileOf  map[*ast.FuncDecl]*ast.File
	fileOfS map[string]*ast.File // struct name -> file
}

type gen struct {
	repo        string
	fset        *token.FileSet
	pkgs        map[string]*pkgInfo
	cfg         map[string]*typeCfg        // type name -> config
	scope       map[string]bool            // "Type.method" in scope
	names       map[string]bool            // method names in scope
	funcPkg     map[string]string          // plain function in scope -> its package directory
	ext         map[string]map[string]bool // "pkg\x00Type" -> possibly blocking methods of a type outside the group
	localMus    []string
	localGuards [][2]string // captured variable -> the local mutex locked around its first access
	lits        []skeleton  // function literals called synchronously (sort.Slice comparators ...)
	derive      bool        // group option `derive`
	derivedInfo []derivedField
}

// derivedField records why a field became a shared variable (group option `derive`).
type derivedField struct {
	Var    string   `json:"var"`
	Guard  string   `json:"guard"`
	Writes []string `json:"writes"` // functions assigning it (outside constructors / Init)
}

func (g *gen) loadPkg(dir string) *pkgInfo {
	if p, ok := g.pkgs[dir]; ok {
		return p
	}
	p := &pkgInfo{dir: dir, files: map[string]*ast.File{}, structs: map[string]*ast.StructType{}, ifaces: map[string]*ast.InterfaceType{}, methods: map[string]*ast.FuncDecl{},
		funcs: map[string]*ast.FuncDecl{}, fileOf: map[*ast.FuncDecl]*ast.File{}, fileOfS: map[string]*ast.File{}}
	g.pkgs[dir] = p
	matches, _ := filepath.Glob(filepath.Join(g.repo, dir, "*.go"))
	sort.Strings(matches)
	for _, path := range matches {
		base := filepath.Base(path)
		if strings.HasSuffix(base, "_test.go") || strings.HasSuffix(base, "_verif.go") {
			continue
		}
		f, err := parser.ParseFile(g.fset, path, nil, 0)
		if err != nil {
			fmt.Fprintln(os.Stderr, "skelgen: parse error:", err)
			os.Exit(1)
		}
		p.files[base] = f
		for _, d := range f.Decls {
			switch x := d.(type) {
			case *ast.GenDecl:
				for _, s := range x.Specs {
					if ts, ok := s.(*ast.TypeSpec); ok {
						if st, ok := ts.Type.(*ast.StructType); ok {
							p.structs[ts.Name.Name] = st
							p.fileOfS[ts.Name.Name] = f
						}
						if it, ok := ts.Type.(*ast.InterfaceType); ok {
							p.ifaces[ts.Name.Name] = it
							p.fileOfS[ts.Name.Name] = f
						}
					}
				}
			case *ast.FuncDecl:
				p.fileOf[x] = f
				if x.Recv == nil {
					p.funcs[x.Name.Name] = x
				} else if len(x.Recv.List) == 1 {
					p.methods[recvTypeName(x.Recv.List[0].Type)+"."+x.Name.Name] = x
				}
			}
		}
	}
	return p
}

func recvTypeName(e ast.Expr) string {
	switch x := e.(type) {
	case *ast.StarExpr:
		return recvTypeName(x.X)
	case *ast.Ident:
		return x.Name
	case *ast.IndexExpr:
		return recvTypeName(x.X)
	}
	return "?"
}

func importPath(f *ast.File, alias string) string {
	for _, im := range f.Imports {
		path, _ := strconv.Unquote(im.Path.Value)
		name := filepath.Base(path)
		if im.Name != nil {
			name = im.Name.Name
		}
		if name == alias {
			return path
		}
	}
	return ""
}

// typeFromExpr resolves a type expression written in file f of package dir.
func (g *gen) typeFromExpr(dir string, f *ast.File, e ast.Expr) typeRef {
	switch x := e.(type) {
	case *ast.StarExpr:
		return g.typeFromExpr(dir, f, x.X)
	case *ast.ParenExpr:
		return g.typeFromExpr(dir, f, x.X)
	case *ast.Ident:
		switch x.Name {
		case "bool", "string", "int", "int32", "int64", "uint", "uint8", "uint32", "uint64", "byte", "error", "float64":
			return typeRef{kind: "other", valid: true}
		}
		return typeRef{pkg: dir, name: x.Name, kind: "named", valid: true}
	case *ast.SelectorExpr:
		if id, ok := x.X.(*ast.Ident); ok {
			path := importPath(f, id.Name)
			if path == "sync" {
				switch x.Sel.Name {
				case "Mutex":
					return typeRef{kind: "mutex", valid: true}
				case "RWMutex":
					return typeRef{kind: "rwmutex", valid: true}
				}
				return typeRef{kind: "other", name: "sync." + x.Sel.Name, valid: true}
			}
			if strings.HasPrefix(path, modulePath) {
				return typeRef{pkg: strings.TrimPrefix(path, modulePath), name: x.Sel.Name, kind: "named", valid: true}
			}
			if path != "" {
				return typeRef{kind: "other", name: path + "." + x.Sel.Name, valid: true}
			}
		}
	case *ast.ChanType:
		el := g.typeFromExpr(dir, f, x.Value)
		return typeRef{kind: "chan", valid: true, elem: &el}
	case *ast.ArrayType:
		el := g.typeFromExpr(dir, f, x.Elt)
		return typeRef{kind: "other", valid: true, elem: &el}
	case *ast.MapType:
		el := g.typeFromExpr(dir, f, x.Value)
		return typeRef{kind: "other", valid: true, elem: &el}
	case *ast.FuncType, *ast.InterfaceType, *ast.StructType, *ast.Ellipsis:
		return typeRef{kind: "other", valid: true}
	}
	return typeRef{}
}

func (g *gen) fieldType(t typeRef, field string) typeRef {
	if t.kind != "named" || t.pkg == "" {
		return typeRef{}
	}
	p := g.loadPkg(t.pkg)
	st, ok := p.structs[t.name]
	if !ok {
		return typeRef{}
	}
	for _, fl := range st.Fields.List {
		for _, n := range fl.Names {
			if n.Name == field {
				return g.typeFromExpr(t.pkg, p.fileOfS[t.name], fl.Type)
			}
		}
	}
	return typeRef{}
}

func (g *gen) resultType(dir string, fd *ast.FuncDecl, i int) typeRef {
	if fd == nil || fd.Type.Results == nil {
		return typeRef{}
	}
	p := g.loadPkg(dir)
	k := 0
	for _, fl := range fd.Type.Results.List {
		n := len(fl.Names)
		if n == 0 {
			n = 1
		}
		for j := 0; j < n; j++ {
			if k == i {
				return g.typeFromExpr(dir, p.fileOf[fd], fl.Type)
			}
			k++
		}
	}
	return typeRef{}
}

// ---------------------------------------------------------------------------------------------
// per-function extraction

type spawnCtx struct {
	lit   *ast.FuncLit
	loops []ast.Stmt // loops enclosing the spawn statement
}

type fctx struct {
	g        *gen
	dir      string
	file     *ast.File
	fd       *ast.FuncDecl
	fname    string // Type.method
	tname    string
	loops    []ast.Stmt // enclosing loops (innermost last)
	spawn    *spawnCtx  // non-nil while inside a spawned closure
	written  map[*ast.Object]bool
	unknowns int
	depth    int
	nlit     int
	heldNow  []string // mutexes locked so far on the current straight-line walk (innermost last)
}

func (c *fctx) pos(n ast.Node) string {
	p := c.g.fset.Position(n.Pos())
	rel, err := filepath.Rel(c.g.repo, p.Filename)
	if err != nil {
		rel = p.Filename
	}
	return fmt.Sprintf("%s:%d:%d", rel, p.Line, p.Column)
}

func (c *fctx) unknown(n ast.Node, why string) action {
	c.unknowns++
	return action{Op: "unknown", Arg: c.pos(n) + " " + why}
}

func (c *fctx) text(e ast.Expr) string {
	var sb strings.Builder
	_ = printer.Fprint(&sb, c.g.fset, e)
	return sb.String()
}

// chanName names the channel denoted by e. In a `derive` group a channel held in a field of a repository
// struct is named "Type.field" whatever the receiver variable is called; otherwise the source text.
func (c *fctx) chanName(e ast.Expr) string {
	if c.g.derive {
		if sel, ok := e.(*ast.SelectorExpr); ok {
			if t := c.typeOf(sel.X); t.kind == "named" && t.name != "" {
				return t.name + "." + sel.Sel.Name
			}
		}
	}
	return c.text(e)
}

// typeOf is a small syntactic type inference: enough to resolve receivers of method calls.
func (c *fctx) typeOf(e ast.Expr) typeRef {
	c.depth++
	defer func() { c.depth-- }()
	if c.depth > 20 {
		return typeRef{}
	}
	switch x := e.(type) {
	case *ast.ParenExpr:
		return c.typeOf(x.X)
	case *ast.StarExpr:
		return c.typeOf(x.X)
	case *ast.UnaryExpr:
		if x.Op == token.AND {
			return c.typeOf(x.X)
		}
		if x.Op == token.ARROW {
			return typeRef{}
		}
		return typeRef{kind: "other", valid: true}
	case *ast.CompositeLit:
		if x.Type != nil {
			return c.g.typeFromExpr(c.dir, c.file, x.Type)
		}
	case *ast.Ident:
		if x.Obj == nil {
			return typeRef{}
		}
		switch d := x.Obj.Decl.(type) {
		case *ast.Field:
			return c.g.typeFromExpr(c.dir, c.file, d.Type)
		case *ast.ValueSpec:
			if d.Type != nil {
				return c.g.typeFromExpr(c.dir, c.file, d.Type)
			}
			for i, n := range d.Names {
				if n.Name == x.Name && i < len(d.Values) {
					return c.typeOf(d.Values[i])
				}
			}
		case *ast.AssignStmt:
			for i, l := range d.Lhs {
				if id, ok := l.(*ast.Ident); ok && id.Name == x.Name {
					if len(d.Rhs) == 1 {
						// `for k, v := range X`: the parser records the range clause as `k, v := range X`
						if u, ok := d.Rhs[0].(*ast.UnaryExpr); ok && u.Op == token.RANGE {
							ct := c.typeOf(u.X)
							if !ct.valid {
								return typeRef{}
							}
							if (i == 1 || (i == 0 && ct.kind == "chan")) && ct.elem != nil {
								return *ct.elem
							}
							if i == 0 && ct.kind != "chan" {
								return typeRef{kind: "other", valid: true} // key / index
							}
							return typeRef{}
						}
					}
					if len(d.Rhs) == len(d.Lhs) {
						return c.typeOf(d.Rhs[i])
					}
					if len(d.Rhs) == 1 {
						// comma-ok forms: v, ok := m[k] / x.(T)
						switch r := d.Rhs[0].(type) {
						case *ast.IndexExpr, *ast.TypeAssertExpr:
							if i == 0 {
								return c.typeOf(r)
							}
							return typeRef{kind: "other", valid: true}
						}
						return c.callResult(d.Rhs[0], i)
					}
				}
			}
		}
	case *ast.IndexExpr:
		if ct := c.typeOf(x.X); ct.valid && ct.elem != nil {
			return *ct.elem
		}
		return typeRef{}
	case *ast.TypeAssertExpr:
		if x.Type != nil {
			return c.g.typeFromExpr(c.dir, c.file, x.Type)
		}
	case *ast.SelectorExpr:
		if id, ok := x.X.(*ast.Ident); ok && id.Obj == nil && importPath(c.file, id.Name) != "" {
			return typeRef{}
		}
		return c.g.fieldType(c.typeOf(x.X), x.Sel.Name)
	case *ast.CallExpr:
		return c.callResult(x, 0)
	}
	return typeRef{}
}

func (c *fctx) callResult(e ast.Expr, i int) typeRef {
	call, ok := e.(*ast.CallExpr)
	if !ok {
		return typeRef{}
	}
	switch f := call.Fun.(type) {
	case *ast.Ident:
		switch f.Name {
		case "new":
			if len(call.Args) == 1 {
				return c.g.typeFromExpr(c.dir, c.file, call.Args[0])
			}
		case "make":
			if len(call.Args) >= 1 {
				return c.g.typeFromExpr(c.dir, c.file, call.Args[0])
			}
		}
		if f.Obj == nil || f.Obj.Kind == ast.Fun {
			p := c.g.loadPkg(c.dir)
			return c.g.resultType(c.dir, p.funcs[f.Name], i)
		}
	case *ast.SelectorExpr:
		if id, ok := f.X.(*ast.Ident); ok && id.Obj == nil {
			if path := importPath(c.file, id.Name); path != "" {
				if strings.HasPrefix(path, modulePath) {
					dir := strings.TrimPrefix(path, modulePath)
					if _, err := os.Stat(filepath.Join(c.g.repo, dir)); err == nil {
						p := c.g.loadPkg(dir)
						return c.g.resultType(dir, p.funcs[f.Sel.Name], i)
					}
				}
				return typeRef{}
			}
		}
		t := c.typeOf(f.X)
		if t.kind == "named" && t.pkg != "" {
			p := c.g.loadPkg(t.pkg)
			return c.g.resultType(t.pkg, p.methods[t.name+"."+f.Sel.Name], i)
		}
	}
	return typeRef{}
}

// mutexName returns the skeleton name of the mutex denoted by e ("" if e is not recognised).
func (c *fctx) mutexName(e ast.Expr) string {
	switch x := e.(type) {
	case *ast.ParenExpr:
		return c.mutexName(x.X)
	case *ast.SelectorExpr:
		t := c.typeOf(x.X)
		if t.kind == "named" {
			return t.name + "." + x.Sel.Name
		}
	case *ast.Ident:
		name := c.fname + "." + x.Name
		found := false
		for _, m := range c.g.localMus {
			if m == name {
				found = true
			}
		}
		if !found {
			c.g.localMus = append(c.g.localMus, name)
		}
		return name
	}
	return ""
}

// lockOp recognises X.Lock() / X.Unlock() / X.RLock() / X.RUnlock() / X.RLocker().Lock() / X.RLocker().Unlock().
func (c *fctx) lockOp(call *ast.CallExpr) (op string, mutex string, ok bool) {
	sel, isSel := call.Fun.(*ast.SelectorExpr)
	if !isSel || len(call.Args) != 0 {
		return "", "", false
	}
	switch sel.Sel.Name {
	case "Lock", "Unlock", "RLock", "RUnlock":
	default:
		return "", "", false
	}
	target := sel.X
	op = map[string]string{"Lock": "lock", "Unlock": "unlock", "RLock": "rlock", "RUnlock": "runlock"}[sel.Sel.Name]
	if inner, isCall := target.(*ast.CallExpr); isCall {
		if isel, ok2 := inner.Fun.(*ast.SelectorExpr); ok2 && isel.Sel.Name == "RLocker" && len(inner.Args) == 0 {
			target = isel.X
			switch sel.Sel.Name {
			case "Lock":
				op = "rlock"
			case "Unlock":
				op = "runlock"
			default:
				return "", "", false
			}
		} else {
			return "", "", false
		}
	}
	// a repository type with its own Lock method is not a mutex
	t := c.typeOf(target)
	if t.kind == "named" || t.kind == "chan" {
		return "", "", false
	}
	if t.kind == "other" && t.name != "" && !strings.HasPrefix(t.name, "sync.") {
		return "", "", false
	}
	m := c.mutexName(target)
	if m == "" {
		return "", "", false
	}
	return op, m, true
}

// guardedField returns "Type.field" if e is an access to a guarded field of a configured type.
func (c *fctx) guardedField(e ast.Expr) string {
	sel, ok := e.(*ast.SelectorExpr)
	if !ok {
		return ""
	}
	t := c.typeOf(sel.X)
	if t.kind != "named" {
		return ""
	}
	cfg, ok := c.g.cfg[t.name]
	if !ok || cfg.pkg != t.pkg {
		return ""
	}
	if _, ok := cfg.guarded[sel.Sel.Name]; ok {
		return t.name + "." + sel.Sel.Name
	}
	return ""
}

// baseOf strips index / slice / star / paren / field selections down to the accessed variable.
func (c *fctx) baseOf(e ast.Expr) ast.Expr {
	for {
		if c.guardedField(e) != "" {
			return e
		}
		switch x := e.(type) {
		case *ast.IndexExpr:
			e = x.X
		case *ast.SliceExpr:
			e = x.X
		case *ast.StarExpr:
			e = x.X
		case *ast.ParenExpr:
			e = x.X
		case *ast.SelectorExpr:
			if id, ok := x.X.(*ast.Ident); ok && id.Obj == nil {
				return e
			}
			e = x.X
		default:
			return e
		}
	}
}

func within(p token.Pos, n ast.Node) bool { return n != nil && n.Pos() <= p && p < n.End() }

// classify a local identifier used inside a spawned closure: "local" (declared in the closure),
// "iter" (declared per iteration of an enclosing loop), "shared" (captured from the function).
func (c *fctx) capture(id *ast.Ident) string {
	if c.spawn == nil || id.Obj == nil || id.Obj.Kind != ast.Var {
		return ""
	}
	p := id.Obj.Pos()
	if !within(p, c.fd) {
		return ""
	}
	if within(p, c.spawn.lit) {
		return "local"
	}
	for _, l := range c.spawn.loops {
		switch x := l.(type) {
		case *ast.ForStmt:
			if within(p, x.Body) {
				return "iter"
			}
		case *ast.RangeStmt:
			if within(p, x.Body) {
				return "iter"
			}
		}
	}
	return "shared"
}

// localName names a captured variable; its guard is proposed as the mutex locked (exclusively) around
// the first access seen — the Lean lockset criterion checks the proposal at every access.
func (c *fctx) localName(id *ast.Ident) string {
	name := "local:" + c.fname + "." + id.Name
	for _, g := range c.g.localGuards {
		if g[0] == name {
			return name
		}
	}
	if len(c.heldNow) > 0 {
		c.g.localGuards = append(c.g.localGuards, [2]string{name, c.heldNow[len(c.heldNow)-1]})
	}
	return name
}

// mentionsPerGoroutineVar reports whether the index expression depends on a variable that is
// distinct for every spawned goroutine.
func (c *fctx) mentionsPerGoroutineVar(e ast.Expr) bool {
	found := false
	ast.Inspect(e, func(n ast.Node) bool {
		if id, ok := n.(*ast.Ident); ok {
			if k := c.capture(id); k == "iter" || k == "local" {
				found = true
			}
		}
		return true
	})
	return found
}

// collectWritten finds the captured variables assigned inside spawned closures (first pass).
func (c *fctx) collectWritten() {
	c.written = map[*ast.Object]bool{}
	var visit func(n ast.Node, lit *ast.FuncLit)
	mark := func(e ast.Expr, lit *ast.FuncLit) {
		if lit == nil {
			return
		}
		if id, ok := c.baseOfPlain(e).(*ast.Ident); ok && id.Obj != nil && id.Obj.Kind == ast.Var {
			if !within(id.Obj.Pos(), lit) && within(id.Obj.Pos(), c.fd) {
				c.written[id.Obj] = true
			}
		}
	}
	visit = func(n ast.Node, lit *ast.FuncLit) {
		ast.Inspect(n, func(m ast.Node) bool {
			switch x := m.(type) {
			case *ast.GoStmt:
				if fl, ok := x.Call.Fun.(*ast.FuncLit); ok {
					for _, a := range x.Call.Args {
						visit(a, lit)
					}
					visit(fl.Body, fl)
					return false
				}
			case *ast.CallExpr:
				if fl := spawnLit(x); fl != nil {
					visit(fl.Body, fl)
					return false
				}
			case *ast.AssignStmt:
				for _, l := range x.Lhs {
					mark(l, lit)
				}
			case *ast.IncDecStmt:
				mark(x.X, lit)
			}
			return true
		})
	}
	visit(c.fd.Body, nil)
}

func (c *fctx) baseOfPlain(e ast.Expr) ast.Expr {
	for {
		switch x := e.(type) {
		case *ast.IndexExpr:
			e = x.X
		case *ast.SliceExpr:
			e = x.X
		case *ast.StarExpr:
			e = x.X
		case *ast.ParenExpr:
			e = x.X
		default:
			return e
		}
	}
}

// spawnLit recognises `X.Go(func() ... {...})` (errgroup style spawn).
func spawnLit(call *ast.CallExpr) *ast.FuncLit {
	sel, ok := call.Fun.(*ast.SelectorExpr)
	if !ok || sel.Sel.Name != "Go" || len(call.Args) != 1 {
		return nil
	}
	fl, _ := call.Args[0].(*ast.FuncLit)
	return fl
}

// ---- expressions ----------------------------------------------------------------------------

func (c *fctx) exprs(es []ast.Expr) []action {
	var out []action
	for _, e := range es {
		out = append(out, c.expr(e)...)
	}
	return out
}

// expr emits the actions of evaluating e (reads, calls, receives) in evaluation order.
func (c *fctx) expr(e ast.Expr) []action {
	if e == nil {
		return nil
	}
	if f := c.guardedField(e); f != "" {
		sel := e.(*ast.SelectorExpr)
		return append(c.expr(sel.X), action{Op: "read", Arg: f})
	}
	switch x := e.(type) {
	case *ast.BasicLit:
		return nil
	case *ast.Ident:
		if c.spawn != nil && x.Obj != nil && c.written[x.Obj] && c.capture(x) == "shared" {
			return []action{{Op: "read", Arg: c.localName(x)}}
		}
		return nil
	case *ast.ParenExpr:
		return c.expr(x.X)
	case *ast.SelectorExpr:
		return c.expr(x.X)
	case *ast.StarExpr:
		return c.expr(x.X)
	case *ast.IndexExpr:
		return append(c.expr(x.X), c.expr(x.Index)...)
	case *ast.SliceExpr:
		out := c.expr(x.X)
		out = append(out, c.expr(x.Low)...)
		out = append(out, c.expr(x.High)...)
		return append(out, c.expr(x.Max)...)
	case *ast.BinaryExpr:
		if x.Op == token.LAND || x.Op == token.LOR {
			out := c.expr(x.X)
			if r := c.expr(x.Y); len(r) > 0 {
				out = append(out, action{Op: "choice", Alts: [][]action{r, {}}})
			}
			return out
		}
		return append(c.expr(x.X), c.expr(x.Y)...)
	case *ast.UnaryExpr:
		if x.Op == token.ARROW {
			return append(c.expr(x.X), action{Op: "recv", Arg: c.chanName(x.X)})
		}
		if x.Op == token.AND {
			if f := c.guardedField(c.baseOf(x.X)); f != "" {
				return append(c.expr(x.X), action{Op: "write", Arg: f})
			}
		}
		return c.expr(x.X)
	case *ast.TypeAssertExpr:
		return c.expr(x.X)
	case *ast.KeyValueExpr:
		return append(c.expr(x.Key), c.expr(x.Value)...)
	case *ast.CompositeLit:
		out := c.exprs(x.Elts)
		if c.g.derive && x.Type != nil {
			// T{field: make(chan E, n)}: the channel of field `field` is created here
			if t := c.g.typeFromExpr(c.dir, c.file, x.Type); t.kind == "named" && t.name != "" {
				for _, el := range x.Elts {
					if kv, ok := el.(*ast.KeyValueExpr); ok {
						if key, ok := kv.Key.(*ast.Ident); ok {
							for _, a := range c.makeChan(key, kv.Value) {
								a.Arg = t.name + "." + key.Name
								out = append(out, a)
							}
						}
					}
				}
			}
		}
		return out
	case *ast.ArrayType, *ast.MapType, *ast.ChanType, *ast.FuncType, *ast.InterfaceType, *ast.StructType:
		return nil
	case *ast.FuncLit:
		// a function value handed to a callee (comparator, callback): it may run any number of
		// times on this goroutine; it becomes a helper skeleton of its own so that its `return`s
		// stay local to it
		savedLoops := c.loops
		c.loops = nil
		body := simplify(c.block(x.Body.List))
		c.loops = savedLoops
		if onlyControl(body) {
			return nil
		}
		c.nlit++
		name := fmt.Sprintf("%s.func%d", c.fname, c.nlit)
		pos := c.g.fset.Position(x.Pos())
		rel, _ := filepath.Rel(c.g.repo, pos.Filename)
		c.g.lits = append(c.g.lits, skeleton{Name: name, Lean: leanIdent(name), File: rel, Line: pos.Line, Entry: false, Body: body, Unkown: countUnknown(body)})
		return []action{{Op: "loop", Body: []action{{Op: "call", Arg: name}}}}
	case *ast.CallExpr:
		return c.call(x)
	}
	return []action{c.unknown(e, fmt.Sprintf("expression %T", e))}
}

func (c *fctx) call(x *ast.CallExpr) []action {
	if op, m, ok := c.lockOp(x); ok {
		switch op {
		case "lock":
			c.heldNow = append(c.heldNow, m)
		case "unlock":
			for i := len(c.heldNow) - 1; i >= 0; i-- {
				if c.heldNow[i] == m {
					c.heldNow = append(c.heldNow[:i], c.heldNow[i+1:]...)
					break
				}
			}
		}
		return []action{{Op: op, Arg: m}}
	}
	// errgroup-style spawn
	if fl := spawnLit(x); fl != nil {
		return []action{c.spawnBody(fl, nil)}
	}
	if id, ok := x.Fun.(*ast.Ident); ok && id.Obj == nil {
		switch id.Name {
		case "delete":
			out := c.exprs(x.Args)
			if len(x.Args) > 0 {
				if f := c.guardedField(c.baseOf(x.Args[0])); f != "" {
					out = append(out, action{Op: "del", Arg: f}) // removal from a guarded map (a write)
				}
			}
			return out
		case "close", "len", "cap", "append", "make", "new", "copy", "panic", "string", "uint32", "uint64", "int", "int64", "float64", "byte", "min", "max":
			return c.exprs(x.Args)
		}
	}
	var out []action
	sel, isSel := x.Fun.(*ast.SelectorExpr)
	if isSel {
		// receiver expression first (a method call on a guarded field is a write: it may mutate it)
		if f := c.guardedField(c.baseOf(sel.X)); f != "" {
			out = append(out, c.expr(sel.X)...)
			out = append(out, c.exprs(x.Args)...)
			return append(out, action{Op: "write", Arg: f})
		}
		out = append(out, c.expr(sel.X)...)
	} else if _, isId := x.Fun.(*ast.Ident); !isId {
		out = append(out, c.expr(x.Fun)...)
	}
	// arguments; function literals passed as arguments may be called by the callee
	for _, a := range x.Args {
		out = append(out, c.expr(a)...)
	}
	if isSel {
		name := sel.Sel.Name
		switch name {
		case "Wait":
			t := c.typeOf(sel.X)
			if t.kind != "named" {
				return append(out, action{Op: "wait", Arg: c.text(sel.X)})
			}
		}
		if id, ok := sel.X.(*ast.Ident); ok && id.Obj == nil && importPath(c.file, id.Name) != "" {
			return out // function of another package
		}
		t := c.typeOf(sel.X)
		if t.kind == "named" {
			key := t.name + "." + name
			if cfg, ok := c.g.cfg[t.name]; ok && cfg.pkg == t.pkg && contains(cfg.blocking, name) {
				return append(out, action{Op: "blockingCall", Arg: key})
			}
			if cfg, ok := c.g.cfg[t.name]; ok && cfg.pkg == t.pkg && c.g.scope[key] {
				return append(out, action{Op: "call", Arg: key})
			}
			if ms, ok := c.g.ext[t.pkg+"\x00"+t.name]; ok && ms[name] {
				return append(out, action{Op: "blockingCall", Arg: key}) // possibly blocking operation of a type outside the group
			}
			return out // method of a type outside the configured scope
		}
		if t.valid {
			return out
		}
		if c.g.names[name] {
			out = append(out, c.unknown(x, "call of "+name+" on a receiver of unknown type"))
		}
	} else if id, ok := x.Fun.(*ast.Ident); ok && (id.Obj == nil || id.Obj.Kind == ast.Fun) {
		// call of a configured plain function of the same package
		if pkg, ok := c.g.funcPkg[id.Name]; ok && pkg == c.dir {
			out = append(out, action{Op: "call", Arg: id.Name})
		}
	}
	return out
}

// spawnBody extracts the body of a spawned closure as a `go` action.
func (c *fctx) spawnBody(fl *ast.FuncLit, args []ast.Expr) action {
	saved := c.spawn
	savedLoops := c.loops
	c.spawn = &spawnCtx{lit: fl, loops: append([]ast.Stmt{}, c.loops...)}
	if saved != nil {
		c.spawn.loops = append(append([]ast.Stmt{}, saved.loops...), c.loops...)
	}
	c.loops = nil
	savedHeld := c.heldNow
	c.heldNow = nil
	body := c.block(fl.Body.List)
	c.heldNow = savedHeld
	c.spawn = saved
	c.loops = savedLoops
	return action{Op: "go", Body: body}
}

// ---- statements -----------------------------------------------------------------------------

func (c *fctx) block(list []ast.Stmt) []action {
	var out []action
	for _, s := range list {
		out = append(out, c.stmt(s)...)
	}
	return out
}

// lhs emits the write for an assignment target.
func (c *fctx) lhs(e ast.Expr) []action {
	var out []action
	// sub-expressions evaluated for addressing (indexes)
	switch x := e.(type) {
	case *ast.IndexExpr:
		out = append(out, c.expr(x.Index)...)
	}
	base := c.baseOf(e)
	if f := c.guardedField(base); f != "" {
		return append(out, action{Op: "write", Arg: f})
	}
	if id, ok := c.baseOfPlain(e).(*ast.Ident); ok && c.capture(id) == "shared" {
		if ix, isIndex := e.(*ast.IndexExpr); isIndex && c.mentionsPerGoroutineVar(ix.Index) {
			return append(out, action{Op: "slot", Arg: c.localName(id)})
		}
		return append(out, action{Op: "write", Arg: c.localName(id)})
	}
	return out
}

// makeChan recognises `target = make(chan T)` / `make(chan T, n)` with a literal capacity and emits
// the creation of the channel under the name of the target. A capacity that is not an integer literal
// emits nothing: obligations that need a capacity then fail (they never pass by default).
func (c *fctx) makeChan(target ast.Expr, val ast.Expr) []action {
	call, ok := val.(*ast.CallExpr)
	if !ok || len(call.Args) == 0 || len(call.Args) > 2 {
		return nil
	}
	if id, ok := call.Fun.(*ast.Ident); !ok || id.Name != "make" || id.Obj != nil {
		return nil
	}
	if _, ok := call.Args[0].(*ast.ChanType); !ok {
		return nil
	}
	n := 0
	if len(call.Args) == 2 {
		lit, ok := call.Args[1].(*ast.BasicLit)
		if !ok || lit.Kind != token.INT {
			return nil
		}
		v, err := strconv.ParseInt(lit.Value, 0, 32)
		if err != nil || v < 0 {
			return nil
		}
		n = int(v)
	}
	return []action{{Op: "makeChan", Arg: c.chanName(target), N: n}}
}

func (c *fctx) stmt(s ast.Stmt) []action {
	switch x := s.(type) {
	case nil:
		return nil
	case *ast.EmptyStmt:
		return nil
	case *ast.BlockStmt:
		return c.block(x.List)
	case *ast.ExprStmt:
		return c.expr(x.X)
	case *ast.DeclStmt:
		var out []action
		if gd, ok := x.Decl.(*ast.GenDecl); ok {
			for _, sp := range gd.Specs {
				if vs, ok := sp.(*ast.ValueSpec); ok {
					out = append(out, c.exprs(vs.Values)...)
					if len(vs.Names) == len(vs.Values) {
						for i, n := range vs.Names {
							out = append(out, c.makeChan(n, vs.Values[i])...)
						}
					}
				}
			}
		}
		return out
	case *ast.AssignStmt:
		out := c.exprs(x.Rhs)
		if x.Tok != token.ASSIGN && x.Tok != token.DEFINE { // op-assignment reads the target as well
			out = append(out, c.exprs(x.Lhs)...)
		}
		if len(x.Lhs) == len(x.Rhs) {
			for i, l := range x.Lhs {
				out = append(out, c.makeChan(l, x.Rhs[i])...)
			}
		}
		for _, l := range x.Lhs {
			out = append(out, c.lhs(l)...)
		}
		return out
	case *ast.IncDecStmt:
		return append(c.expr(x.X), c.lhs(x.X)...)
	case *ast.SendStmt:
		out := append(c.expr(x.Chan), c.expr(x.Value)...)
		return append(out, action{Op: "send", Arg: c.chanName(x.Chan)})
	case *ast.ReturnStmt:
		if len(x.Results) == 1 {
			if fl, ok := x.Results[0].(*ast.FuncLit); ok {
				// a returned closure (handler) runs later on some other goroutine
				return []action{c.spawnBody(fl, nil), {Op: "ret"}}
			}
		}
		return append(c.exprs(x.Results), action{Op: "ret"})
	case *ast.DeferStmt:
		if op, m, ok := c.lockOp(x.Call); ok {
			switch op {
			case "unlock":
				return []action{{Op: "deferUnlock", Arg: m}}
			case "runlock":
				return []action{{Op: "deferRUnlock", Arg: m}}
			}
			return []action{c.unknown(x, "deferred lock acquisition")}
		}
		if sel, ok := x.Call.Fun.(*ast.SelectorExpr); ok && sel.Sel.Name == "Done" && len(x.Call.Args) == 0 {
			if t := c.typeOf(sel.X); t.kind != "named" {
				return nil // wg.Done()
			}
		}
		// a deferred call without any skeleton action of its own (s.Close(), cancel(), ...) has no
		// effect on the skeleton, whenever it runs
		if _, isLit := x.Call.Fun.(*ast.FuncLit); !isLit {
			saved := c.unknowns
			if acts := simplify(c.call(x.Call)); len(acts) == 0 {
				return nil
			}
			c.unknowns = saved
		} else if c.g.derive {
			// derive groups: a deferred function literal that does nothing but access shared variables
			// (`defer func() { c.syncying = false }()`) runs at function exit; it is kept as a body that
			// starts with NO lock held (conservative for the lockset criterion: an access that relies on a
			// lock of the enclosing function is reported as unguarded)
			fl := x.Call.Fun.(*ast.FuncLit)
			saved, savedLoops, savedHeld := c.unknowns, c.loops, c.heldNow
			c.loops, c.heldNow = nil, nil
			body := simplify(c.block(fl.Body.List))
			c.loops, c.heldNow = savedLoops, savedHeld
			if len(body) == 0 || onlyControl(body) {
				c.unknowns = saved
				return nil
			}
			if onlyAccesses(body) {
				return []action{{Op: "go", Body: body}}
			}
			c.unknowns = saved
		}
		return []action{c.unknown(x, "defer")}
	case *ast.GoStmt:
		out := c.exprs(x.Call.Args)
		if fl, ok := x.Call.Fun.(*ast.FuncLit); ok {
			return append(out, c.spawnBody(fl, x.Call.Args))
		}
		// go f(...): the callee runs on its own goroutine
		body := c.call(x.Call)
		return append(out, action{Op: "go", Body: body})
	case *ast.IfStmt:
		out := c.stmt(x.Init)
		out = append(out, c.expr(x.Cond)...)
		thenB := c.block(x.Body.List)
		var elseB []action
		if x.Else != nil {
			elseB = c.stmt(x.Else)
		}
		return append(out, action{Op: "choice", Alts: [][]action{thenB, elseB}})
	case *ast.SwitchStmt:
		out := c.stmt(x.Init)
		out = append(out, c.expr(x.Tag)...)
		return append(out, c.cases(x.Body)...)
	case *ast.TypeSwitchStmt:
		out := c.stmt(x.Init)
		out = append(out, c.stmt(x.Assign)...)
		return append(out, c.cases(x.Body)...)
	case *ast.ForStmt:
		out := c.stmt(x.Init)
		c.loops = append(c.loops, x)
		body := c.expr(x.Cond)
		body = append(body, c.block(x.Body.List)...)
		post := c.stmt(x.Post)
		if len(post) > 0 && hasJump(body, "break continue") {
			post = append(post, c.unknown(x, "break/continue in a for loop whose post statement has effects"))
		}
		body = append(c.checkJumps(x.Body, body), post...)
		c.loops = c.loops[:len(c.loops)-1]
		return append(out, action{Op: "loop", Body: body})
	case *ast.RangeStmt:
		out := c.expr(x.X)
		c.loops = append(c.loops, x)
		var body []action
		t := c.typeOf(x.X)
		if t.kind == "chan" || (!t.valid && x.Value == nil) {
			// ranging over a channel (or a value of unknown type with a single variable) receives
			body = append(body, action{Op: "recv", Arg: c.chanName(x.X)})
		}
		if x.Tok == token.ASSIGN {
			for _, l := range []ast.Expr{x.Key, x.Value} {
				if l != nil {
					body = append(body, c.lhs(l)...)
				}
			}
		}
		body = append(body, c.block(x.Body.List)...)
		c.loops = c.loops[:len(c.loops)-1]
		return append(out, action{Op: "loop", Body: c.checkJumps(x.Body, body)})
	case *ast.BranchStmt:
		if (x.Tok == token.BREAK || x.Tok == token.CONTINUE) && x.Label == nil {
			return []action{{Op: "jump", Arg: x.Tok.String()}}
		}
		return []action{c.unknown(x, "branch "+x.Tok.String())}
	case *ast.SelectStmt:
		hasDefault := false
		for _, cl := range x.Body.List {
			if cc, ok := cl.(*ast.CommClause); ok && cc.Comm == nil {
				hasDefault = true
			}
		}
		var alts [][]action
		for _, cl := range x.Body.List {
			cc := cl.(*ast.CommClause)
			var alt []action
			if cc.Comm != nil {
				comm := c.stmt(cc.Comm)
				if hasDefault { // non-blocking attempt: the communication happens only if it is ready
					for _, a := range comm {
						switch a.Op {
						case "send":
							a.Op = "trySend"
						case "recv":
							a.Op = "tryRecv"
						}
						alt = append(alt, a)
					}
				} else {
					alt = append(alt, comm...)
				}
			}
			alt = append(alt, resolveJumps(c.block(cc.Body), nil, "break")...)
			alts = append(alts, alt)
		}
		return []action{{Op: "choice", Alts: alts}}
	case *ast.LabeledStmt:
		return []action{c.unknown(x, "label")}
	}
	return []action{c.unknown(s, fmt.Sprintf("statement %T", s))}
}

func (c *fctx) cases(body *ast.BlockStmt) []action {
	var alts [][]action
	var pre []action
	hasDefault := false
	for _, cl := range body.List {
		cc, ok := cl.(*ast.CaseClause)
		if !ok {
			return []action{c.unknown(cl, "case clause")}
		}
		if cc.List == nil {
			hasDefault = true
		}
		pre = append(pre, c.exprs(cc.List)...)
		alts = append(alts, resolveJumps(c.block(cc.Body), nil, "break"))
	}
	if !hasDefault {
		alts = append(alts, []action{})
	}
	return append(pre, action{Op: "choice", Alts: alts})
}

// onlyControl reports whether as consists of nothing but choice / ret.
func onlyControl(as []action) bool {
	for _, a := range as {
		switch a.Op {
		case "ret":
		case "choice":
			for _, alt := range a.Alts {
				if !onlyControl(alt) {
					return false
				}
			}
		default:
			return false
		}
	}
	return true
}

// onlyAccesses reports whether as consists of nothing but reads / writes of shared variables and control.
func onlyAccesses(as []action) bool {
	for _, a := range as {
		switch a.Op {
		case "ret", "read", "write", "del":
		case "choice":
			for _, alt := range a.Alts {
				if !onlyAccesses(alt) {
					return false
				}
			}
		default:
			return false
		}
	}
	return true
}

// hasJump reports whether a `jump` placeholder of one of the kinds occurs in as (not inside nested
// loops or spawned bodies, which resolved their own).
func hasJump(as []action, kinds string) bool {
	for _, a := range as {
		if a.Op == "jump" && strings.Contains(kinds, a.Arg) {
			return true
		}
		if a.Op == "choice" {
			for _, alt := range a.Alts {
				if hasJump(alt, kinds) {
					return true
				}
			}
		}
	}
	return false
}

// resolveJumps removes the `jump` placeholders of the given kinds from `as` followed by the
// continuation k: a jump abandons the rest of the enclosing body (the continuation is dropped on
// that path). Alternatives containing a jump get the continuation copied into them.
func resolveJumps(as []action, k []action, kinds string) []action {
	if len(as) == 0 {
		return append([]action{}, k...)
	}
	a, rest := as[0], as[1:]
	if a.Op == "jump" && strings.Contains(kinds, a.Arg) {
		return []action{}
	}
	if a.Op == "ret" {
		return []action{a}
	}
	if a.Op == "choice" && hasJump([]action{a}, kinds) {
		cont := resolveJumps(rest, k, kinds)
		b := action{Op: "choice"}
		for _, alt := range a.Alts {
			b.Alts = append(b.Alts, resolveJumps(alt, cont, kinds))
		}
		return []action{b}
	}
	return append([]action{a}, resolveJumps(rest, k, kinds)...)
}

// checkJumps resolves break / continue of one loop body. Leaving an iteration early is the same as
// skipping the rest of the body: the loop abstraction already allows any number of iterations.
func (c *fctx) checkJumps(n ast.Node, body []action) []action {
	if !hasJump(body, "break continue") {
		return body
	}
	return resolveJumps(body, nil, "break continue")
}

// ---------------------------------------------------------------------------------------------
// simplification (keeps program order; only removes empty structure)

func simplify(as []action) []action {
	var out []action
	for _, a := range as {
		switch a.Op {
		case "loop":
			a.Body = simplify(a.Body)
			if len(a.Body) == 0 {
				continue
			}
		case "go":
			a.Body = simplify(a.Body)
		case "choice":
			allEmpty := true
			var alts [][]action
			for _, alt := range a.Alts {
				s := simplify(alt)
				if s == nil {
					s = []action{}
				}
				if len(s) > 0 {
					allEmpty = false
				}
				alts = append(alts, s)
			}
			if allEmpty {
				continue
			}
			// drop duplicate empty alternatives
			var ded [][]action
			seenEmpty := false
			for _, alt := range alts {
				if len(alt) == 0 {
					if seenEmpty {
						continue
					}
					seenEmpty = true
				}
				ded = append(ded, alt)
			}
			a.Alts = ded
		case "jump":
			a = action{Op: "unknown", Arg: "break/continue outside a loop"}
		}
		out = append(out, a)
	}
	return out
}

// ---------------------------------------------------------------------------------------------
// output

func leanStr(s string) string {
	s = strings.ReplaceAll(s, "\\", "\\\\")
	s = strings.ReplaceAll(s, "\"", "\\\"")
	s = strings.ReplaceAll(s, "\n", " ")
	return "\"" + s + "\""
}

func leanActs(as []action, ind string) string {
	if len(as) == 0 {
		return "[]"
	}
	var parts []string
	for _, a := range as {
		parts = append(parts, leanAct(a, ind+"  "))
	}
	return "[" + strings.Join(parts, ",\n"+ind+" ") + "]"
}

func leanAct(a action, ind string) string {
	switch a.Op {
	case "go", "loop":
		return "." + a.Op + " " + leanActs(a.Body, ind+"  ")
	case "choice":
		var alts []string
		for _, alt := range a.Alts {
			alts = append(alts, leanActs(alt, ind+"   "))
		}
		return ".choice [" + strings.Join(alts, ",\n"+ind+"  ") + "]"
	case "ret":
		return ".ret"
	case "makeChan":
		return ".makeChan " + leanStr(a.Arg) + " " + strconv.Itoa(a.N)
	}
	return "." + a.Op + " " + leanStr(a.Arg)
}

func leanIdent(name string) string {
	return strings.NewReplacer(".", "_", ":", "_", "$", "_").Replace(name)
}

func countUnknown(as []action) int {
	n := 0
	for _, a := range as {
		if a.Op == "unknown" {
			n++
		}
		n += countUnknown(a.Body)
		for _, alt := range a.Alts {
			n += countUnknown(alt)
		}
	}
	return n
}

func contains(l []string, s string) bool {
	for _, x := range l {
		if x == s {
			return true
		}
	}
	return false
}

func main() {
	repo := flag.String("repo", "/repo", "repository root")
	groupName := flag.String("group", "c20", "configured group to extract (with -lean / -json)")
	leanOut := flag.String("lean", "", "output Lean file of the selected group")
	jsonOut := flag.String("json", "", "output JSON file of the selected group")
	leanDir := flag.String("leandir", "", "write the Lean file of EVERY group into this directory")
	jsonDir := flag.String("jsondir", "", "with -leandir: write skeletons[-<group>].json of every group into this directory")
	flag.Parse()
	if *leanDir != "" {
		for i := range groups {
			gr := &groups[i]
			js := ""
			if *jsonDir != "" {
				js = filepath.Join(*jsonDir, "skeletons-"+gr.name+".json")
				if gr.name == "c20" {
					js = filepath.Join(*jsonDir, "skeletons.json")
				}
			}
			runGroup(*repo, gr, filepath.Join(*leanDir, gr.file), js)
		}
		return
	}
	for i := range groups {
		if groups[i].name == *groupName {
			runGroup(*repo, &groups[i], *leanOut, *jsonOut)
			return
		}
	}
	fmt.Fprintln(os.Stderr, "skelgen: unknown group", *groupName)
	os.Exit(1)
}

// runGroup extracts one group (fresh extractor state: the call table of a group is self-contained).
func runGroup(repoDir string, gr *group, leanFile, jsonFile string) {
	repo, leanOut, jsonOut := &repoDir, &leanFile, &jsonFile
	types, lockOrder := gr.types, gr.lockOrder
	g := &gen{repo: *repo, fset: token.NewFileSet(), pkgs: map[string]*pkgInfo{}, cfg: map[string]*typeCfg{}, scope: map[string]bool{}, names: map[string]bool{}, funcPkg: map[string]string{},
		ext: map[string]map[string]bool{}, derive: gr.derive}
	for i := range types {
		t := &types[i]
		if _, dup := g.cfg[t.name]; dup {
			fmt.Fprintln(os.Stderr, "skelgen: duplicate type name", t.name)
			os.Exit(1)
		}
		g.cfg[t.name] = t
	}
	if gr.derive {
		g.deriveFields(types)
	}
	// scope: every selected method of every configured type
	type item struct {
		cfg *typeCfg // nil for a plain function
		fd  *ast.FuncDecl
		pkg string
	}
	var items []item
	for i := range types {
		t := &types[i]
		p := g.loadPkg(t.pkg)
		if _, ok := p.structs[t.name]; !ok {
			fmt.Fprintf(os.Stderr, "skelgen: type %s not found in %s\n", t.name, t.pkg)
			os.Exit(1)
		}
		var keys []string
		for k := range p.methods {
			keys = append(keys, k)
		}
		sort.Strings(keys)
		var sel []item
		for _, k := range keys {
			fd := p.methods[k]
			if !strings.HasPrefix(k, t.name+".") {
				continue
			}
			if t.file != "" && filepath.Base(g.fset.Position(fd.Pos()).Filename) != t.file {
				continue
			}
			if len(t.only) > 0 && !contains(t.only, fd.Name.Name) {
				continue
			}
			if contains(t.blocking, fd.Name.Name) {
				continue
			}
			sel = append(sel, item{t, fd, t.pkg})
		}
		sort.Slice(sel, func(a, b int) bool { return sel[a].fd.Pos() < sel[b].fd.Pos() })
		for _, it := range sel {
			g.scope[t.name+"."+it.fd.Name.Name] = true
			g.names[it.fd.Name.Name] = true
		}
		for _, o := range t.only {
			if !g.scope[t.name+"."+o] {
				fmt.Fprintf(os.Stderr, "skelgen: configured method %s.%s not found\n", t.name, o)
				os.Exit(1)
			}
		}
		for _, h := range t.helpers {
			if !g.scope[t.name+"."+h] {
				fmt.Fprintf(os.Stderr, "skelgen: configured helper %s.%s not found\n", t.name, h)
				os.Exit(1)
			}
		}
		for _, b := range t.blocking {
			if _, ok := p.methods[t.name+"."+b]; !ok {
				fmt.Fprintf(os.Stderr, "skelgen: configured blocking method %s.%s not found\n", t.name, b)
				os.Exit(1)
			}
		}
		items = append(items, sel...)
	}
	// possibly blocking operations of types outside the group: the type and every listed method must
	// exist (a rename must not turn the calls into silently dropped ones); the method names also count
	// as "names in scope", so that a call of one on a receiver of unresolved type is an Unknown
	for _, e := range gr.external {
		p := g.loadPkg(e.pkg)
		if _, dup := g.cfg[e.name]; dup {
			fmt.Fprintf(os.Stderr, "skelgen: external type %s is also an extracted type\n", e.name)
			os.Exit(1)
		}
		all := map[string]bool{}
		if it, ok := p.ifaces[e.name]; ok {
			for _, fl := range it.Methods.List {
				if _, isFn := fl.Type.(*ast.FuncType); !isFn {
					fmt.Fprintf(os.Stderr, "skelgen: external interface %s embeds another type (not supported)\n", e.name)
					os.Exit(1)
				}
				for _, n := range fl.Names {
					all[n.Name] = true
				}
			}
		} else if _, ok := p.structs[e.name]; ok {
			for k := range p.methods {
				if strings.HasPrefix(k, e.name+".") {
					all[strings.TrimPrefix(k, e.name+".")] = true
				}
			}
		} else {
			fmt.Fprintf(os.Stderr, "skelgen: external type %s not found in %s\n", e.name, e.pkg)
			os.Exit(1)
		}
		ms := map[string]bool{}
		for _, m := range e.methods {
			if m == "*" {
				for k := range all {
					ms[k] = true
				}
				continue
			}
			if !all[m] {
				fmt.Fprintf(os.Stderr, "skelgen: configured external method %s.%s not found\n", e.name, m)
				os.Exit(1)
			}
			ms[m] = true
		}
		if len(ms) == 0 {
			fmt.Fprintf(os.Stderr, "skelgen: external type %s has no method\n", e.name)
			os.Exit(1)
		}
		g.ext[e.pkg+"\x00"+e.name] = ms
		for m := range ms {
			g.names[m] = true
		}
	}
	for _, f := range gr.funcs {
		p := g.loadPkg(f.pkg)
		fd, ok := p.funcs[f.name]
		if !ok {
			fmt.Fprintf(os.Stderr, "skelgen: configured function %s not found in %s\n", f.name, f.pkg)
			os.Exit(1)
		}
		if g.scope[f.name] {
			fmt.Fprintln(os.Stderr, "skelgen: duplicate function name", f.name)
			os.Exit(1)
		}
		g.scope[f.name] = true
		g.funcPkg[f.name] = f.pkg
		items = append(items, item{nil, fd, f.pkg})
	}
	var skels []skeleton
	for _, it := range items {
		p := g.loadPkg(it.pkg)
		name, tname, entry := it.fd.Name.Name, "", true
		if it.cfg != nil {
			name, tname = it.cfg.name+"."+it.fd.Name.Name, it.cfg.name
			entry = !contains(it.cfg.helpers, it.fd.Name.Name)
		}
		c := &fctx{g: g, dir: it.pkg, file: p.fileOf[it.fd], fd: it.fd, fname: name, tname: tname}
		var body []action
		if it.fd.Body == nil {
			body = []action{c.unknown(it.fd, "function without body")}
		} else {
			c.collectWritten()
			body = simplify(c.block(it.fd.Body.List))
		}
		pos := g.fset.Position(it.fd.Pos())
		rel, _ := filepath.Rel(g.repo, pos.Filename)
		skels = append(skels, skeleton{Name: name, Lean: leanIdent(name), File: rel, Line: pos.Line,
			Entry: entry, Body: body, Unkown: countUnknown(body)})
		skels = append(skels, g.lits...)
		g.lits = nil
	}
	// guards
	type guard struct{ Var, Mutex string }
	var guards []guard
	for i := range types {
		t := &types[i]
		var fs []string
		for f := range t.guarded {
			fs = append(fs, f)
		}
		sort.Strings(fs)
		for _, f := range fs {
			if t.guarded[f] == "-" {
				guards = append(guards, guard{t.name + "." + f, "-"}) // derived field of a struct without a mutex
				continue
			}
			guards = append(guards, guard{t.name + "." + f, t.name + "." + t.guarded[f]})
		}
	}
	for _, lg := range g.localGuards {
		guards = append(guards, guard{lg[0], lg[1]})
	}
	order := append(append([]string{}, lockOrder...), g.localMus...)

	var sb strings.Builder
	if gr.name == "c20" {
		sb.WriteString("/- GENERATED by tools/skelgen from /repo — do not edit. Regenerated on every check run. -/\n")
	} else {
		fmt.Fprintf(&sb, "/- GENERATED by tools/skelgen (group %s: %s) from /repo — do not edit. Regenerated on every check run. -/\n", gr.name, gr.about)
	}
	sb.WriteString("import LiskVerif.Model.Locks\n\nnamespace " + gr.namespace + "\nopen LiskVerif.Locks\n\n")
	for _, s := range skels {
		kind := "entry point"
		if !s.Entry {
			kind = "helper (analysed inlined into its callers)"
		}
		fmt.Fprintf(&sb, "/-- %s:%d  %s — %s -/\ndef %s : Skel :=\n  %s\n\n", s.File, s.Line, s.Name, kind, s.Lean, leanActs(s.Body, "  "))
	}
	sb.WriteString("/-- every extracted function, by name (used to inline calls) -/\ndef table : Table :=\n  [")
	for i, s := range skels {
		if i > 0 {
			sb.WriteString(",\n   ")
		}
		fmt.Fprintf(&sb, "(%s, %s)", leanStr(s.Name), s.Lean)
	}
	sb.WriteString("]\n\n/-- functions callable from outside (checked standalone) -/\ndef entries : List String :=\n  [")
	first := true
	for _, s := range skels {
		if !s.Entry {
			continue
		}
		if !first {
			sb.WriteString(", ")
		}
		first = false
		sb.WriteString(leanStr(s.Name))
	}
	sb.WriteString("]\n\n/-- guarded variable ↦ the mutex that must be held to access it -/\ndef guards : List (String × String) :=\n  [")
	for i, gd := range guards {
		if i > 0 {
			sb.WriteString(", ")
		}
		fmt.Fprintf(&sb, "(%s, %s)", leanStr(gd.Var), leanStr(gd.Mutex))
	}
	sb.WriteString("]\n\n/-- fixed global lock acquisition order (outermost first) -/\ndef lockOrder : List String :=\n  [")
	for i, m := range order {
		if i > 0 {
			sb.WriteString(", ")
		}
		sb.WriteString(leanStr(m))
	}
	sb.WriteString("]\n")
	if gr.derive {
		sb.WriteString("\n/-- DERIVED shared variables: (field, guard (\"-\" = the struct has no mutex), the functions assigning it\noutside constructors / Init) -/\ndef derived : List (String × String × List String) :=\n  [")
		for i, d := range g.derivedInfo {
			if i > 0 {
				sb.WriteString(",\n   ")
			}
			var ws []string
			for _, w := range d.Writes {
				ws = append(ws, leanStr(w))
			}
			fmt.Fprintf(&sb, "(%s, %s, [%s])", leanStr(d.Var), leanStr(d.Guard), strings.Join(ws, ", "))
		}
		sb.WriteString("]\n\n/-- the configured struct types whose fields were examined -/\ndef sharedTypes : List String :=\n  [")
		for i := range types {
			if i > 0 {
				sb.WriteString(", ")
			}
			sb.WriteString(leanStr(types[i].name))
		}
		sb.WriteString("]\n")
	}
	sb.WriteString("\nend " + gr.namespace + "\n")
	if *leanOut != "" {
		if err := os.WriteFile(*leanOut, []byte(sb.String()), 0o644); err != nil {
			fmt.Fprintln(os.Stderr, err)
			os.Exit(1)
		}
	}
	if *jsonOut != "" {
		b, _ := json.MarshalIndent(map[string]any{"skeletons": skels, "guards": guards, "lockOrder": order}, "", " ")
		if err := os.WriteFile(*jsonOut, b, 0o644); err != nil {
			fmt.Fprintln(os.Stderr, err)
			os.Exit(1)
		}
	}
	unknown := 0
	for _, s := range skels {
		unknown += s.Unkown
	}
	fmt.Printf("skelgen[%s]: %d skeletons, %d unknown constructs\n", gr.name, len(skels), unknown)
}

// ---------------------------------------------------------------------------------------------
// derived shared variables (group option `derive`)

// deriveFields computes, for every configured struct type of the group, the fields that are assigned anywhere
// in the type's package outside constructors (plain functions named New* / new*) and methods named Init:
// plain / op / index assignments, ++ / --, `delete(x.f, k)` and `&x.f`, reached through any chain of
// selections / indexings. Each becomes a guarded variable "Type.field" whose guard is the struct's own mutex
// field (sync.Mutex / sync.RWMutex, value or pointer) or "-" (no mutex: no access can hold it) — merged into
// the configured `guarded` table, which is what the extraction consults for reads and writes.
func (g *gen) deriveFields(types []typeCfg) {
	byName := map[string]*typeCfg{}
	for i := range types {
		byName[types[i].name] = &types[i]
	}
	writes := map[string]map[string]bool{}
	seenPkg := map[string]bool{}
	for i := range types {
		dir := types[i].pkg
		if seenPkg[dir] {
			continue
		}
		seenPkg[dir] = true
		p := g.loadPkg(dir)
		var fds []*ast.FuncDecl
		for fd := range p.fileOf {
			fds = append(fds, fd)
		}
		sort.Slice(fds, func(a, b int) bool { return fds[a].Pos() < fds[b].Pos() })
		for _, fd := range fds {
			if fd.Body == nil {
				continue
			}
			fname := fd.Name.Name
			if fd.Recv == nil {
				if strings.HasPrefix(fname, "New") || strings.HasPrefix(fname, "new") {
					continue
				}
			} else {
				if fname == "Init" {
					continue
				}
				if len(fd.Recv.List) == 1 {
					fname = recvTypeName(fd.Recv.List[0].Type) + "." + fname
				}
			}
			c := &fctx{g: g, dir: dir, file: p.fileOf[fd], fd: fd, fname: fname}
			mark := func(e ast.Expr) {
				for {
					switch x := e.(type) {
					case *ast.IndexExpr:
						e = x.X
						continue
					case *ast.SliceExpr:
						e = x.X
						continue
					case *ast.StarExpr:
						e = x.X
						continue
					case *ast.ParenExpr:
						e = x.X
						continue
					case *ast.SelectorExpr:
						if id, ok := x.X.(*ast.Ident); ok && id.Obj == nil {
							return // package-qualified identifier
						}
						t := c.typeOf(x.X)
						if cfg, ok := byName[t.name]; ok && t.kind == "named" && cfg.pkg == t.pkg && g.hasField(t, x.Sel.Name) {
							key := t.name + "." + x.Sel.Name
							if writes[key] == nil {
								writes[key] = map[string]bool{}
							}
							writes[key][fname] = true
							return
						}
						e = x.X
						continue
					}
					return
				}
			}
			ast.Inspect(fd.Body, func(n ast.Node) bool {
				switch x := n.(type) {
				case *ast.AssignStmt:
					if x.Tok != token.DEFINE {
						for _, l := range x.Lhs {
							mark(l)
						}
					}
				case *ast.IncDecStmt:
					mark(x.X)
				case *ast.UnaryExpr:
					if x.Op == token.AND {
						if _, isLit := x.X.(*ast.CompositeLit); !isLit {
							mark(x.X)
						}
					}
				case *ast.RangeStmt:
					if x.Tok == token.ASSIGN {
						if x.Key != nil {
							mark(x.Key)
						}
						if x.Value != nil {
							mark(x.Value)
						}
					}
				case *ast.CallExpr:
					if id, ok := x.Fun.(*ast.Ident); ok && id.Obj == nil && id.Name == "delete" && len(x.Args) > 0 {
						mark(x.Args[0])
					}
				}
				return true
			})
		}
	}
	var keys []string
	for k := range writes {
		keys = append(keys, k)
	}
	sort.Strings(keys)
	for _, k := range keys {
		parts := strings.SplitN(k, ".", 2)
		t := byName[parts[0]]
		if t.guarded == nil {
			t.guarded = map[string]string{}
		}
		if _, configured := t.guarded[parts[1]]; !configured {
			t.guarded[parts[1]] = g.structMutex(t)
		}
		var ws []string
		for w := range writes[k] {
			ws = append(ws, w)
		}
		sort.Strings(ws)
		guard := t.guarded[parts[1]]
		if guard != "-" {
			guard = t.name + "." + guard
		}
		g.derivedInfo = append(g.derivedInfo, derivedField{Var: k, Guard: guard, Writes: ws})
	}
}

func (g *gen) hasField(t typeRef, field string) bool {
	p := g.loadPkg(t.pkg)
	st, ok := p.structs[t.name]
	if !ok {
		return false
	}
	for _, fl := range st.Fields.List {
		for _, n := range fl.Names {
			if n.Name == field {
				return true
			}
		}
	}
	return false
}

// structMutex returns the name of the first field of the struct that is a sync.Mutex / sync.RWMutex, or "-".
func (g *gen) structMutex(t *typeCfg) string {
	p := g.loadPkg(t.pkg)
	st, ok := p.structs[t.name]
	if !ok {
		return "-"
	}
	for _, fl := range st.Fields.List {
		ft := g.typeFromExpr(t.pkg, p.fileOfS[t.name], fl.Type)
		if ft.kind == "mutex" || ft.kind == "rwmutex" {
			for _, n := range fl.Names {
				return n.Name
			}
		}
	}
	return "-"
}
