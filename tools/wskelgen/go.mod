module wskelgen

go 1.21
