#!/bin/sh
# regenerate lean/LiskVerif/Gen/WriteSkeletons.lean (write skeletons of the block commit / removal path, C13) from /repo
set -e
cd "$(dirname "$0")"
export GOFLAGS=-mod=mod GOPROXY=off GOSUMDB=off GOTOOLCHAIN=local
mkdir -p ../../.build ../../lean/LiskVerif/Gen
go build -o ../../.build/wskelgen .
../../.build/wskelgen -repo "${VERIF_REPO:-/repo}" -out ../../lean/LiskVerif/Gen/WriteSkeletons.lean
