#!/bin/sh
# regenerate from /repo (VERIF_REPO / VERIF_LEAN override the repository and the Lean project):
#   lean/LiskVerif/Gen/WriteSkeletons.lean    write skeletons of the block commit / removal path of the engine (C13)
#   lean/LiskVerif/Gen/WriteSkeletonsFW.lean  write skeletons of the application side: ABIHandler.Commit / revert /
#                                             Init / Finalize, state batch, diff store, SMT node writes (C16)
set -e
cd "$(dirname "$0")"
export GOFLAGS=-mod=mod GOPROXY=off GOSUMDB=off GOTOOLCHAIN=local
LEAN="${VERIF_LEAN:-../../lean}"
mkdir -p ../../.build "$LEAN/LiskVerif/Gen"
go build -o ../../.build/wskelgen .
../../.build/wskelgen -repo "${VERIF_REPO:-/repo}" -out "$LEAN/LiskVerif/Gen/WriteSkeletons.lean" -fwout "$LEAN/LiskVerif/Gen/WriteSkeletonsFW.lean"
