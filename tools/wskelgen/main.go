// Command wskelgen regenerates lean/LiskVerif/Gen/WriteSkeletons.lean from the current source of
// /repo (tie A of property C13, DESIGN.md §6 C13).
//
// For every function of pkg/blockchain, pkg/consensus and pkg/db/diffdb that writes to the
// blockchain database on the block path (creates a db.Batch, stages Set/Del into a batch, writes a
// batch, writes directly through the *db.DB handle) and for everything those functions call that
// performs an action of interest, it extracts the *write skeleton* in program order:
//
//	newBatch b | batchSet b | batchDel b | call f [(param, b)] (batch handed to a callee in scope)
//	directSet | directDel (a write bypassing the batch) | write b
//	cacheUpdate (DataAccess.Cache / RemoveCache) | abiCommit | abiRevert
//	publish (event bus) | netPublish (p2p) | ret | retErr | brk | cont
//
// with seq / choice / loop / scope / try structure (`try c a b`: error-checked call c of a function in
// scope, a = the `err != nil` branch, b = the other one). Anything the translator does not understand that
// touches a batch or the database handle becomes `unknown "<pos>"`, which the Lean criterion
// rejects. Only the standard library (go/ast, go/parser) is used; types are resolved syntactically
// (struct fields, parameters, results of functions of the scanned packages).
//
// A second output (-fwout, lean/LiskVerif/Gen/WriteSkeletonsFW.lean, tie A of property C16) is generated
// the same way from pkg/framework, pkg/db/diffdb, pkg/db/batchdb and pkg/trie/smt: the application side
// of a block (ABIHandler.Commit / revert / Init / Finalize and what they call). Three things exist
// only there (the C13 output is not affected by them):
//   - batch VIEWS: a struct with exactly one *db.Batch field (framework.stateSMTBatch,
//     batchdb.Database) created by a constructor that does nothing but store its batch parameter in
//     that field. `v := ctor(.., batch, ..)` binds v to the batch; `v.M(..)` is `call "T.M" [("self", batch)]`
//     (inside the methods of T the field is the batch parameter "self"); a view handed to a parameter
//     of a writer interface type hands the batch on; any other use of a view is `unknown`;
//   - SUMMARIES: the recursive, concurrent update family of pkg/trie/smt cannot be inlined. For every
//     function of a summarised package with a writer parameter the translator checks that the parameter
//     is used for Get/Set/Del and handed to functions of the family only (anything else: `unknown`) and
//     emits `loop (batchSet p | batchDel p)` followed by the return;
//   - TABLES: for every generated function the leaves (actions and calls) of its skeleton in order, each
//     with the table it addresses (first component of the key expression, or the prefix the view was
//     created with).
package main

import (
	"flag"
	"fmt"
	"go/ast"
	"go/parser"
	"go/token"
	"os"
	"path/filepath"
	"sort"
	"strings"
)

// A mode is one generated file.
type mode struct {
	name       string
	scanned    []string        // scanned packages (relative to the repository root)
	primary    string          // functions of other packages get package-qualified names ("" = no qualification)
	namespace  string          // Lean namespace
	about      string          // header line
	extraBatch map[string]bool // writer interface types treated like a batch (besides db.Batch, diffdb.DatabaseWriter)
	summarised map[string]bool // packages whose functions with a writer parameter are emitted as checked summaries
	views      bool            // batch views
	tables     bool            // emit the `tables` / `summaries` lists
	// request flags (`if req.DryRun {..}`): a function testing one is emitted twice, specialised to the flag
	// being false (under its own name) and true (name + "." + flag)
	flags []string
}

var modeC13 = &mode{name: "c13", scanned: []string{"pkg/blockchain", "pkg/consensus", "pkg/db/diffdb"},
	namespace: "LiskVerif.Gen.WS"}

var modeFW = &mode{name: "fw", scanned: []string{"pkg/framework", "pkg/db/diffdb", "pkg/db/batchdb", "pkg/trie/smt"},
	primary: "framework", namespace: "LiskVerif.Gen.WSFW",
	extraBatch: map[string]bool{"smt.DBReadWriter": true, "smt.DBWriter": true},
	summarised: map[string]bool{"smt": true}, views: true, tables: true, flags: []string{"DryRun"}}

var cur = modeC13

const dbPkgDir = "pkg/db"

const (
	tDB     = "db.DB"
	tBatch  = "db.Batch"
	tWriter = "diffdb.DatabaseWriter"
)

func isBatchType(t string) bool { return t == tBatch || t == tWriter || cur.extraBatch[t] }

// method names that mutate a database when they appear in an interface
var writeNames = map[string]bool{"Set": true, "Del": true, "Write": true, "DropAll": true, "NewBatch": true, "Delete": true, "Apply": true}

// pebble methods that do not write
var pebbleReads = map[string]bool{"Get": true, "NewIter": true, "NewSnapshot": true, "NewBatch": true, "NewIndexedBatch": true, "Close": true, "Metrics": true}

type pkg struct {
	name    string
	rel     string
	fset    *token.FileSet
	files   []*ast.File
	types   map[string]bool
	structs map[string]map[string]string
	ifaces  map[string][]string
	funcs   map[string]*fn
	viewFld map[string]string // struct with exactly one *db.Batch field -> that field (batch view)
}

type param struct{ name, typ string }

type fn struct {
	pkg      *pkg
	file     *ast.File
	decl     *ast.FuncDecl
	key      string // "Recv.Name" or "Name"
	recvName string
	recvType string
	params   []param
	results  []string
	raw      *stmt
	pruned   *stmt
	interest bool
	root     bool
	emit     bool
	// batch views
	ctorView  string // constructor of a view: the view type it returns ("" = not a constructor)
	ctorParam int    // index of its batch parameter
	selfBatch bool   // method of a view type: the view's batch field is the batch parameter "self"
	// summaries
	summary []string // non-nil: emitted as a summary; the functions of its family (sorted)
	// flag specialisation
	assume  map[string]bool // request flags fixed for this skeleton
	variant string          // "" or the flag this copy assumes to be true
}

func (f *fn) qkey() string {
	if cur.primary != "" && f.pkg.name != cur.primary {
		return f.pkg.name + "." + f.key
	}
	return f.key
}
func (f *fn) leanName() string {
	return strings.ReplaceAll(f.qkey(), ".", "_")
}

// batchParamNames lists the batch-typed parameters ("self" first for a method of a view type).
func (f *fn) batchParamNames() []string {
	var bp []string
	if f.selfBatch {
		bp = append(bp, "self")
	}
	for _, p := range f.params {
		if isBatchType(p.typ) {
			bp = append(bp, p.name)
		}
	}
	return bp
}

type stmt struct {
	kind   string // skip act seq choice loop scope call try ret retErr brk cont closure goclosure
	act    string // Lean text of the action
	isDB   bool
	kids   []*stmt
	callee *fn
	args   [][2]string
	pos    string
	tag    string // table addressed by a staging action / handed-on batch (tables output)
}

type gen struct {
	repo     string
	pkgs     map[string]*pkg   // by package name
	byPath   map[string]string // import path suffix -> package name
	dbWrites map[string]string // DB method -> "pebbleMethod:option"
	dbAll    map[string]bool
	batchOps map[string][]string // db.Batch method -> pebble.Batch methods it calls on b.inner
	dbCtors  map[string]bool     // plain functions of pkg/db whose first result is *DB (NewDB, NewInMemoryDB)
}

func main() {
	repo := flag.String("repo", "/repo", "repository root")
	out := flag.String("out", "", "output Lean file (block path of the engine, C13)")
	fwout := flag.String("fwout", "", "output Lean file of the framework mode (application commit / revert, C16)")
	modeName := flag.String("mode", "", "with neither -out nor -fwout: print this mode (c13 | fw) to stdout")
	flag.Parse()
	runMode := func(m *mode, out string) {
		cur = m
		g := &gen{repo: *repo, pkgs: map[string]*pkg{}, byPath: map[string]string{}, dbWrites: map[string]string{}, dbAll: map[string]bool{}, batchOps: map[string][]string{}, dbCtors: map[string]bool{}}
		if err := g.run(out); err != nil {
			fmt.Fprintln(os.Stderr, "wskelgen["+m.name+"]:", err)
			os.Exit(1)
		}
	}
	if *out == "" && *fwout == "" {
		if *modeName == "fw" {
			runMode(modeFW, "")
		} else {
			runMode(modeC13, "")
		}
		return
	}
	if *out != "" {
		runMode(modeC13, *out)
	}
	if *fwout != "" {
		runMode(modeFW, *fwout)
	}
}

func (g *gen) parsePkg(rel string) (*pkg, error) {
	dir := filepath.Join(g.repo, rel)
	ents, err := os.ReadDir(dir)
	if err != nil {
		return nil, err
	}
	p := &pkg{rel: rel, fset: token.NewFileSet(), types: map[string]bool{}, structs: map[string]map[string]string{}, ifaces: map[string][]string{}, funcs: map[string]*fn{}, viewFld: map[string]string{}}
	for _, e := range ents {
		n := e.Name()
		if e.IsDir() || !strings.HasSuffix(n, ".go") || strings.HasSuffix(n, "_test.go") || strings.HasSuffix(n, "_verif.go") {
			continue
		}
		src, err := os.ReadFile(filepath.Join(dir, n))
		if err != nil {
			return nil, err
		}
		if strings.Contains(string(src), "//go:build verif") {
			continue
		}
		f, err := parser.ParseFile(p.fset, filepath.Join(rel, n), src, parser.ParseComments)
		if err != nil {
			return nil, err
		}
		p.name = f.Name.Name
		p.files = append(p.files, f)
	}
	if p.name == "" {
		return nil, fmt.Errorf("no Go files in %s", rel)
	}
	return p, nil
}

func (g *gen) imports(f *ast.File) map[string]string {
	m := map[string]string{}
	for _, im := range f.Imports {
		path := strings.Trim(im.Path.Value, `"`)
		name := path[strings.LastIndex(path, "/")+1:]
		for suffix, pn := range g.byPath {
			if strings.HasSuffix(path, suffix) {
				name = pn
			}
		}
		alias := name
		if im.Name != nil {
			alias = im.Name.Name
		}
		m[alias] = name
	}
	return m
}

// typeKey normalises a type expression to "pkg.Name" (pointers stripped); "" if not a named type.
func (g *gen) typeKey(p *pkg, imps map[string]string, e ast.Expr) string {
	switch x := e.(type) {
	case *ast.StarExpr:
		return g.typeKey(p, imps, x.X)
	case *ast.ParenExpr:
		return g.typeKey(p, imps, x.X)
	case *ast.Ident:
		if p.types[x.Name] {
			return p.name + "." + x.Name
		}
		return x.Name
	case *ast.SelectorExpr:
		if id, ok := x.X.(*ast.Ident); ok {
			if pn, ok := imps[id.Name]; ok {
				return pn + "." + x.Sel.Name
			}
			return id.Name + "." + x.Sel.Name
		}
	}
	return ""
}

func (g *gen) collect(p *pkg) {
	for _, f := range p.files {
		for _, d := range f.Decls {
			if gd, ok := d.(*ast.GenDecl); ok && gd.Tok == token.TYPE {
				for _, s := range gd.Specs {
					p.types[s.(*ast.TypeSpec).Name.Name] = true
				}
			}
		}
	}
	for _, f := range p.files {
		imps := g.imports(f)
		for _, d := range f.Decls {
			switch x := d.(type) {
			case *ast.GenDecl:
				if x.Tok != token.TYPE {
					continue
				}
				for _, s := range x.Specs {
					ts := s.(*ast.TypeSpec)
					switch t := ts.Type.(type) {
					case *ast.StructType:
						m := map[string]string{}
						for _, fl := range t.Fields.List {
							tk := g.typeKey(p, imps, fl.Type)
							for _, n := range fl.Names {
								m[n.Name] = tk
							}
						}
						p.structs[ts.Name.Name] = m
						if cur.views {
							nb, fld := 0, ""
							for _, fl := range t.Fields.List {
								if g.typeKey(p, imps, fl.Type) == tBatch {
									nb += len(fl.Names)
									if len(fl.Names) == 0 {
										nb += 2 // an embedded batch is not a view
									}
									for _, n := range fl.Names {
										fld = n.Name
									}
								}
							}
							if nb == 1 {
								p.viewFld[ts.Name.Name] = fld
							}
						}
					case *ast.InterfaceType:
						var ms []string
						for _, fl := range t.Methods.List {
							for _, n := range fl.Names {
								ms = append(ms, n.Name)
							}
							if len(fl.Names) == 0 {
								ms = append(ms, "embedded:"+g.typeKey(p, imps, fl.Type))
							}
						}
						p.ifaces[ts.Name.Name] = ms
					}
				}
			case *ast.FuncDecl:
				if x.Body == nil {
					continue
				}
				fnn := &fn{pkg: p, file: f, decl: x, key: x.Name.Name}
				if x.Recv != nil && len(x.Recv.List) == 1 {
					r := x.Recv.List[0]
					tk := g.typeKey(p, imps, r.Type)
					if ix, ok := r.Type.(*ast.IndexExpr); ok { // generic receiver
						tk = g.typeKey(p, imps, ix.X)
					}
					fnn.recvType = tk
					if len(r.Names) == 1 {
						fnn.recvName = r.Names[0].Name
					}
					fnn.key = strings.TrimPrefix(tk, p.name+".") + "." + x.Name.Name
				}
				for _, fl := range x.Type.Params.List {
					tk := g.typeKey(p, imps, fl.Type)
					if len(fl.Names) == 0 {
						fnn.params = append(fnn.params, param{"_", tk})
					}
					for _, n := range fl.Names {
						fnn.params = append(fnn.params, param{n.Name, tk})
					}
				}
				if x.Type.Results != nil {
					for _, fl := range x.Type.Results.List {
						tk := g.typeKey(p, imps, fl.Type)
						k := len(fl.Names)
						if k == 0 {
							k = 1
						}
						for i := 0; i < k; i++ {
							fnn.results = append(fnn.results, tk)
						}
					}
				}
				p.funcs[fnn.key] = fnn
			}
		}
	}
	if cur.views {
		for _, f := range p.funcs {
			if f.recvType != "" && p.viewFld[strings.TrimPrefix(f.recvType, p.name+".")] != "" && f.recvName != "" {
				f.selfBatch = true
			}
			g.detectCtor(p, f)
		}
	}
}

// viewField returns the batch field of a view type given by its type key ("" = not a view type).
func (g *gen) viewField(tk string) string {
	i := strings.Index(tk, ".")
	if i < 0 {
		return ""
	}
	if p := g.pkgs[tk[:i]]; p != nil {
		return p.viewFld[tk[i+1:]]
	}
	return ""
}

// detectCtor recognises a constructor of a batch view: exactly one *db.Batch parameter, the first
// result is a view type of the same package, and the body is a single `return &T{.., fld: param, ..}`
// (or `return T{..}`) in which the parameter occurs exactly once, as the value of the view's batch field.
func (g *gen) detectCtor(p *pkg, f *fn) {
	if f.recvType != "" || len(f.results) == 0 {
		return
	}
	idx, n := -1, 0
	for i, pa := range f.params {
		if pa.typ == tBatch {
			idx = i
			n++
		}
	}
	if n != 1 || f.params[idx].name == "_" {
		return
	}
	vt := f.results[0]
	if !strings.HasPrefix(vt, p.name+".") {
		return
	}
	fld := p.viewFld[strings.TrimPrefix(vt, p.name+".")]
	if fld == "" || len(f.decl.Body.List) != 1 {
		return
	}
	rs, ok := f.decl.Body.List[0].(*ast.ReturnStmt)
	if !ok || len(rs.Results) != 1 {
		return
	}
	e := rs.Results[0]
	if u, ok := e.(*ast.UnaryExpr); ok && u.Op == token.AND {
		e = u.X
	}
	cl, ok := e.(*ast.CompositeLit)
	if !ok || cl.Type == nil || g.typeKey(p, g.imports(f.file), cl.Type) != vt {
		return
	}
	pname := f.params[idx].name
	stored := false
	for _, el := range cl.Elts {
		kv, ok := el.(*ast.KeyValueExpr)
		if !ok {
			return
		}
		if k, ok := kv.Key.(*ast.Ident); ok && k.Name == fld {
			if v, ok := kv.Value.(*ast.Ident); ok && v.Name == pname {
				stored = true
			}
		}
	}
	uses := 0
	for _, el := range cl.Elts {
		ast.Inspect(el.(*ast.KeyValueExpr).Value, func(n ast.Node) bool {
			if id, ok := n.(*ast.Ident); ok && id.Name == pname {
				uses++
			}
			return true
		})
	}
	if stored && uses == 1 {
		f.ctorView, f.ctorParam = vt, idx
	}
}

// scanDB derives the write methods of db.DB from pkg/db/db.go.
func (g *gen) scanDB() error {
	p, err := g.parsePkg(dbPkgDir)
	if err != nil {
		return err
	}
	for _, f := range p.files {
		for _, d := range f.Decls {
			fd, ok := d.(*ast.FuncDecl)
			if ok && fd.Recv == nil && fd.Type.Results != nil && len(fd.Type.Results.List) > 0 {
				if st, ok := fd.Type.Results.List[0].Type.(*ast.StarExpr); ok {
					if id, ok := st.X.(*ast.Ident); ok && id.Name == "DB" {
						g.dbCtors[fd.Name.Name] = true
					}
				}
			}
			if !ok || fd.Recv == nil || fd.Body == nil || len(fd.Recv.List) != 1 {
				continue
			}
			rt := fd.Recv.List[0].Type
			if s, ok := rt.(*ast.StarExpr); ok {
				rt = s.X
			}
			if id, ok := rt.(*ast.Ident); ok && id.Name == "Batch" {
				// methods of db.Batch: which pebble.Batch methods they call (staging only: Set / Delete; a Commit or
				// Apply here would make a batch durable in pieces)
				name := fd.Name.Name
				g.batchOps[name] = []string{}
				seen := map[string]bool{}
				ast.Inspect(fd.Body, func(n ast.Node) bool {
					c, ok := n.(*ast.CallExpr)
					if !ok {
						return true
					}
					s, ok := c.Fun.(*ast.SelectorExpr)
					if !ok {
						return true
					}
					callee := ""
					if in, ok := s.X.(*ast.SelectorExpr); ok && in.Sel.Name == "inner" {
						callee = s.Sel.Name
					} else if id, ok := s.X.(*ast.Ident); ok && fd.Recv.List[0].Names != nil && len(fd.Recv.List[0].Names) == 1 && id.Name == fd.Recv.List[0].Names[0].Name {
						callee = "self." + s.Sel.Name // a call of another Batch method / field function
					}
					if callee != "" && !seen[callee] {
						seen[callee] = true
						g.batchOps[name] = append(g.batchOps[name], callee)
					}
					return true
				})
				sort.Strings(g.batchOps[name])
				continue
			}
			if id, ok := rt.(*ast.Ident); !ok || id.Name != "DB" {
				continue
			}
			g.dbAll[fd.Name.Name] = true
			ast.Inspect(fd.Body, func(n ast.Node) bool {
				c, ok := n.(*ast.CallExpr)
				if !ok {
					return true
				}
				s, ok := c.Fun.(*ast.SelectorExpr)
				if !ok {
					return true
				}
				in, ok := s.X.(*ast.SelectorExpr)
				if !ok || in.Sel.Name != "pebbleDB" || pebbleReads[s.Sel.Name] {
					return true
				}
				opt := "?"
				if len(c.Args) > 0 {
					opt = exprString(c.Args[len(c.Args)-1])
				}
				g.dbWrites[fd.Name.Name] = s.Sel.Name + ":" + opt
				return true
			})
		}
	}
	return nil
}

func exprString(e ast.Expr) string {
	switch x := e.(type) {
	case *ast.Ident:
		return x.Name
	case *ast.SelectorExpr:
		return exprString(x.X) + "." + x.Sel.Name
	case *ast.StarExpr:
		return "*" + exprString(x.X)
	case *ast.UnaryExpr:
		return x.Op.String() + exprString(x.X)
	case *ast.CallExpr:
		return exprString(x.Fun) + "(..)"
	case *ast.BasicLit:
		return x.Value
	}
	return "?"
}

// ---------------------------------------------------------------------------------------------
// per-function translation

type ftr struct {
	g      *gen
	f      *fn
	imps   map[string]string
	vars   map[string]string
	loops  []string          // stack of innermost breakable statements: "loop" | "switch"
	nonNil []string          // identifiers known to be non-nil (inside `if id != nil {`)
	views  map[string]string // local variable bound to a batch view -> the underlying batch
	vtag   map[string]string // ... -> how the view was created (constructor and its other arguments)
	saw    map[string]bool   // request flags tested by the function
}

// flagCond recognises `x.Flag` / `!x.Flag` for a configured request flag.
func flagCond(e ast.Expr) (flag string, negated bool, ok bool) {
	if u, isU := e.(*ast.UnaryExpr); isU && u.Op == token.NOT {
		f, n, ok := flagCond(u.X)
		return f, !n, ok
	}
	if p, isP := e.(*ast.ParenExpr); isP {
		return flagCond(p.X)
	}
	if s, isS := e.(*ast.SelectorExpr); isS && contains(cur.flags, s.Sel.Name) {
		return s.Sel.Name, false, true
	}
	return "", false, false
}

func (t *ftr) pos(n ast.Node) string {
	p := t.f.pkg.fset.Position(n.Pos())
	return fmt.Sprintf("%s:%d", p.Filename, p.Line)
}

func skip() *stmt { return &stmt{kind: "skip"} }
func seq(l ...*stmt) *stmt {
	return &stmt{kind: "seq", kids: l}
}
func choiceN(alts []*stmt) *stmt {
	if len(alts) == 0 {
		return skip()
	}
	if len(alts) == 1 {
		return alts[0]
	}
	return &stmt{kind: "choice", kids: []*stmt{alts[0], choiceN(alts[1:])}}
}

func (t *ftr) unknown(n ast.Node, why string) *stmt {
	return &stmt{kind: "act", act: fmt.Sprintf("unknown %q", t.pos(n)+" "+why), isDB: true, pos: t.pos(n)}
}

func (t *ftr) action(n ast.Node, text string, isDB bool) *stmt {
	return &stmt{kind: "act", act: text, isDB: isDB, pos: t.pos(n)}
}

func (t *ftr) isPkgAlias(e ast.Expr) bool {
	id, ok := e.(*ast.Ident)
	if !ok {
		return false
	}
	if _, isVar := t.vars[id.Name]; isVar {
		return false
	}
	_, ok = t.imps[id.Name]
	return ok
}

func (t *ftr) batchIdent(e ast.Expr) (string, bool) {
	for {
		switch x := e.(type) {
		case *ast.ParenExpr:
			e = x.X
			continue
		case *ast.Ident:
			if isBatchType(t.vars[x.Name]) {
				return x.Name, true
			}
		case *ast.SelectorExpr:
			// v.fld of a local view v: its batch; recv.fld inside a method of a view type: "self"
			if id, ok := x.X.(*ast.Ident); ok {
				if fld := t.g.viewField(t.vars[id.Name]); fld != "" && fld == x.Sel.Name {
					if b, ok := t.views[id.Name]; ok {
						return b, true
					}
					if t.f.selfBatch && id.Name == t.f.recvName {
						return "self", true
					}
				}
			}
		}
		return "", false
	}
}

// viewIdent returns the batch behind a local view variable.
func (t *ftr) viewIdent(e ast.Expr) (string, bool) {
	for {
		switch x := e.(type) {
		case *ast.ParenExpr:
			e = x.X
			continue
		case *ast.Ident:
			b, ok := t.views[x.Name]
			return b, ok
		}
		return "", false
	}
}

// keyTag names the table a key expression addresses: the first component of a bytes.Join / JoinSize,
// otherwise the expression itself.
func keyTag(e ast.Expr) string {
	if c, ok := e.(*ast.CallExpr); ok {
		if s, ok := c.Fun.(*ast.SelectorExpr); ok && (s.Sel.Name == "Join" || s.Sel.Name == "JoinSize") {
			for _, a := range c.Args {
				switch a.(type) {
				case *ast.Ident, *ast.SelectorExpr:
					return exprString(a)
				}
			}
		}
	}
	return exprString(e)
}

func (t *ftr) lookupType(tk string) (*pkg, string) {
	i := strings.Index(tk, ".")
	if i < 0 {
		return nil, ""
	}
	p := t.g.pkgs[tk[:i]]
	if p == nil {
		return nil, ""
	}
	return p, tk[i+1:]
}

// typeOf resolves the static type of an expression syntactically ("" = unknown).
func (t *ftr) typeOf(e ast.Expr) string {
	switch x := e.(type) {
	case *ast.ParenExpr:
		return t.typeOf(x.X)
	case *ast.StarExpr:
		return t.typeOf(x.X)
	case *ast.UnaryExpr:
		if x.Op == token.AND {
			return t.typeOf(x.X)
		}
	case *ast.Ident:
		return t.vars[x.Name]
	case *ast.SelectorExpr:
		if t.isPkgAlias(x.X) {
			return ""
		}
		p, tn := t.lookupType(t.typeOf(x.X))
		if p != nil {
			if st, ok := p.structs[tn]; ok {
				return st[x.Sel.Name]
			}
		}
	case *ast.CallExpr:
		if c := t.resolve(x); c != nil && len(c.results) > 0 {
			return c.results[0]
		}
		if t.isDBCtor(x) {
			return tDB
		}
	case *ast.CompositeLit:
		if x.Type != nil {
			return t.g.typeKey(t.f.pkg, t.imps, x.Type)
		}
	}
	return ""
}

// isDBCtor recognises db.NewDB(..) / db.NewInMemoryDB(): a call of a plain function of pkg/db returning *DB.
func (t *ftr) isDBCtor(c *ast.CallExpr) bool {
	s, ok := c.Fun.(*ast.SelectorExpr)
	if !ok || !cur.views || !t.isPkgAlias(s.X) { // framework mode only (keeps the C13 output as it was)
		return false
	}
	return t.imps[s.X.(*ast.Ident).Name] == "db" && t.g.dbCtors[s.Sel.Name]
}

// resolve finds the callee of a call among the scanned packages.
func (t *ftr) resolve(c *ast.CallExpr) *fn {
	switch f := c.Fun.(type) {
	case *ast.Ident:
		if _, isVar := t.vars[f.Name]; isVar {
			return nil
		}
		return t.f.pkg.funcs[f.Name]
	case *ast.SelectorExpr:
		if t.isPkgAlias(f.X) {
			if p := t.g.pkgs[t.imps[f.X.(*ast.Ident).Name]]; p != nil {
				return p.funcs[f.Sel.Name]
			}
			return nil
		}
		p, tn := t.lookupType(t.typeOf(f.X))
		if p != nil {
			return p.funcs[tn+"."+f.Sel.Name]
		}
	case *ast.IndexExpr: // generic instantiation f[T](..)
		return t.resolve(&ast.CallExpr{Fun: f.X, Args: c.Args})
	}
	return nil
}

func (t *ftr) readOnlyIface(tk string) bool {
	p, tn := t.lookupType(tk)
	if p == nil {
		return false
	}
	ms, ok := p.ifaces[tn]
	if !ok {
		return false
	}
	for _, m := range ms {
		if writeNames[m] || strings.HasPrefix(m, "embedded:") {
			return false
		}
	}
	return true
}

func (t *ftr) exprs(l []ast.Expr, out *[]*stmt) {
	for _, e := range l {
		t.expr(e, out)
	}
}

// expr appends the actions performed while evaluating e (in evaluation order).
func (t *ftr) expr(e ast.Expr, out *[]*stmt) {
	switch x := e.(type) {
	case nil:
	case *ast.BasicLit:
	case *ast.Ident:
		if isBatchType(t.vars[x.Name]) {
			*out = append(*out, t.unknown(x, "batch "+x.Name+" escapes"))
		} else if _, isView := t.views[x.Name]; isView {
			*out = append(*out, t.unknown(x, "batch view "+x.Name+" escapes"))
		}
	case *ast.ParenExpr:
		t.expr(x.X, out)
	case *ast.StarExpr:
		t.expr(x.X, out)
	case *ast.UnaryExpr:
		t.expr(x.X, out)
	case *ast.BinaryExpr:
		t.expr(x.X, out)
		t.expr(x.Y, out)
	case *ast.SelectorExpr:
		if b, ok := t.batchIdent(x); ok {
			*out = append(*out, t.unknown(x, "batch "+b+" escapes through a view field"))
			return
		}
		if id, ok := x.X.(*ast.Ident); ok {
			if _, isView := t.views[id.Name]; isView {
				return // a field of a view other than its batch (e.g. the collected keys)
			}
		}
		if !t.isPkgAlias(x.X) {
			t.expr(x.X, out)
		}
	case *ast.IndexExpr:
		t.expr(x.X, out)
		t.expr(x.Index, out)
	case *ast.SliceExpr:
		t.expr(x.X, out)
		t.expr(x.Low, out)
		t.expr(x.High, out)
		t.expr(x.Max, out)
	case *ast.TypeAssertExpr:
		t.expr(x.X, out)
	case *ast.KeyValueExpr:
		t.expr(x.Key, out)
		t.expr(x.Value, out)
	case *ast.CompositeLit:
		t.exprs(x.Elts, out)
	case *ast.CallExpr:
		t.call(x, out)
	case *ast.FuncLit:
		*out = append(*out, &stmt{kind: "closure", kids: []*stmt{t.block(x.Body.List)}, pos: t.pos(x)})
	case *ast.ArrayType, *ast.MapType, *ast.ChanType, *ast.FuncType, *ast.InterfaceType, *ast.StructType, *ast.Ellipsis:
	default:
		*out = append(*out, t.unknown(e, fmt.Sprintf("expression %T", e)))
	}
}

func (t *ftr) call(c *ast.CallExpr, out *[]*stmt) {
	var sel *ast.SelectorExpr
	recvT := ""
	recvBatch := ""
	recvView, recvViewTag := "", ""
	switch f := c.Fun.(type) {
	case *ast.SelectorExpr:
		sel = f
		if !t.isPkgAlias(f.X) {
			if b, ok := t.batchIdent(f.X); ok {
				recvBatch = b
			} else if b, ok := t.viewIdent(f.X); ok {
				recvView, recvViewTag = b, t.vtag[f.X.(*ast.Ident).Name]
			} else {
				t.expr(f.X, out)
				recvT = t.typeOf(f.X)
			}
		}
	case *ast.Ident:
		if f.Name == "panic" && t.vars[f.Name] == "" {
			t.exprs(c.Args, out)
			*out = append(*out, &stmt{kind: "retErr", pos: t.pos(c)})
			return
		}
	case *ast.IndexExpr:
	case *ast.ArrayType, *ast.MapType, *ast.ChanType, *ast.FuncType, *ast.InterfaceType, *ast.ParenExpr, *ast.StarExpr: // conversions
		t.exprs(c.Args, out)
		return
	case *ast.FuncLit:
		t.exprs(c.Args, out)
		*out = append(*out, &stmt{kind: "closure", kids: []*stmt{t.block(f.Body.List)}, pos: t.pos(c)})
		return
	default:
		t.expr(c.Fun, out)
	}
	batchArgs := map[int]string{}
	viewArgs := map[int]string{}
	var dbArgs []int
	for i, a := range c.Args {
		if b, ok := t.batchIdent(a); ok {
			batchArgs[i] = b
			continue
		}
		if b, ok := t.viewIdent(a); ok {
			// a view handed on: the callee stages into the underlying batch through the view's methods
			batchArgs[i] = b
			viewArgs[i] = t.vtag[a.(*ast.Ident).Name]
			continue
		}
		if t.typeOf(a) == tDB {
			dbArgs = append(dbArgs, i)
		}
		t.expr(a, out)
	}
	if recvBatch != "" {
		switch {
		case sel.Sel.Name == "Set" && len(batchArgs) == 0:
			*out = append(*out, t.tagged(t.action(c, fmt.Sprintf("batchSet %q", recvBatch), true), argTag(c)))
		case sel.Sel.Name == "Del" && len(batchArgs) == 0:
			*out = append(*out, t.tagged(t.action(c, fmt.Sprintf("batchDel %q", recvBatch), true), argTag(c)))
		default:
			*out = append(*out, t.unknown(c, "method "+sel.Sel.Name+" on batch "+recvBatch))
		}
		return
	}
	if sel != nil && recvT == tDB {
		name := sel.Sel.Name
		w, isWrite := t.g.dbWrites[name]
		switch {
		case name == "Write" && isWrite:
			if b, ok := batchArgs[0]; ok && len(c.Args) == 1 && len(viewArgs) == 0 {
				*out = append(*out, t.tagged(t.action(c, fmt.Sprintf("write %q", b), true), exprString(sel.X)))
			} else {
				*out = append(*out, t.unknown(c, "Write of an untracked batch"))
			}
		case name == "Set" && isWrite && len(batchArgs) == 0:
			*out = append(*out, t.tagged(t.action(c, "directSet", true), exprString(sel.X)+" "+argTag(c)))
		case name == "Del" && isWrite && len(batchArgs) == 0:
			*out = append(*out, t.tagged(t.action(c, "directDel", true), exprString(sel.X)+" "+argTag(c)))
		case isWrite:
			*out = append(*out, t.unknown(c, "db.DB."+name+" ("+w+")"))
		case name == "NewBatch":
			*out = append(*out, t.unknown(c, "NewBatch not bound to a variable"))
		case !t.g.dbAll[name]:
			*out = append(*out, t.unknown(c, "unknown db.DB method "+name))
		case len(batchArgs) > 0:
			*out = append(*out, t.unknown(c, "batch passed to db.DB."+name))
		}
		return
	}
	if sel != nil && len(batchArgs) == 0 {
		switch {
		case recvT == "blockchain.DataAccess" && (sel.Sel.Name == "Cache" || sel.Sel.Name == "RemoveCache"):
			*out = append(*out, t.action(c, "cacheUpdate", false))
			return
		case recvT == "labi.ABI" && sel.Sel.Name == "Commit":
			*out = append(*out, t.action(c, "abiCommit", false))
			return
		case recvT == "labi.ABI" && sel.Sel.Name == "Revert":
			*out = append(*out, t.action(c, "abiRevert", false))
			return
		case recvT == "event.EventEmitter" && sel.Sel.Name == "Publish":
			*out = append(*out, t.action(c, "publish", false))
			return
		case recvT == "p2p.Connection" && sel.Sel.Name == "Publish":
			*out = append(*out, t.action(c, "netPublish", false))
			return
		}
	}
	if recvView != "" {
		// v.M(..) on a local view v of type T: `call "T.M" [("self", batch)]`
		var callee *fn
		if p, tn := t.lookupType(t.typeOf(sel.X)); p != nil {
			callee = p.funcs[tn+"."+sel.Sel.Name]
		}
		switch {
		case callee == nil || !callee.selfBatch:
			*out = append(*out, t.unknown(c, "method "+sel.Sel.Name+" on batch view "+exprString(sel.X)))
		case len(batchArgs) > 0:
			*out = append(*out, t.unknown(c, "batch passed to a method of batch view "+exprString(sel.X)))
		default:
			*out = append(*out, &stmt{kind: "call", callee: callee, args: [][2]string{{"self", recvView}}, pos: t.pos(c), tag: recvViewTag})
		}
		return
	}
	callee := t.resolve(c)
	if callee == nil {
		if len(batchArgs) > 0 {
			*out = append(*out, t.unknown(c, "batch passed to unresolved callee "+exprString(c.Fun)))
		} else if len(dbArgs) > 0 {
			*out = append(*out, t.unknown(c, "database handle passed to unresolved callee "+exprString(c.Fun)))
		}
		return
	}
	var args [][2]string
	var tags []string
	idx := make([]int, 0, len(batchArgs))
	for i := range batchArgs {
		idx = append(idx, i)
	}
	sort.Ints(idx)
	for _, i := range idx {
		if i >= len(callee.params) || !isBatchType(callee.params[i].typ) {
			*out = append(*out, t.unknown(c, "batch passed to a parameter that is not a batch of "+callee.key))
			return
		}
		if vt, isView := viewArgs[i]; isView {
			if callee.params[i].typ == tBatch {
				*out = append(*out, t.unknown(c, "batch view passed as a batch to "+callee.key))
				return
			}
			tags = append(tags, "through "+vt)
		}
		args = append(args, [2]string{callee.params[i].name, batchArgs[i]})
	}
	for _, i := range dbArgs {
		if i >= len(callee.params) {
			*out = append(*out, t.unknown(c, "database handle passed to variadic "+callee.key))
			return
		}
		pt := callee.params[i].typ
		if pt != tDB && !t.readOnlyIface(pt) {
			*out = append(*out, t.unknown(c, "database handle passed as "+pt+" to "+callee.key))
			return
		}
	}
	*out = append(*out, &stmt{kind: "call", callee: callee, args: args, pos: t.pos(c), tag: strings.Join(tags, "; ")})
}

func (t *ftr) tagged(s *stmt, tag string) *stmt {
	s.tag = tag
	return s
}

// argTag names the table addressed by the key argument of a Set / Del call.
func argTag(c *ast.CallExpr) string {
	if len(c.Args) == 0 {
		return ""
	}
	return keyTag(c.Args[0])
}

func (t *ftr) block(l []ast.Stmt) *stmt {
	var out []*stmt
	for i := 0; i < len(l); i++ {
		n0 := len(out)
		t.stmt(l[i], &out)
		// x, err := CALL ; if err != nil { A } else { B }   =>   try CALL A B
		if as, ok := l[i].(*ast.AssignStmt); ok && i+1 < len(l) {
			if ifs, ok := l[i+1].(*ast.IfStmt); ok && ifs.Init == nil {
				if tr := t.tryPattern(as, ifs, &out, n0); tr {
					i++
				}
			}
		}
	}
	return seq(out...)
}

// errIdent returns the identifier tested by `id != nil`.
func errIdent(cond ast.Expr) string {
	if be, ok := cond.(*ast.BinaryExpr); ok && be.Op == token.NEQ {
		if id, ok := be.X.(*ast.Ident); ok {
			if n, ok := be.Y.(*ast.Ident); ok && n.Name == "nil" {
				return id.Name
			}
		}
	}
	return ""
}

// tryPattern recognises an error-checked call of a function in scope: the assignment `as` (already
// translated, its actions are out[n0:]) ends with the call and binds its error result to the
// identifier tested by ifs. The call and the if become `try call then else`.
func (t *ftr) tryPattern(as *ast.AssignStmt, ifs *ast.IfStmt, out *[]*stmt, n0 int) bool {
	e := errIdent(ifs.Cond)
	if e == "" || len(as.Rhs) != 1 || len(*out) <= n0 {
		return false
	}
	last, ok := as.Lhs[len(as.Lhs)-1].(*ast.Ident)
	if !ok || last.Name != e {
		return false
	}
	c, ok := as.Rhs[0].(*ast.CallExpr)
	if !ok {
		return false
	}
	cs := (*out)[len(*out)-1]
	if cs.kind != "call" || cs.pos != t.pos(c) || len(cs.callee.results) == 0 || cs.callee.results[len(cs.callee.results)-1] != "error" {
		return false
	}
	*out = (*out)[:len(*out)-1]
	t.nonNil = append(t.nonNil, e)
	th := t.block(ifs.Body.List)
	t.nonNil = t.nonNil[:len(t.nonNil)-1]
	el := skip()
	if ifs.Else != nil {
		el = t.sub(ifs.Else)
	}
	*out = append(*out, &stmt{kind: "try", kids: []*stmt{cs, th, el}, pos: cs.pos})
	return true
}

func (t *ftr) sub(s ast.Stmt) *stmt {
	var out []*stmt
	t.stmt(s, &out)
	return seq(out...)
}

func (t *ftr) hasErrResult() bool {
	n := len(t.f.results)
	return n > 0 && t.f.results[n-1] == "error"
}

func (t *ftr) bind(lhs ast.Expr, typ string) {
	if id, ok := lhs.(*ast.Ident); ok && id.Name != "_" {
		t.vars[id.Name] = typ
	}
}

func (t *ftr) stmt(s ast.Stmt, out *[]*stmt) {
	switch x := s.(type) {
	case nil, *ast.EmptyStmt:
	case *ast.ExprStmt:
		t.expr(x.X, out)
	case *ast.IncDecStmt:
		t.expr(x.X, out)
	case *ast.SendStmt:
		t.expr(x.Chan, out)
		t.expr(x.Value, out)
	case *ast.AssignStmt:
		// batch := <db>.NewBatch()
		if len(x.Lhs) == 1 && len(x.Rhs) == 1 {
			if c, ok := x.Rhs[0].(*ast.CallExpr); ok {
				if sl, ok := c.Fun.(*ast.SelectorExpr); ok && sl.Sel.Name == "NewBatch" && !t.isPkgAlias(sl.X) && t.typeOf(sl.X) == tDB {
					if id, ok := x.Lhs[0].(*ast.Ident); ok && id.Name != "_" {
						t.expr(sl.X, out)
						t.vars[id.Name] = tBatch
						*out = append(*out, t.tagged(t.action(x, fmt.Sprintf("newBatch %q", id.Name), true), exprString(sl.X)))
						return
					}
				}
				// v := ctor(.., batch, ..): a batch view
				if cur.views {
					if cal := t.resolve(c); cal != nil && cal.ctorView != "" {
						id, ok := x.Lhs[0].(*ast.Ident)
						b, isBatch := "", false
						if cal.ctorParam < len(c.Args) {
							b, isBatch = t.batchIdent(c.Args[cal.ctorParam])
						}
						_, rebound := t.views[id0(x.Lhs[0])]
						if !ok || id.Name == "_" || !isBatch || x.Tok != token.DEFINE || rebound || isBatchType(t.vars[id0(x.Lhs[0])]) {
							*out = append(*out, t.unknown(x, "batch view constructor "+cal.key+" not bound to a fresh variable"))
							return
						}
						var others []string
						for i, a := range c.Args {
							if i == cal.ctorParam {
								continue
							}
							if t.typeOf(a) != tDB {
								t.expr(a, out)
							}
							others = append(others, exprString(a))
						}
						t.vars[id.Name] = cal.ctorView
						t.views[id.Name] = b
						t.vtag[id.Name] = cal.qkey() + "(" + strings.Join(others, ", ") + ")"
						return
					}
				}
			}
		}
		t.exprs(x.Rhs, out)
		for _, l := range x.Lhs {
			if id, ok := l.(*ast.Ident); ok {
				if isBatchType(t.vars[id.Name]) {
					*out = append(*out, t.unknown(l, "batch variable "+id.Name+" reassigned"))
				} else if _, isView := t.views[id.Name]; isView {
					*out = append(*out, t.unknown(l, "batch view "+id.Name+" reassigned"))
				}
				continue
			}
			t.expr(l, out)
		}
		if len(x.Rhs) == 1 && len(x.Lhs) > 1 {
			var res []string
			if c, ok := x.Rhs[0].(*ast.CallExpr); ok {
				if cal := t.resolve(c); cal != nil {
					res = cal.results
				} else if t.isDBCtor(c) {
					res = []string{tDB, "error"}
				}
			}
			for i, l := range x.Lhs {
				ty := ""
				if i < len(res) {
					ty = res[i]
				}
				t.bind(l, ty)
			}
		} else if len(x.Rhs) == len(x.Lhs) {
			for i, l := range x.Lhs {
				ty := t.typeOf(x.Rhs[i])
				if isBatchType(ty) {
					ty = "" // aliasing is reported by expr (batch escapes)
				}
				t.bind(l, ty)
			}
		}
	case *ast.DeclStmt:
		gd, ok := x.Decl.(*ast.GenDecl)
		if !ok || gd.Tok != token.VAR {
			return
		}
		for _, sp := range gd.Specs {
			vs := sp.(*ast.ValueSpec)
			t.exprs(vs.Values, out)
			for i, n := range vs.Names {
				ty := ""
				if vs.Type != nil {
					ty = t.g.typeKey(t.f.pkg, t.imps, vs.Type)
				} else if i < len(vs.Values) {
					ty = t.typeOf(vs.Values[i])
				}
				if isBatchType(ty) {
					*out = append(*out, t.unknown(n, "batch declared with var"))
				}
				t.vars[n.Name] = ty
			}
		}
	case *ast.BlockStmt:
		*out = append(*out, t.block(x.List))
	case *ast.LabeledStmt:
		*out = append(*out, t.unknown(x, "labeled statement"))
		t.stmt(x.Stmt, out)
	case *ast.IfStmt:
		if as, ok := x.Init.(*ast.AssignStmt); ok {
			n0 := len(*out)
			t.stmt(x.Init, out)
			if t.tryPattern(as, &ast.IfStmt{Cond: x.Cond, Body: x.Body, Else: x.Else}, out, n0) {
				return
			}
		} else {
			t.stmt(x.Init, out)
		}
		if flag, neg, ok := flagCond(x.Cond); ok && x.Init == nil {
			t.saw[flag] = true
			if v, fixed := t.f.assume[flag]; fixed {
				// the flag is an input of the call: only one branch exists in this specialisation
				if v != neg {
					*out = append(*out, t.block(x.Body.List))
				} else if x.Else != nil {
					*out = append(*out, t.sub(x.Else))
				}
				return
			}
		}
		t.expr(x.Cond, out)
		known := ""
		if be, ok := x.Cond.(*ast.BinaryExpr); ok && be.Op == token.NEQ {
			if id, ok := be.X.(*ast.Ident); ok {
				if n, ok := be.Y.(*ast.Ident); ok && n.Name == "nil" {
					known = id.Name
				}
			}
		}
		if known != "" {
			t.nonNil = append(t.nonNil, known)
		}
		th := t.block(x.Body.List)
		if known != "" {
			t.nonNil = t.nonNil[:len(t.nonNil)-1]
		}
		el := skip()
		if x.Else != nil {
			el = t.sub(x.Else)
		}
		*out = append(*out, &stmt{kind: "choice", kids: []*stmt{th, el}})
	case *ast.ForStmt:
		t.stmt(x.Init, out)
		var cond []*stmt
		t.expr(x.Cond, &cond)
		*out = append(*out, cond...)
		t.loops = append(t.loops, "loop")
		body := t.block(x.Body.List)
		t.loops = t.loops[:len(t.loops)-1]
		post := t.sub(x.Post)
		var cond2 []*stmt
		t.expr(x.Cond, &cond2)
		*out = append(*out, &stmt{kind: "loop", kids: []*stmt{seq(append([]*stmt{body, post}, cond2...)...)}})
	case *ast.RangeStmt:
		t.expr(x.X, out)
		t.bind(x.Key, "")
		t.bind(x.Value, "")
		t.loops = append(t.loops, "loop")
		body := t.block(x.Body.List)
		t.loops = t.loops[:len(t.loops)-1]
		*out = append(*out, &stmt{kind: "loop", kids: []*stmt{body}})
	case *ast.SwitchStmt:
		t.stmt(x.Init, out)
		t.expr(x.Tag, out)
		t.clauses(x.Body.List, out)
	case *ast.TypeSwitchStmt:
		t.stmt(x.Init, out)
		t.stmt(x.Assign, out)
		t.clauses(x.Body.List, out)
	case *ast.SelectStmt:
		t.clauses(x.Body.List, out)
	case *ast.ReturnStmt:
		t.exprs(x.Results, out)
		if !t.hasErrResult() || len(x.Results) == 0 {
			if t.hasErrResult() { // naked return with named results
				*out = append(*out, &stmt{kind: "choice", kids: []*stmt{{kind: "ret"}, {kind: "retErr"}}})
				return
			}
			*out = append(*out, &stmt{kind: "ret", pos: t.pos(x)})
			return
		}
		last := x.Results[len(x.Results)-1]
		switch l := last.(type) {
		case *ast.Ident:
			switch {
			case l.Name == "nil":
				*out = append(*out, &stmt{kind: "ret", pos: t.pos(x)})
			case contains(t.nonNil, l.Name):
				*out = append(*out, &stmt{kind: "retErr", pos: t.pos(x)})
			default: // an error variable that may be nil
				*out = append(*out, &stmt{kind: "choice", kids: []*stmt{{kind: "ret"}, {kind: "retErr"}}})
			}
		case *ast.CallExpr:
			if s, ok := l.Fun.(*ast.SelectorExpr); ok && t.isPkgAlias(s.X) && (s.Sel.Name == "Errorf" || s.Sel.Name == "New") {
				*out = append(*out, &stmt{kind: "retErr", pos: t.pos(x)})
			} else {
				*out = append(*out, &stmt{kind: "choice", kids: []*stmt{{kind: "ret"}, {kind: "retErr"}}})
			}
		default:
			*out = append(*out, &stmt{kind: "choice", kids: []*stmt{{kind: "ret"}, {kind: "retErr"}}})
		}
	case *ast.BranchStmt:
		inLoop := len(t.loops) > 0 && t.loops[len(t.loops)-1] == "loop"
		switch {
		case x.Label == nil && x.Tok == token.BREAK && inLoop:
			*out = append(*out, &stmt{kind: "brk"})
		case x.Label == nil && x.Tok == token.CONTINUE && len(t.loops) > 0 && !contains(t.loops, "switch"):
			*out = append(*out, &stmt{kind: "cont"})
		default:
			*out = append(*out, t.unknown(x, "branch statement "+x.Tok.String()))
		}
	case *ast.DeferStmt:
		var sub []*stmt
		t.call(x.Call, &sub)
		*out = append(*out, &stmt{kind: "closure", kids: []*stmt{seq(sub...)}, pos: t.pos(x)})
	case *ast.GoStmt:
		var sub []*stmt
		if fl, ok := x.Call.Fun.(*ast.FuncLit); ok {
			t.exprs(x.Call.Args, &sub)
			sub = append(sub, t.block(fl.Body.List))
		} else {
			t.call(x.Call, &sub)
		}
		*out = append(*out, &stmt{kind: "goclosure", kids: []*stmt{seq(sub...)}, pos: t.pos(x)})
	default:
		*out = append(*out, t.unknown(s, fmt.Sprintf("statement %T", s)))
	}
}

func id0(e ast.Expr) string {
	if id, ok := e.(*ast.Ident); ok {
		return id.Name
	}
	return ""
}

func contains(l []string, s string) bool {
	for _, x := range l {
		if x == s {
			return true
		}
	}
	return false
}

func (t *ftr) clauses(l []ast.Stmt, out *[]*stmt) {
	var alts []*stmt
	hasDefault := false
	t.loops = append(t.loops, "switch")
	for _, cl := range l {
		var sub []*stmt
		switch c := cl.(type) {
		case *ast.CaseClause:
			if c.List == nil {
				hasDefault = true
			}
			t.exprs(c.List, &sub)
			sub = append(sub, t.block(c.Body))
		case *ast.CommClause:
			if c.Comm == nil {
				hasDefault = true
			}
			t.stmt(c.Comm, &sub)
			sub = append(sub, t.block(c.Body))
		}
		alts = append(alts, seq(sub...))
	}
	t.loops = t.loops[:len(t.loops)-1]
	if !hasDefault {
		alts = append(alts, skip())
	}
	*out = append(*out, choiceN(alts))
}

func (g *gen) translate(f *fn) (flags []string) {
	t := g.newFtr(f)
	if f.ctorView != "" {
		// verified by detectCtor: stores its batch parameter in the view's batch field, nothing else
		f.raw = skip()
		return nil
	}
	f.raw = t.block(f.decl.Body.List)
	for _, fl := range cur.flags {
		if t.saw[fl] {
			flags = append(flags, fl)
		}
	}
	return flags
}

func (g *gen) newFtr(f *fn) *ftr {
	t := &ftr{g: g, f: f, imps: g.imports(f.file), vars: map[string]string{}, views: map[string]string{}, vtag: map[string]string{}, saw: map[string]bool{}}
	if f.recvName != "" {
		t.vars[f.recvName] = f.recvType
	}
	for _, p := range f.params {
		t.vars[p.name] = p.typ
	}
	if f.decl.Type.Results != nil {
		for _, fl := range f.decl.Type.Results.List {
			for _, n := range fl.Names {
				t.vars[n.Name] = g.typeKey(f.pkg, t.imps, fl.Type)
			}
		}
	}
	return t
}

// ---------------------------------------------------------------------------------------------
// pruning

func hasAct(s *stmt, pred func(*stmt) bool) bool {
	if pred(s) {
		return true
	}
	for _, k := range s.kids {
		if hasAct(k, pred) {
			return true
		}
	}
	return false
}

// prune drops calls to uninteresting functions and simplifies.
func prune(s *stmt) *stmt {
	switch s.kind {
	case "call":
		if !s.callee.interest {
			return skip()
		}
		return s
	case "seq":
		var l []*stmt
		for _, k := range s.kids {
			p := prune(k)
			if p.kind == "skip" {
				continue
			}
			if p.kind == "seq" {
				l = append(l, p.kids...)
			} else {
				l = append(l, p)
			}
		}
		if len(l) == 0 {
			return skip()
		}
		if len(l) == 1 {
			return l[0]
		}
		return seq(l...)
	case "choice":
		a, b := prune(s.kids[0]), prune(s.kids[1])
		if a.kind == "skip" && b.kind == "skip" {
			return skip()
		}
		return &stmt{kind: "choice", kids: []*stmt{a, b}}
	case "try":
		c := prune(s.kids[0])
		if c.kind == "skip" {
			return prune(&stmt{kind: "choice", kids: []*stmt{s.kids[1], s.kids[2]}})
		}
		return &stmt{kind: "try", kids: []*stmt{c, prune(s.kids[1]), prune(s.kids[2])}, pos: s.pos}
	case "loop", "scope":
		a := prune(s.kids[0])
		if a.kind == "skip" {
			return skip()
		}
		return &stmt{kind: s.kind, kids: []*stmt{a}}
	case "closure":
		a := prune(s.kids[0])
		if !hasAct(a, func(x *stmt) bool { return x.kind == "act" || x.kind == "call" }) {
			return skip()
		}
		return &stmt{kind: "act", act: fmt.Sprintf("unknown %q", s.pos+" closure or deferred call with database/engine actions"), isDB: true, pos: s.pos}
	case "goclosure":
		a := prune(s.kids[0])
		if !hasAct(a, func(x *stmt) bool { return x.kind == "act" || x.kind == "call" }) {
			return skip()
		}
		if hasAct(a, func(x *stmt) bool { return (x.kind == "act" && x.isDB) || x.kind == "call" }) {
			return &stmt{kind: "act", act: fmt.Sprintf("unknown %q", s.pos+" goroutine with database actions"), isDB: true, pos: s.pos}
		}
		return &stmt{kind: "scope", kids: []*stmt{a}}
	}
	return s
}

// leafName renders an action or call the way Props/C16_Write.lean (`leafNames`) does.
func leafName(s *stmt) string {
	if s.kind == "call" {
		n := "call " + s.callee.qkey()
		for _, a := range s.args {
			n += " " + a[1]
		}
		return n
	}
	a := strings.ReplaceAll(s.act, "\"", "")
	if strings.HasPrefix(a, "unknown") {
		return "unknown"
	}
	return a
}

// ---------------------------------------------------------------------------------------------
// summaries of recursive / concurrent writer families (pkg/trie/smt)

type sumInfo struct {
	bad      string // "" = the writer parameter is used for Get/Set/Del and handed on within the family only
	set, del bool
	edges    []*fn
	param    string
}

// writerUse analyses every use of the writer parameter of f.
func (g *gen) writerUse(f *fn) *sumInfo {
	info := &sumInfo{}
	var obj *ast.Object
	n := 0
	for _, fl := range f.decl.Type.Params.List {
		tk := g.typeKey(f.pkg, g.imports(f.file), fl.Type)
		for _, nm := range fl.Names {
			if isBatchType(tk) {
				obj, info.param = nm.Obj, nm.Name
				n++
			}
		}
	}
	if n != 1 || obj == nil {
		info.bad = "not exactly one named writer parameter"
		return info
	}
	t := g.newFtr(f)
	var stack []ast.Node
	ast.Inspect(f.decl.Body, func(nd ast.Node) bool {
		if nd == nil {
			stack = stack[:len(stack)-1]
			return true
		}
		stack = append(stack, nd)
		id, ok := nd.(*ast.Ident)
		if !ok || id.Obj != obj || info.bad != "" {
			return true
		}
		where := f.pkg.fset.Position(id.Pos())
		fail := func(why string) { info.bad = fmt.Sprintf("%s:%d %s", where.Filename, where.Line, why) }
		if len(stack) < 2 {
			fail("writer used as a value")
			return true
		}
		switch par := stack[len(stack)-2].(type) {
		case *ast.SelectorExpr:
			var call *ast.CallExpr
			if len(stack) >= 3 {
				call, _ = stack[len(stack)-3].(*ast.CallExpr)
			}
			if par.X != ast.Expr(id) || call == nil || call.Fun != ast.Expr(par) {
				fail("writer used as a value")
				return true
			}
			switch par.Sel.Name {
			case "Get":
			case "Set":
				info.set = true
			case "Del":
				info.del = true
			default:
				fail("method " + par.Sel.Name + " of the writer")
			}
		case *ast.CallExpr:
			j := -1
			for i, a := range par.Args {
				if a == ast.Expr(id) {
					j = i
				}
			}
			callee := t.resolve(par)
			if j < 0 || callee == nil || j >= len(callee.params) {
				fail("writer handed to an unresolved callee")
				return true
			}
			pt := callee.params[j].typ
			switch {
			case isBatchType(pt) && cur.summarised[callee.pkg.name]:
				info.edges = append(info.edges, callee)
			case t.readOnlyIface(pt):
			default:
				fail("writer handed to " + callee.key + " as " + pt)
			}
		default:
			fail("writer used as a value")
		}
		return true
	})
	return info
}

func (g *gen) summarise(fns []*fn) {
	if len(cur.summarised) == 0 {
		return
	}
	infos := map[*fn]*sumInfo{}
	for _, f := range fns {
		if !cur.summarised[f.pkg.name] {
			continue
		}
		has := false
		for _, p := range f.params {
			if isBatchType(p.typ) {
				has = true
			}
		}
		if has {
			infos[f] = g.writerUse(f)
		}
	}
	for _, f := range fns {
		info := infos[f]
		if info == nil {
			continue
		}
		// the family: everything reachable through writer hand-ons
		seen := map[*fn]bool{f: true}
		work := []*fn{f}
		bad, set, del := "", false, false
		for len(work) > 0 {
			x := work[0]
			work = work[1:]
			xi := infos[x]
			if xi == nil {
				bad = "no writer analysis for " + x.key
				break
			}
			if xi.bad != "" && bad == "" {
				bad = xi.bad
			}
			set, del = set || xi.set, del || xi.del
			for _, e := range xi.edges {
				if !seen[e] {
					seen[e] = true
					work = append(work, e)
				}
			}
		}
		fam := []string{}
		for x := range seen {
			fam = append(fam, x.qkey())
		}
		sort.Strings(fam)
		f.summary = fam
		pos := f.pkg.fset.Position(f.decl.Pos())
		where := fmt.Sprintf("%s:%d", pos.Filename, pos.Line)
		if bad != "" {
			f.raw = &stmt{kind: "act", act: fmt.Sprintf("unknown %q", where+" writer family of "+f.key+" cannot be summarised: "+bad), isDB: true, pos: where}
			continue
		}
		var alts []*stmt
		if set {
			alts = append(alts, &stmt{kind: "act", act: fmt.Sprintf("batchSet %q", info.param), isDB: true})
		}
		if del {
			alts = append(alts, &stmt{kind: "act", act: fmt.Sprintf("batchDel %q", info.param), isDB: true})
		}
		var body []*stmt
		if len(alts) > 0 {
			body = append(body, &stmt{kind: "loop", kids: []*stmt{choiceN(alts)}})
		}
		n := len(f.results)
		if n > 0 && f.results[n-1] == "error" {
			body = append(body, &stmt{kind: "choice", kids: []*stmt{{kind: "ret"}, {kind: "retErr"}}})
		} else {
			body = append(body, &stmt{kind: "ret", pos: where})
		}
		f.raw = seq(body...)
	}
}

func (g *gen) all() []*fn {
	var l []*fn
	for _, p := range g.pkgs {
		for _, f := range p.funcs {
			l = append(l, f)
		}
	}
	sort.Slice(l, func(i, j int) bool {
		if l[i].pkg.rel != l[j].pkg.rel {
			return l[i].pkg.rel < l[j].pkg.rel
		}
		if l[i].decl.Pos() != l[j].decl.Pos() {
			return l[i].decl.Pos() < l[j].decl.Pos()
		}
		return l[i].key < l[j].key
	})
	return l
}

// ---------------------------------------------------------------------------------------------
// output

func lean(s *stmt, ind string, sb *strings.Builder) {
	switch s.kind {
	case "skip":
		sb.WriteString("skip")
	case "ret", "retErr", "brk", "cont":
		sb.WriteString(s.kind)
	case "act":
		sb.WriteString("act (." + s.act + ")")
	case "call":
		var as []string
		for _, a := range s.args {
			as = append(as, fmt.Sprintf("(%q, %q)", a[0], a[1]))
		}
		sb.WriteString(fmt.Sprintf("call %q [%s]", s.callee.qkey(), strings.Join(as, ", ")))
	case "seq":
		sb.WriteString("seqs [\n")
		for i, k := range s.kids {
			sb.WriteString(ind + "  ")
			lean(k, ind+"  ", sb)
			if i+1 < len(s.kids) {
				sb.WriteString(",")
			}
			if k.pos != "" {
				sb.WriteString("  -- " + k.pos)
			}
			sb.WriteString("\n")
		}
		sb.WriteString(ind + "]")
	case "choice":
		sb.WriteString("choice\n" + ind + "  (")
		lean(s.kids[0], ind+"  ", sb)
		sb.WriteString(")\n" + ind + "  (")
		lean(s.kids[1], ind+"  ", sb)
		sb.WriteString(")")
	case "try":
		sb.WriteString("tryCall (")
		lean(s.kids[0], ind+"  ", sb)
		sb.WriteString(")\n" + ind + "  (")
		lean(s.kids[1], ind+"  ", sb)
		sb.WriteString(")\n" + ind + "  (")
		lean(s.kids[2], ind+"  ", sb)
		sb.WriteString(")")
	case "loop", "scope":
		sb.WriteString(s.kind + " (")
		lean(s.kids[0], ind+"  ", sb)
		sb.WriteString(")")
	default:
		sb.WriteString(fmt.Sprintf("act (.unknown %q)", "internal:"+s.kind))
	}
}

func strList(l []string) string {
	var q []string
	for _, s := range l {
		q = append(q, fmt.Sprintf("%q", s))
	}
	return "[" + strings.Join(q, ", ") + "]"
}

func (g *gen) run(out string) error {
	if err := g.scanDB(); err != nil {
		return err
	}
	for _, rel := range cur.scanned {
		p, err := g.parsePkg(rel)
		if err != nil {
			return err
		}
		g.pkgs[p.name] = p
		g.byPath["/"+rel] = p.name
	}
	g.byPath["/"+dbPkgDir] = "db"
	for _, p := range g.pkgs {
		g.collect(p)
	}
	fns := g.all()
	g.summarise(fns)
	var variants []*fn
	for _, f := range fns {
		if f.summary != nil {
			continue
		}
		if flags := g.translate(f); len(flags) == 1 && f.variant == "" {
			// specialise: the function under its own name assumes the flag false, the copy assumes it true
			fl := flags[0]
			f.assume = map[string]bool{fl: false}
			g.translate(f)
			c := *f
			c.key, c.variant, c.assume = f.key+"."+fl, fl, map[string]bool{fl: true}
			c.raw, c.pruned = nil, nil
			g.translate(&c)
			f.pkg.funcs[c.key] = &c
			variants = append(variants, &c)
		} else if len(flags) > 1 {
			f.raw = &stmt{kind: "act", act: fmt.Sprintf("unknown %q", f.key+" tests more than one request flag"), isDB: true}
		}
	}
	if len(variants) > 0 {
		fns = g.all()
	}
	// interest: fixpoint over "contains an action or a call to an interesting function"
	for changed := true; changed; {
		changed = false
		for _, f := range fns {
			if f.interest {
				continue
			}
			if hasAct(f.raw, func(s *stmt) bool {
				return s.kind == "act" || (s.kind == "call" && (s.callee.interest || len(s.args) > 0))
			}) {
				f.interest = true
				changed = true
			}
		}
	}
	for _, f := range fns {
		f.pruned = prune(f.raw)
		f.root = hasAct(f.pruned, func(s *stmt) bool { return (s.kind == "act" && s.isDB) || (s.kind == "call" && len(s.args) > 0) })
	}
	// emitted set: downward closure of the roots
	var mark func(f *fn)
	mark = func(f *fn) {
		if f.emit {
			return
		}
		f.emit = true
		var walk func(s *stmt)
		walk = func(s *stmt) {
			if s.kind == "call" {
				mark(s.callee)
			}
			for _, k := range s.kids {
				walk(k)
			}
		}
		walk(f.pruned)
	}
	for _, f := range fns {
		if f.root {
			mark(f)
		}
	}
	var sb strings.Builder
	sb.WriteString("/- GENERATED by tools/wskelgen from /repo — do not edit. Regenerated on every check run.\n")
	sb.WriteString("   Write skeletons of every function of " + strings.Join(cur.scanned, ", ") + " that creates, fills, hands on or\n")
	sb.WriteString("   writes a db.Batch or writes through the *db.DB handle, and of what they call. -/\n")
	sb.WriteString("import LiskVerif.Model.Crash\n\nnamespace " + cur.namespace + "\nopen LiskVerif.Crash\nopen LiskVerif.Crash.Stmt\n\n")
	var names, roots []string
	var bparams []string
	for _, f := range fns {
		if !f.emit {
			continue
		}
		names = append(names, f.qkey())
		if f.root {
			roots = append(roots, f.qkey())
		}
		bp := f.batchParamNames()
		bparams = append(bparams, fmt.Sprintf("(%q, %s)", f.qkey(), strList(bp)))
		pos := f.pkg.fset.Position(f.decl.Pos())
		var ps []string
		for _, p := range f.params {
			ps = append(ps, p.name)
		}
		extra := ""
		if f.assume != nil {
			for fl, v := range f.assume {
				extra += fmt.Sprintf("; specialised to %s = %v", fl, v)
			}
		}
		if f.summary != nil {
			extra += "; SUMMARY (checked: the writer parameter is only used for Get/Set/Del and handed on within) of the family " + strList(f.summary)
		}
		sb.WriteString(fmt.Sprintf("/-- %s:%d  %s(%s); batch parameters: %s%s -/\n", pos.Filename, pos.Line, f.key, strings.Join(ps, ", "), strList(bp), extra))
		sb.WriteString("def " + f.leanName() + " : Stmt :=\n  ")
		lean(f.pruned, "  ", &sb)
		sb.WriteString("\n\n")
	}
	sb.WriteString("/-- every generated skeleton, by Go name -/\ndef fns : List (String × Stmt) := [\n")
	for i, f := range names {
		sep := ","
		if i+1 == len(names) {
			sep = ""
		}
		sb.WriteString(fmt.Sprintf("  (%q, %s)%s\n", f, strings.ReplaceAll(f, ".", "_"), sep))
	}
	sb.WriteString("]\n\n")
	sb.WriteString("/-- functions whose own body creates / fills / hands on / writes a batch or writes directly -/\ndef roots : List String := " + strList(roots) + "\n\n")
	sb.WriteString("/-- batch-typed parameters (db.Batch, diffdb.DatabaseWriter) of each function -/\ndef batchParams : List (String × List String) := [" + strings.Join(bparams, ", ") + "]\n\n")
	// callers of emitted functions that are not emitted themselves
	var callers []string
	for _, f := range fns {
		if f.emit {
			continue
		}
		seen := map[string]bool{}
		var cs []string
		var walk func(s *stmt)
		walk = func(s *stmt) {
			if s.kind == "call" && s.callee.emit && !seen[s.callee.qkey()] {
				seen[s.callee.qkey()] = true
				cs = append(cs, s.callee.qkey())
			}
			for _, k := range s.kids {
				walk(k)
			}
		}
		walk(f.raw)
		if len(cs) > 0 {
			sort.Strings(cs)
			callers = append(callers, fmt.Sprintf("(%q, %s)", f.qkey(), strList(cs)))
		}
	}
	sb.WriteString("/-- functions outside the generated set that call a generated function (compositions of steps) -/\ndef callers : List (String × List String) := [" + strings.Join(callers, ", ") + "]\n\n")
	var dm []string
	for m := range g.dbWrites {
		dm = append(dm, m)
	}
	sort.Strings(dm)
	var dms []string
	for _, m := range dm {
		dms = append(dms, fmt.Sprintf("(%q, %q)", m, g.dbWrites[m]))
	}
	sb.WriteString("/-- methods of db.DB (pkg/db/db.go) that call a mutating pebble method: (method, pebbleMethod:writeOption) -/\ndef dbWriteMethods : List (String × String) := [" + strings.Join(dms, ", ") + "]\n\n")
	var bm []string
	for m := range g.batchOps {
		bm = append(bm, m)
	}
	sort.Strings(bm)
	var bms []string
	for _, m := range bm {
		var qs []string
		for _, c := range g.batchOps[m] {
			qs = append(qs, fmt.Sprintf("%q", c))
		}
		bms = append(bms, fmt.Sprintf("(%q, [%s])", m, strings.Join(qs, ", ")))
	}
	sb.WriteString("/-- methods of db.Batch (pkg/db) and the pebble.Batch methods (or own methods, `self.`) each calls -/\ndef batchMethods : List (String × List String) := [" + strings.Join(bms, ", ") + "]\n\n")
	if cur.tables {
		// leaves (actions and calls) of every skeleton in order, each with the table it addresses
		var rows []string
		for _, f := range fns {
			if !f.emit {
				continue
			}
			var ls []string
			var walk func(s *stmt)
			walk = func(s *stmt) {
				switch s.kind {
				case "act":
					ls = append(ls, fmt.Sprintf("(%q, %q)", leafName(s), s.tag))
				case "call":
					ls = append(ls, fmt.Sprintf("(%q, %q)", leafName(s), s.tag))
				}
				for _, k := range s.kids {
					walk(k)
				}
			}
			walk(f.pruned)
			rows = append(rows, fmt.Sprintf("  (%q, [%s])", f.qkey(), strings.Join(ls, ", ")))
		}
		sb.WriteString("/-- the leaves (actions, calls) of every skeleton in program order, each with the table it addresses: the first\n    component of the key expression of a Set / Del, the database of a NewBatch / Write, the constructor (with its\n    prefix argument) of the view a call stages through -/\ndef tables : List (String × List (String × String)) := [\n" + strings.Join(rows, ",\n") + "\n]\n\n")
		var sums []string
		for _, f := range fns {
			if f.emit && f.summary != nil {
				sums = append(sums, fmt.Sprintf("(%q, %s)", f.qkey(), strList(f.summary)))
			}
		}
		sb.WriteString("/-- functions emitted as a checked summary, with the family each one stands for -/\ndef summaries : List (String × List String) := [" + strings.Join(sums, ", ") + "]\n\n")
	}
	sb.WriteString("end " + cur.namespace + "\n")
	if out == "" {
		fmt.Print(sb.String())
		return nil
	}
	return os.WriteFile(out, []byte(sb.String()), 0o644)
}
