// delarggen: go/ast fact extractor for "the guard tests one thing, the operation acts on another" (tie A, property
// C04, seeded change C04-16).
//
// Executer.deleteBlock(ctx, deletingBlock, saveTemp) uses its block argument in several roles: the finalized guard
// compares its height with the stored finalized height; the previous header, the revert request to the application,
// the state-diff key (read, reverted, deleted) and the delete event are derived from it; Chain.RemoveBlock takes no
// block and removes the tip. The C04 theorems are about `deleteTip` - "the argument IS the tip". This tool
// regenerates, from the production source (test files and files with a `verif` build constraint are skipped):
//
//   - facts: for the function `Executer.deleteBlock`, in source order, every `if` condition and every call with
//     its arguments, and for each the BLOCK ROOTS of the expressions involved: which block values the expression is
//     derived from, following local variables through their definitions (`x := e`, `x, err := e`) - the block
//     parameter (`deletingBlock`) and / or a read of the current tip (`<recv>.chain.LastBlock()`,
//     `CachedLastBlock()`). A condition that involves the result of `GetFinalizedHeight()` is a `guard`; a condition
//     with an error exit whose roots contain BOTH the parameter and a tip read is a `tipcheck` (the function checks
//     that the argument is the tip);
//   - callers: every call of `deleteBlock` and of the synchronisers' callback field `reverter` (to which
//     `Executer.Init` hands `c.deleteBlock`: Gen/SingleWriter.lean) in pkg/consensus and pkg/consensus/sync with the
//     argument expressions, the definition of the block argument when it is a local variable, the calls made
//     between that definition and the call site (anything there could move the tip) and the number of loops that
//     enclose the call site but not the definition (a value read once and passed repeatedly).
//
// Everything is emitted verbatim; Props/C04_Stale.lean states the obligations (`decide` on the tables).
package main

import (
	"bytes"
	"flag"
	"fmt"
	"go/ast"
	"go/parser"
	"go/printer"
	"go/token"
	"os"
	"path/filepath"
	"sort"
	"strconv"
	"strings"
)

var fset = token.NewFileSet()

const (
	targetRecv = "Executer"
	targetFn   = "deleteBlock"
)

var callerNames = map[string]bool{"deleteBlock": true, "reverter": true}

var tipReads = map[string]bool{"LastBlock": true, "CachedLastBlock": true}

func src(n ast.Node) string {
	if n == nil {
		return ""
	}
	var b bytes.Buffer
	printer.Fprint(&b, fset, n)
	return strings.Join(strings.Fields(b.String()), " ")
}

func lstr(s string) string { return strconv.Quote(s) }

func lstrs(xs []string) string {
	q := make([]string, len(xs))
	for i, x := range xs {
		q[i] = lstr(x)
	}
	return "[" + strings.Join(q, ", ") + "]"
}

func lastName(e ast.Expr) string {
	switch x := e.(type) {
	case *ast.Ident:
		return x.Name
	case *ast.SelectorExpr:
		return x.Sel.Name
	case *ast.ParenExpr:
		return lastName(x.X)
	}
	return ""
}

func verifOnly(f *ast.File) bool {
	for _, cg := range f.Comments {
		if cg.Pos() > f.Package {
			break
		}
		for _, c := range cg.List {
			t := strings.TrimSpace(c.Text)
			if (strings.HasPrefix(t, "//go:build") || strings.HasPrefix(t, "// +build")) && strings.Contains(t, "verif") {
				return true
			}
		}
	}
	return false
}

// ---- definitions of local variables ------------------------------------------------------------------------------

type def struct {
	pos token.Pos // end of the defining statement
	rhs ast.Expr
}

// defsOf collects, per local name, the assignments `name := rhs` / `name = rhs` / `name, x := rhs` of a function body
func defsOf(body *ast.BlockStmt) map[string][]def {
	m := map[string][]def{}
	ast.Inspect(body, func(n ast.Node) bool {
		if c, ok := n.(*ast.CallExpr); ok {
			// `x.Decode(bytes)` fills the local value x from its argument
			if sel, ok := c.Fun.(*ast.SelectorExpr); ok && sel.Sel.Name == "Decode" && len(c.Args) == 1 {
				if id, ok := sel.X.(*ast.Ident); ok {
					m[id.Name] = append(m[id.Name], def{c.End(), c.Args[0]})
				}
			}
			return true
		}
		as, ok := n.(*ast.AssignStmt)
		if !ok {
			return true
		}
		for i, l := range as.Lhs {
			id, ok := l.(*ast.Ident)
			if !ok || id.Name == "_" {
				continue
			}
			var rhs ast.Expr
			if len(as.Lhs) == len(as.Rhs) {
				rhs = as.Rhs[i]
			} else if len(as.Rhs) == 1 {
				rhs = as.Rhs[0]
			}
			if rhs != nil {
				m[id.Name] = append(m[id.Name], def{as.End(), rhs})
			}
		}
		return true
	})
	return m
}

// nearest definition of name before pos
func nearest(defs map[string][]def, name string, pos token.Pos) *def {
	var best *def
	for i := range defs[name] {
		d := &defs[name][i]
		if d.pos <= pos && (best == nil || d.pos > best.pos) {
			best = d
		}
	}
	return best
}

type rootCtx struct {
	defs       map[string][]def
	blockParam string
	params     map[string]bool
}

// roots returns the leaves an expression is derived from: "param:<name>", "tip:<expr>", "finalized"
func (rc *rootCtx) roots(e ast.Node, pos token.Pos, depth int, out map[string]bool) {
	if e == nil || depth > 12 {
		return
	}
	ast.Inspect(e, func(n ast.Node) bool {
		switch x := n.(type) {
		case *ast.FuncLit:
			return false
		case *ast.CallExpr:
			name := lastName(x.Fun)
			if tipReads[name] && len(x.Args) == 0 {
				out["tip:"+src(x)] = true
				return false
			}
			if name == "GetFinalizedHeight" {
				out["finalized"] = true
				return false
			}
			return true
		case *ast.SelectorExpr:
			// only the operand can be a local value
			rc.roots(x.X, pos, depth, out)
			return false
		case *ast.KeyValueExpr:
			rc.roots(x.Value, pos, depth, out)
			return false
		case *ast.Ident:
			if rc.params[x.Name] {
				out["param:"+x.Name] = true
				return false
			}
			if d := nearest(rc.defs, x.Name, x.Pos()); d != nil {
				rc.roots(d.rhs, d.pos, depth+1, out)
			}
			return false
		}
		return true
	})
}

func (rc *rootCtx) blockRoots(nodes ...ast.Node) (blocks []string, finalized bool) {
	out := map[string]bool{}
	for _, n := range nodes {
		if n != nil {
			rc.roots(n, n.Pos(), 0, out)
		}
	}
	for k := range out {
		switch {
		case k == "param:"+rc.blockParam:
			blocks = append(blocks, rc.blockParam)
		case strings.HasPrefix(k, "tip:"):
			blocks = append(blocks, k[4:])
		case k == "finalized":
			finalized = true
		}
	}
	sort.Strings(blocks)
	return
}

// ---- facts of the target function --------------------------------------------------------------------------------

type fact struct {
	kind, expr string
	args       []string
	roots      []string
	errorExit  bool
	line       int
}

func returnsError(b *ast.BlockStmt) bool {
	for _, s := range b.List {
		if r, ok := s.(*ast.ReturnStmt); ok && len(r.Results) > 0 {
			last := r.Results[len(r.Results)-1]
			if id, ok := last.(*ast.Ident); ok && id.Name == "nil" {
				continue
			}
			return true
		}
	}
	return false
}

func factsOf(fd *ast.FuncDecl) (facts []fact, params [][2]string, blockParam string) {
	rc := &rootCtx{defs: defsOf(fd.Body), params: map[string]bool{}}
	for _, f := range fd.Type.Params.List {
		for _, n := range f.Names {
			params = append(params, [2]string{n.Name, src(f.Type)})
			rc.params[n.Name] = true
			if src(f.Type) == "*blockchain.Block" && blockParam == "" {
				blockParam = n.Name
			}
		}
	}
	rc.blockParam = blockParam
	ast.Inspect(fd.Body, func(n ast.Node) bool {
		switch x := n.(type) {
		case *ast.FuncLit:
			return false
		case *ast.IfStmt:
			roots, fin := rc.blockRoots(x.Cond)
			kind := "if"
			exit := returnsError(x.Body)
			hasParam, hasTip := false, false
			for _, r := range roots {
				if r == blockParam {
					hasParam = true
				} else {
					hasTip = true
				}
			}
			switch {
			case src(x.Cond) == "err != nil":
				kind = "errcheck" // the error result of the call just made
			case fin:
				kind = "guard"
			case hasParam && hasTip && exit:
				kind = "tipcheck"
			}
			var args []string
			if be, ok := x.Cond.(*ast.BinaryExpr); ok {
				args = []string{src(be.X), be.Op.String(), src(be.Y)}
			}
			facts = append(facts, fact{kind, src(x.Cond), args, roots, exit, fset.Position(x.Pos()).Line})
		case *ast.CallExpr:
			var nodes []ast.Node
			var args []string
			if sel, ok := x.Fun.(*ast.SelectorExpr); ok {
				nodes = append(nodes, sel.X)
			}
			for _, a := range x.Args {
				nodes = append(nodes, a)
				args = append(args, src(a))
			}
			roots, _ := rc.blockRoots(nodes...)
			facts = append(facts, fact{"call", src(x.Fun), args, roots, false, fset.Position(x.Pos()).Line})
		}
		return true
	})
	return
}

// ---- callers -----------------------------------------------------------------------------------------------------

type caller struct {
	pkg, fn, callee       string
	args                  []string
	blockArg, blockArgDef string
	between               []string
	loops                 int // loops that enclose the call site but not the definition of the block argument
}

func callersOf(pkg, fn string, fd *ast.FuncDecl) []caller {
	defs := defsOf(fd.Body)
	var calls []*ast.CallExpr
	var loops []ast.Node
	ast.Inspect(fd.Body, func(n ast.Node) bool {
		switch x := n.(type) {
		case *ast.CallExpr:
			calls = append(calls, x)
		case *ast.ForStmt, *ast.RangeStmt:
			loops = append(loops, x)
		}
		return true
	})
	var out []caller
	for _, c := range calls {
		if !callerNames[lastName(c.Fun)] {
			continue
		}
		cl := caller{pkg: pkg, fn: fn, callee: src(c.Fun), between: []string{}}
		for _, a := range c.Args {
			cl.args = append(cl.args, src(a))
		}
		if len(c.Args) >= 2 {
			cl.blockArg = src(c.Args[1])
			cl.blockArgDef = cl.blockArg
			if id, ok := c.Args[1].(*ast.Ident); ok {
				if d := nearest(defs, id.Name, c.Pos()); d != nil {
					cl.blockArgDef = src(d.rhs)
					for _, o := range calls {
						if o.Pos() >= d.pos && o.End() <= c.Pos() {
							cl.between = append(cl.between, src(o.Fun))
						}
					}
					for _, l := range loops {
						if l.Pos() <= c.Pos() && c.End() <= l.End() && !(l.Pos() <= d.pos && d.pos <= l.End()) {
							cl.loops++
						}
					}
				}
			}
		}
		out = append(out, cl)
	}
	return out
}

func fnName(fd *ast.FuncDecl) (recv, name string) {
	name = fd.Name.Name
	if fd.Recv != nil && len(fd.Recv.List) == 1 {
		rt := fd.Recv.List[0].Type
		if st, ok := rt.(*ast.StarExpr); ok {
			rt = st.X
		}
		recv = src(rt)
	}
	return
}

func main() {
	repo := flag.String("repo", "/repo", "")
	out := flag.String("out", "", "")
	flag.Parse()
	dirs := []struct{ pkg, dir string }{{"consensus", "pkg/consensus"}, {"sync", "pkg/consensus/sync"}}
	var facts []fact
	var params [][2]string
	var blockParam, targetFile string
	var callers []caller
	targets := 0
	for _, d := range dirs {
		files, err := filepath.Glob(filepath.Join(*repo, d.dir, "*.go"))
		if err != nil || len(files) == 0 {
			fmt.Fprintln(os.Stderr, "delarggen: no files in", d.dir)
			os.Exit(1)
		}
		sort.Strings(files)
		for _, path := range files {
			base := filepath.Base(path)
			if strings.HasSuffix(base, "_test.go") {
				continue
			}
			f, err := parser.ParseFile(fset, path, nil, parser.ParseComments)
			if err != nil {
				fmt.Fprintln(os.Stderr, "delarggen:", err)
				os.Exit(1)
			}
			if verifOnly(f) {
				continue
			}
			for _, decl := range f.Decls {
				fd, ok := decl.(*ast.FuncDecl)
				if !ok || fd.Body == nil {
					continue
				}
				recv, name := fnName(fd)
				full := name
				if recv != "" {
					full = recv + "." + name
				}
				if d.pkg == "consensus" && recv == targetRecv && name == targetFn {
					targets++
					facts, params, blockParam = factsOf(fd)
					targetFile = d.dir + "/" + base
				}
				callers = append(callers, callersOf(d.pkg, full, fd)...)
			}
		}
	}
	if targets != 1 {
		fmt.Fprintf(os.Stderr, "delarggen: %d declarations of %s.%s\n", targets, targetRecv, targetFn)
		os.Exit(1)
	}
	var b strings.Builder
	b.WriteString("/- GENERATED by tools/delarggen from /repo — do not edit. Regenerated on every check run.\n")
	b.WriteString("   Roles of the block argument of Executer.deleteBlock (finalized guard, reads derived from it, tip reads) and\n")
	b.WriteString("   the call sites of deleteBlock / the synchronisers' `reverter` with the expression passed as the block. -/\n\n")
	b.WriteString("namespace LiskVerif.Gen.DeleteArg\n\n")
	b.WriteString("structure Fact where\n  seq : Nat\n  kind : String\n  expr : String\n  args : List String\n  blockRoots : List String\n  errorExit : Bool\nderiving Repr, DecidableEq\n\n")
	b.WriteString("structure Caller where\n  pkg : String\n  fn : String\n  callee : String\n  args : List String\n  blockArg : String\n  blockArgDef : String\n  between : List String\n  loops : Nat\nderiving Repr, DecidableEq\n\n")
	fmt.Fprintf(&b, "/-- the function the facts are about -/\ndef target : String × String := (%s, %s)\n\n", lstr(targetFile), lstr(targetRecv+"."+targetFn))
	b.WriteString("/-- its parameters (name, type) -/\ndef params : List (String × String) := [")
	for i, p := range params {
		if i > 0 {
			b.WriteString(", ")
		}
		fmt.Fprintf(&b, "(%s, %s)", lstr(p[0]), lstr(p[1]))
	}
	b.WriteString("]\n\n")
	fmt.Fprintf(&b, "/-- the parameter of type `*blockchain.Block` -/\ndef blockParam : String := %s\n\n", lstr(blockParam))
	b.WriteString("/-- `if` conditions (kind `errcheck`: `err != nil`; `guard`: involves GetFinalizedHeight(); `tipcheck`: error exit,\ninvolves the block parameter AND a tip read; `if`: any other) and calls of the function, in source order; `blockRoots`: the block values\n(block parameter, tip reads) the expression is derived from through local definitions -/\ndef facts : List Fact := [\n")
	for i, f := range facts {
		sep := ","
		if i == len(facts)-1 {
			sep = ""
		}
		fmt.Fprintf(&b, "  ⟨%d, %s, %s, %s, %s, %v⟩%s  -- line %d\n", i, lstr(f.kind), lstr(f.expr), lstrs(f.args), lstrs(f.roots), f.errorExit, sep, f.line)
	}
	b.WriteString("]\n\n")
	b.WriteString("/-- calls of `deleteBlock` / `reverter` in pkg/consensus and pkg/consensus/sync: `blockArg` = second argument,\n`blockArgDef` = its defining expression when it is a local variable, `between` = calls between that definition and\nthe call site, `loops` = number of loops that enclose the call site but not that definition (the call is repeated\nwith a value read once) -/\ndef callers : List Caller := [\n")
	for i, c := range callers {
		sep := ","
		if i == len(callers)-1 {
			sep = ""
		}
		fmt.Fprintf(&b, "  ⟨%s, %s, %s, %s, %s, %s, %s, %d⟩%s\n", lstr(c.pkg), lstr(c.fn), lstr(c.callee), lstrs(c.args), lstr(c.blockArg), lstr(c.blockArgDef), lstrs(c.between), c.loops, sep)
	}
	b.WriteString("]\n\nend LiskVerif.Gen.DeleteArg\n")
	tmp := *out + ".tmp"
	if err := os.WriteFile(tmp, []byte(b.String()), 0o644); err != nil {
		fmt.Fprintln(os.Stderr, err)
		os.Exit(1)
	}
	if err := os.Rename(tmp, *out); err != nil {
		fmt.Fprintln(os.Stderr, err)
		os.Exit(1)
	}
	fmt.Printf("delarggen: %d facts of %s.%s (block parameter %q), %d callers\n", len(facts), targetRecv, targetFn, blockParam, len(callers))
}
