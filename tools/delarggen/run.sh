#!/bin/sh
# regenerate lean/LiskVerif/Gen/DeleteArg.lean (roles of the argument of Executer.deleteBlock: finalized guard, reads, event; call sites with the argument expression) from /repo
set -e
cd "$(dirname "$0")"
export GOFLAGS=-mod=mod GOPROXY=off GOSUMDB=off GOTOOLCHAIN=local
mkdir -p ../../.build ../../lean/LiskVerif/Gen
go build -o ../../.build/delarggen .
../../.build/delarggen -repo "${VERIF_REPO:-/repo}" -out ../../lean/LiskVerif/Gen/DeleteArg.lean
