module delarggen

go 1.21
