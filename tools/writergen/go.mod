module writergen

go 1.21
