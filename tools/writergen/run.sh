#!/bin/sh
# regenerate lean/LiskVerif/Gen/SingleWriter.lean (call sites of the block-applying functions, process queue operations) from /repo
set -e
cd "$(dirname "$0")"
export GOFLAGS=-mod=mod GOPROXY=off GOSUMDB=off GOTOOLCHAIN=local
mkdir -p ../../.build ../../lean/LiskVerif/Gen
go build -o ../../.build/writergen .
../../.build/writergen -repo "${VERIF_REPO:-/repo}" -out ../../lean/LiskVerif/Gen/SingleWriter.lean
