// writergen: go/ast fact extractor for the single-writer assumption of the consensus path (tie A, property C04).
//
// Executer.process / processValidated / deleteBlock read the stored finalized height and the BFT heights, call the
// application and then write block + finalized height with Chain.AddBlock / Chain.RemoveBlock. They take no lock:
// they are written for ONE goroutine, the Start loop. This tool lists, from the production source of pkg/consensus
// and pkg/consensus/sync (test files and files with a `verif` build constraint are skipped):
//
//   - sites: every occurrence (call, value reference, store) of a *tracked name* with the enclosing top-level
//     function and its lexical context ("go", "defer", "funclit", loops, `select <comm>` / `select default`, ifs).
//     Tracked names start with the writers (process, processValidated, deleteBlock, processGenesisBlock, AddBlock,
//     RemoveBlock, PrepareCache, ClearTempBlocks) and the synchronisers' callback fields (processor, reverter) and
//     are closed under "a function that contains a site is tracked by its bare name", stopping at the declared
//     roots (Executer.Start, Executer.Init). Names are compared syntactically (last identifier), which
//     over-approximates: a same-named method of another type is listed too.
//   - closure: the functions that contain at least one site (the functions from which a writer is reachable
//     inside the two packages), in source order.
//   - queueOps: every operation on the process queue `processCh` (make with its capacity, send, receive, any other
//     reference), with the enclosing function, context and whether it cannot block (clause of a select that has a
//     default clause).
//   - enqueuerCalls: every call made by the functions that hand blocks to the loop from other goroutines
//     (Executer.AddInternal, Executer.onBlockReceived), in source order with context.
//   - engineCalls: every call on `consensusExec` in pkg/engine/engine.go with its position (Init before the one
//     `go … Start`).
//
// Anything unexpected is still emitted verbatim; the Lean side (Props/C04_SingleWriter.lean) states the expected
// tables, so a new direct call breaks a named theorem.
package main

import (
	"bytes"
	"flag"
	"fmt"
	"go/ast"
	"go/parser"
	"go/printer"
	"go/token"
	"os"
	"path/filepath"
	"sort"
	"strconv"
	"strings"
)

var fset = token.NewFileSet()

var seedNames = []string{"process", "processValidated", "deleteBlock", "processGenesisBlock", "AddBlock", "RemoveBlock",
	"PrepareCache", "ClearTempBlocks", "processor", "reverter"}

var roots = map[string]bool{"consensus:Executer.Start": true, "consensus:Executer.Init": true}

var enqueuers = map[string]bool{"consensus:Executer.AddInternal": true, "consensus:Executer.onBlockReceived": true}

const queueName = "processCh"

func src(n ast.Node) string {
	if n == nil {
		return ""
	}
	var b bytes.Buffer
	printer.Fprint(&b, fset, n)
	return strings.Join(strings.Fields(b.String()), " ")
}

func short(n ast.Expr) string {
	if _, ok := n.(*ast.FuncLit); ok {
		return "funclit"
	}
	return src(n)
}

func lstr(s string) string { return strconv.Quote(s) }

func lstrs(xs []string) string {
	q := make([]string, len(xs))
	for i, x := range xs {
		q[i] = lstr(x)
	}
	return "[" + strings.Join(q, ", ") + "]"
}

type site struct {
	pkg, fn, name, expr, kind, of string
	ctx                           []string
}

type queueOp struct {
	pkg, fn, op, detail string
	capacity            int64 // -1 unknown / not applicable
	nonBlocking         bool
	ctx                 []string
}

type callFact struct {
	pkg, fn, callee, name string
	seq                   int
	ctx                   []string
}

var (
	raw      []site // every call / value / store of every identifier (filtered by the closure afterwards)
	queueOps []queueOp
	allCalls []callFact
)

type walker struct {
	pkg, fn string
	seq     int
	// nonBlocking is true while walking the comm statement / body of a clause of a select with a default clause
	nonBlocking bool
}

func cp(ctx []string, more ...string) []string { return append(append([]string{}, ctx...), more...) }

func lastName(e ast.Expr) (string, bool) {
	switch x := e.(type) {
	case *ast.Ident:
		return x.Name, true
	case *ast.SelectorExpr:
		return x.Sel.Name, true
	case *ast.ParenExpr:
		return lastName(x.X)
	}
	return "", false
}

func (w *walker) rec(name, expr, kind, of string, ctx []string) {
	raw = append(raw, site{w.pkg, w.fn, name, expr, kind, of, cp(ctx)})
}

// expr walks an expression in value position; `of` describes what the value is used for
func (w *walker) expr(e ast.Node, ctx []string, of string) {
	if e == nil {
		return
	}
	ast.Inspect(e, func(n ast.Node) bool {
		switch x := n.(type) {
		case *ast.FuncLit:
			w.block(x.Body, cp(ctx, "funclit"))
			return false
		case *ast.CallExpr:
			callee := short(x.Fun)
			cname, ok := lastName(x.Fun)
			if ok {
				w.rec(cname, callee, "call", "", ctx)
			}
			allCalls = append(allCalls, callFact{w.pkg, w.fn, callee, cname, w.seq, cp(ctx)})
			w.seq++
			// the receiver part of the callee is a value
			switch f := x.Fun.(type) {
			case *ast.SelectorExpr:
				w.expr(f.X, ctx, "receiver of "+callee)
			case *ast.Ident:
			default:
				w.expr(x.Fun, ctx, "callee")
			}
			for _, a := range x.Args {
				if name, ok := lastName(a); ok && name == queueName {
					op := "ref"
					if id, ok := x.Fun.(*ast.Ident); ok && (id.Name == "len" || id.Name == "cap" || id.Name == "close") {
						op = id.Name
					}
					queueOps = append(queueOps, queueOp{w.pkg, w.fn, op, callee + "(" + src(a) + ")", -1, false, cp(ctx)})
				}
				w.expr(a, ctx, "arg of "+callee)
			}
			return false
		case *ast.UnaryExpr:
			if x.Op == token.ARROW {
				if name, ok := lastName(x.X); ok && name == queueName {
					queueOps = append(queueOps, queueOp{w.pkg, w.fn, "recv", src(x), -1, w.nonBlocking, cp(ctx)})
					return false
				}
			}
			return true
		case *ast.CompositeLit:
			typ := src(x.Type)
			for _, el := range x.Elts {
				if kv, ok := el.(*ast.KeyValueExpr); ok {
					key := src(kv.Key)
					if key == queueName {
						queueOps = append(queueOps, queueOp{w.pkg, w.fn, "make", src(kv.Value), chanCap(kv.Value), false, cp(ctx)})
					}
					w.expr(kv.Value, ctx, "field "+typ+"."+key)
				} else {
					w.expr(el, ctx, "element of "+typ)
				}
			}
			return false
		case *ast.SelectorExpr:
			w.rec(x.Sel.Name, src(x), "value", of, ctx)
			if x.Sel.Name == queueName && !strings.HasPrefix(of, "arg of ") {
				queueOps = append(queueOps, queueOp{w.pkg, w.fn, "ref", of, -1, false, cp(ctx)})
			}
			w.expr(x.X, ctx, "")
			return false
		case *ast.Ident:
			w.rec(x.Name, x.Name, "value", of, ctx)
			return false
		}
		return true
	})
}

// chanCap returns N of `make(chan T, N)` (0 for an unbuffered make), -1 otherwise
func chanCap(e ast.Expr) int64 {
	c, ok := e.(*ast.CallExpr)
	if !ok {
		return -1
	}
	if id, ok := c.Fun.(*ast.Ident); !ok || id.Name != "make" || len(c.Args) == 0 {
		return -1
	}
	if _, ok := c.Args[0].(*ast.ChanType); !ok {
		return -1
	}
	if len(c.Args) == 1 {
		return 0
	}
	if bl, ok := c.Args[1].(*ast.BasicLit); ok && bl.Kind == token.INT {
		if v, err := strconv.ParseInt(bl.Value, 0, 64); err == nil {
			return v
		}
	}
	return -1
}

func (w *walker) block(b *ast.BlockStmt, ctx []string) {
	if b == nil {
		return
	}
	for _, s := range b.List {
		w.stmt(s, ctx)
	}
}

func (w *walker) store(l ast.Expr, ctx []string, rhs string) {
	if name, ok := lastName(l); ok {
		w.rec(name, src(l), "store", rhs, ctx)
		if name == queueName {
			queueOps = append(queueOps, queueOp{w.pkg, w.fn, "store", rhs, -1, false, cp(ctx)})
		}
		if sel, ok := l.(*ast.SelectorExpr); ok {
			w.expr(sel.X, ctx, "")
		}
		return
	}
	w.expr(l, ctx, "")
}

func (w *walker) stmt(s ast.Stmt, ctx []string) {
	switch x := s.(type) {
	case nil:
	case *ast.BlockStmt:
		w.block(x, ctx)
	case *ast.GoStmt:
		w.expr(x.Call, cp(ctx, "go"), "")
	case *ast.DeferStmt:
		w.expr(x.Call, cp(ctx, "defer"), "")
	case *ast.IfStmt:
		w.stmt(x.Init, ctx)
		w.expr(x.Cond, ctx, "")
		w.block(x.Body, cp(ctx, "if "+src(x.Cond)))
		if x.Else != nil {
			w.stmt(x.Else, cp(ctx, "else "+src(x.Cond)))
		}
	case *ast.ForStmt:
		w.stmt(x.Init, ctx)
		w.expr(x.Cond, ctx, "")
		w.stmt(x.Post, ctx)
		w.block(x.Body, cp(ctx, "for "+src(x.Cond)))
	case *ast.RangeStmt:
		w.expr(x.X, ctx, "range")
		w.block(x.Body, cp(ctx, "range "+src(x.X)))
	case *ast.SelectStmt:
		hasDefault := false
		for _, c := range x.Body.List {
			if c.(*ast.CommClause).Comm == nil {
				hasDefault = true
			}
		}
		for _, c := range x.Body.List {
			cc := c.(*ast.CommClause)
			nctx := cp(ctx, "select default")
			if cc.Comm != nil {
				nctx = cp(ctx, "select "+src(cc.Comm))
			}
			old := w.nonBlocking
			w.nonBlocking = hasDefault
			w.stmt(cc.Comm, nctx)
			w.nonBlocking = old
			for _, b := range cc.Body {
				w.stmt(b, nctx)
			}
		}
	case *ast.SwitchStmt:
		w.stmt(x.Init, ctx)
		w.expr(x.Tag, ctx, "")
		for _, c := range x.Body.List {
			cc := c.(*ast.CaseClause)
			for _, e := range cc.List {
				w.expr(e, ctx, "")
			}
			for _, b := range cc.Body {
				w.stmt(b, cp(ctx, "case"))
			}
		}
	case *ast.TypeSwitchStmt:
		w.stmt(x.Init, ctx)
		w.stmt(x.Assign, ctx)
		for _, c := range x.Body.List {
			cc := c.(*ast.CaseClause)
			for _, b := range cc.Body {
				w.stmt(b, cp(ctx, "case"))
			}
		}
	case *ast.AssignStmt:
		for i, l := range x.Lhs {
			rhs := ""
			if len(x.Lhs) == len(x.Rhs) {
				rhs = short(x.Rhs[i])
			}
			if x.Tok == token.DEFINE {
				continue // new local names
			}
			w.store(l, ctx, rhs)
		}
		for i, r := range x.Rhs {
			of := "assign"
			if len(x.Lhs) == len(x.Rhs) {
				of = "assign " + src(x.Lhs[i])
			}
			w.expr(r, ctx, of)
		}
	case *ast.ReturnStmt:
		for _, r := range x.Results {
			w.expr(r, ctx, "return")
		}
	case *ast.ExprStmt:
		w.expr(x.X, ctx, "")
	case *ast.DeclStmt:
		w.expr(x.Decl, ctx, "decl")
	case *ast.SendStmt:
		if name, ok := lastName(x.Chan); ok && name == queueName {
			queueOps = append(queueOps, queueOp{w.pkg, w.fn, "send", src(x), -1, w.nonBlocking, cp(ctx)})
			if sel, ok := x.Chan.(*ast.SelectorExpr); ok {
				w.expr(sel.X, ctx, "")
			}
		} else {
			w.expr(x.Chan, ctx, "send channel")
		}
		w.expr(x.Value, ctx, "send value")
	case *ast.LabeledStmt:
		w.stmt(x.Stmt, ctx)
	case *ast.IncDecStmt:
		w.expr(x.X, ctx, "")
	case *ast.BranchStmt, *ast.EmptyStmt:
	default:
		w.expr(s, ctx, "")
	}
}

// verifOnly reports whether the file carries a build constraint mentioning the tag `verif`
func verifOnly(f *ast.File) bool {
	for _, cg := range f.Comments {
		if cg.Pos() > f.Package {
			break
		}
		for _, c := range cg.List {
			t := strings.TrimSpace(c.Text)
			if (strings.HasPrefix(t, "//go:build") || strings.HasPrefix(t, "// +build")) && strings.Contains(t, "verif") {
				return true
			}
		}
	}
	return false
}

type fnInfo struct {
	pkg, name, bare string
	order           int
}

func main() {
	repo := flag.String("repo", "/repo", "")
	out := flag.String("out", "", "")
	flag.Parse()
	dirs := []struct{ pkg, dir string }{{"consensus", "pkg/consensus"}, {"sync", "pkg/consensus/sync"}}
	var fns []fnInfo
	var skipped, scanned []string
	for _, d := range dirs {
		files, err := filepath.Glob(filepath.Join(*repo, d.dir, "*.go"))
		if err != nil || len(files) == 0 {
			fmt.Fprintln(os.Stderr, "writergen: no files in", d.dir)
			os.Exit(1)
		}
		sort.Strings(files)
		for _, path := range files {
			base := filepath.Base(path)
			if strings.HasSuffix(base, "_test.go") {
				continue
			}
			f, err := parser.ParseFile(fset, path, nil, parser.ParseComments)
			if err != nil {
				fmt.Fprintln(os.Stderr, "writergen:", err)
				os.Exit(1)
			}
			if verifOnly(f) {
				skipped = append(skipped, d.dir+"/"+base)
				continue
			}
			scanned = append(scanned, d.dir+"/"+base)
			for _, decl := range f.Decls {
				fd, ok := decl.(*ast.FuncDecl)
				if !ok || fd.Body == nil {
					continue
				}
				name := fd.Name.Name
				if fd.Recv != nil && len(fd.Recv.List) == 1 {
					rt := fd.Recv.List[0].Type
					if st, ok := rt.(*ast.StarExpr); ok {
						rt = st.X
					}
					name = src(rt) + "." + name
				}
				fns = append(fns, fnInfo{d.pkg, name, fd.Name.Name, len(fns)})
				w := &walker{pkg: d.pkg, fn: name}
				w.block(fd.Body, nil)
			}
		}
	}
	// package level variable initialisers may hold function values too
	// (none today; a tracked name used there is reported with fn = "<package>")

	// closure of the tracked names
	tracked := map[string]bool{}
	for _, n := range seedNames {
		tracked[n] = true
	}
	bare := map[string]string{}
	for _, f := range fns {
		bare[f.pkg+":"+f.name] = f.bare
	}
	for changed := true; changed; {
		changed = false
		for _, s := range raw {
			if !tracked[s.name] {
				continue
			}
			q := s.pkg + ":" + s.fn
			if roots[q] {
				continue
			}
			if b := bare[q]; b != "" && !tracked[b] {
				tracked[b] = true
				changed = true
			}
		}
	}
	var sites []site
	inClosure := map[string]bool{}
	for _, s := range raw {
		if tracked[s.name] {
			sites = append(sites, s)
			inClosure[s.pkg+":"+s.fn] = true
		}
	}
	var names []string
	for n := range tracked {
		names = append(names, n)
	}
	sort.Strings(names)

	// loop starts in the engine
	var starts []callFact
	{
		save := allCalls
		allCalls = nil
		path := filepath.Join(*repo, "pkg/engine/engine.go")
		f, err := parser.ParseFile(fset, path, nil, 0)
		if err != nil {
			fmt.Fprintln(os.Stderr, "writergen:", err)
			os.Exit(1)
		}
		saveRaw, saveQ := raw, queueOps
		for _, decl := range f.Decls {
			fd, ok := decl.(*ast.FuncDecl)
			if !ok || fd.Body == nil {
				continue
			}
			name := fd.Name.Name
			if fd.Recv != nil && len(fd.Recv.List) == 1 {
				rt := fd.Recv.List[0].Type
				if st, ok := rt.(*ast.StarExpr); ok {
					rt = st.X
				}
				name = src(rt) + "." + name
			}
			w := &walker{pkg: "engine", fn: name}
			w.block(fd.Body, nil)
		}
		for _, c := range allCalls {
			if strings.Contains(c.callee, "consensusExec.") {
				starts = append(starts, c)
			}
		}
		raw, queueOps = saveRaw, saveQ
		allCalls = save
	}

	var b strings.Builder
	b.WriteString("/- GENERATED by tools/writergen from /repo — do not edit. Regenerated on every check run.\n")
	b.WriteString("   Single-writer facts of the consensus path: every site of the block-applying / block-deleting functions and of\n")
	b.WriteString("   the functions from which they are reachable inside pkg/consensus and pkg/consensus/sync, every operation on the\n")
	b.WriteString("   process queue, the calls of the enqueuing functions, the start of the loop. -/\n\n")
	b.WriteString("namespace LiskVerif.Gen.SingleWriter\n\n")
	b.WriteString("structure Site where\n  pkg : String\n  fn : String\n  name : String\n  expr : String\n  kind : String\n  of : String\n  ctx : List String\nderiving Repr, DecidableEq\n\n")
	b.WriteString("structure QueueOp where\n  pkg : String\n  fn : String\n  op : String\n  detail : String\n  capacity : Option Nat\n  nonBlocking : Bool\n  ctx : List String\nderiving Repr, DecidableEq\n\n")
	b.WriteString("structure Call where\n  fn : String\n  seq : Nat\n  callee : String\n  name : String\n  ctx : List String\nderiving Repr, DecidableEq\n\n")
	fmt.Fprintf(&b, "/-- production files scanned -/\ndef scanned : List String := %s\n\n", lstrs(scanned))
	fmt.Fprintf(&b, "/-- files skipped because of a `verif` build constraint (verification hooks, not part of a production build) -/\ndef skippedVerif : List String := %s\n\n", lstrs(skipped))
	fmt.Fprintf(&b, "/-- the tracked names (writers, callback fields and the bare names of the functions reaching them) -/\ndef tracked : List String := %s\n\n", lstrs(names))
	b.WriteString("def sites : List Site := [\n")
	for i, s := range sites {
		sep := ","
		if i == len(sites)-1 {
			sep = ""
		}
		fmt.Fprintf(&b, "  ⟨%s, %s, %s, %s, %s, %s, %s⟩%s\n", lstr(s.pkg), lstr(s.fn), lstr(s.name), lstr(s.expr), lstr(s.kind), lstr(s.of), lstrs(s.ctx), sep)
	}
	b.WriteString("]\n\n")
	b.WriteString("/-- functions containing at least one site, in source order (package, function, bare name) -/\ndef closure : List (String × String × String) := [\n")
	first := true
	for _, f := range fns {
		if inClosure[f.pkg+":"+f.name] {
			if !first {
				b.WriteString(",\n")
			}
			first = false
			fmt.Fprintf(&b, "  (%s, %s, %s)", lstr(f.pkg), lstr(f.name), lstr(f.bare))
		}
	}
	b.WriteString("\n]\n\n")
	b.WriteString("def queueOps : List QueueOp := [\n")
	for i, q := range queueOps {
		sep := ","
		if i == len(queueOps)-1 {
			sep = ""
		}
		c := "none"
		if q.capacity >= 0 {
			c = fmt.Sprintf("some %d", q.capacity)
		}
		fmt.Fprintf(&b, "  ⟨%s, %s, %s, %s, %s, %v, %s⟩%s\n", lstr(q.pkg), lstr(q.fn), lstr(q.op), lstr(q.detail), c, q.nonBlocking, lstrs(q.ctx), sep)
	}
	b.WriteString("]\n\n")
	b.WriteString("def enqueuerCalls : List Call := [\n")
	var ec []callFact
	for _, c := range allCalls {
		if enqueuers[c.pkg+":"+c.fn] {
			ec = append(ec, c)
		}
	}
	for i, c := range ec {
		sep := ","
		if i == len(ec)-1 {
			sep = ""
		}
		fmt.Fprintf(&b, "  ⟨%s, %d, %s, %s, %s⟩%s\n", lstr(c.fn), c.seq, lstr(c.callee), lstr(c.name), lstrs(c.ctx), sep)
	}
	b.WriteString("]\n\n")
	b.WriteString("/-- calls on `consensusExec` in pkg/engine/engine.go, `seq` = position among all calls of the function -/\ndef engineCalls : List Call := [\n")
	for i, s := range starts {
		sep := ","
		if i == len(starts)-1 {
			sep = ""
		}
		fmt.Fprintf(&b, "  ⟨%s, %d, %s, %s, %s⟩%s\n", lstr(s.fn), s.seq, lstr(s.callee), lstr(s.name), lstrs(s.ctx), sep)
	}
	b.WriteString("]\n\nend LiskVerif.Gen.SingleWriter\n")
	tmp := *out + ".tmp"
	if err := os.WriteFile(tmp, []byte(b.String()), 0o644); err != nil {
		fmt.Fprintln(os.Stderr, err)
		os.Exit(1)
	}
	if err := os.Rename(tmp, *out); err != nil {
		fmt.Fprintln(os.Stderr, err)
		os.Exit(1)
	}
	fmt.Printf("writergen: %d sites over %d tracked names, %d functions in the closure, %d queue ops, %d enqueuer calls, %d engine calls\n",
		len(sites), len(names), len(inClosure), len(queueOps), len(ec), len(starts))
}
