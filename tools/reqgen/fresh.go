package main

// C17 freshness facts (Props/C17_Fresh.lean): where the per-request objects of the request / response path of
// pkg/p2p come from. For every function of the path: every assignment, variable declaration, channel send and
// return value, classified by the ORIGIN of the right-hand side (composite literal, make / new, call of a
// package-local constructor whose every return value is itself fresh and which reaches no package-level
// variable, call of an imported function, view into another slice, field read, package-level variable, ...).
// Plus: every mention of sync.Pool in the non-test sources of pkg/p2p, every package-level variable of pkg/p2p
// with its declaration, those reached (transitively) from the request path, and the origin of the slice
// pkg/codec's Reader.readBytes returns (the payload of a decoded message).

import (
	"fmt"
	"go/ast"
	"go/token"
	"path/filepath"
	"sort"
	"strings"
)

// functions of the request / response path whose per-request objects are tabulated
var freshPath = []string{
	"MessageProtocol.onRequest", "MessageProtocol.onResponse", "MessageProtocol.respond", "MessageProtocol.sendRequestMessage",
	"MessageProtocol.send", "MessageProtocol.RequestFrom",
	"newRequestMessage", "newResponseMessage", "NewResponse", "responseWriter.Write", "responseWriter.Error",
}

func typeText(e ast.Expr) string { return src(e) }

// origin classifies the expression e of function fd (depth bounds the recursion into local constructors).
func (p *pkg) origin(file string, fd *ast.FuncDecl, locals map[string]string, e ast.Expr, depth int) string {
	switch x := e.(type) {
	case *ast.ParenExpr:
		return p.origin(file, fd, locals, x.X, depth)
	case *ast.TypeAssertExpr:
		return p.origin(file, fd, locals, x.X, depth)
	case *ast.StarExpr:
		return "deref(" + p.origin(file, fd, locals, x.X, depth) + ")"
	case *ast.UnaryExpr:
		if x.Op == token.AND {
			if cl, ok := x.X.(*ast.CompositeLit); ok {
				return "fresh:&lit:" + typeText(cl.Type)
			}
			return "addr:" + src(x.X)
		}
		return "value"
	case *ast.CompositeLit:
		return "fresh:lit:" + typeText(x.Type)
	case *ast.BasicLit, *ast.BinaryExpr, *ast.FuncLit:
		return "value"
	case *ast.SliceExpr:
		return "view:" + src(x)
	case *ast.IndexExpr:
		return "index:" + src(x.X)
	case *ast.SelectorExpr:
		if id, ok := x.X.(*ast.Ident); ok {
			if path, isImport := p.imports[file][id.Name]; isImport && locals[id.Name] == "" {
				return "imported:" + path + "." + x.Sel.Name
			}
		}
		return "field:" + src(x)
	case *ast.Ident:
		switch r := p.resolve(file, locals, x.Name); r {
		case "pkgvar":
			return "pkgvar:" + x.Name
		case "universe", "pkgconst":
			return "value"
		default:
			return "local:" + x.Name
		}
	case *ast.CallExpr:
		switch f := x.Fun.(type) {
		case *ast.Ident:
			switch {
			case f.Name == "make" || f.Name == "new":
				return "fresh:" + f.Name
			case f.Name == "append" && len(x.Args) > 0:
				return "append(" + p.origin(file, fd, locals, x.Args[0], depth) + ")"
			case universe[f.Name] || p.types[f.Name]:
				if len(x.Args) == 1 {
					return "conv(" + p.origin(file, fd, locals, x.Args[0], depth) + ")"
				}
				return "value"
			}
			if d, ok := p.funcs[f.Name]; ok && locals[f.Name] == "" {
				if depth <= 0 || d.Body == nil {
					return "local-call:" + f.Name
				}
				dl := localsOf(d)
				var rets []string
				ast.Inspect(d.Body, func(n ast.Node) bool {
					if _, ok := n.(*ast.FuncLit); ok {
						return false
					}
					if r, ok := n.(*ast.ReturnStmt); ok {
						for _, re := range r.Results {
							rets = append(rets, p.origin(p.funcIn[f.Name], d, dl, re, depth-1))
						}
					}
					return true
				})
				vars, funcs := map[string]bool{}, map[string]bool{}
				p.reach(p.funcIn[f.Name], d, d.Body, vars, funcs)
				var vl []string
				for v := range vars {
					vl = append(vl, v)
				}
				sort.Strings(vl)
				fresh := len(rets) > 0 && len(vl) == 0
				for _, r := range rets {
					if !strings.HasPrefix(r, "fresh:") {
						fresh = false
					}
				}
				if fresh {
					return "fresh:ctor:" + f.Name
				}
				return "recycled:ctor:" + f.Name + ":returns=" + strings.Join(rets, ",") + ":pkgvars=" + strings.Join(vl, ",")
			}
			return "call:" + f.Name
		case *ast.SelectorExpr:
			if id, ok := f.X.(*ast.Ident); ok {
				if path, isImport := p.imports[file][id.Name]; isImport && locals[id.Name] == "" {
					return "imported-call:" + path + "." + f.Sel.Name
				}
			}
			// method call: rooted in a package-level variable?
			root := ast.Expr(f.X)
			for {
				switch r := root.(type) {
				case *ast.SelectorExpr:
					root = r.X
					continue
				case *ast.CallExpr:
					root = r.Fun
					continue
				case *ast.IndexExpr:
					root = r.X
					continue
				}
				break
			}
			if id, ok := root.(*ast.Ident); ok && p.resolve(file, locals, id.Name) == "pkgvar" {
				return "recycled:pkgvar-method:" + src(f)
			}
			return "method:" + src(f)
		}
		return "call:" + src(x.Fun)
	}
	return "other:" + src(e)
}

// imported calls that are known to return memory nobody else holds
var freshImported = map[string]bool{
	"imported-call:io.ReadAll":                       true,
	"imported-call:errors.New":                       true,
	"imported-call:fmt.Errorf":                       true,
	"imported-call:fmt.Sprintf":                      true,
	"imported-call:context.WithTimeout":              true,
	"imported-call:context.WithCancel":               true,
	"imported-call:github.com/multiformats/go-multiaddr.NewMultiaddr": true,
}

func emitFresh(w func(string, ...interface{}), p *pkg, repo string) {
	type row struct{ fn, lhs, kind, text string }
	var rows []row
	var missing []string
	for _, key := range freshPath {
		fd := p.funcs[key]
		if fd == nil || fd.Body == nil {
			missing = append(missing, key)
			continue
		}
		file := p.funcIn[key]
		locals := localsOf(fd)
		add := func(lhs string, e ast.Expr) {
			rows = append(rows, row{key, lhs, p.origin(file, fd, locals, e, 2), src(e)})
		}
		ast.Inspect(fd.Body, func(n ast.Node) bool {
			switch s := n.(type) {
			case *ast.AssignStmt:
				if len(s.Lhs) == len(s.Rhs) {
					for i := range s.Lhs {
						add(src(s.Lhs[i]), s.Rhs[i])
					}
				} else if len(s.Rhs) == 1 {
					var l []string
					for _, x := range s.Lhs {
						l = append(l, src(x))
					}
					add(strings.Join(l, ","), s.Rhs[0])
				}
			case *ast.ValueSpec:
				for i, v := range s.Values {
					name := "_"
					if i < len(s.Names) {
						name = s.Names[i].Name
					}
					add(name, v)
				}
			case *ast.SendStmt:
				add("send:"+src(s.Chan), s.Value)
			case *ast.ReturnStmt:
				for _, r := range s.Results {
					add("return", r)
				}
			case *ast.DeferStmt:
				rows = append(rows, row{key, "defer", "defer", src(s.Call)})
			}
			return true
		})
	}
	w("\n/-- C17 freshness: every assignment / declaration / channel send / return value / defer of the functions of the request-response\npath: (function, left-hand side, origin of the value, source text) -/\n")
	w("def perRequestObjects : List (String × String × String × String) :=\n  [")
	for i, r := range rows {
		if i > 0 {
			w(",\n   ")
		}
		w("(%s, %s, %s, %s)", q(r.fn), q(r.lhs), q(r.kind), q(r.text))
	}
	w("]\n")
	w("def freshPathMissing : List String := %s\n", qlist(missing))
	// rows whose value is neither freshly allocated, nor a plain value / local / field of a per-request object
	var recycled [][]string
	for _, r := range rows {
		k := r.kind
		bad := strings.HasPrefix(k, "recycled:") || strings.HasPrefix(k, "pkgvar:") || strings.Contains(k, "(pkgvar:") || strings.Contains(k, "(recycled:") ||
			strings.HasPrefix(k, "local-call:") || strings.HasPrefix(k, "other:") || k == "defer" && !strings.Contains(r.text, "Unlock") && !strings.Contains(r.text, "cancel") && !strings.Contains(r.text, "Close")
		if strings.HasPrefix(k, "imported-call:") && !freshImported[k] {
			bad = true
		}
		if strings.HasPrefix(k, "view:") {
			bad = true
		}
		if bad {
			recycled = append(recycled, []string{r.fn, r.lhs, k, r.text})
		}
	}
	w("/-- the rows above whose value is NOT fresh per request: obtained from a package-level variable (a pool), from a local function that\nreaches one or does not return fresh memory, a view into another buffer, an unknown imported call, a deferred hand-back -/\n")
	w("def perRequestRecycled : List (String × String × String × String) :=\n  %s\n", plist(recycled))

	// sync.Pool anywhere in pkg/p2p
	var pools [][]string
	var files []string
	for f := range p.files {
		files = append(files, f)
	}
	sort.Strings(files)
	for _, fn := range files {
		f := p.files[fn]
		syncName := ""
		for local, path := range p.imports[fn] {
			if path == "sync" {
				syncName = local
			}
		}
		for _, d := range f.Decls {
			declName := ""
			switch d := d.(type) {
			case *ast.FuncDecl:
				declName = funcKey(d)
			case *ast.GenDecl:
				for _, s := range d.Specs {
					switch s := s.(type) {
					case *ast.ValueSpec:
						declName = s.Names[0].Name
					case *ast.TypeSpec:
						declName = s.Name.Name
					}
				}
			}
			ast.Inspect(d, func(n ast.Node) bool {
				if s, ok := n.(*ast.SelectorExpr); ok && syncName != "" {
					if id, ok := s.X.(*ast.Ident); ok && id.Name == syncName && s.Sel.Name == "Pool" {
						pools = append(pools, []string{fn, declName})
					}
				}
				return true
			})
		}
	}
	w("/-- every mention of sync.Pool in the non-test sources of pkg/p2p: (file, enclosing declaration) -/\n")
	w("def p2pSyncPools : List (String × String) :=\n  %s\n", plist(pools))

	// package-level variables
	var pv [][]string
	for _, fn := range files {
		for _, d := range p.files[fn].Decls {
			gd, ok := d.(*ast.GenDecl)
			if !ok || gd.Tok != token.VAR {
				continue
			}
			for _, s := range gd.Specs {
				vs := s.(*ast.ValueSpec)
				for i, n := range vs.Names {
					t, v := "", ""
					if vs.Type != nil {
						t = src(vs.Type)
					}
					if i < len(vs.Values) {
						v = src(vs.Values[i])
						if len(v) > 80 {
							v = v[:80] + "..."
						}
					}
					pv = append(pv, []string{fn, n.Name, t, v})
				}
			}
		}
	}
	w("/-- every package-level variable of pkg/p2p: (file, name, type text, initial value text (cut at 80)) -/\n")
	w("def p2pPkgVars : List (String × String × String × String) :=\n  %s\n", plist(pv))
	// those the request path itself mentions (directly in the path functions, or through local constructors it calls by name)
	direct := map[string]bool{}
	for _, key := range freshPath {
		fd := p.funcs[key]
		if fd == nil || fd.Body == nil {
			continue
		}
		locals := localsOf(fd)
		var visit func(file string, d *ast.FuncDecl, locals map[string]string, depth int)
		visit = func(file string, d *ast.FuncDecl, locals map[string]string, depth int) {
			for _, id := range freeIdents(d.Body) {
				switch p.resolve(file, locals, id.Name) {
				case "pkgvar":
					direct[id.Name] = true
				case "pkgfunc":
					if depth > 0 {
						if dd := p.funcs[id.Name]; dd != nil && dd.Body != nil {
							visit(p.funcIn[id.Name], dd, localsOf(dd), depth-1)
						}
					}
				}
			}
		}
		visit(p.funcIn[key], fd, locals, 3)
	}
	var dl []string
	for v := range direct {
		dl = append(dl, v)
	}
	sort.Strings(dl)
	w("/-- package-level variables mentioned by the functions of the request path and by the package-local functions they call by name -/\n")
	w("def reqPathPkgVars : List String := %s\n", qlist(dl))

	// pkg/codec: origin of the slice readBytes returns
	cp, err := loadPkg(filepath.Join(repo, "pkg/codec"), true)
	var cr [][]string
	if err == nil {
		if fd := cp.funcs["Reader.readBytes"]; fd != nil && fd.Body != nil {
			file := cp.funcIn["Reader.readBytes"]
			locals := localsOf(fd)
			ast.Inspect(fd.Body, func(n ast.Node) bool {
				switch s := n.(type) {
				case *ast.AssignStmt:
					if len(s.Lhs) == len(s.Rhs) {
						for i := range s.Lhs {
							cr = append(cr, []string{src(s.Lhs[i]), cp.origin(file, fd, locals, s.Rhs[i], 1), src(s.Rhs[i])})
						}
					} else if len(s.Rhs) == 1 {
						var l []string
						for _, x := range s.Lhs {
							l = append(l, src(x))
						}
						cr = append(cr, []string{strings.Join(l, ","), cp.origin(file, fd, locals, s.Rhs[0], 1), src(s.Rhs[0])})
					}
				case *ast.ReturnStmt:
					for _, r := range s.Results {
						cr = append(cr, []string{"return", cp.origin(file, fd, locals, r, 1), src(r)})
					}
				case *ast.ExprStmt:
					cr = append(cr, []string{"stmt", "stmt", src(s.X)})
				}
				return true
			})
		}
	}
	w("/-- pkg/codec Reader.readBytes (the payload of a decoded message): (left-hand side, origin, source text) of every statement -/\n")
	w("def codecReadBytes : List (String × String × String) :=\n  %s\n", plist(cr))
	_ = fmt.Sprint
}
