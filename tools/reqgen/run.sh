#!/bin/sh
# regenerate lean/LiskVerif/Gen/ReqFacts.lean (C17: how request ids are produced, the uuid module's random source,
# shape of the retry loop request / RequestFrom / Broadcast) from the repository sources.
# VERIF_REPO / VERIF_LEAN override the repository and the Lean project (private copies).
set -e
cd "$(dirname "$0")"
export GOFLAGS=-mod=mod GOPROXY=off GOSUMDB=off GOTOOLCHAIN=local
LEAN="${VERIF_LEAN:-../../lean}"
mkdir -p ../../.build "$LEAN/LiskVerif/Gen"
go build -o ../../.build/reqgen .
../../.build/reqgen -repo "${VERIF_REPO:-/repo}" -out "$LEAN/LiskVerif/Gen/ReqFacts.lean"
