// reqgen: go/ast fact extractor for the request side of the P2P request/response layer (tie A of C17).
//
// The interleaving model of C17 takes two things as given that nothing else ties to the source:
//   (1) request ids are FRESH (never repeated, not even across restarts of the node), and
//   (2) the retry loop `request` ends with a response or an error (the model's `afterAttempt`).
// This tool regenerates, as Lean data (lean/LiskVerif/Gen/ReqFacts.lean):
//   - how the ID field of a new request message is produced: the expression assigned to `ID` in the
//     composite literal returned by newRequestMessage as a call chain (package function / method steps,
//     import paths resolved), every identifier the expression mentions with its resolution (import,
//     parameter, local, package-level var / func / const / type, universe), and - transitively through
//     package-local functions - the package-level VARIABLES and local functions the value depends on
//     (mutable state that restarts with the process);
//   - every site of the package that writes a field named ID, and every use of the request message in
//     sendRequestMessage (the id under which the response channel is registered is the id of the message
//     that is sent, produced by newRequestMessage in that very call);
//   - from the uuid module the binary is built with: the bodies of New / NewRandom, the initial value of the
//     random source and the import it comes from, the size of a UUID and the bits NewRandomFromReader fixes
//     (version / variant masks), and every call in the repository that could replace the random source
//     (uuid.SetRand, uuid.EnableRandPool, uuid.SetClockSequence, uuid.SetNodeID ...);
//   - the normalised source text of request / RequestFrom / Broadcast / newRequestMessage and a statement
//     level summary of the retry loop (loop header, whether the body contains break / goto / labels,
//     the position of the statement that assigns `err` from sendRequestMessage, the statements before it).
// Anything unexpected is emitted verbatim: the Lean side states the expectation; a changed entry breaks a
// named theorem (Props/C17_Id.lean, Props/C17_Ctx.lean).
package main

import (
	"bytes"
	"flag"
	"fmt"
	"go/ast"
	"go/parser"
	"go/printer"
	"go/token"
	"os"
	"os/exec"
	"path/filepath"
	"sort"
	"strconv"
	"strings"
)

var fset = token.NewFileSet()

func src(n ast.Node) string {
	if n == nil {
		return ""
	}
	var b bytes.Buffer
	_ = printer.Fprint(&b, fset, n)
	return strings.Join(strings.Fields(b.String()), " ")
}

func q(s string) string { return strconv.Quote(s) }

func qlist(l []string) string {
	if len(l) == 0 {
		return "[]"
	}
	o := make([]string, len(l))
	for i, s := range l {
		o[i] = q(s)
	}
	return "[" + strings.Join(o, ",\n   ") + "]"
}

func plist(l [][]string) string {
	if len(l) == 0 {
		return "[]"
	}
	o := make([]string, len(l))
	for i, t := range l {
		qs := make([]string, len(t))
		for j, s := range t {
			qs[j] = q(s)
		}
		o[i] = "(" + strings.Join(qs, ", ") + ")"
	}
	return "[" + strings.Join(o, ",\n   ") + "]"
}

// pkg = the parsed non-test, non-hook files of one directory
type pkg struct {
	files   map[string]*ast.File
	funcs   map[string]*ast.FuncDecl // "Recv.Name" or "Name"
	funcIn  map[string]string        // func key -> file base name
	vars    map[string]bool
	consts  map[string]bool
	types   map[string]bool
	imports map[string]map[string]string // file -> local name -> import path
}

func recvName(fd *ast.FuncDecl) string {
	if fd.Recv == nil || len(fd.Recv.List) == 0 {
		return ""
	}
	t := fd.Recv.List[0].Type
	if s, ok := t.(*ast.StarExpr); ok {
		t = s.X
	}
	if ix, ok := t.(*ast.IndexExpr); ok {
		t = ix.X
	}
	if id, ok := t.(*ast.Ident); ok {
		return id.Name
	}
	return src(t)
}

func funcKey(fd *ast.FuncDecl) string {
	if r := recvName(fd); r != "" {
		return r + "." + fd.Name.Name
	}
	return fd.Name.Name
}

func loadPkg(dir string, skipHooks bool) (*pkg, error) {
	p := &pkg{files: map[string]*ast.File{}, funcs: map[string]*ast.FuncDecl{}, funcIn: map[string]string{}, vars: map[string]bool{},
		consts: map[string]bool{}, types: map[string]bool{}, imports: map[string]map[string]string{}}
	names, err := filepath.Glob(filepath.Join(dir, "*.go"))
	if err != nil {
		return nil, err
	}
	sort.Strings(names)
	for _, fn := range names {
		base := filepath.Base(fn)
		if strings.HasSuffix(base, "_test.go") || (skipHooks && strings.HasSuffix(base, "_verif.go")) {
			continue
		}
		f, err := parser.ParseFile(fset, fn, nil, 0)
		if err != nil {
			return nil, err
		}
		p.files[base] = f
		im := map[string]string{}
		for _, is := range f.Imports {
			path, _ := strconv.Unquote(is.Path.Value)
			local := path[strings.LastIndex(path, "/")+1:]
			if is.Name != nil {
				local = is.Name.Name
			}
			im[local] = path
		}
		p.imports[base] = im
		for _, d := range f.Decls {
			switch d := d.(type) {
			case *ast.FuncDecl:
				p.funcs[funcKey(d)] = d
				p.funcIn[funcKey(d)] = base
			case *ast.GenDecl:
				for _, s := range d.Specs {
					switch s := s.(type) {
					case *ast.ValueSpec:
						for _, n := range s.Names {
							if d.Tok == token.VAR {
								p.vars[n.Name] = true
							} else {
								p.consts[n.Name] = true
							}
						}
					case *ast.TypeSpec:
						p.types[s.Name.Name] = true
					}
				}
			}
		}
	}
	return p, nil
}

var universe = map[string]bool{"nil": true, "true": true, "false": true, "iota": true, "len": true, "cap": true, "append": true, "make": true,
	"new": true, "string": true, "int": true, "int64": true, "uint64": true, "uint32": true, "int32": true, "byte": true, "error": true,
	"copy": true, "delete": true, "panic": true, "recover": true, "bool": true, "uint": true, "uint8": true, "uint16": true, "int8": true, "int16": true,
	"float64": true, "float32": true, "rune": true, "any": true, "min": true, "max": true, "print": true, "println": true, "close": true, "clear": true}

// locals = names declared inside the function (parameters, results, receivers, :=, var, range)
func localsOf(fd *ast.FuncDecl) map[string]string {
	l := map[string]string{}
	add := func(fl *ast.FieldList, kind string) {
		if fl == nil {
			return
		}
		for _, f := range fl.List {
			for _, n := range f.Names {
				l[n.Name] = kind
			}
		}
	}
	add(fd.Recv, "receiver")
	add(fd.Type.Params, "param")
	add(fd.Type.Results, "result")
	if fd.Body != nil {
		ast.Inspect(fd.Body, func(n ast.Node) bool {
			switch n := n.(type) {
			case *ast.AssignStmt:
				if n.Tok == token.DEFINE {
					for _, x := range n.Lhs {
						if id, ok := x.(*ast.Ident); ok {
							if _, ok := l[id.Name]; !ok {
								l[id.Name] = "local"
							}
						}
					}
				}
			case *ast.ValueSpec:
				for _, id := range n.Names {
					if _, ok := l[id.Name]; !ok {
						l[id.Name] = "local"
					}
				}
			case *ast.RangeStmt:
				if n.Tok == token.DEFINE {
					for _, x := range []ast.Expr{n.Key, n.Value} {
						if id, ok := x.(*ast.Ident); ok {
							if _, ok := l[id.Name]; !ok {
								l[id.Name] = "local"
							}
						}
					}
				}
			case *ast.FuncLit:
				add(n.Type.Params, "param")
				add(n.Type.Results, "result")
			}
			return true
		})
	}
	return l
}

// freeIdents lists the identifiers of n that are not selector field names / composite literal keys.
func freeIdents(n ast.Node) []*ast.Ident {
	var out []*ast.Ident
	var walk func(n ast.Node)
	walk = func(n ast.Node) {
		ast.Inspect(n, func(m ast.Node) bool {
			switch m := m.(type) {
			case *ast.SelectorExpr:
				walk(m.X)
				return false
			case *ast.KeyValueExpr:
				// key of a struct literal is a field name; keys of map literals are rare in this code: keep the value only
				walk(m.Value)
				return false
			case *ast.Ident:
				out = append(out, m)
			}
			return true
		})
	}
	walk(n)
	return out
}

func (p *pkg) resolve(file string, locals map[string]string, name string) string {
	if k, ok := locals[name]; ok {
		return k
	}
	if p.vars[name] {
		return "pkgvar"
	}
	if p.consts[name] {
		return "pkgconst"
	}
	if _, ok := p.funcs[name]; ok {
		return "pkgfunc"
	}
	if p.types[name] {
		return "pkgtype"
	}
	if path, ok := p.imports[file][name]; ok {
		return "import:" + path
	}
	if universe[name] || name == "_" {
		return "universe"
	}
	return "unresolved"
}

// reach: package-level variables and package-local functions / methods the node depends on, transitively
func (p *pkg) reach(file string, fd *ast.FuncDecl, n ast.Node, vars, funcs map[string]bool) {
	locals := localsOf(fd)
	var visitFunc func(key string)
	visitFunc = func(key string) {
		if funcs[key] {
			return
		}
		funcs[key] = true
		d := p.funcs[key]
		if d == nil || d.Body == nil {
			return
		}
		p.reach(p.funcIn[key], d, d.Body, vars, funcs)
	}
	for _, id := range freeIdents(n) {
		switch p.resolve(file, locals, id.Name) {
		case "pkgvar":
			vars[id.Name] = true
		case "pkgfunc":
			visitFunc(id.Name)
		}
	}
	// method calls on package types: x.M(...) where some type of the package has a method M
	ast.Inspect(n, func(m ast.Node) bool {
		if c, ok := m.(*ast.CallExpr); ok {
			if s, ok := c.Fun.(*ast.SelectorExpr); ok {
				if x, ok := s.X.(*ast.Ident); ok {
					if _, isImport := p.imports[file][x.Name]; isImport && locals[x.Name] == "" {
						return true
					}
				}
				for key := range p.funcs {
					if strings.HasSuffix(key, "."+s.Sel.Name) {
						// only when the receiver expression is rooted in a package-level variable or the result of a local call we
						// cannot tell the type: be conservative and follow it when the root is not an import
						root := s.X
						for {
							switch r := root.(type) {
							case *ast.SelectorExpr:
								root = r.X
								continue
							case *ast.CallExpr:
								root = r.Fun
								continue
							}
							break
						}
						if id, ok := root.(*ast.Ident); ok {
							if _, isImport := p.imports[file][id.Name]; isImport && locals[id.Name] == "" {
								continue
							}
						}
						visitFunc(key)
					}
				}
			}
		}
		return true
	})
}

// chain decomposes e into call-chain steps, innermost first.
func (p *pkg) chain(file string, locals map[string]string, e ast.Expr) [][]string {
	switch e := e.(type) {
	case *ast.CallExpr:
		args := make([]string, len(e.Args))
		for i, a := range e.Args {
			args[i] = src(a)
		}
		as := strings.Join(args, ", ")
		switch f := e.Fun.(type) {
		case *ast.SelectorExpr:
			if x, ok := f.X.(*ast.Ident); ok {
				if path, ok := p.imports[file][x.Name]; ok && locals[x.Name] == "" {
					return [][]string{{"pkgfunc", path, f.Sel.Name, as}}
				}
			}
			return append(p.chain(file, locals, f.X), []string{"method", "", f.Sel.Name, as})
		case *ast.Ident:
			return [][]string{{"call:" + p.resolve(file, locals, f.Name), "", f.Name, as}}
		}
	case *ast.SelectorExpr:
		if x, ok := e.X.(*ast.Ident); ok {
			if path, ok := p.imports[file][x.Name]; ok && locals[x.Name] == "" {
				return [][]string{{"pkgvalue", path, e.Sel.Name, ""}}
			}
		}
		return append(p.chain(file, locals, e.X), []string{"field", "", e.Sel.Name, ""})
	case *ast.Ident:
		return [][]string{{"ident:" + p.resolve(file, locals, e.Name), "", e.Name, ""}}
	case *ast.BasicLit:
		return [][]string{{"literal", "", e.Value, ""}}
	case *ast.ParenExpr:
		return p.chain(file, locals, e.X)
	}
	return [][]string{{"other", "", src(e), ""}}
}

func moduleDir(repo, mod string) string {
	cmd := exec.Command("go", "list", "-m", "-f", "{{.Dir}}", mod)
	cmd.Dir = repo
	cmd.Env = append(os.Environ(), "GOFLAGS=-mod=mod", "GOPROXY=off", "GOSUMDB=off", "GOTOOLCHAIN=local")
	out, err := cmd.Output()
	if err != nil {
		return ""
	}
	return strings.TrimSpace(string(out))
}

func popcount8(v uint64) int {
	n := 0
	for i := 0; i < 8; i++ {
		if v&(1<<uint(i)) != 0 {
			n++
		}
	}
	return n
}

func main() {
	repo := flag.String("repo", "/repo", "repository root")
	out := flag.String("out", "", "Lean output file")
	flag.Parse()
	var b strings.Builder
	w := func(f string, a ...interface{}) { fmt.Fprintf(&b, f, a...) }
	w("/- GENERATED by tools/reqgen (C17: request ids, retry loop) from the repository sources — do not edit. Regenerated on every check run. -/\n")
	w("namespace LiskVerif.Gen.ReqFacts\n\n")

	p, err := loadPkg(filepath.Join(*repo, "pkg/p2p"), true)
	if err != nil {
		fmt.Fprintln(os.Stderr, "reqgen:", err)
		os.Exit(1)
	}

	// ---- (1) the ID of a new request message
	idExpr, idChain, idIdents := "", [][]string{}, [][]string{}
	idVars, idFuncs := map[string]bool{}, map[string]bool{}
	litFields := []string{}
	nrm := p.funcs["newRequestMessage"]
	nReturns, nLits := 0, 0
	if nrm != nil && nrm.Body != nil {
		file := p.funcIn["newRequestMessage"]
		locals := localsOf(nrm)
		ast.Inspect(nrm.Body, func(n ast.Node) bool {
			if r, ok := n.(*ast.ReturnStmt); ok {
				nReturns++
				_ = r
			}
			cl, ok := n.(*ast.CompositeLit)
			if !ok {
				return true
			}
			if t, ok := cl.Type.(*ast.Ident); !ok || t.Name != "Request" {
				return true
			}
			nLits++
			for _, el := range cl.Elts {
				kv, ok := el.(*ast.KeyValueExpr)
				if !ok {
					litFields = append(litFields, "positional:"+src(el))
					continue
				}
				k := src(kv.Key)
				litFields = append(litFields, k)
				if k != "ID" {
					continue
				}
				idExpr = src(kv.Value)
				idChain = p.chain(file, locals, kv.Value)
				for _, id := range freeIdents(kv.Value) {
					idIdents = append(idIdents, []string{id.Name, p.resolve(file, locals, id.Name)})
				}
				p.reach(file, nrm, kv.Value, idVars, idFuncs)
			}
			return true
		})
	}
	keys := func(m map[string]bool) []string {
		l := []string{}
		for k := range m {
			l = append(l, k)
		}
		sort.Strings(l)
		return l
	}
	w("/-- source text of the expression assigned to the field `ID` of the `Request` literal in newRequestMessage -/\n")
	w("def idExpr : String := %s\n\n", q(idExpr))
	w("/-- the same expression as a call chain, innermost step first: (kind, import path, name, argument text) -/\n")
	w("def idChain : List (String × String × String × String) :=\n  %s\n\n", plist(idChain))
	w("/-- identifiers mentioned by the expression (selector names excluded) with their resolution -/\n")
	w("def idIdents : List (String × String) :=\n  %s\n\n", plist(idIdents))
	w("/-- package-level VARIABLES of pkg/p2p the expression depends on, transitively through package-local functions -/\n")
	w("def idPkgVars : List String := %s\n\n", qlist(keys(idVars)))
	w("/-- package-local functions / methods the expression calls, transitively -/\n")
	w("def idLocalFuncs : List String := %s\n\n", qlist(keys(idFuncs)))
	w("/-- fields of the `Request` literal(s) in newRequestMessage, number of such literals and of return statements -/\n")
	w("def requestLiteralFields : List String := %s\n", qlist(litFields))
	w("def requestLiteralCount : Nat := %d\n", nLits)
	w("def newRequestMessageReturns : Nat := %d\n\n", nReturns)

	// ---- writes of a field named ID anywhere in the package
	idWrites := [][]string{}
	fkeys := []string{}
	for k := range p.funcs {
		fkeys = append(fkeys, k)
	}
	sort.Strings(fkeys)
	for _, k := range fkeys {
		fd := p.funcs[k]
		if fd.Body == nil {
			continue
		}
		ast.Inspect(fd.Body, func(n ast.Node) bool {
			switch n := n.(type) {
			case *ast.AssignStmt:
				for _, l := range n.Lhs {
					if s, ok := l.(*ast.SelectorExpr); ok && s.Sel.Name == "ID" {
						idWrites = append(idWrites, []string{p.funcIn[k], k, src(n)})
					}
				}
			case *ast.IncDecStmt:
				if s, ok := n.X.(*ast.SelectorExpr); ok && s.Sel.Name == "ID" {
					idWrites = append(idWrites, []string{p.funcIn[k], k, src(n)})
				}
			case *ast.UnaryExpr:
				if n.Op == token.AND {
					if s, ok := n.X.(*ast.SelectorExpr); ok && s.Sel.Name == "ID" {
						idWrites = append(idWrites, []string{p.funcIn[k], k, "address-of:" + src(n)})
					}
				}
			}
			return true
		})
	}
	w("/-- every statement of the package that assigns to (or takes the address of) a field named `ID`: (file, function, statement) -/\n")
	w("def idWrites : List (String × String × String) :=\n  %s\n\n", plist(idWrites))

	// ---- uses of the request message in sendRequestMessage
	uses := [][]string{}
	if fd := p.funcs["MessageProtocol.sendRequestMessage"]; fd != nil && fd.Body != nil {
		var stack []ast.Node
		ast.Inspect(fd.Body, func(n ast.Node) bool {
			if n == nil {
				stack = stack[:len(stack)-1]
				return true
			}
			stack = append(stack, n)
			id, ok := n.(*ast.Ident)
			if !ok || id.Name != "reqMsg" {
				return true
			}
			parent := stack[len(stack)-2]
			switch pn := parent.(type) {
			case *ast.AssignStmt:
				uses = append(uses, []string{"assign", src(pn)})
			case *ast.SelectorExpr:
				// what is done with reqMsg.<field>?
				kind := "read"
				if len(stack) >= 3 {
					switch g := stack[len(stack)-3].(type) {
					case *ast.AssignStmt:
						for _, l := range g.Lhs {
							if l == ast.Expr(pn) {
								kind = "write"
							}
						}
					case *ast.UnaryExpr:
						if g.Op == token.AND {
							kind = "address-of"
						}
					case *ast.CallExpr:
						if g.Fun == ast.Expr(pn) {
							kind = "method-call"
						}
					}
				}
				uses = append(uses, []string{kind + ":" + pn.Sel.Name, ""})
			case *ast.CallExpr:
				uses = append(uses, []string{"arg", src(pn.Fun)})
			default:
				uses = append(uses, []string{"other", src(parent)})
			}
			return true
		})
	}
	w("/-- every occurrence of the request message `reqMsg` in sendRequestMessage, in source order -/\n")
	w("def reqMsgUses : List (String × String) :=\n  %s\n\n", plist(uses))

	// ---- (2) the uuid module
	udir := moduleDir(*repo, "github.com/google/uuid")
	uNew, uNewRandom, uRander, uRandImport, uSize := "", "", "", "", ""
	masks := [][]string{}
	fixedBits := 0
	uReaderCalls := []string{}
	if udir != "" {
		if up, err := loadPkg(udir, false); err == nil {
			if fd := up.funcs["New"]; fd != nil {
				uNew = src(fd.Body)
			}
			if fd := up.funcs["NewRandom"]; fd != nil {
				uNewRandom = src(fd.Body)
			}
			for base, f := range up.files {
				for _, d := range f.Decls {
					gd, ok := d.(*ast.GenDecl)
					if !ok {
						continue
					}
					for _, s := range gd.Specs {
						switch s := s.(type) {
						case *ast.ValueSpec:
							for i, n := range s.Names {
								if n.Name == "rander" && i < len(s.Values) {
									uRander = src(s.Values[i])
									if se, ok := s.Values[i].(*ast.SelectorExpr); ok {
										if x, ok := se.X.(*ast.Ident); ok {
											uRandImport = up.imports[base][x.Name]
										}
									}
								}
							}
						case *ast.TypeSpec:
							if s.Name.Name == "UUID" {
								uSize = src(s.Type)
							}
						}
					}
				}
			}
			if fd := up.funcs["NewRandomFromReader"]; fd != nil && fd.Body != nil {
				ast.Inspect(fd.Body, func(n ast.Node) bool {
					switch n := n.(type) {
					case *ast.CallExpr:
						uReaderCalls = append(uReaderCalls, src(n))
					case *ast.AssignStmt:
						// uuid[i] = (uuid[i] & keep) | set
						if len(n.Lhs) != 1 || len(n.Rhs) != 1 || n.Tok != token.ASSIGN {
							return true
						}
						ix, ok := n.Lhs[0].(*ast.IndexExpr)
						if !ok {
							return true
						}
						or, ok := n.Rhs[0].(*ast.BinaryExpr)
						if !ok || or.Op != token.OR {
							masks = append(masks, []string{src(ix.Index), "?", "?", src(n)})
							return true
						}
						l := or.X
						if pe, ok := l.(*ast.ParenExpr); ok {
							l = pe.X
						}
						and, ok := l.(*ast.BinaryExpr)
						if !ok || and.Op != token.AND || src(and.X) != src(n.Lhs[0]) {
							masks = append(masks, []string{src(ix.Index), "?", "?", src(n)})
							return true
						}
						keep, e1 := strconv.ParseUint(src(and.Y), 0, 8)
						set, e2 := strconv.ParseUint(src(or.Y), 0, 8)
						if e1 != nil || e2 != nil {
							masks = append(masks, []string{src(ix.Index), "?", "?", src(n)})
							return true
						}
						masks = append(masks, []string{src(ix.Index), strconv.FormatUint(keep, 10), strconv.FormatUint(set, 10), src(n)})
						fixedBits += 8 - popcount8(keep)
					}
					return true
				})
			}
		}
	}
	w("/-- github.com/google/uuid as resolved by the repository's go.mod: bodies of New and NewRandom -/\n")
	w("def uuidNewBody : String := %s\n", q(uNew))
	w("def uuidNewRandomBody : String := %s\n", q(uNewRandom))
	w("/-- initial value of the package's random source `rander` and the import path of its qualifier -/\n")
	w("def uuidRander : String := %s\n", q(uRander))
	w("def uuidRanderImport : String := %s\n", q(uRandImport))
	w("/-- the UUID type -/\n")
	w("def uuidType : String := %s\n", q(uSize))
	w("/-- calls made by NewRandomFromReader and the bytes it overwrites: (index, bits kept, bits set, statement) -/\n")
	w("def uuidFromReaderCalls : List String := %s\n", qlist(uReaderCalls))
	w("def uuidMasks : List (String × String × String × String) :=\n  %s\n", plist(masks))
	w("/-- number of bits of a random UUID that are NOT taken from the random source -/\n")
	w("def uuidFixedBits : Nat := %d\n\n", fixedBits)

	// ---- calls that replace / configure the random source of the uuid package, anywhere in the repository
	tamper := [][]string{}
	_ = filepath.Walk(*repo, func(path string, info os.FileInfo, err error) error {
		if err != nil {
			return nil
		}
		if info.IsDir() {
			n := info.Name()
			if n == ".git" || n == "node_modules" || n == "testdata" || n == "vendor" {
				return filepath.SkipDir
			}
			return nil
		}
		if !strings.HasSuffix(path, ".go") || strings.HasSuffix(path, "_test.go") || strings.HasSuffix(path, "_verif.go") {
			return nil
		}
		f, err := parser.ParseFile(fset, path, nil, 0)
		if err != nil {
			return nil
		}
		local := ""
		for _, is := range f.Imports {
			ip, _ := strconv.Unquote(is.Path.Value)
			if ip == "github.com/google/uuid" {
				local = "uuid"
				if is.Name != nil {
					local = is.Name.Name
				}
			}
		}
		if local == "" {
			return nil
		}
		rel, _ := filepath.Rel(*repo, path)
		ast.Inspect(f, func(n ast.Node) bool {
			s, ok := n.(*ast.SelectorExpr)
			if !ok {
				return true
			}
			if x, ok := s.X.(*ast.Ident); ok && x.Name == local {
				switch s.Sel.Name {
				case "SetRand", "EnableRandPool", "DisableRandPool", "SetClockSequence", "SetNodeID", "SetNodeInterface":
					tamper = append(tamper, []string{rel, s.Sel.Name})
				}
			}
			return true
		})
		return nil
	})
	w("/-- uses of functions that reconfigure the uuid package's random source in non-test sources of the repository -/\n")
	w("def uuidSourceReconfigured : List (String × String) :=\n  %s\n\n", plist(tamper))

	// ---- (3) the retry loop and its callers
	w("/-- normalised source (go/printer, white space collapsed, comments dropped) of the functions the model transcribes -/\n")
	for _, k := range []string{"MessageProtocol.request", "MessageProtocol.RequestFrom", "MessageProtocol.Broadcast", "newRequestMessage"} {
		body := ""
		if fd := p.funcs[k]; fd != nil {
			body = src(fd.Type) + " " + src(fd.Body)
		}
		w("def src_%s : String :=\n  %s\n", strings.ReplaceAll(k, ".", "_"), q(body))
	}
	w("\n")
	loopHeader, loopBody := "", []string{}
	hasBreak, hasGoto, hasLabel := false, false, false
	loops, attemptAt := 0, -1
	afterLoop := []string{}
	beforeLoop := []string{}
	if fd := p.funcs["MessageProtocol.request"]; fd != nil && fd.Body != nil {
		seenLoop := false
		for _, st := range fd.Body.List {
			fs, ok := st.(*ast.ForStmt)
			if !ok {
				if _, isRange := st.(*ast.RangeStmt); isRange {
					loops++
				}
				if seenLoop {
					afterLoop = append(afterLoop, src(st))
				} else {
					beforeLoop = append(beforeLoop, src(st))
				}
				continue
			}
			loops++
			seenLoop = true
			loopHeader = "for " + src(fs.Init) + "; " + src(fs.Cond) + "; " + src(fs.Post)
			for i, s := range fs.Body.List {
				loopBody = append(loopBody, src(s))
				if as, ok := s.(*ast.AssignStmt); ok && len(as.Rhs) == 1 {
					if c, ok := as.Rhs[0].(*ast.CallExpr); ok && strings.HasSuffix(src(c.Fun), "sendRequestMessage") && attemptAt < 0 {
						attemptAt = i
					}
				}
			}
			ast.Inspect(fs.Body, func(n ast.Node) bool {
				switch n := n.(type) {
				case *ast.BranchStmt:
					if n.Tok == token.BREAK {
						hasBreak = true
					}
					if n.Tok == token.GOTO {
						hasGoto = true
					}
				case *ast.LabeledStmt:
					hasLabel = true
				case *ast.FuncLit:
					return false
				}
				return true
			})
		}
	}
	w("/-- statement-level summary of `request`: statements before the loop, loop header, top-level statements of the loop body,\nindex of the statement that assigns from sendRequestMessage, statements after the loop -/\n")
	w("def requestBeforeLoop : List String := %s\n", qlist(beforeLoop))
	w("def requestLoopHeader : String := %s\n", q(loopHeader))
	w("def requestLoopBody : List String := %s\n", qlist(loopBody))
	w("def requestLoopCount : Nat := %d\n", loops)
	w("def requestAttemptIndex : Option Nat := %s\n", func() string {
		if attemptAt < 0 {
			return "none"
		}
		return fmt.Sprintf("some %d", attemptAt)
	}())
	w("def requestAfterLoop : List String := %s\n", qlist(afterLoop))
	w("def requestLoopHasBreak : Bool := %v\n", hasBreak)
	w("def requestLoopHasGoto : Bool := %v\n", hasGoto)
	w("def requestLoopHasLabel : Bool := %v\n", hasLabel)
	// the constant bounding the loop
	maxRetries := ""
	for _, f := range p.files {
		for _, d := range f.Decls {
			if gd, ok := d.(*ast.GenDecl); ok && gd.Tok == token.CONST {
				for _, s := range gd.Specs {
					vs := s.(*ast.ValueSpec)
					for i, n := range vs.Names {
						if n.Name == "messageMaxRetries" && i < len(vs.Values) {
							maxRetries = src(vs.Values[i])
						}
					}
				}
			}
		}
	}
	w("/-- value text of the constant messageMaxRetries -/\n")
	w("def messageMaxRetries : String := %s\n", q(maxRetries))
	emitFresh(w, p, *repo) // C17 freshness facts (fresh.go)
	w("\nend LiskVerif.Gen.ReqFacts\n")

	if *out == "" {
		fmt.Print(b.String())
		return
	}
	if err := os.WriteFile(*out, []byte(b.String()), 0o644); err != nil {
		fmt.Fprintln(os.Stderr, "reqgen:", err)
		os.Exit(1)
	}
}
