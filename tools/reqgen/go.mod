module reqgen

go 1.21
