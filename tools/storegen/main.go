// storegen: go/ast fact extractor for "who keeps a view of the consensus store" (tie A of C06_NoCache).
//
// A diffdb.Database is a staged view of the consensus state that remembers everything it has read.  The
// certificate protocol (and every other consensus entry point) is specified - and modelled - as a function
// of the CURRENT persistent state, which holds only if such a view never outlives the call that created
// it.  This tool emits, as Lean data, the facts from which Props/C06_NoCache.lean concludes that:
//
//   - executerFields   every field of struct `Executer` (pkg/consensus/execute.go) with its type text;
//   - structFields     every struct field in pkg/consensus/** with its type text (so that "no struct in
//     the package holds a store view" is a statement about the whole list);
//   - storeFields      the sub-list of structFields whose type text mentions `diffdb.`; storeGlobals likewise
//     for globals (type or initialiser);
//   - storeParams      every function parameter of a diffdb type (function, name, type);
//   - storeArgs        every call that passes a store variable of the enclosing function as an argument
//     (function, callee text, argument index, variable): the flow of views between functions;
//   - globals          every package-level variable of pkg/consensus/** (name, type text, initialiser text);
//   - storeFuncs       every function of pkg/consensus/** whose RESULT types mention diffdb (a helper
//     handing out a view);
//   - sites            every call `diffdb.New(..)` and `<x>.WithPrefix(..)` in pkg/consensus/** with the
//     enclosing function, the argument texts, what the receiver is (parameter / local /
//     field ..) and how the result is bound (`define:<var>` for `v := call`, ..);
//   - escapes          for every store variable of a function (a parameter of a diffdb type, a local bound
//     to diffdb.New / WithPrefix or copied from a store variable): every place where it
//     leaves the function other than as a call argument - assignment to a field / global /
//     element, composite-literal value, return value, channel send;
//   - storeBinds       for every method of Executer in certificate.go: every local definition `v := f(..)`
//     of a variable v that is the first argument of a `c.liskBFT.API()` call of that method,
//     with the callee text f (what `diffStore` really is);
//   - bftCalls         for the same methods: every call whose callee text starts with `c.liskBFT.API().`
//     with its first argument (which view the entry point reads through).
//
// Files `*_test.go` and `*_verif.go` (build tag verif: the harness hooks) are skipped.  Purely syntactic:
// no type information is used, names are matched as text; the Lean side states exact expectations, so an
// unforeseen construct shows up as a changed table and breaks a named theorem instead of passing silently.
package main

import (
	"bytes"
	"flag"
	"fmt"
	"go/ast"
	"go/parser"
	"go/printer"
	"go/token"
	"os"
	"path/filepath"
	"sort"
	"strconv"
	"strings"
)

var fset = token.NewFileSet()

func src(n ast.Node) string {
	if n == nil {
		return ""
	}
	var b bytes.Buffer
	printer.Fprint(&b, fset, n)
	return strings.Join(strings.Fields(b.String()), " ")
}

func q(s string) string { return strconv.Quote(s) }

type field struct{ pkg, strct, name, typ string }
type global struct{ pkg, name, typ, init string }
type storeFunc struct{ pkg, fn, results string }
type site struct {
	pkg, file, fn, callee, recv, recvKind string
	args                                  []string
	bind, target                          string // how the result is bound, and to what
}
type storeParam struct{ pkg, fn, param, typ string }
type storeArg struct {
	pkg, fn, callee string
	index           int
	v               string
}
type escape struct{ pkg, fn, v, how, target string }
type bind struct{ fn, v, callee string }
type bftCall struct{ fn, callee, arg0 string }

var (
	executerFields []field
	structFields   []field
	globals        []global
	storeFuncs     []storeFunc
	sites          []site
	escapes        []escape
	storeBinds     []bind
	bftCalls       []bftCall
	storeFields    []field
	storeGlobals   []global
	storeParams    []storeParam
	storeArgs      []storeArg
)

// splitBind splits "kind:target".
func splitBind(b string) (string, string) {
	if i := strings.IndexByte(b, ':'); i >= 0 {
		return b[:i], b[i+1:]
	}
	return b, ""
}

func funcName(fd *ast.FuncDecl) string {
	if fd.Recv != nil && len(fd.Recv.List) == 1 {
		t := fd.Recv.List[0].Type
		if s, ok := t.(*ast.StarExpr); ok {
			t = s.X
		}
		if ix, ok := t.(*ast.IndexExpr); ok {
			t = ix.X
		}
		return src(t) + "." + fd.Name.Name
	}
	return fd.Name.Name
}

func isStoreCall(c *ast.CallExpr) (callee, recv string, ok bool) {
	sel, isSel := c.Fun.(*ast.SelectorExpr)
	if !isSel {
		return "", "", false
	}
	if id, isID := sel.X.(*ast.Ident); isID && id.Name == "diffdb" && sel.Sel.Name == "New" {
		return "diffdb.New", "", true
	}
	if sel.Sel.Name == "WithPrefix" {
		return "WithPrefix", src(sel.X), true
	}
	return "", "", false
}

// funcFacts walks one function.
func funcFacts(pkg, file string, fd *ast.FuncDecl) {
	fn := funcName(fd)
	params := map[string]bool{}
	storeVars := map[string]bool{}
	if fd.Type.Params != nil {
		for _, p := range fd.Type.Params.List {
			for _, n := range p.Names {
				params[n.Name] = true
				if strings.Contains(src(p.Type), "diffdb.") {
					storeVars[n.Name] = true
					storeParams = append(storeParams, storeParam{pkg, fn, n.Name, src(p.Type)})
				}
			}
		}
	}
	if fd.Recv != nil {
		for _, p := range fd.Recv.List {
			for _, n := range p.Names {
				params[n.Name] = true
			}
		}
	}
	if fd.Type.Results != nil {
		var rs []string
		mentions := false
		for _, r := range fd.Type.Results.List {
			t := src(r.Type)
			rs = append(rs, t)
			if strings.Contains(t, "diffdb.Database") {
				mentions = true
			}
		}
		if mentions {
			storeFuncs = append(storeFuncs, storeFunc{pkg, fn, strings.Join(rs, ", ")})
		}
	}
	if fd.Body == nil {
		return
	}
	locals := map[string]bool{}
	// bindings of store calls: map call -> bind text, filled while walking statements
	bound := map[*ast.CallExpr]string{}
	certMethod := file == "certificate.go" && pkg == "consensus" && strings.HasPrefix(fn, "Executer.")

	var lhsKind func(e ast.Expr) string
	lhsKind = func(e ast.Expr) string {
		switch x := e.(type) {
		case *ast.Ident:
			if x.Name == "_" {
				return "blank"
			}
			if locals[x.Name] || params[x.Name] {
				return "local:" + x.Name
			}
			return "global:" + x.Name
		case *ast.SelectorExpr:
			return "field:" + src(x)
		case *ast.IndexExpr:
			return "element:" + src(x)
		case *ast.StarExpr:
			return "deref:" + src(x)
		}
		return "other:" + src(e)
	}
	isStoreExpr := func(e ast.Expr) (string, bool) {
		if id, ok := e.(*ast.Ident); ok && storeVars[id.Name] {
			return id.Name, true
		}
		if c, ok := e.(*ast.CallExpr); ok {
			if callee, _, ok := isStoreCall(c); ok {
				return callee + "(..)", true
			}
		}
		return "", false
	}

	// pass 1: declarations and bindings in source order (ast.Inspect is pre-order, source order)
	ast.Inspect(fd.Body, func(n ast.Node) bool {
		switch x := n.(type) {
		case *ast.AssignStmt:
			for i, l := range x.Lhs {
				var r ast.Expr
				if len(x.Rhs) == len(x.Lhs) {
					r = x.Rhs[i]
				} else if len(x.Rhs) == 1 {
					r = x.Rhs[0]
				}
				id, isID := l.(*ast.Ident)
				if x.Tok == token.DEFINE && isID && id.Name != "_" {
					isNew := !locals[id.Name] && !params[id.Name]
					locals[id.Name] = true
					if c, ok := r.(*ast.CallExpr); ok {
						if _, _, ok := isStoreCall(c); ok && len(x.Rhs) == len(x.Lhs) {
							if isNew {
								bound[c] = "define:" + id.Name
							} else {
								bound[c] = "assign-local:" + id.Name
							}
							storeVars[id.Name] = true
						}
						if certMethod && i == 0 {
							storeBinds = append(storeBinds, bind{fn, id.Name, src(c.Fun)})
						}
					}
					if v, ok := isStoreExpr(r); ok && len(x.Rhs) == len(x.Lhs) {
						_ = v
						storeVars[id.Name] = true
					}
					continue
				}
				if r == nil || len(x.Rhs) != len(x.Lhs) {
					continue
				}
				if c, ok := r.(*ast.CallExpr); ok {
					if _, _, ok := isStoreCall(c); ok {
						k := lhsKind(l)
						switch {
						case strings.HasPrefix(k, "local:"):
							bound[c] = "assign-local:" + strings.TrimPrefix(k, "local:")
							storeVars[strings.TrimPrefix(k, "local:")] = true
						default:
							bound[c] = "assign-" + k
						}
					}
				}
				if v, ok := isStoreExpr(r); ok {
					k := lhsKind(l)
					if strings.HasPrefix(k, "local:") {
						storeVars[strings.TrimPrefix(k, "local:")] = true
					} else if k != "blank" {
						escapes = append(escapes, escape{pkg, fn, v, "assign", k})
					}
				}
			}
		case *ast.DeclStmt:
			if gd, ok := x.Decl.(*ast.GenDecl); ok && gd.Tok == token.VAR {
				for _, sp := range gd.Specs {
					vs := sp.(*ast.ValueSpec)
					for i, n := range vs.Names {
						locals[n.Name] = true
						if vs.Type != nil && strings.Contains(src(vs.Type), "diffdb.Database") {
							storeVars[n.Name] = true
						}
						if i < len(vs.Values) {
							if c, ok := vs.Values[i].(*ast.CallExpr); ok {
								if _, _, ok := isStoreCall(c); ok {
									bound[c] = "define:" + n.Name
									storeVars[n.Name] = true
								}
							}
						}
					}
				}
			}
		case *ast.RangeStmt:
			for _, e := range []ast.Expr{x.Key, x.Value} {
				if id, ok := e.(*ast.Ident); ok && x.Tok == token.DEFINE {
					locals[id.Name] = true
				}
			}
		case *ast.ReturnStmt:
			for _, r := range x.Results {
				if v, ok := isStoreExpr(r); ok {
					escapes = append(escapes, escape{pkg, fn, v, "return", ""})
					if c, ok := r.(*ast.CallExpr); ok {
						bound[c] = "return"
					}
				}
			}
		case *ast.SendStmt:
			if v, ok := isStoreExpr(x.Value); ok {
				escapes = append(escapes, escape{pkg, fn, v, "send", src(x.Chan)})
			}
		case *ast.CompositeLit:
			for _, el := range x.Elts {
				val := el
				key := ""
				if kv, ok := el.(*ast.KeyValueExpr); ok {
					val = kv.Value
					key = src(kv.Key)
				}
				if v, ok := isStoreExpr(val); ok {
					escapes = append(escapes, escape{pkg, fn, v, "composite", src(x.Type) + "." + key})
					if c, ok := val.(*ast.CallExpr); ok {
						bound[c] = "field-init:" + src(x.Type) + "." + key
					}
				}
			}
		case *ast.CallExpr:
			for _, a := range x.Args {
				if c, ok := a.(*ast.CallExpr); ok {
					if _, _, ok := isStoreCall(c); ok {
						if _, done := bound[c]; !done {
							bound[c] = "arg:" + src(x.Fun)
						}
					}
				}
			}
			for i, a := range x.Args {
				if id, ok := a.(*ast.Ident); ok && storeVars[id.Name] {
					storeArgs = append(storeArgs, storeArg{pkg, fn, src(x.Fun), i, id.Name})
				}
			}
			if certMethod && strings.HasPrefix(src(x.Fun), "c.liskBFT.API().") {
				a0 := ""
				if len(x.Args) > 0 {
					a0 = src(x.Args[0])
				}
				bftCalls = append(bftCalls, bftCall{fn, src(x.Fun), a0})
			}
		}
		return true
	})
	// pass 2: the sites
	ast.Inspect(fd.Body, func(n ast.Node) bool {
		c, ok := n.(*ast.CallExpr)
		if !ok {
			return true
		}
		callee, recv, ok := isStoreCall(c)
		if !ok {
			return true
		}
		s := site{pkg: pkg, file: file, fn: fn, callee: callee, recv: recv}
		for _, a := range c.Args {
			s.args = append(s.args, src(a))
		}
		if recv != "" {
			switch {
			case params[recv]:
				s.recvKind = "param"
			case locals[recv]:
				s.recvKind = "local"
			case strings.Contains(recv, "."):
				s.recvKind = "field"
			default:
				s.recvKind = "other"
			}
		}
		s.bind, s.target = splitBind(bound[c])
		if s.bind == "" {
			s.bind = "other"
		}
		sites = append(sites, s)
		return true
	})
}

func fileFacts(pkg, name string, f *ast.File) {
	for _, d := range f.Decls {
		switch x := d.(type) {
		case *ast.FuncDecl:
			funcFacts(pkg, name, x)
		case *ast.GenDecl:
			switch x.Tok {
			case token.TYPE:
				for _, sp := range x.Specs {
					ts := sp.(*ast.TypeSpec)
					st, ok := ts.Type.(*ast.StructType)
					if !ok {
						continue
					}
					for _, fl := range st.Fields.List {
						names := []string{}
						for _, n := range fl.Names {
							names = append(names, n.Name)
						}
						if len(names) == 0 {
							names = []string{"(embedded)"}
						}
						for _, n := range names {
							fd := field{pkg, ts.Name.Name, n, src(fl.Type)}
							structFields = append(structFields, fd)
							if strings.Contains(fd.typ, "diffdb.") {
								storeFields = append(storeFields, fd)
							}
							if pkg == "consensus" && ts.Name.Name == "Executer" {
								executerFields = append(executerFields, fd)
							}
						}
					}
				}
			case token.VAR:
				for _, sp := range x.Specs {
					vs := sp.(*ast.ValueSpec)
					for i, n := range vs.Names {
						g := global{pkg: pkg, name: n.Name, typ: src(vs.Type)}
						if i < len(vs.Values) {
							g.init = src(vs.Values[i])
							// a store created at package level
							ast.Inspect(vs.Values[i], func(m ast.Node) bool {
								if c, ok := m.(*ast.CallExpr); ok {
									if callee, recv, ok := isStoreCall(c); ok {
										s := site{pkg: pkg, file: name, fn: "", callee: callee, recv: recv, recvKind: "other", bind: "var-global", target: n.Name}
										for _, a := range c.Args {
											s.args = append(s.args, src(a))
										}
										sites = append(sites, s)
									}
								}
								return true
							})
						}
						if len(g.init) > 120 {
							g.init = g.init[:120] + ".."
						}
						globals = append(globals, g)
						if strings.Contains(g.typ, "diffdb.") || strings.Contains(g.init, "diffdb.") {
							storeGlobals = append(storeGlobals, g)
						}
					}
				}
			}
		}
	}
}

func main() {
	repo := flag.String("repo", "/repo", "repository root")
	out := flag.String("out", "", "output Lean file")
	flag.Parse()
	root := filepath.Join(*repo, "pkg", "consensus")
	var files []string
	err := filepath.Walk(root, func(p string, info os.FileInfo, err error) error {
		if err != nil {
			return err
		}
		if info.IsDir() || !strings.HasSuffix(p, ".go") || strings.HasSuffix(p, "_test.go") || strings.HasSuffix(p, "_verif.go") {
			return nil
		}
		files = append(files, p)
		return nil
	})
	if err != nil {
		fmt.Fprintln(os.Stderr, "storegen:", err)
		os.Exit(1)
	}
	sort.Strings(files)
	for _, p := range files {
		f, err := parser.ParseFile(fset, p, nil, parser.SkipObjectResolution)
		if err != nil {
			fmt.Fprintln(os.Stderr, "storegen:", err)
			os.Exit(1)
		}
		rel, _ := filepath.Rel(filepath.Join(*repo, "pkg"), filepath.Dir(p))
		fileFacts(filepath.ToSlash(rel), filepath.Base(p), f)
	}
	// storeBinds: only the variables through which an entry point reads the consensus state
	used := map[string]bool{}
	for _, c := range bftCalls {
		used[c.fn+"/"+c.arg0] = true
	}
	var kept []bind
	for _, x := range storeBinds {
		if used[x.fn+"/"+x.v] {
			kept = append(kept, x)
		}
	}
	storeBinds = kept
	if len(executerFields) == 0 {
		fmt.Fprintln(os.Stderr, "storegen: struct Executer not found in pkg/consensus")
		os.Exit(1)
	}

	var b strings.Builder
	b.WriteString("/- GENERATED by tools/storegen from /repo — do not edit. Regenerated on every check run.\n")
	b.WriteString("   Views of the consensus store in pkg/consensus: struct fields, creation sites, escapes. -/\n\n")
	b.WriteString("namespace LiskVerif.Gen.StoreSites\n\n")
	b.WriteString("structure Field where\n  pkg : String\n  strct : String\n  name : String\n  typ : String\nderiving Repr, DecidableEq\n\n")
	b.WriteString("structure Global where\n  pkg : String\n  name : String\n  typ : String\n  init : String\nderiving Repr, DecidableEq\n\n")
	b.WriteString("structure StoreFunc where\n  pkg : String\n  fn : String\n  results : String\nderiving Repr, DecidableEq\n\n")
	b.WriteString("structure Site where\n  pkg : String\n  file : String\n  fn : String\n  callee : String\n  recv : String\n  recvKind : String\n  args : List String\n  bind : String\n  target : String\nderiving Repr, DecidableEq\n\n")
	b.WriteString("structure Escape where\n  pkg : String\n  fn : String\n  var : String\n  how : String\n  target : String\nderiving Repr, DecidableEq\n\n")
	b.WriteString("structure Bind where\n  fn : String\n  var : String\n  callee : String\nderiving Repr, DecidableEq\n\n")
	b.WriteString("structure StoreParam where\n  pkg : String\n  fn : String\n  param : String\n  typ : String\nderiving Repr, DecidableEq\n\n")
	b.WriteString("structure StoreArg where\n  pkg : String\n  fn : String\n  callee : String\n  index : Nat\n  var : String\nderiving Repr, DecidableEq\n\n")
	b.WriteString("structure BftCall where\n  fn : String\n  callee : String\n  arg0 : String\nderiving Repr, DecidableEq\n\n")

	list := func(name, typ string, n int, item func(i int) string) {
		fmt.Fprintf(&b, "def %s : List %s := [", name, typ)
		for i := 0; i < n; i++ {
			if i > 0 {
				b.WriteString(",")
			}
			b.WriteString("\n  " + item(i))
		}
		b.WriteString("]\n\n")
	}
	strs := func(l []string) string {
		p := make([]string, len(l))
		for i, s := range l {
			p[i] = q(s)
		}
		return "[" + strings.Join(p, ", ") + "]"
	}
	fieldItem := func(l []field) func(i int) string {
		return func(i int) string {
			return fmt.Sprintf("⟨%s, %s, %s, %s⟩", q(l[i].pkg), q(l[i].strct), q(l[i].name), q(l[i].typ))
		}
	}
	list("executerFields", "Field", len(executerFields), fieldItem(executerFields))
	list("structFields", "Field", len(structFields), fieldItem(structFields))
	globalItem := func(l []global) func(i int) string {
		return func(i int) string {
			return fmt.Sprintf("⟨%s, %s, %s, %s⟩", q(l[i].pkg), q(l[i].name), q(l[i].typ), q(l[i].init))
		}
	}
	list("storeFields", "Field", len(storeFields), fieldItem(storeFields))
	list("globals", "Global", len(globals), globalItem(globals))
	list("storeGlobals", "Global", len(storeGlobals), globalItem(storeGlobals))
	list("storeParams", "StoreParam", len(storeParams), func(i int) string {
		x := storeParams[i]
		return fmt.Sprintf("⟨%s, %s, %s, %s⟩", q(x.pkg), q(x.fn), q(x.param), q(x.typ))
	})
	list("storeArgs", "StoreArg", len(storeArgs), func(i int) string {
		x := storeArgs[i]
		return fmt.Sprintf("⟨%s, %s, %s, %d, %s⟩", q(x.pkg), q(x.fn), q(x.callee), x.index, q(x.v))
	})
	list("storeFuncs", "StoreFunc", len(storeFuncs), func(i int) string {
		s := storeFuncs[i]
		return fmt.Sprintf("⟨%s, %s, %s⟩", q(s.pkg), q(s.fn), q(s.results))
	})
	list("sites", "Site", len(sites), func(i int) string {
		s := sites[i]
		return fmt.Sprintf("⟨%s, %s, %s, %s, %s, %s, %s, %s, %s⟩", q(s.pkg), q(s.file), q(s.fn), q(s.callee), q(s.recv), q(s.recvKind), strs(s.args), q(s.bind), q(s.target))
	})
	list("escapes", "Escape", len(escapes), func(i int) string {
		e := escapes[i]
		return fmt.Sprintf("⟨%s, %s, %s, %s, %s⟩", q(e.pkg), q(e.fn), q(e.v), q(e.how), q(e.target))
	})
	list("storeBinds", "Bind", len(storeBinds), func(i int) string {
		x := storeBinds[i]
		return fmt.Sprintf("⟨%s, %s, %s⟩", q(x.fn), q(x.v), q(x.callee))
	})
	list("bftCalls", "BftCall", len(bftCalls), func(i int) string {
		x := bftCalls[i]
		return fmt.Sprintf("⟨%s, %s, %s⟩", q(x.fn), q(x.callee), q(x.arg0))
	})
	b.WriteString("end LiskVerif.Gen.StoreSites\n")
	if *out == "" {
		fmt.Print(b.String())
		return
	}
	if err := os.WriteFile(*out, []byte(b.String()), 0o644); err != nil {
		fmt.Fprintln(os.Stderr, "storegen:", err)
		os.Exit(1)
	}
}
