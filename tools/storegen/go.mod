module storegen

go 1.21
