#!/bin/sh
# regenerate lean/LiskVerif/Gen/StoreSites.lean (struct fields of the consensus executer, creation sites and
# escapes of consensus-store views in pkg/consensus) from /repo
set -e
cd "$(dirname "$0")"
export GOFLAGS=-mod=mod GOPROXY=off GOSUMDB=off GOTOOLCHAIN=local
mkdir -p ../../.build ../../lean/LiskVerif/Gen
go build -o ../../.build/storegen .
../../.build/storegen -repo "${VERIF_REPO:-/repo}" -out ../../lean/LiskVerif/Gen/StoreSites.lean
