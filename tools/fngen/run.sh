#!/bin/sh
# regenerate lean/LiskVerif/Gen/Fns.lean from /repo
set -e
cd "$(dirname "$0")"
export GOFLAGS=-mod=mod GOPROXY=off GOSUMDB=off GOTOOLCHAIN=local
mkdir -p ../../.build ../../lean/LiskVerif/Gen
go build -o ../../.build/fngen .
../../.build/fngen -repo "${VERIF_REPO:-/repo}" -out ../../lean/LiskVerif/Gen/Fns.lean
