#!/bin/sh
# regenerate lean/LiskVerif/Gen/Fns.lean and lean/LiskVerif/Gen/Fns2.lean from /repo
# (both files are replaced together, and only if both translations succeed)
set -e
cd "$(dirname "$0")"
export GOFLAGS=-mod=mod GOPROXY=off GOSUMDB=off GOTOOLCHAIN=local
mkdir -p ../../.build ../../lean/LiskVerif/Gen
go build -o ../../.build/fngen .
../../.build/fngen -repo "${VERIF_REPO:-/repo}" -out ../../lean/LiskVerif/Gen/Fns.lean -out2 ../../lean/LiskVerif/Gen/Fns2.lean
