// Nil discipline of the typed translation (targets with `nilsafe`).
//
// The typed translator works on integer / boolean expressions; everything else enters a generated definition
// as a parameter that stands for a piece of Go source text (`ps(name, type, "c.lastHeader.Timestamp")`). Such a
// source text can DEREFERENCE A POINTER (`c.lastBlockReceivedAt.Unix()`), and whether the pointer can be nil at
// that place was invisible: the two receive-time helpers of pkg/consensus/forkchoice differ exactly in the nil
// check in front of such a dereference (seeded change C09-15 merged them and lost it). With `nilsafe`:
//
//   - every pointer dereferenced by the translated fragment — inside the source text of a parameter that the
//     fragment uses, or as the receiver of a translated method call (`c.slot.GetSlotNumber(…)`) — must be
//     DECLARED by the target, either `nonnil` (assumed non-nil by construction; the assumption is emitted into
//     the generated table `nilDiscipline` and stated in Props/C09_ForkChoice.lean) or `nilable`;
//   - a dereference of a `nilable` pointer must be DOMINATED BY A NIL CHECK of that pointer: it lies in the body
//     of `if p != nil {…}`, behind `if p == nil { …return }`, or to the right of `p != nil &&` / `p == nil ||`.
//     Anything else is a translator error (the tie breaks). A pointer that is assigned inside the function is
//     refused as well (the check could be stale);
//   - pointers are: fields of the receiver's struct declared with a `*T` type and Go parameters of the function
//     declared `*T`; the receiver itself counts as non-nil (a method value on a nil receiver does not get this
//     far); a base expression whose type the translator cannot see (deeper selector chains, locals) must be
//     declared explicitly or is refused;
//   - a method called on the receiver itself (`c.receivedLastBlockWithinForgingSlot()`, `selfCalls`) must be a
//     `nilsafe` translated target of kind whole; passing a pointer (or `&x`) as an argument to it is refused —
//     the callee's parameter would be a pointer whose nil-ness the callee cannot check against the caller's
//     (the merged helper of C09-15 has exactly this shape).
//
// The nil case becomes part of the generated definition through `popt(name, type, value source, pointer)`:
// the Lean parameter is `Option <type>`, `none` = the pointer is nil; `if p == nil { return X }; rest` becomes
// `match name with | none => X | some name => rest`, `p == nil` elsewhere `name.isNone`.
package main

import (
	"fmt"
	"go/ast"
	"go/parser"
	"go/token"
	"go/types"
	"strings"
)

// ptrDecl declares a pointer expression of a nilsafe target: source text, and (for receiver fields) the
// struct field with the declared type, which is checked
type ptrDecl struct {
	expr, field, typ string
	why              string // nonnil: why the callers never pass nil (emitted into the generated table)
}

func popt(name string, ty gtype, src, ptr string) param {
	return param{name: name, ty: ty, src: src, opt: ptr}
}

type nilFact struct{ lean, fn, ptr, status, why string }

var nilFacts []nilFact

type nilState struct {
	fd     *ast.FuncDecl
	recv   string            // receiver identifier
	ptrs   map[string]string // pointer expressions visible to the translator -> declared type
	decl   map[string]string // declared pointer expression -> "nonnil" | "nilable"
	why    map[string]string
	pkgs   map[string]bool // imported package names
	bound  map[string]bool // Option parameters currently bound by `| some name =>`
	facts  []nilFact
	seen   map[string]bool
	derefs map[string][]string // source text -> dereferenced base expressions
}

// initNil records the Go parameter names of the function (used by self calls of later targets) and, for a
// nilsafe target, collects the pointer expressions and validates the declarations
func (t *tr2) initNil(f *ast.File, fd *ast.FuncDecl) error {
	tg := t.tg
	tg.goParams = nil
	if fd.Type.Params != nil {
		for _, fl := range fd.Type.Params.List {
			for _, n := range fl.Names {
				tg.goParams = append(tg.goParams, n.Name)
			}
		}
	}
	for _, pr := range tg.params {
		if pr.opt != "" && !tg.nilsafe {
			return fmt.Errorf("%s: %s: Option parameter %s in a target that is not nilsafe", tg.file, tg.lean, pr.name)
		}
	}
	if !tg.nilsafe {
		if len(tg.nonnil)+len(tg.nilable)+len(tg.selfCalls) > 0 {
			return fmt.Errorf("%s: %s: pointer declarations / self calls need nilsafe", tg.file, tg.lean)
		}
		return nil
	}
	ns := &nilState{fd: fd, ptrs: map[string]string{}, decl: map[string]string{}, why: map[string]string{}, pkgs: map[string]bool{},
		bound: map[string]bool{}, seen: map[string]bool{}, derefs: map[string][]string{}}
	for _, im := range f.Imports {
		path := strings.Trim(im.Path.Value, `"`)
		name := path[strings.LastIndex(path, "/")+1:]
		if im.Name != nil {
			name = im.Name.Name
		}
		ns.pkgs[name] = true
	}
	if fd.Recv != nil && len(fd.Recv.List) == 1 && len(fd.Recv.List[0].Names) == 1 {
		ns.recv = fd.Recv.List[0].Names[0].Name
		if st := t.pkg.structs[tg.recv]; st != nil {
			for _, fl := range st.Fields.List {
				ty := types.ExprString(fl.Type)
				for _, n := range fl.Names {
					if strings.HasPrefix(ty, "*") {
						ns.ptrs[ns.recv+"."+n.Name] = ty
					} else {
						ns.ptrs[ns.recv+"."+n.Name] = "" // known not to be a pointer
					}
				}
			}
		}
	}
	if fd.Type.Params != nil {
		for _, fl := range fd.Type.Params.List {
			ty := types.ExprString(fl.Type)
			for _, n := range fl.Names {
				if strings.HasPrefix(ty, "*") {
					ns.ptrs[n.Name] = ty
				} else {
					ns.ptrs[n.Name] = ""
				}
			}
		}
	}
	for status, list := range map[string][]ptrDecl{"nonnil": tg.nonnil, "nilable": tg.nilable} {
		for _, d := range list {
			if _, dup := ns.decl[d.expr]; dup {
				return fmt.Errorf("%s: %s: pointer %s declared twice", tg.file, tg.lean, d.expr)
			}
			if d.field != "" {
				ft, ok := t.pkg.fieldType(d.field)
				if !ok || ft != d.typ || !strings.HasPrefix(ft, "*") {
					return fmt.Errorf("%s: %s: pointer %s: struct field %s has type %q, the target declares the pointer type %q", tg.file, tg.lean, d.expr, d.field, ft, d.typ)
				}
			} else if ty, known := ns.ptrs[d.expr]; known && ty != d.typ {
				return fmt.Errorf("%s: %s: pointer %s has type %q, the target declares %q", tg.file, tg.lean, d.expr, ty, d.typ)
			}
			ns.decl[d.expr] = status
			ns.why[d.expr] = d.why
		}
	}
	// a declared pointer that is assigned inside the function: a nil check could be stale
	var bad error
	ast.Inspect(fd.Body, func(n ast.Node) bool {
		switch x := n.(type) {
		case *ast.AssignStmt:
			for _, l := range x.Lhs {
				if _, ok := ns.decl[types.ExprString(l)]; ok && bad == nil {
					bad = fmt.Errorf("%s: %s: pointer %s is assigned inside the function", t.fset.Position(x.Pos()), tg.lean, types.ExprString(l))
				}
			}
		case *ast.UnaryExpr:
			if x.Op == token.AND {
				if _, ok := ns.decl[types.ExprString(x.X)]; ok && bad == nil {
					bad = fmt.Errorf("%s: %s: address of pointer %s is taken inside the function", t.fset.Position(x.Pos()), tg.lean, types.ExprString(x.X))
				}
			}
		}
		return true
	})
	if bad != nil {
		return bad
	}
	for _, pr := range tg.params {
		if pr.opt != "" && ns.decl[pr.opt] != "nilable" {
			return fmt.Errorf("%s: %s: Option parameter %s: pointer %s is not declared nilable", tg.file, tg.lean, pr.name, pr.opt)
		}
	}
	t.nil = ns
	return nil
}

// derefBases lists the base expressions a source text dereferences: X of every selector X.f (field access and
// method calls) and of every *X
func (ns *nilState) derefBases(src string) ([]string, error) {
	if d, ok := ns.derefs[src]; ok {
		return d, nil
	}
	e, err := parser.ParseExpr(src)
	if err != nil {
		return nil, err
	}
	seen := map[string]bool{}
	out := []string{}
	add := func(x ast.Expr) {
		for {
			pe, ok := x.(*ast.ParenExpr)
			if !ok {
				break
			}
			x = pe.X
		}
		s := types.ExprString(x)
		if !seen[s] {
			seen[s] = true
			out = append(out, s)
		}
	}
	ast.Inspect(e, func(n ast.Node) bool {
		switch x := n.(type) {
		case *ast.SelectorExpr:
			add(x.X)
		case *ast.StarExpr:
			add(x.X)
		}
		return true
	})
	ns.derefs[src] = out
	return out, nil
}

func (t *tr2) nilFact(ptr, status string) {
	ns := t.nil
	if ns.seen[ptr] {
		return
	}
	ns.seen[ptr] = true
	fn := t.tg.name
	if t.tg.recv != "" {
		fn = "(*" + t.tg.recv + ")." + fn
	}
	ns.facts = append(ns.facts, nilFact{lean: t.tg.lean, fn: fn, ptr: ptr, status: status, why: ns.why[ptr]})
}

// nilDeref checks one dereference of base expression `base` at node n
func (t *tr2) nilDeref(n ast.Node, base, what string) {
	ns := t.nil
	if base == ns.recv || ns.pkgs[base] {
		return
	}
	status, declared := ns.decl[base]
	if !declared {
		ty, known := ns.ptrs[base]
		switch {
		case known && ty == "":
			return // a value, not a pointer
		case known:
			t.fail(n, fmt.Sprintf("%s dereferences the pointer %s (%s), which the target declares neither nonnil nor nilable", what, base, ty))
		default:
			t.fail(n, fmt.Sprintf("%s dereferences %s, whose type the translator cannot see: declare it nonnil or nilable", what, base))
		}
		return
	}
	if status == "nonnil" {
		t.nilFact(base, "nonnil-assumed")
		return
	}
	if !nonNilAt(ns.fd, n.Pos())[base] {
		t.fail(n, fmt.Sprintf("%s dereferences the pointer %s, which may be nil, and no nil check of it dominates this place", what, base))
		return
	}
	t.nilFact(base, "nil-checked")
}

// nilSubst translates the use of a parameter that stands for source text (expression e)
func (t *tr2) nilSubst(e ast.Expr, pr param) tv {
	if t.nil == nil {
		return t.fail(e, "Option parameter in a target that is not nilsafe")
	}
	ns := t.nil
	if pr.optTest != "" {
		// `p == nil` / `p != nil` of the pointer behind an Option parameter: no dereference
		t.nilFact(pr.opt, "nil-checked")
		if ns.bound[pr.name] {
			return tv{s: map[string]string{"isNone": "false", "isSome": "true"}[pr.optTest], ty: "bool"}
		}
		return tv{s: "(" + lname(pr.name) + "." + pr.optTest + ")", ty: "bool"}
	}
	bases, err := ns.derefBases(pr.src)
	if err != nil {
		return t.fail(e, "source text of parameter "+pr.name+" does not parse: "+err.Error())
	}
	for _, b := range bases {
		t.nilDeref(e, b, "`"+pr.src+"`")
	}
	if pr.opt != "" {
		found := false
		for _, b := range bases {
			found = found || b == pr.opt
		}
		if !found {
			return t.fail(e, "source text of Option parameter "+pr.name+" does not dereference "+pr.opt)
		}
		if ns.bound[pr.name] {
			return tv{s: lname(pr.name), ty: pr.ty}
		}
		// dominated by a nil check that is not a statement-level `if p == nil { return }` (checked above)
		return tv{s: "(" + lname(pr.name) + ".getD 0)", ty: pr.ty}
	}
	return tv{s: lname(pr.name), ty: pr.ty}
}

// nilMatch: `if p == nil { …return }` followed by the rest of the function, p the pointer of an Option parameter
func (t *tr2) nilMatch(x *ast.IfStmt, rest []ast.Stmt, indent string, results []gtype) (string, bool) {
	if t.nil == nil || x.Else != nil || x.Init != nil {
		return "", false
	}
	pr, ok := t.subst[types.ExprString(x.Cond)]
	if !ok || pr.optTest != "isNone" || t.nil.bound[pr.name] {
		return "", false
	}
	t.nilFact(pr.opt, "nil-checked")
	saved := map[string]gtype{}
	for k, v := range t.env {
		saved[k] = v
	}
	th := t.stmts(x.Body.List, indent+"  ", results)
	t.env = saved
	t.nil.bound[pr.name] = true
	el := t.stmts(rest, indent+"  ", results)
	delete(t.nil.bound, pr.name)
	n := lname(pr.name)
	return indent + "match " + n + " with\n" + indent + "| none =>\n" + th + "\n" + indent + "| some " + n + " =>\n" + el, true
}

// selfCall translates `recv.Method(args)` for a method of the receiver itself that is a nilsafe translated target
func (t *tr2) selfCall(x *ast.CallExpr, method, lean string) tv {
	var cal *target2
	for i := range targets2 {
		if targets2[i].lean == lean {
			cal = &targets2[i]
		}
	}
	tg := t.tg
	if cal == nil || cal.kind != "whole" || cal.panics || !cal.nilsafe || cal.file != tg.file || cal.recv != tg.recv || cal.name != method {
		return t.fail(x, "self call of "+method+": "+lean+" is not a nilsafe whole-function translation of that method")
	}
	if cal.want == "" {
		return t.fail(x, "method "+method+" must be translated before its caller")
	}
	isGo := map[string]bool{}
	for _, n := range cal.goParams {
		isGo[n] = true
	}
	args := []string{}
	j := 0
	for _, pr := range cal.params {
		switch {
		case pr.src != "":
			// the same piece of the receiver's state: a parameter of the caller with the same source text
			var q *param
			for i := range tg.params {
				if tg.params[i].src == pr.src && tg.params[i].ty == pr.ty && tg.params[i].opt == pr.opt {
					q = &tg.params[i]
				}
			}
			if q == nil {
				return t.fail(x, fmt.Sprintf("self call of %s: the caller has no parameter for `%s` (%s)", method, pr.src, pr.ty))
			}
			if q.opt != "" && t.nil.bound[q.name] {
				args = append(args, "(some "+lname(q.name)+")")
			} else {
				args = append(args, lname(q.name))
			}
		case isGo[pr.name]:
			if j >= len(x.Args) {
				return t.fail(x, "call arity of "+method)
			}
			a := x.Args[j]
			j++
			if _, isPtr := t.nil.decl[types.ExprString(a)]; isPtr {
				return t.fail(a, "pointer "+types.ExprString(a)+" passed to a method: the nil discipline does not follow pointers through calls")
			}
			if ty, known := t.nil.ptrs[types.ExprString(a)]; known && ty != "" {
				return t.fail(a, "pointer "+types.ExprString(a)+" passed to a method: the nil discipline does not follow pointers through calls")
			}
			if u, ok := a.(*ast.UnaryExpr); ok && u.Op == token.AND {
				return t.fail(a, "address "+types.ExprString(a)+" passed to a method: the nil discipline does not follow pointers through calls")
			}
			v := t.expr(a)
			if v.ty == untyped {
				v = t.coerce(x, v, pr.ty)
			}
			if v.ty != pr.ty {
				return t.fail(x, fmt.Sprintf("argument of %s has type %s, the method takes %s", method, v.ty, pr.ty))
			}
			args = append(args, v.s)
		default:
			ty, ok := t.env[pr.name]
			if !ok || ty != pr.ty {
				return t.fail(x, fmt.Sprintf("self call of %s: %s (%s) is not a parameter of the caller", method, pr.name, pr.ty))
			}
			args = append(args, lname(pr.name))
		}
	}
	if j != len(x.Args) {
		return t.fail(x, "call arity of "+method+" (arguments that are not translated parameters of the callee)")
	}
	// the callee's assumptions are the caller's
	for _, d := range cal.nonnil {
		if t.nil.decl[d.expr] != "nonnil" {
			return t.fail(x, "self call of "+method+": the callee assumes "+d.expr+" non-nil, the caller does not declare it")
		}
	}
	return tv{s: "(" + cal.lean + " " + strings.Join(args, " ") + ")", ty: cal.want}
}

// ---- dominance ---------------------------------------------------------------------------------------

func directChildren(n ast.Node) []ast.Node {
	var out []ast.Node
	first := true
	ast.Inspect(n, func(c ast.Node) bool {
		if c == nil {
			return false
		}
		if first {
			first = false
			return true
		}
		out = append(out, c)
		return false
	})
	return out
}

func within(n ast.Node, pos token.Pos) bool { return n != nil && n.Pos() <= pos && pos < n.End() }

func stripParens(e ast.Expr) ast.Expr {
	for {
		pe, ok := e.(*ast.ParenExpr)
		if !ok {
			return e
		}
		e = pe.X
	}
}

// nilTests: the pointers known to be non-nil when cond evaluates to `truth`
func nilTests(cond ast.Expr, truth bool, into map[string]bool) {
	switch x := stripParens(cond).(type) {
	case *ast.BinaryExpr:
		switch {
		case x.Op == token.LAND && truth, x.Op == token.LOR && !truth:
			nilTests(x.X, truth, into)
			nilTests(x.Y, truth, into)
		case (x.Op == token.NEQ && truth) || (x.Op == token.EQL && !truth):
			if id, ok := stripParens(x.Y).(*ast.Ident); ok && id.Name == "nil" {
				into[types.ExprString(stripParens(x.X))] = true
			} else if id, ok := stripParens(x.X).(*ast.Ident); ok && id.Name == "nil" {
				into[types.ExprString(stripParens(x.Y))] = true
			}
		}
	case *ast.UnaryExpr:
		if x.Op == token.NOT {
			nilTests(x.X, !truth, into)
		}
	}
}

// terminates: the statement list cannot fall through its end
func terminates(list []ast.Stmt) bool {
	if len(list) == 0 {
		return false
	}
	switch x := list[len(list)-1].(type) {
	case *ast.ReturnStmt:
		return true
	case *ast.BranchStmt:
		return x.Tok == token.CONTINUE || x.Tok == token.BREAK || x.Tok == token.GOTO
	case *ast.ExprStmt:
		if c, ok := x.X.(*ast.CallExpr); ok {
			if id, ok := c.Fun.(*ast.Ident); ok && id.Name == "panic" {
				return true
			}
		}
	case *ast.BlockStmt:
		return terminates(x.List)
	}
	return false
}

func copySet(m map[string]bool) map[string]bool {
	out := map[string]bool{}
	for k := range m {
		out[k] = true
	}
	return out
}

// nonNilAt returns the pointer expressions (source text) that a nil check proves non-nil at position pos
func nonNilAt(fd *ast.FuncDecl, pos token.Pos) map[string]bool {
	return nonNilIn(fd.Body, pos, map[string]bool{})
}

func nonNilList(list []ast.Stmt, pos token.Pos, known map[string]bool) map[string]bool {
	known = copySet(known)
	for _, s := range list {
		if within(s, pos) {
			return nonNilIn(s, pos, known)
		}
		if s.End() <= pos {
			if is, ok := s.(*ast.IfStmt); ok && is.Else == nil && is.Init == nil && terminates(is.Body.List) {
				nilTests(is.Cond, false, known)
			}
		}
	}
	return known
}

func nonNilIn(n ast.Node, pos token.Pos, known map[string]bool) map[string]bool {
	switch x := n.(type) {
	case *ast.BlockStmt:
		return nonNilList(x.List, pos, known)
	case *ast.CaseClause:
		return nonNilList(x.Body, pos, known)
	case *ast.CommClause:
		return nonNilList(x.Body, pos, known)
	case *ast.IfStmt:
		switch {
		case within(x.Body, pos):
			k := copySet(known)
			nilTests(x.Cond, true, k)
			return nonNilIn(x.Body, pos, k)
		case within(x.Else, pos):
			k := copySet(known)
			nilTests(x.Cond, false, k)
			return nonNilIn(x.Else, pos, k)
		}
	case *ast.BinaryExpr:
		if (x.Op == token.LAND || x.Op == token.LOR) && within(x.Y, pos) {
			k := copySet(known)
			nilTests(x.X, x.Op == token.LAND, k)
			return nonNilIn(x.Y, pos, k)
		}
	case *ast.FuncLit:
		// a closure may run later: nothing is known inside
		if within(x.Body, pos) {
			return nonNilIn(x.Body, pos, map[string]bool{})
		}
	}
	for _, c := range directChildren(n) {
		if within(c, pos) {
			return nonNilIn(c, pos, known)
		}
	}
	return known
}

// ---- generated table -----------------------------------------------------------------------------------

func leanStr(s string) string {
	return "\"" + strings.ReplaceAll(strings.ReplaceAll(s, "\\", "\\\\"), "\"", "\\\"") + "\""
}

// nilFactsLean: the table of every pointer the nilsafe translations dereference, with its status
func nilFactsLean() string {
	var b strings.Builder
	b.WriteString("/-- nil discipline of the definitions translated with the pointer check (tools/fngen/nil.go): every pointer the\ntranslated fragment dereferences — (definition, Go function, pointer expression, status, note). `nil-checked`: the\npointer may be nil and every dereference is dominated by a nil check of it (a dereference that is not is a\ntranslator error); `nonnil-assumed`: the translation assumes the callers never pass nil -/\n")
	b.WriteString("def nilDiscipline : List (String × String × String × String × String) := [\n")
	for i, f := range nilFacts {
		sep := ","
		if i == len(nilFacts)-1 {
			sep = ""
		}
		b.WriteString("  (" + leanStr(f.lean) + ", " + leanStr(f.fn) + ", " + leanStr(f.ptr) + ", " + leanStr(f.status) + ", " + leanStr(f.why) + ")" + sep + "\n")
	}
	b.WriteString("]\n\n")
	return b.String()
}

// ---- C09: the fork-choice predicates Executer.process evaluates, over an absent receive time ----------------

var fcNonNil = []ptrDecl{
	{expr: "c.lastHeader", field: "forkChoice.lastHeader", typ: "*blockchain.BlockHeader", why: "Executer.process passes chain.LastBlock().Header"},
	{expr: "c.currentHeader", field: "forkChoice.currentHeader", typ: "*blockchain.BlockHeader", why: "Executer.process passes the header of a decoded / posted block"},
	{expr: "c.slot", field: "forkChoice.slot", typ: "*validator.BlockSlot", why: "Executer.process passes the slot calculator Init built"},
}
var fcNilable = []ptrDecl{
	{expr: "c.lastBlockReceivedAt", field: "forkChoice.lastBlockReceivedAt", typ: "*time.Time"},
}
var fcSlotMethods = []methodRecv{{expr: "c.slot", field: "forkChoice.slot", typ: "*validator.BlockSlot", file: "pkg/consensus/validator/block_slot.go", recv: "BlockSlot"}}

const fcFile = "pkg/consensus/forkchoice/fork_choice.go"

var fcDupParams = []param{ps("lastHeight", "uint32", "c.lastHeader.Height"), ps("height", "uint32", "c.currentHeader.Height"),
	ps("lastMaxHeightPrevoted", "uint32", "c.lastHeader.MaxHeightPrevoted"), ps("maxHeightPrevoted", "uint32", "c.currentHeader.MaxHeightPrevoted"),
	ps("samePrevious", "bool", "bytes.Equal(c.lastHeader.PreviousBlockID, c.currentHeader.PreviousBlockID)")}

func fcTarget(name, lean, kind string, params []param, self map[string]string) target2 {
	return target2{file: fcFile, recv: "forkChoice", name: name, lean: lean, kind: kind, params: params, methods: fcSlotMethods,
		nilsafe: true, nonnil: fcNonNil, nilable: fcNilable, selfCalls: self}
}

func init() {
	// the three C07 targets get the pointer check (their generated text is unchanged)
	for i := range targets2 {
		tg := &targets2[i]
		if tg.file == fcFile && tg.recv == "forkChoice" {
			tg.nilsafe, tg.nonnil, tg.nilable = true, fcNonNil, fcNilable
		}
	}
	cat := func(ls ...[]param) []param {
		out := []param{}
		for _, l := range ls {
			out = append(out, l...)
		}
		return out
	}
	targets2 = append(targets2,
		fcTarget("IsIdenticalBlock", "fcnIsIdenticalBlock", "whole", []param{ps("sameID", "bool", "bytes.Equal(c.lastHeader.ID, c.currentHeader.ID)")}, nil),
		fcTarget("IsValidBlock", "fcnIsValidBlock", "whole", []param{ps("lastHeight", "uint32", "c.lastHeader.Height"), ps("height", "uint32", "c.currentHeader.Height"),
			ps("linked", "bool", "bytes.Equal(c.lastHeader.ID, c.currentHeader.PreviousBlockID)")}, nil),
		fcTarget("isDuplicateBlock", "fcnIsDuplicateBlock", "whole", fcDupParams, nil),
		fcTarget("IsDoubleForging", "fcnIsDoubleForging", "whole", cat(fcDupParams,
			[]param{ps("sameGenerator", "bool", "bytes.Equal(c.lastHeader.GeneratorAddress, c.currentHeader.GeneratorAddress)")}),
			map[string]string{"isDuplicateBlock": "fcnIsDuplicateBlock"}),
		// the nil case inside the definition: the receive time of the tip is `Option`
		fcTarget("receivedLastBlockWithinForgingSlot", "fcnLastReceivedInSlot", "whole", []param{
			popt("lastReceivedAt", "uint32", "uint32(c.lastBlockReceivedAt.Unix())", "c.lastBlockReceivedAt"),
			ps("lastTimestamp", "uint32", "c.lastHeader.Timestamp"), p("genesisTimestamp", "uint32"), p("blockTime", "uint32")}, nil),
		fcTarget("IsTieBreak", "fcnIsTieBreak", "ret", cat(fcDupParams, []param{
			ps("lastTimestamp", "uint32", "c.lastHeader.Timestamp"), ps("timestamp", "uint32", "c.currentHeader.Timestamp"),
			popt("lastReceivedAt", "uint32", "uint32(c.lastBlockReceivedAt.Unix())", "c.lastBlockReceivedAt"),
			ps("receivedAt", "uint32", "uint32(c.currentBlockReceivedAt.Unix())"), p("genesisTimestamp", "uint32"), p("blockTime", "uint32")}),
			map[string]string{"isDuplicateBlock": "fcnIsDuplicateBlock", "receivedLastBlockWithinForgingSlot": "fcnLastReceivedInSlot",
				"receivedBlockWithinForgingSlot": "fcReceivedBlockWithinForgingSlot"}),
		target2{file: fcFile, name: "IsDifferentChain", lean: "fcnIsDifferentChainFn", kind: "whole",
			params: []param{p("lastMaxHeightPrevoted", "uint32"), p("maxHeightPrevoted", "uint32"), p("lastHeight", "uint32"), p("height", "uint32")}},
		fcTarget("IsDifferentChain", "fcnIsDifferentChain", "whole", fcDupParams[:4], nil),
	)
}
