module fngen

go 1.21
