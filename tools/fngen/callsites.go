package main

// callsites.go: structural facts about how a function uses a trie it creates.
//
// blockchain.CalculateEventRoot builds the event tree of a block.  pkg/trie/smt can read stored subtrees back only
// when the leaf values have 32 bytes (newSubTree), the values of the event tree are raw encoded events: the root of
// the block's pair map is obtained only if the pairs reach the trie in ONE Update on the fresh trie.  The facts below
// are regenerated from the source: every `<trie>.Update(...)` call on a variable assigned from `smt.NewTrie(...)` with
// the number of enclosing loops and of enclosing conditional constructs (if / switch / select / func literal / defer /
// go), the number of NewTrie calls, and every other use of the trie variable.  Props/C10_Events.lean requires
// exactly one Update site, at depth (0, 0), one trie and no other use.

import (
	"fmt"
	"go/ast"
	"go/parser"
	"go/token"
	"path/filepath"
	"strings"
)

func callSitesLean(repo string) (string, error) {
	const file, fn = "pkg/blockchain/event.go", "CalculateEventRoot"
	fset := token.NewFileSet()
	f, err := parser.ParseFile(fset, filepath.Join(repo, file), nil, 0)
	if err != nil {
		return "", err
	}
	var fd *ast.FuncDecl
	for _, d := range f.Decls {
		if x, ok := d.(*ast.FuncDecl); ok && x.Recv == nil && x.Name.Name == fn {
			fd = x
		}
	}
	if fd == nil || fd.Body == nil {
		return "", fmt.Errorf("%s: func %s not found", file, fn)
	}
	isNewTrie := func(e ast.Expr) bool {
		c, ok := e.(*ast.CallExpr)
		if !ok {
			return false
		}
		s, ok := c.Fun.(*ast.SelectorExpr)
		if !ok {
			return false
		}
		p, ok := s.X.(*ast.Ident)
		return ok && p.Name == "smt" && s.Sel.Name == "NewTrie"
	}
	tries := map[string]bool{}
	defs := map[*ast.Ident]bool{}
	nTries := 0
	ast.Inspect(fd.Body, func(n ast.Node) bool {
		switch x := n.(type) {
		case *ast.CallExpr:
			if isNewTrie(x) {
				nTries++
			}
		case *ast.AssignStmt:
			for i, r := range x.Rhs {
				if isNewTrie(r) && len(x.Lhs) == len(x.Rhs) {
					if id, ok := x.Lhs[i].(*ast.Ident); ok {
						tries[id.Name] = true
						defs[id] = true
					}
				}
			}
		case *ast.ValueSpec:
			for i, r := range x.Values {
				if isNewTrie(r) && len(x.Names) == len(x.Values) {
					tries[x.Names[i].Name] = true
					defs[x.Names[i]] = true
				}
			}
		}
		return true
	})
	type site struct{ loops, conds int }
	sites := []site{}
	other := []string{}
	receivers := map[*ast.Ident]bool{}
	stack := []ast.Node{}
	ast.Inspect(fd.Body, func(n ast.Node) bool {
		if n == nil {
			stack = stack[:len(stack)-1]
			return true
		}
		if c, ok := n.(*ast.CallExpr); ok {
			if s, ok := c.Fun.(*ast.SelectorExpr); ok {
				if id, ok := s.X.(*ast.Ident); ok && tries[id.Name] && s.Sel.Name == "Update" {
					st := site{}
					for _, p := range stack {
						switch p.(type) {
						case *ast.ForStmt, *ast.RangeStmt:
							st.loops++
						case *ast.IfStmt, *ast.SwitchStmt, *ast.TypeSwitchStmt, *ast.SelectStmt, *ast.FuncLit, *ast.DeferStmt, *ast.GoStmt, *ast.LabeledStmt:
							st.conds++
						}
					}
					sites = append(sites, st)
					receivers[id] = true
				}
			}
		}
		if id, ok := n.(*ast.Ident); ok && tries[id.Name] && !defs[id] && !receivers[id] {
			pos := fset.Position(id.Pos())
			_ = pos
			use := id.Name
			if len(stack) > 0 {
				if s, ok := stack[len(stack)-1].(*ast.SelectorExpr); ok && s.X == id {
					use = id.Name + "." + s.Sel.Name
				}
			}
			other = append(other, use)
		}
		stack = append(stack, n)
		return true
	})
	var b strings.Builder
	b.WriteString("/-- " + file + ": " + fn + " — the `Update` calls on the trie made by `smt.NewTrie`: (enclosing loops, enclosing\nif / switch / select / func literal / defer / go) of each call, in source order (tools/fngen/callsites.go) -/\n")
	b.WriteString("def eventRootUpdateSites : List (Nat × Nat) := [")
	for i, s := range sites {
		if i > 0 {
			b.WriteString(", ")
		}
		fmt.Fprintf(&b, "(%d, %d)", s.loops, s.conds)
	}
	b.WriteString("]\n\n")
	fmt.Fprintf(&b, "/-- "+fn+": number of `smt.NewTrie` calls -/\ndef eventRootTries : Nat := %d\n\n", nTries)
	b.WriteString("/-- " + fn + ": every other use of the trie variable (other methods, passing it on) -/\ndef eventRootTrieOtherUses : List String := [")
	for i, u := range other {
		if i > 0 {
			b.WriteString(", ")
		}
		fmt.Fprintf(&b, "%q", u)
	}
	b.WriteString("]\n\n")
	return b.String(), nil
}
