// Command fngen regenerates lean/LiskVerif/Gen/Fns.lean from the current source of /repo:
// a whitelisted set of side-effect-free Go decision functions is translated, statement by
// statement, into Lean definitions (tie A of DESIGN.md §3.3). Unsupported syntax is an error.
package main

import (
	"fmt"
	"go/ast"
	"go/parser"
	"go/token"
	"os"
	"path/filepath"
	"strings"
	"unicode"
)

type target struct {
	file   string // relative to repo root
	recv   string // receiver type name ("" for plain functions)
	name   string // Go name
	lean   string // Lean name
	params string // Lean parameter list (overrides the Go one)
	drop   int    // number of leading Go parameters dropped (e.g. an unused store)
}

var targets = []target{
	{file: "pkg/consensus/contradiction/contradiction.go", name: "AreDistinctHeadersContradicting", lean: "areDistinctHeadersContradicting", params: "(b1 b2 : Hdr)"},
	{file: "pkg/consensus/forkchoice/fork_choice.go", name: "IsDifferentChain", lean: "isDifferentChain", params: "(lastMaxHeightPrevoted maxHeightPrevoted lastHeight height : Nat)"},
	{file: "pkg/consensus/forkchoice/fork_choice.go", recv: "forkChoice", name: "isDuplicateBlock", lean: "fcIsDuplicateBlock", params: "(c : FC)"},
	{file: "pkg/consensus/forkchoice/fork_choice.go", recv: "forkChoice", name: "IsValidBlock", lean: "fcIsValidBlock", params: "(c : FC)"},
	{file: "pkg/consensus/forkchoice/fork_choice.go", recv: "forkChoice", name: "IsIdenticalBlock", lean: "fcIsIdenticalBlock", params: "(c : FC)"},
	{file: "pkg/consensus/forkchoice/fork_choice.go", recv: "forkChoice", name: "IsDoubleForging", lean: "fcIsDoubleForging", params: "(c : FC)"},
	{file: "pkg/consensus/forkchoice/fork_choice.go", recv: "forkChoice", name: "IsTieBreak", lean: "fcIsTieBreak", params: "(c : FC)"},
	{file: "pkg/consensus/forkchoice/fork_choice.go", recv: "forkChoice", name: "IsDifferentChain", lean: "fcIsDifferentChain", params: "(c : FC)"},
	{file: "pkg/consensus/liskbft/api.go", recv: "API", name: "HeaderHasPriority", lean: "headerHasPriority", params: "(header : Hdr) (height maxHeightPrevoted maxHeightPreviouslyForged : Nat)"},
}

// methods of the receiver that are translated (others become opaque fields of the record)
var methodNames = map[string]string{}

func lowerFirst(s string) string {
	if s == "" {
		return s
	}
	allUpper := true
	for _, r := range s {
		if !unicode.IsUpper(r) && !unicode.IsDigit(r) {
			allUpper = false
		}
	}
	if allUpper {
		return strings.ToLower(s)
	}
	r := []rune(s)
	r[0] = unicode.ToLower(r[0])
	return string(r)
}

type tr struct {
	fset *token.FileSet
	recv string // receiver variable name
	err  error
}

func (t *tr) fail(n ast.Node, msg string) string {
	if t.err == nil {
		t.err = fmt.Errorf("%s: unsupported: %s", t.fset.Position(n.Pos()), msg)
	}
	return "sorry_unsupported"
}

const u32 = "4294967296"

func (t *tr) expr(e ast.Expr) string {
	switch x := e.(type) {
	case *ast.ParenExpr:
		return "(" + t.expr(x.X) + ")"
	case *ast.Ident:
		switch x.Name {
		case "true", "false":
			return x.Name
		}
		return x.Name
	case *ast.BasicLit:
		if x.Kind == token.INT {
			return x.Value
		}
		return t.fail(e, "literal "+x.Value)
	case *ast.UnaryExpr:
		if x.Op == token.NOT {
			return "(!" + t.expr(x.X) + ")"
		}
		return t.fail(e, "unary "+x.Op.String())
	case *ast.BinaryExpr:
		a, b := t.expr(x.X), t.expr(x.Y)
		switch x.Op {
		case token.LAND:
			return "(" + a + " && " + b + ")"
		case token.LOR:
			return "(" + a + " || " + b + ")"
		case token.GTR:
			return "decide (" + a + " > " + b + ")"
		case token.LSS:
			return "decide (" + a + " < " + b + ")"
		case token.GEQ:
			return "decide (" + a + " ≥ " + b + ")"
		case token.LEQ:
			return "decide (" + a + " ≤ " + b + ")"
		case token.EQL:
			return "decide (" + a + " = " + b + ")"
		case token.NEQ:
			return "decide (" + a + " ≠ " + b + ")"
		case token.ADD:
			return "((" + a + " + " + b + ") % " + u32 + ")"
		}
		return t.fail(e, "binary "+x.Op.String())
	case *ast.SelectorExpr:
		return t.expr(x.X) + "." + lowerFirst(x.Sel.Name)
	case *ast.CallExpr:
		// bytes.Equal(a, b)
		if se, ok := x.Fun.(*ast.SelectorExpr); ok {
			if id, ok := se.X.(*ast.Ident); ok && id.Name == "bytes" && se.Sel.Name == "Equal" && len(x.Args) == 2 {
				return "decide (" + t.expr(x.Args[0]) + " = " + t.expr(x.Args[1]) + ")"
			}
			// method of the receiver that is itself translated
			if id, ok := se.X.(*ast.Ident); ok && id.Name == t.recv && t.recv != "" {
				if ln, ok := methodNames[se.Sel.Name]; ok && len(x.Args) == 0 {
					return "(" + ln + " " + t.recv + ")"
				}
			}
			// getter / opaque method: x.Height() -> x.height ; x.slot.GetSlotNumber(a) -> (x.slot.getSlotNumber a)
			s := t.expr(se.X) + "." + lowerFirst(se.Sel.Name)
			if len(x.Args) == 0 {
				return s
			}
			args := []string{}
			for _, a := range x.Args {
				args = append(args, "("+t.expr(a)+")")
			}
			return "(" + s + " " + strings.Join(args, " ") + ")"
		}
		if id, ok := x.Fun.(*ast.Ident); ok {
			// conversions uint32(x), int(x): value preserving in the ranges used
			if (id.Name == "uint32" || id.Name == "int" || id.Name == "uint64") && len(x.Args) == 1 {
				return t.expr(x.Args[0])
			}
			// call of another translated plain function
			for _, tg := range targets {
				if tg.recv == "" && tg.name == id.Name {
					args := []string{}
					for _, a := range x.Args {
						args = append(args, "("+t.expr(a)+")")
					}
					return "(" + tg.lean + " " + strings.Join(args, " ") + ")"
				}
			}
		}
		return t.fail(e, "call")
	}
	return t.fail(e, fmt.Sprintf("expression %T", e))
}

// stmts translates a statement list into one Lean expression.
func (t *tr) stmts(list []ast.Stmt, indent string) string {
	if len(list) == 0 {
		return t.fail(&ast.BadStmt{}, "function falls off the end")
	}
	s := list[0]
	rest := list[1:]
	switch x := s.(type) {
	case *ast.ReturnStmt:
		if len(x.Results) == 0 {
			return t.fail(s, "bare return")
		}
		if len(x.Results) == 2 {
			if id, ok := x.Results[1].(*ast.Ident); !ok || id.Name != "nil" {
				return t.fail(s, "non-nil error result")
			}
		}
		return indent + t.expr(x.Results[0])
	case *ast.AssignStmt:
		if len(x.Lhs) != len(x.Rhs) {
			return t.fail(s, "assignment arity")
		}
		names := []string{}
		vals := []string{}
		for i := range x.Lhs {
			id, ok := x.Lhs[i].(*ast.Ident)
			if !ok {
				return t.fail(s, "assignment target")
			}
			names = append(names, id.Name)
			vals = append(vals, t.expr(x.Rhs[i]))
		}
		if len(names) == 1 {
			return indent + "let " + names[0] + " := " + vals[0] + "\n" + t.stmts(rest, indent)
		}
		return indent + "let (" + strings.Join(names, ", ") + ") := (" + strings.Join(vals, ", ") + ")\n" + t.stmts(rest, indent)
	case *ast.IfStmt:
		if x.Init != nil || x.Else != nil {
			return t.fail(s, "if with init/else")
		}
		cond := t.expr(x.Cond)
		body := x.Body.List
		if len(body) > 0 {
			if _, ok := body[len(body)-1].(*ast.ReturnStmt); ok {
				return indent + "if " + cond + " then\n" + t.stmts(body, indent+"  ") + "\n" + indent + "else\n" + t.stmts(rest, indent+"  ")
			}
		}
		// body made of one (tuple) assignment to existing variables
		if len(body) == 1 {
			if as, ok := body[0].(*ast.AssignStmt); ok && as.Tok == token.ASSIGN && len(as.Lhs) == len(as.Rhs) {
				names, vals := []string{}, []string{}
				for i := range as.Lhs {
					id, ok := as.Lhs[i].(*ast.Ident)
					if !ok {
						return t.fail(s, "assignment target")
					}
					names = append(names, id.Name)
					vals = append(vals, t.expr(as.Rhs[i]))
				}
				lhs := "(" + strings.Join(names, ", ") + ")"
				if len(names) == 1 {
					lhs = names[0]
				}
				return indent + "let " + lhs + " := if " + cond + " then (" + strings.Join(vals, ", ") + ") else (" + strings.Join(names, ", ") + ")\n" + t.stmts(rest, indent)
			}
		}
		return t.fail(s, "if body")
	}
	return t.fail(s, fmt.Sprintf("statement %T", s))
}

func findFunc(f *ast.File, recv, name string) *ast.FuncDecl {
	for _, d := range f.Decls {
		fd, ok := d.(*ast.FuncDecl)
		if !ok || fd.Name.Name != name {
			continue
		}
		r := ""
		if fd.Recv != nil && len(fd.Recv.List) == 1 {
			ty := fd.Recv.List[0].Type
			if st, ok := ty.(*ast.StarExpr); ok {
				ty = st.X
			}
			if id, ok := ty.(*ast.Ident); ok {
				r = id.Name
			}
		}
		if r == recv {
			return fd
		}
	}
	return nil
}

func main() {
	repo := "/repo"
	out := ""
	for i := 1; i < len(os.Args); i++ {
		switch os.Args[i] {
		case "-repo":
			repo = os.Args[i+1]
			i++
		case "-out":
			out = os.Args[i+1]
			i++
		}
	}
	for _, tg := range targets {
		if tg.recv == "forkChoice" {
			methodNames[tg.name] = tg.lean
		}
	}
	fset := token.NewFileSet()
	files := map[string]*ast.File{}
	var b strings.Builder
	b.WriteString("/- GENERATED by tools/fngen from /repo — do not edit. Regenerated on every check run. -/\n")
	b.WriteString("import LiskVerif.Model.Header\n\nnamespace LiskVerif.Gen\nopen LiskVerif\n\n")
	for _, tg := range targets {
		f := files[tg.file]
		if f == nil {
			var err error
			f, err = parser.ParseFile(fset, filepath.Join(repo, tg.file), nil, 0)
			if err != nil {
				fmt.Fprintln(os.Stderr, "fngen:", err)
				os.Exit(1)
			}
			files[tg.file] = f
		}
		fd := findFunc(f, tg.recv, tg.name)
		if fd == nil {
			fmt.Fprintf(os.Stderr, "fngen: %s: function %s.%s not found\n", tg.file, tg.recv, tg.name)
			os.Exit(1)
		}
		t := &tr{fset: fset}
		if fd.Recv != nil && len(fd.Recv.List[0].Names) == 1 {
			t.recv = fd.Recv.List[0].Names[0].Name
		}
		body := t.stmts(fd.Body.List, "  ")
		if t.err != nil {
			fmt.Fprintln(os.Stderr, "fngen:", t.err)
			os.Exit(1)
		}
		fmt.Fprintf(&b, "/-- %s: %s%s -/\ndef %s %s : Bool :=\n%s\n\n", tg.file, map[bool]string{true: "(*" + tg.recv + ").", false: ""}[tg.recv != ""], tg.name, tg.lean, tg.params, body)
	}
	// the order in which Executer.process evaluates the fork choice predicates
	f, err := parser.ParseFile(fset, filepath.Join(repo, "pkg/consensus/execute.go"), nil, 0)
	if err != nil {
		fmt.Fprintln(os.Stderr, "fngen:", err)
		os.Exit(1)
	}
	fd := findFunc(f, "Executer", "process")
	if fd == nil {
		fmt.Fprintln(os.Stderr, "fngen: Executer.process not found")
		os.Exit(1)
	}
	order := []string{}
	for _, s := range fd.Body.List {
		is, ok := s.(*ast.IfStmt)
		if !ok {
			continue
		}
		ce, ok := is.Cond.(*ast.CallExpr)
		if !ok {
			continue
		}
		se, ok := ce.Fun.(*ast.SelectorExpr)
		if !ok {
			continue
		}
		if id, ok := se.X.(*ast.Ident); ok && strings.HasPrefix(strings.ToLower(id.Name), "forkcho") {
			order = append(order, "\""+se.Sel.Name+"\"")
		}
	}
	fmt.Fprintf(&b, "/-- order in which Executer.process evaluates the fork-choice predicates -/\ndef processOrder : List String := [%s]\n\nend LiskVerif.Gen\n", strings.Join(order, ", "))
	if out == "" {
		fmt.Print(b.String())
		return
	}
	tmp := out + ".tmp"
	if err := os.WriteFile(tmp, []byte(b.String()), 0o644); err != nil {
		fmt.Fprintln(os.Stderr, "fngen:", err)
		os.Exit(1)
	}
	if err := os.Rename(tmp, out); err != nil {
		fmt.Fprintln(os.Stderr, "fngen:", err)
		os.Exit(1)
	}
}
