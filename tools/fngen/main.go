// Command fngen regenerates lean/LiskVerif/Gen/Fns.lean from the current source of /repo:
// a whitelisted set of side-effect-free Go decision functions is translated, statement by
// statement, into Lean definitions (tie A of DESIGN.md §3.3). Unsupported syntax is an error.
package main

import (
	"fmt"
	"go/ast"
	"go/parser"
	"go/token"
	"go/types"
	"os"
	"path/filepath"
	"strings"
	"unicode"
)

type target struct {
	file   string // relative to repo root
	recv   string // receiver type name ("" for plain functions)
	name   string // Go name
	lean   string // Lean name
	params string // Lean parameter list (overrides the Go one)
	drop   int    // number of leading Go parameters dropped (e.g. an unused store)
	ret    string // Lean result type ("" = Bool)
	arith  string // integer arithmetic of non-constant operands: "" / "u32" (wraps mod 2^32), "u64" (wraps mod 2^64), "nat" (Go int assumed non-negative, no overflow; subtraction unsupported)
	except bool   // the last Go result is an error: `nil` -> .ok (other results), an error variable -> .error "Name"
	gosig  string // if set: the Go signature (types.ExprString of the FuncType) the Lean parameter list stands for; any change of a parameter / result TYPE (e.g. int -> uint32, invisible to a translation over Nat) is a translator error
	kind   string // "" = whole function body; "weightLoop", "bftGuards", "prevoteThreshold", "commitGuards" = fragment extraction (see below)
}

var targets = []target{
	{file: "pkg/consensus/contradiction/contradiction.go", name: "AreDistinctHeadersContradicting", lean: "areDistinctHeadersContradicting", params: "(b1 b2 : Hdr)"},
	{file: "pkg/consensus/forkchoice/fork_choice.go", name: "IsDifferentChain", lean: "isDifferentChain", params: "(lastMaxHeightPrevoted maxHeightPrevoted lastHeight height : Nat)"},
	{file: "pkg/consensus/forkchoice/fork_choice.go", recv: "forkChoice", name: "isDuplicateBlock", lean: "fcIsDuplicateBlock", params: "(c : FC)"},
	{file: "pkg/consensus/forkchoice/fork_choice.go", recv: "forkChoice", name: "IsValidBlock", lean: "fcIsValidBlock", params: "(c : FC)"},
	{file: "pkg/consensus/forkchoice/fork_choice.go", recv: "forkChoice", name: "IsIdenticalBlock", lean: "fcIsIdenticalBlock", params: "(c : FC)"},
	{file: "pkg/consensus/forkchoice/fork_choice.go", recv: "forkChoice", name: "IsDoubleForging", lean: "fcIsDoubleForging", params: "(c : FC)"},
	{file: "pkg/consensus/forkchoice/fork_choice.go", recv: "forkChoice", name: "IsTieBreak", lean: "fcIsTieBreak", params: "(c : FC)"},
	{file: "pkg/consensus/forkchoice/fork_choice.go", recv: "forkChoice", name: "IsDifferentChain", lean: "fcIsDifferentChain", params: "(c : FC)"},
	{file: "pkg/consensus/liskbft/api.go", recv: "API", name: "HeaderHasPriority", lean: "headerHasPriority", params: "(header : Hdr) (height maxHeightPrevoted maxHeightPreviouslyForged : Nat)"},
	{file: "pkg/codec/reader.go", name: "varintShortestSize", lean: "varintShortestSize", params: "(data : Nat)", ret: "Nat", arith: "u64", gosig: "func(data uint64) int"},
	{file: "pkg/codec/key.go", name: "readKey", lean: "readKey", params: "(val : Nat)", ret: "Except String (Nat × Nat)", arith: "nat", except: true, gosig: "func(val int) (int, int, error)"},
	{file: "pkg/consensus/liskbft/api.go", recv: "API", name: "SetBFTParameters", lean: "aggregateBFTWeightStep", params: "(aggregateBFTWeight bftWeight : Nat)", ret: "Nat × Nat", arith: "u64", kind: "weightLoop"},
	{file: "pkg/consensus/liskbft/api.go", recv: "API", name: "SetBFTParameters", lean: "setBFTParametersGuards", params: "(aggregateBFTWeight precommitThreshold certificateThreshold : Nat)", arith: "u64", kind: "bftGuards"},
	{file: "pkg/consensus/liskbft/api.go", recv: "API", name: "SetBFTParameters", lean: "prevoteThresholdOf", params: "(aggregateBFTWeight : Nat)", ret: "Nat", arith: "u64", kind: "prevoteThreshold"},
	{file: "pkg/consensus/certificate.go", recv: "Executer", name: "verifyAggregateCommit", lean: "aggregateCommitGuards", params: "(empty : Bool) (height mhc mhpc : Nat) (nextFound : Bool) (heightNext : Nat) (bitsEmpty sigEmpty : Bool)", ret: "Nat", arith: "u32", kind: "commitGuards"},
}

// methods of the receiver that are translated (others become opaque fields of the record)
var methodNames = map[string]string{}

func lowerFirst(s string) string {
	if s == "" {
		return s
	}
	allUpper := true
	for _, r := range s {
		if !unicode.IsUpper(r) && !unicode.IsDigit(r) {
			allUpper = false
		}
	}
	if allUpper {
		return strings.ToLower(s)
	}
	r := []rune(s)
	r[0] = unicode.ToLower(r[0])
	return string(r)
}

type tr struct {
	fset    *token.FileSet
	recv    string // receiver variable name
	err     error
	arith   string            // see target.arith
	except  bool              // see target.except
	subst   map[string]string // source text of a sub-expression that is a given parameter -> Lean parameter name
	allowed map[string]bool   // if non-nil: the only identifiers a translated fragment may mention
}

func (t *tr) fail(n ast.Node, msg string) string {
	if t.err == nil {
		t.err = fmt.Errorf("%s: unsupported: %s", t.fset.Position(n.Pos()), msg)
	}
	return "sorry_unsupported"
}

const u32 = "4294967296"
const u64 = "18446744073709551616"

// modulus of the wrapping integer arithmetic ("" for Go int treated as an unbounded natural)
func (t *tr) modulus() string {
	switch t.arith {
	case "u64":
		return u64
	case "nat":
		return ""
	}
	return u32
}

// constValue returns the defining expression of a file-level integer constant
func constValue(id *ast.Ident) ast.Expr {
	if id.Obj == nil || id.Obj.Kind != ast.Con {
		return nil
	}
	vs, ok := id.Obj.Decl.(*ast.ValueSpec)
	if !ok {
		return nil
	}
	for i, n := range vs.Names {
		if n.Name == id.Name && i < len(vs.Values) {
			return vs.Values[i]
		}
	}
	return nil
}

// isConstExpr: integer literals and file-level constants combined with << * + (Go evaluates such
// untyped constant expressions exactly, without wrap-around)
func isConstExpr(e ast.Expr) bool {
	switch x := e.(type) {
	case *ast.BasicLit:
		return x.Kind == token.INT
	case *ast.ParenExpr:
		return isConstExpr(x.X)
	case *ast.Ident:
		v := constValue(x)
		return v != nil && isConstExpr(v)
	case *ast.BinaryExpr:
		switch x.Op {
		case token.SHL, token.MUL, token.ADD:
			return isConstExpr(x.X) && isConstExpr(x.Y)
		}
	}
	return false
}

func (t *tr) expr(e ast.Expr) string {
	if t.subst != nil {
		if s, ok := t.subst[types.ExprString(e)]; ok {
			return s
		}
	}
	switch x := e.(type) {
	case *ast.ParenExpr:
		return "(" + t.expr(x.X) + ")"
	case *ast.Ident:
		switch x.Name {
		case "true", "false":
			return x.Name
		}
		if v := constValue(x); v != nil {
			if !isConstExpr(v) {
				return t.fail(e, "constant "+x.Name+" is not an integer constant expression")
			}
			return t.expr(v)
		}
		if t.allowed != nil && !t.allowed[x.Name] {
			return t.fail(e, "identifier "+x.Name+" is not a parameter of the extracted fragment")
		}
		return x.Name
	case *ast.BasicLit:
		if x.Kind == token.INT {
			return x.Value
		}
		return t.fail(e, "literal "+x.Value)
	case *ast.UnaryExpr:
		if x.Op == token.NOT {
			return "(!" + t.expr(x.X) + ")"
		}
		return t.fail(e, "unary "+x.Op.String())
	case *ast.BinaryExpr:
		a, b := t.expr(x.X), t.expr(x.Y)
		if isConstExpr(x) {
			switch x.Op {
			case token.SHL:
				return "(" + a + " <<< " + b + ")"
			case token.MUL:
				return "(" + a + " * " + b + ")"
			case token.ADD:
				return "(" + a + " + " + b + ")"
			}
		}
		switch x.Op {
		case token.LAND:
			return "(" + a + " && " + b + ")"
		case token.LOR:
			return "(" + a + " || " + b + ")"
		case token.GTR:
			return "decide (" + a + " > " + b + ")"
		case token.LSS:
			return "decide (" + a + " < " + b + ")"
		case token.GEQ:
			return "decide (" + a + " ≥ " + b + ")"
		case token.LEQ:
			return "decide (" + a + " ≤ " + b + ")"
		case token.EQL:
			return "decide (" + a + " = " + b + ")"
		case token.NEQ:
			return "decide (" + a + " ≠ " + b + ")"
		case token.ADD:
			if m := t.modulus(); m != "" {
				return "((" + a + " + " + b + ") % " + m + ")"
			}
			return "(" + a + " + " + b + ")"
		case token.MUL:
			if m := t.modulus(); m != "" {
				return "((" + a + " * " + b + ") % " + m + ")"
			}
			return "(" + a + " * " + b + ")"
		case token.SUB:
			if m := t.modulus(); m != "" {
				return "((" + a + " + " + m + " - " + b + ") % " + m + ")"
			}
			return t.fail(e, "subtraction on Go int")
		case token.QUO:
			// division by a non-zero constant only (a zero divisor panics in Go)
			if isConstExpr(x.Y) && b != "0" {
				return "(" + a + " / " + b + ")"
			}
			return t.fail(e, "division by a non-constant")
		case token.REM:
			// remainder by a non-zero constant only
			if isConstExpr(x.Y) && b != "0" {
				return "(" + a + " % " + b + ")"
			}
			return t.fail(e, "remainder by a non-constant")
		case token.AND:
			return "(" + a + " &&& " + b + ")"
		case token.SHR:
			if isConstExpr(x.Y) {
				return "(" + a + " >>> " + b + ")"
			}
			return t.fail(e, "shift by a non-constant")
		}
		return t.fail(e, "binary "+x.Op.String())
	case *ast.SelectorExpr:
		return t.expr(x.X) + "." + lowerFirst(x.Sel.Name)
	case *ast.CallExpr:
		// bytes.Equal(a, b)
		if se, ok := x.Fun.(*ast.SelectorExpr); ok {
			if id, ok := se.X.(*ast.Ident); ok && id.Name == "bytes" && se.Sel.Name == "Equal" && len(x.Args) == 2 {
				return "decide (" + t.expr(x.Args[0]) + " = " + t.expr(x.Args[1]) + ")"
			}
			// method of the receiver that is itself translated
			if id, ok := se.X.(*ast.Ident); ok && id.Name == t.recv && t.recv != "" {
				if ln, ok := methodNames[se.Sel.Name]; ok && len(x.Args) == 0 {
					return "(" + ln + " " + t.recv + ")"
				}
			}
			// getter / opaque method: x.Height() -> x.height ; x.slot.GetSlotNumber(a) -> (x.slot.getSlotNumber a)
			s := t.expr(se.X) + "." + lowerFirst(se.Sel.Name)
			if len(x.Args) == 0 {
				return s
			}
			args := []string{}
			for _, a := range x.Args {
				args = append(args, "("+t.expr(a)+")")
			}
			return "(" + s + " " + strings.Join(args, " ") + ")"
		}
		if id, ok := x.Fun.(*ast.Ident); ok {
			// conversions uint32(x), int(x): value preserving in the ranges used
			if (id.Name == "uint32" || id.Name == "int" || id.Name == "uint64") && len(x.Args) == 1 {
				if t.arith == "nat" && id.Name == "uint32" {
					// operands are unbounded naturals standing for a 64-bit Go int: uint32(x) cuts bits
					return t.fail(x, "narrowing conversion uint32(…) in a target translated over natural numbers")
				}
				return t.expr(x.Args[0])
			}
			// call of another translated plain function
			for _, tg := range targets {
				if tg.recv == "" && tg.name == id.Name {
					args := []string{}
					for _, a := range x.Args {
						args = append(args, "("+t.expr(a)+")")
					}
					return "(" + tg.lean + " " + strings.Join(args, " ") + ")"
				}
			}
		}
		return t.fail(e, "call")
	}
	return t.fail(e, fmt.Sprintf("expression %T", e))
}

// stmts translates a statement list into one Lean expression.
func (t *tr) stmts(list []ast.Stmt, indent string) string {
	if len(list) == 0 {
		return t.fail(&ast.BadStmt{}, "function falls off the end")
	}
	s := list[0]
	rest := list[1:]
	switch x := s.(type) {
	case *ast.ReturnStmt:
		if len(x.Results) == 0 {
			return t.fail(s, "bare return")
		}
		if t.except {
			// (v1, …, vn, error): `nil` -> .ok (v1, …, vn); an error variable -> .error "Name"
			if len(x.Results) < 2 {
				return t.fail(s, "result without error")
			}
			id, ok := x.Results[len(x.Results)-1].(*ast.Ident)
			if !ok {
				return t.fail(s, "error result is not an identifier")
			}
			if id.Name != "nil" {
				return indent + ".error \"" + id.Name + "\""
			}
			vals := []string{}
			for _, r := range x.Results[:len(x.Results)-1] {
				vals = append(vals, t.expr(r))
			}
			if len(vals) == 1 {
				return indent + ".ok " + vals[0]
			}
			return indent + ".ok (" + strings.Join(vals, ", ") + ")"
		}
		if len(x.Results) == 2 {
			if id, ok := x.Results[1].(*ast.Ident); !ok || id.Name != "nil" {
				return t.fail(s, "non-nil error result")
			}
		}
		return indent + t.expr(x.Results[0])
	case *ast.AssignStmt:
		if len(x.Lhs) != len(x.Rhs) {
			return t.fail(s, "assignment arity")
		}
		names := []string{}
		vals := []string{}
		for i := range x.Lhs {
			id, ok := x.Lhs[i].(*ast.Ident)
			if !ok {
				return t.fail(s, "assignment target")
			}
			names = append(names, id.Name)
			vals = append(vals, t.expr(x.Rhs[i]))
		}
		if len(names) == 1 {
			return indent + "let " + names[0] + " := " + vals[0] + "\n" + t.stmts(rest, indent)
		}
		return indent + "let (" + strings.Join(names, ", ") + ") := (" + strings.Join(vals, ", ") + ")\n" + t.stmts(rest, indent)
	case *ast.IfStmt:
		if x.Init != nil || x.Else != nil {
			return t.fail(s, "if with init/else")
		}
		cond := t.expr(x.Cond)
		body := x.Body.List
		if len(body) > 0 {
			if _, ok := body[len(body)-1].(*ast.ReturnStmt); ok {
				return indent + "if " + cond + " then\n" + t.stmts(body, indent+"  ") + "\n" + indent + "else\n" + t.stmts(rest, indent+"  ")
			}
		}
		// body made of one (tuple) assignment to existing variables
		if len(body) == 1 {
			if as, ok := body[0].(*ast.AssignStmt); ok && as.Tok == token.ASSIGN && len(as.Lhs) == len(as.Rhs) {
				names, vals := []string{}, []string{}
				for i := range as.Lhs {
					id, ok := as.Lhs[i].(*ast.Ident)
					if !ok {
						return t.fail(s, "assignment target")
					}
					names = append(names, id.Name)
					vals = append(vals, t.expr(as.Rhs[i]))
				}
				lhs := "(" + strings.Join(names, ", ") + ")"
				if len(names) == 1 {
					lhs = names[0]
				}
				return indent + "let " + lhs + " := if " + cond + " then (" + strings.Join(vals, ", ") + ") else (" + strings.Join(names, ", ") + ")\n" + t.stmts(rest, indent)
			}
		}
		return t.fail(s, "if body")
	case *ast.SwitchStmt:
		// expression-less switch: `switch { case c1: …return  case c2, c3: …return  default: …return }`
		if x.Init != nil || x.Tag != nil {
			return t.fail(s, "switch with init/tag")
		}
		out := ""
		hasDefault := false
		for i, c := range x.Body.List {
			cc, ok := c.(*ast.CaseClause)
			if !ok {
				return t.fail(c, "switch clause")
			}
			if len(cc.Body) == 0 {
				return t.fail(c, "empty case body")
			}
			if _, ok := cc.Body[len(cc.Body)-1].(*ast.ReturnStmt); !ok {
				return t.fail(c, "case body not ending in return")
			}
			if cc.List == nil {
				if i != len(x.Body.List)-1 {
					return t.fail(c, "default clause that is not last")
				}
				hasDefault = true
				out += t.stmts(cc.Body, indent)
				break
			}
			conds := []string{}
			for _, ce := range cc.List {
				conds = append(conds, t.expr(ce))
			}
			cond := conds[0]
			if len(conds) > 1 {
				cond = "(" + strings.Join(conds, " || ") + ")"
			}
			out += indent + "if " + cond + " then\n" + t.stmts(cc.Body, indent+"  ") + "\n" + indent + "else\n"
			indent += "  "
		}
		if !hasDefault {
			out += t.stmts(rest, indent)
		}
		return out
	}
	return t.fail(s, fmt.Sprintf("statement %T", s))
}

// ---- fragment extraction -------------------------------------------------------------------

// mentions reports whether identifier name occurs in e
func mentions(e ast.Node, name string) bool {
	found := false
	ast.Inspect(e, func(n ast.Node) bool {
		if id, ok := n.(*ast.Ident); ok && id.Name == name {
			found = true
		}
		return !found
	})
	return found
}

// guardReturn classifies the body of a guard `if cond { return … }`:
// "errorf" = return fmt.Errorf(…), "nil" = return nil, "err" = return err (propagation), "" = anything else
func guardReturn(is *ast.IfStmt) string {
	if is.Init != nil || is.Else != nil || len(is.Body.List) != 1 {
		return ""
	}
	rs, ok := is.Body.List[0].(*ast.ReturnStmt)
	if !ok || len(rs.Results) != 1 {
		return ""
	}
	switch r := rs.Results[0].(type) {
	case *ast.Ident:
		if r.Name == "nil" || r.Name == "err" {
			return r.Name
		}
	case *ast.CallExpr:
		if se, ok := r.Fun.(*ast.SelectorExpr); ok {
			if id, ok := se.X.(*ast.Ident); ok && id.Name == "fmt" && se.Sel.Name == "Errorf" {
				return "errorf"
			}
		}
	}
	return ""
}

// weightLoop: the loop of API.SetBFTParameters that sums the BFT weights,
//
//	aggregateBFTWeight := uint64(0)
//	for _, validator := range validators { guards…; aggregateBFTWeight += validator.bftWeight }
//
// as a step function on (accumulator, weight of the current validator): the 1-based index of the first
// guard `if cond { return fmt.Errorf(…) }` that fires (0 = none) and the new accumulator.
func (t *tr) weightLoop(fd *ast.FuncDecl) (string, string, string) {
	const acc = "aggregateBFTWeight"
	var loop *ast.RangeStmt
	init := ""
	for _, s := range fd.Body.List {
		switch x := s.(type) {
		case *ast.AssignStmt:
			if len(x.Lhs) == 1 && len(x.Rhs) == 1 {
				if id, ok := x.Lhs[0].(*ast.Ident); ok && id.Name == acc {
					if init != "" || loop != nil || x.Tok != token.DEFINE {
						return t.fail(s, "second assignment to "+acc), "", ""
					}
					if !isConstExpr(stripConv(x.Rhs[0])) {
						return t.fail(s, "initial value of "+acc+" is not a constant"), "", ""
					}
					init = t.expr(x.Rhs[0])
				}
			}
		case *ast.RangeStmt:
			if mentions(x.Body, acc) {
				if loop != nil {
					return t.fail(s, "second loop over "+acc), "", ""
				}
				loop = x
			}
		}
	}
	if loop == nil || init == "" {
		return t.fail(fd, "loop summing "+acc+" (with its initialisation) not found"), "", ""
	}
	if id, ok := loop.X.(*ast.Ident); !ok || id.Name != "validators" {
		return t.fail(loop, "loop does not range over validators"), "", ""
	}
	val, ok := loop.Value.(*ast.Ident)
	if !ok {
		return t.fail(loop, "loop without value variable"), "", ""
	}
	t.subst = map[string]string{val.Name + ".bftWeight": "bftWeight"}
	t.allowed = map[string]bool{acc: true}
	conds := []string{}
	update := ""
	for _, s := range loop.Body.List {
		if update != "" {
			return t.fail(s, "statement after the update of "+acc), "", ""
		}
		switch x := s.(type) {
		case *ast.IfStmt:
			if guardReturn(x) != "errorf" {
				return t.fail(s, "loop statement that is not a guard returning fmt.Errorf"), "", ""
			}
			conds = append(conds, t.expr(x.Cond))
		case *ast.AssignStmt:
			id, ok := x.Lhs[0].(*ast.Ident)
			if len(x.Lhs) != 1 || len(x.Rhs) != 1 || !ok || id.Name != acc || x.Tok != token.ADD_ASSIGN {
				return t.fail(s, "loop assignment other than "+acc+" += …"), "", ""
			}
			update = t.expr(&ast.BinaryExpr{X: x.Lhs[0], OpPos: x.TokPos, Op: token.ADD, Y: x.Rhs[0]})
		default:
			return t.fail(s, fmt.Sprintf("statement %T in the weight loop", s)), "", ""
		}
	}
	if update == "" {
		return t.fail(loop, "update of "+acc+" not found"), "", ""
	}
	body := ""
	indent := "  "
	for i, c := range conds {
		body += fmt.Sprintf("%sif %s then\n%s  (%d, %s)\n%selse\n", indent, c, indent, i+1, acc, indent)
		indent += "  "
	}
	body += indent + "(0, " + update + ")"
	extra := fmt.Sprintf("/-- initial value of the accumulator of the weight loop of `SetBFTParameters` -/\ndef aggregateBFTWeightInit : Nat := %s\n\n", init)
	return body, " — body of the loop `for _, validator := range validators` that sums the BFT weights: (index of the first guard `if … { return fmt.Errorf(…) }` that fires, 0 = none; new aggregateBFTWeight) (uint64 arithmetic)", extra
}

// stripConv removes integer conversions uint64(x) etc.
func stripConv(e ast.Expr) ast.Expr {
	if ce, ok := e.(*ast.CallExpr); ok && len(ce.Args) == 1 {
		if id, ok := ce.Fun.(*ast.Ident); ok && (id.Name == "uint32" || id.Name == "int" || id.Name == "uint64") {
			return stripConv(ce.Args[0])
		}
	}
	return e
}

// bftGuards: the top-level statements `if <cond mentioning aggregateBFTWeight> { return fmt.Errorf(…) }`
// of API.SetBFTParameters (exactly two: precommit and certificate threshold); result = both pass.
func (t *tr) bftGuards(fd *ast.FuncDecl) (string, string) {
	t.allowed = map[string]bool{"aggregateBFTWeight": true, "precommitThreshold": true, "certificateThreshold": true}
	conds := []string{}
	for _, s := range fd.Body.List {
		is, ok := s.(*ast.IfStmt)
		if !ok || !mentions(is.Cond, "aggregateBFTWeight") {
			continue
		}
		if guardReturn(is) != "errorf" {
			return t.fail(is, "threshold guard that does not return fmt.Errorf"), ""
		}
		conds = append(conds, t.expr(is.Cond))
	}
	if len(conds) != 2 {
		return t.fail(fd, fmt.Sprintf("expected 2 threshold guards, found %d", len(conds))), ""
	}
	return "  ((!" + conds[0] + ") && (!" + conds[1] + "))", " — the two threshold guards `if … { return fmt.Errorf(…) }` on aggregateBFTWeight, in order; true = both pass (uint64 arithmetic)"
}

// prevoteThreshold: the value of field prevoteThreshold in the composite literal BFTParams{…}
func (t *tr) prevoteThreshold(fd *ast.FuncDecl) (string, string) {
	t.allowed = map[string]bool{"aggregateBFTWeight": true}
	var vals []ast.Expr
	ast.Inspect(fd.Body, func(n ast.Node) bool {
		cl, ok := n.(*ast.CompositeLit)
		if !ok {
			return true
		}
		if id, ok := cl.Type.(*ast.Ident); !ok || id.Name != "BFTParams" {
			return true
		}
		for _, el := range cl.Elts {
			if kv, ok := el.(*ast.KeyValueExpr); ok {
				if k, ok := kv.Key.(*ast.Ident); ok && k.Name == "prevoteThreshold" {
					vals = append(vals, kv.Value)
				}
			}
		}
		return true
	})
	if len(vals) != 1 {
		return t.fail(fd, fmt.Sprintf("expected 1 prevoteThreshold field in a BFTParams literal, found %d", len(vals))), ""
	}
	return "  " + t.expr(vals[0]), " — field prevoteThreshold of the BFTParams composite literal (uint64 arithmetic)"
}

// commitGuards: the guards of Executer.verifyAggregateCommit up to the block lookup
// (GetBlockHeaderByHeight). Results of the impure calls (GetBFTHeights, NextHeightBFTParameters,
// aggregateCommit.Empty(), len(field) == 0) are the given parameters; `if err != nil … { return err }`
// propagates the error of such a call and is not a guard. Result = 1-based index of the first guard
// whose condition holds (0 = none).
func (t *tr) commitGuards(fd *ast.FuncDecl) (string, string, string) {
	if len(fd.Type.Params.List) != 2 || len(fd.Type.Params.List[1].Names) != 1 {
		return t.fail(fd, "parameter list of verifyAggregateCommit"), "", ""
	}
	ac := fd.Type.Params.List[1].Names[0].Name
	t.subst = map[string]string{
		ac + ".Empty()":                             "empty",
		ac + ".Height":                              "height",
		"maxHeightCertified":                        "mhc",
		"maxHeightPrecommited":                      "mhpc",
		"len(" + ac + ".AggregationBits) == 0":      "bitsEmpty",
		"len(" + ac + ".CertificateSignature) == 0": "sigEmpty",
		"err == nil":                                "nextFound",
		"heightNextBFTParams":                       "heightNext",
	}
	t.allowed = map[string]bool{}
	given := map[string]bool{"_": true, "err": true, "maxHeightCertified": true, "maxHeightPrecommited": true, "heightNextBFTParams": true}
	conds, kinds := []string{}, []string{}
	done := false
	for _, s := range fd.Body.List {
		switch x := s.(type) {
		case *ast.AssignStmt:
			// results of an impure call: either the given parameters, or the end of the guard section
			if len(x.Rhs) != 1 {
				return t.fail(s, "assignment in the guard section"), "", ""
			}
			ce, ok := x.Rhs[0].(*ast.CallExpr)
			if !ok {
				return t.fail(s, "assignment in the guard section"), "", ""
			}
			if se, ok := ce.Fun.(*ast.SelectorExpr); ok && se.Sel.Name == "GetBlockHeaderByHeight" {
				done = true
				break
			}
			for _, l := range x.Lhs {
				id, ok := l.(*ast.Ident)
				if !ok || !given[id.Name] {
					return t.fail(s, "assignment to a variable that is not a given parameter"), "", ""
				}
			}
		case *ast.IfStmt:
			switch k := guardReturn(x); k {
			case "err":
				// error propagation of an impure call: the condition must start with `err != nil`
				c := types.ExprString(x.Cond)
				if c != "err != nil" && !strings.HasPrefix(c, "err != nil && ") {
					return t.fail(s, "return err under a condition other than err != nil"), "", ""
				}
			case "nil", "errorf":
				conds = append(conds, t.expr(x.Cond))
				kinds = append(kinds, "\""+map[string]string{"nil": "nil", "errorf": "error"}[k]+"\"")
			default:
				return t.fail(s, "if statement that is not a guard"), "", ""
			}
		default:
			return t.fail(s, fmt.Sprintf("statement %T in the guard section", s)), "", ""
		}
		if done {
			break
		}
	}
	if !done {
		return t.fail(fd, "end of the guard section (GetBlockHeaderByHeight) not found"), "", ""
	}
	if len(conds) == 0 {
		return t.fail(fd, "no guards found"), "", ""
	}
	body := ""
	indent := "  "
	for i, c := range conds {
		body += fmt.Sprintf("%sif %s then\n%s  %d\n%selse\n", indent, c, indent, i+1, indent)
		indent += "  "
	}
	body += indent + "0"
	extra := fmt.Sprintf("/-- what the guards of `%s` return, in order: \"nil\" = the commit is accepted without further checks, \"error\" = rejected -/\ndef %sReturns : List String := [%s]\n\n", "aggregateCommitGuards", "aggregateCommitGuards", strings.Join(kinds, ", "))
	return body, " — the guards `if cond { return … }` before the block lookup, in order; results of impure calls are the parameters; value = index of the first guard that fires, 0 = none (uint32 arithmetic)", extra
}

func findFunc(f *ast.File, recv, name string) *ast.FuncDecl {
	for _, d := range f.Decls {
		fd, ok := d.(*ast.FuncDecl)
		if !ok || fd.Name.Name != name {
			continue
		}
		r := ""
		if fd.Recv != nil && len(fd.Recv.List) == 1 {
			ty := fd.Recv.List[0].Type
			if st, ok := ty.(*ast.StarExpr); ok {
				ty = st.X
			}
			if id, ok := ty.(*ast.Ident); ok {
				r = id.Name
			}
		}
		if r == recv {
			return fd
		}
	}
	return nil
}

func main() {
	repo := "/repo"
	out := ""
	out2 := ""
	for i := 1; i < len(os.Args); i++ {
		switch os.Args[i] {
		case "-repo":
			repo = os.Args[i+1]
			i++
		case "-out":
			out = os.Args[i+1]
			i++
		case "-out2":
			out2 = os.Args[i+1]
			i++
		}
	}
	for _, tg := range targets {
		if tg.recv == "forkChoice" {
			methodNames[tg.name] = tg.lean
		}
	}
	fset := token.NewFileSet()
	files := map[string]*ast.File{}
	var b strings.Builder
	b.WriteString("/- GENERATED by tools/fngen from /repo — do not edit. Regenerated on every check run. -/\n")
	b.WriteString("import LiskVerif.Model.Header\n\nnamespace LiskVerif.Gen\nopen LiskVerif\n\n")
	for _, tg := range targets {
		f := files[tg.file]
		if f == nil {
			var err error
			f, err = parser.ParseFile(fset, filepath.Join(repo, tg.file), nil, 0)
			if err != nil {
				fmt.Fprintln(os.Stderr, "fngen:", err)
				os.Exit(1)
			}
			files[tg.file] = f
		}
		fd := findFunc(f, tg.recv, tg.name)
		if fd == nil {
			fmt.Fprintf(os.Stderr, "fngen: %s: function %s.%s not found\n", tg.file, tg.recv, tg.name)
			os.Exit(1)
		}
		if got := types.ExprString(fd.Type); tg.gosig != "" && got != tg.gosig {
			fmt.Fprintf(os.Stderr, "fngen: %s: signature of %s is `%s`, the translation (parameters %s over natural numbers, arithmetic %q) is declared for `%s`: integer widths of parameters/results changed — conversions at the call sites may truncate\n", tg.file, tg.name, got, tg.params, tg.arith, tg.gosig)
			os.Exit(1)
		}
		t := &tr{fset: fset, arith: tg.arith, except: tg.except}
		if fd.Recv != nil && len(fd.Recv.List[0].Names) == 1 {
			t.recv = fd.Recv.List[0].Names[0].Name
		}
		body, note, extra := "", "", ""
		switch tg.kind {
		case "":
			body = t.stmts(fd.Body.List, "  ")
		case "weightLoop":
			body, note, extra = t.weightLoop(fd)
		case "bftGuards":
			body, note = t.bftGuards(fd)
		case "prevoteThreshold":
			body, note = t.prevoteThreshold(fd)
		case "commitGuards":
			body, note, extra = t.commitGuards(fd)
		default:
			fmt.Fprintf(os.Stderr, "fngen: unknown target kind %q\n", tg.kind)
			os.Exit(1)
		}
		if t.err != nil {
			fmt.Fprintln(os.Stderr, "fngen:", t.err)
			os.Exit(1)
		}
		ret := tg.ret
		if ret == "" {
			ret = "Bool"
		}
		fmt.Fprintf(&b, "/-- %s: %s%s%s -/\ndef %s %s : %s :=\n%s\n\n%s", tg.file, map[bool]string{true: "(*" + tg.recv + ").", false: ""}[tg.recv != ""], tg.name, note, tg.lean, tg.params, ret, body, extra)
	}
	// the order in which Executer.process evaluates the fork choice predicates
	f, err := parser.ParseFile(fset, filepath.Join(repo, "pkg/consensus/execute.go"), nil, 0)
	if err != nil {
		fmt.Fprintln(os.Stderr, "fngen:", err)
		os.Exit(1)
	}
	fd := findFunc(f, "Executer", "process")
	if fd == nil {
		fmt.Fprintln(os.Stderr, "fngen: Executer.process not found")
		os.Exit(1)
	}
	order := []string{}
	for _, s := range fd.Body.List {
		is, ok := s.(*ast.IfStmt)
		if !ok {
			continue
		}
		ce, ok := is.Cond.(*ast.CallExpr)
		if !ok {
			continue
		}
		se, ok := ce.Fun.(*ast.SelectorExpr)
		if !ok {
			continue
		}
		if id, ok := se.X.(*ast.Ident); ok && strings.HasPrefix(strings.ToLower(id.Name), "forkcho") {
			order = append(order, "\""+se.Sel.Name+"\"")
		}
	}
	fmt.Fprintf(&b, "/-- order in which Executer.process evaluates the fork-choice predicates -/\ndef processOrder : List String := [%s]\n\nend LiskVerif.Gen\n", strings.Join(order, ", "))
	// second output (typed translation, typed.go); nothing is written unless both translations succeed
	b2, err := genTyped(repo)
	if err != nil {
		fmt.Fprintln(os.Stderr, "fngen:", err)
		os.Exit(1)
	}
	if out == "" && out2 == "" {
		fmt.Print(b.String())
		fmt.Print(b2)
		return
	}
	type outFile struct{ path, text string }
	outs := []outFile{}
	if out != "" {
		outs = append(outs, outFile{out, b.String()})
	}
	if out2 != "" {
		outs = append(outs, outFile{out2, b2})
	}
	for _, o := range outs {
		if err := os.WriteFile(o.path+".tmp", []byte(o.text), 0o644); err != nil {
			fmt.Fprintln(os.Stderr, "fngen:", err)
			os.Exit(1)
		}
	}
	for _, o := range outs {
		if err := os.Rename(o.path+".tmp", o.path); err != nil {
			fmt.Fprintln(os.Stderr, "fngen:", err)
			os.Exit(1)
		}
	}
}
