// Typed translation (second generation of tie A): Go integer types are tracked per expression and
// every operation is emitted with the exact Go semantics of its type — unsigned types wrap modulo
// 2^n (Lean `Nat` with `% 2^n`), `int`/`int64` wrap in two's complement (Lean `Int` with `i64`),
// signed division/remainder truncate towards zero (`Int.tdiv`/`Int.tmod`), conversions truncate.
// Anything that is not understood is an error. Output: lean/LiskVerif/Gen/Fns2.lean.
package main

import (
	"fmt"
	"go/ast"
	"go/parser"
	"go/token"
	"go/types"
	"math/big"
	"os"
	"path/filepath"
	"sort"
	"strings"
)

type gtype string

const untyped gtype = "untyped"

func isUnsigned(t gtype) bool {
	return t == "uint8" || t == "uint16" || t == "uint32" || t == "uint64" || t == "uint"
}
func isSigned(t gtype) bool  { return t == "int" || t == "int64" }
func isInteger(t gtype) bool { return isUnsigned(t) || isSigned(t) }
func bitsOf(t gtype) int {
	switch t {
	case "uint8":
		return 8
	case "uint16":
		return 16
	case "uint32":
		return 32
	}
	return 64
}
func modOf(t gtype) string { return new(big.Int).Lsh(big.NewInt(1), uint(bitsOf(t))).String() }

// goType maps the source text of a Go type to a tracked type ("" = not tracked)
func goType(s string) gtype {
	switch s {
	case "byte":
		return "uint8"
	case "bool", "uint8", "uint16", "uint32", "uint64", "uint", "int", "int64":
		return gtype(s)
	}
	return ""
}

func leanTy(t gtype) string {
	switch {
	case t == "bool":
		return "Bool"
	case isUnsigned(t):
		return "Nat"
	case isSigned(t):
		return "Int"
	}
	return "UNKNOWN_TYPE"
}

// param of a generated definition: Lean/Go name, Go type, and (optionally) the Go source text of the
// sub-expression it stands for (a field, `len(x)`, an element, the result of an impure call);
// field = "Struct.field": the declared type of that struct field of the package is checked.
type param struct {
	name  string
	ty    gtype
	src   string
	field string
	// nil discipline (nil.go): opt = the pointer expression whose dereference `src` reads; the Lean parameter is
	// `Option <ty>` (`none` = the pointer is nil). optTest is set on the derived substitutions `<opt> == nil` /
	// `<opt> != nil` ("isNone" / "isSome").
	opt     string
	optTest string
}

type target2 struct {
	file   string
	recv   string
	name   string // Go function ("" for kind const)
	lean   string
	kind   string // whole | cond | rhs | ret | field | varBlock | forStep | forCond | forPost | appendLoop | const | index | arg0
	sel    string // selector (meaning depends on the kind)
	tok    string // rhs: assignment token (":=", "=", "|=", …)
	lit    string // field: composite literal type
	nth    int    // 0: the match must be unique; k > 0: the k-th of exactly `count` matches
	count  int
	all    bool // every match must translate to the same text (nth ignored)
	comb   bool // rhs with a compound token (`x += e`): translate the new value `x + e` instead of `e`
	params []param
	want   gtype // type expected of an untyped result / declared result type
	panics bool  // result is Option: none = the Go code panics (division by zero)
	note   string
	// calls `<expr>.<Method>(args)` of translated methods (kind whole, with receiver) are allowed on these
	// receiver expressions; the callee's receiver-field parameters are passed on from the caller's
	// parameters of the same name and type
	methods []methodRecv
	// nil discipline (nil.go): with nilsafe every pointer dereferenced by the translated fragment (inside the
	// source texts of the parameters and in method calls) must be declared: nonnil = assumed non-nil by
	// construction, nilable = may be nil, every dereference must be dominated by a nil check. selfCalls maps
	// methods called on the receiver itself to the Lean name of their translation.
	nilsafe   bool
	nonnil    []ptrDecl
	nilable   []ptrDecl
	selfCalls map[string]string
	goParams  []string // filled by genTyped: names of the Go parameters of the function
}

// methodRecv: `expr` (source text, e.g. "c.slot") is the struct field `field` ("Struct.field") of the
// target's package, declared with type `typ` ("*validator.BlockSlot"); methods of receiver `recv`
// declared in `file` may be called on it
type methodRecv struct {
	expr, field, typ string
	file, recv       string
}

func p(name string, ty gtype) param              { return param{name: name, ty: ty} }
func ps(name string, ty gtype, src string) param { return param{name: name, ty: ty, src: src} }
func pf(name string, ty gtype, src, field string) param {
	return param{name: name, ty: ty, src: src, field: field}
}

var targets2 = []target2{
	// ---- C11: pkg/trie/rmt -------------------------------------------------------------------
	{file: "pkg/trie/rmt/util.go", name: "isLeft", lean: "rmtIsLeft", kind: "whole", params: []param{p("index", "uint64")}},
	{file: "pkg/trie/rmt/util.go", name: "areSiblings", lean: "rmtAreSiblings", kind: "whole", params: []param{p("idx1", "uint64"), p("idx2", "uint64")}},
	{file: "pkg/trie/rmt/util.go", lean: "rmtRootIndex", kind: "const", sel: "rootIndex", want: "uint64"},
	{file: "pkg/trie/rmt/util.go", name: "getRightSiblingInfo", lean: "rmtSiblingNodeIndex", kind: "rhs", sel: "siblingNodeIndex", tok: ":=",
		params: []param{p("nodeIndex", "uint64")}},
	{file: "pkg/trie/rmt/util.go", name: "getRightSiblingInfo", lean: "rmtSiblingDescendStep", kind: "forStep", sel: "siblingNodeIndex",
		params: []param{p("siblingNodeIndex", "uint64"), p("siblingLayerIndex", "uint64"), ps("structAt", "int", "structure[siblingLayerIndex]")}},
	{file: "pkg/trie/rmt/util.go", name: "getRightSiblingInfo", lean: "rmtSiblingOutOfRange", kind: "cond", sel: "siblingNodeIndex",
		params: []param{p("siblingNodeIndex", "uint64"), p("size", "uint64")}},
	{file: "pkg/trie/rmt/rmt.go", recv: "RegularMerkleTree", name: "getSiblingHashes", lean: "rmtParentIdx", kind: "rhs", sel: "parentIdx", tok: ":=", all: true,
		params: []param{p("currentIdx", "uint64")}},
	{file: "pkg/trie/rmt/util.go", name: "calculatePathNodes", lean: "rmtPathParentIdx", kind: "rhs", sel: "parentIdx", tok: ":=",
		params: []param{p("idx", "uint64")}},
	{file: "pkg/trie/rmt/rmt.go", recv: "RegularMerkleTree", name: "Append", lean: "rmtAppendDir", kind: "rhs", sel: "dir", tok: ":=",
		params: []param{pf("size", "uint64", "d.size", "RegularMerkleTree.size"), p("h", "uint64")}},

	// ---- C10: pkg/trie/smt, pkg/collection/bytes ----------------------------------------------
	{file: "pkg/collection/bytes/bool.go", name: "ToBools", lean: "toBoolsBit", kind: "rhs", sel: "res[8 * i + j]", tok: "=",
		params: []param{p("x", "uint8"), p("j", "int")}},
	{file: "pkg/collection/bytes/bool.go", name: "FromBools", lean: "fromBoolsLen", kind: "index", sel: "make", nth: 1, count: 2,
		params: []param{ps("n", "int", "len(input)")}},
	{file: "pkg/collection/bytes/bool.go", name: "FromBools", lean: "fromBoolsTargetSize", kind: "varBlock", sel: "targetSize",
		params: []param{ps("n", "int", "len(input)")}},
	{file: "pkg/collection/bytes/bool.go", name: "FromBools", lean: "fromBoolsMask", kind: "rhs", sel: "res[i / 8]", tok: "|=", want: "uint8",
		params: []param{p("i", "int")}},
	{file: "pkg/collection/bytes/bool.go", name: "FromBools", lean: "fromBoolsByteIndex", kind: "index", sel: "res",
		params: []param{p("i", "int")}},
	{file: "pkg/collection/bytes/bit.go", name: "IsBitSet", lean: "isBitSetByteIndex", kind: "index", sel: "bits",
		params: []param{p("index", "int")}},
	{file: "pkg/collection/bytes/bit.go", name: "IsBitSet", lean: "isBitSetBit", kind: "whole", panics: true,
		params: []param{ps("b", "uint8", "bits[index / 8]"), p("index", "int")}},
	{file: "pkg/trie/smt/verify.go", name: "Verify", lean: "smtVerifyKeyLenBad", kind: "cond", sel: "len(key)",
		params: []param{ps("n", "int", "len(key)"), p("keyLength", "int")}},
	{file: "pkg/trie/smt/verify.go", name: "Verify", lean: "smtVerifyQueryKeyLenBad", kind: "cond", sel: "len(query.Key)",
		params: []param{ps("n", "int", "len(query.Key)"), p("keyLength", "int")}},
	{file: "pkg/trie/smt/verify.go", name: "Verify", lean: "smtVerifyLeadingZero", kind: "cond", sel: "query.Bitmap[0]",
		params: []param{ps("n", "int", "len(query.Bitmap)"), ps("b0", "uint8", "query.Bitmap[0]")}},
	{file: "pkg/trie/smt/verify.go", name: "Verify", lean: "smtVerifyTooDeep", kind: "cond", sel: "8 * keyLength",
		params: []param{ps("n", "int", "len(binaryBitmap)"), p("keyLength", "int")}},
	{file: "pkg/trie/smt/verify.go", name: "Verify", lean: "smtVerifyBelowFork", kind: "cond", sel: "len(commonPrefix)",
		params: []param{ps("n", "int", "len(binaryBitmap)"), ps("m", "int", "len(commonPrefix)")}},
	{file: "pkg/trie/smt/verify.go", name: "CalculateRoot", lean: "smtSiblingBitmapBad", kind: "cond", sel: "isSiblingEmpty && ",
		params: []param{p("isSiblingEmpty", "bool"), ps("b0", "bool", "query.binaryBitmap[0]")}},
	{file: "pkg/trie/smt/verify.go", name: "CalculateRoot", lean: "smtQueryBitmapBad", kind: "cond", sel: "isQueryEmpty && ",
		params: []param{p("isQueryEmpty", "bool"), ps("s0", "bool", "sibling.binaryBitmap[0]")}},

	// ---- C19: pkg/consensus/sync ----------------------------------------------------------------
	{file: "pkg/consensus/sync/block_sync.go", name: "getHeightWithGap", lean: "getHeightWithGap", kind: "appendLoop",
		params: []param{p("start", "uint32"), p("minimum", "uint32"), p("gap", "int"), p("num", "int")}},
	{file: "pkg/consensus/sync/fast_sync.go", name: "getLastHeights", lean: "getLastHeights", kind: "appendLoop",
		params: []param{p("start", "uint32"), p("num", "int")}},
	// the choice of the synchroniser (Syncer.shouldFastSync / shouldSync)
	{file: "pkg/consensus/sync/sync.go", recv: "Syncer", name: "shouldFastSync", lean: "shouldFastSyncTwoRounds", kind: "rhs", sel: "twoRounds", tok: ":=",
		params: []param{ps("validators", "int", "len(ctx.CurrentValidators)")}},
	{file: "pkg/consensus/sync/sync.go", recv: "Syncer", name: "shouldFastSync", lean: "shouldFastSyncDiff", kind: "rhs", sel: "diff", tok: ":=", want: "int",
		params: []param{ps("blockHeight", "uint32", "ctx.Block.Header.Height"), ps("lastHeight", "uint32", "lastBlockHeader.Height")}},
	{file: "pkg/consensus/sync/sync.go", recv: "Syncer", name: "shouldFastSync", lean: "shouldFastSyncTooFar", kind: "cond", sel: "diff > twoRounds",
		params: []param{p("diff", "int"), p("twoRounds", "int")}},
	{file: "pkg/consensus/sync/sync.go", recv: "Syncer", name: "shouldSync", lean: "shouldSyncThreeRounds", kind: "rhs", sel: "threeRounds", tok: ":=",
		params: []param{ps("validators", "int", "len(ctx.CurrentValidators)")}},
	{file: "pkg/consensus/sync/sync.go", recv: "Syncer", name: "shouldSync", lean: "shouldSyncStale", kind: "ret",
		params: []param{p("currentSlot", "int"), p("finalizedSlot", "int"), p("threeRounds", "int")}},
	{file: "pkg/consensus/sync/sync.go", recv: "Syncer", name: "HandleRPCEndpointGetBlocksFromID", lean: "blocksFromIDFrom", kind: "rhs", sel: "from", tok: ":=",
		params: []param{ps("height", "uint32", "requestedBlock.Height")}},
	{file: "pkg/consensus/sync/sync.go", recv: "Syncer", name: "HandleRPCEndpointGetBlocksFromID", lean: "blocksFromIDTo", kind: "rhs", sel: "to", tok: ":=",
		params: []param{ps("height", "uint32", "requestedBlock.Height"), ps("lastHeight", "uint32", "s.chain.LastBlock().Header.Height")}},
	// realistic scale (Props/C19_Scale.lean): what the handler of getHighestCommonBlock refuses by the SHAPE of a
	// request (number of ids, length of an id) vs the number of ids the two synchronisers ask for
	{file: "pkg/consensus/sync/sync.go", recv: "Syncer", name: "HandleRPCEndpointGetHighestCommonBlock", lean: "hcbRequestRejected", kind: "cond", sel: "len(req.IDs)",
		params: []param{ps("count", "int", "len(req.IDs)")}},
	{file: "pkg/consensus/sync/sync.go", recv: "Syncer", name: "HandleRPCEndpointGetHighestCommonBlock", lean: "hcbIDRejected", kind: "cond", sel: "len(id)",
		params: []param{ps("idLen", "int", "len(id)")}},
	{file: "pkg/consensus/sync/fast_sync.go", recv: "fastSyncer", name: "getCommonBlock", lean: "fastCommonNum", kind: "index", sel: "getLastHeights",
		params: []param{ps("validators", "int", "len(ctx.CurrentValidators)")}},
	{file: "pkg/consensus/sync/block_sync.go", recv: "blockSyncer", name: "getCommonBlockHeader", lean: "blockCommonNum", kind: "index", sel: "getHeightWithGap"},

	// ---- C18: pkg/p2p ---------------------------------------------------------------------------
	{file: "pkg/p2p/conngater.go", lean: "maxPenaltyScore", kind: "const", sel: "MaxPenaltyScore", want: "int"},
	{file: "pkg/p2p/ratelimit.go", lean: "defaultRateLimit", kind: "const", sel: "defaultRateLimit", want: "int"},
	{file: "pkg/p2p/ratelimit.go", lean: "defaultRateLimitPenalty", kind: "const", sel: "defaultRateLimitPenalty", want: "int"},
	{file: "pkg/p2p/conngater.go", recv: "connectionGater", name: "addPenalty", lean: "cgNewScore", kind: "rhs", sel: "newScore", tok: "=",
		params: []param{pf("oldScore", "int", "info.score", "peerInfo.score"), p("score", "int")}},
	{file: "pkg/p2p/conngater.go", recv: "connectionGater", name: "addPenalty", lean: "cgBanDue", kind: "cond", sel: "MaxPenaltyScore",
		params: []param{p("newScore", "int")}},
	{file: "pkg/p2p/conngater.go", recv: "connectionGater", name: "addPenalty", lean: "cgExpirationTime", kind: "rhs", sel: "exTime", tok: ":=",
		params: []param{ps("now", "int64", "time.Now().Unix()"), ps("expSecs", "int64", "int64(cg.expiration.Seconds())")}},
	{file: "pkg/p2p/conngater.go", recv: "connectionGater", name: "start", lean: "cgExpired", kind: "cond", sel: "info.expiration",
		params: []param{ps("now", "int64", "time.Now().Unix()"), pf("expiration", "int64", "info.expiration", "peerInfo.expiration")}},
	{file: "pkg/p2p/conngater.go", recv: "connectionGater", name: "listBannedPeers", lean: "cgListed", kind: "cond", sel: "info.expiration",
		params: []param{pf("expiration", "int64", "info.expiration", "peerInfo.expiration")}},
	{file: "pkg/p2p/peer.go", recv: "Peer", name: "addPenalty", lean: "peerDisconnectDue", kind: "cond", sel: "MaxPenaltyScore",
		params: []param{p("newScore", "int")}},
	{file: "pkg/p2p/ratelimit.go", recv: "rateLimit", name: "checkLimit", lean: "rateLimitExceeded", kind: "cond", sel: "msgCounter.limit",
		params: []param{ps("counter", "int", "msgCounter.counters[peerID]"), pf("limit", "int", "msgCounter.limit", "rpcMessageCounter.limit")}},

	// ---- C14: pkg/txpool ------------------------------------------------------------------------
	{file: "pkg/txpool/fee.go", name: "calculateFeePriority", lean: "calculateFeePriority", kind: "whole", panics: true,
		params: []param{ps("fee", "uint64", "tx.Fee"), ps("size", "int", "tx.Size()")}},
	{file: "pkg/txpool/txlist.go", recv: "addressTransactions", name: "Add", lean: "txReplacementRejected", kind: "cond", sel: "minReplacementFeeDifference",
		params: []param{ps("incomingFee", "uint64", "incomingTx.Fee"), ps("existingFee", "uint64", "existingTx.Fee"),
			pf("minDiff", "uint64", "a.minReplacementFeeDifference", "addressTransactions.minReplacementFeeDifference")}},
	{file: "pkg/txpool/txlist.go", recv: "addressTransactions", name: "Add", lean: "txAccountFull", kind: "cond", sel: "a.maxSize",
		params: []param{ps("n", "int", "len(a.nonces)"), pf("maxSize", "int", "a.maxSize", "addressTransactions.maxSize")}},
	{file: "pkg/txpool/txlist.go", recv: "addressTransactions", name: "Add", lean: "txNonceAboveMax", kind: "cond", sel: "maxNonce",
		params: []param{ps("nonce", "uint64", "incomingTx.Nonce"), p("maxNonce", "uint64")}},
	{file: "pkg/txpool/txpool.go", recv: "TransactionPool", name: "Add", lean: "txBelowEntrance", kind: "cond", sel: "MinEntranceFeePriority",
		params: []param{p("feePriority", "uint64"), pf("minEntrance", "uint64", "t.config.MinEntranceFeePriority", "TransactionPoolConfig.MinEntranceFeePriority")}},
	{file: "pkg/txpool/txpool.go", recv: "TransactionPool", name: "Add", lean: "txTooCheapWhenFull", kind: "cond", sel: "lowestFeePriorityTx != nil",
		params: []param{ps("n", "int", "len(t.allTransactions)"), pf("maxTx", "int", "t.config.MaxTransactions", "TransactionPoolConfig.MaxTransactions"),
			ps("hasLowest", "bool", "lowestFeePriorityTx != nil"), p("feePriority", "uint64"),
			pf("lowest", "uint64", "lowestFeePriorityTx.FeePriority", "TransactionWithFeePriority.FeePriority")}},
	{file: "pkg/txpool/txpool.go", recv: "TransactionPool", name: "Add", lean: "txPoolFull", kind: "cond", sel: "t.config.MaxTransactions", nth: 2, count: 2,
		params: []param{ps("n", "int", "len(t.allTransactions)"), pf("maxTx", "int", "t.config.MaxTransactions", "TransactionPoolConfig.MaxTransactions")}},

	// ---- C06: pkg/consensus/certificate, pkg/crypto, pkg/consensus/certificate.go -------------------
	{file: "pkg/consensus/certificate/certificate.go", lean: "commitRangeStored", kind: "const", sel: "CommitRangeStored", want: "uint32"},
	{file: "pkg/consensus/certificate/certificate.go", name: "GetMinStoredHeight", lean: "getMinStoredHeight", kind: "whole", want: "uint32",
		params: []param{p("maxHeightPrecommited", "uint32")}},
	{file: "pkg/consensus/certificate/pool.go", recv: "Pool", name: "Select", lean: "poolSelectMax", kind: "varBlock", sel: "max",
		params: []param{p("maxHeightPrecommited", "uint32")}},
	{file: "pkg/crypto/bls.go", name: "validAggregationBitsLength", lean: "validAggregationBitsLength", kind: "whole",
		params: []param{ps("nBytes", "int", "len(aggregationBits)"), ps("nKeys", "int", "len(keysList)")}},
	{file: "pkg/crypto/bls.go", recv: "Bits", name: "read", lean: "bitsReadBitIndex", kind: "rhs", sel: "bitIndex", tok: ":=",
		params: []param{p("i", "int")}},
	{file: "pkg/crypto/bls.go", recv: "Bits", name: "read", lean: "bitsReadBit", kind: "ret", panics: true,
		params: []param{ps("x", "uint8", "b[byteIndex]"), p("bitIndex", "int")}},
	{file: "pkg/crypto/bls.go", recv: "Bits", name: "write", lean: "bitsWriteBitIndex", kind: "rhs", sel: "bitIndex", tok: ":=",
		params: []param{p("i", "int")}},
	{file: "pkg/crypto/bls.go", recv: "Bits", name: "write", lean: "bitsWriteMask", kind: "rhs", sel: "original[byteIndex]", tok: "|=", want: "uint8", panics: true,
		params: []param{p("bitIndex", "int")}},
	{file: "pkg/consensus/certificate.go", recv: "Executer", name: "singleCommitValidator", lean: "scvBelowRemoval", kind: "cond", sel: "GetMaxRemovalHeight",
		params: []param{ps("height", "uint32", "singleCommit.Height()"), ps("removal", "uint32", "certificate.GetMaxRemovalHeight(finalizedBlockHeader)")}},
	{file: "pkg/consensus/certificate.go", recv: "Executer", name: "singleCommitValidator", lean: "scvOutsideRange", kind: "cond", sel: "!paramExist",
		params: []param{ps("height", "uint32", "singleCommit.Height()"), p("maxHeightPrecommited", "uint32"), p("paramExist", "bool")}},
	{file: "pkg/consensus/certificate.go", recv: "Executer", name: "broadcastCertificate", lean: "cleanupBelowRemoval", kind: "cond", sel: "removeHeight",
		params: []param{p("h", "uint32"), p("removeHeight", "uint32")}},
	{file: "pkg/consensus/certificate.go", recv: "Executer", name: "broadcastCertificate", lean: "cleanupOutsideRange", kind: "cond", sel: "&& !exist",
		params: []param{p("h", "uint32"), p("maxHeightPrecommited", "uint32"), p("exist", "bool")}},
	{file: "pkg/consensus/certificate.go", recv: "Executer", name: "broadcastCertificate", lean: "cleanupParamsHeight", kind: "index", sel: "cache.exist",
		params: []param{p("h", "uint32")}},
	{file: "pkg/consensus/certificate.go", recv: "Executer", name: "GetAggregateCommit", lean: "gacNextHeight", kind: "rhs", sel: "nextHeight", tok: "=", nth: 1, count: 2,
		params: []param{p("heightNextBFTParams", "uint32"), p("maxHeightPrecommited", "uint32")}},

	// ---- C03/C07: pkg/consensus/validator ---------------------------------------------------------
	{file: "pkg/consensus/validator/block_slot.go", recv: "BlockSlot", name: "GetSlotNumber", lean: "slotElapsed", kind: "rhs", sel: "elapsed", tok: ":=",
		params: []param{p("unixTime", "uint32"), pf("genesisTimestamp", "uint32", "a.genesisTimestamp", "BlockSlot.genesisTimestamp")}},
	{file: "pkg/consensus/validator/block_slot.go", recv: "BlockSlot", name: "GetSlotTime", lean: "getSlotTime", kind: "whole",
		params: []param{p("slot", "int"), pf("genesisTimestamp", "uint32", "a.genesisTimestamp", "BlockSlot.genesisTimestamp"),
			pf("blockTime", "uint32", "a.blockTime", "BlockSlot.blockTime")}},

	// ---- C07: the slot calculator as a whole (constructor, slot number) and the wall-clock helpers of forkChoice --
	// the constructor: what NewBlockSlot STORES (kind field with `panics`: Option, `none` = the constructor panics)
	{file: "pkg/consensus/validator/block_slot.go", name: "NewBlockSlot", lean: "newBlockSlotGenesis", kind: "field", lit: "BlockSlot", sel: "genesisTimestamp", panics: true,
		params: []param{p("genesisTimestamp", "uint32"), p("blockTime", "uint32")}},
	{file: "pkg/consensus/validator/block_slot.go", name: "NewBlockSlot", lean: "newBlockSlotBlockTime", kind: "field", lit: "BlockSlot", sel: "blockTime", panics: true,
		params: []param{p("genesisTimestamp", "uint32"), p("blockTime", "uint32")}},
	{file: "pkg/consensus/validator/block_slot.go", recv: "BlockSlot", name: "GetSlotNumber", lean: "getSlotNumber", kind: "whole",
		params: []param{p("unixTime", "uint32"), pf("genesisTimestamp", "uint32", "a.genesisTimestamp", "BlockSlot.genesisTimestamp"),
			pf("blockTime", "uint32", "a.blockTime", "BlockSlot.blockTime")}},
	{file: "pkg/consensus/forkchoice/fork_choice.go", recv: "forkChoice", name: "receivedBlockWithinForgingSlot", lean: "fcReceivedBlockWithinForgingSlot", kind: "whole",
		params: []param{ps("receivedAt", "uint32", "uint32(c.currentBlockReceivedAt.Unix())"), ps("timestamp", "uint32", "c.currentHeader.Timestamp"),
			p("genesisTimestamp", "uint32"), p("blockTime", "uint32")},
		methods: []methodRecv{{expr: "c.slot", field: "forkChoice.slot", typ: "*validator.BlockSlot", file: "pkg/consensus/validator/block_slot.go", recv: "BlockSlot"}}},
	{file: "pkg/consensus/forkchoice/fork_choice.go", recv: "forkChoice", name: "receivedLastBlockWithinForgingSlot", lean: "fcReceivedLastBlockWithinForgingSlot", kind: "whole",
		params: []param{ps("fromSync", "bool", "c.lastBlockReceivedAt == nil"), ps("receivedAt", "uint32", "uint32(c.lastBlockReceivedAt.Unix())"),
			ps("timestamp", "uint32", "c.lastHeader.Timestamp"), p("genesisTimestamp", "uint32"), p("blockTime", "uint32")},
		methods: []methodRecv{{expr: "c.slot", field: "forkChoice.slot", typ: "*validator.BlockSlot", file: "pkg/consensus/validator/block_slot.go", recv: "BlockSlot"}}},
	{file: "pkg/consensus/forkchoice/fork_choice.go", recv: "forkChoice", name: "IsTieBreak", lean: "fcIsTieBreakTimed", kind: "ret",
		params: []param{ps("duplicate", "bool", "c.isDuplicateBlock()"), ps("lastTimestamp", "uint32", "c.lastHeader.Timestamp"),
			ps("timestamp", "uint32", "c.currentHeader.Timestamp"), ps("lastInSlot", "bool", "c.receivedLastBlockWithinForgingSlot()"),
			ps("inSlot", "bool", "c.receivedBlockWithinForgingSlot()"), p("genesisTimestamp", "uint32"), p("blockTime", "uint32")},
		methods: []methodRecv{{expr: "c.slot", field: "forkChoice.slot", typ: "*validator.BlockSlot", file: "pkg/consensus/validator/block_slot.go", recv: "BlockSlot"}}},

	// ---- C15: pkg/generator ---------------------------------------------------------------------
	{file: "pkg/generator/generator.go", recv: "Generator", name: "initBlockHeader", lean: "genNextHeight", kind: "rhs", sel: "nextHeight", tok: ":=",
		params: []param{ps("lastHeight", "uint32", "lastBlock.Header.Height")}},
	{file: "pkg/generator/generator.go", recv: "Generator", name: "initBlockHeader", lean: "genNextInfoHeight", kind: "field", lit: "GeneratorInfo", sel: "Height",
		params: []param{p("nextHeight", "uint32"), ps("previousHeight", "uint32", "previousInfo.Height")}},
	{file: "pkg/generator/generator.go", recv: "Generator", name: "initBlockHeader", lean: "genNextInfoMaxHeightGenerated", kind: "field", lit: "GeneratorInfo", sel: "MaxHeightGenerated",
		params: []param{ps("previousHeight", "uint32", "previousInfo.Height")}},
	{file: "pkg/generator/generator.go", recv: "Generator", name: "initBlockHeader", lean: "genHeaderHeight", kind: "field", lit: "blockchain.BlockHeader", sel: "Height",
		params: []param{p("nextHeight", "uint32")}},
	{file: "pkg/generator/generator.go", recv: "Generator", name: "initBlockHeader", lean: "genHeaderMaxHeightGenerated", kind: "field", lit: "blockchain.BlockHeader", sel: "MaxHeightGenerated",
		params: []param{ps("previousHeight", "uint32", "previousInfo.Height")}},
	{file: "pkg/generator/generator.go", recv: "Generator", name: "initBlockHeader", lean: "genHeaderMaxHeightPrevoted", kind: "field", lit: "blockchain.BlockHeader", sel: "MaxHeightPrevoted",
		params: []param{p("maxHeightPrevoted", "uint32")}},
	{file: "pkg/generator/generator.go", recv: "Generator", name: "forge", lean: "genPersistedInfoHeight", kind: "field", lit: "GeneratorInfo", sel: "Height",
		params: []param{ps("height", "uint32", "signedBlock.Header.Height"), ps("maxHeightGenerated", "uint32", "signedBlock.Header.MaxHeightGenerated")}},
	{file: "pkg/generator/generator.go", recv: "Generator", name: "forge", lean: "genPersistedInfoMaxHeightGenerated", kind: "field", lit: "GeneratorInfo", sel: "MaxHeightGenerated",
		params: []param{ps("maxHeightGenerated", "uint32", "signedBlock.Header.MaxHeightGenerated")}},
	{file: "pkg/generator/generator.go", recv: "Generator", name: "selectTransactionsByFee", lean: "genSelectBlockFull", kind: "cond", sel: "maxSize",
		params: []param{ps("size", "int", "nextTx.Size()"), p("totalSize", "int"), p("maxSize", "int")}},
	{file: "pkg/generator/generator.go", recv: "Generator", name: "selectTransactionsByFee", lean: "genSelectTotalSize", kind: "rhs", sel: "totalSize", tok: "+=", comb: true,
		params: []param{p("totalSize", "int"), ps("size", "int", "nextTx.Size()")}},
	{file: "pkg/generator/generator.go", recv: "Generator", name: "limitTransactionsWithSize", lean: "genLimitBlockFull", kind: "cond", sel: "maxTransactionsLength",
		params: []param{ps("size", "int", "tx.Size()"), p("totalSize", "int"), p("maxTransactionsLength", "int")}},
	{file: "pkg/generator/generator.go", recv: "Generator", name: "limitTransactionsWithSize", lean: "genLimitTotalSize", kind: "rhs", sel: "totalSize", tok: "+=", comb: true,
		params: []param{p("totalSize", "int"), ps("size", "int", "tx.Size()")}},
	{file: "pkg/generator/selector.go", name: "getSortedTransactionMapByNonce", lean: "genFeePriority", kind: "rhs", sel: "priority", tok: ":=", panics: true,
		params: []param{ps("fee", "uint64", "tx.Fee"), ps("size", "int", "tx.Size()")}},
	{file: "pkg/generator/selector.go", name: "getSortedTransactionMapByNonce", lean: "genFeePriorityStored", kind: "field", lit: "TransactionWithFeePriority", sel: "FeePriority",
		params: []param{p("priority", "uint64")}},
	{file: "pkg/generator/selector.go", recv: "FeePriorityTransactions", name: "Less", lean: "genFeeLess", kind: "whole",
		params: []param{pf("a", "int", "h[i].FeePriority", "TransactionWithFeePriority.FeePriority"), pf("b", "int", "h[j].FeePriority", "TransactionWithFeePriority.FeePriority")}},
	{file: "pkg/generator/generator.go", recv: "Generator", name: "forge", lean: "genPersistedInfoMaxHeightPrevoted", kind: "field", lit: "GeneratorInfo", sel: "MaxHeightPrevoted",
		params: []param{ps("maxHeightPrevoted", "uint32", "signedBlock.Header.MaxHeightPrevoted")}},

	// ---- C01/C02: pkg/consensus/liskbft — every loop-free integer expression of the vote counting -------------
	// (Props/C02_Arith.lean, Props/C01_Arith.lean: equal to the expressions of Model/BFT.lean for all uint32 /
	// uint64 inputs, or exactly under the stated guard)
	{file: "pkg/consensus/liskbft/validator.go", recv: "BFTVotes", name: "insertBlockBFTInfo", lean: "bftWindowLen", kind: "index", sel: "make",
		params: []param{ps("n", "int", "len(v.blockBFTInfos)"), p("maxLength", "int")}},
	{file: "pkg/consensus/liskbft/validator.go", recv: "BFTVotes", name: "insertBlockBFTInfo", lean: "bftWindowFull", kind: "cond", sel: "maxLength",
		params: []param{p("i", "int"), p("maxLength", "int")}},
	{file: "pkg/consensus/liskbft/validator.go", recv: "BFTVotes", name: "updatePrevotesPrecommits", lean: "bftHeaderImpliesNoVotes", kind: "cond", sel: "newBlockBFTInfo.maxHeightGenerated >= ",
		params: []param{pf("maxHeightGenerated", "uint32", "newBlockBFTInfo.maxHeightGenerated", "BFTBlockHeader.maxHeightGenerated"),
			pf("height", "uint32", "newBlockBFTInfo.height", "BFTBlockHeader.height")}},
	{file: "pkg/consensus/liskbft/validator.go", recv: "BFTVotes", name: "updatePrevotesPrecommits", lean: "bftMinPrecommitHeight", kind: "rhs", sel: "minPrecomimtHeight", tok: ":=", want: "uint32",
		params: []param{pf("minActiveHeight", "uint32", "validatorInfo.minActiveHeight", "ActiveValidator.minActiveHeight"), p("heightNotPrevoted", "uint32"),
			pf("largestHeightPrecommit", "uint32", "validatorInfo.largestHeightPrecommit", "ActiveValidator.largestHeightPrecommit")}},
	{file: "pkg/consensus/liskbft/validator.go", recv: "BFTVotes", name: "updatePrevotesPrecommits", lean: "bftMinPrevoteHeight", kind: "rhs", sel: "minPrevoteHeight", tok: ":=", want: "uint32",
		params: []param{pf("maxHeightGenerated", "uint32", "newBlockBFTInfo.maxHeightGenerated", "BFTBlockHeader.maxHeightGenerated"),
			pf("minActiveHeight", "uint32", "validatorInfo.minActiveHeight", "ActiveValidator.minActiveHeight")}},
	{file: "pkg/consensus/liskbft/validator.go", recv: "BFTVotes", name: "updatePrevotesPrecommits", lean: "bftBelowMinPrecommit", kind: "cond", sel: "blockBFTInfo.height < minPrecomimtHeight",
		params: []param{pf("height", "uint32", "blockBFTInfo.height", "BFTBlockHeader.height"), p("minPrecomimtHeight", "uint32")}},
	{file: "pkg/consensus/liskbft/validator.go", recv: "BFTVotes", name: "updatePrevotesPrecommits", lean: "bftBelowMinPrevote", kind: "cond", sel: "blockBFTInfo.height < minPrevoteHeight",
		params: []param{pf("height", "uint32", "blockBFTInfo.height", "BFTBlockHeader.height"), p("minPrevoteHeight", "uint32")}},
	{file: "pkg/consensus/liskbft/validator.go", recv: "BFTVotes", name: "updatePrevotesPrecommits", lean: "bftHasPrevoteQuorum", kind: "cond", sel: "blockBFTInfo.prevoteWeight >= params.prevoteThreshold",
		params: []param{pf("prevoteWeight", "uint64", "blockBFTInfo.prevoteWeight", "BFTBlockHeader.prevoteWeight"),
			pf("prevoteThreshold", "uint64", "params.prevoteThreshold", "BFTParams.prevoteThreshold")}},
	{file: "pkg/consensus/liskbft/validator.go", recv: "BFTVotes", name: "updatePrevotesPrecommits", lean: "bftAddPrecommitWeight", kind: "rhs", sel: "blockBFTInfo.precommitWeight", tok: "+=", comb: true, want: "uint64",
		params: []param{pf("precommitWeight", "uint64", "blockBFTInfo.precommitWeight", "BFTBlockHeader.precommitWeight"),
			pf("bftWeight", "uint64", "bftValidator.bftWeight", "BFTValidator.bftWeight")}},
	{file: "pkg/consensus/liskbft/validator.go", recv: "BFTVotes", name: "updatePrevotesPrecommits", lean: "bftAddPrevoteWeight", kind: "rhs", sel: "blockBFTInfo.prevoteWeight", tok: "+=", comb: true, want: "uint64",
		params: []param{pf("prevoteWeight", "uint64", "blockBFTInfo.prevoteWeight", "BFTBlockHeader.prevoteWeight"),
			pf("bftWeight", "uint64", "bftValidator.bftWeight", "BFTValidator.bftWeight")}},
	{file: "pkg/consensus/liskbft/validator.go", recv: "BFTVotes", name: "updateMaxHeightPrevoted", lean: "bftPrevotedQuorum", kind: "cond", sel: "prevoteThreshold",
		params: []param{pf("prevoteWeight", "uint64", "blockBFTInfo.prevoteWeight", "BFTBlockHeader.prevoteWeight"),
			pf("prevoteThreshold", "uint64", "params.prevoteThreshold", "BFTParams.prevoteThreshold")}},
	{file: "pkg/consensus/liskbft/validator.go", recv: "BFTVotes", name: "updateMaxHeightPrecommitted", lean: "bftPrecommittedQuorum", kind: "cond", sel: "precommitThreshold",
		params: []param{pf("precommitWeight", "uint64", "blockBFTInfo.precommitWeight", "BFTBlockHeader.precommitWeight"),
			pf("precommitThreshold", "uint64", "params.precommitThreshold", "BFTParams.precommitThreshold")}},
	{file: "pkg/consensus/liskbft/validator.go", recv: "BFTVotes", name: "getHeightNotPrevoted", lean: "bftHnpInWindow", kind: "forCond", sel: "heightPreviousBlock",
		params: []param{p("currentHeight", "uint32"), p("heightPreviousBlock", "uint32"), ps("n", "int", "len(v.blockBFTInfos)")}},
	{file: "pkg/consensus/liskbft/validator.go", recv: "BFTVotes", name: "getHeightNotPrevoted", lean: "bftHnpIndex", kind: "index", sel: "v.blockBFTInfos", nth: 2, count: 3,
		params: []param{p("currentHeight", "uint32"), p("heightPreviousBlock", "uint32")}},
	{file: "pkg/consensus/liskbft/validator.go", recv: "BFTVotes", name: "getHeightNotPrevoted", lean: "bftHnpOldestIndex", kind: "index", sel: "v.blockBFTInfos", nth: 3, count: 3,
		params: []param{ps("n", "int", "len(v.blockBFTInfos)")}},
	{file: "pkg/consensus/liskbft/validator.go", recv: "BFTVotes", name: "getHeightNotPrevoted", lean: "bftHnpStops", kind: "cond", sel: "blockBFTInfo.maxHeightGenerated >= heightPreviousBlock",
		params: []param{ps("sameGenerator", "bool", "bytes.Equal(blockBFTInfo.generatorAddress, newBlockBFTInfo.generatorAddress)"),
			pf("maxHeightGenerated", "uint32", "blockBFTInfo.maxHeightGenerated", "BFTBlockHeader.maxHeightGenerated"), p("heightPreviousBlock", "uint32")}},
	{file: "pkg/consensus/liskbft/validator.go", recv: "BFTVotes", name: "getHeightNotPrevoted", lean: "bftHnpFallback", kind: "ret", nth: 2, count: 2, want: "uint32",
		params: []param{pf("oldestHeight", "uint32", "oldest.height", "BFTBlockHeader.height")}},
	{file: "pkg/consensus/liskbft/validator.go", recv: "bftParamsCache", name: "cache", lean: "bftCacheLoopCond", kind: "forCond", sel: "height <= to",
		params: []param{p("height", "uint32"), p("to", "uint32")}},
	{file: "pkg/consensus/liskbft/validator.go", recv: "bftParamsCache", name: "cache", lean: "bftCacheLoopNext", kind: "forPost", sel: "height <= to",
		params: []param{p("height", "uint32")}},
	{file: "pkg/consensus/liskbft/validator.go", recv: "bftParamsCache", name: "cache", lean: "bftCacheHasLower", kind: "cond", sel: "from > 0",
		params: []param{p("from", "uint32")}},
	{file: "pkg/consensus/liskbft/module.go", recv: "Module", name: "Init", lean: "bftMaxLengthBlock", kind: "rhs", sel: "m.maxLengthBlock", tok: "=", want: "int",
		params: []param{pf("batchSize", "int", "m.batchSize", "Module.batchSize")}},
	{file: "pkg/consensus/liskbft/module.go", recv: "Module", name: "BeforeTransactionsExecute", lean: "bftMinHeightParamsRequired", kind: "rhs", sel: "minHeightBFTParamsRequired", tok: ":=", want: "uint32",
		params: []param{pf("oldestHeight", "uint32", "bftVotes.blockBFTInfos[len(bftVotes.blockBFTInfos) - 1].height", "BFTBlockHeader.height"),
			pf("maxHeightCertified", "uint32", "bftVotes.maxHeightCertified", "BFTVotes.maxHeightCertified")}},
	{file: "pkg/consensus/liskbft/api.go", recv: "API", name: "ImpliesMaximalPrevotes", lean: "bftImpliesWrongHeight", kind: "cond", sel: "blockHeader.Height() != currentHeight",
		params: []param{ps("height", "uint32", "blockHeader.Height()"), p("currentHeight", "uint32")}},
	{file: "pkg/consensus/liskbft/api.go", recv: "API", name: "ImpliesMaximalPrevotes", lean: "bftImpliesNoPrevotes", kind: "cond", sel: "previousHeight >= ",
		params: []param{p("previousHeight", "uint32"), ps("height", "uint32", "blockHeader.Height()")}},
	{file: "pkg/consensus/liskbft/api.go", recv: "API", name: "ImpliesMaximalPrevotes", lean: "bftImpliesInvalidHeights", kind: "cond", sel: "currentHeight < previousHeight",
		params: []param{p("currentHeight", "uint32"), p("previousHeight", "uint32")}},
	{file: "pkg/consensus/liskbft/api.go", recv: "API", name: "ImpliesMaximalPrevotes", lean: "bftImpliesOffset", kind: "rhs", sel: "offset", tok: ":=", want: "uint32",
		params: []param{p("currentHeight", "uint32"), p("previousHeight", "uint32")}},
	{file: "pkg/consensus/liskbft/api.go", recv: "API", name: "ImpliesMaximalPrevotes", lean: "bftImpliesBeyondWindow", kind: "cond", sel: "int(offset) >= ",
		params: []param{p("offset", "uint32"), ps("n", "int", "len(bftVotes.blockBFTInfos)")}},
	{file: "pkg/consensus/liskbft/api.go", recv: "API", name: "NextHeightBFTParameters", lean: "bftNextParamsStart", kind: "index", sel: "bytes.FromUint32", nth: 1, count: 2,
		params: []param{p("height", "uint32")}},
	{file: "pkg/consensus/liskbft/api.go", recv: "API", name: "SetBFTParameters", lean: "bftSetParamsNextHeight", kind: "rhs", sel: "nextHeight", tok: ":=", want: "uint32",
		params: []param{p("currentHeight", "uint32")}},
	{file: "pkg/consensus/liskbft/api.go", recv: "API", name: "SetBFTParameters", lean: "bftNewValidatorMinActiveHeight", kind: "field", lit: "ActiveValidator", sel: "minActiveHeight",
		params: []param{p("nextHeight", "uint32")}},
	{file: "pkg/consensus/liskbft/api.go", recv: "API", name: "SetBFTParameters", lean: "bftNewValidatorLargestHeightPrecommit", kind: "field", lit: "ActiveValidator", sel: "largestHeightPrecommit",
		params: []param{p("nextHeight", "uint32")}},
	{file: "pkg/consensus/liskbft/api.go", recv: "API", name: "SetGeneratorKeys", lean: "bftSetKeysNextHeightEmpty", kind: "rhs", sel: "nextHeight", tok: ":=", want: "uint32",
		params: []param{pf("maxHeightPrevoted", "uint32", "bftVotes.maxHeightPrevoted", "BFTVotes.maxHeightPrevoted")}},
	{file: "pkg/consensus/liskbft/api.go", recv: "API", name: "SetGeneratorKeys", lean: "bftSetKeysNextHeight", kind: "rhs", sel: "nextHeight", tok: "=", want: "uint32",
		params: []param{pf("height", "uint32", "bftVotes.blockBFTInfos[0].height", "BFTBlockHeader.height")}},

	// ---- C15 (boundary): the VERIFIER's side of the limits the generator respects (Props/C15_Boundary.lean: the
	// regenerated stop test of the generator and the regenerated reject test of verifyBlock are complementary at
	// every value). verifyBlock must keep the shape `sum := 0; for … { sum += tx.Size() }; if sum > int(limit)`:
	// any other shape (e.g. a decremented budget) is not found here and breaks the tie.
	{file: "pkg/consensus/verify.go", recv: "Executer", name: "verifyBlock", lean: "verifyPayloadInit", kind: "rhs", sel: "transactionsSize", tok: ":=", want: "int"},
	{file: "pkg/consensus/verify.go", recv: "Executer", name: "verifyBlock", lean: "verifyPayloadTotal", kind: "rhs", sel: "transactionsSize", tok: "+=", comb: true,
		params: []param{p("transactionsSize", "int"), ps("size", "int", "tx.Size()")}},
	{file: "pkg/consensus/verify.go", recv: "Executer", name: "verifyBlock", lean: "verifyPayloadTooLarge", kind: "cond", sel: "MaxTransactionsLength",
		params: []param{p("transactionsSize", "int"), ps("maxLength", "uint32", "c.chain.MaxTransactionsLength()")}},
	{file: "pkg/generator/generator.go", recv: "Generator", name: "forge", lean: "genSelectLimitArg", kind: "index", sel: "g.selectTransactionsByFee",
		params: []param{ps("maxTransactionsSize", "uint32", "g.cfg.Genesis.MaxTransactionsSize")}},
	{file: "pkg/generator/generator.go", recv: "Generator", name: "forge", lean: "genLimitLimitArg", kind: "arg0", sel: "g.limitTransactionsWithSize",
		params: []param{ps("maxTransactionsSize", "uint32", "g.cfg.Genesis.MaxTransactionsSize")}},
	{file: "pkg/blockchain/transaction.go", lean: "maxTransactionParamsSize", kind: "const", sel: "MaxTransactionParamsSize", want: "int"},
	{file: "pkg/blockchain/transaction.go", recv: "Transaction", name: "Validate", lean: "txParamsTooLarge", kind: "cond", sel: "MaxTransactionParamsSize",
		params: []param{ps("paramsLen", "int", "len(t.Params)")}},
}

// ---- typed expressions -------------------------------------------------------------------------

type tv struct {
	s  string
	ty gtype
	c  *big.Int // value of an untyped (or converted) constant
}

type tr2 struct {
	fset   *token.FileSet
	pkg    *pkgInfo
	tg     *target2
	err    error
	env    map[string]gtype // parameters and local variables
	subst  map[string]param
	locals map[string]bool // identifiers declared inside the Go function (they shadow package constants)
	panics []string        // conditions under which the current statement panics
	nopan  int             // > 0: inside the right operand of && / ||, where a panic would be conditional
	nil    *nilState       // nil discipline of a `nilsafe` target (nil.go)
}

type pkgInfo struct {
	consts  map[string]*ast.ValueSpec
	structs map[string]*ast.StructType
	funcs   map[string]bool
}

var leanKeywords = map[string]bool{"from": true, "to": true, "at": true, "end": true, "then": true, "do": true, "fun": true, "in": true,
	"let": true, "have": true, "show": true, "open": true, "by": true, "match": true, "with": true, "if": true, "else": true, "max": true,
	"min": true, "next": true, "exists": true, "def": true, "theorem": true, "where": true, "instance": true, "local": true}

func lname(s string) string {
	if leanKeywords[s] {
		return s + "_"
	}
	return s
}

func (t *tr2) fail(n ast.Node, msg string) tv {
	if t.err == nil {
		pos := ""
		if n != nil && n.Pos().IsValid() {
			pos = t.fset.Position(n.Pos()).String() + ": "
		}
		t.err = fmt.Errorf("%s%s: unsupported: %s", pos, t.tg.lean, msg)
	}
	return tv{s: "sorry_unsupported", ty: "bool"}
}

func constStr(c *big.Int) string {
	if c.Sign() < 0 {
		return "(" + c.String() + ")"
	}
	return c.String()
}

func fits(c *big.Int, ty gtype) bool {
	if isUnsigned(ty) {
		return c.Sign() >= 0 && c.BitLen() <= bitsOf(ty)
	}
	lim := new(big.Int).Lsh(big.NewInt(1), 63)
	return c.Cmp(lim) < 0 && c.Cmp(new(big.Int).Neg(lim)) >= 0
}

// lookupConst finds a package-level constant
func (t *tr2) lookupConst(id *ast.Ident) (ast.Expr, ast.Expr) {
	if t.env != nil {
		if _, ok := t.env[id.Name]; ok {
			return nil, nil
		}
	}
	vs := t.pkg.consts[id.Name]
	if vs == nil {
		return nil, nil
	}
	if t.locals[id.Name] {
		t.fail(id, "identifier "+id.Name+" is declared inside the function and shadows a package constant; declare it as a parameter of the target")
		return nil, nil
	}
	for i, n := range vs.Names {
		if n.Name == id.Name && i < len(vs.Values) {
			return vs.Values[i], vs.Type
		}
	}
	return nil, nil
}

// constEval evaluates an integer constant expression exactly (Go semantics of untyped constants);
// ty = "untyped" or the type given by a conversion / typed declaration
func (t *tr2) constEval(e ast.Expr) (*big.Int, gtype, bool) {
	switch x := e.(type) {
	case *ast.BasicLit:
		if x.Kind != token.INT {
			return nil, "", false
		}
		v, ok := new(big.Int).SetString(strings.ReplaceAll(x.Value, "_", ""), 0)
		return v, untyped, ok
	case *ast.ParenExpr:
		return t.constEval(x.X)
	case *ast.Ident:
		val, ty := t.lookupConst(x)
		if val == nil {
			return nil, "", false
		}
		v, vt, ok := t.constEval(val)
		if !ok {
			return nil, "", false
		}
		if ty != nil {
			g := goType(types.ExprString(ty))
			if g == "" || !isInteger(g) || !fits(v, g) {
				return nil, "", false
			}
			return v, g, true
		}
		return v, vt, true
	case *ast.UnaryExpr:
		v, vt, ok := t.constEval(x.X)
		if !ok || x.Op != token.SUB || vt != untyped {
			return nil, "", false
		}
		return new(big.Int).Neg(v), untyped, true
	case *ast.CallExpr:
		if id, ok := x.Fun.(*ast.Ident); ok && len(x.Args) == 1 {
			if g := goType(id.Name); g != "" && isInteger(g) {
				v, _, ok := t.constEval(x.Args[0])
				if !ok || !fits(v, g) {
					return nil, "", false
				}
				return v, g, true
			}
		}
		return nil, "", false
	case *ast.BinaryExpr:
		a, at, ok1 := t.constEval(x.X)
		b, bt, ok2 := t.constEval(x.Y)
		if !ok1 || !ok2 || at != untyped || bt != untyped {
			// typed constant arithmetic is left to the general (wrapping) translation
			return nil, "", false
		}
		r := new(big.Int)
		switch x.Op {
		case token.ADD:
			r.Add(a, b)
		case token.SUB:
			r.Sub(a, b)
		case token.MUL:
			r.Mul(a, b)
		case token.QUO:
			if b.Sign() == 0 {
				return nil, "", false
			}
			r.Quo(a, b)
		case token.REM:
			if b.Sign() == 0 {
				return nil, "", false
			}
			r.Rem(a, b)
		case token.SHL:
			if b.Sign() < 0 || b.BitLen() > 10 {
				return nil, "", false
			}
			r.Lsh(a, uint(b.Int64()))
		case token.SHR:
			if b.Sign() < 0 || b.BitLen() > 10 {
				return nil, "", false
			}
			r.Rsh(a, uint(b.Int64()))
		default:
			return nil, "", false
		}
		return r, untyped, true
	}
	return nil, "", false
}

// coerce gives an untyped constant the type ty
func (t *tr2) coerce(n ast.Node, v tv, ty gtype) tv {
	if v.ty != untyped {
		return v
	}
	if !isInteger(ty) {
		return t.fail(n, "untyped constant in a non-integer context")
	}
	if !fits(v.c, ty) {
		return t.fail(n, fmt.Sprintf("constant %s does not fit %s", v.c, ty))
	}
	return tv{s: constStr(v.c), ty: ty, c: v.c}
}

func wrap(s string, ty gtype) string {
	if isUnsigned(ty) {
		return "((" + s + ") % " + modOf(ty) + ")"
	}
	return "(i64 (" + s + "))"
}

func (t *tr2) convert(n ast.Node, v tv, to gtype) tv {
	if v.ty == untyped {
		return t.coerce(n, v, to)
	}
	from := v.ty
	switch {
	case !isInteger(from) || !isInteger(to):
		return t.fail(n, fmt.Sprintf("conversion %s -> %s", from, to))
	case isUnsigned(from) && isUnsigned(to):
		if bitsOf(to) >= bitsOf(from) {
			return tv{s: v.s, ty: to}
		}
		return tv{s: "(" + v.s + " % " + modOf(to) + ")", ty: to}
	case isUnsigned(from) && isSigned(to):
		if bitsOf(from) < 64 {
			return tv{s: "(Int.ofNat " + v.s + ")", ty: to}
		}
		return tv{s: "(i64 (Int.ofNat " + v.s + "))", ty: to}
	case isSigned(from) && isUnsigned(to):
		return tv{s: "(Int.toNat (" + v.s + " % " + modOf(to) + "))", ty: to}
	default:
		return tv{s: v.s, ty: to}
	}
}

func (t *tr2) expr(e ast.Expr) tv {
	if pr, ok := t.subst[types.ExprString(e)]; ok {
		if t.nil != nil || pr.opt != "" || pr.optTest != "" {
			return t.nilSubst(e, pr)
		}
		return tv{s: lname(pr.name), ty: pr.ty}
	}
	if c, ct, ok := t.constEval(e); ok {
		if ct == untyped {
			return tv{s: constStr(c), ty: untyped, c: c}
		}
		return tv{s: constStr(c), ty: ct, c: c}
	}
	switch x := e.(type) {
	case *ast.ParenExpr:
		v := t.expr(x.X)
		return v
	case *ast.Ident:
		switch x.Name {
		case "true", "false":
			return tv{s: x.Name, ty: "bool"}
		}
		if ty, ok := t.env[x.Name]; ok {
			return tv{s: lname(x.Name), ty: ty}
		}
		return t.fail(e, "identifier "+x.Name+" is neither a parameter, a local variable nor an integer constant")
	case *ast.UnaryExpr:
		v := t.expr(x.X)
		switch x.Op {
		case token.NOT:
			if v.ty != "bool" {
				return t.fail(e, "! on a non-boolean")
			}
			return tv{s: "(!" + v.s + ")", ty: "bool"}
		case token.SUB:
			if isSigned(v.ty) {
				return tv{s: "(i64 (-" + v.s + "))", ty: v.ty}
			}
			if isUnsigned(v.ty) {
				return tv{s: "((" + modOf(v.ty) + " - " + v.s + ") % " + modOf(v.ty) + ")", ty: v.ty}
			}
		}
		return t.fail(e, "unary "+x.Op.String())
	case *ast.BinaryExpr:
		return t.binary(x)
	case *ast.CallExpr:
		return t.call(x)
	}
	return t.fail(e, fmt.Sprintf("expression %s (%T)", types.ExprString(e), e))
}

func (t *tr2) binary(x *ast.BinaryExpr) tv {
	switch x.Op {
	case token.LAND, token.LOR:
		a := t.expr(x.X)
		t.nopan++
		b := t.expr(x.Y)
		t.nopan--
		if a.ty != "bool" || b.ty != "bool" {
			return t.fail(x, "&& / || on non-booleans")
		}
		op := " && "
		if x.Op == token.LOR {
			op = " || "
		}
		return tv{s: "(" + a.s + op + b.s + ")", ty: "bool"}
	case token.SHL, token.SHR:
		a, b := t.expr(x.X), t.expr(x.Y)
		if a.ty == untyped {
			if t.tg.want == "" || !isInteger(t.tg.want) {
				return t.fail(x, "shift of an untyped constant without a declared context type")
			}
			a = t.coerce(x, a, t.tg.want)
		}
		if !isInteger(a.ty) {
			return t.fail(x, "shift of a non-integer")
		}
		// shift count: a non-negative constant or an unsigned value (a negative signed count panics in Go)
		var cnt string
		switch {
		case b.c != nil:
			if b.c.Sign() < 0 || b.c.BitLen() > 10 {
				return t.fail(x, "shift count")
			}
			cnt = b.c.String()
		case isUnsigned(b.ty):
			cnt = b.s
		case isSigned(b.ty):
			// a negative shift count panics at run time
			if t.nopan > 0 {
				return t.fail(x, "shift by a signed non-constant under && / ||")
			}
			if !t.tg.panics {
				return t.fail(x, "shift by a signed non-constant in a target that is not declared `panics`")
			}
			t.panics = append(t.panics, "decide ("+b.s+" < 0)")
			cnt = "(Int.toNat " + b.s + ")"
		default:
			return t.fail(x, "shift count")
		}
		if x.Op == token.SHR {
			// Nat: floor division by 2^k; Int: arithmetic shift (floor) — both as in Go
			return tv{s: "(" + a.s + " >>> " + cnt + ")", ty: a.ty}
		}
		if isUnsigned(a.ty) {
			return tv{s: "((" + a.s + " <<< " + cnt + ") % " + modOf(a.ty) + ")", ty: a.ty}
		}
		return tv{s: "(i64 (" + a.s + " * 2 ^ " + cnt + "))", ty: a.ty}
	}
	a, b := t.expr(x.X), t.expr(x.Y)
	if a.ty == untyped && b.ty == untyped {
		return t.fail(x, "constant expression that could not be evaluated")
	}
	if a.ty == untyped {
		a = t.coerce(x.X, a, b.ty)
	}
	if b.ty == untyped {
		b = t.coerce(x.Y, b, a.ty)
	}
	if a.ty != b.ty {
		return t.fail(x, fmt.Sprintf("mismatched types %s and %s", a.ty, b.ty))
	}
	ty := a.ty
	cmp := map[token.Token]string{token.GTR: ">", token.LSS: "<", token.GEQ: "≥", token.LEQ: "≤", token.EQL: "=", token.NEQ: "≠"}
	if op, ok := cmp[x.Op]; ok {
		if ty == "bool" && x.Op != token.EQL && x.Op != token.NEQ {
			return t.fail(x, "ordering of booleans")
		}
		return tv{s: "decide (" + a.s + " " + op + " " + b.s + ")", ty: "bool"}
	}
	if !isInteger(ty) {
		return t.fail(x, "arithmetic on "+string(ty))
	}
	switch x.Op {
	case token.ADD:
		return tv{s: wrap(a.s+" + "+b.s, ty), ty: ty}
	case token.MUL:
		return tv{s: wrap(a.s+" * "+b.s, ty), ty: ty}
	case token.SUB:
		if isUnsigned(ty) {
			return tv{s: "((" + a.s + " + " + modOf(ty) + " - " + b.s + ") % " + modOf(ty) + ")", ty: ty}
		}
		return tv{s: wrap(a.s+" - "+b.s, ty), ty: ty}
	case token.QUO, token.REM:
		if b.c == nil {
			// a zero divisor panics
			if t.nopan > 0 {
				return t.fail(x, "division by a non-constant under && / ||")
			}
			if !t.tg.panics {
				return t.fail(x, "division by a non-constant in a target that is not declared `panics`")
			}
			t.panics = append(t.panics, "decide ("+b.s+" = 0)")
		} else if b.c.Sign() == 0 {
			return t.fail(x, "division by the constant 0")
		}
		if isUnsigned(ty) {
			op := " / "
			if x.Op == token.REM {
				op = " % "
			}
			return tv{s: "(" + a.s + op + b.s + ")", ty: ty}
		}
		if x.Op == token.REM {
			return tv{s: "(Int.tmod " + a.s + " " + b.s + ")", ty: ty}
		}
		// MinInt64 / -1 wraps
		return tv{s: "(i64 (Int.tdiv " + a.s + " " + b.s + "))", ty: ty}
	case token.AND, token.OR, token.XOR:
		if !isUnsigned(ty) {
			return t.fail(x, "bitwise operator on a signed integer")
		}
		op := map[token.Token]string{token.AND: " &&& ", token.OR: " ||| ", token.XOR: " ^^^ "}[x.Op]
		return tv{s: "(" + a.s + op + b.s + ")", ty: ty}
	}
	return t.fail(x, "binary "+x.Op.String())
}

// absDiffFloat recognises `math.Abs(float64(a) - float64(b))` for unsigned a, b of at most 32 bits.
// float64 represents every such value, and the difference of two of them, exactly, so that
// `int(math.Abs(float64(a) - float64(b)))` is |a-b| as a mathematical integer (below 2^32: it fits `int`).
func (t *tr2) absDiffFloat(e ast.Expr) (tv, bool) {
	c, ok := e.(*ast.CallExpr)
	if !ok || len(c.Args) != 1 || types.ExprString(c.Fun) != "math.Abs" {
		return tv{}, false
	}
	arg := c.Args[0]
	for {
		pe, ok := arg.(*ast.ParenExpr)
		if !ok {
			break
		}
		arg = pe.X
	}
	be, ok := arg.(*ast.BinaryExpr)
	if !ok || be.Op != token.SUB {
		return tv{}, false
	}
	var ops [2]tv
	for i, o := range []ast.Expr{be.X, be.Y} {
		fc, ok := o.(*ast.CallExpr)
		if !ok || len(fc.Args) != 1 || types.ExprString(fc.Fun) != "float64" {
			return tv{}, false
		}
		v := t.expr(fc.Args[0])
		if t.err != nil || !isUnsigned(v.ty) || bitsOf(v.ty) > 32 {
			return tv{}, false
		}
		ops[i] = v
	}
	return tv{s: "(Int.ofNat (Int.natAbs ((Int.ofNat " + ops[0].s + ") - (Int.ofNat " + ops[1].s + "))))", ty: "int"}, true
}

// floorDivFloat recognises `math.Floor(float64(a) / float64(b))` for unsigned a, b of at most 32 bits.
// float64 represents a and b exactly. For b ≠ 0 the IEEE quotient q' = fl(a/b) has the same floor as the
// rational a/b: if b | a the quotient is an integer below 2^32 and exact; otherwise a/b lies at least 1/b
// away from the integers around it while |q' - a/b| ≤ 2^-53 · a/b < 2^-21 / b, and the integers below
// 2^32 are representable, so rounding cannot reach or cross one. Hence `int(math.Floor(…))` = a / b
// (natural-number division). For b = 0 the quotient is +Inf (a > 0) or NaN (a = 0), math.Floor returns
// it unchanged and the Go specification leaves the conversion to int implementation-dependent:
// `f64FloorDivToInt` (prelude of Gen/Fns2.lean) gives the value produced on amd64 (CVTTSD2SQ returns the
// "integer indefinite" -2^63 for both); the C07 harness compares it with the platform it runs on.
func (t *tr2) floorDivFloat(e ast.Expr) (tv, bool) {
	c, ok := e.(*ast.CallExpr)
	if !ok || len(c.Args) != 1 || types.ExprString(c.Fun) != "math.Floor" {
		return tv{}, false
	}
	arg := c.Args[0]
	for {
		pe, ok := arg.(*ast.ParenExpr)
		if !ok {
			break
		}
		arg = pe.X
	}
	be, ok := arg.(*ast.BinaryExpr)
	if !ok || be.Op != token.QUO {
		return tv{}, false
	}
	var ops [2]tv
	for i, o := range []ast.Expr{be.X, be.Y} {
		fc, ok := o.(*ast.CallExpr)
		if !ok || len(fc.Args) != 1 || types.ExprString(fc.Fun) != "float64" {
			return tv{}, false
		}
		v := t.expr(fc.Args[0])
		if t.err != nil || !isUnsigned(v.ty) || bitsOf(v.ty) > 32 {
			return tv{}, false
		}
		ops[i] = v
	}
	return tv{s: "(f64FloorDivToInt " + ops[0].s + " " + ops[1].s + ")", ty: "int"}, true
}

// methodCall translates `<recv expr>.<Method>(args)` for a receiver expression declared in the target's
// `methods` and a method that is itself a translated target (kind whole, not `panics`): the Go arguments
// become the callee's plain parameters, the callee's receiver-field parameters (`a.genesisTimestamp` …) are
// taken from the caller's parameters of the same name, which must have the same type.
func (t *tr2) methodCall(x *ast.CallExpr) (tv, bool) {
	se, ok := x.Fun.(*ast.SelectorExpr)
	if !ok {
		return tv{}, false
	}
	recvText := types.ExprString(se.X)
	if lean, ok := t.tg.selfCalls[se.Sel.Name]; ok && t.nil != nil && recvText == t.nil.recv {
		return t.selfCall(x, se.Sel.Name, lean), true
	}
	for _, m := range t.tg.methods {
		if m.expr != recvText {
			continue
		}
		if t.nil != nil {
			t.nilDeref(x, recvText, "method call "+recvText+"."+se.Sel.Name)
		}
		ft, ok := t.pkg.fieldType(m.field)
		if !ok || ft != m.typ {
			return t.fail(x, fmt.Sprintf("receiver %s: struct field %s has type %q, the target declares %q", m.expr, m.field, ft, m.typ)), true
		}
		for i := range targets2 {
			cal := &targets2[i]
			if cal.kind != "whole" || cal.panics || cal.file != m.file || cal.recv != m.recv || cal.name != se.Sel.Name {
				continue
			}
			if cal.want == "" {
				return t.fail(x, "method "+se.Sel.Name+" must be translated before its caller"), true
			}
			args := []string{}
			j := 0
			for _, pr := range cal.params {
				if pr.src == "" {
					if j >= len(x.Args) {
						return t.fail(x, "call arity of "+se.Sel.Name), true
					}
					v := t.expr(x.Args[j])
					j++
					if v.ty == untyped {
						v = t.coerce(x, v, pr.ty)
					}
					if v.ty != pr.ty {
						return t.fail(x, fmt.Sprintf("argument of %s has type %s, the method takes %s", se.Sel.Name, v.ty, pr.ty)), true
					}
					args = append(args, v.s)
					continue
				}
				ty, ok := t.env[pr.name]
				if !ok || ty != pr.ty {
					return t.fail(x, fmt.Sprintf("receiver field %s of %s is not a parameter of the target (type %s)", pr.name, se.Sel.Name, pr.ty)), true
				}
				args = append(args, lname(pr.name))
			}
			if j != len(x.Args) {
				return t.fail(x, "call arity of "+se.Sel.Name), true
			}
			return tv{s: "(" + cal.lean + " " + strings.Join(args, " ") + ")", ty: cal.want}, true
		}
		return t.fail(x, "method "+se.Sel.Name+" of "+m.recv+" is not a translated target"), true
	}
	return tv{}, false
}

func (t *tr2) call(x *ast.CallExpr) tv {
	// int(math.Abs(float64(a) - float64(b))): exact absolute difference
	// int(math.Floor(float64(a) / float64(b))): exact floor of the quotient
	if id, ok := x.Fun.(*ast.Ident); ok && id.Name == "int" && len(x.Args) == 1 {
		if _, shadow := t.env[id.Name]; !shadow {
			if v, ok := t.absDiffFloat(x.Args[0]); ok {
				return v
			}
			if v, ok := t.floorDivFloat(x.Args[0]); ok {
				return v
			}
		}
	}
	if v, ok := t.methodCall(x); ok {
		return v
	}
	// conversion
	if id, ok := x.Fun.(*ast.Ident); ok && len(x.Args) == 1 {
		if g := goType(id.Name); g != "" && isInteger(g) {
			if _, shadow := t.env[id.Name]; !shadow {
				return t.convert(x, t.expr(x.Args[0]), g)
			}
		}
	}
	name := ""
	switch f := x.Fun.(type) {
	case *ast.Ident:
		name = f.Name
	case *ast.SelectorExpr:
		if id, ok := f.X.(*ast.Ident); ok {
			name = id.Name + "." + f.Sel.Name
		}
	}
	// ints.Min / ints.Max of two values of one integer type (pkg/collection/ints: generic, sort based)
	if (name == "ints.Min" || name == "ints.Max") && len(x.Args) == 2 {
		a, b := t.expr(x.Args[0]), t.expr(x.Args[1])
		if a.ty == untyped {
			a = t.coerce(x, a, b.ty)
		}
		if b.ty == untyped {
			b = t.coerce(x, b, a.ty)
		}
		if a.ty != b.ty || !isInteger(a.ty) {
			return t.fail(x, "ints.Min/Max on mismatched types")
		}
		f := "Min.min"
		if name == "ints.Max" {
			f = "Max.max"
		}
		return tv{s: "(" + f + " " + a.s + " " + b.s + ")", ty: a.ty}
	}
	// ints.Min / ints.Max of three or more typed values of one integer type (variadic): nested, in argument order
	if (name == "ints.Min" || name == "ints.Max") && len(x.Args) > 2 {
		f := "Min.min"
		if name == "ints.Max" {
			f = "Max.max"
		}
		vs := []tv{}
		for _, a := range x.Args {
			v := t.expr(a)
			if v.ty == untyped || !isInteger(v.ty) || (len(vs) > 0 && v.ty != vs[0].ty) {
				return t.fail(x, "variadic ints.Min/Max on untyped or mismatched types")
			}
			vs = append(vs, v)
		}
		acc := vs[len(vs)-1].s
		for i := len(vs) - 2; i >= 0; i-- {
			acc = "(" + f + " " + vs[i].s + " " + acc + ")"
		}
		return tv{s: acc, ty: vs[0].ty}
	}
	// another translated plain function (same package: f(…); other package: pkg.f(…))
	base := name
	if i := strings.LastIndex(name, "."); i >= 0 {
		base = name[i+1:]
	}
	for i := range targets2 {
		tg := &targets2[i]
		if tg.kind == "whole" && tg.recv == "" && tg.name == base && tg.lean != t.tg.lean && !tg.panics {
			if strings.Contains(name, ".") != (filepath.Dir(tg.file) != filepath.Dir(t.tg.file)) {
				continue
			}
			if strings.Contains(name, ".") && filepath.Base(filepath.Dir(tg.file)) != name[:strings.Index(name, ".")] {
				continue
			}
			if len(x.Args) != len(tg.params) {
				return t.fail(x, "call arity of "+name)
			}
			args := []string{}
			for j, a := range x.Args {
				v := t.expr(a)
				if v.ty == untyped {
					v = t.coerce(a, v, tg.params[j].ty)
				}
				if v.ty != tg.params[j].ty {
					return t.fail(x, "argument type in call of "+name)
				}
				args = append(args, v.s)
			}
			return tv{s: "(" + tg.lean + " " + strings.Join(args, " ") + ")", ty: tg.want}
		}
	}
	return t.fail(x, "call of "+types.ExprString(x.Fun))
}

var compoundOps = map[token.Token]token.Token{token.ADD_ASSIGN: token.ADD, token.SUB_ASSIGN: token.SUB, token.MUL_ASSIGN: token.MUL,
	token.SHL_ASSIGN: token.SHL, token.SHR_ASSIGN: token.SHR, token.AND_ASSIGN: token.AND, token.OR_ASSIGN: token.OR}

// ---- statements --------------------------------------------------------------------------------

// takePanics returns the panic condition collected for the current statement ("" = none)
func (t *tr2) takePanics() string {
	if len(t.panics) == 0 {
		return ""
	}
	c := strings.Join(t.panics, " || ")
	if len(t.panics) > 1 {
		c = "(" + c + ")"
	}
	t.panics = nil
	return c
}

func (t *tr2) ret(s string) string {
	if t.tg.panics {
		return "some (" + s + ")"
	}
	return s
}

// guard wraps a statement translation with the panic check of its expressions
func (t *tr2) guard(indent, body string) string {
	if c := t.takePanics(); c != "" {
		lines := strings.Split(body, "\n")
		for i := range lines {
			if lines[i] != "" {
				lines[i] = "  " + lines[i]
			}
		}
		return indent + "if " + c + " then\n" + indent + "  none\n" + indent + "else\n" + strings.Join(lines, "\n")
	}
	return body
}

// assign translates one assignment-like statement into `let` lines; it updates the environment
func (t *tr2) assign(s ast.Stmt, indent string) string {
	switch x := s.(type) {
	case *ast.IncDecStmt:
		id, ok := x.X.(*ast.Ident)
		if !ok {
			return t.fail(s, "++/-- target").s
		}
		ty, ok := t.env[id.Name]
		if !ok || !isInteger(ty) {
			return t.fail(s, "++/-- of an unknown variable").s
		}
		op := token.ADD
		if x.Tok == token.DEC {
			op = token.SUB
		}
		v := t.binary(&ast.BinaryExpr{X: id, OpPos: x.TokPos, Op: op, Y: &ast.BasicLit{ValuePos: x.TokPos, Kind: token.INT, Value: "1"}})
		return indent + "let " + lname(id.Name) + " : " + leanTy(ty) + " := " + v.s + "\n"
	case *ast.AssignStmt:
		if len(x.Lhs) != len(x.Rhs) {
			return t.fail(s, "assignment arity").s
		}
		names, vals := []string{}, []tv{}
		for i := range x.Lhs {
			id, ok := x.Lhs[i].(*ast.Ident)
			if !ok {
				return t.fail(s, "assignment target").s
			}
			var v tv
			switch x.Tok {
			case token.DEFINE, token.ASSIGN:
				v = t.expr(x.Rhs[i])
			default:
				op, ok := compoundOps[x.Tok]
				if !ok || len(x.Lhs) != 1 {
					return t.fail(s, "assignment operator "+x.Tok.String()).s
				}
				v = t.binary(&ast.BinaryExpr{X: id, OpPos: x.TokPos, Op: op, Y: x.Rhs[i]})
			}
			old, known := t.env[id.Name]
			if x.Tok == token.DEFINE && !known {
				if v.ty == untyped {
					v = t.coerce(s, v, "int") // default type of an untyped integer constant
				}
			} else {
				if !known {
					return t.fail(s, "assignment to an unknown variable "+id.Name).s
				}
				if v.ty == untyped {
					v = t.coerce(s, v, old)
				}
				if v.ty != old {
					return t.fail(s, fmt.Sprintf("assignment of %s to %s variable %s", v.ty, old, id.Name)).s
				}
			}
			names = append(names, id.Name)
			vals = append(vals, v)
		}
		out := ""
		if len(names) == 1 {
			out = indent + "let " + lname(names[0]) + " : " + leanTy(vals[0].ty) + " := " + vals[0].s + "\n"
		} else {
			ns, vs, tys := []string{}, []string{}, []string{}
			for i := range names {
				ns = append(ns, lname(names[i]))
				vs = append(vs, vals[i].s)
				tys = append(tys, leanTy(vals[i].ty))
			}
			out = indent + "let ((" + strings.Join(ns, ", ") + ") : " + strings.Join(tys, " × ") + ") := (" + strings.Join(vs, ", ") + ")\n"
		}
		for i := range names {
			t.env[names[i]] = vals[i].ty
		}
		return out
	}
	return t.fail(s, fmt.Sprintf("statement %T where an assignment is expected", s)).s
}

// assignedVars lists the identifiers assigned by a list of assignment statements (all must be known variables)
func (t *tr2) assignedVars(list []ast.Stmt) []string {
	seen := map[string]bool{}
	out := []string{}
	for _, s := range list {
		var lhs []ast.Expr
		switch x := s.(type) {
		case *ast.IncDecStmt:
			lhs = []ast.Expr{x.X}
		case *ast.AssignStmt:
			if x.Tok == token.DEFINE {
				t.fail(s, "definition inside a conditional assignment block")
				return nil
			}
			lhs = x.Lhs
		default:
			t.fail(s, fmt.Sprintf("statement %T inside a conditional assignment block", s))
			return nil
		}
		for _, l := range lhs {
			id, ok := l.(*ast.Ident)
			if !ok {
				t.fail(s, "assignment target")
				return nil
			}
			if _, known := t.env[id.Name]; !known {
				t.fail(s, "assignment to an unknown variable "+id.Name)
				return nil
			}
			if !seen[id.Name] {
				seen[id.Name] = true
				out = append(out, id.Name)
			}
		}
	}
	return out
}

// condAssign: `if c { assignments }` (no else, no init) as a `let` of the assigned variables
func (t *tr2) condAssign(x *ast.IfStmt, indent string) string {
	if x.Init != nil || x.Else != nil {
		return t.fail(x, "if with init/else").s
	}
	c := t.expr(x.Cond)
	if c.ty != "bool" {
		return t.fail(x, "non-boolean condition").s
	}
	vars := t.assignedVars(x.Body.List)
	if t.err != nil || len(vars) == 0 {
		return t.fail(x, "if body").s
	}
	saved := map[string]gtype{}
	for k, v := range t.env {
		saved[k] = v
	}
	body := ""
	for _, s := range x.Body.List {
		body += t.assign(s, indent+"    ")
	}
	if len(t.panics) > 0 {
		return t.fail(x, "possible panic inside a conditional assignment").s
	}
	t.env = saved
	ns, tys := []string{}, []string{}
	for _, v := range vars {
		ns = append(ns, lname(v))
		tys = append(tys, leanTy(t.env[v]))
	}
	tup := strings.Join(ns, ", ")
	lhs := lname(vars[0]) + " : " + tys[0]
	if len(vars) > 1 {
		tup = "(" + tup + ")"
		lhs = "(" + tup + " : " + strings.Join(tys, " × ") + ")"
	}
	return indent + "let " + lhs + " :=\n" + indent + "  if " + c.s + " then\n" + body + indent + "    " + tup + "\n" + indent + "  else\n" + indent + "    " + tup + "\n"
}

// stmts translates a statement list ending in return statements (whole functions)
func (t *tr2) stmts(list []ast.Stmt, indent string, results []gtype) string {
	if len(list) == 0 {
		return t.fail(nil, "function falls off the end").s
	}
	s, rest := list[0], list[1:]
	switch x := s.(type) {
	case *ast.ReturnStmt:
		if len(x.Results) != len(results) {
			return t.fail(s, "number of results").s
		}
		vals := []string{}
		for i, r := range x.Results {
			v := t.expr(r)
			if v.ty == untyped {
				v = t.coerce(r, v, results[i])
			}
			if v.ty != results[i] {
				return t.fail(r, fmt.Sprintf("result of type %s where %s is declared", v.ty, results[i])).s
			}
			vals = append(vals, v.s)
		}
		r := vals[0]
		if len(vals) > 1 {
			r = "(" + strings.Join(vals, ", ") + ")"
		}
		return t.guard(indent, indent+t.ret(r))
	case *ast.AssignStmt, *ast.IncDecStmt:
		l := t.assign(s, indent)
		return t.guard(indent, l+t.stmts(rest, indent, results))
	case *ast.IfStmt:
		if x.Init != nil {
			return t.fail(s, "if with init").s
		}
		body := x.Body.List
		endsInReturn := func(b []ast.Stmt) bool {
			if len(b) == 0 {
				return false
			}
			_, ok := b[len(b)-1].(*ast.ReturnStmt)
			return ok
		}
		if endsInReturn(body) {
			if out, ok := t.nilMatch(x, rest, indent, results); ok {
				return out
			}
			c := t.expr(x.Cond)
			if c.ty != "bool" {
				return t.fail(s, "non-boolean condition").s
			}
			pre := t.takePanics()
			saved := map[string]gtype{}
			for k, v := range t.env {
				saved[k] = v
			}
			th := t.stmts(body, indent+"  ", results)
			t.env = saved
			var el string
			if x.Else != nil {
				eb, ok := x.Else.(*ast.BlockStmt)
				if !ok || !endsInReturn(eb.List) || len(rest) != 0 {
					return t.fail(s, "else branch").s
				}
				el = t.stmts(eb.List, indent+"  ", results)
			} else {
				el = t.stmts(rest, indent+"  ", results)
			}
			out := indent + "if " + c.s + " then\n" + th + "\n" + indent + "else\n" + el
			if pre != "" {
				t.panics = []string{pre}
				return t.guard(indent, out)
			}
			return out
		}
		l := t.condAssign(x, indent)
		return l + t.stmts(rest, indent, results)
	}
	return t.fail(s, fmt.Sprintf("statement %T", s)).s
}

// ---- locating fragments ----------------------------------------------------------------------------

func (t *tr2) pick(n ast.Node, what string, found int) (int, bool) {
	tg := t.tg
	if tg.all {
		if found == 0 {
			t.fail(n, "no "+what+" found")
			return 0, false
		}
		return 0, true
	}
	if tg.nth == 0 {
		if found != 1 {
			t.fail(n, fmt.Sprintf("expected exactly one %s, found %d", what, found))
			return 0, false
		}
		return 0, true
	}
	if found != tg.count {
		t.fail(n, fmt.Sprintf("expected %d × %s, found %d", tg.count, what, found))
		return 0, false
	}
	return tg.nth - 1, true
}

func tokOf(s string) token.Token {
	for tk := token.ADD; tk <= token.DEFINE; tk++ {
		if tk.String() == s {
			return tk
		}
	}
	return token.ILLEGAL
}

// translateAll translates each candidate expression; with `all` they must agree
func (t *tr2) translateSel(fd *ast.FuncDecl, what string, cands []ast.Expr, f func(ast.Expr) tv) tv {
	i, ok := t.pick(fd, what, len(cands))
	if !ok {
		return tv{}
	}
	if !t.tg.all {
		return f(cands[i])
	}
	first := f(cands[0])
	for _, c := range cands[1:] {
		v := f(c)
		if v.s != first.s || v.ty != first.ty {
			return t.fail(c, "occurrences of "+what+" differ: "+first.s+" vs "+v.s)
		}
	}
	return first
}

// ---- driver -------------------------------------------------------------------------------------------

func loadPkg(fset *token.FileSet, dir string, cache map[string]*pkgInfo) (*pkgInfo, error) {
	if pi, ok := cache[dir]; ok {
		return pi, nil
	}
	pi := &pkgInfo{consts: map[string]*ast.ValueSpec{}, structs: map[string]*ast.StructType{}, funcs: map[string]bool{}}
	ents, err := os.ReadDir(dir)
	if err != nil {
		return nil, err
	}
	names := []string{}
	for _, e := range ents {
		n := e.Name()
		if e.IsDir() || !strings.HasSuffix(n, ".go") || strings.HasSuffix(n, "_test.go") || strings.HasSuffix(n, "_verif.go") {
			continue
		}
		names = append(names, n)
	}
	sort.Strings(names)
	for _, n := range names {
		f, err := parser.ParseFile(fset, filepath.Join(dir, n), nil, 0)
		if err != nil {
			return nil, err
		}
		for _, d := range f.Decls {
			gd, ok := d.(*ast.GenDecl)
			if !ok {
				continue
			}
			for _, sp := range gd.Specs {
				switch s := sp.(type) {
				case *ast.ValueSpec:
					if gd.Tok == token.CONST {
						for _, nm := range s.Names {
							pi.consts[nm.Name] = s
						}
					}
				case *ast.TypeSpec:
					if st, ok := s.Type.(*ast.StructType); ok {
						pi.structs[s.Name.Name] = st
					}
				}
			}
		}
	}
	cache[dir] = pi
	return pi, nil
}

func (pi *pkgInfo) fieldType(spec string) (string, bool) {
	i := strings.Index(spec, ".")
	st := pi.structs[spec[:i]]
	if st == nil {
		return "", false
	}
	for _, f := range st.Fields.List {
		for _, n := range f.Names {
			if n.Name == spec[i+1:] {
				return types.ExprString(f.Type), true
			}
		}
	}
	return "", false
}

func genTyped(repo string) (string, error) {
	fset := token.NewFileSet()
	files := map[string]*ast.File{}
	pkgs := map[string]*pkgInfo{}
	var b strings.Builder
	b.WriteString("/- GENERATED by tools/fngen (typed translation) from /repo — do not edit. Regenerated on every check run.\n")
	b.WriteString("Go unsigned integers are `Nat` (every operation reduced modulo 2^n), Go `int`/`int64` are `Int` (every\noperation wrapped by `i64`), signed division and remainder truncate towards zero. Parameters of\nunsigned type are assumed to be below 2^n, parameters of signed type within the int64 range. -/\n")
	b.WriteString("set_option linter.unusedVariables false\n\nnamespace LiskVerif.Gen\n\n")
	b.WriteString("/-- two's complement wrap-around of Go `int` / `int64` -/\ndef i64 (x : Int) : Int := (x + 9223372036854775808) % 18446744073709551616 - 9223372036854775808\n\n")
	b.WriteString("/-- `int(math.Floor(float64(a) / float64(b)))` for unsigned `a`, `b` of at most 32 bits: the exact floor of the\nquotient when `b ≠ 0` (see tools/fngen/typed.go `floorDivFloat`); for `b = 0` the float64 quotient is +Inf or NaN,\nwhose conversion to `int` the Go specification leaves implementation-dependent — this is the amd64 value -2^63 -/\ndef f64FloorDivToInt (a b : Nat) : Int := if b = 0 then -9223372036854775808 else Int.ofNat (a / b)\n\n")
	for i := range targets2 {
		tg := &targets2[i]
		path := filepath.Join(repo, tg.file)
		f := files[tg.file]
		if f == nil {
			var err error
			f, err = parser.ParseFile(fset, path, nil, 0)
			if err != nil {
				return "", err
			}
			files[tg.file] = f
		}
		pi, err := loadPkg(fset, filepath.Dir(path), pkgs)
		if err != nil {
			return "", err
		}
		t := &tr2{fset: fset, pkg: pi, tg: tg, env: map[string]gtype{}, subst: map[string]param{}}
		for _, pr := range tg.params {
			if pr.opt != "" {
				t.subst[pr.opt+" == nil"] = param{name: pr.name, ty: "bool", optTest: "isNone", opt: pr.opt}
				t.subst[pr.opt+" != nil"] = param{name: pr.name, ty: "bool", optTest: "isSome", opt: pr.opt}
			}
			if pr.src != "" {
				t.subst[pr.src] = pr
			} else {
				t.env[pr.name] = pr.ty
			}
			if pr.field != "" {
				ft, ok := pi.fieldType(pr.field)
				if !ok {
					return "", fmt.Errorf("%s: %s: struct field %s not found", tg.file, tg.lean, pr.field)
				}
				if goType(ft) != pr.ty {
					return "", fmt.Errorf("%s: %s: struct field %s has type %s, the target declares %s", tg.file, tg.lean, pr.field, ft, pr.ty)
				}
			}
		}
		var fd *ast.FuncDecl
		if tg.kind != "const" {
			fd = findFunc(f, tg.recv, tg.name)
			if fd == nil {
				return "", fmt.Errorf("%s: function %s.%s not found", tg.file, tg.recv, tg.name)
			}
			// parameters that are Go parameters of the function (or of a closure in it) must have the declared type
			if err := checkParamTypes(fd, tg); err != nil {
				return "", err
			}
			t.locals = declaredIn(fd)
			if err := t.initNil(f, fd); err != nil {
				return "", err
			}
		}
		out := t.gen(f, fd)
		if t.err != nil {
			return "", t.err
		}
		b.WriteString(out)
		if t.nil != nil {
			nilFacts = append(nilFacts, t.nil.facts...)
		}
	}
	b.WriteString(nilFactsLean())
	if cs, err := callSitesLean(repo); err != nil { // callsites.go: trie use of blockchain.CalculateEventRoot
		return "", err
	} else {
		b.WriteString(cs)
	}
	b.WriteString("end LiskVerif.Gen\n")
	return b.String(), nil
}

// checkParamTypes: a target parameter without source text that names a parameter of the Go function
// (or of a function literal inside it) must be declared with the same type
func checkParamTypes(fd *ast.FuncDecl, tg *target2) error {
	decl := map[string]string{}
	add := func(fl *ast.FieldList) {
		if fl == nil {
			return
		}
		for _, f := range fl.List {
			for _, n := range f.Names {
				decl[n.Name] = types.ExprString(f.Type)
			}
		}
	}
	add(fd.Type.Params)
	ast.Inspect(fd.Body, func(n ast.Node) bool {
		if fl, ok := n.(*ast.FuncLit); ok {
			add(fl.Type.Params)
		}
		return true
	})
	for _, pr := range tg.params {
		if pr.src != "" {
			continue
		}
		if ty, ok := decl[pr.name]; ok && goType(ty) != pr.ty {
			return fmt.Errorf("%s: %s: Go parameter %s has type %s, the target declares %s", tg.file, tg.lean, pr.name, ty, pr.ty)
		}
	}
	return nil
}

// declaredIn collects every identifier declared inside the function: parameters, results, receiver,
// `:=` definitions, `var` declarations, range variables, parameters of function literals
func declaredIn(fd *ast.FuncDecl) map[string]bool {
	out := map[string]bool{}
	addFields := func(fl *ast.FieldList) {
		if fl == nil {
			return
		}
		for _, f := range fl.List {
			for _, n := range f.Names {
				out[n.Name] = true
			}
		}
	}
	addFields(fd.Recv)
	addFields(fd.Type.Params)
	addFields(fd.Type.Results)
	ast.Inspect(fd.Body, func(n ast.Node) bool {
		switch x := n.(type) {
		case *ast.AssignStmt:
			if x.Tok == token.DEFINE {
				for _, l := range x.Lhs {
					if id, ok := l.(*ast.Ident); ok {
						out[id.Name] = true
					}
				}
			}
		case *ast.RangeStmt:
			if x.Tok == token.DEFINE {
				for _, l := range []ast.Expr{x.Key, x.Value} {
					if id, ok := l.(*ast.Ident); ok {
						out[id.Name] = true
					}
				}
			}
		case *ast.ValueSpec:
			for _, nm := range x.Names {
				out[nm.Name] = true
			}
		case *ast.FuncLit:
			addFields(x.Type.Params)
			addFields(x.Type.Results)
		}
		return true
	})
	return out
}

func (t *tr2) paramList(extra ...param) string {
	out := []string{}
	for _, pr := range append(append([]param{}, t.tg.params...), extra...) {
		if pr.opt != "" {
			out = append(out, "("+lname(pr.name)+" : Option "+leanTy(pr.ty)+")")
			continue
		}
		out = append(out, "("+lname(pr.name)+" : "+leanTy(pr.ty)+")")
	}
	return strings.Join(out, " ")
}

func (t *tr2) header(fd *ast.FuncDecl, note string) string {
	tg := t.tg
	where := tg.file
	if fd != nil {
		where += ": "
		if tg.recv != "" {
			where += "(*" + tg.recv + ")."
		}
		where += tg.name
	}
	tys := []string{}
	for _, pr := range tg.params {
		s := lname(pr.name) + " : " + string(pr.ty)
		if pr.src != "" {
			s += " = `" + pr.src + "`"
		}
		if pr.opt != "" {
			s += " (`none` ⇔ `" + pr.opt + " == nil`)"
		}
		tys = append(tys, s)
	}
	if len(tys) > 0 {
		note += " [" + strings.Join(tys, "; ") + "]"
	}
	return "/-- " + where + " — " + note + " -/\n"
}

func (t *tr2) def(fd *ast.FuncDecl, note, name, params, ret, body string) string {
	if params != "" {
		params = " " + params
	}
	return t.header(fd, note) + "def " + name + params + " : " + ret + " :=\n" + body + "\n\n"
}

func (t *tr2) gen(f *ast.File, fd *ast.FuncDecl) string {
	tg := t.tg
	switch tg.kind {
	case "const":
		id := ast.NewIdent(tg.sel)
		c, ct, ok := t.constEval(id)
		if !ok {
			return t.fail(f, "constant "+tg.sel+" not found or not an integer constant").s
		}
		if ct != untyped && ct != tg.want {
			return t.fail(f, fmt.Sprintf("constant %s has type %s, the target declares %s", tg.sel, ct, tg.want)).s
		}
		if !fits(c, tg.want) {
			return t.fail(f, "constant does not fit its type").s
		}
		return t.def(nil, "constant `"+tg.sel+"` ("+string(tg.want)+")", tg.lean, "", leanTy(tg.want), "  "+constStr(c))

	case "whole":
		// result types from the signature
		results := []gtype{}
		if fd.Type.Results != nil {
			for _, r := range fd.Type.Results.List {
				g := goType(types.ExprString(r.Type))
				if g == "" {
					return t.fail(r, "result type "+types.ExprString(r.Type)).s
				}
				n := len(r.Names)
				if n == 0 {
					n = 1
				}
				for i := 0; i < n; i++ {
					results = append(results, g)
				}
			}
		}
		if len(results) == 0 {
			return t.fail(fd, "function without results").s
		}
		if len(results) == 1 {
			tg.want = results[0]
		}
		body := t.stmts(fd.Body.List, "  ", results)
		rt := []string{}
		for _, r := range results {
			rt = append(rt, leanTy(r))
		}
		ret := strings.Join(rt, " × ")
		if tg.panics {
			ret = "Option (" + ret + ")"
		}
		note := "whole function body"
		if tg.panics {
			note += "; `none` = the Go code panics (division by zero, negative shift count)"
		}
		return t.def(fd, note, tg.lean, t.paramList(), ret, body)

	case "cond":
		cands := []ast.Expr{}
		ast.Inspect(fd.Body, func(n ast.Node) bool {
			if is, ok := n.(*ast.IfStmt); ok && strings.Contains(types.ExprString(is.Cond), tg.sel) {
				cands = append(cands, is.Cond)
			}
			return true
		})
		v := t.translateSel(fd, "if-condition containing `"+tg.sel+"`", cands, func(e ast.Expr) tv { return t.expr(e) })
		if t.err != nil {
			return ""
		}
		if v.ty != "bool" || len(t.panics) > 0 {
			return t.fail(fd, "condition is not a panic-free boolean").s
		}
		return t.def(fd, t.occ("condition of the `if` statement whose condition contains `"+tg.sel+"`"), tg.lean, t.paramList(), "Bool", "  "+v.s)

	case "rhs":
		tk := tokOf(tg.tok)
		cands := []ast.Expr{}
		ast.Inspect(fd.Body, func(n ast.Node) bool {
			if as, ok := n.(*ast.AssignStmt); ok && len(as.Lhs) == 1 && len(as.Rhs) == 1 && as.Tok == tk && types.ExprString(as.Lhs[0]) == tg.sel {
				if tg.comb {
					op, ok := compoundOps[tk]
					if !ok {
						t.fail(as, "comb with a non-compound assignment")
						return false
					}
					cands = append(cands, &ast.BinaryExpr{X: as.Lhs[0], OpPos: as.TokPos, Op: op, Y: as.Rhs[0]})
				} else {
					cands = append(cands, as.Rhs[0])
				}
			}
			return true
		})
		v := t.translateSel(fd, "assignment `"+tg.sel+" "+tg.tok+" …`", cands, func(e ast.Expr) tv { return t.expr(e) })
		if t.err != nil {
			return ""
		}
		if v.ty == untyped {
			if tg.want == "" {
				v = t.coerce(fd, v, "int")
			} else {
				v = t.coerce(fd, v, tg.want)
			}
		}
		if tg.want != "" && v.ty != tg.want {
			return t.fail(fd, fmt.Sprintf("right-hand side has type %s, the target declares %s", v.ty, tg.want)).s
		}
		what := "right-hand side of `" + tg.sel + " " + tg.tok + " …`"
		if tg.comb {
			what = "new value of `" + tg.sel + "` after `" + tg.sel + " " + tg.tok + " …`"
		}
		if tg.panics {
			pc := t.takePanics()
			if pc == "" {
				return t.fail(fd, "target declared `panics` but nothing can panic").s
			}
			return t.def(fd, t.occ(what)+" ("+string(v.ty)+"); `none` = the Go code panics (division by zero, negative shift count)", tg.lean, t.paramList(), "Option "+leanTy(v.ty),
				"  if "+pc+" then\n    none\n  else\n    some ("+v.s+")")
		}
		if len(t.panics) > 0 {
			return t.fail(fd, "right-hand side may panic").s
		}
		return t.def(fd, t.occ(what)+" ("+string(v.ty)+")", tg.lean, t.paramList(), leanTy(v.ty), "  "+v.s)

	case "ret":
		// the single result of the unique return statement of the function (closures excluded)
		cands := []ast.Expr{}
		ast.Inspect(fd.Body, func(n ast.Node) bool {
			switch x := n.(type) {
			case *ast.FuncLit:
				return false
			case *ast.ReturnStmt:
				if len(x.Results) == 1 {
					cands = append(cands, x.Results[0])
				} else {
					t.fail(x, "return statement without exactly one result")
				}
			}
			return true
		})
		v := t.translateSel(fd, "return statement", cands, func(e ast.Expr) tv { return t.expr(e) })
		if t.err != nil {
			return ""
		}
		if v.ty == untyped {
			if tg.want == "" {
				return t.fail(fd, "untyped result without a declared type").s
			}
			v = t.coerce(fd, v, tg.want)
		}
		note := t.occ("result expression of the `return` statement") + " (" + string(v.ty) + ")"
		if tg.panics {
			pc := t.takePanics()
			if pc == "" {
				return t.fail(fd, "target declared `panics` but nothing can panic").s
			}
			return t.def(fd, note+"; `none` = the Go code panics (division by zero, negative shift count)", tg.lean, t.paramList(), "Option "+leanTy(v.ty),
				"  if "+pc+" then\n    none\n  else\n    some ("+v.s+")")
		}
		if len(t.panics) > 0 {
			return t.fail(fd, "result may panic").s
		}
		return t.def(fd, note, tg.lean, t.paramList(), leanTy(v.ty), "  "+v.s)

	case "index":
		// the index expression of `sel[…]`, or (sel = a function) the last argument of the call `sel(…)`
		cands := []ast.Expr{}
		ast.Inspect(fd.Body, func(n ast.Node) bool {
			switch x := n.(type) {
			case *ast.IndexExpr:
				if types.ExprString(x.X) == tg.sel {
					cands = append(cands, x.Index)
				}
			case *ast.CallExpr:
				if types.ExprString(x.Fun) == tg.sel && len(x.Args) > 0 {
					cands = append(cands, x.Args[len(x.Args)-1])
				}
			}
			return true
		})
		v := t.translateSel(fd, "index / last argument of `"+tg.sel+"`", cands, func(e ast.Expr) tv { return t.expr(e) })
		if t.err != nil {
			return ""
		}
		if v.ty == untyped {
			v = t.coerce(fd, v, "int")
		}
		if len(t.panics) > 0 {
			return t.fail(fd, "index may panic").s
		}
		return t.def(fd, t.occ("index expression of `"+tg.sel+"[…]` / last argument of the call `"+tg.sel+"(…)`")+" ("+string(v.ty)+")", tg.lean, t.paramList(), leanTy(v.ty), "  "+v.s)

	case "arg0":
		// the first argument of the call `sel(…)`
		cands := []ast.Expr{}
		ast.Inspect(fd.Body, func(n ast.Node) bool {
			if x, ok := n.(*ast.CallExpr); ok && types.ExprString(x.Fun) == tg.sel && len(x.Args) > 0 {
				cands = append(cands, x.Args[0])
			}
			return true
		})
		v := t.translateSel(fd, "first argument of `"+tg.sel+"`", cands, func(e ast.Expr) tv { return t.expr(e) })
		if t.err != nil {
			return ""
		}
		if v.ty == untyped {
			v = t.coerce(fd, v, "int")
		}
		if len(t.panics) > 0 {
			return t.fail(fd, "argument may panic").s
		}
		return t.def(fd, t.occ("first argument of the call `"+tg.sel+"(…)`")+" ("+string(v.ty)+")", tg.lean, t.paramList(), leanTy(v.ty), "  "+v.s)

	case "field":
		cands := []ast.Expr{}
		ast.Inspect(fd.Body, func(n ast.Node) bool {
			cl, ok := n.(*ast.CompositeLit)
			if !ok {
				return true
			}
			if cl.Type == nil || types.ExprString(cl.Type) != tg.lit {
				return true
			}
			for _, el := range cl.Elts {
				if kv, ok := el.(*ast.KeyValueExpr); ok {
					if k, ok := kv.Key.(*ast.Ident); ok && k.Name == tg.sel {
						cands = append(cands, kv.Value)
					}
				}
			}
			return true
		})
		v := t.translateSel(fd, "field "+tg.sel+" of a "+tg.lit+" literal", cands, func(e ast.Expr) tv { return t.expr(e) })
		if t.err != nil {
			return ""
		}
		if tg.panics && v.ty != untyped {
			// Option result whether or not something can panic in the CURRENT source (the stored value of a
			// constructor must stay translatable when arithmetic is added to it): none = the Go code panics
			body := "  some (" + v.s + ")"
			if pc := t.takePanics(); pc != "" {
				body = "  if " + pc + " then\n    none\n  else\n    some (" + v.s + ")"
			}
			return t.def(fd, t.occ("field `"+tg.sel+"` of the composite literal `"+tg.lit+"{…}`")+" ("+string(v.ty)+"); `none` = the Go code panics (division by zero, negative shift count)",
				tg.lean, t.paramList(), "Option "+leanTy(v.ty), body)
		}
		if v.ty == untyped || len(t.panics) > 0 {
			return t.fail(fd, "field value is an untyped constant or may panic").s
		}
		return t.def(fd, t.occ("field `"+tg.sel+"` of the composite literal `"+tg.lit+"{…}`")+" ("+string(v.ty)+")", tg.lean, t.paramList(), leanTy(v.ty), "  "+v.s)

	case "varBlock":
		// `sel := e` followed by the statements that only assign sel (assignments, `if c { sel = … }`)
		var blocks [][]ast.Stmt
		ast.Inspect(fd.Body, func(n ast.Node) bool {
			bl, ok := n.(*ast.BlockStmt)
			if !ok {
				return true
			}
			for i, s := range bl.List {
				as, ok := s.(*ast.AssignStmt)
				if !ok || as.Tok != token.DEFINE || len(as.Lhs) != 1 || types.ExprString(as.Lhs[0]) != tg.sel {
					continue
				}
				j := i + 1
				for j < len(bl.List) && onlyAssigns(bl.List[j], tg.sel) {
					j++
				}
				blocks = append(blocks, bl.List[i:j])
			}
			return true
		})
		i, ok := t.pick(fd, "definition of `"+tg.sel+"`", len(blocks))
		if !ok {
			return ""
		}
		body := ""
		for _, s := range blocks[i] {
			if is, ok := s.(*ast.IfStmt); ok {
				body += t.condAssign(is, "  ")
			} else {
				body += t.assign(s, "  ")
			}
			if len(t.panics) > 0 {
				return t.fail(s, "statement may panic").s
			}
		}
		if t.err != nil {
			return ""
		}
		ty := t.env[tg.sel]
		return t.def(fd, fmt.Sprintf("value of `%s` after its definition and the %d following statement(s) that assign only it (%s)", tg.sel, len(blocks[i])-1, ty),
			tg.lean, t.paramList(), leanTy(ty), body+"  "+lname(tg.sel))

	case "forStep":
		// `for cond { assignments }`: one iteration; none = the loop ends
		var loops []*ast.ForStmt
		ast.Inspect(fd.Body, func(n ast.Node) bool {
			if fs, ok := n.(*ast.ForStmt); ok && fs.Init == nil && fs.Post == nil && fs.Cond != nil && strings.Contains(types.ExprString(fs.Cond), tg.sel) {
				loops = append(loops, fs)
			}
			return true
		})
		i, ok := t.pick(fd, "loop `for cond {…}` whose condition contains `"+tg.sel+"`", len(loops))
		if !ok {
			return ""
		}
		fs := loops[i]
		c := t.expr(fs.Cond)
		if c.ty != "bool" || len(t.panics) > 0 {
			return t.fail(fs, "loop condition").s
		}
		vars := t.assignedVars(fs.Body.List)
		if t.err != nil || len(vars) == 0 {
			return t.fail(fs, "loop body").s
		}
		body := ""
		for _, s := range fs.Body.List {
			body += t.assign(s, "    ")
		}
		if t.err != nil {
			return ""
		}
		if len(t.panics) > 0 {
			return t.fail(fs, "loop body may panic").s
		}
		ns, tys := []string{}, []string{}
		for _, v := range vars {
			ns = append(ns, lname(v))
			tys = append(tys, leanTy(t.env[v]))
		}
		tup := strings.Join(ns, ", ")
		if len(ns) > 1 {
			tup = "(" + tup + ")"
		}
		return t.def(fd, "one iteration of the loop `for cond { assignments }` whose condition contains `"+tg.sel+"`: `some` of the new values of ("+strings.Join(vars, ", ")+") while the condition holds, `none` = the loop ends",
			tg.lean, t.paramList(), "Option ("+strings.Join(tys, " × ")+")", "  if "+c.s+" then\n"+body+"    some "+tup+"\n  else\n    none")

	case "forCond", "forPost":
		// the condition / the post statement (`i++`, `i += e`, `i = e`: the new value of i) of the `for` statement
		// (with or without init / post statements) whose condition contains `sel`
		var loops []*ast.ForStmt
		ast.Inspect(fd.Body, func(n ast.Node) bool {
			if fs, ok := n.(*ast.ForStmt); ok && fs.Cond != nil && strings.Contains(types.ExprString(fs.Cond), tg.sel) {
				loops = append(loops, fs)
			}
			return true
		})
		i, ok := t.pick(fd, "`for` statement whose condition contains `"+tg.sel+"`", len(loops))
		if !ok {
			return ""
		}
		fs := loops[i]
		if tg.kind == "forCond" {
			c := t.expr(fs.Cond)
			if t.err != nil {
				return ""
			}
			if c.ty != "bool" || len(t.panics) > 0 {
				return t.fail(fs, "loop condition is not a panic-free boolean").s
			}
			return t.def(fd, t.occ("condition of the `for` statement whose condition contains `"+tg.sel+"`"), tg.lean, t.paramList(), "Bool", "  "+c.s)
		}
		if fs.Post == nil {
			return t.fail(fs, "`for` statement without post statement").s
		}
		vars := t.assignedVars([]ast.Stmt{fs.Post})
		if t.err != nil || len(vars) != 1 {
			return t.fail(fs, "post statement must assign exactly one variable").s
		}
		body := t.assign(fs.Post, "  ")
		if t.err != nil {
			return ""
		}
		if len(t.panics) > 0 {
			return t.fail(fs, "post statement may panic").s
		}
		return t.def(fd, "new value of `"+vars[0]+"` after the post statement of the `for` statement whose condition contains `"+tg.sel+"` ("+string(t.env[vars[0]])+")",
			tg.lean, t.paramList(), leanTy(t.env[vars[0]]), body+"  "+lname(vars[0]))

	case "appendLoop":
		return t.appendLoop(fd)
	}
	return t.fail(fd, "unknown target kind "+tg.kind).s
}

func (t *tr2) occ(s string) string {
	tg := t.tg
	if tg.all {
		return s + " (all occurrences, which agree)"
	}
	if tg.nth > 0 {
		return fmt.Sprintf("%s (occurrence %d of %d)", s, tg.nth, tg.count)
	}
	return s + " (unique)"
}

// onlyAssigns: the statement assigns nothing but the variable name
func onlyAssigns(s ast.Stmt, name string) bool {
	switch x := s.(type) {
	case *ast.IncDecStmt:
		return types.ExprString(x.X) == name
	case *ast.AssignStmt:
		return x.Tok != token.DEFINE && len(x.Lhs) == 1 && types.ExprString(x.Lhs[0]) == name
	case *ast.IfStmt:
		if x.Init != nil || x.Else != nil || len(x.Body.List) == 0 {
			return false
		}
		for _, b := range x.Body.List {
			if _, isIf := b.(*ast.IfStmt); isIf || !onlyAssigns(b, name) {
				return false
			}
		}
		return true
	}
	return false
}

// appendLoop: a function of the exact shape
//
//	result := []T{}
//	if C { result = append(result, X); return result }        (optional, at most one)
//	for i := 0; i < B; i++ { if G { return result }; next := E; result = append(result, next) }
//	return result
//
// becomes <lean>Pre (C ↦ some X), <lean>Bound (B) and <lean>Step (G ↦ none, otherwise some E).
func (t *tr2) appendLoop(fd *ast.FuncDecl) string {
	tg := t.tg
	list := fd.Body.List
	bad := func(n ast.Node, msg string) string { return t.fail(n, "appendLoop shape: "+msg).s }
	if len(list) < 3 {
		return bad(fd, "too few statements")
	}
	// result := []T{}
	as, ok := list[0].(*ast.AssignStmt)
	if !ok || as.Tok != token.DEFINE || len(as.Lhs) != 1 || len(as.Rhs) != 1 {
		return bad(list[0], "first statement is not `result := []T{}`")
	}
	res := types.ExprString(as.Lhs[0])
	cl, ok := as.Rhs[0].(*ast.CompositeLit)
	if !ok || len(cl.Elts) != 0 {
		return bad(list[0], "first statement is not `result := []T{}`")
	}
	at, ok := cl.Type.(*ast.ArrayType)
	if !ok || at.Len != nil {
		return bad(list[0], "result is not a slice")
	}
	elem := goType(types.ExprString(at.Elt))
	if !isInteger(elem) {
		return bad(list[0], "element type")
	}
	if fd.Type.Results == nil || len(fd.Type.Results.List) != 1 || types.ExprString(fd.Type.Results.List[0].Type) != "[]"+types.ExprString(at.Elt) {
		return bad(fd, "result type of the function")
	}
	isAppend := func(s ast.Stmt) ast.Expr { // result = append(result, X)
		a, ok := s.(*ast.AssignStmt)
		if !ok || a.Tok != token.ASSIGN || len(a.Lhs) != 1 || len(a.Rhs) != 1 || types.ExprString(a.Lhs[0]) != res {
			return nil
		}
		ce, ok := a.Rhs[0].(*ast.CallExpr)
		if !ok || types.ExprString(ce.Fun) != "append" || len(ce.Args) != 2 || types.ExprString(ce.Args[0]) != res || ce.Ellipsis.IsValid() {
			return nil
		}
		return ce.Args[1]
	}
	isReturnRes := func(s ast.Stmt) bool {
		r, ok := s.(*ast.ReturnStmt)
		return ok && len(r.Results) == 1 && types.ExprString(r.Results[0]) == res
	}
	if !isReturnRes(list[len(list)-1]) {
		return bad(list[len(list)-1], "last statement is not `return result`")
	}
	mid := list[1 : len(list)-1]
	out := ""
	elemTy := leanTy(elem)
	if len(mid) == 2 {
		is, ok := mid[0].(*ast.IfStmt)
		if !ok || is.Init != nil || is.Else != nil || len(is.Body.List) != 2 || isAppend(is.Body.List[0]) == nil || !isReturnRes(is.Body.List[1]) {
			return bad(mid[0], "prologue is not `if C { result = append(result, X); return result }`")
		}
		c := t.expr(is.Cond)
		x := t.expr(isAppend(is.Body.List[0]))
		if x.ty == untyped {
			x = t.coerce(is, x, elem)
		}
		if c.ty != "bool" || x.ty != elem || len(t.panics) > 0 {
			return bad(is, "prologue types")
		}
		out += t.def(fd, "prologue `if C { result = append(result, X); return result }`: `some X` when C holds (the function returns [X]), `none` otherwise",
			tg.lean+"Pre", t.paramList(), "Option "+elemTy, "  if "+c.s+" then\n    some "+x.s+"\n  else\n    none")
		mid = mid[1:]
	}
	if len(mid) != 1 {
		return bad(fd, "statements between the initialisation and the final return")
	}
	fs, ok := mid[0].(*ast.ForStmt)
	if !ok || fs.Init == nil || fs.Cond == nil || fs.Post == nil {
		return bad(mid[0], "not a three-clause for loop")
	}
	ini, ok := fs.Init.(*ast.AssignStmt)
	if !ok || ini.Tok != token.DEFINE || len(ini.Lhs) != 1 || len(ini.Rhs) != 1 || types.ExprString(ini.Rhs[0]) != "0" {
		return bad(fs, "loop initialisation is not `i := 0`")
	}
	iv := types.ExprString(ini.Lhs[0])
	post, ok := fs.Post.(*ast.IncDecStmt)
	if !ok || post.Tok != token.INC || types.ExprString(post.X) != iv {
		return bad(fs, "loop post statement is not `i++`")
	}
	cond, ok := fs.Cond.(*ast.BinaryExpr)
	if !ok || cond.Op != token.LSS || types.ExprString(cond.X) != iv {
		return bad(fs, "loop condition is not `i < B`")
	}
	if mentions(cond.Y, iv) {
		return bad(fs, "loop bound mentions the loop variable")
	}
	bound := t.expr(cond.Y)
	if bound.ty == untyped {
		bound = t.coerce(fs, bound, "int")
	}
	if bound.ty != "int" || len(t.panics) > 0 {
		return bad(fs, "loop bound is not a panic-free int")
	}
	out += t.def(fd, "bound B of the loop `for "+iv+" := 0; "+iv+" < B; "+iv+"++` (int)", tg.lean+"Bound", t.paramList(), "Int", "  "+bound.s)
	// body
	t.env[iv] = "int"
	b := fs.Body.List
	if len(b) != 3 {
		return bad(fs, "loop body is not `if G { return result }; next := E; result = append(result, next)`")
	}
	g, ok := b[0].(*ast.IfStmt)
	if !ok || g.Init != nil || g.Else != nil || len(g.Body.List) != 1 || !isReturnRes(g.Body.List[0]) {
		return bad(b[0], "loop guard is not `if G { return result }`")
	}
	gc := t.expr(g.Cond)
	nx, ok := b[1].(*ast.AssignStmt)
	if !ok || nx.Tok != token.DEFINE || len(nx.Lhs) != 1 || len(nx.Rhs) != 1 {
		return bad(b[1], "second loop statement is not `next := E`")
	}
	ap := isAppend(b[2])
	if ap == nil || types.ExprString(ap) != types.ExprString(nx.Lhs[0]) {
		return bad(b[2], "third loop statement is not `result = append(result, next)`")
	}
	e := t.expr(nx.Rhs[0])
	if e.ty == untyped {
		e = t.coerce(nx, e, elem)
	}
	if gc.ty != "bool" || e.ty != elem || len(t.panics) > 0 {
		return bad(fs, "loop body types")
	}
	out += t.def(fd, "body of the loop for loop counter "+iv+": `none` = the guard `if G { return result }` fires, `some E` = E is appended",
		tg.lean+"Step", t.paramList(param{name: iv, ty: "int"}), "Option "+elemTy, "  if "+gc.s+" then\n    none\n  else\n    some "+e.s)
	return out
}
