package main

// Tables of the block generator (pkg/generator, component Generator) for Props/C15_NoCache.lean: forge must be a
// function of (block store, clock, enabled keys) - the struct fields of Generator, every write to one of them with the
// function that performs it, the constructor initialisers, and the package-level variables with their writers. The
// tables are appended to Gen/CompState.lean as NEW definitions (gen*); the tables of the other components are left
// exactly as they are (the package is scanned with the shared collectors swapped out).

import (
	"fmt"
	"os"
	"strings"
)

var generatorSpec = pkgSpec{"generator", []string{"Generator"}}

// diffdbSpec: the staged store (pkg/db/diffdb, components Database and cacheDB) as tables ddb* for
// Props/C12_ViewsGen.lean: every handle (root and prefix views) shares ONE overlay through its own copy of the pointer
// Database.cache, so no method may replace that pointer, and every handle owns its snapshot table.
var diffdbSpec = pkgSpec{"db/diffdb", []string{"Database", "cacheDB"}}

func generatorTables(repo string) string {
	return extraTables(repo, generatorSpec, "gen", "/- pkg/generator: the block generator (Props/C15_NoCache.lean) -/") +
		extraTables(repo, diffdbSpec, "ddb", "/- pkg/db/diffdb: the staged store and its prefix views (Props/C12_ViewsGen.lean) -/")
}

func extraTables(repo string, spec pkgSpec, pre, comment string) string {
	sf, sm, sw, si, sp, sg, sgw, sc, sa := fields, methods, writes, inits, passes, globals, globalWrites, ctorCalls, allPkgs
	fields, methods, writes, inits, passes, globals, globalWrites, ctorCalls, allPkgs = nil, nil, nil, nil, nil, nil, nil, nil, nil
	defer func() {
		fields, methods, writes, inits, passes, globals, globalWrites, ctorCalls, allPkgs = sf, sm, sw, si, sp, sg, sgw, sc, sa
	}()
	if err := scan(repo, spec); err != nil {
		fmt.Fprintln(os.Stderr, "compgen:", err)
		os.Exit(1)
	}
	var b strings.Builder
	list := func(name, typ string, items []string) {
		fmt.Fprintf(&b, "def %s : List %s := [", name, typ)
		for i, it := range items {
			if i > 0 {
				b.WriteString(",")
			}
			b.WriteString("\n  " + it)
		}
		b.WriteString("]\n\n")
	}
	b.WriteString(comment + "\n\n")
	var it []string
	for _, c := range spec.components {
		it = append(it, fmt.Sprintf("(%s, %s)", q(spec.dir), q(c)))
	}
	list(pre+"Components", "(String × String)", it)
	it = nil
	for _, x := range fields {
		it = append(it, fmt.Sprintf("⟨%s, %s, %s, %s, %s⟩", q(x.pkg), q(x.strct), q(x.name), q(x.typ), q(x.kind)))
	}
	list(pre+"Fields", "Field", it)
	it = nil
	for _, x := range methods {
		it = append(it, fmt.Sprintf("⟨%s, %s, %s, %s, %v⟩", q(x.pkg), q(x.strct), q(x.name), q(x.recv), x.ptr))
	}
	list(pre+"Methods", "Method", it)
	it = nil
	for _, x := range writes {
		it = append(it, fmt.Sprintf("⟨%s, %s, %s, %s, %s, %s⟩", q(x.pkg), q(x.strct), q(x.fn), q(x.field), q(x.how), q(x.path)))
	}
	list(pre+"Writes", "Write", it)
	it = nil
	for _, x := range inits {
		it = append(it, fmt.Sprintf("⟨%s, %s, %s, %s, %s⟩", q(x.pkg), q(x.fn), q(x.strct), q(x.field), q(x.value)))
	}
	list(pre+"Inits", "Init", it)
	it = nil
	for _, x := range passes {
		it = append(it, fmt.Sprintf("⟨%s, %s, %s, %s, %s, %s, %d⟩", q(x.pkg), q(x.strct), q(x.fn), q(x.field), q(x.kind), q(x.callee), x.index))
	}
	list(pre+"Passes", "Pass", it)
	it = nil
	for _, x := range globals {
		it = append(it, fmt.Sprintf("⟨%s, %s, %s, %s, %s⟩", q(x.pkg), q(x.name), q(x.typ), q(x.kind), q(x.init)))
	}
	list(pre+"Globals", "Global", it)
	it = nil
	for _, x := range globalWrites {
		it = append(it, fmt.Sprintf("⟨%s, %s, %s, %s⟩", q(x.pkg), q(x.fn), q(x.name), q(x.how)))
	}
	list(pre+"GlobalWrites", "GWrite", it)
	return b.String()
}
