module compgen

go 1.21
