// compgen: go/ast fact extractor for "which component keeps what in memory, and who writes it" (tie A of
// Props/C05_NoCache.lean).
//
// Property C05 (deleting the tip restores the previous node state; a reorganisation ends in the state of a node that
// applied the surviving chain first) holds for the persistent state by the theorems of Props/C05*.lean. It carries over
// to the BEHAVIOUR of the node only if the components that take part in apply / delete compute from the persistent state
// alone: Executer.deleteBlock reverts the database underneath them, it cannot revert a struct field. This tool emits, as
// Lean data, for the packages pkg/consensus/liskbft (components Module, API, Endpoint, bftParamsCache), pkg/blockchain
// (Chain, DataAccess, blockCache) and pkg/consensus (Executer; top-level directory only):
//
// fields: every field of every struct of these packages - package, struct, name, type text and a syntactic KIND of the
// type: basic | map | slice | array | pointer | chan | func | interface | struct | generic | local:<kind> (a named
// type of the same package, resolved to the kind of its definition) | named | extern (pkg.Type).
//
// methods: every method of a component struct - name, receiver name, pointer receiver or not.
//
// writes: every place in ANY function of the package where a field of a component is written through the receiver, a
// parameter / named result of the component type or a local that was bound to a composite literal / new(T) of it:
// assign (x.f = e) | append (x.f = append(x.f, ..)) | opassign (x.f += e) | incdec | index-assign (x.f[k] = e) |
// nested (x.f.g = e, x.f.g[k] = e, *x.f = e) | delete (delete(x.f, k)) | clear | copy (copy(x.f, ..)) |
// addr (&x.f: the address of the field leaves) | assign-all (*x = e).
//
// inits: every element of every composite literal of a component struct, with the function it stands in and the text
// of the value (what a constructor puts into a field).
//
// passes: every call argument that is a map / slice field of a component (x.f), with callee and argument index
// (the builtins delete / clear / copy / len / cap / append are not calls in this sense; the first three are writes).
//
// ctorCalls: every call of a constructor (a plain function that contains a composite literal of a component struct:
// NewModule, newBFTParamsCache, newBlockCache, NewChain, NewDataAccess, NewExecuter) in the scanned packages, with the
// enclosing function and how the result is bound: define (v := f(..), target v) | assign (target = text of the left
// side) | field-init (target Type.field) | return | other.
//
// globals: every package-level variable - name, type text, kind (from the type or the initialiser), initialiser.
//
// globalWrites: every assignment / element assignment / append / delete / inc-dec in a function body whose target is
// a package-level variable (not shadowed by a parameter or local).
//
// OUT OF SCOPE (stated, not checked): a write through an alias (`d := x.f; d[k] = v`), through a method call on the
// value of the field (`x.f.Add(..)` - for component-typed fields the writes of the callee are in the table), or inside
// a function the field is passed to (the passes table lists the map / slice cases); writes from other packages (all
// component fields are unexported - a theorem); reflection / unsafe. Files *_test.go and *_verif.go are skipped.
// Purely syntactic: the Lean side states the exact tables, so an unforeseen construct shows up as a changed table and
// breaks a named theorem instead of passing silently.
package main

import (
	"bytes"
	"flag"
	"fmt"
	"go/ast"
	"go/parser"
	"go/printer"
	"go/token"
	"os"
	"path/filepath"
	"sort"
	"strconv"
	"strings"
)

var fset = token.NewFileSet()

func src(n ast.Node) string {
	if n == nil {
		return ""
	}
	var b bytes.Buffer
	printer.Fprint(&b, fset, n)
	return strings.Join(strings.Fields(b.String()), " ")
}

func q(s string) string { return strconv.Quote(s) }

func clip(s string) string {
	if len(s) > 100 {
		return s[:100] + ".."
	}
	return s
}

type pkgSpec struct {
	dir        string // below pkg/
	components []string
}

var scanned = []pkgSpec{
	{"consensus/liskbft", []string{"Module", "API", "Endpoint", "bftParamsCache"}},
	{"blockchain", []string{"Chain", "DataAccess", "blockCache"}},
	{"consensus", []string{"Executer"}},
}

type field struct{ pkg, strct, name, typ, kind string }
type method struct {
	pkg, strct, name, recv string
	ptr                    bool
}
type write struct{ pkg, strct, fn, field, how, path string }
type initEl struct{ pkg, fn, strct, field, value string }
type pass struct {
	pkg, strct, fn, field, kind, callee string
	index                               int
}
type global struct{ pkg, name, typ, kind, init string }
type gwrite struct{ pkg, fn, name, how string }
type ctorCall struct{ pkg, fn, callee, bind, target string }

var (
	fields       []field
	methods      []method
	writes       []write
	inits        []initEl
	passes       []pass
	globals      []global
	globalWrites []gwrite
	ctorCalls    []ctorCall
	ctorNames    = map[string]bool{} // functions that contain a composite literal of a component
	allPkgs      []*pkgInfo
)

var basic = map[string]bool{"bool": true, "string": true, "int": true, "int8": true, "int16": true, "int32": true, "int64": true,
	"uint": true, "uint8": true, "uint16": true, "uint32": true, "uint64": true, "uintptr": true, "byte": true, "rune": true,
	"float32": true, "float64": true, "complex64": true, "complex128": true}

// kindOf classifies a type expression syntactically; local maps the named types of the package to their definitions.
func kindOf(e ast.Expr, local map[string]ast.Expr, depth int) string {
	switch t := e.(type) {
	case nil:
		return "none"
	case *ast.MapType:
		return "map"
	case *ast.ArrayType:
		if t.Len == nil {
			return "slice"
		}
		return "array"
	case *ast.StarExpr:
		return "pointer"
	case *ast.ChanType:
		return "chan"
	case *ast.FuncType:
		return "func"
	case *ast.InterfaceType:
		return "interface"
	case *ast.StructType:
		return "struct"
	case *ast.ParenExpr:
		return kindOf(t.X, local, depth)
	case *ast.Ident:
		if basic[t.Name] {
			return "basic"
		}
		if t.Name == "error" || t.Name == "any" {
			return "interface"
		}
		if def, ok := local[t.Name]; ok && depth < 4 {
			return "local:" + strings.TrimPrefix(kindOf(def, local, depth+1), "local:")
		}
		return "named"
	case *ast.SelectorExpr:
		return "extern"
	case *ast.IndexExpr, *ast.IndexListExpr:
		return "generic"
	}
	return "other"
}

var builtin = map[string]bool{"delete": true, "clear": true, "copy": true, "len": true, "cap": true, "append": true}

// kindOfValue classifies an initialiser (for globals without a type).
func kindOfValue(e ast.Expr, local map[string]ast.Expr) string {
	switch v := e.(type) {
	case *ast.CompositeLit:
		return kindOf(v.Type, local, 0)
	case *ast.UnaryExpr:
		if v.Op == token.AND {
			return "pointer"
		}
	case *ast.BasicLit:
		return "basic"
	case *ast.CallExpr:
		switch v.Fun.(type) {
		case *ast.ArrayType, *ast.MapType, *ast.StarExpr:
			return kindOf(v.Fun, local, 0) // conversion
		}
		if id, ok := v.Fun.(*ast.Ident); ok {
			if (id.Name == "make" || id.Name == "new") && len(v.Args) > 0 {
				if id.Name == "new" {
					return "pointer"
				}
				return kindOf(v.Args[0], local, 0)
			}
			if basic[id.Name] {
				return "basic"
			}
		}
		return "call"
	case *ast.FuncLit:
		return "func"
	case *ast.Ident:
		if v.Name == "true" || v.Name == "false" {
			return "basic"
		}
	}
	return "value"
}

func baseTypeName(e ast.Expr) (string, bool) {
	ptr := false
	if s, ok := e.(*ast.StarExpr); ok {
		e, ptr = s.X, true
	}
	if ix, ok := e.(*ast.IndexExpr); ok {
		e = ix.X
	}
	if id, ok := e.(*ast.Ident); ok {
		return id.Name, ptr
	}
	return "", ptr
}

type pkgInfo struct {
	name       string
	files      []*ast.File
	local      map[string]ast.Expr // named types
	structs    map[string]*ast.StructType
	components map[string]bool
	globalSet  map[string]bool
	fieldKind  map[string]string // "Struct.field" -> kind
}

// rootField splits an expression into (variable, first field, rest-is-nested): x.f -> (x, f, false); x.f.g, x.f[k].h -> (x, f, true)
func rootField(e ast.Expr) (root *ast.Ident, fld string, nested bool, ok bool) {
	for {
		switch x := e.(type) {
		case *ast.ParenExpr:
			e = x.X
			continue
		case *ast.SelectorExpr:
			if id, isID := x.X.(*ast.Ident); isID {
				return id, x.Sel.Name, nested, true
			}
			nested = true
			e = x.X
			continue
		case *ast.IndexExpr:
			nested = true
			e = x.X
			continue
		case *ast.StarExpr:
			nested = true
			e = x.X
			continue
		case *ast.SliceExpr:
			nested = true
			e = x.X
			continue
		}
		return nil, "", false, false
	}
}

func funcName(fd *ast.FuncDecl) string {
	if fd.Recv != nil && len(fd.Recv.List) == 1 {
		n, _ := baseTypeName(fd.Recv.List[0].Type)
		return n + "." + fd.Name.Name
	}
	return fd.Name.Name
}

func (p *pkgInfo) funcFacts(fd *ast.FuncDecl) {
	fn := funcName(fd)
	comp := map[string]string{} // variable -> component struct
	declared := map[string]bool{}
	if fd.Recv != nil && len(fd.Recv.List) == 1 {
		tn, ptr := baseTypeName(fd.Recv.List[0].Type)
		recv := ""
		for _, n := range fd.Recv.List[0].Names {
			recv = n.Name
			declared[n.Name] = true
		}
		if p.components[tn] {
			methods = append(methods, method{p.name, tn, fd.Name.Name, recv, ptr})
			if recv != "" && recv != "_" {
				comp[recv] = tn
			}
		}
	}
	if fd.Type.Params != nil {
		for _, f := range fd.Type.Params.List {
			tn, _ := baseTypeName(f.Type)
			for _, n := range f.Names {
				declared[n.Name] = true
				if p.components[tn] {
					comp[n.Name] = tn
				}
			}
		}
	}
	if fd.Type.Results != nil {
		for _, f := range fd.Type.Results.List {
			tn, _ := baseTypeName(f.Type)
			for _, n := range f.Names {
				declared[n.Name] = true
				if p.components[tn] {
					comp[n.Name] = tn
				}
			}
		}
	}
	if fd.Body == nil {
		return
	}
	// the component a value expression creates: &T{..}, T{..}, new(T)
	created := func(e ast.Expr) string {
		if u, ok := e.(*ast.UnaryExpr); ok && u.Op == token.AND {
			e = u.X
		}
		switch v := e.(type) {
		case *ast.CompositeLit:
			if tn, _ := baseTypeName(v.Type); p.components[tn] {
				return tn
			}
		case *ast.CallExpr:
			if id, ok := v.Fun.(*ast.Ident); ok && id.Name == "new" && len(v.Args) == 1 {
				if tn, _ := baseTypeName(v.Args[0]); p.components[tn] {
					return tn
				}
			}
		}
		return ""
	}
	record := func(lhs ast.Expr, how string) {
		// whole value overwritten through a pointer: *x = e
		if st, ok := lhs.(*ast.StarExpr); ok {
			if id, ok := st.X.(*ast.Ident); ok {
				if c, ok := comp[id.Name]; ok {
					writes = append(writes, write{p.name, c, fn, "*", "assign-all", src(lhs)})
					return
				}
			}
		}
		if root, fld, nested, ok := rootField(lhs); ok {
			if c, ok := comp[root.Name]; ok {
				h := how
				if nested {
					if _, isIdx := lhs.(*ast.IndexExpr); isIdx && how == "assign" {
						// x.f[k] = e is an index assignment into the field itself; deeper paths are nested
						if r2, f2, n2, ok2 := rootField(lhs.(*ast.IndexExpr).X); ok2 && r2 == root && f2 == fld && !n2 {
							h = "index-assign"
						} else {
							h = "nested"
						}
					} else if how == "delete" || how == "clear" || how == "copy" || how == "addr" {
						h = how + "-nested"
					} else {
						h = "nested"
					}
				}
				writes = append(writes, write{p.name, c, fn, fld, h, src(lhs)})
				return
			}
		}
		// package-level variable
		var e ast.Expr = lhs
		idx := false
		for {
			switch x := e.(type) {
			case *ast.IndexExpr:
				e, idx = x.X, true
				continue
			case *ast.SelectorExpr:
				e, idx = x.X, true
				continue
			case *ast.StarExpr:
				e, idx = x.X, true
				continue
			case *ast.ParenExpr:
				e = x.X
				continue
			}
			break
		}
		if id, ok := e.(*ast.Ident); ok && p.globalSet[id.Name] && !declared[id.Name] {
			h := how
			if idx && how == "assign" {
				h = "element-assign"
			}
			globalWrites = append(globalWrites, gwrite{p.name, fn, id.Name, h})
		}
	}
	isAppendTo := func(lhs, rhs ast.Expr) bool {
		c, ok := rhs.(*ast.CallExpr)
		if !ok || len(c.Args) == 0 {
			return false
		}
		id, ok := c.Fun.(*ast.Ident)
		return ok && id.Name == "append" && src(c.Args[0]) == src(lhs)
	}
	ast.Inspect(fd.Body, func(n ast.Node) bool {
		switch x := n.(type) {
		case *ast.FuncLit:
			if x.Type.Params != nil {
				for _, f := range x.Type.Params.List {
					for _, nm := range f.Names {
						declared[nm.Name] = true
					}
				}
			}
		case *ast.AssignStmt:
			for i, l := range x.Lhs {
				var r ast.Expr
				if len(x.Rhs) == len(x.Lhs) {
					r = x.Rhs[i]
				}
				if x.Tok == token.DEFINE {
					if id, ok := l.(*ast.Ident); ok {
						declared[id.Name] = true
						if r != nil {
							if c := created(r); c != "" {
								comp[id.Name] = c
							}
						}
					}
					continue
				}
				how := "assign"
				switch {
				case x.Tok != token.ASSIGN:
					how = "opassign"
				case r != nil && isAppendTo(l, r):
					how = "append"
				}
				record(l, how)
				if id, ok := l.(*ast.Ident); ok && r != nil && x.Tok == token.ASSIGN {
					if c := created(r); c != "" && declared[id.Name] {
						comp[id.Name] = c
					}
				}
			}
		case *ast.DeclStmt:
			if gd, ok := x.Decl.(*ast.GenDecl); ok && gd.Tok == token.VAR {
				for _, sp := range gd.Specs {
					vs := sp.(*ast.ValueSpec)
					for i, nm := range vs.Names {
						declared[nm.Name] = true
						if tn, _ := baseTypeName(vs.Type); vs.Type != nil && p.components[tn] {
							comp[nm.Name] = tn
						}
						if i < len(vs.Values) {
							if c := created(vs.Values[i]); c != "" {
								comp[nm.Name] = c
							}
						}
					}
				}
			}
		case *ast.RangeStmt:
			for _, e := range []ast.Expr{x.Key, x.Value} {
				if e == nil {
					continue
				}
				if x.Tok == token.DEFINE {
					if id, ok := e.(*ast.Ident); ok {
						declared[id.Name] = true
					}
				} else {
					record(e, "assign")
				}
			}
		case *ast.IncDecStmt:
			record(x.X, "incdec")
		case *ast.UnaryExpr:
			if x.Op == token.AND {
				if _, isLit := x.X.(*ast.CompositeLit); !isLit {
					if root, _, _, ok := rootField(x.X); ok {
						if _, isComp := comp[root.Name]; isComp {
							record(x.X, "addr")
						}
					}
				}
			}
		case *ast.CallExpr:
			if id, ok := x.Fun.(*ast.Ident); ok && len(x.Args) > 0 {
				switch id.Name {
				case "delete", "clear", "copy":
					record(x.Args[0], id.Name)
				}
			}
			if id, ok := x.Fun.(*ast.Ident); ok && builtin[id.Name] {
				break
			}
			for i, a := range x.Args {
				if root, fld, nested, ok := rootField(a); ok && !nested {
					if c, ok := comp[root.Name]; ok {
						k := p.fieldKind[c+"."+fld]
						base := strings.TrimPrefix(k, "local:")
						if base == "map" || base == "slice" {
							passes = append(passes, pass{p.name, c, fn, fld, k, src(x.Fun), i})
						}
					}
				}
			}
		case *ast.CompositeLit:
			if tn, _ := baseTypeName(x.Type); p.components[tn] {
				if fd.Recv == nil {
					ctorNames[fd.Name.Name] = true
				}
				for i, el := range x.Elts {
					if kv, ok := el.(*ast.KeyValueExpr); ok {
						inits = append(inits, initEl{p.name, fn, tn, src(kv.Key), clip(src(kv.Value))})
					} else {
						inits = append(inits, initEl{p.name, fn, tn, "#" + strconv.Itoa(i), clip(src(el))})
					}
				}
			}
		}
		return true
	})
}

func scan(repo string, spec pkgSpec) error {
	dir := filepath.Join(repo, "pkg", spec.dir)
	ents, err := os.ReadDir(dir)
	if err != nil {
		return err
	}
	var names []string
	for _, e := range ents {
		n := e.Name()
		if e.IsDir() || !strings.HasSuffix(n, ".go") || strings.HasSuffix(n, "_test.go") || strings.HasSuffix(n, "_verif.go") {
			continue
		}
		names = append(names, n)
	}
	sort.Strings(names)
	p := &pkgInfo{name: spec.dir, local: map[string]ast.Expr{}, structs: map[string]*ast.StructType{}, components: map[string]bool{},
		globalSet: map[string]bool{}, fieldKind: map[string]string{}}
	for _, c := range spec.components {
		p.components[c] = true
	}
	for _, n := range names {
		f, err := parser.ParseFile(fset, filepath.Join(dir, n), nil, parser.SkipObjectResolution)
		if err != nil {
			return err
		}
		p.files = append(p.files, f)
	}
	// pass 1: named types, globals
	for _, f := range p.files {
		for _, d := range f.Decls {
			gd, ok := d.(*ast.GenDecl)
			if !ok {
				continue
			}
			for _, sp := range gd.Specs {
				switch s := sp.(type) {
				case *ast.TypeSpec:
					p.local[s.Name.Name] = s.Type
					if st, ok := s.Type.(*ast.StructType); ok {
						p.structs[s.Name.Name] = st
					}
				case *ast.ValueSpec:
					if gd.Tok == token.VAR {
						for _, n := range s.Names {
							p.globalSet[n.Name] = true
						}
					}
				}
			}
		}
	}
	for _, c := range spec.components {
		if _, ok := p.structs[c]; !ok {
			return fmt.Errorf("struct %s not found in pkg/%s", c, spec.dir)
		}
	}
	// pass 2: fields and globals in source order
	for _, f := range p.files {
		for _, d := range f.Decls {
			gd, ok := d.(*ast.GenDecl)
			if !ok {
				continue
			}
			for _, sp := range gd.Specs {
				switch s := sp.(type) {
				case *ast.TypeSpec:
					st, ok := s.Type.(*ast.StructType)
					if !ok {
						continue
					}
					for _, fl := range st.Fields.List {
						names := []string{}
						for _, n := range fl.Names {
							names = append(names, n.Name)
						}
						if len(names) == 0 {
							names = []string{"(embedded)"}
						}
						for _, n := range names {
							k := kindOf(fl.Type, p.local, 0)
							fields = append(fields, field{p.name, s.Name.Name, n, src(fl.Type), k})
							p.fieldKind[s.Name.Name+"."+n] = k
						}
					}
				case *ast.ValueSpec:
					if gd.Tok != token.VAR {
						continue
					}
					for i, n := range s.Names {
						g := global{pkg: p.name, name: n.Name, typ: src(s.Type)}
						if s.Type != nil {
							g.kind = kindOf(s.Type, p.local, 0)
						}
						if i < len(s.Values) {
							g.init = clip(src(s.Values[i]))
							if s.Type == nil {
								g.kind = kindOfValue(s.Values[i], p.local)
							}
						}
						globals = append(globals, g)
					}
				}
			}
		}
	}
	// pass 3: functions
	for _, f := range p.files {
		for _, d := range f.Decls {
			if fd, ok := d.(*ast.FuncDecl); ok {
				p.funcFacts(fd)
			}
		}
	}
	allPkgs = append(allPkgs, p)
	return nil
}

// ctorFacts lists the calls of constructors of components (after all packages were scanned).
func (p *pkgInfo) ctorFacts(fd *ast.FuncDecl) {
	if fd.Body == nil {
		return
	}
	fn := funcName(fd)
	isCtor := func(c *ast.CallExpr) (string, bool) {
		switch f := c.Fun.(type) {
		case *ast.Ident:
			return f.Name, ctorNames[f.Name]
		case *ast.SelectorExpr:
			if _, ok := f.X.(*ast.Ident); ok {
				return src(f), ctorNames[f.Sel.Name]
			}
		}
		return "", false
	}
	bound := map[*ast.CallExpr][2]string{}
	ast.Inspect(fd.Body, func(n ast.Node) bool {
		switch x := n.(type) {
		case *ast.AssignStmt:
			if len(x.Lhs) == len(x.Rhs) {
				for i, r := range x.Rhs {
					if c, ok := r.(*ast.CallExpr); ok {
						if _, ok := isCtor(c); ok {
							if id, isID := x.Lhs[i].(*ast.Ident); isID && x.Tok == token.DEFINE {
								bound[c] = [2]string{"define", id.Name}
							} else {
								bound[c] = [2]string{"assign", src(x.Lhs[i])}
							}
						}
					}
				}
			}
		case *ast.CompositeLit:
			for _, el := range x.Elts {
				if kv, ok := el.(*ast.KeyValueExpr); ok {
					if c, ok := kv.Value.(*ast.CallExpr); ok {
						if _, ok := isCtor(c); ok {
							bound[c] = [2]string{"field-init", src(x.Type) + "." + src(kv.Key)}
						}
					}
				}
			}
		case *ast.ReturnStmt:
			for _, r := range x.Results {
				if c, ok := r.(*ast.CallExpr); ok {
					if _, ok := isCtor(c); ok {
						bound[c] = [2]string{"return", ""}
					}
				}
			}
		}
		return true
	})
	ast.Inspect(fd.Body, func(n ast.Node) bool {
		if c, ok := n.(*ast.CallExpr); ok {
			if name, ok := isCtor(c); ok {
				b, has := bound[c]
				if !has {
					b = [2]string{"other", ""}
				}
				ctorCalls = append(ctorCalls, ctorCall{p.name, fn, name, b[0], b[1]})
			}
		}
		return true
	})
}

func main() {
	repo := flag.String("repo", "/repo", "repository root")
	out := flag.String("out", "", "output Lean file")
	flag.Parse()
	for _, s := range scanned {
		if err := scan(*repo, s); err != nil {
			fmt.Fprintln(os.Stderr, "compgen:", err)
			os.Exit(1)
		}
	}
	for _, p := range allPkgs {
		for _, f := range p.files {
			for _, d := range f.Decls {
				if fd, ok := d.(*ast.FuncDecl); ok {
					p.ctorFacts(fd)
				}
			}
		}
	}
	var b strings.Builder
	b.WriteString("/- GENERATED by tools/compgen from /repo — do not edit. Regenerated on every check run.\n")
	b.WriteString("   Struct fields of the components that take part in apply / delete, and every place that writes them. -/\n\n")
	b.WriteString("namespace LiskVerif.Gen.CompState\n\n")
	b.WriteString("structure Field where\n  pkg : String\n  strct : String\n  name : String\n  typ : String\n  kind : String\nderiving Repr, DecidableEq\n\n")
	b.WriteString("structure Method where\n  pkg : String\n  strct : String\n  name : String\n  recv : String\n  ptr : Bool\nderiving Repr, DecidableEq\n\n")
	b.WriteString("structure Write where\n  pkg : String\n  strct : String\n  fn : String\n  field : String\n  how : String\n  path : String\nderiving Repr, DecidableEq\n\n")
	b.WriteString("structure Init where\n  pkg : String\n  fn : String\n  strct : String\n  field : String\n  value : String\nderiving Repr, DecidableEq\n\n")
	b.WriteString("structure Pass where\n  pkg : String\n  strct : String\n  fn : String\n  field : String\n  kind : String\n  callee : String\n  index : Nat\nderiving Repr, DecidableEq\n\n")
	b.WriteString("structure Global where\n  pkg : String\n  name : String\n  typ : String\n  kind : String\n  init : String\nderiving Repr, DecidableEq\n\n")
	b.WriteString("structure CtorCall where\n  pkg : String\n  fn : String\n  callee : String\n  bind : String\n  target : String\nderiving Repr, DecidableEq\n\n")
	b.WriteString("structure GWrite where\n  pkg : String\n  fn : String\n  name : String\n  how : String\nderiving Repr, DecidableEq\n\n")
	list := func(name, typ string, n int, item func(i int) string) {
		fmt.Fprintf(&b, "def %s : List %s := [", name, typ)
		for i := 0; i < n; i++ {
			if i > 0 {
				b.WriteString(",")
			}
			b.WriteString("\n  " + item(i))
		}
		b.WriteString("]\n\n")
	}
	var comps [][2]string
	for _, s := range scanned {
		for _, c := range s.components {
			comps = append(comps, [2]string{s.dir, c})
		}
	}
	list("components", "(String × String)", len(comps), func(i int) string { return fmt.Sprintf("(%s, %s)", q(comps[i][0]), q(comps[i][1])) })
	list("fields", "Field", len(fields), func(i int) string {
		x := fields[i]
		return fmt.Sprintf("⟨%s, %s, %s, %s, %s⟩", q(x.pkg), q(x.strct), q(x.name), q(x.typ), q(x.kind))
	})
	list("methods", "Method", len(methods), func(i int) string {
		x := methods[i]
		return fmt.Sprintf("⟨%s, %s, %s, %s, %v⟩", q(x.pkg), q(x.strct), q(x.name), q(x.recv), x.ptr)
	})
	list("writes", "Write", len(writes), func(i int) string {
		x := writes[i]
		return fmt.Sprintf("⟨%s, %s, %s, %s, %s, %s⟩", q(x.pkg), q(x.strct), q(x.fn), q(x.field), q(x.how), q(x.path))
	})
	list("inits", "Init", len(inits), func(i int) string {
		x := inits[i]
		return fmt.Sprintf("⟨%s, %s, %s, %s, %s⟩", q(x.pkg), q(x.fn), q(x.strct), q(x.field), q(x.value))
	})
	list("passes", "Pass", len(passes), func(i int) string {
		x := passes[i]
		return fmt.Sprintf("⟨%s, %s, %s, %s, %s, %s, %d⟩", q(x.pkg), q(x.strct), q(x.fn), q(x.field), q(x.kind), q(x.callee), x.index)
	})
	list("ctorCalls", "CtorCall", len(ctorCalls), func(i int) string {
		x := ctorCalls[i]
		return fmt.Sprintf("⟨%s, %s, %s, %s, %s⟩", q(x.pkg), q(x.fn), q(x.callee), q(x.bind), q(x.target))
	})
	list("globals", "Global", len(globals), func(i int) string {
		x := globals[i]
		return fmt.Sprintf("⟨%s, %s, %s, %s, %s⟩", q(x.pkg), q(x.name), q(x.typ), q(x.kind), q(x.init))
	})
	list("globalWrites", "GWrite", len(globalWrites), func(i int) string {
		x := globalWrites[i]
		return fmt.Sprintf("⟨%s, %s, %s, %s⟩", q(x.pkg), q(x.fn), q(x.name), q(x.how))
	})
	b.WriteString(generatorTables(*repo)) // generator.go: appended tables gen* (C15)
	b.WriteString("end LiskVerif.Gen.CompState\n")
	if *out == "" {
		fmt.Print(b.String())
		return
	}
	if err := os.WriteFile(*out, []byte(b.String()), 0o644); err != nil {
		fmt.Fprintln(os.Stderr, "compgen:", err)
		os.Exit(1)
	}
}
