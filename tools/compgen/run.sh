#!/bin/sh
# regenerate lean/LiskVerif/Gen/CompState.lean from /repo (VERIF_REPO / VERIF_LEAN override the repository and the
# Lean project): struct fields (with a syntactic kind of the type) of pkg/consensus/liskbft, pkg/blockchain,
# pkg/consensus, the methods of the components that take part in apply / delete (liskbft.Module / API / Endpoint /
# bftParamsCache, blockchain.Chain / DataAccess / blockCache, consensus.Executer), every write to one of their fields,
# constructor initialisers, map / slice fields handed to calls, package-level variables and their writers
# (Props/C05_NoCache.lean); generator.go appends the same facts for pkg/generator (Generator) as NEW tables gen*
# (Props/C15_NoCache.lean)
set -e
cd "$(dirname "$0")"
export GOFLAGS=-mod=mod GOPROXY=off GOSUMDB=off GOTOOLCHAIN=local
LEAN="${VERIF_LEAN:-../../lean}"
mkdir -p ../../.build "$LEAN/LiskVerif/Gen"
go build -o ../../.build/compgen .
../../.build/compgen -repo "${VERIF_REPO:-/repo}" -out "$LEAN/LiskVerif/Gen/CompState.lean"
