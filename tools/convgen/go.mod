module convgen

go 1.21
