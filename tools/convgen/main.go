// Command convgen regenerates lean/LiskVerif/Gen/ConvertFacts.lean from the current source of /repo
// (tie A of the validator-list contract of property C03; obligations in lean/LiskVerif/Props/C03_Convert.lean).
//
// The application hands the engine ONE validator list; liskbft.GetBFTValidatorAndGenerators splits it into
// the BFT validators and the generator list, and three call sites feed the two results to
// API.SetBFTParameters / API.SetGeneratorKeys. convgen extracts, as plain Lean data (strings / numbers only):
//
//	loop      the range loop of GetBFTValidatorAndGenerators: what is ranged over, whether the index is used,
//	          the accumulators with their initial values, the loop body flattened in program order
//	          (`append` to an accumulator with the constructor and its arguments, `continue`, `break`,
//	          `return`, anything else as `unknown`) each with the if-conditions that guard it (the range
//	          variable is renamed to `v`, an else branch contributes `!(cond)`), the returned expressions,
//	          and every top-level statement that is none of these
//	ctors     NewValidator / NewGenerator: struct field <- parameter position of the composite literal
//	getters   the accessor methods of BFTValidator / Generator: method -> field returned
//	index     Generators.AtTimestamp: the index expression (locals inlined, receiver = `self`)
//	sites     every call of GetBFTValidatorAndGenerators outside test files: file, function, the argument,
//	          and for each of the two results every use: (callee, argument position, result index) when the
//	          result is passed directly to a call, `other:<text>` otherwise
//
// Nothing is interpreted here; what the tool does not recognise is emitted verbatim (kind `unknown`,
// `other:`), which breaks an obligation instead of being skipped. Only go/ast, go/parser, go/printer.
package main

import (
	"bytes"
	"flag"
	"fmt"
	"go/ast"
	"go/parser"
	"go/printer"
	"go/token"
	"os"
	"path/filepath"
	"sort"
	"strings"
)

var fset = token.NewFileSet()

func src(n ast.Node) string {
	var b bytes.Buffer
	_ = printer.Fprint(&b, fset, n)
	return strings.Join(strings.Fields(b.String()), " ")
}

func q(s string) string {
	s = strings.ReplaceAll(s, "\\", "\\\\")
	s = strings.ReplaceAll(s, "\"", "\\\"")
	return "\"" + s + "\""
}

func qlist(l []string) string {
	r := make([]string, len(l))
	for i, s := range l {
		r[i] = q(s)
	}
	return "[" + strings.Join(r, ", ") + "]"
}

// rename returns the source text of e with every identifier `from` replaced by `to`.
func rename(e ast.Node, subst map[string]string) string {
	var b bytes.Buffer
	cp := e
	ast.Inspect(cp, func(n ast.Node) bool { return true })
	_ = printer.Fprint(&b, fset, cp)
	s := strings.Join(strings.Fields(b.String()), " ")
	if len(subst) == 0 {
		return s
	}
	// token-wise replacement of identifiers (the expressions here are small and contain no strings)
	var out strings.Builder
	i := 0
	isID := func(c byte) bool {
		return c == '_' || c >= '0' && c <= '9' || c >= 'a' && c <= 'z' || c >= 'A' && c <= 'Z'
	}
	for i < len(s) {
		if isID(s[i]) && (i == 0 || !isID(s[i-1])) {
			j := i
			for j < len(s) && isID(s[j]) {
				j++
			}
			w := s[i:j]
			prevDot := i > 0 && s[i-1] == '.'
			if r, ok := subst[w]; ok && !prevDot {
				out.WriteString(r)
			} else {
				out.WriteString(w)
			}
			i = j
			continue
		}
		out.WriteByte(s[i])
		i++
	}
	return out.String()
}

type stmt struct {
	kind, target, ctor string
	guards, args       []string
}

func parseFile(path string) *ast.File {
	f, err := parser.ParseFile(fset, path, nil, parser.SkipObjectResolution)
	if err != nil {
		fmt.Fprintln(os.Stderr, "convgen: ERROR:", err)
		os.Exit(1)
	}
	return f
}

func findFunc(f *ast.File, recv, name string) *ast.FuncDecl {
	for _, d := range f.Decls {
		fd, ok := d.(*ast.FuncDecl)
		if !ok || fd.Name.Name != name {
			continue
		}
		r := ""
		if fd.Recv != nil && len(fd.Recv.List) == 1 {
			t := fd.Recv.List[0].Type
			if st, ok := t.(*ast.StarExpr); ok {
				t = st.X
			}
			if id, ok := t.(*ast.Ident); ok {
				r = id.Name
			}
		}
		if r == recv {
			return fd
		}
	}
	return nil
}

func paramNames(fd *ast.FuncDecl) []string {
	var res []string
	for _, p := range fd.Type.Params.List {
		for _, n := range p.Names {
			res = append(res, n.Name)
		}
	}
	return res
}

// ---- the loop ----

type loopFacts struct {
	found     bool
	rangeOver string
	usesIndex bool
	inits     [][2]string
	body      []stmt
	returns   []string
	other     []string
	loops     int
}

func walkBody(list []ast.Stmt, guards []string, subst map[string]string, out *[]stmt) {
	for _, s := range list {
		g := append([]string{}, guards...)
		switch x := s.(type) {
		case *ast.IfStmt:
			if x.Init != nil {
				*out = append(*out, stmt{kind: "unknown", target: src(x), guards: g})
				continue
			}
			c := rename(x.Cond, subst)
			walkBody(x.Body.List, append(g, c), subst, out)
			switch e := x.Else.(type) {
			case nil:
			case *ast.BlockStmt:
				walkBody(e.List, append(g, "!("+c+")"), subst, out)
			case *ast.IfStmt:
				walkBody([]ast.Stmt{e}, append(g, "!("+c+")"), subst, out)
			default:
				*out = append(*out, stmt{kind: "unknown", target: src(x.Else), guards: g})
			}
		case *ast.BlockStmt:
			walkBody(x.List, g, subst, out)
		case *ast.BranchStmt:
			k := strings.ToLower(x.Tok.String())
			if x.Label != nil {
				k = "unknown"
			}
			*out = append(*out, stmt{kind: k, guards: g, target: src(x)})
		case *ast.ReturnStmt:
			*out = append(*out, stmt{kind: "return", guards: g, target: src(x)})
		case *ast.AssignStmt:
			st := stmt{kind: "unknown", target: src(x), guards: g}
			if len(x.Lhs) == 1 && len(x.Rhs) == 1 && x.Tok == token.ASSIGN {
				if lhs, ok := x.Lhs[0].(*ast.Ident); ok {
					if call, ok := x.Rhs[0].(*ast.CallExpr); ok {
						if fn, ok := call.Fun.(*ast.Ident); ok && fn.Name == "append" && len(call.Args) == 2 && call.Ellipsis == token.NoPos {
							if a0, ok := call.Args[0].(*ast.Ident); ok && a0.Name == lhs.Name {
								st = stmt{kind: "append", target: lhs.Name, guards: g}
								if c, ok := call.Args[1].(*ast.CallExpr); ok && c.Ellipsis == token.NoPos {
									st.ctor = rename(c.Fun, subst)
									for _, a := range c.Args {
										st.args = append(st.args, rename(a, subst))
									}
								} else {
									st.ctor = ""
									st.args = []string{rename(call.Args[1], subst)}
								}
							}
						}
					}
				}
			}
			*out = append(*out, st)
		default:
			*out = append(*out, stmt{kind: "unknown", target: src(s), guards: g})
		}
	}
}

func extractLoop(fd *ast.FuncDecl) loopFacts {
	lf := loopFacts{found: true}
	params := paramNames(fd)
	for _, s := range fd.Body.List {
		switch x := s.(type) {
		case *ast.AssignStmt:
			if x.Tok == token.DEFINE && len(x.Lhs) == 1 && len(x.Rhs) == 1 {
				if id, ok := x.Lhs[0].(*ast.Ident); ok {
					lf.inits = append(lf.inits, [2]string{id.Name, src(x.Rhs[0])})
					continue
				}
			}
			lf.other = append(lf.other, src(x))
		case *ast.RangeStmt:
			lf.loops++
			if lf.loops > 1 {
				lf.other = append(lf.other, src(x))
				continue
			}
			lf.rangeOver = src(x.X)
			if id, ok := x.X.(*ast.Ident); ok {
				for i, p := range params {
					if p == id.Name {
						lf.rangeOver = fmt.Sprintf("param:%d", i)
					}
				}
			}
			if k, ok := x.Key.(*ast.Ident); x.Key != nil && (!ok || k.Name != "_") {
				lf.usesIndex = true
			}
			subst := map[string]string{}
			if v, ok := x.Value.(*ast.Ident); ok {
				subst[v.Name] = "v"
			} else {
				lf.usesIndex = true // no plain element variable: the body indexes the list itself
			}
			if x.Tok != token.DEFINE {
				lf.other = append(lf.other, "range-assigns-existing-variable")
			}
			walkBody(x.Body.List, nil, subst, &lf.body)
		case *ast.ReturnStmt:
			for _, r := range x.Results {
				lf.returns = append(lf.returns, src(r))
			}
		default:
			lf.other = append(lf.other, src(s))
		}
	}
	return lf
}

// ---- constructors and getters ----

// ctorFields: `return &T{f: p, ...}` -> (T, [(field, "param:i" | text)])
func ctorFields(fd *ast.FuncDecl) (typ string, fields [][2]string, other []string) {
	params := paramNames(fd)
	pos := func(e ast.Expr) string {
		if id, ok := e.(*ast.Ident); ok {
			for i, p := range params {
				if p == id.Name {
					return fmt.Sprintf("param:%d", i)
				}
			}
		}
		return src(e)
	}
	if len(fd.Body.List) != 1 {
		for _, s := range fd.Body.List {
			other = append(other, src(s))
		}
		return
	}
	ret, ok := fd.Body.List[0].(*ast.ReturnStmt)
	if !ok || len(ret.Results) != 1 {
		return "", nil, []string{src(fd.Body.List[0])}
	}
	e := ret.Results[0]
	if u, ok := e.(*ast.UnaryExpr); ok && u.Op == token.AND {
		e = u.X
	}
	cl, ok := e.(*ast.CompositeLit)
	if !ok {
		return "", nil, []string{src(ret)}
	}
	typ = src(cl.Type)
	for _, el := range cl.Elts {
		kv, ok := el.(*ast.KeyValueExpr)
		if !ok {
			other = append(other, src(el))
			continue
		}
		fields = append(fields, [2]string{src(kv.Key), pos(kv.Value)})
	}
	return
}

// getters of a type: methods with no parameters whose body is `return recv.field`
func getters(f *ast.File, typ string) (res [][2]string) {
	for _, d := range f.Decls {
		fd, ok := d.(*ast.FuncDecl)
		if !ok || fd.Recv == nil || len(fd.Recv.List) != 1 || fd.Body == nil || len(fd.Type.Params.List) != 0 {
			continue
		}
		t := fd.Recv.List[0].Type
		if st, ok := t.(*ast.StarExpr); ok {
			t = st.X
		}
		id, ok := t.(*ast.Ident)
		if !ok || id.Name != typ || len(fd.Recv.List[0].Names) != 1 || len(fd.Body.List) != 1 {
			continue
		}
		ret, ok := fd.Body.List[0].(*ast.ReturnStmt)
		if !ok || len(ret.Results) != 1 {
			continue
		}
		recv := fd.Recv.List[0].Names[0].Name
		res = append(res, [2]string{fd.Name.Name, rename(ret.Results[0], map[string]string{recv: "self"})})
	}
	sort.Slice(res, func(i, j int) bool { return res[i][0] < res[j][0] })
	return
}

// ---- Generators.AtTimestamp ----

func indexFacts(fd *ast.FuncDecl) (exprs []string, other []string) {
	recv := ""
	if fd.Recv != nil && len(fd.Recv.List) == 1 && len(fd.Recv.List[0].Names) == 1 {
		recv = fd.Recv.List[0].Names[0].Name
	}
	defs := map[string]ast.Expr{}
	for _, s := range fd.Body.List {
		switch x := s.(type) {
		case *ast.AssignStmt:
			if x.Tok == token.DEFINE && len(x.Lhs) == 1 && len(x.Rhs) == 1 {
				if id, ok := x.Lhs[0].(*ast.Ident); ok {
					defs[id.Name] = x.Rhs[0]
					continue
				}
			}
			other = append(other, src(x))
		case *ast.ReturnStmt:
		default:
			other = append(other, src(s))
		}
	}
	var inline func(e ast.Expr, depth int) string
	inline = func(e ast.Expr, depth int) string {
		subst := map[string]string{recv: "self"}
		if depth < 4 {
			for n, d := range defs {
				subst[n] = "(" + inline(d, depth+1) + ")"
			}
		}
		return rename(e, subst)
	}
	ast.Inspect(fd.Body, func(n ast.Node) bool {
		if ix, ok := n.(*ast.IndexExpr); ok {
			exprs = append(exprs, inline(ix.X, 0)+"["+inline(ix.Index, 0)+"]")
		}
		return true
	})
	return
}

// ---- call sites ----

type use struct {
	callee string
	arg    int
	result int
	other  string
}

type site struct {
	file, fn, arg string
	uses          []use
}

func calleeName(e ast.Expr) string {
	switch x := e.(type) {
	case *ast.Ident:
		return x.Name
	case *ast.SelectorExpr:
		return x.Sel.Name
	}
	return src(e)
}

func sitesOf(repo string) []site {
	var res []site
	root := filepath.Join(repo, "pkg")
	var files []string
	_ = filepath.Walk(root, func(p string, info os.FileInfo, err error) error {
		if err == nil && !info.IsDir() && strings.HasSuffix(p, ".go") && !strings.HasSuffix(p, "_test.go") && !strings.HasSuffix(p, "_verif.go") {
			files = append(files, p)
		}
		return nil
	})
	sort.Strings(files)
	for _, p := range files {
		data, err := os.ReadFile(p)
		if err != nil || !bytes.Contains(data, []byte("GetBFTValidatorAndGenerators")) {
			continue
		}
		f := parseFile(p)
		rel, _ := filepath.Rel(repo, p)
		for _, d := range f.Decls {
			fd, ok := d.(*ast.FuncDecl)
			if !ok || fd.Body == nil || fd.Name.Name == "GetBFTValidatorAndGenerators" {
				continue
			}
			name := fd.Name.Name
			if fd.Recv != nil && len(fd.Recv.List) == 1 {
				t := fd.Recv.List[0].Type
				if st, ok := t.(*ast.StarExpr); ok {
					t = st.X
				}
				name = src(t) + "." + name
			}
			// every call of the function inside this declaration
			ast.Inspect(fd.Body, func(n ast.Node) bool {
				as, isAssign := n.(*ast.AssignStmt)
				var call *ast.CallExpr
				if isAssign && len(as.Rhs) == 1 {
					call, _ = as.Rhs[0].(*ast.CallExpr)
				} else if ce, ok := n.(*ast.CallExpr); ok && !isAssign {
					call = ce
				}
				if call == nil || calleeName(call.Fun) != "GetBFTValidatorAndGenerators" {
					return true
				}
				st := site{file: rel, fn: name}
				for _, a := range call.Args {
					st.arg += src(a)
				}
				if !isAssign || len(as.Lhs) != 2 {
					if !isAssign {
						// a call in expression position that is not the right-hand side of `a, b := …`
						// is reported unless it is the very call of an assignment already handled
						return true
					}
					st.uses = append(st.uses, use{other: src(as)})
					res = append(res, st)
					return false
				}
				var names [2]string
				for i, l := range as.Lhs {
					if id, ok := l.(*ast.Ident); ok {
						names[i] = id.Name
					} else {
						st.uses = append(st.uses, use{other: src(l)})
					}
				}
				// uses of the two results after the assignment
				var stack []ast.Node
				ast.Inspect(fd.Body, func(m ast.Node) bool {
					if m == nil {
						stack = stack[:len(stack)-1]
						return true
					}
					stack = append(stack, m)
					id, ok := m.(*ast.Ident)
					if !ok || id.Pos() <= as.End() {
						return true
					}
					for ri, nm := range names {
						if nm == "" || nm == "_" || id.Name != nm {
							continue
						}
						if len(stack) >= 2 {
							switch par := stack[len(stack)-2].(type) {
							case *ast.CallExpr:
								hit := false
								for ai, a := range par.Args {
									if a == ast.Expr(id) {
										st.uses = append(st.uses, use{callee: calleeName(par.Fun), arg: ai, result: ri})
										hit = true
									}
								}
								if hit {
									continue
								}
							case *ast.SelectorExpr:
								if par.Sel == id { // a field / method of that name, not the local
									continue
								}
							}
						}
						ctx := src(id)
						if len(stack) >= 2 {
							ctx = src(stack[len(stack)-2])
						}
						st.uses = append(st.uses, use{other: fmt.Sprintf("result %d: %s", ri, ctx), result: ri})
					}
					return true
				})
				res = append(res, st)
				return false
			})
			// calls that are not the right-hand side of a two-value assignment
			ast.Inspect(fd.Body, func(n ast.Node) bool {
				if as, ok := n.(*ast.AssignStmt); ok && len(as.Rhs) == 1 && len(as.Lhs) == 2 {
					if c, ok := as.Rhs[0].(*ast.CallExpr); ok && calleeName(c.Fun) == "GetBFTValidatorAndGenerators" {
						return false
					}
				}
				if c, ok := n.(*ast.CallExpr); ok && calleeName(c.Fun) == "GetBFTValidatorAndGenerators" {
					res = append(res, site{file: rel, fn: name, arg: "?", uses: []use{{other: "call outside `a, b := …`"}}})
				}
				return true
			})
		}
	}
	return res
}

// ---- output ----

func main() {
	repo := flag.String("repo", "/repo", "repository root")
	out := flag.String("out", "", "output file")
	flag.Parse()
	if *out == "" {
		fmt.Fprintln(os.Stderr, "usage: convgen -repo DIR -out FILE")
		os.Exit(2)
	}
	conv := parseFile(filepath.Join(*repo, "pkg/consensus/liskbft/convert.go"))
	val := parseFile(filepath.Join(*repo, "pkg/consensus/liskbft/validator.go"))
	var lf loopFacts
	if fd := findFunc(conv, "", "GetBFTValidatorAndGenerators"); fd != nil && fd.Body != nil {
		lf = extractLoop(fd)
	}
	var b strings.Builder
	b.WriteString("/- GENERATED by tools/convgen from /repo — do not edit. Regenerated on every check run.\n")
	b.WriteString("   Facts about liskbft.GetBFTValidatorAndGenerators (pkg/consensus/liskbft/convert.go): the loop body flattened in\n")
	b.WriteString("   program order, the constructors, Generators.AtTimestamp, and every call site with the consumers of the two results. -/\n\n")
	b.WriteString("namespace LiskVerif.Gen.Conv\n\n")
	b.WriteString("/-- one statement of the loop body (see tools/convgen/main.go for the vocabulary) -/\nstructure Stmt where\n  kind : String\n  guards : List String := []\n  target : String := \"\"\n  ctor : String := \"\"\n  args : List String := []\nderiving Repr, DecidableEq\n\n")
	b.WriteString("structure Loop where\n  found : Bool\n  rangeOver : String\n  usesIndex : Bool\n  inits : List (String × String)\n  body : List Stmt\n  returns : List String\n  other : List String\nderiving Repr, DecidableEq\n\n")
	b.WriteString("/-- a use of one of the two results at a call site: passed as argument `arg` of `callee`, or something else (`other`) -/\nstructure Use where\n  callee : String := \"\"\n  arg : Nat := 0\n  result : Nat := 0\n  other : String := \"\"\nderiving Repr, DecidableEq\n\n")
	b.WriteString("structure Site where\n  file : String\n  fn : String\n  arg : String\n  uses : List Use\nderiving Repr, DecidableEq\n\n")
	b.WriteString("/-- pkg/consensus/liskbft/convert.go: GetBFTValidatorAndGenerators -/\ndef loop : Loop :=\n")
	fmt.Fprintf(&b, "  { found := %v,\n    rangeOver := %s,\n    usesIndex := %v,\n", lf.found, q(lf.rangeOver), lf.usesIndex)
	b.WriteString("    inits := [")
	for i, in := range lf.inits {
		if i > 0 {
			b.WriteString(", ")
		}
		fmt.Fprintf(&b, "(%s, %s)", q(in[0]), q(in[1]))
	}
	b.WriteString("],\n    body := [")
	for i, s := range lf.body {
		if i > 0 {
			b.WriteString(",")
		}
		fmt.Fprintf(&b, "\n      { kind := %s, guards := %s", q(s.kind), qlist(s.guards))
		if s.kind == "append" {
			fmt.Fprintf(&b, ", target := %s, ctor := %s, args := %s", q(s.target), q(s.ctor), qlist(s.args))
		} else if s.kind == "unknown" || s.kind == "return" {
			fmt.Fprintf(&b, ", target := %s", q(s.target))
		}
		b.WriteString(" }")
	}
	fmt.Fprintf(&b, "],\n    returns := %s,\n    other := %s }\n\n", qlist(lf.returns), qlist(lf.other))

	for _, c := range []string{"NewValidator", "NewGenerator"} {
		fd := findFunc(val, "", c)
		typ, fields, other := "", [][2]string(nil), []string{"constructor not found"}
		if fd != nil && fd.Body != nil {
			typ, fields, other = ctorFields(fd)
		}
		fmt.Fprintf(&b, "/-- pkg/consensus/liskbft/validator.go: %s — (type built, struct field ← parameter position, anything else) -/\ndef ctor%s : String × List (String × String) × List String :=\n  (%s, [", c, c, q(typ))
		for i, f := range fields {
			if i > 0 {
				b.WriteString(", ")
			}
			fmt.Fprintf(&b, "(%s, %s)", q(f[0]), q(f[1]))
		}
		fmt.Fprintf(&b, "], %s)\n\n", qlist(other))
	}
	for _, t := range []string{"BFTValidator", "Generator"} {
		fmt.Fprintf(&b, "/-- accessor methods of liskbft.%s: method ↦ expression returned (receiver = self) -/\ndef getters%s : List (String × String) := [", t, t)
		for i, g := range getters(val, t) {
			if i > 0 {
				b.WriteString(", ")
			}
			fmt.Fprintf(&b, "(%s, %s)", q(g[0]), q(g[1]))
		}
		b.WriteString("]\n\n")
	}
	exprs, other := []string(nil), []string{"Generators.AtTimestamp not found"}
	if fd := findFunc(val, "Generators", "AtTimestamp"); fd != nil && fd.Body != nil {
		exprs, other = indexFacts(fd)
	}
	fmt.Fprintf(&b, "/-- pkg/consensus/liskbft/validator.go: Generators.AtTimestamp — every index expression (locals inlined, receiver = self) and every statement that is neither a local definition nor the return -/\ndef atTimestamp : List String × List String := (%s, %s)\n\n", qlist(exprs), qlist(other))

	b.WriteString("/-- every call of GetBFTValidatorAndGenerators under pkg/ (test and hook files excepted) -/\ndef sites : List Site := [")
	for i, s := range sitesOf(*repo) {
		if i > 0 {
			b.WriteString(",")
		}
		fmt.Fprintf(&b, "\n  { file := %s, fn := %s, arg := %s, uses := [", q(s.file), q(s.fn), q(s.arg))
		for j, u := range s.uses {
			if j > 0 {
				b.WriteString(", ")
			}
			if u.other != "" {
				fmt.Fprintf(&b, "{ result := %d, other := %s }", u.result, q(u.other))
			} else {
				fmt.Fprintf(&b, "{ callee := %s, arg := %d, result := %d }", q(u.callee), u.arg, u.result)
			}
		}
		b.WriteString("] }")
	}
	b.WriteString("]\n\nend LiskVerif.Gen.Conv\n")
	tmp := *out + ".tmp"
	if err := os.WriteFile(tmp, []byte(b.String()), 0o644); err != nil {
		fmt.Fprintln(os.Stderr, "convgen: ERROR:", err)
		os.Exit(1)
	}
	if err := os.Rename(tmp, *out); err != nil {
		fmt.Fprintln(os.Stderr, "convgen: ERROR:", err)
		os.Exit(1)
	}
	fmt.Printf("convgen: loop body %d statement(s), %d call site(s) -> %s\n", len(lf.body), len(sitesOf(*repo)), *out)
}
