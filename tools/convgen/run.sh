#!/bin/sh
# regenerate lean/LiskVerif/Gen/ConvertFacts.lean (loop body of liskbft.GetBFTValidatorAndGenerators, its constructors,
# Generators.AtTimestamp and every call site with the consumers of the two results; C03) from /repo
set -e
cd "$(dirname "$0")"
export GOFLAGS=-mod=mod GOPROXY=off GOSUMDB=off GOTOOLCHAIN=local
mkdir -p ../../.build ../../lean/LiskVerif/Gen
go build -o ../../.build/convgen .
../../.build/convgen -repo "${VERIF_REPO:-/repo}" -out ../../lean/LiskVerif/Gen/ConvertFacts.lean
