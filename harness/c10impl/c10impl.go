// Package c10impl is the pseudo-property "C10IMPL" (run as part of C10): differential correspondence between the
// REAL sparse Merkle trie update path (/repo/pkg/trie/smt: trie.Update -> updateSubtree / updateNode /
// calculateSubTree, subtree encode / newSubTree) over an in-memory database and its Lean transcription
// LiskVerif.SMTImpl (lean/LiskVerif/Model/SMTImpl.lean, theorems in Props/C10_Impl.lean).  After EVERY batch the two
// sides are compared on the returned root, on the COMPLETE set of stored (key, value) records (count + SHA-256 over
// the records sorted by key; `dump` ops print the records in full) and on the LIP-0039 root of the reference map
// (Go: plain map + recursive reference root; Lean: SMTSpec.mapRoot of SMTSpec.applyBatch).
//
// Model-free oracles on the real code (independent of pkg/trie/smt and of the Lean model):
//   - root == LIP-0039 reference root of the reference map                      (Sig c10impl-root-ne-lip39)
//   - the store REPRESENTS the map: walking the stored records from the root with an independent parser, every stub
//     has a record whose recomputed root is its key, every layout is well-formed (Kraft equality, heights within
//     the subtree height, stubs only at the bottom, no collapsible sibling pair, a stored lower subtree has at
//     least two nodes), leaf keys lie below their position and the leaves are exactly the map
//     (Sig c10impl-store-not-map:<reason>)
//   - errors / panics never happen on well-formed histories                     (Sig c10impl-unexpected-err|panic)
//
// Line protocol (lean/Driver/SMTImpl.lean):
//
//	reset <keylen> <subtree height> <spec 0|1> | upd <keys> <values> | reopen | dump
//
// lists: comma separated hex, `-` = empty byte string, `.` = empty list.
package c10impl

import (
	"bytes"
	"crypto/sha256"
	"encoding/binary"
	"encoding/hex"
	"fmt"
	"math/rand"
	"os"
	"sort"
	"strconv"
	"strings"
	"sync"

	"github.com/LiskHQ/lisk-engine/pkg/trie/smt"

	"verifharness/corr"
)

type prop struct{}

func init() { corr.Register(prop{}) }

func (prop) ID() string    { return "C10IMPL" }
func (prop) Parallel() int { return 8 }

// ---------------------------------------------------------------------------------------------
// in-memory database: a locked map (updateNode writes from concurrent goroutines); stored values have cap == len so
// that a slice bound past the end of a record panics instead of reading spare capacity.

type memDB struct {
	mu sync.Mutex
	m  map[string][]byte
}

func newMemDB() *memDB { return &memDB{m: map[string][]byte{}} }
func (d *memDB) Get(k []byte) ([]byte, bool) {
	d.mu.Lock()
	defer d.mu.Unlock()
	v, ok := d.m[string(k)]
	return v, ok
}
func (d *memDB) Set(k, v []byte) {
	d.mu.Lock()
	defer d.mu.Unlock()
	c := make([]byte, len(v))
	copy(c, v)
	d.m[string(k)] = c[:len(v):len(v)]
}
func (d *memDB) Del(k []byte) {
	d.mu.Lock()
	defer d.mu.Unlock()
	delete(d.m, string(k))
}

func (d *memDB) sortedKeys() []string {
	d.mu.Lock()
	defer d.mu.Unlock()
	ks := make([]string, 0, len(d.m))
	for k := range d.m {
		ks = append(ks, k)
	}
	sort.Strings(ks)
	return ks
}

func (d *memDB) digest() (int, string) {
	ks := d.sortedKeys()
	h := sha256.New()
	var l [4]byte
	for _, k := range ks {
		v := d.m[k]
		binary.BigEndian.PutUint32(l[:], uint32(len(k)))
		h.Write(l[:])
		h.Write([]byte(k))
		binary.BigEndian.PutUint32(l[:], uint32(len(v)))
		h.Write(l[:])
		h.Write(v)
	}
	return len(ks), hex.EncodeToString(h.Sum(nil))
}

func (d *memDB) dump() string {
	ks := d.sortedKeys()
	if len(ks) == 0 {
		return "-"
	}
	out := make([]string, len(ks))
	for i, k := range ks {
		out[i] = corr.Hex([]byte(k)) + ":" + corr.Hex(d.m[k])
	}
	return strings.Join(out, ",")
}

// ---------------------------------------------------------------------------------------------
// reference specification in Go (LIP-0039 root of a map), independent of pkg/trie/smt

func sha(parts ...[]byte) []byte {
	h := sha256.New()
	for _, p := range parts {
		h.Write(p)
	}
	return h.Sum(nil)
}

var emptyHash = sha()

func bitAt(k []byte, i int) bool { return (k[i/8]<<(uint(i)%8))&0x80 != 0 }

type kv struct{ k, v []byte }

func refRootSorted(kvs []kv, depth int) []byte {
	switch len(kvs) {
	case 0:
		return emptyHash
	case 1:
		return sha([]byte{0}, kvs[0].k, kvs[0].v)
	}
	split := sort.Search(len(kvs), func(i int) bool { return bitAt(kvs[i].k, depth) })
	return sha([]byte{1}, refRootSorted(kvs[:split], depth+1), refRootSorted(kvs[split:], depth+1))
}

func sortedKVs(m map[string][]byte) []kv {
	kvs := make([]kv, 0, len(m))
	for k, v := range m {
		kvs = append(kvs, kv{[]byte(k), v})
	}
	sort.Slice(kvs, func(i, j int) bool { return bytes.Compare(kvs[i].k, kvs[j].k) < 0 })
	return kvs
}

func refRoot(m map[string][]byte) []byte { return refRootSorted(sortedKVs(m), 0) }

// applyBatch: semantics of trie.Update on the reference map (first occurrence of a key wins, empty = delete)
func applyBatch(m map[string][]byte, b []kv) {
	seen := map[string]bool{}
	for _, e := range b {
		if seen[string(e.k)] {
			continue
		}
		seen[string(e.k)] = true
		if len(e.v) == 0 {
			delete(m, string(e.k))
		} else {
			m[string(e.k)] = e.v
		}
	}
}

// ---------------------------------------------------------------------------------------------
// independent reader of the stored records: does the store represent the map?

type snode struct {
	kind byte // 0 leaf, 1 stub, 2 empty
	key  []byte
	val  []byte
	hash []byte
	h    int
}

type storeErr string

func (e storeErr) Error() string { return string(e) }

// readRecord parses one stored subtree (values of 32 bytes).
func readRecord(rec []byte, keyLen, sth int) ([]snode, error) {
	if len(rec) == 0 {
		return nil, storeErr("empty-record")
	}
	n := int(rec[0]) + 1
	if len(rec) < 1+n {
		return nil, storeErr("short-structure")
	}
	st := rec[1 : 1+n]
	p := rec[1+n:]
	nodes := []snode{}
	for len(p) > 0 {
		switch p[0] {
		case 0:
			if len(p) < 1+keyLen+32 {
				return nil, storeErr("short-leaf")
			}
			nodes = append(nodes, snode{kind: 0, key: p[1 : 1+keyLen], val: p[1+keyLen : 1+keyLen+32], hash: sha(p[:1+keyLen+32])})
			p = p[1+keyLen+32:]
		case 1:
			if len(p) < 33 {
				return nil, storeErr("short-stub")
			}
			nodes = append(nodes, snode{kind: 1, hash: p[1:33]})
			p = p[33:]
		case 2:
			nodes = append(nodes, snode{kind: 2, hash: emptyHash})
			p = p[1:]
		default:
			return nil, storeErr("bad-prefix")
		}
	}
	if len(nodes) != n {
		return nil, storeErr("node-count")
	}
	total := 0
	for i := range nodes {
		nodes[i].h = int(st[i])
		if nodes[i].h > sth {
			return nil, storeErr("height-above-subtree-height")
		}
		if nodes[i].kind == 1 && nodes[i].h != sth {
			return nil, storeErr("stub-above-bottom")
		}
		total += 1 << (sth - nodes[i].h)
	}
	if total != 1<<sth {
		return nil, storeErr("kraft")
	}
	return nodes, nil
}

type walker struct {
	db      *memDB
	keyLen  int
	sth     int
	leaves  map[string][]byte
	visited map[string]bool
}

// fold consumes nodes of one record from *pos building the node at local depth d; returns hash and kind
// (0 leaf, 1 inner/stub, 2 empty).
func (w *walker) fold(nodes []snode, pos *int, d int, prefix []bool) ([]byte, byte, error) {
	if *pos >= len(nodes) {
		return nil, 0, storeErr("layout-runs-out")
	}
	n := nodes[*pos]
	if n.h < d {
		return nil, 0, storeErr("layout-order")
	}
	if n.h == d {
		*pos++
		switch n.kind {
		case 0:
			if len(n.key)*8 < len(prefix) {
				return nil, 0, storeErr("leaf-key-short")
			}
			for i, b := range prefix {
				if bitAt(n.key, i) != b {
					return nil, 0, storeErr("leaf-not-below-its-position")
				}
			}
			if _, dup := w.leaves[string(n.key)]; dup {
				return nil, 0, storeErr("duplicate-leaf")
			}
			w.leaves[string(n.key)] = n.val
			return n.hash, 0, nil
		case 1:
			h, err := w.subtree(n.hash, prefix, false)
			return h, 1, err
		default:
			return n.hash, 2, nil
		}
	}
	lh, lk, err := w.fold(nodes, pos, d+1, append(append([]bool{}, prefix...), false))
	if err != nil {
		return nil, 0, err
	}
	rh, rk, err := w.fold(nodes, pos, d+1, append(append([]bool{}, prefix...), true))
	if err != nil {
		return nil, 0, err
	}
	if (lk == 2 && rk != 1) || (rk == 2 && lk != 1) {
		return nil, 0, storeErr("collapsible-pair")
	}
	return sha([]byte{1}, lh, rh), 1, nil
}

func (w *walker) subtree(hash []byte, prefix []bool, top bool) ([]byte, error) {
	if top && bytes.Equal(hash, emptyHash) {
		return emptyHash, nil
	}
	rec, ok := w.db.Get(hash)
	if !ok {
		return nil, storeErr("missing-record")
	}
	if w.visited[string(hash)] {
		return nil, storeErr("record-reached-twice")
	}
	w.visited[string(hash)] = true
	nodes, err := readRecord(rec, w.keyLen, w.sth)
	if err != nil {
		return nil, err
	}
	if !top && len(nodes) < 2 {
		return nil, storeErr("stored-lower-subtree-of-one-node")
	}
	pos := 0
	h, _, err := w.fold(nodes, &pos, 0, prefix)
	if err != nil {
		return nil, err
	}
	if pos != len(nodes) {
		return nil, storeErr("layout-left-over")
	}
	if !bytes.Equal(h, hash) {
		return nil, storeErr("record-key-ne-recomputed-root")
	}
	return h, nil
}

// checkStore: "" when the store represents the map m at root; else the reason. Also the number of reachable records.
func checkStore(db *memDB, root []byte, keyLen, sth int, m map[string][]byte) (string, int) {
	w := &walker{db: db, keyLen: keyLen, sth: sth, leaves: map[string][]byte{}, visited: map[string]bool{}}
	if _, err := w.subtree(root, nil, true); err != nil {
		return err.Error(), len(w.visited)
	}
	if len(w.leaves) != len(m) {
		return fmt.Sprintf("leaf-count %d map %d", len(w.leaves), len(m)), len(w.visited)
	}
	for k, v := range m {
		if lv, ok := w.leaves[k]; !ok || !bytes.Equal(lv, v) {
			return "leaf-set-ne-map", len(w.visited)
		}
	}
	return "", len(w.visited)
}

// ---------------------------------------------------------------------------------------------
// text format

func hexItem(b []byte) string { return corr.Hex(b) }

func fmtList(l [][]byte) string {
	if len(l) == 0 {
		return "."
	}
	s := make([]string, len(l))
	for i, b := range l {
		s[i] = hexItem(b)
	}
	return strings.Join(s, ",")
}

func parseList(s string) ([][]byte, bool) {
	if s == "." {
		return [][]byte{}, true
	}
	out := [][]byte{}
	for _, it := range strings.Split(s, ",") {
		if it == "-" {
			out = append(out, []byte{})
			continue
		}
		b, err := hex.DecodeString(it)
		if err != nil {
			return nil, false
		}
		out = append(out, b)
	}
	return out, true
}

func fmtUpd(b []kv) string {
	ks, vs := make([][]byte, len(b)), make([][]byte, len(b))
	for i, e := range b {
		ks[i], vs[i] = e.k, e.v
	}
	return "upd " + fmtList(ks) + " " + fmtList(vs)
}

func randBytes(rng *rand.Rand, n int) []byte {
	b := make([]byte, n)
	for i := range b {
		b[i] = byte(rng.Intn(256))
	}
	return b
}

func flipBit(b []byte, i int) []byte {
	c := append([]byte{}, b...)
	c[i/8] ^= 0x80 >> (uint(i) % 8)
	return c
}

// ---------------------------------------------------------------------------------------------
// generator

var keyLens = []int{1, 2, 12, 32, 38}

// genPool builds the key universe of a case (the key families of harness/c10: uniform keys, keys sharing long
// prefixes ending at / next to a subtree boundary, keys differing in late bits, extreme keys).
func genPool(rng *rand.Rand, keyLen, n int) [][]byte {
	pool := [][]byte{}
	seen := map[string]bool{}
	add := func(k []byte) {
		if !seen[string(k)] {
			seen[string(k)] = true
			pool = append(pool, k)
		}
	}
	bits := 8 * keyLen
	for tries := 0; len(pool) < n && tries < 20*n+50; tries++ {
		switch r := rng.Intn(10); {
		case r < 3 || len(pool) == 0:
			add(randBytes(rng, keyLen))
		case r < 7:
			base := pool[rng.Intn(len(pool))]
			lo := 8
			if bits <= 16 {
				lo = 1
			}
			plen := lo + rng.Intn(bits-lo)
			if rng.Intn(3) == 0 && bits > 16 { // at a subtree boundary +-1 (8-bit) or a nibble boundary
				plen = 8*(1+rng.Intn(keyLen-1)) + rng.Intn(3) - 1
				if rng.Intn(3) == 0 {
					plen = 4*(1+rng.Intn(2*keyLen-1)) + rng.Intn(3) - 1
				}
			}
			if plen >= bits {
				plen = bits - 1
			}
			k := randBytes(rng, keyLen)
			for i := 0; i < plen; i++ {
				if bitAt(base, i) != bitAt(k, i) {
					k = flipBit(k, i)
				}
			}
			if bitAt(base, plen) == bitAt(k, plen) {
				k = flipBit(k, plen)
			}
			add(k)
		case r < 9:
			base := pool[rng.Intn(len(pool))]
			if rng.Intn(2) == 0 {
				add(flipBit(base, bits-1))
			} else {
				m := bits
				if m > 10 {
					m = 10
				}
				add(flipBit(base, bits-1-rng.Intn(m)))
			}
		default:
			b := byte(0)
			if rng.Intn(2) == 0 {
				b = 0xff
			}
			k := bytes.Repeat([]byte{b}, keyLen)
			if rng.Intn(2) == 0 {
				k = flipBit(k, rng.Intn(bits))
			}
			add(k)
		}
	}
	return pool
}

type caseGen struct {
	rng  *rand.Rand
	pool [][]byte
	m    map[string][]byte // the generator's own reference map
	ops  []string
}

func (g *caseGen) upd(b []kv) {
	g.ops = append(g.ops, fmtUpd(b))
	applyBatch(g.m, b)
}

func (g *caseGen) genBatch(maxN int) []kv {
	rng := g.rng
	n := 1 + rng.Intn(maxN)
	b := make([]kv, 0, n+2)
	present := sortedKVs(g.m)
	delP := 3
	switch rng.Intn(6) {
	case 0:
		delP = 7 // delete-heavy
	case 1:
		delP = 0 // insert / overwrite only
	}
	for i := 0; i < n; i++ {
		var k []byte
		if len(present) > 0 && rng.Intn(3) == 0 {
			k = present[rng.Intn(len(present))].k
		} else {
			k = g.pool[rng.Intn(len(g.pool))]
		}
		var v []byte
		if rng.Intn(10) < delP {
			v = []byte{}
		} else if old, ok := g.m[string(k)]; ok && rng.Intn(8) == 0 {
			v = old // overwrite with the same value: the subtree records are rewritten unchanged
		} else {
			v = randBytes(rng, 32)
		}
		b = append(b, kv{k, v})
	}
	for d := rng.Intn(4); d == 0 || (d == 1 && rng.Intn(2) == 0); d = 2 { // duplicate keys: set/set, set/del, del/set
		cnt := 1
		if rng.Intn(3) == 0 {
			cnt = 1 + rng.Intn(len(b))
		}
		for j := 0; j < cnt; j++ {
			e := b[rng.Intn(len(b))]
			var v []byte
			if rng.Intn(2) == 0 {
				v = randBytes(rng, 32)
			} else {
				v = []byte{}
			}
			pos := rng.Intn(len(b) + 1)
			b = append(b[:pos:pos], append([]kv{{e.k, v}}, b[pos:]...)...)
		}
	}
	return b
}

func (g *caseGen) deleteMost(keepOneIn int) {
	pres := sortedKVs(g.m)
	b := []kv{}
	for _, e := range pres {
		if keepOneIn == 0 || g.rng.Intn(keepOneIn) > 0 {
			b = append(b, kv{e.k, []byte{}})
		}
	}
	if len(b) == 0 {
		return
	}
	g.rng.Shuffle(len(b), func(i, j int) { b[i], b[j] = b[j], b[i] })
	g.upd(b)
}

func (g *caseGen) maybeDump() {
	if len(g.m) <= 12 {
		g.ops = append(g.ops, "dump")
	}
}

func genHistory(rng *rand.Rand, keyLen, sth, poolSize, nOps, maxBatch int) corr.Case {
	g := &caseGen{rng: rng, pool: genPool(rng, keyLen, poolSize), m: map[string][]byte{}}
	g.ops = []string{fmt.Sprintf("reset %d %d 1", keyLen, sth)}
	for i := 0; i < nOps; i++ {
		switch r := rng.Intn(12); {
		case r < 7:
			g.upd(g.genBatch(maxBatch))
		case r < 8:
			g.ops = append(g.ops, "reopen")
		case r < 9 && len(g.m) > 0:
			g.deleteMost([]int{0, 0, 5, 2}[rng.Intn(4)]) // delete everything or most of it, then continue
		case r < 10:
			g.ops = append(g.ops, "upd . .") // empty batch
		case r < 11 && len(g.m) > 0: // delete a single key / an absent key
			var k []byte
			if rng.Intn(2) == 0 {
				pres := sortedKVs(g.m)
				k = pres[rng.Intn(len(pres))].k
			} else {
				k = g.pool[rng.Intn(len(g.pool))]
			}
			g.upd([]kv{{k, []byte{}}})
		default:
			g.maybeDump()
		}
	}
	g.maybeDump()
	return corr.Case{Ops: g.ops, Tag: fmt.Sprintf("history/h%d", sth)}
}

// genChain: two (or a few) keys sharing a very long prefix, so that a chain of stored subtrees of two nodes hangs
// below the top; deleting one of them lifts the remaining leaf through every level (and leaves the records of the
// chain to be deleted); reinserting rebuilds the chain.
func genChain(rng *rand.Rand, keyLen, sth int) corr.Case {
	g := &caseGen{rng: rng, m: map[string][]byte{}}
	g.ops = []string{fmt.Sprintf("reset %d %d 1", keyLen, sth)}
	bits := 8 * keyLen
	base := randBytes(rng, keyLen)
	part := bits - 1 - rng.Intn(bits/2+1)
	if part < 1 {
		part = bits - 1
	}
	sib := flipBit(base, part)
	third := flipBit(base, rng.Intn(part+1))
	other := randBytes(rng, keyLen)
	g.pool = [][]byte{base, sib, third, other}
	v := func() []byte { return randBytes(rng, 32) }
	if rng.Intn(2) == 0 {
		g.upd([]kv{{base, v()}, {sib, v()}})
	} else {
		g.upd([]kv{{base, v()}})
		g.upd([]kv{{sib, v()}})
	}
	g.maybeDump()
	switch rng.Intn(4) {
	case 0:
		g.upd([]kv{{sib, []byte{}}})
	case 1:
		g.upd([]kv{{base, []byte{}}, {other, v()}})
	case 2:
		g.upd([]kv{{third, v()}})
		g.upd([]kv{{sib, []byte{}}})
	default:
		g.upd([]kv{{sib, []byte{}}, {base, []byte{}}})
	}
	g.maybeDump()
	if rng.Intn(2) == 0 {
		g.ops = append(g.ops, "reopen")
	}
	g.upd([]kv{{sib, v()}, {third, v()}})
	g.upd([]kv{{base, v()}})
	g.maybeDump()
	g.deleteMost(0)
	g.maybeDump()
	g.upd([]kv{{other, v()}})
	g.maybeDump()
	return corr.Case{Ops: g.ops, Tag: fmt.Sprintf("chain/h%d", sth)}
}

// genFull: all slots of one stored subtree occupied (the length byte of the record is 0xff for 8-bit subtrees),
// nearly full ones, then overwrite / delete / reinsert and reopen.
func genFull(rng *rand.Rand, variant, sth, missing int) corr.Case {
	keyLen := []int{1, 2, 2, 32, 12}[variant]
	fixed, fixed2 := byte(rng.Intn(256)), byte(rng.Intn(256))
	slots := 1 << sth
	keys := [][]byte{}
	for i := 0; i < slots; i++ {
		k := randBytes(rng, keyLen)
		sb := byte(i)
		if sth == 4 {
			sb = byte(i<<4) | byte(rng.Intn(16))
		}
		switch variant {
		case 0:
			k[0] = sb
		case 1, 2, 3:
			k[0], k[1] = fixed, sb
		case 4:
			k[0], k[1], k[2] = fixed, fixed2, sb
		}
		if sth == 4 && variant > 0 && rng.Intn(2) == 0 { // nibble subtree in the lower half of the byte
			k[0] = fixed
			if variant == 4 {
				k[1] = fixed2
			}
			idx := 1
			if variant == 4 {
				idx = 2
			}
			k[idx] = (fixed2 & 0xf0) | byte(i)
		}
		keys = append(keys, k)
	}
	if variant == 2 {
		for b := 0; b < 256; b++ {
			if byte(b) != fixed {
				keys = append(keys, []byte{byte(b), byte(rng.Intn(256))})
			}
		}
	}
	uniq := map[string]bool{}
	ks := [][]byte{}
	for _, k := range keys {
		if !uniq[string(k)] {
			uniq[string(k)] = true
			ks = append(ks, k)
		}
	}
	keys = ks
	g := &caseGen{rng: rng, pool: keys, m: map[string][]byte{}}
	g.ops = []string{fmt.Sprintf("reset %d %d 1", keyLen, sth)}
	free := map[int]bool{}
	for len(free) < missing {
		free[rng.Intn(len(keys))] = true
	}
	first := []kv{}
	for i, k := range keys {
		if !free[i] {
			first = append(first, kv{k, randBytes(rng, 32)})
		}
	}
	rng.Shuffle(len(first), func(i, j int) { first[i], first[j] = first[j], first[i] })
	if rng.Intn(2) == 0 {
		cut := len(first) * (1 + rng.Intn(3)) / 4
		g.upd(first[:cut])
		g.upd(first[cut:])
	} else {
		g.upd(first)
	}
	if rng.Intn(2) == 0 {
		g.ops = append(g.ops, "reopen")
	}
	second := []kv{}
	for i := range keys {
		if free[i] {
			second = append(second, kv{keys[i], randBytes(rng, 32)})
		}
	}
	deleted := [][]byte{}
	for n := 0; n < 1+rng.Intn(6); n++ {
		k := keys[rng.Intn(len(keys))]
		if rng.Intn(2) == 0 {
			second = append(second, kv{k, randBytes(rng, 32)})
		} else {
			second = append(second, kv{k, []byte{}})
			deleted = append(deleted, k)
		}
	}
	g.upd(second)
	g.ops = append(g.ops, "reopen")
	third := []kv{}
	for _, k := range deleted {
		third = append(third, kv{k, randBytes(rng, 32)})
	}
	third = append(third, kv{keys[rng.Intn(len(keys))], randBytes(rng, 32)})
	g.upd(third)
	g.upd(g.genBatch(20))
	if rng.Intn(3) == 0 {
		g.deleteMost([]int{0, 4}[rng.Intn(2)])
		g.upd(g.genBatch(6))
	}
	if sth == 4 || keyLen == 1 {
		g.ops = append(g.ops, "dump")
	}
	return corr.Case{Ops: g.ops, Tag: fmt.Sprintf("full/h%d", sth)}
}

// genBig: large maps in few batches.
func genBig(rng *rand.Rand, keyLen, sth, n int) corr.Case {
	g := &caseGen{rng: rng, pool: genPool(rng, keyLen, n), m: map[string][]byte{}}
	g.ops = []string{fmt.Sprintf("reset %d %d 1", keyLen, sth)}
	g.upd(g.genBatch(n))
	g.upd(g.genBatch(n))
	g.ops = append(g.ops, "reopen")
	g.upd(g.genBatch(n / 4))
	g.deleteMost(3)
	g.upd(g.genBatch(n / 4))
	return corr.Case{Ops: g.ops, Tag: fmt.Sprintf("big/h%d", sth)}
}

// genMalformed: what the code does outside its contract, restricted to inputs whose failure (if any) happens in the
// calling goroutine (a panic inside a goroutine of updateNode would kill the process): the trie only ever holds keys
// with pairwise different first bytes (first nibbles for 4-bit subtrees), so there is a single stored subtree level.
//   - keys / values of different number, the empty batch, the nil/empty key (index out of range before anything is
//     written), keys shorter / longer than the key length and values that are not 32 bytes (stored as they are; the
//     record is misread by the next Update: error, panic or silently different nodes).
func genMalformed(rng *rand.Rand) corr.Case {
	keyLen := 1 + rng.Intn(3)
	sth := 8
	if rng.Intn(4) == 0 {
		sth = 4
	}
	ops := []string{fmt.Sprintf("reset %d %d 0", keyLen, sth)}
	firsts := rng.Perm(256)
	if sth == 4 {
		firsts = rng.Perm(16)
		for i := range firsts {
			firsts[i] = firsts[i]<<4 | rng.Intn(16)
		}
	}
	next := 0
	newKey := func(l int) []byte {
		k := randBytes(rng, l)
		k[0] = byte(firsts[next%len(firsts)])
		next++
		return k
	}
	val := func() []byte {
		switch rng.Intn(6) {
		case 0:
			return randBytes(rng, 1+rng.Intn(40)) // not a hash
		case 1:
			v := randBytes(rng, 32)
			v[31] = byte(rng.Intn(4)) // read as a node prefix when the record is misread by one byte
			return v
		}
		return randBytes(rng, 32)
	}
	present := [][]byte{}
	steps := 2 + rng.Intn(6)
	for i := 0; i < steps && next < len(firsts)-4; i++ {
		switch rng.Intn(8) {
		case 0: // different number of keys and values
			ks := [][]byte{newKey(keyLen)}
			vs := [][]byte{}
			if rng.Intn(2) == 0 {
				vs = [][]byte{val(), val()}
			}
			ops = append(ops, "upd "+fmtList(ks)+" "+fmtList(vs))
		case 1: // the empty key somewhere in a batch
			b := []kv{{newKey(keyLen), val()}, {[]byte{}, val()}, {newKey(keyLen), val()}}
			rng.Shuffle(len(b), func(i, j int) { b[i], b[j] = b[j], b[i] })
			ops = append(ops, fmtUpd(b[:1+rng.Intn(3)]))
		case 2:
			ops = append(ops, "upd . .")
		case 3, 4: // a key of the wrong length, alone in its bin
			l := keyLen + 1 + rng.Intn(2)
			if keyLen > 1 && rng.Intn(2) == 0 {
				l = keyLen - 1
			}
			k := newKey(l) // never written again: the misread leaf holds another key, and pushing both down runs past
			// the end of the shorter key inside a goroutine of updateNode (unrecoverable)
			b := []kv{{k, val()}}
			if rng.Intn(2) == 0 {
				b = append(b, kv{newKey(keyLen), val()})
			}
			ops = append(ops, fmtUpd(b))
		case 5:
			ops = append(ops, "reopen")
		case 6: // delete / overwrite a stored key (of the right length)
			if len(present) > 0 {
				k := present[rng.Intn(len(present))]
				v := []byte{}
				if rng.Intn(2) == 0 {
					v = val()
				}
				ops = append(ops, fmtUpd([]kv{{k, v}}))
				break
			}
			fallthrough
		default:
			n := 1 + rng.Intn(4)
			b := []kv{}
			for j := 0; j < n; j++ {
				k := newKey(keyLen)
				present = append(present, k)
				b = append(b, kv{k, val()})
			}
			ops = append(ops, fmtUpd(b))
		}
	}
	ops = append(ops, "dump")
	return corr.Case{Ops: ops, Tag: "malformed"}
}

func (prop) Generate(rng *rand.Rand, tier string) []corr.Case {
	nHist, nChain, nFull, nBig, bigN, nMal := 150, 40, 10, 2, 300, 60
	if tier == "thorough" {
		nHist, nChain, nFull, nBig, bigN, nMal = 3000, 600, 80, 8, 700, 800
	}
	cases := []corr.Case{}
	for i := 0; i < nHist; i++ {
		keyLen := keyLens[rng.Intn(len(keyLens))]
		sth := 8
		if rng.Intn(3) == 0 {
			sth = 4
		}
		poolSize := 4 + rng.Intn(40)
		if rng.Intn(8) == 0 {
			poolSize = 100 + rng.Intn(200)
		}
		maxBatch := 1 + rng.Intn(12)
		if poolSize > 60 {
			maxBatch = 40 + rng.Intn(60)
		}
		cases = append(cases, genHistory(rng, keyLen, sth, poolSize, 4+rng.Intn(10), maxBatch))
	}
	for i := 0; i < nChain; i++ {
		cases = append(cases, genChain(rng, keyLens[i%len(keyLens)], []int{8, 4}[(i/len(keyLens))%2]))
	}
	for i := 0; i < nFull; i++ {
		sth := 8
		if i%2 == 1 {
			sth = 4
		}
		missing := 0
		if i >= 4 {
			missing = rng.Intn(3)
		}
		cases = append(cases, genFull(rng, (i/2)%5, sth, missing))
	}
	for i := 0; i < nBig; i++ {
		cases = append(cases, genBig(rng, []int{32, 2, 38, 12}[i%4], []int{8, 4}[(i/2)%2], bigN/2+rng.Intn(bigN)))
	}
	for i := 0; i < nMal; i++ {
		cases = append(cases, genMalformed(rng))
	}
	if dir := os.Getenv("C10IMPL_DUMP_OPS"); dir != "" { // profiling aid: the ops of every case, one file per tag
		files := map[string]*os.File{}
		for _, c := range cases {
			name := strings.ReplaceAll(c.Tag, "/", "_")
			f := files[name]
			if f == nil {
				f, _ = os.Create(dir + "/" + name + ".ops")
				files[name] = f
			}
			if f != nil {
				f.WriteString(strings.Join(c.Ops, "\n") + "\n")
			}
		}
		for _, f := range files {
			f.Close()
		}
	}
	return cases
}

// ---------------------------------------------------------------------------------------------
// runner

type trieAPI interface {
	Update(db smt.DBReadWriter, keys [][]byte, values [][]byte) ([]byte, error)
	SetSubtreeHeight(subtreeHeight uint8)
}

func newTrie(root []byte, keyLen, sth int) trieAPI {
	var t trieAPI = smt.NewTrie(root, keyLen)
	if sth != 8 {
		t.SetSubtreeHeight(uint8(sth))
	}
	return t
}

type runner struct {
	keyLen, sth int
	spec        bool
	db          *memDB
	trie        trieAPI
	root        []byte
	ref         map[string][]byte
	fails       []corr.Fail
	opIdx       int
	stale       int
}

func (r *runner) fail(sig, detail string) {
	if len(detail) > 600 {
		detail = detail[:600] + "..."
	}
	r.fails = append(r.fails, corr.Fail{Sig: sig, Detail: detail, Op: r.opIdx})
}

func (r *runner) step(op string) string {
	w := strings.Fields(op)
	switch {
	case len(w) == 4 && w[0] == "reset":
		r.keyLen, _ = strconv.Atoi(w[1])
		r.sth, _ = strconv.Atoi(w[2])
		r.spec = w[3] == "1"
		r.db = newMemDB()
		r.root = emptyHash
		r.trie = newTrie(nil, r.keyLen, r.sth)
		r.ref = map[string][]byte{}
		return "ok"
	case len(w) == 3 && w[0] == "upd":
		keys, ok1 := parseList(w[1])
		vals, ok2 := parseList(w[2])
		if !ok1 || !ok2 {
			return "bad-op"
		}
		head := ""
		var root []byte
		func() {
			defer func() {
				if e := recover(); e != nil {
					head = "panic"
					if r.spec {
						r.fail("c10impl-unexpected-panic", fmt.Sprintf("%v", e))
					}
				}
			}()
			rt, err := r.trie.Update(r.db, keys, vals)
			if err != nil {
				head = "err"
				if r.spec {
					r.fail("c10impl-unexpected-err", err.Error())
				}
				return
			}
			root = rt
			head = corr.Hex(rt)
		}()
		spec := "-"
		if root != nil {
			r.root = root
			if r.spec {
				b := make([]kv, len(keys))
				for i := range keys {
					b[i] = kv{keys[i], vals[i]}
				}
				applyBatch(r.ref, b)
			}
		}
		if r.spec {
			want := refRoot(r.ref)
			spec = corr.Hex(want)
			if root != nil {
				if !bytes.Equal(root, want) {
					r.fail("c10impl-root-ne-lip39", fmt.Sprintf("root %x, LIP-0039 root of the reference map (%d keys) %x", root, len(r.ref), want))
				}
				why, reach := checkStore(r.db, root, r.keyLen, r.sth, r.ref)
				if why != "" {
					r.fail("c10impl-store-not-map:"+strings.Fields(why)[0], fmt.Sprintf("walking the stored records from root %x: %s", root, why))
				}
				r.stale = len(r.db.m) - reach
			}
		}
		n, d := r.db.digest()
		return fmt.Sprintf("%s n=%d d=%s spec=%s", head, n, d, spec)
	case len(w) == 1 && w[0] == "reopen":
		r.trie = newTrie(r.root, r.keyLen, r.sth)
		return corr.Hex(r.root)
	case len(w) == 1 && w[0] == "dump":
		return r.db.dump()
	}
	return "bad-op"
}

func (prop) RunImpl(c corr.Case) ([]string, []corr.Fail) {
	r := &runner{keyLen: 32, sth: 8, spec: true, db: newMemDB(), root: emptyHash, ref: map[string][]byte{}}
	r.trie = newTrie(nil, 32, 8)
	out := make([]string, 0, len(c.Ops))
	for i, op := range c.Ops {
		r.opIdx = i
		func() {
			defer func() {
				if e := recover(); e != nil {
					out = append(out, "panic")
					r.fail("c10impl-harness-panic", fmt.Sprintf("%s: %v", strings.Fields(op)[0], e))
				}
			}()
			out = append(out, r.step(op))
		}()
	}
	return out, r.fails
}

func (prop) Classify(c corr.Case, out []string) string {
	if len(c.Ops) == 0 {
		return ""
	}
	upd, maxN, errs, panics, shrink, empties := 0, 0, 0, 0, 0, 0
	prevN := 0
	for i, o := range out {
		if !strings.HasPrefix(c.Ops[i], "upd ") {
			continue
		}
		upd++
		f := strings.Fields(o)
		if len(f) < 2 {
			continue
		}
		switch f[0] {
		case "err":
			errs++
		case "panic":
			panics++
		case corr.Hex(emptyHash):
			empties++
		}
		n, _ := strconv.Atoi(strings.TrimPrefix(f[1], "n="))
		if n > maxN {
			maxN = n
		}
		if n < prevN {
			shrink++
		}
		prevN = n
	}
	if upd == 0 {
		return ""
	}
	bucket := func(n int) string {
		switch {
		case n <= 2:
			return "le2"
		case n <= 10:
			return "le10"
		case n <= 100:
			return "le100"
		}
		return "gt100"
	}
	return fmt.Sprintf("%s/records-%s/shrinks-%v/emptied-%v/err-%v/panic-%v", c.Tag, bucket(maxN), shrink > 0, empties > 0, errs > 0, panics > 0)
}
