// Package engineboot is the pseudo-property ENGINE: the REAL engine.Engine (pkg/engine: Start / init / Stop,
// configuration defaults, constructors) is booted in-process on a temporary data directory with the mock
// application, next to the node harness (harness/node), which re-enacts the same start-up by hand and is what
// the Lean models of C02-C06, C13, C15, C16 are tied to. Both get the same blocks; after every step the two
// must agree byte for byte (tip, finalized height, BFT store, blockchain database dump, application call
// sequence at start-up), also across stop / restart on the same data path, and the components must carry the
// values of the configuration (wiring). No Lean model runs here (NoModel): the oracle is the node harness.
package engineboot

import (
	"bytes"
	"fmt"
	"math/rand"
	"os"
	"runtime/debug"
	"sort"
	"strconv"
	"strings"
	"time"

	"github.com/LiskHQ/lisk-engine/pkg/blockchain"
	"github.com/LiskHQ/lisk-engine/pkg/db/diffdb"
	"github.com/LiskHQ/lisk-engine/pkg/engine"
	"github.com/LiskHQ/lisk-engine/pkg/engine/config"
	"github.com/LiskHQ/lisk-engine/pkg/labi"

	"verifharness/corr"
	"verifharness/node"
)

type prop struct{}

func init() { corr.Register(prop{}) }

func (prop) ID() string                 { return "ENGINE" }
func (prop) NoModel() bool              { return true }
func (prop) Parallel() int              { return 1 }
func (prop) CaseTimeout() time.Duration { return 4 * time.Minute }

func (prop) Generate(rng *rand.Rand, tier string) []corr.Case {
	n := 6
	if tier == "thorough" {
		n = 60
	}
	var cases []corr.Case
	for i := 0; i < n; i++ {
		nval := 1 + rng.Intn(4)
		batch := 1 + rng.Intn(4)
		bt := []int{2, 5, 10}[rng.Intn(3)]
		cache := []int{0, 0, 4, 6, 9, 515}[rng.Intn(6)] // 0 = leave to the default
		pool := rng.Intn(3)                             // 0 defaults, 1 explicit small, 2 explicit large
		maxtx := []int{0, 0, 2048, 15360}[rng.Intn(4)]
		ops := []string{fmt.Sprintf("boot seed=%d nval=%d batch=%d bt=%d cache=%d pool=%d maxtx=%d", rng.Intn(1000), nval, batch, bt, cache, pool, maxtx), "wiring"}
		steps := 3 + rng.Intn(4)
		for s := 0; s < steps; s++ {
			switch rng.Intn(5) {
			case 0, 1, 2:
				ops = append(ops, fmt.Sprintf("extend %d", 1+rng.Intn(3*batch+3)))
			case 3:
				ops = append(ops, "restart")
			case 4:
				ops = append(ops, "restart", "wiring")
			}
		}
		ops = append(ops, "extend 2", "restart", "extend 1", "shutdown")
		cases = append(cases, corr.Case{Ops: ops, Tag: "boot"})
	}
	// long runs: many more blocks than the block cache holds / than the BFT window, finality and pruning far
	// beyond the first hundred blocks, restarts in between
	cases = append(cases, corr.Case{Tag: "long", Ops: []string{
		fmt.Sprintf("boot seed=%d nval=3 batch=2 bt=2 cache=9 pool=0 maxtx=0", rng.Intn(1000)), "wiring",
		"extend 45", "restart", "extend 70", "restart", "extend 30", "shutdown"}})
	cases = append(cases, corr.Case{Tag: "long", Ops: []string{
		fmt.Sprintf("boot seed=%d nval=4 batch=3 bt=2 cache=0 pool=0 maxtx=0", rng.Intn(1000)), "wiring",
		"extend 530", "restart", "extend 25", "shutdown"}})
	if tier == "thorough" {
		cases = append(cases, corr.Case{Tag: "long", Ops: []string{
			fmt.Sprintf("boot seed=%d nval=4 batch=3 bt=2 cache=0 pool=0 maxtx=0", rng.Intn(1000)), "wiring",
			"extend 530", "restart", "extend 120", "restart", "extend 520", "restart", "extend 3", "shutdown"}})
		cases = append(cases, corr.Case{Tag: "long", Ops: []string{
			fmt.Sprintf("boot seed=%d nval=2 batch=4 bt=5 cache=4 pool=0 maxtx=0", rng.Intn(1000)), "wiring",
			"extend 700", "restart", "extend 700", "restart", "extend 10", "shutdown"}})
	}
	return cases
}

type world struct {
	n      *node.Node
	abi    *node.MockABI
	eng    *engine.Engine
	conf   *config.Config
	dir    string
	done   chan error
	bootKV map[string]string
}

func kvs(fields []string) map[string]string {
	m := map[string]string{}
	for _, f := range fields {
		if i := strings.IndexByte(f, '='); i > 0 {
			m[f[:i]] = f[i+1:]
		}
	}
	return m
}

func atoi(s string) int { v, _ := strconv.Atoi(s); return v }

// build the configuration the way an operator's config file would (zero = left out)
func (w *world) makeConfig() *config.Config {
	kv := w.bootKV
	c := &config.Config{
		System:  &config.SystemConfig{DataPath: w.dir, LogLevel: "error"},
		RPC:     &config.RPCConfig{Modes: []string{}},
		Network: &config.NetworkConfig{Addresses: []string{"/ip4/127.0.0.1/tcp/0"}, AllowIncomingConnections: true},
		Genesis: &config.GenesisConfig{
			Block:        &config.GenesisBlockConfig{Blob: w.n.Genesis.Encode()},
			ChainID:      w.n.Cfg.ChainID,
			BlockTime:    w.n.Cfg.BlockTime,
			BFTBatchSize: uint32(w.n.Cfg.BatchSize),
		},
	}
	if v := atoi(kv["cache"]); v != 0 {
		c.System.MaxBlockCache = &v
	}
	if v := atoi(kv["maxtx"]); v != 0 {
		c.Genesis.MaxTransactionsSize = uint32(v)
	}
	switch atoi(kv["pool"]) {
	case 1:
		c.TransactionPool = &config.TransactionPoolConfig{MaxTransactions: 7, MaxTransactionsPerAccount: 3, TransactionExpiryTime: 11, MinEntranceFeePriority: 5, MinReplacementFeeDifference: 13}
	case 2:
		c.TransactionPool = &config.TransactionPoolConfig{MaxTransactions: 9000, MaxTransactionsPerAccount: 100, TransactionExpiryTime: 99999, MinEntranceFeePriority: 1 << 40, MinReplacementFeeDifference: 1 << 33}
	}
	return c
}

func (w *world) startEngine() error {
	w.conf = w.makeConfig()
	w.eng = engine.NewEngine(w.abi, w.conf)
	w.done = make(chan error, 1)
	eng, done := w.eng, w.done
	go func() {
		defer func() {
			if r := recover(); r != nil {
				done <- fmt.Errorf("panic in Engine.Start: %v", r)
			}
		}()
		done <- eng.Start()
	}()
	deadline := time.Now().Add(30 * time.Second)
	for time.Now().Before(deadline) {
		select {
		case err := <-done:
			done <- err
			return fmt.Errorf("Engine.Start returned early: %v", err)
		default:
		}
		// Start is fully up when every Init ran and the application was told the tip (last step of Start)
		if eng.VerifInitialized() {
			names := w.abi.CallNames()
			if len(names) > 0 && names[len(names)-1] == "Init" && p2pUp(eng) {
				return nil
			}
		}
		time.Sleep(5 * time.Millisecond)
	}
	return fmt.Errorf("Engine.Start did not finish initialisation within 30s (calls %v)", w.abi.CallNames())
}

// p2pUp reports whether the connection goroutine started by Start has finished Connection.Start (Stop on a
// half-started connection dereferences nil subscriptions).
func p2pUp(eng *engine.Engine) (up bool) {
	defer func() {
		if recover() != nil {
			up = false
		}
	}()
	conn := eng.VerifParts().Conn
	if conn == nil || conn.Peer == nil {
		return false
	}
	addrs, err := conn.MultiAddress()
	return err == nil && len(addrs) > 0
}

// stopEngine ends the engine the way Engine.Stop does, waits for Start to return, and then releases what
// Stop leaves behind (p2p host, pool loop, databases) so that the same process can start on the data path again.
func (w *world) stopEngine() error {
	if w.eng == nil {
		return nil
	}
	parts := w.eng.VerifParts()
	w.eng.Stop()
	var err error
	select {
	case err = <-w.done:
	case <-time.After(20 * time.Second):
		err = fmt.Errorf("Engine.Start did not return within 20s of Stop")
	}
	if parts.Pool != nil {
		parts.Pool.End()
	}
	if parts.Conn != nil {
		_ = parts.Conn.Stop()
	}
	time.Sleep(50 * time.Millisecond)
	if cerr := w.eng.VerifCloseDBs(); cerr != nil && err == nil {
		err = fmt.Errorf("closing databases: %v", cerr)
	}
	w.eng = nil
	return err
}

func (w *world) close() {
	_ = w.stopEngine()
	if w.n != nil {
		w.n.Close()
		w.n = nil
	}
	if w.dir != "" {
		os.RemoveAll(w.dir)
		w.dir = ""
	}
}

// view wraps the engine's components into a node.Node so that the harness's read-only helpers apply
func (w *world) view() *node.Node {
	p := w.eng.VerifParts()
	return &node.Node{Cfg: w.n.Cfg, Validators: w.n.Validators, ABI: w.abi, DB: p.BlockchainDB, Chain: p.Chain, Exec: p.Consensus, Conn: p.Conn, Genesis: w.n.Genesis}
}

func state(n *node.Node) (string, string, string) {
	tip := n.Tip()
	mhp, mhpc, mhc := n.BFTHeights()
	short := fmt.Sprintf("tip=%d:%s fin=%d bft=%d/%d/%d", tip.Header.Height, node.HashHex(tip.Header.ID), n.Finalized(), mhp, mhpc, mhc)
	return short, n.BFTDump(), node.DumpString(canon(n.DumpDB()))
}

// canon sorts the key lists inside stored state diffs (key space 51): cacheDB.commit ranges over a Go map,
// so two executions of the same block give differently ordered, equivalent diffs (as harness/c13 does).
func canon(kvs []node.KV) []node.KV {
	for i, kv := range kvs {
		if len(kv.Key) == 0 || kv.Key[0] != 51 {
			continue
		}
		d := &diffdb.Diff{}
		if err := d.Decode(kv.Value); err != nil {
			continue
		}
		sort.Slice(d.Added, func(a, b int) bool { return bytes.Compare(d.Added[a], d.Added[b]) < 0 })
		sort.Slice(d.Updated, func(a, b int) bool { return bytes.Compare(d.Updated[a].Key, d.Updated[b].Key) < 0 })
		sort.Slice(d.Deleted, func(a, b int) bool { return bytes.Compare(d.Deleted[a].Key, d.Deleted[b].Key) < 0 })
		kvs[i].Value = d.Encode()
	}
	return kvs
}

func firstDiffLine(a, b string) string {
	la, lb := strings.Split(a, "\n"), strings.Split(b, "\n")
	for i := 0; i < len(la) || i < len(lb); i++ {
		x, y := "", ""
		if i < len(la) {
			x = la[i]
		}
		if i < len(lb) {
			y = lb[i]
		}
		if x != y {
			if len(x) > 160 {
				x = x[:160]
			}
			if len(y) > 160 {
				y = y[:160]
			}
			return fmt.Sprintf("line %d: engine %q / node harness %q", i, x, y)
		}
	}
	return ""
}

// compare engine and node harness; returns the output token and failures
func (w *world) compare(op int) (string, []corr.Fail) {
	var fails []corr.Fail
	es, eb, ed := state(w.view())
	ns, nb, nd := state(w.n)
	if es != ns {
		fails = append(fails, corr.Fail{Sig: "engine-node-divergence-state", Detail: "engine " + es + " / node harness " + ns, Op: op})
	}
	if eb != nb {
		fails = append(fails, corr.Fail{Sig: "engine-node-divergence-bft", Detail: firstDiffLine(eb, nb), Op: op})
	}
	if ed != nd {
		fails = append(fails, corr.Fail{Sig: "engine-node-divergence-db", Detail: firstDiffLine(ed, nd), Op: op})
	}
	eh, er := w.abi.StateRoot()
	nh, nr := w.n.ABI.StateRoot()
	if eh != nh || !bytes.Equal(er, nr) {
		fails = append(fails, corr.Fail{Sig: "engine-node-divergence-app", Detail: fmt.Sprintf("application state engine %d:%x / node harness %d:%x", eh, er, nh, nr), Op: op})
	}
	if inc := w.abi.Inconsistencies; len(inc) > 0 {
		fails = append(fails, corr.Fail{Sig: "engine-abi-protocol-violation", Detail: strings.Join(inc, "; "), Op: op})
	}
	return es, fails
}

func (w *world) wiring(op int) (string, []corr.Fail) {
	var fails []corr.Fail
	bad := func(what string, got, want interface{}) {
		if fmt.Sprint(got) != fmt.Sprint(want) {
			fails = append(fails, corr.Fail{Sig: "engine-wiring-" + what, Detail: fmt.Sprintf("%s: component has %v, configuration says %v", what, got, want), Op: op})
		}
	}
	p := w.eng.VerifParts()
	kv := w.bootKV
	bad("batch-size", p.Consensus.VerifBatchSize(), w.n.Cfg.BatchSize)
	bad("block-time", p.Consensus.VerifBlockTime(), w.n.Cfg.BlockTime)
	bad("chain-id", fmt.Sprintf("%x", p.Chain.ChainID()), fmt.Sprintf("%x", w.n.Cfg.ChainID))
	wantTx := 15 * 1024
	if v := atoi(kv["maxtx"]); v != 0 {
		wantTx = v
	}
	bad("max-transactions-size", p.Chain.MaxTransactionsLength(), wantTx)
	wantCache := 515
	if v := atoi(kv["cache"]); v != 0 {
		wantCache = v
	}
	cache, _ := p.Chain.VerifLimits()
	bad("block-cache", cache, wantCache)
	pc := p.Pool.VerifConfig()
	switch atoi(kv["pool"]) {
	case 0:
		if pc.MaxTransactions < 1 || pc.MaxTransactionsPerAccount < 1 || pc.TransactionExpiryTime < 1 {
			fails = append(fails, corr.Fail{Sig: "engine-wiring-pool-defaults", Detail: fmt.Sprintf("pool limits not positive after defaults: %+v", pc), Op: op})
		}
	case 1:
		bad("pool", fmt.Sprintf("%d/%d/%d/%d/%d", pc.MaxTransactions, pc.MaxTransactionsPerAccount, pc.TransactionExpiryTime, pc.MinEntranceFeePriority, pc.MinReplacementFeeDifference), "7/3/11/5/13")
	case 2:
		bad("pool", fmt.Sprintf("%d/%d/%d/%d/%d", pc.MaxTransactions, pc.MaxTransactionsPerAccount, pc.TransactionExpiryTime, pc.MinEntranceFeePriority, pc.MinReplacementFeeDifference), fmt.Sprintf("9000/100/99999/%d/%d", uint64(1)<<40, uint64(1)<<33))
	}
	if p.Consensus.VerifChain() != p.Chain {
		fails = append(fails, corr.Fail{Sig: "engine-wiring-chain-object", Detail: "consensus works on another Chain object than the engine's", Op: op})
	}
	if p.Consensus.VerifDatabase() != p.BlockchainDB {
		fails = append(fails, corr.Fail{Sig: "engine-wiring-database", Detail: "consensus works on another database handle than the engine's blockchain database", Op: op})
	}
	if p.Consensus.VerifConn() != p.Conn {
		fails = append(fails, corr.Fail{Sig: "engine-wiring-conn", Detail: "consensus works on another p2p connection than the engine's", Op: op})
	}
	if len(fails) > 0 {
		return "wiring-bad", fails
	}
	return "wiring-ok", nil
}

// startup call sequences of the application: engine vs node harness
func startupCalls(names []string) string {
	return strings.Join(names, ",")
}

func (w *world) feed(b *blockchain.Block) error {
	p := w.eng.VerifParts()
	cp, err := node.CopyBlock(b)
	if err != nil {
		return err
	}
	p.Consensus.AddInternal(cp)
	deadline := time.Now().Add(20 * time.Second)
	for time.Now().Before(deadline) {
		if tip := p.Chain.LastBlock(); tip != nil && bytes.Equal(tip.Header.ID, b.Header.ID) {
			return nil
		}
		time.Sleep(2 * time.Millisecond)
	}
	return fmt.Errorf("engine did not apply block %d:%s within 20s (tip %d)", b.Header.Height, node.HashHex(b.Header.ID), p.Chain.LastBlock().Header.Height)
}

func (prop) RunImpl(c corr.Case) ([]string, []corr.Fail) {
	var out []string
	var fails []corr.Fail
	w := &world{}
	defer w.close()
	defer func() {
		if r := recover(); r != nil {
			fmt.Fprintf(os.Stderr, "ENGINE harness panic: %v\n%s\n", r, debug.Stack())
			panic(r)
		}
	}()
	dead := false
	for i, op := range c.Ops {
		f := strings.Fields(op)
		if dead && f[0] != "boot" {
			out = append(out, "skip")
			continue
		}
		switch f[0] {
		case "boot":
			w.close()
			w = &world{bootKV: kvs(f[1:])}
			dead = false
			kv := w.bootKV
			ncfg := node.Config{NumValidators: atoi(kv["nval"]), BatchSize: atoi(kv["batch"]), BlockTime: uint32(atoi(kv["bt"])), Seed: int64(atoi(kv["seed"]))}
			if v := atoi(kv["cache"]); v != 0 {
				ncfg.MaxBlockCache = v
			}
			if v := atoi(kv["maxtx"]); v != 0 {
				ncfg.MaxTransactionsLength = uint32(v)
			}
			n, err := node.New(ncfg)
			if err != nil {
				out = append(out, "harness-error "+err.Error())
				dead = true
				continue
			}
			w.n = n
			w.abi = node.NewMockABI()
			w.abi.GenesisValidators = n.ABI.GenesisValidators
			w.abi.GenesisPrecommit = n.ABI.GenesisPrecommit
			w.abi.GenesisCertificate = n.ABI.GenesisCertificate
			w.abi.GenesisEvents = n.ABI.GenesisEvents
			dir, err := os.MkdirTemp("", "verif-engine-")
			if err != nil {
				out = append(out, "harness-error "+err.Error())
				dead = true
				continue
			}
			w.dir = dir
			if err := w.startEngine(); err != nil {
				fails = append(fails, corr.Fail{Sig: "engine-boot-failed", Detail: err.Error(), Op: i})
				out = append(out, "boot-failed")
				dead = true
				continue
			}
			ec, nc := startupCalls(w.abi.CallNames()), startupCalls(n.ABI.CallNames())
			if ec != nc {
				fails = append(fails, corr.Fail{Sig: "engine-startup-calls-differ", Detail: "application calls at first start: engine [" + ec + "] / node harness [" + nc + "]", Op: i})
			}
			s, fs := w.compare(i)
			fails = append(fails, fs...)
			out = append(out, "booted "+s+" calls="+ec)
		case "wiring":
			s, fs := w.wiring(i)
			fails = append(fails, fs...)
			out = append(out, s)
		case "extend":
			k := atoi(f[1])
			blocks, err := w.n.Extend(k)
			if err != nil {
				out = append(out, "harness-error "+err.Error())
				dead = true
				continue
			}
			ok := true
			for _, b := range blocks {
				if err := w.feed(b); err != nil {
					fails = append(fails, corr.Fail{Sig: "engine-block-not-applied", Detail: err.Error(), Op: i})
					ok = false
					break
				}
			}
			if !ok {
				out = append(out, "not-applied")
				dead = true
				continue
			}
			// let the engine finish the step (events, cache) before reading
			time.Sleep(5 * time.Millisecond)
			s, fs := w.compare(i)
			fails = append(fails, fs...)
			out = append(out, "extended "+s)
		case "restart":
			_, _, before := state(w.view())
			if err := w.stopEngine(); err != nil {
				fails = append(fails, corr.Fail{Sig: "engine-stop-failed", Detail: err.Error(), Op: i})
				out = append(out, "stop-failed")
				dead = true
				continue
			}
			w.abi.ResetCalls()
			w.n.ABI.ResetCalls()
			if err := w.n.Restart(); err != nil {
				out = append(out, "harness-error "+err.Error())
				dead = true
				continue
			}
			if err := w.startEngine(); err != nil {
				fails = append(fails, corr.Fail{Sig: "engine-restart-failed", Detail: err.Error(), Op: i})
				out = append(out, "restart-failed")
				dead = true
				continue
			}
			ec, nc := startupCalls(w.abi.CallNames()), startupCalls(w.n.ABI.CallNames())
			if ec != nc {
				fails = append(fails, corr.Fail{Sig: "engine-startup-calls-differ", Detail: "application calls at restart: engine [" + ec + "] / node harness [" + nc + "]", Op: i})
			}
			_, _, after := state(w.view())
			if before != after {
				fails = append(fails, corr.Fail{Sig: "engine-restart-changed-database", Detail: firstDiffLine(after, before), Op: i})
			}
			s, fs := w.compare(i)
			fails = append(fails, fs...)
			out = append(out, "restarted "+s+" calls="+ec)
		case "shutdown":
			if err := w.stopEngine(); err != nil {
				fails = append(fails, corr.Fail{Sig: "engine-stop-failed", Detail: err.Error(), Op: i})
				out = append(out, "stop-failed")
				continue
			}
			out = append(out, "stopped")
			dead = true
		default:
			out = append(out, "bad-op")
		}
	}
	return out, fails
}

func (prop) Classify(c corr.Case, out []string) string {
	r, e := 0, 0
	for _, o := range out {
		if strings.HasPrefix(o, "restarted") {
			r++
		}
		if strings.HasPrefix(o, "extended") {
			e++
		}
	}
	if r > 0 && e > 0 {
		return "boot+extend+restart"
	}
	return ""
}

var _ = labi.TxVerifyResultOk
