// Structure-aware mutation of KEYS and LENGTH prefixes with large varints that ARE in shortest form
// for the (larger) number they denote — so the shortest-form check of readUint does not fire — and
// whose low bits equal the expected key / length:
//
//	key  + k·2^32, key + k·2^35 (field number beyond 32 bits), key + 2^63 (negative as a Go int),
//	key  + 2^j for every width j a narrowing conversion might cut at (8, 16, 29, 31, 32, 35 ...),
//	len  + k·2^32, len + 2^63, len + 2^j, 2^64 - d (int(len) = -d).
//
// The encoding is parsed into a tree along the schema (nested structs are descended into), ONE key
// or length is replaced and the tree is written back with the enclosing length prefixes recomputed,
// so the input is valid except for that one varint. A decoder that narrows the 64 bit varint before
// comparing it (uint32(key), int32(size) ...) accepts such bytes as the expected field: strict
// decoding then accepts many byte strings for one value (oracles in c08.go / entry.go), and the
// Lean model — which compares natural numbers — rejects them (correspondence mismatch).
package c08

import (
	"math/rand"
)

type vnode struct {
	key      uint64
	val      uint64   // wire type 0
	payload  []byte   // wire type 2, leaf
	children []*vnode // wire type 2, nested struct (children != nil or isMsg)
	isMsg    bool
	keyOv    *uint64 // replacement key
	lenOv    *uint64 // replacement length prefix
}

// parseTree parses a canonical encoding produced by GenEncoding. ok=false on anything unexpected.
func parseTree(s *Schema, b []byte) ([]*vnode, bool) {
	var out []*vnode
	for len(b) > 0 {
		k, n := readUv(b)
		if n == 0 {
			return nil, false
		}
		b = b[n:]
		nd := &vnode{key: k}
		switch k & 7 {
		case 0:
			v, m := readUv(b)
			if m == 0 {
				return nil, false
			}
			nd.val, b = v, b[m:]
		case 2:
			l, m := readUv(b)
			if m == 0 || uint64(len(b)-m) < l {
				return nil, false
			}
			body := b[m : m+int(l)]
			b = b[m+int(l):]
			nested := ""
			if s != nil {
				for _, f := range s.Enc {
					if uint64(f.Num) == k>>3 && (f.Kind == "msg" || f.Kind == "msgArr") {
						nested = f.Nested
					}
				}
			}
			if ns, ok := ByName[nested]; ok && nested != "" {
				ch, ok2 := parseTree(ns, body)
				if !ok2 {
					return nil, false
				}
				nd.isMsg, nd.children = true, ch
			} else {
				nd.payload = body
			}
		default:
			return nil, false
		}
		out = append(out, nd)
	}
	return out, true
}

func writeTree(ns []*vnode) []byte {
	var out []byte
	for _, n := range ns {
		k := n.key
		if n.keyOv != nil {
			k = *n.keyOv
		}
		out = append(out, uvarint(k)...)
		if n.key&7 == 0 {
			out = append(out, uvarint(n.val)...)
			continue
		}
		body := n.payload
		if n.isMsg {
			body = writeTree(n.children)
		}
		l := uint64(len(body))
		if n.lenOv != nil {
			l = *n.lenOv
		}
		out = append(out, uvarint(l)...)
		out = append(out, body...)
	}
	return out
}

func flatten(ns []*vnode, acc []*vnode) []*vnode {
	for _, n := range ns {
		acc = append(acc, n)
		if n.isMsg {
			acc = flatten(n.children, acc)
		}
	}
	return acc
}

// widths at which a narrowing conversion of a key / length could cut
var cutWidths = []uint{7, 8, 14, 15, 16, 21, 24, 28, 29, 31, 32, 33, 35, 36, 42, 48, 56, 62, 63}

// bigDelta returns a non-zero multiple of some 2^j (j >= 7) below 2^64.
func bigDelta(rng *rand.Rand, forLen bool) (uint64, string) {
	switch rng.Intn(8) {
	case 0, 1:
		return uint64(1+rng.Intn(3)) << 32, "+k*2^32"
	case 2:
		return (uint64(rng.Uint32()>>1) | 1) << 32, "+k*2^32"
	case 3:
		return uint64(1+rng.Intn(7)) << 35, "+k*2^35"
	case 4:
		return uint64(1) << 63, "+2^63"
	case 5:
		return uint64(1)<<63 | uint64(1+rng.Intn(3))<<32, "+2^63+k*2^32"
	default:
		j := cutWidths[rng.Intn(len(cutWidths))]
		d := uint64(1) << j
		if rng.Intn(3) == 0 && j < 60 {
			d *= uint64(1 + 2*rng.Intn(4))
		}
		return d, "+2^j"
	}
}

// BigVarint replaces one key or one length prefix of the canonical encoding b (of schema s; nil =
// no nested structs) by a large shortest-form varint. kind: "big-key" / "big-len" / "" (either).
func BigVarint(rng *rand.Rand, s *Schema, b []byte, kind string) ([]byte, string, bool) {
	tree, ok := parseTree(s, b)
	if !ok || len(tree) == 0 {
		return nil, "", false
	}
	all := flatten(tree, nil)
	if kind == "" {
		kind = "big-key"
		if rng.Intn(5) < 2 {
			kind = "big-len"
		}
	}
	if kind == "big-len" {
		var w2 []*vnode
		for _, n := range all {
			if n.key&7 == 2 {
				w2 = append(w2, n)
			}
		}
		if len(w2) == 0 {
			kind = "big-key"
		} else {
			n := w2[rng.Intn(len(w2))]
			l := uint64(len(n.payload))
			if n.isMsg {
				l = uint64(len(writeTree(n.children)))
			}
			var v uint64
			tag := ""
			if rng.Intn(6) == 0 {
				v, tag = ^uint64(0)-uint64(rng.Intn(3)), "2^64-d" // int(len) = -1..-3
			} else {
				var d uint64
				d, tag = bigDelta(rng, true)
				v = l + d
			}
			n.lenOv = &v
			return writeTree(tree), "big-len" + tag, true
		}
	}
	n := all[rng.Intn(len(all))]
	d, tag := bigDelta(rng, false)
	v := n.key + d
	n.keyOv = &v
	return writeTree(tree), "big-key" + tag, true
}
