// Entry points that turn received bytes into objects with IDs: blockchain.NewBlock, NewBlockHeader,
// NewTransaction, NewBlockAsset. The generator builds block envelopes from valid canonical parts and
// replaces ONE nested element (a transaction, an asset, the header) by a non-canonical encoding
// (default-valued field omitted, field dropped, fields swapped / duplicated, non-shortest varint,
// trailing byte, unknown trailing field, boolean 0x02, wrong wire type, empty element), or damages
// the envelope itself (element length prefix shifted, sections swapped, header absent, trailing
// bytes). The ops run the real entry points and the Lean composition model (RawBlock strict, then
// header lenient, assets strict, transactions strict); a model-free oracle states the clause of the
// property: whatever the entry point accepts, every transaction ID is the hash of exactly the bytes
// that stood for that transaction in the envelope, assets are canonical, the header ID is the hash of
// the header's encoding, and re-encoding reproduces the received bytes when all parts were canonical.
package c08

import (
	"bytes"
	"crypto/sha256"
	"fmt"
	"math/rand"
	"strings"

	"github.com/LiskHQ/lisk-engine/pkg/blockchain"

	"verifharness/corr"
)

// fld is one top-level field of an encoding: key bytes and payload bytes (for wire type 2 the
// payload includes its length prefix).
type fld struct {
	num, wt int
	key     []byte
	payload []byte
}

func (f fld) raw() []byte { return append(append([]byte{}, f.key...), f.payload...) }

func readUv(b []byte) (uint64, int) {
	var v uint64
	for i := 0; i < len(b) && i < 10; i++ {
		v |= uint64(b[i]&0x7f) << (7 * uint(i))
		if b[i] < 0x80 {
			return v, i + 1
		}
	}
	return 0, 0
}

// splitFields cuts a canonical encoding into its top-level fields (generator side only: inputs are
// the generator's own canonical encodings).
func splitFields(b []byte) ([]fld, bool) {
	var out []fld
	for len(b) > 0 {
		k, n := readUv(b)
		if n == 0 {
			return nil, false
		}
		f := fld{num: int(k >> 3), wt: int(k & 7), key: b[:n]}
		b = b[n:]
		switch f.wt {
		case 0:
			_, m := readUv(b)
			if m == 0 {
				return nil, false
			}
			f.payload, b = b[:m], b[m:]
		case 2:
			l, m := readUv(b)
			if m == 0 || uint64(len(b)-m) < l {
				return nil, false
			}
			f.payload, b = b[:m+int(l)], b[m+int(l):]
		default:
			return nil, false
		}
		out = append(out, f)
	}
	return out, true
}

func joinFields(fs []fld) []byte {
	var out []byte
	for _, f := range fs {
		out = append(out, f.raw()...)
	}
	return out
}

func padVarint(b []byte) []byte {
	// the same value with one unnecessary continuation byte
	c := append([]byte{}, b...)
	c[len(c)-1] |= 0x80
	return append(c, 0x00)
}

var elemMutations = []string{"omit-default", "omit-default", "omit-default", "omit-field", "drop-suffix", "empty", "swap",
	"dup-field", "non-shortest", "trailing-byte", "unknown-field", "bool-2", "wrong-wiretype", "zero-len-tail",
	"big-key", "big-key", "big-len"}

// mutElem returns (canonical base, mutant, kind). The base may differ from the input (omit-default
// first sets a field to its default value so that it can be left out).
func mutElem(rng *rand.Rand, schema string, elem []byte, kind string) ([]byte, []byte, string) {
	fs, ok := splitFields(elem)
	if !ok || len(fs) == 0 {
		return elem, append(append([]byte{}, elem...), 0x00), "trailing-byte"
	}
	cp := func() []fld { return append([]fld{}, fs...) }
	s := ByName[schema]
	single := func(num int) bool {
		for _, f := range s.Enc {
			if f.Num == num {
				return f.Kind != "bytesArr" && f.Kind != "msgArr" && f.Kind != "uints"
			}
		}
		return false
	}
	switch kind {
	case "omit-default":
		// choose a single-valued field, make its value the default (0 / empty), then leave it out: the
		// encoding a stock proto3 encoder produces
		var cand []int
		for i, f := range fs {
			if single(f.num) {
				cand = append(cand, i)
			}
		}
		if len(cand) == 0 {
			break
		}
		n := 1 + rng.Intn(2)
		base := cp()
		drop := map[int]bool{}
		for j := 0; j < n; j++ {
			i := cand[rng.Intn(len(cand))]
			base[i].payload = []byte{0x00}
			drop[i] = true
		}
		var mut []fld
		for i, f := range base {
			if !drop[i] {
				mut = append(mut, f)
			}
		}
		return joinFields(base), joinFields(mut), kind
	case "omit-field":
		i := rng.Intn(len(fs))
		m := cp()
		return elem, joinFields(append(m[:i], m[i+1:]...)), kind
	case "drop-suffix":
		return elem, joinFields(fs[:rng.Intn(len(fs))]), kind
	case "empty":
		return elem, []byte{}, kind
	case "swap":
		if len(fs) < 2 {
			break
		}
		i := rng.Intn(len(fs) - 1)
		m := cp()
		m[i], m[i+1] = m[i+1], m[i]
		return elem, joinFields(m), kind
	case "dup-field":
		i := rng.Intn(len(fs))
		m := append(append(cp()[:i+1:i+1], fs[i]), fs[i+1:]...)
		return elem, joinFields(m), kind
	case "non-shortest":
		i := rng.Intn(len(fs))
		m := cp()
		f := m[i]
		switch rng.Intn(3) {
		case 0:
			f.key = padVarint(f.key)
		default:
			_, n := readUv(f.payload)
			f.payload = append(padVarint(f.payload[:n]), f.payload[n:]...)
		}
		m[i] = f
		return elem, joinFields(m), kind
	case "trailing-byte":
		return elem, append(append([]byte{}, elem...), byte(rng.Intn(256))), kind
	case "zero-len-tail":
		// trailing bytes that read as an (empty) element of the enclosing block: 0x12 0x00 / 0x1a 0x00
		return elem, append(append([]byte{}, elem...), []byte{0x12, 0x1a}[rng.Intn(2)], 0x00), kind
	case "unknown-field":
		last := fs[len(fs)-1].num
		extra := append(uvarint(uint64((last+1+rng.Intn(3))<<3)), byte(rng.Intn(2)))
		if rng.Intn(2) == 0 {
			extra = append(uvarint(uint64((last+1)<<3|2)), 0x01, 0x41)
		}
		return elem, append(append([]byte{}, elem...), extra...), kind
	case "bool-2":
		for i, f := range s.Enc {
			if f.Kind == "bool" {
				for j := range fs {
					if fs[j].num == f.Num {
						m := cp()
						m[j].payload = []byte{0x02}
						return elem, joinFields(m), kind
					}
				}
			}
			_ = i
		}
		return mutElem(rng, schema, elem, "non-shortest")
	case "big-key", "big-len":
		// one key / length prefix as a large shortest-form varint with the expected low bits (bigvarint.go)
		if m, _, ok := BigVarint(rng, s, elem, kind); ok {
			return elem, m, kind
		}
	case "wrong-wiretype":
		i := rng.Intn(len(fs))
		m := cp()
		k := append([]byte{}, m[i].key...)
		k[0] ^= 0x02
		m[i].key = k
		return elem, joinFields(m), kind
	}
	return elem, append(append([]byte{}, elem...), 0x00), "trailing-byte"
}

func lenPrefixed(key byte, b []byte) []byte {
	return append(append([]byte{key}, uvarint(uint64(len(b)))...), b...)
}

// envelope of a block: header (1, absent when nil), transactions (2), assets (3)
func buildEnvelope(hdr []byte, txs, assets [][]byte) []byte {
	var out []byte
	if hdr != nil {
		out = append(out, lenPrefixed(0x0a, hdr)...)
	}
	for _, t := range txs {
		out = append(out, lenPrefixed(0x12, t)...)
	}
	for _, a := range assets {
		out = append(out, lenPrefixed(0x1a, a)...)
	}
	return out
}

// genAsset: module names are generated in increasing order so that blocks are plausible
func genParts(rng *rand.Rand) (hdr []byte, txs, assets [][]byte) {
	hdr = GenEncoding(rng, ByName["blockchain.BlockHeader"], 0, true)
	for i, n := 0, rng.Intn(4); i < n; i++ {
		txs = append(txs, GenEncoding(rng, ByName["blockchain.Transaction"], 0, true))
	}
	for i, n := 0, rng.Intn(3); i < n; i++ {
		assets = append(assets, GenEncoding(rng, ByName["blockchain.BlockAsset"], 0, true))
	}
	return
}

func genEntryCases(rng *rand.Rand, tier string) []corr.Case {
	n := 60
	if tier == "thorough" {
		n = 4000
	}
	var cases []corr.Case
	for c := 0; c < n; c++ {
		ops := []string{"reset"}
		for j := 0; j < 6; j++ {
			hdr, txs, assets := genParts(rng)
			kind := elemMutations[rng.Intn(len(elemMutations))]
			// target: 0..5 transaction, 6..7 asset, 8 header, 9 envelope
			target := rng.Intn(10)
			if c%6 == 0 && j == 0 {
				target, kind = 0, "omit-default"
			}
			switch {
			case target <= 5:
				if len(txs) == 0 {
					txs = append(txs, GenEncoding(rng, ByName["blockchain.Transaction"], 0, true))
				}
				k := rng.Intn(len(txs))
				base, mut, _ := mutElem(rng, "blockchain.Transaction", txs[k], kind)
				txs[k] = base
				ops = append(ops, "newblock "+corr.Hex(buildEnvelope(hdr, txs, assets)))
				mtx := append([][]byte{}, txs...)
				mtx[k] = mut
				ops = append(ops, "newblock "+corr.Hex(buildEnvelope(hdr, mtx, assets)), "newtx "+corr.Hex(mut))
				if rng.Intn(3) == 0 {
					ops = append(ops, "newtx "+corr.Hex(base))
				}
			case target <= 7:
				if len(assets) == 0 {
					assets = append(assets, GenEncoding(rng, ByName["blockchain.BlockAsset"], 0, true))
				}
				k := rng.Intn(len(assets))
				base, mut, _ := mutElem(rng, "blockchain.BlockAsset", assets[k], kind)
				assets[k] = base
				ops = append(ops, "newblock "+corr.Hex(buildEnvelope(hdr, txs, assets)))
				ma := append([][]byte{}, assets...)
				ma[k] = mut
				ops = append(ops, "newblock "+corr.Hex(buildEnvelope(hdr, txs, ma)), "newasset "+corr.Hex(mut))
			case target == 8:
				base, mut, _ := mutElem(rng, "blockchain.BlockHeader", hdr, kind)
				ops = append(ops, "newblock "+corr.Hex(buildEnvelope(base, txs, assets)),
					"newblock "+corr.Hex(buildEnvelope(mut, txs, assets)), "newheader "+corr.Hex(mut))
				if rng.Intn(3) == 0 {
					ops = append(ops, "newheader "+corr.Hex(base))
				}
			default:
				env := buildEnvelope(hdr, txs, assets)
				switch rng.Intn(7) {
				case 6:
					// key / length prefix of one envelope element as a large shortest-form varint
					if m, _, ok := BigVarint(rng, nil, env, ""); ok {
						env = m
					}
				case 0:
					env = buildEnvelope(nil, txs, assets)
				case 1:
					// sections swapped: assets before transactions
					env = lenPrefixed(0x0a, hdr)
					for _, a := range assets {
						env = append(env, lenPrefixed(0x1a, a)...)
					}
					for _, t := range txs {
						env = append(env, lenPrefixed(0x12, t)...)
					}
				case 2:
					env = append(env, byte(rng.Intn(256)))
				case 3:
					// the length prefix of one element shifted by +-1..2 (the element then ends inside its
					// neighbour, or leaves a tail that is read as envelope fields)
					if fs, ok := splitFields(env); ok && len(fs) > 0 {
						i := rng.Intn(len(fs))
						l, m := readUv(fs[i].payload)
						d := uint64(1 + rng.Intn(2))
						if rng.Intn(2) == 0 && l >= d {
							l -= d
						} else {
							l += d
						}
						fs[i].payload = append(uvarint(l), fs[i].payload[m:]...)
						env = joinFields(fs)
					}
				case 4:
					if fs, ok := splitFields(env); ok && len(fs) > 0 {
						i := rng.Intn(len(fs))
						_, m := readUv(fs[i].payload)
						fs[i].payload = append(padVarint(fs[i].payload[:m]), fs[i].payload[m:]...)
						env = joinFields(fs)
					}
				case 5:
					env, _ = Mutate(rng, env)
				}
				ops = append(ops, "newblock "+corr.Hex(env))
			}
		}
		cases = append(cases, corr.Case{Ops: ops, Tag: "entry"})
	}
	return cases
}

// refSplit is the reference splitter of a block envelope (independent of pkg/codec): header, then
// transactions, then assets, every key a single byte 0x0a / 0x12 / 0x1a, shortest length prefixes,
// nothing left over.
func refSplit(b []byte) (hdr []byte, txs, assets [][]byte, ok bool) {
	stage := 0
	seenHdr := false
	for len(b) > 0 {
		key := b[0]
		l, m := readUv(b[1:])
		if m == 0 || !bytes.Equal(uvarint(l), b[1:1+m]) || uint64(len(b)-1-m) < l {
			return nil, nil, nil, false
		}
		body := b[1+m : 1+m+int(l)]
		b = b[1+m+int(l):]
		switch {
		case key == 0x0a && stage == 0 && !seenHdr:
			hdr, seenHdr = body, true
		case key == 0x12 && stage <= 1 && seenHdr:
			stage = 1
			txs = append(txs, body)
		case key == 0x1a && stage <= 2 && seenHdr:
			stage = 2
			assets = append(assets, body)
		default:
			return nil, nil, nil, false
		}
	}
	return hdr, txs, assets, seenHdr
}

func sha(b []byte) []byte { h := sha256.Sum256(b); return h[:] }

func idList(ids [][]byte) string {
	if len(ids) == 0 {
		return "-"
	}
	s := make([]string, len(ids))
	for i, id := range ids {
		s[i] = corr.Hex(id)
	}
	return strings.Join(s, ",")
}

// runEntry executes one entry-point op; ok=false when the op is not one of them.
func runEntry(i int, op string, w []string) (res string, fails []corr.Fail, handled bool) {
	switch w[0] {
	case "newblock", "newtx", "newasset", "newheader":
	default:
		return "", nil, false
	}
	handled = true
	fail := func(sig, format string, a ...interface{}) {
		fails = append(fails, corr.Fail{Sig: sig, Detail: op + ": " + fmt.Sprintf(format, a...), Op: i})
	}
	defer func() {
		if r := recover(); r != nil {
			res = "err panic"
			fail("entry-point-panics", "%v", r)
		}
	}()
	b := []byte{}
	if len(w) > 1 {
		b = corr.UnHex(w[1])
	}
	switch w[0] {
	case "newtx":
		tx, err := blockchain.NewTransaction(b)
		if err != nil {
			return "err " + ErrName(err), fails, true
		}
		if !bytes.Equal(tx.ID, sha(b)) {
			fail("tx-id-not-hash-of-bytes", "ID %x, hash of the accepted bytes %x", []byte(tx.ID), sha(b))
		}
		if !bytes.Equal(tx.Encode(), b) {
			fail("strict-accepts-non-canonical-transaction", "NewTransaction accepted bytes that re-encode to %x", tx.Encode())
		}
		return "ok " + corr.Hex(tx.ID), fails, true
	case "newasset":
		a, err := blockchain.NewBlockAsset(b)
		if err != nil {
			return "err " + ErrName(err), fails, true
		}
		if !bytes.Equal(a.Encode(), b) {
			fail("asset-accepted-non-canonical", "NewBlockAsset accepted bytes that re-encode to %x", a.Encode())
		}
		return "ok " + corr.Hex(a.Encode()), fails, true
	case "newheader":
		h, err := blockchain.NewBlockHeader(b)
		if err != nil {
			return "err " + ErrName(err), fails, true
		}
		enc := h.Encode()
		if !bytes.Equal(h.ID, sha(enc)) {
			fail("header-id-not-hash-of-encoding", "ID %x, hash of Encode() %x", []byte(h.ID), sha(enc))
		}
		if h2, err2 := blockchain.NewBlockHeader(enc); err2 != nil || !bytes.Equal(h2.ID, h.ID) || !bytes.Equal(h2.Encode(), enc) {
			fail("block-id-unstable-under-reencoding", "NewBlockHeader(Encode()) = %v", err2)
		}
		return "ok " + corr.Hex(h.ID) + " " + corr.Hex(enc), fails, true
	}
	// newblock
	hdr, txs, assets, split := refSplit(b)
	blk, err := blockchain.NewBlock(b)
	if err != nil {
		// completeness: an envelope that splits canonically and whose every part is accepted by its own
		// entry point is a block
		if split {
			all := true
			if _, e := blockchain.NewBlockHeader(hdr); e != nil {
				all = false
			}
			for _, t := range txs {
				if _, e := blockchain.NewTransaction(t); e != nil {
					all = false
				}
			}
			for _, a := range assets {
				if _, e := blockchain.NewBlockAsset(a); e != nil {
					all = false
				}
			}
			if all {
				fail("newblock-rejects-acceptable-parts", "NewBlock: %v, but every part is accepted by its own entry point", err)
			}
		}
		return "err " + ErrName(err), fails, true
	}
	var ids [][]byte
	for _, t := range blk.Transactions {
		ids = append(ids, t.ID)
	}
	reenc := blk.Encode()
	var hid []byte
	if blk.Header != nil {
		hid = blk.Header.ID
	}
	res = "ok " + corr.Hex(hid) + " " + idList(ids) + " " + corr.Hex(reenc)
	if !split {
		fail("newblock-accepts-non-canonical-envelope", "accepted, but the bytes are not header, transactions, assets with shortest length prefixes and nothing else")
		return res, fails, true
	}
	if blk.Header == nil || len(blk.Transactions) != len(txs) || len(blk.Assets) != len(assets) {
		fail("newblock-element-count", "envelope has %d transactions and %d assets, block has %d and %d", len(txs), len(assets), len(blk.Transactions), len(blk.Assets))
		return res, fails, true
	}
	for k, t := range blk.Transactions {
		// the clause of the property: the ID is the hash of exactly the accepted bytes
		if !bytes.Equal(t.ID, sha(txs[k])) {
			fail("block-tx-id-not-hash-of-received-bytes", "transaction %d arrived as %x (hash %x) and got ID %x = hash of its re-encoding %x", k, txs[k], sha(txs[k]), []byte(t.ID), t.Encode())
		}
		if !bytes.Equal(t.Encode(), txs[k]) {
			fail("block-accepts-non-canonical-transaction", "transaction %d arrived as %x and re-encodes to %x", k, txs[k], t.Encode())
		}
		if _, e := blockchain.NewTransaction(txs[k]); e != nil {
			fail("block-accepts-transaction-rejected-alone", "transaction %d (%x): NewTransaction says %v", k, txs[k], e)
		}
		if t.Size() != len(txs[k]) {
			fail("block-tx-size-not-received-size", "transaction %d: Size() %d, received %d bytes", k, t.Size(), len(txs[k]))
		}
	}
	for k, a := range blk.Assets {
		if !bytes.Equal(a.Encode(), assets[k]) {
			fail("block-accepts-non-canonical-asset", "asset %d arrived as %x and re-encodes to %x", k, assets[k], a.Encode())
		}
	}
	henc := blk.Header.Encode()
	if !bytes.Equal(blk.Header.ID, sha(henc)) {
		fail("header-id-not-hash-of-encoding", "block header ID %x, hash of Encode() %x", []byte(blk.Header.ID), sha(henc))
	}
	if h, e := blockchain.NewBlockHeader(hdr); e != nil || !bytes.Equal(h.ID, blk.Header.ID) {
		fail("block-header-id-differs-from-NewBlockHeader", "NewBlockHeader on the header bytes: %v", e)
	}
	// re-encoding: the received bytes with the header in its own encoding; the received bytes
	// themselves when the header arrived canonical
	want := buildEnvelope(henc, txs, assets)
	if !bytes.Equal(reenc, want) {
		fail("block-reencode-differs-from-received", "received %x, re-encoded %x", b, reenc)
	}
	if blk2, e := blockchain.NewBlock(reenc); e != nil || !bytes.Equal(blk2.Header.ID, blk.Header.ID) || len(blk2.Transactions) != len(ids) {
		fail("block-id-unstable-under-reencoding", "NewBlock(Encode()): %v", e)
	} else {
		for k, t := range blk2.Transactions {
			if !bytes.Equal(t.ID, ids[k]) {
				fail("tx-id-unstable", "transaction %d after re-encoding the block", k)
			}
		}
	}
	return res, fails, true
}
