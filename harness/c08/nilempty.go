// Values that do NOT come from the decoders: "absent and empty fields identified". A Go value built by
// code (a transaction whose optional signature slot was never set, an event topic a module passed as
// nil, a raw block assembled from parts) may hold nil where a decoded value holds an empty non-nil byte
// string, and nil where a decoded value holds an empty array. The clause of the property checked here,
// model-free and for EVERY struct of the verif-tagged registry (reflection over the real types):
//
//   - replacing every empty byte string / empty array by nil, or every nil one by an empty non-nil one,
//     does not change Encode() by a single byte;
//   - inserting a nil element into a repeated bytes field gives the same bytes as inserting an empty
//     element at the same position, and those bytes decode to a value with the same number of elements
//     (the entry is not lost, later entries do not move).
//
// The oracle runs on the value of every successful `dec` op (c08.go) and on the objects of the `life`
// ops after every step (life.go: steps addsig=nil / setsig=<i>=nil|-|<hex> / set=5=nil / set=6=nil).
package c08

import (
	"bytes"
	"fmt"
	"reflect"
	"unsafe"

	"github.com/LiskHQ/lisk-engine/pkg/codec"
)

type neMode int

const (
	neToNil    neMode = iota // empty non-nil byte strings and arrays become nil
	neToEmpty                // nil byte strings and arrays become empty non-nil
	neInsNil                 // one nil element inserted into every repeated bytes field
	neInsEmpty               // one empty non-nil element inserted at the same positions
	neCount                  // no change: count only
)

type neWalker struct {
	mode    neMode
	sel     int // chooses the insertion position
	changed int // number of places changed
	elems   int // number of elements of repeated bytes fields (after the change)
	nilElem int // number of nil elements of repeated bytes fields (before the change)
	where   string
}

func isByteSlice(t reflect.Type) bool {
	return t.Kind() == reflect.Slice && t.Elem().Kind() == reflect.Uint8
}

func (w *neWalker) note(path string) {
	w.changed++
	if w.where == "" {
		w.where = path
	}
}

func (w *neWalker) walk(v reflect.Value, path string) {
	switch v.Kind() {
	case reflect.Ptr:
		if !v.IsNil() {
			w.walk(v.Elem(), path)
		}
	case reflect.Struct:
		t := v.Type()
		for i := 0; i < t.NumField(); i++ {
			if _, ok := t.Field(i).Tag.Lookup("fieldNumber"); !ok {
				continue // not part of the encoding (cached ID, size ...)
			}
			f := v.Field(i)
			if !f.CanSet() {
				if !f.CanAddr() {
					continue
				}
				f = reflect.NewAt(f.Type(), unsafe.Pointer(f.UnsafeAddr())).Elem()
			}
			w.walk(f, path+"."+t.Field(i).Name)
		}
	case reflect.Slice:
		t := v.Type()
		switch w.mode {
		case neToNil:
			if !v.IsNil() && v.Len() == 0 {
				v.Set(reflect.Zero(t))
				w.note(path)
			}
		case neToEmpty:
			if v.IsNil() {
				v.Set(reflect.MakeSlice(t, 0, 0))
				w.note(path)
			}
		}
		if isByteSlice(t) {
			return
		}
		if isByteSlice(t.Elem()) {
			for i := 0; i < v.Len(); i++ {
				if v.Index(i).IsNil() {
					w.nilElem++
				}
			}
			if w.mode == neInsNil || w.mode == neInsEmpty {
				pos := w.sel % (v.Len() + 1)
				w.sel = w.sel/3 + 1
				n := reflect.MakeSlice(t, 0, v.Len()+1)
				n = reflect.AppendSlice(n, v.Slice(0, pos))
				if w.mode == neInsNil {
					n = reflect.Append(n, reflect.Zero(t.Elem()))
				} else {
					n = reflect.Append(n, reflect.MakeSlice(t.Elem(), 0, 0))
				}
				n = reflect.AppendSlice(n, v.Slice(pos, v.Len()))
				v.Set(n)
				w.note(fmt.Sprintf("%s[%d of %d]", path, pos, v.Len()))
			}
			w.elems += v.Len()
		}
		for i := 0; i < v.Len(); i++ {
			w.walk(v.Index(i), fmt.Sprintf("%s[%d]", path, i))
		}
	}
}

func neApply(v interface{}, mode neMode, sel int) *neWalker {
	w := &neWalker{mode: mode, sel: sel}
	w.walk(reflect.ValueOf(v), "")
	return w
}

// nilEmptyOracle checks the clause on the value `name` decodes `b` to. It returns (signature, detail)
// of the first violation, or "".
func nilEmptyOracle(name string, b []byte) (sig, detail string) {
	mk, ok := codec.VerifRegistry[name]
	if !ok {
		return "", ""
	}
	defer func() {
		if r := recover(); r != nil {
			sig, detail = "c08-nil-element-encodes-differently", fmt.Sprintf("panic while encoding a value with nil in place of empty: %v", r)
		}
	}()
	fresh := func() codec.VerifCodec {
		v := mk()
		if v.Decode(b) != nil {
			return nil
		}
		return v
	}
	v0 := fresh()
	if v0 == nil {
		return "", ""
	}
	ref := v0.Encode()
	for _, mode := range []neMode{neToNil, neToEmpty} {
		v := fresh()
		w := neApply(v, mode, 0)
		if w.changed == 0 {
			continue
		}
		if enc := v.Encode(); !bytes.Equal(enc, ref) {
			what := map[neMode]string{neToNil: "every empty byte string / array replaced by nil", neToEmpty: "every nil byte string / array replaced by an empty one"}[mode]
			s := "c08-nil-field-encodes-differently"
			if len(enc) < len(ref) && mode == neToNil {
				s = "c08-nil-element-encodes-differently"
			}
			return s, fmt.Sprintf("%s decoded from %x, %s (%d places, first %s): Encode() = %x, before %x", name, b, what, w.changed, w.where, enc, ref)
		}
	}
	sel := len(b)
	for _, c := range b {
		sel = sel*31 + int(c)
	}
	if sel < 0 {
		sel = -sel
	}
	vn, ve := fresh(), fresh()
	wn := neApply(vn, neInsNil, sel)
	neApply(ve, neInsEmpty, sel)
	if wn.changed == 0 {
		return "", ""
	}
	en, ee := vn.Encode(), ve.Encode()
	if !bytes.Equal(en, ee) {
		return "c08-nil-element-encodes-differently", fmt.Sprintf("%s decoded from %x, one element inserted at %s: with a nil element Encode() = %x, with an empty element %x", name, b, wn.where, en, ee)
	}
	back := mk()
	if err := back.Decode(en); err != nil {
		return "c08-nil-element-encodes-differently", fmt.Sprintf("%s decoded from %x, a nil element inserted at %s: Encode() = %x is rejected by Decode: %v", name, b, wn.where, en, err)
	}
	if got := neApply(back, neCount, 0).elems; got != wn.elems {
		return "c08-nil-element-encodes-differently", fmt.Sprintf("%s decoded from %x, a nil element inserted at %s: the value has %d elements in its repeated bytes fields, Decode(Encode()) has %d", name, b, wn.where, wn.elems, got)
	}
	return "", ""
}

// nilEmptyObject checks the clause on a live object (whatever nil / empty entries it holds now): its
// encoding equals that of its twin with every nil entry replaced by an empty one, and decodes to the
// same number of elements. `twin` must return an independent deep copy that may be modified.
func nilEmptyObject(name string, cur codec.VerifCodec, twin codec.VerifCodec) (sig, detail string) {
	enc := cur.Encode()
	w := neApply(twin, neToEmpty, 0)
	if te := twin.Encode(); !bytes.Equal(te, enc) {
		return "c08-nil-element-encodes-differently", fmt.Sprintf("%s with nil entries (%d, first %s): Encode() = %x, with empty entries in their place %x", name, w.changed, w.where, enc, te)
	}
	mk, ok := codec.VerifRegistry[name]
	if !ok {
		return "", ""
	}
	back := mk()
	if err := back.Decode(enc); err != nil {
		return "", "" // e.g. invalid UTF-8 set by a step: not this oracle's business
	}
	have := neApply(cur, neCount, 0)
	if got := neApply(back, neCount, 0).elems; got != have.elems {
		return "c08-nil-element-encodes-differently", fmt.Sprintf("%s: the object has %d elements in its repeated bytes fields (%d nil), Decode(Encode()) has %d; Encode() = %x", name, have.elems, have.nilElem, got, enc)
	}
	return "", ""
}
