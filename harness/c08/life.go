// Identity of objects that do NOT come from bytes. Transaction and BlockHeader carry a cached ID (and
// size) next to their fields; `id` is also a JSON member, so the RPC endpoints postTransaction /
// postBlock (json.Unmarshal, then Init) receive whatever a client supplies. The ops below drive the
// real types through histories of
//
//	source: bytes (NewTransaction / NewBlockHeader) | lit (Decode, no Init) | json=<id|-> (json.Unmarshal
//	        of the object's JSON with the `id` member absent / right / wrong / short) | jsonsz (plus a `size` member)
//	steps:  init | copy | set=<fieldNumber>=<value> | addsig=<hex> | sign=<expected signature>=<chainID>=<seed>
//	        values that decoding never produces: addsig=nil (a nil element), setsig=<index>=nil|-|<hex> (an element
//	        replaced by nil / empty / bytes; no-op beyond the end), set=<bytes field>=nil (a nil byte string)
//
// and print, after the source and after every step, <cached ID>/<Size()>/<hash of Encode()>; the Lean
// model (Model/CodecLife.lean, Driver/CodecLife.lean) prints the same. Model-free oracle = the clause
// of the property: after Init / Sign / a constructor the ID is the hash of exactly Encode() and
// Size() its length — whatever the cache held before (client id, stale id after a change, copied id).
package c08

import (
	"bytes"
	"crypto/ed25519"
	"crypto/sha256"
	"encoding/hex"
	"encoding/json"
	"fmt"
	"math/rand"
	"strconv"
	"strings"

	"github.com/LiskHQ/lisk-engine/pkg/blockchain"
	"github.com/LiskHQ/lisk-engine/pkg/codec"

	"verifharness/corr"
)

// ---------------------------------------------------------------------------------------------
// reference header (generator side): own field record and own encoder, independent of pkg/blockchain

type refHdr struct {
	u32  map[int]uint32 // 1,2,3,10,11
	b    map[int][]byte // 4..9,13,15
	flag bool           // 12
	acH  uint32         // 14.1
	acB  []byte         // 14.2
	acS  []byte         // 14.3
}

func (h *refHdr) enc(withSig bool) []byte {
	var out []byte
	kv := func(num int, v uint64) { out = append(append(out, uvarint(uint64(num<<3))...), uvarint(v)...) }
	kb := func(num int, b []byte) {
		out = append(append(append(out, uvarint(uint64(num<<3|2))...), uvarint(uint64(len(b)))...), b...)
	}
	for n := 1; n <= 15; n++ {
		switch n {
		case 1, 2, 3, 10, 11:
			kv(n, uint64(h.u32[n]))
		case 12:
			v := uint64(0)
			if h.flag {
				v = 1
			}
			kv(n, v)
		case 14:
			var ac []byte
			ac = append(append(ac, 0x08), uvarint(uint64(h.acH))...)
			ac = append(append(append(ac, 0x12), uvarint(uint64(len(h.acB)))...), h.acB...)
			ac = append(append(append(ac, 0x1a), uvarint(uint64(len(h.acS)))...), h.acS...)
			kb(n, ac)
		case 15:
			if withSig {
				kb(n, h.b[n])
			}
		default:
			kb(n, h.b[n])
		}
	}
	return out
}

func rbytes(rng *rand.Rand, n int) []byte {
	b := make([]byte, n)
	rng.Read(b)
	return b
}

func genRefHdr(rng *rand.Rand) *refHdr {
	h := &refHdr{u32: map[int]uint32{}, b: map[int][]byte{}}
	for _, n := range []int{1, 2, 3, 10, 11} {
		h.u32[n] = uint32(genUint(rng, 32))
	}
	for _, n := range []int{4, 6, 7, 8, 9, 13} {
		h.b[n] = rbytes(rng, 32)
	}
	h.b[5] = rbytes(rng, 20) // generatorAddress: a Lisk32 address in JSON
	h.b[15] = rbytes(rng, 64)
	if rng.Intn(4) == 0 {
		h.b[15] = []byte{}
	}
	h.flag = rng.Intn(2) == 0
	h.acH = uint32(genUint(rng, 32))
	h.acB = rbytes(rng, rng.Intn(3))
	h.acS = rbytes(rng, []int{0, 96}[rng.Intn(2)])
	return h
}

func idSpec(rng *rand.Rand, enc []byte) string {
	switch rng.Intn(5) {
	case 0:
		return "-" // no `id` member
	case 1:
		return corr.Hex(sha(enc)) // the right one
	case 2:
		return corr.Hex(rbytes(rng, 32)) // a wrong one of the right length
	case 3:
		return corr.Hex(sha(append([]byte{1}, enc...))) // the ID of another object
	}
	return corr.Hex(rbytes(rng, 1+rng.Intn(4))) // short
}

func genSource(rng *rand.Rand, enc []byte) string {
	switch rng.Intn(10) {
	case 0, 1:
		return "bytes"
	case 2:
		return "lit"
	case 3:
		return "jsonsz=" + idSpec(rng, enc)
	}
	return "json=" + idSpec(rng, enc)
}

func genLifeCases(rng *rand.Rand, tier string) []corr.Case {
	n := 40
	if tier == "thorough" {
		n = 3000
	}
	txs := ByName["blockchain.Transaction"]
	var cases []corr.Case
	for c := 0; c < n; c++ {
		ops := []string{"reset"}
		for j := 0; j < 4; j++ {
			// --- transaction
			enc := GenEncoding(rng, txs, 0, true)
			w := []string{"life", "tx", corr.Hex(enc), genSource(rng, enc)}
			for k, m := 0, 1+rng.Intn(6); k < m; k++ {
				switch rng.Intn(10) {
				case 0, 1, 2:
					w = append(w, "init")
				case 3:
					w = append(w, "copy")
				case 4:
					w = append(w, fmt.Sprintf("set=3=%d", genUint(rng, 64)))
				case 5:
					w = append(w, fmt.Sprintf("set=4=%d", genUint(rng, 64)))
				case 6:
					w = append(w, fmt.Sprintf("set=%d=%s", 1+rng.Intn(2), corr.Hex(genString(rng))))
				case 7:
					w = append(w, fmt.Sprintf("set=%d=%s", 5+rng.Intn(2), corr.Hex(genBytes(rng))))
				case 8:
					w = append(w, "addsig="+corr.Hex(rbytes(rng, 64)))
				default:
					// nil where a decoded value has empty bytes: elements of the signatures array (the unset slot of an
					// optional key) and the bytes fields, next to / between real entries
					switch rng.Intn(6) {
					case 0:
						w = append(w, "addsig=nil", "addsig="+corr.Hex(rbytes(rng, 64)))
					case 1:
						w = append(w, "addsig=-")
					case 2:
						w = append(w, "addsig="+corr.Hex(rbytes(rng, 64)), "addsig=nil")
					case 3:
						w = append(w, fmt.Sprintf("set=%d=nil", 5+rng.Intn(2)))
					default:
						w = append(w, fmt.Sprintf("setsig=%d=%s", rng.Intn(3), []string{"nil", "nil", "-", corr.Hex(rbytes(rng, 64))}[rng.Intn(4)]))
					}
				}
			}
			if rng.Intn(5) > 0 {
				w = append(w, "init")
				if rng.Intn(4) == 0 {
					w = append(w, "init")
				}
			}
			ops = append(ops, strings.Join(w, " "))
		}
		for j := 0; j < 2; j++ {
			// --- block header
			h := genRefHdr(rng)
			enc := h.enc(true)
			w := []string{"life", "hdr", corr.Hex(enc), genSource(rng, enc)}
			for k, m := 0, 1+rng.Intn(5); k < m; k++ {
				switch rng.Intn(8) {
				case 0, 1:
					w = append(w, "init")
				case 2, 3:
					f := []int{1, 2, 3, 10, 11}[rng.Intn(5)]
					h.u32[f] = uint32(genUint(rng, 32))
					w = append(w, fmt.Sprintf("set=%d=%d", f, h.u32[f]))
				case 4:
					f := []int{6, 7, 8, 9, 13}[rng.Intn(5)]
					h.b[f] = rbytes(rng, 32)
					if rng.Intn(4) == 0 {
						h.b[f] = nil // a nil byte string: encodes as the empty one
						w = append(w, fmt.Sprintf("set=%d=nil", f))
						break
					}
					w = append(w, fmt.Sprintf("set=%d=%s", f, corr.Hex(h.b[f])))
				case 5:
					h.flag = !h.flag
					w = append(w, fmt.Sprintf("set=12=%d", map[bool]int{false: 0, true: 1}[h.flag]))
				default:
					// Sign: reference signature over tag ‖ chainID ‖ (fields 1..14), computed here with the
					// standard library from the generator's own field record
					chainID := rbytes(rng, 4)
					seed := rbytes(rng, 32)
					msg := sha(append(append([]byte("LSK_BH_"), chainID...), h.enc(false)...))
					sig := ed25519.Sign(ed25519.NewKeyFromSeed(seed), msg)
					h.b[15] = sig
					w = append(w, fmt.Sprintf("sign=%s=%s=%s", corr.Hex(sig), corr.Hex(chainID), corr.Hex(seed)))
				}
			}
			if rng.Intn(4) > 0 {
				w = append(w, "init")
			}
			ops = append(ops, strings.Join(w, " "))
		}
		// --- a block posted as JSON, then Block.Init
		{
			h := genRefHdr(rng)
			henc := h.enc(true)
			var parts []string
			for i, m := 0, rng.Intn(4); i < m; i++ {
				e := GenEncoding(rng, txs, 0, true)
				parts = append(parts, corr.Hex(e)+":"+idSpec(rng, e))
			}
			tx := "-"
			if len(parts) > 0 {
				tx = strings.Join(parts, ",")
			}
			ops = append(ops, fmt.Sprintf("blkjson %s %s %s", corr.Hex(henc), idSpec(rng, henc), tx))
		}
		cases = append(cases, corr.Case{Ops: ops, Tag: "life"})
	}
	return cases
}

// ---------------------------------------------------------------------------------------------
// runner

// withID returns the JSON object with its `id` member removed ("-") or replaced, and optionally a
// `size` member added.
func withID(obj []byte, spec string, addSize bool) ([]byte, error) {
	m := map[string]json.RawMessage{}
	if err := json.Unmarshal(obj, &m); err != nil {
		return nil, err
	}
	if spec == "-" {
		delete(m, "id")
	} else {
		m["id"] = json.RawMessage(strconv.Quote(hex.EncodeToString(corr.UnHex(spec))))
	}
	if addSize {
		m["size"] = json.RawMessage("7")
	}
	return json.Marshal(m)
}

func h8(b []byte) string { s := sha256.Sum256(b); return corr.Hex(s[:8]) }

type lifeObj struct {
	tx  *blockchain.Transaction
	hdr *blockchain.BlockHeader
}

func (o *lifeObj) encode() []byte {
	if o.tx != nil {
		return o.tx.Encode()
	}
	return o.hdr.Encode()
}

// nilEmpty: the object encodes exactly like its twin with empty entries in place of nil ones and decodes to the
// same number of array elements (nilempty.go).
func (o *lifeObj) nilEmpty() (sig, detail string) {
	if o.tx != nil {
		t := o.tx
		tw := &blockchain.Transaction{Module: t.Module, Command: t.Command, Nonce: t.Nonce, Fee: t.Fee,
			SenderPublicKey: append([]byte{}, t.SenderPublicKey...), Params: append([]byte{}, t.Params...)}
		if t.Signatures != nil {
			tw.Signatures = []codec.Hex{}
		}
		for _, sg := range t.Signatures {
			tw.Signatures = append(tw.Signatures, append([]byte{}, sg...))
		}
		return nilEmptyObject("blockchain.Transaction", t, tw)
	}
	cp := *o.hdr
	if cp.AggregateCommit != nil {
		ac := *cp.AggregateCommit
		cp.AggregateCommit = &ac
	}
	return nilEmptyObject("blockchain.BlockHeader", o.hdr, &cp)
}

func (o *lifeObj) show() string {
	if o.tx != nil {
		return fmt.Sprintf("%s/%d/%s", corr.Hex(o.tx.ID), o.tx.Size(), h8(o.tx.Encode()))
	}
	return fmt.Sprintf("%s/0/%s", corr.Hex(o.hdr.ID), h8(o.hdr.Encode()))
}

// runLife executes `life` and `blkjson` ops; handled=false for other ops.
func runLife(i int, op string, w []string) (res string, fails []corr.Fail, handled bool) {
	if w[0] != "life" && w[0] != "blkjson" {
		return "", nil, false
	}
	handled = true
	fail := func(sig, format string, a ...interface{}) {
		fails = append(fails, corr.Fail{Sig: sig, Detail: op + ": " + fmt.Sprintf(format, a...), Op: i})
	}
	defer func() {
		if r := recover(); r != nil {
			res = "err panic"
			fail("c08-life-panics", "%v", r)
		}
	}()
	// the clause of the property, checked after Init / Sign / a constructor
	checkTx := func(tx *blockchain.Transaction, after string) {
		enc := tx.Encode()
		if tx.Size() != len(enc) {
			fail("c08-size-not-encoding-length-after-init", "transaction after %s: Size() %d, len(Encode()) %d", after, tx.Size(), len(enc))
		}
		if !bytes.Equal(tx.ID, sha(enc)) {
			fail("c08-id-not-hash-of-encoding-after-init", "transaction after %s: ID %x, hash of Encode() %x", after, []byte(tx.ID), sha(enc))
		} else if tx2, err := blockchain.NewTransaction(enc); err != nil || !bytes.Equal(tx2.ID, tx.ID) {
			fail("c08-id-changes-on-reencoding", "transaction after %s: NewTransaction(Encode()) gives ID %x, object has %x (%v)", after, idOf(tx2), []byte(tx.ID), err)
		}
		if fz, ok := tx.Freeze().(interface{ ID() []byte }); ok && !bytes.Equal(fz.ID(), tx.ID) {
			fail("c08-frozen-id-differs", "transaction after %s", after)
		}
	}
	checkHdr := func(h *blockchain.BlockHeader, after string) {
		enc := h.Encode()
		if !bytes.Equal(h.ID, sha(enc)) {
			fail("c08-id-not-hash-of-encoding-after-init", "block header after %s: ID %x, hash of Encode() %x", after, []byte(h.ID), sha(enc))
		} else if h2, err := blockchain.NewBlockHeader(enc); err != nil || !bytes.Equal(h2.ID, h.ID) {
			fail("c08-id-changes-on-reencoding", "block header after %s: NewBlockHeader(Encode()) differs (%v)", after, err)
		}
	}
	if w[0] == "blkjson" {
		if len(w) != 4 {
			return "bad-op", fails, true
		}
		henc := corr.UnHex(w[1])
		th := &blockchain.BlockHeader{}
		if err := th.Decode(henc); err != nil {
			return "err " + ErrName(err), fails, true
		}
		tmp := &blockchain.Block{Header: th, Transactions: []*blockchain.Transaction{}, Assets: []*blockchain.BlockAsset{}}
		var txEnc [][]byte
		var txIDs []string
		if w[3] != "-" {
			for _, p := range strings.Split(w[3], ",") {
				q := strings.Split(p, ":")
				t := &blockchain.Transaction{}
				if len(q) != 2 || t.Decode(corr.UnHex(q[0])) != nil {
					return "bad-op", fails, true
				}
				tmp.Transactions = append(tmp.Transactions, t)
				txEnc = append(txEnc, corr.UnHex(q[0]))
				txIDs = append(txIDs, q[1])
			}
		}
		js, err := json.Marshal(tmp)
		if err != nil {
			return "bad-op", fails, true
		}
		top := map[string]json.RawMessage{}
		var jtxs []json.RawMessage
		if json.Unmarshal(js, &top) != nil || json.Unmarshal(top["transactions"], &jtxs) != nil {
			return "bad-op", fails, true
		}
		if top["header"], err = withID(top["header"], w[2], false); err != nil {
			return "bad-op", fails, true
		}
		for k := range jtxs {
			if jtxs[k], err = withID(jtxs[k], txIDs[k], k%2 == 1); err != nil {
				return "bad-op", fails, true
			}
		}
		top["transactions"], _ = json.Marshal(jtxs)
		js, _ = json.Marshal(top)
		blk := &blockchain.Block{}
		if err := json.Unmarshal(js, blk); err != nil {
			fail("c08-json-rejected", "json.Unmarshal of a marshalled block: %v", err)
			return "err json", fails, true
		}
		blk.Init() // the postBlock endpoint
		if !bytes.Equal(blk.Header.Encode(), henc) || len(blk.Transactions) != len(txEnc) {
			fail("c08-json-roundtrip-changes-fields", "header re-encodes to %x", blk.Header.Encode())
		}
		checkHdr(blk.Header, "json.Unmarshal(Block) + Block.Init")
		var parts []string
		for k, t := range blk.Transactions {
			if !bytes.Equal(t.Encode(), txEnc[k]) {
				fail("c08-json-roundtrip-changes-fields", "transaction %d re-encodes to %x", k, t.Encode())
			}
			checkTx(t, fmt.Sprintf("json.Unmarshal(Block) + Block.Init (transaction %d)", k))
			parts = append(parts, fmt.Sprintf("%s/%d", corr.Hex(t.ID), t.Size()))
		}
		// storing the block and loading it again must not change any ID
		if b2, err := blockchain.NewBlock(blk.Encode()); err != nil || !bytes.Equal(b2.Header.ID, blk.Header.ID) {
			fail("c08-id-changes-on-reencoding", "NewBlock(Encode()) of the posted block: %v", err)
		} else {
			for k := range b2.Transactions {
				if !bytes.Equal(b2.Transactions[k].ID, blk.Transactions[k].ID) {
					fail("c08-id-changes-on-reencoding", "transaction %d of the posted block: %x after NewBlock(Encode()), %x before", k, []byte(b2.Transactions[k].ID), []byte(blk.Transactions[k].ID))
				}
			}
		}
		txs := "-"
		if len(parts) > 0 {
			txs = strings.Join(parts, ",")
		}
		return "ok " + corr.Hex(blk.Header.ID) + " " + txs, fails, true
	}
	// life <kind> <enc> <source> <steps...>
	if len(w) < 4 || (w[1] != "tx" && w[1] != "hdr") {
		return "bad-op", fails, true
	}
	isTx := w[1] == "tx"
	enc := corr.UnHex(w[2])
	o := &lifeObj{}
	src := strings.Split(w[3], "=")
	switch {
	case src[0] == "bytes" && isTx:
		tx, err := blockchain.NewTransaction(enc)
		if err != nil {
			return "err " + ErrName(err), fails, true
		}
		o.tx = tx
		checkTx(tx, "NewTransaction")
	case src[0] == "bytes":
		h, err := blockchain.NewBlockHeader(enc)
		if err != nil {
			return "err " + ErrName(err), fails, true
		}
		o.hdr = h
		checkHdr(h, "NewBlockHeader")
	case src[0] == "lit" || ((src[0] == "json" || src[0] == "jsonsz") && len(src) == 2):
		var tmp interface{ Encode() []byte }
		var err error
		if isTx {
			t := &blockchain.Transaction{}
			err, tmp, o.tx = t.Decode(enc), t, t
		} else {
			h := &blockchain.BlockHeader{}
			err, tmp, o.hdr = h.Decode(enc), h, h
		}
		if err != nil {
			return "err " + ErrName(err), fails, true
		}
		if src[0] == "lit" {
			break
		}
		js, err := json.Marshal(tmp)
		if err == nil {
			js, err = withID(js, src[1], src[0] == "jsonsz")
		}
		if err != nil {
			return "bad-op", fails, true
		}
		if isTx {
			o.tx = &blockchain.Transaction{}
			err = json.Unmarshal(js, o.tx)
		} else {
			o.hdr = &blockchain.BlockHeader{}
			err = json.Unmarshal(js, o.hdr)
		}
		if err != nil {
			fail("c08-json-rejected", "json.Unmarshal of the marshalled object: %v", err)
			return "err json", fails, true
		}
		if !bytes.Equal(o.encode(), enc) {
			fail("c08-json-roundtrip-changes-fields", "encoding after the JSON round trip %x", o.encode())
		}
	default:
		return "bad-op", fails, true
	}
	out := []string{"ok", o.show()}
	checkNil := func(after string) {
		if sig, d := o.nilEmpty(); sig != "" {
			fail(sig, "after %s: %s", after, d)
		}
	}
	checkNil("the source")
	var orig *blockchain.Transaction
	var origEnc []byte
	for _, st := range w[4:] {
		p := strings.Split(st, "=")
		switch {
		case p[0] == "init" && isTx:
			o.tx.Init()
			checkTx(o.tx, "Init")
		case p[0] == "init":
			o.hdr.Init()
			checkHdr(o.hdr, "Init")
		case p[0] == "copy" && isTx:
			c := o.tx.Copy()
			if !bytes.Equal(c.ID, o.tx.ID) || c.Size() != o.tx.Size() || !bytes.Equal(c.Encode(), o.tx.Encode()) {
				fail("c08-copy-differs", "Copy(): ID %x size %d, original %x %d", []byte(c.ID), c.Size(), []byte(o.tx.ID), o.tx.Size())
			}
			if orig == nil {
				orig, origEnc = o.tx, o.tx.Encode()
			}
			o.tx = c
		case p[0] == "set" && len(p) == 3 && isTx:
			switch p[1] {
			case "1":
				o.tx.Module = string(corr.UnHex(p[2]))
			case "2":
				o.tx.Command = string(corr.UnHex(p[2]))
			case "3":
				o.tx.Nonce, _ = strconv.ParseUint(p[2], 10, 64)
			case "4":
				o.tx.Fee, _ = strconv.ParseUint(p[2], 10, 64)
			case "5":
				o.tx.SenderPublicKey = unhexNil(p[2])
			case "6":
				o.tx.Params = unhexNil(p[2])
			default:
				return "bad-op", fails, true
			}
		case p[0] == "set" && len(p) == 3:
			u, _ := strconv.ParseUint(p[2], 10, 32)
			switch p[1] {
			case "1":
				o.hdr.Version = uint32(u)
			case "2":
				o.hdr.Timestamp = uint32(u)
			case "3":
				o.hdr.Height = uint32(u)
			case "10":
				o.hdr.MaxHeightPrevoted = uint32(u)
			case "11":
				o.hdr.MaxHeightGenerated = uint32(u)
			case "6":
				o.hdr.TransactionRoot = unhexNil(p[2])
			case "7":
				o.hdr.AssetRoot = unhexNil(p[2])
			case "8":
				o.hdr.EventRoot = unhexNil(p[2])
			case "9":
				o.hdr.StateRoot = unhexNil(p[2])
			case "13":
				o.hdr.ValidatorsHash = unhexNil(p[2])
			case "12":
				o.hdr.ImpliesMaxPrevotes = p[2] == "1"
			default:
				return "bad-op", fails, true
			}
		case p[0] == "addsig" && len(p) == 2 && isTx:
			o.tx.Signatures = append(o.tx.Signatures, unhexNil(p[1]))
		case p[0] == "setsig" && len(p) == 3 && isTx:
			if k, err := strconv.Atoi(p[1]); err != nil {
				return "bad-op", fails, true
			} else if k < len(o.tx.Signatures) {
				o.tx.Signatures[k] = unhexNil(p[2])
			}
		case p[0] == "sign" && len(p) == 4 && !isTx:
			o.hdr.Sign(corr.UnHex(p[2]), ed25519.NewKeyFromSeed(corr.UnHex(p[3])))
			if !bytes.Equal(o.hdr.Signature, corr.UnHex(p[1])) {
				fail("c08-header-sign-signature-differs", "Sign produced %x, reference signature over tag, chain id and fields 1..14: %s", []byte(o.hdr.Signature), p[1])
			}
			checkHdr(o.hdr, "Sign")
		default:
			return "bad-op", fails, true
		}
		out = append(out, o.show())
		checkNil(st)
	}
	if orig != nil && !bytes.Equal(orig.Encode(), origEnc) {
		fail("c08-copy-aliases-original", "the original re-encodes to %x after the copy was changed, before %x", orig.Encode(), origEnc)
	}
	return strings.Join(out, " "), fails, true
}

// unhexNil: "nil" is the nil byte string, "-" the empty non-nil one.
func unhexNil(s string) []byte {
	if s == "nil" {
		return nil
	}
	return corr.UnHex(s)
}

func idOf(tx *blockchain.Transaction) []byte {
	if tx == nil {
		return nil
	}
	return tx.ID
}
