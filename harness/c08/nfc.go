// Pseudo-property "C08NFC" (run with C08 through `also`; own Lean driver Driver/CodecNFC.lean):
// strings beyond ASCII in EVERY generated codec that has a string field, directly or through nested
// messages (the list is computed from the regenerated schema table .build/schemas.json).
//
// The string generator produces valid UTF-8 that is NOT in NFC form, with normal forms that are
// shorter (e + U+0301, U+2126 OHM SIGN, U+212B, Hangul jamo L+V / L+V+T), longer (U+0958, U+0344,
// U+0F43, U+FB1D, U+1D15E) or of equal byte length (reordered marks, U+0340, U+F900, U+2000), strings
// that are non-ASCII but already normal, all of them alone, concatenated and mixed with ASCII, and
// padded so that the raw or the normalised byte length sits at the 127/128 and 16383/16384 length-prefix
// boundaries. `norm.NFC` of x/text (the harness's own call, independent of pkg/codec) supplies the
// normal form of every generated string; it travels with the op as a table raw:nfc, so that the Lean
// model - in which NFC is a parameter - runs with exactly that function: its encoding of a string
// field is key ++ varint(|nfc s|) ++ nfc s (Props/C08_NFC.lean).
//
//	enc <schema> <template> <raw:nfc,...>   encode path (Go value -> bytes). The template is a fully
//	        populated canonical encoding whose string fields hold placeholders 0x7f 'S' <i> 0x7f; both
//	        sides decode it, put string i of the table in place of placeholder i (Go: reflection over
//	        the string fields of the real struct; Lean: the fields of kind string of the schema), encode,
//	        and decode the result leniently and strictly.  Output: ok <bytes> | <lenient> | <strict>
//	nfd <schema> <encoding> <raw:nfc,...>   decode paths: a canonical encoding holding the raw strings
//	        themselves (length prefix = raw length), through Decode and DecodeStrict.
//
// Model-free oracles (the clauses of the property, none of them uses the model):
//   - Encode(v) is exactly the reference encoding of the value with every string replaced by its
//     normal form, written by the harness's own encoder (rewrite below): every length prefix is the
//     byte length of the payload that follows, nested lengths included;
//   - Encode(v) equals Encode(v') for the twin v' holding the normal forms (encoding is deterministic
//     up to NFC);
//   - Encode(v) is accepted by Decode and DecodeStrict, the decoded value holds exactly the normal
//     forms, and re-encodes to the same bytes;
//   - transaction / block IDs computed by Init over a value with raw strings are the IDs
//     NewTransaction / NewBlock compute from its encoding;
//   - decode paths: an encoding whose strings are all normal is accepted by both decoders and
//     re-encodes to itself; one that holds a string which is not normal is rejected by both.
package c08

import (
	"bytes"
	"errors"
	"fmt"
	"math/rand"
	"reflect"
	"sort"
	"strconv"
	"strings"
	"unicode/utf8"
	"unsafe"

	"golang.org/x/text/unicode/norm"

	"github.com/LiskHQ/lisk-engine/pkg/blockchain"
	"github.com/LiskHQ/lisk-engine/pkg/codec"

	"verifharness/corr"
)

type nfcProp struct{}

func init() { corr.Register(nfcProp{}) }

func (nfcProp) ID() string    { return "C08NFC" }
func (nfcProp) Parallel() int { return 8 }

// ---------------------------------------------------------------------------------------------
// reference walker over canonical encodings (harness's own; independent of pkg/codec)

var errRef = errors.New("not a canonical encoding of the schema")

// rewrite parses b as the fully written canonical encoding of schema s (what Encode produces: every
// single-valued field present, in order; absent nil pointers and empty arrays allowed) and returns the
// same encoding with every string payload p replaced by f(p), all enclosing length prefixes
// recomputed. Any deviation (wrong key, length overrunning its container, bytes left over) is an error.
func rewrite(s *Schema, b []byte, f func([]byte) []byte) ([]byte, error) {
	var out []byte
	p := 0
	peek := func(num, wt int) (int, bool) { // key of field num at p?
		k, n := readUv(b[p:])
		if n == 0 || k != uint64(num<<3|wt) {
			return 0, false
		}
		return n, true
	}
	lenPayload := func() ([]byte, bool) {
		l, n := readUv(b[p:])
		if n == 0 || uint64(len(b)-p-n) < l {
			return nil, false
		}
		pl := b[p+n : p+n+int(l)]
		p += n + int(l)
		return pl, true
	}
	put := func(num int, pl []byte) {
		out = append(append(append(out, uvarint(uint64(num<<3|2))...), uvarint(uint64(len(pl)))...), pl...)
	}
	for _, fd := range s.Enc {
		switch fd.Kind {
		case "uint", "uint32", "int32", "bool":
			n, ok := peek(fd.Num, 0)
			if !ok {
				return nil, errRef
			}
			_, m := readUv(b[p+n:])
			if m == 0 {
				return nil, errRef
			}
			out = append(out, b[p:p+n+m]...)
			p += n + m
		case "bytes", "string":
			n, ok := peek(fd.Num, 2)
			if !ok {
				return nil, errRef
			}
			p += n
			pl, ok := lenPayload()
			if !ok {
				return nil, errRef
			}
			if fd.Kind == "string" {
				pl = f(pl)
			}
			put(fd.Num, pl)
		case "uints":
			if n, ok := peek(fd.Num, 2); ok {
				p += n
				pl, ok := lenPayload()
				if !ok {
					return nil, errRef
				}
				put(fd.Num, pl)
			}
		case "bytesArr":
			for {
				n, ok := peek(fd.Num, 2)
				if !ok {
					break
				}
				p += n
				pl, ok := lenPayload()
				if !ok {
					return nil, errRef
				}
				put(fd.Num, pl)
			}
		case "msg", "msgArr":
			for {
				n, ok := peek(fd.Num, 2)
				if !ok {
					break
				}
				p += n
				pl, ok := lenPayload()
				if !ok || ByName[fd.Nested] == nil {
					return nil, errRef
				}
				sub, err := rewrite(ByName[fd.Nested], pl, f)
				if err != nil {
					return nil, err
				}
				put(fd.Num, sub)
				if fd.Kind == "msg" {
					break
				}
			}
		default:
			return nil, errRef
		}
	}
	if p != len(b) {
		return nil, errRef
	}
	return out, nil
}

// stringsOf lists the string payloads of a canonical encoding in encoding order.
func stringsOf(s *Schema, b []byte) ([][]byte, error) {
	var l [][]byte
	_, err := rewrite(s, b, func(p []byte) []byte { l = append(l, append([]byte{}, p...)); return p })
	return l, err
}

var hasStringMemo = map[string]bool{}

// hasString: the schema has a string field, directly or through nested messages.
func hasString(s *Schema, depth int) bool {
	if s == nil || depth > 8 {
		return false
	}
	for _, f := range s.Enc {
		if f.Kind == "string" {
			return true
		}
		if (f.Kind == "msg" || f.Kind == "msgArr") && hasString(ByName[f.Nested], depth+1) {
			return true
		}
	}
	return false
}

// ---------------------------------------------------------------------------------------------
// strings

// non-normal atoms; the class (shorter / longer / equal) is computed from x/text, not assumed
var nfcAtoms = []string{
	"e\u0301", "\u2126", "\u212b", "A\u030a", "\u1100\u1161", "\u1100\u1161\u11a8", "\u1112\u1175\u11c2", "o\u0302\u0301", "\u1f71", "\u1fbe", // shorter
	"\u0958", "\u0344", "\u0f43", "\ufb1d", "\U0001d15e", "\u095f", "\u0f73", "\u2adc", // longer
	"a\u0307\u0323", "\u0340", "\uf900", "\u2000", "q\u0307\u0323", "\u0341", // equal length
}

// non-ASCII strings that are their own normal form (normalised once more where they are used)
var nfcNormalAtoms = []string{"\u00e9", "\uac00", "\u00df", "\U0001F600", "z\u0335", "\u03a9", "\u0915\u093c", "q\u0323\u0307", "\u1ea1\u0307", "\u00c5", "\u05d9\u05b4", "\uac01\u1161"}

func asciiPad(rng *rand.Rand, n int) string {
	b := make([]byte, n)
	for i := range b {
		b[i] = byte('a' + rng.Intn(26))
	}
	return string(b)
}

// genNFCString returns one valid UTF-8 string; about 3 of 4 are not normal.
func genNFCString(rng *rand.Rand) string {
	atom := func() string { return nfcAtoms[rng.Intn(len(nfcAtoms))] }
	switch k := rng.Intn(12); {
	case k < 3:
		return atom()
	case k == 3:
		return nfcNormalAtoms[rng.Intn(len(nfcNormalAtoms))]
	case k == 4:
		return asciiPad(rng, 1+rng.Intn(4)) + nfcNormalAtoms[rng.Intn(len(nfcNormalAtoms))] + asciiPad(rng, rng.Intn(3))
	case k == 5:
		return asciiPad(rng, 1+rng.Intn(4)) + atom() + asciiPad(rng, rng.Intn(4))
	case k == 6:
		return atom() + atom()
	case k == 7:
		return atom() + string(rune('a'+rng.Intn(26))) + nfcNormalAtoms[rng.Intn(len(nfcNormalAtoms))] + " " + atom()
	case k == 8:
		// many atoms: the length difference accumulates
		var sb strings.Builder
		for i, n := 0, 2+rng.Intn(12); i < n; i++ {
			sb.WriteString(atom())
			if rng.Intn(3) == 0 {
				sb.WriteByte(byte('0' + rng.Intn(10)))
			}
		}
		return sb.String()
	}
	return genBoundaryString(rng, []int{127, 128})
}

// genBoundaryString: an atom (or two) padded so that the raw or the normalised byte length is one of the
// targets (127 / 128 / 16383 / 16384: the length prefix changes size between the two). ASCII padding
// after the atom does not interact with it: |nfc(t+pad)| = |nfc t| + |pad|.
func genBoundaryString(rng *rand.Rand, targets []int) string {
	t := nfcAtoms[rng.Intn(len(nfcAtoms))]
	if rng.Intn(3) == 0 {
		t += nfcAtoms[rng.Intn(len(nfcAtoms))]
	}
	target := targets[rng.Intn(len(targets))]
	base := len(t)
	if rng.Intn(2) == 0 {
		base = len(norm.NFC.String(t))
	}
	if target < base {
		return t
	}
	return t + asciiPad(rng, target-base)
}

func placeholder(i int) []byte { return []byte("\x7fS" + strconv.Itoa(i) + "\x7f") }

func placeholderIndex(p []byte) (int, bool) {
	if len(p) < 4 || p[0] != 0x7f || p[1] != 'S' || p[len(p)-1] != 0x7f {
		return 0, false
	}
	i, err := strconv.Atoi(string(p[2 : len(p)-1]))
	return i, err == nil && i >= 0
}

type nfcPair struct{ raw, nfc []byte }

func pairsArg(ps []nfcPair) string {
	parts := make([]string, len(ps))
	for i, p := range ps {
		parts[i] = corr.Hex(p.raw) + ":" + corr.Hex(p.nfc)
	}
	return strings.Join(parts, ",")
}

func parsePairs(s string) []nfcPair {
	var ps []nfcPair
	for _, part := range strings.Split(s, ",") {
		q := strings.Split(part, ":")
		if len(q) != 2 {
			return nil
		}
		ps = append(ps, nfcPair{corr.UnHex(q[0]), corr.UnHex(q[1])})
	}
	return ps
}

// genTemplate: a fully populated canonical encoding of s with placeholders in its string fields and the
// table of strings that take their places; wantHuge: the first string sits at the 16383/16384 boundary.
// ok=false if the value happens to hold no string.
func genTemplate(rng *rand.Rand, s *Schema, wantHuge bool, normalOnly bool) (tpl []byte, ps []nfcPair, ok bool) {
	for try := 0; try < 20; try++ {
		base := GenEncoding(rng, s, 0, true)
		ps = nil
		huge := false
		t, err := rewrite(s, base, func([]byte) []byte {
			if len(ps) > 0 && rng.Intn(4) == 0 {
				return placeholder(rng.Intn(len(ps))) // the same string again
			}
			var str string
			switch {
			case normalOnly:
				str = nfcNormalAtoms[rng.Intn(len(nfcNormalAtoms))]
				if rng.Intn(2) == 0 {
					str = asciiPad(rng, rng.Intn(4)) + str + asciiPad(rng, rng.Intn(130))
				}
				str = norm.NFC.String(str)
			case wantHuge && !huge:
				str = genBoundaryString(rng, []int{16383, 16384})
				huge = true
			case rng.Intn(6) == 0:
				str = string(genString(rng)) // plain ASCII next to the others
			default:
				str = genNFCString(rng)
			}
			if str == "" {
				str = "x"
			}
			ps = append(ps, nfcPair{[]byte(str), []byte(norm.NFC.String(str))})
			return placeholder(len(ps) - 1)
		})
		if err == nil && len(ps) > 0 {
			return t, ps, true
		}
	}
	return nil, nil, false
}

func (nfcProp) Generate(rng *rand.Rand, tier string) []corr.Case {
	LoadSchemas()
	nEnc, nDec := 10, 5
	if tier == "thorough" {
		nEnc, nDec = 400, 150
	}
	var cases []corr.Case
	first := true
	for _, s := range Schemas {
		if !hasString(s, 0) {
			continue
		}
		// the 16383/16384 boundary (ops of ~100 kB) runs for every schema at the thorough tier, for the first
		// and about a quarter of the others at the quick tier; it gets a case of its own
		huge := tier == "thorough" || first || rng.Intn(4) == 0
		first = false
		ops := []string{"reset"}
		bigOps := []string{"reset"}
		for i := 0; i < nEnc; i++ {
			big := huge && i%40 == 1
			if tpl, ps, ok := genTemplate(rng, s, big, false); ok {
				op := fmt.Sprintf("enc %s %s %s", s.Name, corr.Hex(tpl), pairsArg(ps))
				if len(op) > 20000 {
					bigOps = append(bigOps, op)
				} else {
					ops = append(ops, op)
				}
			}
		}
		for i := 0; i < nDec; i++ {
			// decode paths: the raw strings themselves on the wire; every third encoding holds normal strings only
			tpl, ps, ok := genTemplate(rng, s, huge && i%40 == 1, i%3 == 0)
			if !ok {
				continue
			}
			enc, err := rewrite(s, tpl, func(p []byte) []byte {
				if k, ok := placeholderIndex(p); ok && k < len(ps) {
					return ps[k].raw
				}
				return p
			})
			if err == nil {
				op := fmt.Sprintf("nfd %s %s %s", s.Name, corr.Hex(enc), pairsArg(ps))
				if len(op) > 20000 {
					bigOps = append(bigOps, op)
				} else {
					ops = append(ops, op)
				}
			}
		}
		cases = append(cases, corr.Case{Ops: ops, Tag: "nfc"})
		for k := 1; k < len(bigOps); k += 4 {
			cases = append(cases, corr.Case{Ops: append([]string{"reset"}, bigOps[k:min(k+4, len(bigOps))]...), Tag: "nfc-16k"})
		}
	}
	return cases
}

// ---------------------------------------------------------------------------------------------
// runner

// mapStrings applies f to every string field that is part of the encoding (reflection over the real
// struct, fields with a fieldNumber tag) and returns the strings found (before f), in walk order.
func mapStrings(v reflect.Value, f func(string) string, acc *[]string) {
	switch v.Kind() {
	case reflect.Ptr, reflect.Interface:
		if !v.IsNil() {
			mapStrings(v.Elem(), f, acc)
		}
	case reflect.Struct:
		t := v.Type()
		for i := 0; i < t.NumField(); i++ {
			if _, ok := t.Field(i).Tag.Lookup("fieldNumber"); !ok {
				continue
			}
			fv := v.Field(i)
			if !fv.CanSet() {
				if !fv.CanAddr() {
					continue
				}
				fv = reflect.NewAt(fv.Type(), unsafe.Pointer(fv.UnsafeAddr())).Elem()
			}
			mapStrings(fv, f, acc)
		}
	case reflect.Slice:
		if v.Type().Elem().Kind() == reflect.Uint8 {
			return
		}
		for i := 0; i < v.Len(); i++ {
			mapStrings(v.Index(i), f, acc)
		}
	case reflect.String:
		*acc = append(*acc, v.String())
		if f != nil {
			v.SetString(f(v.String()))
		}
	}
}

func short(b []byte) string {
	if len(b) > 120 {
		return fmt.Sprintf("%x..(%d bytes)", b[:100], len(b))
	}
	return fmt.Sprintf("%x", b)
}

func (nfcProp) RunImpl(c corr.Case) ([]string, []corr.Fail) {
	LoadSchemas()
	out := make([]string, 0, len(c.Ops))
	var fails []corr.Fail
	for i, op := range c.Ops {
		w := strings.Fields(op)
		switch {
		case w[0] == "reset":
			out = append(out, "ok")
		case w[0] == "enc" && len(w) == 4:
			r, fs := runNFCEnc(i, op, w)
			out = append(out, r)
			fails = append(fails, fs...)
		case w[0] == "nfd" && len(w) == 4:
			r, fs := runNFCDec(i, op, w)
			out = append(out, r)
			fails = append(fails, fs...)
		default:
			out = append(out, "bad-op")
		}
	}
	// one failure per signature and case is enough (every op of a case exercises the same codec)
	seen := map[string]bool{}
	kept := fails[:0]
	for _, f := range fails {
		if !seen[f.Sig] {
			seen[f.Sig] = true
			kept = append(kept, f)
		}
	}
	return out, kept
}

func opHead(w []string) string {
	a := w[2]
	if len(a) > 160 {
		a = a[:160] + "..."
	}
	t := w[3]
	if len(t) > 400 {
		t = t[:400] + "..."
	}
	return w[0] + " " + w[1] + " " + a + " " + t
}

func runNFCEnc(i int, op string, w []string) (res string, fails []corr.Fail) {
	name, tpl, ps := w[1], corr.UnHex(w[2]), parsePairs(w[3])
	fail := func(sig, format string, a ...interface{}) {
		fails = append(fails, corr.Fail{Sig: sig, Detail: opHead(w) + ": " + fmt.Sprintf(format, a...), Op: i})
	}
	defer func() {
		if r := recover(); r != nil {
			res = "err panic"
			fail("c08-nfc-encode-panics", "%v", r)
		}
	}()
	mk, ok := codec.VerifRegistry[name]
	s := ByName[name]
	if !ok || s == nil || ps == nil {
		return "bad-op", nil
	}
	build := func(pick func(nfcPair) []byte) (codec.VerifCodec, []string, error) {
		v := mk()
		if err := v.Decode(tpl); err != nil {
			return nil, nil, err
		}
		var before []string
		mapStrings(reflect.ValueOf(v), func(x string) string {
			if k, ok := placeholderIndex([]byte(x)); ok && k < len(ps) {
				return string(pick(ps[k]))
			}
			return x
		}, &before)
		return v, before, nil
	}
	v, _, err := build(func(p nfcPair) []byte { return p.raw })
	if err != nil {
		return "err " + ErrName(err), nil
	}
	enc := v.Encode()
	r := Decode1(name, enc, false)
	rs := Decode1(name, enc, true)
	res = "ok " + corr.Hex(enc) + " | " + r + " | " + rs

	toNFC := func(p []byte) []byte {
		if k, ok := placeholderIndex(p); ok && k < len(ps) {
			return ps[k].nfc
		}
		return p
	}
	// oracle: Encode(v) is the reference encoding of the value with normal forms in place of its strings
	want, err := rewrite(s, tpl, toNFC)
	if err != nil {
		return res, nil // not one of the generator's templates
	}
	if !bytes.Equal(enc, want) {
		detail := fmt.Sprintf("Encode() = %s, reference encoding of the normal forms (every length prefix = byte length of its payload) = %s", short(enc), short(want))
		if got, err := stringsOf(s, enc); err != nil {
			detail += "; Encode() does not parse as an encoding of the schema: a length prefix differs from the length of the payload that follows"
		} else {
			wantStr, _ := stringsOf(s, want)
			for k := range got {
				if k < len(wantStr) && !bytes.Equal(got[k], wantStr[k]) {
					detail += fmt.Sprintf("; string %d on the wire is %s, normal form %s", k, short(got[k]), short(wantStr[k]))
					break
				}
			}
		}
		fail("c08-nfc-string-field-not-length-prefixed-normal-form", "%s", detail)
	}
	// oracle: encoding is deterministic up to NFC - the twin holding the normal forms encodes to the same bytes
	twin, _, err := build(func(p nfcPair) []byte { return p.nfc })
	if err == nil {
		if te := twin.Encode(); !bytes.Equal(te, enc) {
			fail("c08-nfc-encoding-differs-from-encoding-of-normal-form", "Encode() of the value = %s, of the same value with every string normalised = %s", short(enc), short(te))
		}
	}
	// oracle: Encode(v) decodes (lenient and strict) to a value whose strings are the normal forms and re-encodes to the same bytes
	if !strings.HasPrefix(r, "ok ") || !strings.HasPrefix(rs, "ok ") {
		fail("c08-nfc-own-encoding-rejected", "Encode() = %s: Decode %s, DecodeStrict %s", short(enc), r[:min(len(r), 60)], rs[:min(len(rs), 60)])
	} else {
		if r != "ok "+corr.Hex(enc) || rs != "ok "+corr.Hex(enc) {
			fail("c08-nfc-reencode-differs", "Encode() = %s, Encode(Decode(.)) = %s, Encode(DecodeStrict(.)) = %s", short(enc), short(corr.UnHex(r[3:])), short(corr.UnHex(rs[3:])))
		}
		if twin != nil {
			var wantStrs, gotL, gotS []string
			mapStrings(reflect.ValueOf(twin), nil, &wantStrs)
			bl, bs := mk(), mk()
			if bl.Decode(enc) == nil && bs.DecodeStrict(enc) == nil {
				mapStrings(reflect.ValueOf(bl), nil, &gotL)
				mapStrings(reflect.ValueOf(bs), nil, &gotS)
				if !reflect.DeepEqual(gotL, wantStrs) || !reflect.DeepEqual(gotS, wantStrs) {
					fail("c08-nfc-decoded-strings-not-normal-form", "strings after Decode(Encode(v)) %q, after DecodeStrict %q, normal forms of the strings of v %q", gotL, gotS, wantStrs)
				}
			}
		}
	}
	// oracle: IDs computed over a value with raw strings are the IDs of its encoding
	switch x := v.(type) {
	case *blockchain.Transaction:
		x.Init()
		tx2, err := blockchain.NewTransaction(enc)
		if !bytes.Equal(x.ID, sha(enc)) || err != nil || !bytes.Equal(tx2.ID, x.ID) {
			fail("c08-nfc-tx-id-unstable", "Init() gives ID %x over Encode() = %s; NewTransaction(Encode()): %v, ID %x", []byte(x.ID), short(enc), err, idOf(tx2))
		}
	case *blockchain.Block:
		if x.Header != nil {
			x.Init()
			b2, err := blockchain.NewBlock(enc)
			bad := err != nil || !bytes.Equal(b2.Header.ID, x.Header.ID) || len(b2.Transactions) != len(x.Transactions)
			for k := 0; !bad && k < len(x.Transactions); k++ {
				bad = !bytes.Equal(b2.Transactions[k].ID, x.Transactions[k].ID)
			}
			if bad {
				fail("c08-nfc-block-id-unstable", "Block.Init() then NewBlock(Encode()): %v (header or transaction IDs differ); Encode() = %s", err, short(enc))
			}
		}
	}
	return res, fails
}

func runNFCDec(i int, op string, w []string) (res string, fails []corr.Fail) {
	name, b, ps := w[1], corr.UnHex(w[2]), parsePairs(w[3])
	s := ByName[name]
	if s == nil || ps == nil {
		return "bad-op", nil
	}
	r := Decode1(name, b, false)
	rs := Decode1(name, b, true)
	res = r + " " + rs
	strs, err := stringsOf(s, b)
	if err != nil {
		return res, nil
	}
	allNormal := true
	for _, x := range strs {
		if !utf8.Valid(x) {
			return res, nil
		}
		if !norm.NFC.IsNormal(x) {
			allNormal = false
		}
	}
	if allNormal && (r != "ok "+corr.Hex(b) || rs != "ok "+corr.Hex(b)) {
		fails = append(fails, corr.Fail{Sig: "c08-nfc-normal-strings-not-roundtripped", Detail: fmt.Sprintf("%s: every string is in NFC form; lenient %s strict %s", opHead(w), r[:min(len(r), 80)], rs[:min(len(rs), 80)]), Op: i})
	}
	if !allNormal && (strings.HasPrefix(r, "ok ") || strings.HasPrefix(rs, "ok ")) {
		fails = append(fails, corr.Fail{Sig: "c08-nfc-non-normal-string-accepted", Detail: fmt.Sprintf("%s: lenient %s strict %s", opHead(w), r[:min(len(r), 80)], rs[:min(len(rs), 80)]), Op: i})
	}
	if r == "err panic" || rs == "err panic" {
		fails = append(fails, corr.Fail{Sig: "decode-panics", Detail: opHead(w), Op: i})
	}
	return res, fails
}

// Classify: which length classes of normal forms the case exercised (non-trivial = at least one string
// that is not normal).
func (nfcProp) Classify(c corr.Case, out []string) string {
	kinds := map[string]bool{}
	for _, op := range c.Ops {
		w := strings.Fields(op)
		if len(w) != 4 {
			continue
		}
		for _, part := range strings.Split(w[3], ",") {
			q := strings.Split(part, ":")
			if len(q) != 2 {
				continue
			}
			lr, ln := len(q[0])/2, len(q[1])/2
			switch {
			case q[0] == q[1]:
				kinds["normal"] = true
			case ln < lr:
				kinds["shorter"] = true
			case ln > lr:
				kinds["longer"] = true
			default:
				kinds["equal"] = true
			}
			if q[0] != q[1] && (lr < 128) != (ln < 128) {
				kinds["prefix-1/2"] = true
			}
			if q[0] != q[1] && (lr < 16384) != (ln < 16384) {
				kinds["prefix-2/3"] = true
			}
		}
	}
	if !kinds["shorter"] && !kinds["longer"] && !kinds["equal"] {
		return ""
	}
	var ks []string
	for k := range kinds {
		ks = append(ks, k)
	}
	sort.Strings(ks)
	return strings.Join(ks, "+")
}
