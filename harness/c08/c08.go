// Package c08: correspondence between the real generated codecs (all structs registered through the
// verif-tagged registry) and the Lean codec interpreter over the regenerated schema table, on
// generated valid encodings and structure-aware mutations; plus model-free round-trip oracles.
package c08

import (
	"bytes"
	"crypto/sha256"
	"encoding/binary"
	"encoding/json"
	"errors"
	"fmt"
	"math/rand"
	"os"
	"path/filepath"
	"strings"

	"golang.org/x/text/unicode/norm"

	"github.com/LiskHQ/lisk-engine/pkg/blockchain"
	"github.com/LiskHQ/lisk-engine/pkg/codec"
	_ "github.com/LiskHQ/lisk-engine/pkg/consensus"
	_ "github.com/LiskHQ/lisk-engine/pkg/consensus/certificate"
	_ "github.com/LiskHQ/lisk-engine/pkg/consensus/liskbft"
	_ "github.com/LiskHQ/lisk-engine/pkg/consensus/sync"
	_ "github.com/LiskHQ/lisk-engine/pkg/consensus/validator"
	_ "github.com/LiskHQ/lisk-engine/pkg/crypto"
	_ "github.com/LiskHQ/lisk-engine/pkg/db/diffdb"
	_ "github.com/LiskHQ/lisk-engine/pkg/generator"
	_ "github.com/LiskHQ/lisk-engine/pkg/labi"
	_ "github.com/LiskHQ/lisk-engine/pkg/labi_client"
	_ "github.com/LiskHQ/lisk-engine/pkg/p2p"
	_ "github.com/LiskHQ/lisk-engine/pkg/trie/rmt"
	_ "github.com/LiskHQ/lisk-engine/pkg/trie/smt"
	_ "github.com/LiskHQ/lisk-engine/pkg/txpool"

	"verifharness/corr"
)

type Field struct {
	Num    int    `json:"num"`
	Kind   string `json:"kind"`
	Nested string `json:"nested"`
	Strict bool   `json:"strict"`
}

type Schema struct {
	Name      string  `json:"name"`
	Enc       []Field `json:"enc"`
	Dec       []Field `json:"dec"`
	DecStrict []Field `json:"decStrict"`
}

var Schemas []*Schema
var ByName = map[string]*Schema{}

// LoadSchemas reads .build/schemas.json written by tools/schemagen.
func LoadSchemas() {
	if Schemas != nil {
		return
	}
	root := os.Getenv("VERIF_ROOT")
	if root == "" {
		root = "/verif"
	}
	b, err := os.ReadFile(filepath.Join(root, ".build", "schemas.json"))
	if err != nil {
		panic(err)
	}
	if err := json.Unmarshal(b, &Schemas); err != nil {
		panic(err)
	}
	for _, s := range Schemas {
		ByName[s.Name] = s
	}
}

type prop struct{}

func init() { corr.Register(prop{}) }

func (prop) ID() string    { return "C08" }
func (prop) Parallel() int { return 8 }

func uvarint(n uint64) []byte {
	b := make([]byte, binary.MaxVarintLen64)
	return b[:binary.PutUvarint(b, n)]
}

func genUint(rng *rand.Rand, bits uint) uint64 {
	switch rng.Intn(6) {
	case 0:
		return 0
	case 1:
		k := uint(rng.Intn(int(bits)/7+1)) * 7
		if k >= bits {
			return (uint64(1) << (bits - 1)) + uint64(rng.Intn(3)) - 1
		}
		return (uint64(1) << k) + uint64(rng.Intn(3)) - 1 // varint boundaries
	case 2:
		if bits == 64 {
			return ^uint64(0) - uint64(rng.Intn(2))
		}
		return (uint64(1) << bits) - 1 - uint64(rng.Intn(2))
	default:
		if bits == 64 {
			return rng.Uint64() >> uint(rng.Intn(64))
		}
		return uint64(rng.Uint32()) >> uint(rng.Intn(32))
	}
}

func genBytes(rng *rand.Rand) []byte {
	n := rng.Intn(6)
	if rng.Intn(10) == 0 {
		n = 120 + rng.Intn(20) // length varint of two bytes
	}
	b := make([]byte, n)
	rng.Read(b)
	return b
}

func genString(rng *rand.Rand) []byte {
	n := rng.Intn(6)
	b := make([]byte, n)
	for i := range b {
		b[i] = byte(0x20 + rng.Intn(0x5f)) // ASCII: always valid UTF-8 and NFC-normal
	}
	return b
}

// GenEncoding produces the canonical encoding of a random value of the schema. full=true writes
// every field (as the real Encode does).
func GenEncoding(rng *rand.Rand, s *Schema, depth int, full bool) []byte {
	var out []byte
	key := func(wt, num int) { out = append(out, uvarint(uint64(num<<3|wt))...) }
	for _, f := range s.Enc {
		switch f.Kind {
		case "uint":
			key(0, f.Num)
			out = append(out, uvarint(genUint(rng, 64))...)
		case "uint32":
			key(0, f.Num)
			out = append(out, uvarint(genUint(rng, 32))...)
		case "int32":
			v := int64(int32(genUint(rng, 32)))
			b := make([]byte, binary.MaxVarintLen64)
			key(0, f.Num)
			out = append(out, b[:binary.PutVarint(b, v)]...)
		case "bool":
			key(0, f.Num)
			out = append(out, byte(rng.Intn(2)))
		case "bytes":
			b := genBytes(rng)
			key(2, f.Num)
			out = append(out, uvarint(uint64(len(b)))...)
			out = append(out, b...)
		case "string":
			b := genString(rng)
			key(2, f.Num)
			out = append(out, uvarint(uint64(len(b)))...)
			out = append(out, b...)
		case "bytesArr":
			for i, n := 0, rng.Intn(3); i < n; i++ {
				b := genBytes(rng)
				key(2, f.Num)
				out = append(out, uvarint(uint64(len(b)))...)
				out = append(out, b...)
			}
		case "uints":
			n := rng.Intn(4)
			if n > 0 {
				var p []byte
				for i := 0; i < n; i++ {
					p = append(p, uvarint(genUint(rng, 64))...)
				}
				key(2, f.Num)
				out = append(out, uvarint(uint64(len(p)))...)
				out = append(out, p...)
			}
		case "msg":
			if depth < 6 && (full || rng.Intn(4) > 0) {
				b := GenEncoding(rng, ByName[f.Nested], depth+1, full)
				key(2, f.Num)
				out = append(out, uvarint(uint64(len(b)))...)
				out = append(out, b...)
			}
		case "msgArr":
			if depth < 6 {
				for i, n := 0, rng.Intn(3); i < n; i++ {
					b := GenEncoding(rng, ByName[f.Nested], depth+1, full)
					key(2, f.Num)
					out = append(out, uvarint(uint64(len(b)))...)
					out = append(out, b...)
				}
			}
		}
	}
	return out
}

// Mutate applies one structure-aware mutation.
func Mutate(rng *rand.Rand, b []byte) ([]byte, string) {
	c := append([]byte{}, b...)
	switch k := rng.Intn(11); {
	case k == 0 && len(c) > 0:
		return c[:rng.Intn(len(c))], "truncate"
	case k == 1 && len(c) > 0:
		i := rng.Intn(len(c))
		c[i] ^= byte(1 << uint(rng.Intn(8)))
		return c, "bitflip"
	case k == 2 && len(c) > 0:
		// make a varint byte non-shortest: x -> x|0x80, 0x00
		i := rng.Intn(len(c))
		if c[i] < 0x80 {
			c = append(c[:i], append([]byte{c[i] | 0x80, 0x00}, c[i+1:]...)...)
		}
		return c, "non-shortest"
	case k == 3:
		return append(c, byte(rng.Intn(256))), "trailing"
	case k == 4 && len(c) > 0:
		i := rng.Intn(len(c))
		c[i] = 0x02
		return c, "byte=2"
	case k == 5 && len(c) > 0:
		i := rng.Intn(len(c))
		huge := [][]byte{{0xff, 0xff, 0xff, 0xff, 0xff, 0xff, 0xff, 0xff, 0xff, 0x01}, {0xff, 0xff, 0xff, 0xff, 0xff, 0xff, 0xff, 0xff, 0x7f}, {0x80, 0x80, 0x80, 0x80, 0x80, 0x80, 0x80, 0x80, 0x80, 0x02}, {0xff, 0xff, 0xff, 0xff, 0x0f}}
		h := huge[rng.Intn(len(huge))]
		c = append(c[:i], append(append([]byte{}, h...), c[i+1:]...)...)
		return c, "huge-varint"
	case k == 6 && len(c) > 1:
		i, j := rng.Intn(len(c)), rng.Intn(len(c))
		if i > j {
			i, j = j, i
		}
		return append(append(append([]byte{}, c[:i]...), c[j:]...), c[i:j]...), "rotate"
	case k == 7 && len(c) > 1:
		i := rng.Intn(len(c))
		return append(c[:i], c[i+1:]...), "delete-byte"
	case k == 8 && len(c) > 0:
		i := rng.Intn(len(c))
		c[i] = byte(rng.Intn(256))
		return c, "random-byte"
	case k == 9 && len(c) > 0:
		i := rng.Intn(len(c))
		return append(append(append([]byte{}, c[:i]...), c[i:]...), c[i:]...), "dup-suffix"
	}
	if len(c) > 0 {
		i := rng.Intn(len(c))
		c[i] = 0x80 | byte(rng.Intn(128))
		return c, "high-bit"
	}
	return []byte{byte(rng.Intn(256))}, "one-byte"
}

func (prop) Generate(rng *rand.Rand, tier string) []corr.Case {
	LoadSchemas()
	perSchema := 30
	if tier == "thorough" {
		perSchema = 1500
	}
	var cases []corr.Case
	nl := 40
	if tier == "thorough" {
		nl = 4000
	}
	for i := 0; i < nl; i++ {
		ops := []string{"reset"}
		for j := 0; j < 20; j++ {
			b := make([]byte, 20)
			rng.Read(b)
			switch rng.Intn(8) {
			case 0:
				b = b[:rng.Intn(25)%21]
			case 1:
				for k := range b {
					b[k] = byte(rng.Intn(2)) * 255
				}
			}
			ops = append(ops, "tolisk "+corr.Hex(b))
			if str, err := codec.BytesToLisk32(b); err == nil && len(str) > 0 {
				t := []byte(str)
				switch rng.Intn(6) {
				case 0:
					t[rng.Intn(len(t))] = "zxvcpmbn3465o978uyrtkqew2adsjhfg01ilAZ\xc3"[rng.Intn(39)]
				case 1:
					t = t[:rng.Intn(len(t))]
				case 2:
					t = append(t, 'z')
				case 3:
					a, c := 3+rng.Intn(38), 3+rng.Intn(38)
					t[a], t[c] = t[c], t[a]
				}
				ops = append(ops, "tobytes "+corr.Hex(t), "validate "+corr.Hex(t))
			}
		}
		cases = append(cases, corr.Case{Ops: ops, Tag: "lisk32"})
	}
	// strings beyond ASCII: NFC is a parameter of the model; the verdict of x/text (an oracle that is
	// independent of pkg/codec) is passed to the model with the op
	tricky := []string{"q\u0301", "\u1161", "n\u0302\u0327", "e\u0301", "A\u030a", "\u00e9", "\u212b", "\uac00", "\u1100\u1161", "a\u0323\u0307", "a\u0307\u0323", "\u0958", "z\u0335", "\U0001F600", "\u00df"}
	{
		ops := []string{"reset"}
		for i := 0; i < 4*len(tricky); i++ {
			str := tricky[i%len(tricky)]
			if i >= len(tricky) {
				str = tricky[rng.Intn(len(tricky))] + string(rune('a'+rng.Intn(26))) + tricky[rng.Intn(len(tricky))]
			}
			var b []byte
			b = append(b, 0x0a)
			b = append(b, uvarint(uint64(len(str)))...)
			b = append(b, str...)
			b = append(b, 0x12, 0x01, 'c', 0x18, 0x01, 0x20, 0x02, 0x2a, 0x00, 0x32, 0x00)
			bit := 0
			if norm.NFC.IsNormalString(str) {
				bit = 1
			}
			ops = append(ops, fmt.Sprintf("nfcdec blockchain.Transaction %s %d", corr.Hex(b), bit))
		}
		cases = append(cases, corr.Case{Ops: ops, Tag: "nfc"})
	}
	for _, s := range Schemas {
		ops := []string{"reset"}
		for i := 0; i < perSchema; i++ {
			if i%3 == 0 {
				ops = append(ops, fmt.Sprintf("rt %s %s", s.Name, corr.Hex(GenEncoding(rng, s, 0, true))))
			}
			b := GenEncoding(rng, s, 0, rng.Intn(3) > 0)
			tag := "valid"
			switch rng.Intn(3) {
			case 1:
				b, tag = Mutate(rng, b)
			case 2:
				b, tag = Mutate(rng, b)
				if rng.Intn(2) == 0 {
					b, _ = Mutate(rng, b)
				}
			}
			_ = tag
			ops = append(ops, fmt.Sprintf("dec %s %s", s.Name, corr.Hex(b)), fmt.Sprintf("decs %s %s", s.Name, corr.Hex(b)))
			if i%3 == 1 {
				// one key / length prefix replaced by a large shortest-form varint whose low bits are the
				// expected key / length (bigvarint.go), in a fully populated canonical encoding
				if m, _, ok := BigVarint(rng, s, GenEncoding(rng, s, 0, true), ""); ok {
					ops = append(ops, fmt.Sprintf("dec %s %s", s.Name, corr.Hex(m)), fmt.Sprintf("decs %s %s", s.Name, corr.Hex(m)))
				}
			}
		}
		cases = append(cases, corr.Case{Ops: ops, Tag: "schema"})
	}
	// entry points (NewBlock / NewBlockHeader / NewTransaction / NewBlockAsset) on envelopes with one
	// non-canonical element: entry.go
	cases = append(cases, genEntryCases(rng, tier)...)
	// objects that do not come from bytes (JSON, Copy, field changes, Sign) and their cached ID / size: life.go
	cases = append(cases, genLifeCases(rng, tier)...)
	return cases
}

// FlatCanonical: only uint64 / bool / bytes / string / [][]byte fields, every single-valued one read
// strictly by DecodeStrict (C08Flat && C08CanonKind of Props/C08_Msg.lean): strict decoding accepts
// only the canonical bytes.
func FlatCanonical(s *Schema) bool {
	if s == nil || len(s.Enc) == 0 || len(s.Enc) != len(s.DecStrict) || len(s.Enc) != len(s.Dec) {
		return false
	}
	for i, f := range s.Enc {
		switch f.Kind {
		case "uint", "bool", "bytes", "string":
			if !s.DecStrict[i].Strict {
				return false
			}
		case "bytesArr":
		default:
			return false
		}
		if s.DecStrict[i].Num != f.Num || s.DecStrict[i].Kind != f.Kind || s.Dec[i].Num != f.Num || s.Dec[i].Kind != f.Kind || (i > 0 && s.Enc[i-1].Num >= f.Num) {
			return false
		}
	}
	return true
}

// ErrName maps a Go codec error to the model's error enum.
func ErrName(err error) string {
	switch {
	case errors.Is(err, codec.ErrInvalidData):
		return "invalidData"
	case errors.Is(err, codec.ErrOutOfRange):
		return "outOfRange"
	case errors.Is(err, codec.ErrNoTerminate):
		return "noTerminate"
	case errors.Is(err, codec.ErrUnexpectedFieldNumber):
		return "unexpectedFieldNumber"
	case errors.Is(err, codec.ErrFieldNumberNotFound):
		return "fieldNumberNotFound"
	case errors.Is(err, codec.ErrUnreadBytes):
		return "unreadBytes"
	case errors.Is(err, codec.ErrUnnecessaryLeadingBytes):
		return "unnecessaryLeadingBytes"
	case strings.HasPrefix(err.Error(), "invalid byte size"):
		return "byteSize"
	case strings.HasPrefix(err.Error(), "invalid byte for UTF-8"):
		return "utf8"
	case strings.HasPrefix(err.Error(), "UTF-8 is not normalized"):
		return "notNormalized"
	}
	return "other:" + err.Error()
}

// Decode1 runs the real decoder (strict or lenient) and re-encodes on success.
func Decode1(name string, b []byte, strict bool) (res string) {
	mk, ok := codec.VerifRegistry[name]
	if !ok {
		return "unregistered"
	}
	defer func() {
		if r := recover(); r != nil {
			res = "err panic"
		}
	}()
	v := mk()
	var err error
	if strict {
		err = v.DecodeStrict(b)
	} else {
		err = v.Decode(b)
	}
	if err != nil {
		return "err " + ErrName(err)
	}
	enc := v.Encode()
	// the decoded value owns its bytes: the caller's buffer is reused for the next message (a receive loop, a pooled
	// buffer) without the value changing - every decode of this harness overwrites its input afterwards
	for i := range b {
		b[i] ^= 0xa5
	}
	enc2 := v.Encode()
	for i := range b {
		b[i] ^= 0xa5
	}
	if !bytes.Equal(enc, enc2) {
		// `c08-decoded-value-aliases-input`: reported through the result line (the model answers `ok <hex>`)
		return fmt.Sprintf("aliases-input %x -> %x", enc, enc2)
	}
	return "ok " + corr.Hex(enc)
}

func (prop) RunImpl(c corr.Case) ([]string, []corr.Fail) {
	LoadSchemas()
	out := make([]string, 0, len(c.Ops))
	var fails []corr.Fail
	for i, op := range c.Ops {
		w := strings.Fields(op)
		switch w[0] {
		case "reset":
			out = append(out, "ok")
		case "tolisk":
			b := corr.UnHex(w[1])
			str, err := codec.BytesToLisk32(b)
			if err != nil {
				out = append(out, "err")
				break
			}
			out = append(out, "ok "+corr.Hex([]byte(str)))
			if len(b) == 20 {
				// oracle: text and bytes convert back and forth without loss; the produced text validates
				back, err := codec.Lisk32ToBytes(str)
				if err != nil || !bytes.Equal(back, b) {
					fails = append(fails, corr.Fail{Sig: "lisk32-roundtrip", Detail: fmt.Sprintf("%s -> %s -> %x (%v)", op, str, back, err), Op: i})
				}
				// oracle: any single-character substitution is rejected
				pos := 3 + int(b[0])%38
				alt := []byte(str)
				alt[pos] = "zxvcpmbn3465o978uyrtkqew2adsjhfg"[(strings.IndexByte("zxvcpmbn3465o978uyrtkqew2adsjhfg", alt[pos])+1+int(b[1])%31)%32]
				if codec.ValidateLisk32(string(alt)) == nil {
					fails = append(fails, corr.Fail{Sig: "lisk32-bad-checksum-accepted", Detail: fmt.Sprintf("%s: %s accepted", op, alt), Op: i})
				}
			}
		case "tobytes":
			sb := corr.UnHex(w[1])
			b, err := codec.Lisk32ToBytes(string(sb))
			if err != nil {
				out = append(out, "err")
				break
			}
			out = append(out, "ok "+corr.Hex(b))
			if len(sb) > 0 && string(sb[:3]) == "lsk" {
				str, err := codec.BytesToLisk32(b)
				if err != nil || str != string(sb) {
					fails = append(fails, corr.Fail{Sig: "lisk32-text-roundtrip", Detail: fmt.Sprintf("%s -> %x -> %s", op, b, str), Op: i})
				}
			}
		case "validate":
			out = append(out, fmt.Sprint(codec.ValidateLisk32(string(corr.UnHex(w[1]))) == nil))
		case "nfcdec":
			b := corr.UnHex(w[2])
			r := Decode1(w[1], b, false)
			rs := Decode1(w[1], b, true)
			if w[3] == "1" && (!strings.HasPrefix(r, "ok ") || !strings.HasPrefix(rs, "ok ")) {
				fails = append(fails, corr.Fail{Sig: "nfc-normal-string-rejected", Detail: fmt.Sprintf("%s: lenient %s strict %s", op, r, rs), Op: i})
			}
			if w[3] == "0" && (strings.HasPrefix(r, "ok ") || strings.HasPrefix(rs, "ok ")) {
				fails = append(fails, corr.Fail{Sig: "non-nfc-string-accepted", Detail: fmt.Sprintf("%s: lenient %s strict %s", op, r, rs), Op: i})
			}
			out = append(out, r+" "+rs)
		case "rt":
			// a fully populated canonical encoding must decode and re-encode to exactly itself (both decoders)
			b := corr.UnHex(w[2])
			r := Decode1(w[1], b, false)
			rs := Decode1(w[1], b, true)
			if r != "ok "+corr.Hex(b) || rs != "ok "+corr.Hex(b) {
				fails = append(fails, corr.Fail{Sig: "roundtrip-not-lossless", Detail: fmt.Sprintf("%s: lenient %s strict %s", op, r, rs), Op: i})
			}
			out = append(out, r+" "+rs)
		case "dec", "decs":
			b := corr.UnHex(w[2])
			r := Decode1(w[1], b, w[0] == "decs")
			out = append(out, r)
			if strings.HasPrefix(r, "ok ") {
				re := corr.UnHex(r[3:])
				// oracle 1: re-encoding reaches a fixed point (nil nested pointers become empty structs, one
				// nesting level per round): Encode∘Decode is idempotent after at most 6 rounds, never fails
				cur := re
				for round := 0; round < 7; round++ {
					r2 := Decode1(w[1], cur, false)
					if !strings.HasPrefix(r2, "ok ") {
						fails = append(fails, corr.Fail{Sig: "own-encoding-rejected", Detail: fmt.Sprintf("%s: Decode(Encode(v)) = %s", op, r2), Op: i})
						break
					}
					next := corr.UnHex(r2[3:])
					if round == 6 && !bytes.Equal(next, cur) {
						fails = append(fails, corr.Fail{Sig: "reencode-not-fixed-point", Detail: fmt.Sprintf("%s: %x -> %x", op, cur, next), Op: i})
					}
					cur = next
				}
				// oracle 6: absent and empty identified - nil in place of empty byte strings / arrays / array elements
				// encodes to the same bytes and keeps the number of elements (nilempty.go)
				if w[0] == "dec" {
					if sig, d := nilEmptyOracle(w[1], b); sig != "" {
						fails = append(fails, corr.Fail{Sig: sig, Detail: d, Op: i})
					}
				}
				// oracle 2: strict decoding accepts the node's own encodings
				r3 := Decode1(w[1], re, true)
				if !strings.HasPrefix(r3, "ok ") {
					fails = append(fails, corr.Fail{Sig: "strict-rejects-own-encoding", Detail: fmt.Sprintf("%s: DecodeStrict(Encode(v)) = %s", op, r3), Op: i})
				}
				// oracle 3: strict decoding of a transaction accepts only the canonical bytes
				if w[0] == "decs" && (w[1] == "blockchain.Transaction" || w[1] == "blockchain.SigningTransaction") && !bytes.Equal(re, b) {
					fails = append(fails, corr.Fail{Sig: "strict-accepts-non-canonical-transaction", Detail: fmt.Sprintf("%s re-encodes to %x", op, re), Op: i})
				}
				// oracle 3b: the same for every flat struct of canonical kinds (the class for which
				// Props/C08_Msg.lean C08_strict_canonical_flat proves it of the model)
				if w[0] == "decs" && FlatCanonical(ByName[w[1]]) && !bytes.Equal(re, b) && w[1] != "blockchain.Transaction" && w[1] != "blockchain.SigningTransaction" {
					fails = append(fails, corr.Fail{Sig: "strict-accepts-non-canonical-flat-struct", Detail: fmt.Sprintf("%s re-encodes to %x", op, re), Op: i})
				}
				// oracle 5: block header IDs are unchanged by re-encoding (the ID is the hash of the canonical
				// encoding, whatever accepted bytes the header arrived as)
				if w[0] == "dec" && w[1] == "blockchain.BlockHeader" {
					if h1, err := blockchain.NewBlockHeader(b); err == nil {
						h2, err2 := blockchain.NewBlockHeader(h1.Encode())
						cp := *h1
						cp.Init()
						if err2 != nil || !bytes.Equal(h1.ID, h2.ID) || !bytes.Equal(h1.ID, cp.ID) {
							fails = append(fails, corr.Fail{Sig: "block-id-unstable-under-reencoding", Detail: op, Op: i})
						}
					}
					raw := &blockchain.RawBlock{Header: b}
					if blk, err := blockchain.NewBlock(raw.Encode()); err == nil {
						blk2, err2 := blockchain.NewBlock(blk.Encode())
						if err2 != nil || !bytes.Equal(blk.Header.ID, blk2.Header.ID) {
							fails = append(fails, corr.Fail{Sig: "block-id-unstable-under-reencoding", Detail: op + " (via NewBlock)", Op: i})
						}
					}
				}
				// oracle 4: the transaction ID is the hash of exactly the accepted bytes and stable under re-encoding
				if w[0] == "decs" && w[1] == "blockchain.Transaction" {
					if tx, err := blockchain.NewTransaction(b); err == nil {
						id := sha256.Sum256(b)
						if !bytes.Equal(tx.ID, id[:]) {
							fails = append(fails, corr.Fail{Sig: "tx-id-not-hash-of-bytes", Detail: op, Op: i})
						}
						tx2, err2 := blockchain.NewTransaction(tx.Encode())
						if err2 != nil || !bytes.Equal(tx2.ID, tx.ID) {
							fails = append(fails, corr.Fail{Sig: "tx-id-unstable", Detail: op, Op: i})
						}
					}
				}
			}
			if r == "err panic" {
				fails = append(fails, corr.Fail{Sig: "decode-panics", Detail: op, Op: i})
			}
		default:
			if r, fs, ok := runEntry(i, op, w); ok {
				out = append(out, r)
				fails = append(fails, fs...)
				break
			}
			if r, fs, ok := runLife(i, op, w); ok {
				out = append(out, r)
				fails = append(fails, fs...)
				break
			}
			out = append(out, "bad-op")
		}
	}
	return out, fails
}

func (prop) Classify(c corr.Case, out []string) string {
	kinds := map[string]bool{}
	if c.Tag == "life" {
		// histories of objects with a cached ID: non-trivial = an Init / Sign after a JSON source or a change
		for _, op := range c.Ops {
			w := strings.Fields(op)
			if w[0] == "life" && len(w) > 4 {
				kinds[strings.SplitN(w[3], "=", 2)[0]] = true
				for _, st := range w[4:] {
					kinds[strings.SplitN(st, "=", 2)[0]] = true
				}
			}
		}
		if !kinds["init"] || len(kinds) < 3 {
			return ""
		}
		return fmt.Sprintf("life-%d-step-kinds", len(kinds))
	}
	for _, o := range out[1:] {
		f := strings.Fields(o)
		if f[0] == "ok" {
			kinds["ok"] = true
		} else if len(f) > 1 {
			kinds[f[1]] = true
		}
	}
	if !kinds["ok"] || len(kinds) < 2 {
		return ""
	}
	return fmt.Sprintf("ok+%d-error-kinds", len(kinds)-1)
}
