package corr

import (
	"fmt"
	"strings"
)

// Purity oracle for functions that must not mutate their inputs and whose result must depend on the values of
// their arguments only (verification entry points: smt.Verify, rmt.VerifyProof, CalculateRootFrom*, signature
// checks, Decode on its input buffer ...).
//
// PureCall
//  1. takes a canonical image of every argument (Snap), builds the "before" variants (equivalent presentations of
//     the same arguments: deep clone, exported Copy(), decode(encode(x)) ...), then calls the function on the
//     caller's objects;
//  2. takes the image again and compares it with the first one, entry by entry  -> "<sig>-mutates-argument";
//     entries named "spare(...)" (SnapBytesCap: the bytes between len and cap of an argument built with Spare, i.e.
//     caller memory an `append(arg, ...)` of the callee writes to) -> "<sig>-writes-beyond-argument";
//  3. calls the function AGAIN on the same objects (Repeat-1 more times) and requires the same result
//     -> "<sig>-not-idempotent"; the image is compared after every call;
//  4. runs the "before" variants (built from the untouched arguments, run after the calls: a shallow copy that
//     shares memory with a consumed argument shows here) and the "after" variants (built from the arguments as the
//     calls left them) and requires the result of the first call -> "<sig>-copy-differs:<variant>".
//
// The first call is not run under recover: a panic of the function propagates to the caller exactly as a plain
// call would (the harnesses report panics themselves); later calls and variants are recovered and compared as
// the result "panic".

// PureVariant is one equivalent presentation of the arguments of a pure call.
type PureVariant struct {
	Name string
	Call func() string
}

// Pure describes one call.
type Pure struct {
	Sig  string // signature prefix, e.g. "c10-verify"
	Name string // the function, for the detail text
	// Snap returns the canonical image of ALL arguments as the callee can reach them: one "name=value" entry per
	// byte string / scalar / length, in a fixed order.
	Snap func() []string
	// Call runs the function on the caller's argument objects and returns its canonical result.
	Call func() string
	// Variants builds equivalent argument objects from the CURRENT state of the arguments; it is invoked with
	// stage "before" (before the first call) and "after" (after the last call on the same objects). May be nil.
	Variants func(stage string) []PureVariant
	Repeat   int    // calls on the same objects (default 2)
	MutSig   string // overrides "<Sig>-mutates-argument"
	Context  string // free text put in front of the details (the op, sizes ...)
}

func clipPure(s string) string {
	if len(s) > 200 {
		return s[:200] + "..."
	}
	return s
}

// SnapDiff describes the first entries in which two images differ ("" = equal).
func SnapDiff(before, after []string) string {
	if len(before) != len(after) {
		return fmt.Sprintf("%d entries became %d", len(before), len(after))
	}
	diffs := []string{}
	n := 0
	for i := range before {
		if before[i] != after[i] {
			n++
			if len(diffs) < 3 {
				diffs = append(diffs, clipPure(before[i])+" -> "+clipPure(after[i]))
			}
		}
	}
	if n == 0 {
		return ""
	}
	return fmt.Sprintf("%d of %d entries changed: %s", n, len(before), strings.Join(diffs, " | "))
}

func recovered(f func() string) (res string) {
	defer func() {
		if e := recover(); e != nil {
			res = "panic"
		}
	}()
	return f()
}

// PureCall runs the oracle and returns the result of the FIRST call plus the violations (Op = -1: the caller
// fills in the op index).
func PureCall(p Pure) (string, []Fail) {
	var fails []Fail
	ctx := p.Context
	if ctx != "" {
		ctx += ": "
	}
	mutSig := p.MutSig
	if mutSig == "" {
		mutSig = p.Sig + "-mutates-argument"
	}
	repeat := p.Repeat
	if repeat < 2 {
		repeat = 2
	}
	image := p.Snap()
	var variants []PureVariant
	if p.Variants != nil {
		for _, v := range p.Variants("before") {
			v.Name += "-before"
			variants = append(variants, v)
		}
	}
	first := p.Call()
	mutated, beyond := false, false
	check := func(n int) {
		now := p.Snap()
		if d := SnapDiff(splitSpare(image, false), splitSpare(now, false)); d != "" {
			if !mutated {
				mutated = true
				fails = append(fails, Fail{Sig: mutSig, Op: -1,
					Detail: fmt.Sprintf("%s%s changed the arguments it was given (call %d, result %s): %s", ctx, p.Name, n, first, d)})
			}
			return // a replaced slice has another capacity: the spare entries say nothing more
		}
		if d := SnapDiff(splitSpare(image, true), splitSpare(now, true)); d != "" && !beyond {
			beyond = true
			fails = append(fails, Fail{Sig: p.Sig + "-writes-beyond-argument", Op: -1,
				Detail: fmt.Sprintf("%s%s wrote into the spare capacity of an argument slice, memory of the caller beyond the argument's length (call %d, result %s): %s", ctx, p.Name, n, first, d)})
		}
	}
	check(1)
	for n := 2; n <= repeat; n++ {
		again := recovered(p.Call)
		if again != first {
			fails = append(fails, Fail{Sig: p.Sig + "-not-idempotent", Op: -1,
				Detail: fmt.Sprintf("%s%s on the same argument objects: call 1 gave %s, call %d gave %s", ctx, p.Name, first, n, again)})
			break
		}
		check(n)
	}
	if p.Variants != nil {
		for _, v := range p.Variants("after") {
			v.Name += "-after"
			variants = append(variants, v)
		}
	}
	for _, v := range variants {
		if got := recovered(v.Call); got != first {
			fails = append(fails, Fail{Sig: p.Sig + "-copy-differs:" + v.Name, Op: -1,
				Detail: fmt.Sprintf("%s%s gave %s, but %s on the %s presentation of the same arguments", ctx, p.Name, first, got, v.Name)})
		}
	}
	return first, fails
}

// SnapBytes / SnapList append image entries.
func SnapBytes(img []string, name string, b []byte) []string {
	return append(img, name+"="+Hex(b))
}

func SnapList(img []string, name string, l [][]byte) []string {
	img = append(img, fmt.Sprintf("len(%s)=%d", name, len(l)))
	for i, b := range l {
		img = append(img, fmt.Sprintf("%s[%d]=%s", name, i, Hex(b)))
	}
	return img
}

func SnapUints(img []string, name string, l []uint64) []string {
	img = append(img, fmt.Sprintf("len(%s)=%d", name, len(l)))
	for i, v := range l {
		img = append(img, fmt.Sprintf("%s[%d]=%d", name, i, v))
	}
	return img
}

// splitSpare selects the "spare(...)" entries of an image (spare = true) or all the others.
func splitSpare(img []string, spare bool) []string {
	out := make([]string, 0, len(img))
	for _, e := range img {
		if strings.HasPrefix(e, "spare(") == spare {
			out = append(out, e)
		}
	}
	return out
}

const spareFill = 0xA5

// Spare returns a copy of b with 72 bytes of spare capacity behind it, filled with a sentinel: what a caller holds
// who passes a sub-slice of a larger buffer.  A callee that appends to the argument overwrites the sentinel.
func Spare(b []byte) []byte {
	buf := make([]byte, len(b)+72)
	copy(buf, b)
	for i := len(b); i < len(buf); i++ {
		buf[i] = spareFill
	}
	return buf[:len(b)]
}

func SpareList(l [][]byte) [][]byte {
	res := make([][]byte, len(l), len(l)+4)
	for i, b := range l {
		res[i] = Spare(b)
	}
	return res
}

// SnapBytesCap records the bytes of b and, separately, its spare capacity.
func SnapBytesCap(img []string, name string, b []byte) []string {
	img = append(img, name+"="+Hex(b))
	if cap(b) > len(b) {
		img = append(img, "spare("+name+")="+Hex(b[len(b):cap(b)]))
	}
	return img
}

func SnapListCap(img []string, name string, l [][]byte) []string {
	img = append(img, fmt.Sprintf("len(%s)=%d", name, len(l)))
	for i, b := range l {
		img = SnapBytesCap(img, fmt.Sprintf("%s[%d]", name, i), b)
	}
	return img
}
