// Package corr is the correspondence framework shared by all property harnesses: it generates
// operation sequences, runs them on the real lisk-engine code in-process and on the Lean model
// driver, diffs the canonicalised outputs, shrinks disagreements and writes a JSON report.
package corr

import (
	"bufio"
	"bytes"
	"encoding/json"
	"fmt"
	"math/rand"
	"os"
	"os/exec"
	"path/filepath"
	"sort"
	"strings"
	"sync"
	"time"
)

// Case is one operation sequence executed from a fresh state. Ops[0] must be an op that
// fully resets the state of both the implementation runner and the model driver.
type Case struct {
	Ops []string `json:"ops"`
	Tag string   `json:"tag,omitempty"`
}

// Fail is a model-free property violation observed on the implementation.
type Fail struct {
	Sig    string `json:"sig"`    // stable signature used to match known findings
	Detail string `json:"detail"` // human readable
	Op     int    `json:"op"`     // index of the op at which it was observed (-1 unknown)
}

// Property is implemented by each per-property package.
type Property interface {
	ID() string
	// Generate returns the cases for the tier ("quick" | "thorough").
	Generate(rng *rand.Rand, tier string) []Case
	// RunImpl executes the case on the real code and returns one output line per op plus the
	// violations found by the model-free oracle.
	RunImpl(c Case) ([]string, []Fail)
	// Classify returns a short key naming the behaviour the case exercised ("" = trivial).
	Classify(c Case, out []string) string
}

// Optional interfaces.
type Paralleler interface{ Parallel() int } // number of goroutines that may call RunImpl concurrently
type Extraer interface {
	// Extra runs additional model-free explorations (exhaustive small scope, stress ...).
	Extra(rng *rand.Rand, tier string) ExtraResult
}
type ModelLess interface{ NoModel() bool } // property runs no model driver (oracle only)
type Canonicaliser interface {
	// CanonModel post-processes a model output line before comparison.
	CanonModel(op, line string) string
}
type Timeouter interface{ CaseTimeout() time.Duration }

type ExtraResult struct {
	Evaluations int               `json:"evaluations"`
	Exhaustive  bool              `json:"exhaustive"`
	Fails       []Fail            `json:"fails"`
	Notes       map[string]any    `json:"notes,omitempty"`
	Samples     []string          `json:"samples,omitempty"`
}

type Mismatch struct {
	Case      Case     `json:"case"`
	Minimized Case     `json:"minimized"`
	Impl      []string `json:"impl_out"`
	Model     []string `json:"model_out"`
	FirstDiff int      `json:"first_diff"`
	Sig       string   `json:"sig"`
}

type Report struct {
	Property     string         `json:"property"`
	Tier         string         `json:"tier"`
	Seed         int64          `json:"seed"`
	Cases        int            `json:"cases"`
	Ops          int            `json:"ops"`
	Distinct     int            `json:"distinct_nontrivial"`
	Classes      map[string]int `json:"classes"`
	OpKinds      map[string]int `json:"op_kinds"`
	Tags         map[string]int `json:"tags"`
	Samples      []Case         `json:"samples"`
	Mismatches   []Mismatch     `json:"mismatches"`
	PropFails    []PropFail     `json:"prop_fails"`
	Extra        *ExtraResult   `json:"extra,omitempty"`
	ModelCompared int           `json:"model_compared_lines"`
	WallS        float64        `json:"wall_s"`
	Error        string         `json:"error,omitempty"`
}

type PropFail struct {
	Fail
	Case      Case `json:"case"`
	Minimized Case `json:"minimized"`
}

var registry = map[string]Property{}

func Register(p Property) { registry[p.ID()] = p }
func Lookup(id string) Property { return registry[id] }
func IDs() []string {
	ids := []string{}
	for k := range registry {
		ids = append(ids, k)
	}
	sort.Strings(ids)
	return ids
}

// safeRun executes RunImpl under recover and a watchdog.
func safeRun(p Property, c Case) (out []string, fails []Fail) {
	timeout := 60 * time.Second
	if t, ok := p.(Timeouter); ok {
		timeout = t.CaseTimeout()
	}
	type res struct {
		out   []string
		fails []Fail
	}
	ch := make(chan res, 1)
	go func() {
		defer func() {
			if r := recover(); r != nil {
				ch <- res{out: []string{fmt.Sprintf("HARNESS-PANIC %v", r)}, fails: []Fail{{Sig: "harness-panic", Detail: fmt.Sprint(r), Op: -1}}}
			}
		}()
		o, f := p.RunImpl(c)
		ch <- res{o, f}
	}()
	select {
	case r := <-ch:
		return r.out, r.fails
	case <-time.After(timeout):
		return []string{"HARNESS-TIMEOUT"}, []Fail{{Sig: "case-timeout", Detail: "RunImpl did not return within " + timeout.String(), Op: -1}}
	}
}

// RunModel feeds all ops of all cases to one driver process and splits the output per case.
func RunModel(ldriver, id string, cases []Case) ([][]string, error) {
	var in bytes.Buffer
	total := 0
	for _, c := range cases {
		for _, op := range c.Ops {
			in.WriteString(op)
			in.WriteByte('\n')
			total++
		}
	}
	cmd := exec.Command(ldriver, id)
	cmd.Stdin = &in
	var outb, errb bytes.Buffer
	cmd.Stdout = &outb
	cmd.Stderr = &errb
	if err := cmd.Run(); err != nil {
		return nil, fmt.Errorf("model driver failed: %v: %s", err, errb.String())
	}
	sc := bufio.NewScanner(&outb)
	sc.Buffer(make([]byte, 1<<20), 1<<28)
	lines := make([]string, 0, total)
	for sc.Scan() {
		lines = append(lines, sc.Text())
	}
	if len(lines) != total {
		return nil, fmt.Errorf("model driver returned %d lines for %d ops: %s", len(lines), total, errb.String())
	}
	res := make([][]string, len(cases))
	i := 0
	for ci, c := range cases {
		res[ci] = lines[i : i+len(c.Ops)]
		i += len(c.Ops)
	}
	return res, nil
}

func firstDiff(a, b []string) int {
	n := len(a)
	if len(b) < n {
		n = len(b)
	}
	for i := 0; i < n; i++ {
		if a[i] != b[i] {
			return i
		}
	}
	if len(a) != len(b) {
		return n
	}
	return -1
}

func canon(p Property, c Case, model []string) []string {
	cm, ok := p.(Canonicaliser)
	if !ok {
		return model
	}
	res := make([]string, len(model))
	for i := range model {
		res[i] = cm.CanonModel(c.Ops[i], model[i])
	}
	return res
}

// shrink minimises the ops of c (keeping Ops[0]) while test stays true.
func shrink(c Case, test func(Case) bool) Case {
	cur := append([]string{}, c.Ops...)
	budget := 400
	chunk := (len(cur) - 1) / 2
	for chunk >= 1 && budget > 0 {
		removed := false
		for start := 1; start < len(cur) && budget > 0; {
			end := start + chunk
			if end > len(cur) {
				end = len(cur)
			}
			cand := append(append([]string{}, cur[:start]...), cur[end:]...)
			budget--
			if len(cand) >= 1 && test(Case{Ops: cand, Tag: c.Tag}) {
				cur = cand
				removed = true
			} else {
				start = end
			}
		}
		if !removed {
			chunk /= 2
		}
	}
	return Case{Ops: cur, Tag: c.Tag}
}

type Options struct {
	Tier    string
	Seed    int64
	LDriver string
	Out     string
	Corpus  string // directory with *.ops files (one op per line) run first
	Replay  string
}

func loadCorpus(dir string) []Case {
	var cases []Case
	files, _ := filepath.Glob(filepath.Join(dir, "*.ops"))
	sort.Strings(files)
	for _, f := range files {
		b, err := os.ReadFile(f)
		if err != nil {
			continue
		}
		var ops []string
		for _, l := range strings.Split(string(b), "\n") {
			l = strings.TrimSpace(l)
			if l != "" && !strings.HasPrefix(l, "#") {
				ops = append(ops, l)
			}
		}
		if len(ops) > 0 {
			cases = append(cases, Case{Ops: ops, Tag: "corpus:" + filepath.Base(f)})
		}
	}
	return cases
}

// Main runs the whole correspondence + oracle for property p and writes the report.
func Main(p Property, o Options) *Report {
	start := time.Now()
	rep := &Report{Property: p.ID(), Tier: o.Tier, Seed: o.Seed, Classes: map[string]int{}, OpKinds: map[string]int{}, Tags: map[string]int{}}
	rng := rand.New(rand.NewSource(o.Seed))
	var cases []Case
	if o.Replay != "" {
		cases = loadReplay(o.Replay)
	} else {
		cases = append(loadCorpus(o.Corpus), p.Generate(rng, o.Tier)...)
	}
	rep.Cases = len(cases)
	implOut := make([][]string, len(cases))
	implFails := make([][]Fail, len(cases))
	par := 1
	if pp, ok := p.(Paralleler); ok {
		par = pp.Parallel()
	}
	var wg sync.WaitGroup
	sem := make(chan struct{}, par)
	for i := range cases {
		wg.Add(1)
		sem <- struct{}{}
		go func(i int) {
			defer wg.Done()
			defer func() { <-sem }()
			implOut[i], implFails[i] = safeRun(p, cases[i])
		}(i)
	}
	wg.Wait()
	noModel := false
	if nm, ok := p.(ModelLess); ok {
		noModel = nm.NoModel()
	}
	var modelOut [][]string
	if !noModel {
		var err error
		modelOut, err = RunModel(o.LDriver, p.ID(), cases)
		if err != nil {
			rep.Error = err.Error()
		}
	}
	seenClass := map[string]bool{}
	for i, c := range cases {
		rep.Ops += len(c.Ops)
		rep.Tags[c.Tag]++
		for _, op := range c.Ops {
			w := strings.SplitN(op, " ", 2)
			rep.OpKinds[w[0]]++
		}
		cl := p.Classify(c, implOut[i])
		if cl != "" {
			rep.Classes[cl]++
			key := cl + "|" + strings.Join(c.Ops, ";")
			if !seenClass[key] {
				seenClass[key] = true
				rep.Distinct++
			}
		}
		if i < 3 || (i%(len(cases)/3+1) == 0 && len(rep.Samples) < 6) {
			rep.Samples = append(rep.Samples, c)
		}
		for _, f := range implFails[i] {
			pf := PropFail{Fail: f, Case: c, Minimized: c}
			if len(rep.PropFails) < 20 && len(c.Ops) > 2 {
				sig := f.Sig
				pf.Minimized = shrink(c, func(cc Case) bool {
					_, fs := safeRun(p, cc)
					for _, x := range fs {
						if x.Sig == sig {
							return true
						}
					}
					return false
				})
			}
			rep.PropFails = append(rep.PropFails, pf)
		}
		if modelOut != nil {
			m := canon(p, c, modelOut[i])
			rep.ModelCompared += len(m)
			if d := firstDiff(implOut[i], m); d >= 0 {
				mm := Mismatch{Case: c, Minimized: c, Impl: implOut[i], Model: m, FirstDiff: d}
				if len(rep.Mismatches) < 10 {
					// anchored: the minimised sequence must still disagree first at the SAME operation line, so
					// that shrinking cannot drift to an unrelated disagreement on inputs no generator produces
					origOp := ""
					if d < len(c.Ops) {
						origOp = c.Ops[d]
					}
					mm.Minimized = shrink(c, func(cc Case) bool {
						io, _ := safeRun(p, cc)
						mo, err := RunModel(o.LDriver, p.ID(), []Case{cc})
						if err != nil {
							return false
						}
						dd := firstDiff(io, canon(p, cc, mo[0]))
						return dd >= 0 && (origOp == "" || (dd < len(cc.Ops) && cc.Ops[dd] == origOp))
					})
					io, _ := safeRun(p, mm.Minimized)
					mo, err := RunModel(o.LDriver, p.ID(), []Case{mm.Minimized})
					if err == nil {
						mm.Impl, mm.Model = io, canon(p, mm.Minimized, mo[0])
						mm.FirstDiff = firstDiff(mm.Impl, mm.Model)
					}
				}
				if mm.FirstDiff >= 0 && mm.FirstDiff < len(mm.Minimized.Ops) {
					mm.Sig = "mismatch:" + strings.SplitN(mm.Minimized.Ops[mm.FirstDiff], " ", 2)[0]
				} else {
					mm.Sig = "mismatch"
				}
				rep.Mismatches = append(rep.Mismatches, mm)
			}
		}
	}
	if ex, ok := p.(Extraer); ok && o.Replay == "" {
		r := ex.Extra(rng, o.Tier)
		rep.Extra = &r
	}
	rep.WallS = time.Since(start).Seconds()
	if o.Out != "" {
		b, _ := json.MarshalIndent(rep, "", " ")
		_ = os.WriteFile(o.Out, b, 0o644)
	}
	return rep
}

func loadReplay(path string) []Case {
	b, err := os.ReadFile(path)
	if err != nil {
		return nil
	}
	var r struct {
		Ops []string `json:"ops"`
	}
	if err := json.Unmarshal(b, &r); err != nil || len(r.Ops) == 0 {
		return nil
	}
	return []Case{{Ops: r.Ops, Tag: "replay"}}
}

// Hex helpers for the line protocol ("-" is the empty byte string).
func Hex(b []byte) string {
	if len(b) == 0 {
		return "-"
	}
	return fmt.Sprintf("%x", b)
}

func UnHex(s string) []byte {
	if s == "-" || s == "" {
		return []byte{}
	}
	b := make([]byte, len(s)/2)
	_, err := fmt.Sscanf(s, "%x", &b)
	if err != nil {
		panic("bad hex " + s)
	}
	return b
}
