package c15

import (
	"context"
	"encoding/json"
	"errors"
	"fmt"
	"os"
	"path/filepath"
	"sync"
	"time"

	"github.com/cockroachdb/pebble/vfs"

	"github.com/LiskHQ/lisk-engine/pkg/blockchain"
	"github.com/LiskHQ/lisk-engine/pkg/codec"
	"github.com/LiskHQ/lisk-engine/pkg/consensus"
	"github.com/LiskHQ/lisk-engine/pkg/db"
	"github.com/LiskHQ/lisk-engine/pkg/engine/config"
	"github.com/LiskHQ/lisk-engine/pkg/generator"
	"github.com/LiskHQ/lisk-engine/pkg/labi"
	"github.com/LiskHQ/lisk-engine/pkg/log"
	"github.com/LiskHQ/lisk-engine/pkg/txpool"

	"verifharness/node"
)

// ---------------------------------------------------------------------------------------------
// The real generator inside a shifted clock.
//
// Generator.forge reads time.Now(). The node harness keeps its chain ~10^6 s in the past so that
// arbitrarily many slots are "not in the future". The rig bridges the two clock domains WITHOUT
// copying any generator code: forge runs unmodified; the exported generator.Consensus interface is
// implemented by clockConsensus, which forwards everything to the real consensus.Executer, maps
// wall-clock times to chain times by a fixed offset for the duration of one forge call
// (GetSlotNumber of a wall-clock time -> slot of time+offset, GetSlotTime -> slot time-offset) and
// captures AddInternal. The forged header carries the wall-clock timestamp; the rig verifies the
// generator's signature on it, then moves the timestamp into the chain's clock domain (same
// offset) and signs again with the same key - the only two header fields that differ from what
// forge produced. (The `wallclock` scenarios of Extra run forge without any shift.)
// ---------------------------------------------------------------------------------------------

// realDomainWindow: a time argument within this many seconds of the wall clock is a wall-clock
// time (the chain's clock domain is at least an hour behind; see newRig).
const realDomainWindow = 1800

type clockConsensus struct {
	*consensus.Executer
	mu      sync.Mutex
	offset  int64 // chain time = wall-clock time + offset (negative); 0 = no shift
	handoff func(b *blockchain.Block)
	handed  []*blockchain.Block
}

func (c *clockConsensus) isWall(t uint32) bool {
	if c.offset == 0 {
		return false
	}
	now := time.Now().Unix()
	d := int64(t) - now
	return d > -realDomainWindow && d < realDomainWindow
}

func (c *clockConsensus) GetSlotNumber(unixTime uint32) int {
	if c.isWall(unixTime) {
		return c.Executer.GetSlotNumber(uint32(int64(unixTime) + c.offset))
	}
	return c.Executer.GetSlotNumber(unixTime)
}

func (c *clockConsensus) GetSlotTime(slot int) uint32 {
	t := c.Executer.GetSlotTime(slot)
	if c.offset != 0 {
		return uint32(int64(t) - c.offset)
	}
	return t
}

func (c *clockConsensus) AddInternal(block *blockchain.Block) {
	c.mu.Lock()
	c.handed = append(c.handed, block)
	h := c.handoff
	c.mu.Unlock()
	if h != nil {
		h(block)
	}
}

var _ generator.Consensus = (*clockConsensus)(nil)

// genABI is what the generator talks to: the node's mock application, except that a transaction
// whose scripted execution verdict is "invalid" is answered without touching the mock (a real
// application reverts an invalid transaction; the mock would keep it in its executed list and the
// dry-run state root of the generator would contain a transaction that is not in the block).
//
// InsertAssets answers with the assets set by setInsertAssets (the mock itself inserts none): a
// script asset there makes the forged block carry scripted application behaviour - e.g. a
// validator / threshold change answered by AfterTransactionsExecute - both while the generator
// dry-runs the block and when the node executes it.
type genABI struct {
	*node.MockABI
	log *[]abiCall
	ins *[]*blockchain.BlockAsset
}

func (a genABI) setInsertAssets(assets []*blockchain.BlockAsset) { *a.ins = assets }

func (a genABI) InsertAssets(req *labi.InsertAssetsRequest) (*labi.InsertAssetsResponse, error) {
	res, err := a.MockABI.InsertAssets(req)
	if err != nil {
		return res, err
	}
	return &labi.InsertAssetsResponse{Assets: append([]*blockchain.BlockAsset{}, (*a.ins)...)}, nil
}

// abiCall is one VerifyTransaction / ExecuteTransaction request of the generator and its verdict.
type abiCall struct {
	exec bool // false: VerifyTransaction, true: ExecuteTransaction
	id   []byte
	ok   bool // the generator keeps the transaction after this answer
}

func newGenABI(m *node.MockABI) genABI {
	return genABI{MockABI: m, log: &[]abiCall{}, ins: &[]*blockchain.BlockAsset{}}
}

func (a genABI) takeLog() []abiCall {
	r := *a.log
	*a.log = nil
	return r
}

func (a genABI) VerifyTransaction(req *labi.VerifyTransactionRequest) (*labi.VerifyTransactionResponse, error) {
	res, err := a.MockABI.VerifyTransaction(req)
	*a.log = append(*a.log, abiCall{exec: false, id: append([]byte{}, req.Transaction.ID...), ok: err == nil && res.Result == labi.TxVerifyResultOk})
	return res, err
}

func (a genABI) ExecuteTransaction(req *labi.ExecuteTransactionRequest) (*labi.ExecuteTransactionResponse, error) {
	if len(req.Transaction.Params) > 1 && req.Transaction.Params[1] == node.TxInvalid {
		*a.log = append(*a.log, abiCall{exec: true, id: append([]byte{}, req.Transaction.ID...), ok: false})
		return &labi.ExecuteTransactionResponse{Result: labi.TxExecuteResultInvalid}, nil
	}
	res, err := a.MockABI.ExecuteTransaction(req)
	*a.log = append(*a.log, abiCall{exec: true, id: append([]byte{}, req.Transaction.ID...), ok: err == nil && res.Result != labi.TxExecuteResultInvalid})
	return res, err
}

// recLogger keeps the error lines of the generator (forge reports failures only through the log).
type recLogger struct {
	mu   *sync.Mutex
	errs *[]string
}

func newRecLogger() recLogger { return recLogger{mu: &sync.Mutex{}, errs: &[]string{}} }

func (l recLogger) Debug(string, ...interface{})    {}
func (l recLogger) Info(string, ...interface{})     {}
func (l recLogger) Debugf(string, ...interface{})   {}
func (l recLogger) Infof(string, ...interface{})    {}
func (l recLogger) Warning(string, ...interface{})  {}
func (l recLogger) Warningf(string, ...interface{}) {}
func (l recLogger) Error(msg string, o ...interface{}) {
	l.mu.Lock()
	*l.errs = append(*l.errs, fmt.Sprint(append([]interface{}{msg}, o...)...))
	l.mu.Unlock()
}
func (l recLogger) Errorf(msg string, o ...interface{}) {
	l.mu.Lock()
	*l.errs = append(*l.errs, fmt.Sprintf(msg, o...))
	l.mu.Unlock()
}
func (l recLogger) With(...interface{}) log.Logger { return l }
func (l recLogger) take() []string {
	l.mu.Lock()
	defer l.mu.Unlock()
	r := *l.errs
	*l.errs = nil
	return r
}

// rig = node harness + the real generator with its own (crashable) database.
type rig struct {
	n       *node.Node
	own     []*node.Validator // validators whose keys are enabled in the generator
	maxSize uint32
	dir     string // temp dir with the keys file
	keys    string

	genFS  *vfs.MemFS
	genDB  *db.DB
	gen    *generator.Generator
	cons   *clockConsensus
	pool   *txpool.TransactionPool
	abi    genABI
	logger recLogger
	cancel context.CancelFunc
}

type rigConfig struct {
	node    node.Config
	own     int // validators 0..own-1 are enabled in the generator
	maxSize uint32
}

func newRig(rc rigConfig) (*rig, error) {
	n, err := node.New(rc.node)
	if err != nil {
		return nil, err
	}
	r := &rig{n: n, maxSize: rc.maxSize, logger: newRecLogger()}
	r.own = append(r.own, n.Validators[:rc.own]...)
	r.dir, err = os.MkdirTemp("", "c15-keys-")
	if err != nil {
		n.Close()
		return nil, err
	}
	if err := r.writeKeysFile(); err != nil {
		r.Close()
		return nil, err
	}
	r.genFS = vfs.NewStrictMem()
	if err := r.openGenDB(); err != nil {
		r.Close()
		return nil, err
	}
	if err := r.startGenerator(true); err != nil {
		r.Close()
		return nil, err
	}
	return r, nil
}

func (r *rig) writeKeysFile() error {
	type item struct {
		Address   codec.Lisk32         `json:"address"`
		Plain     *generator.PlainKeys `json:"plain"`
		Encrypted map[string]string    `json:"encrypted"`
	}
	f := struct {
		Keys []item `json:"keys"`
	}{}
	for _, v := range r.own {
		f.Keys = append(f.Keys, item{
			Address: v.Address,
			Plain:   &generator.PlainKeys{GeneratorKey: v.EdPub, GeneratorPrivateKey: v.EdPriv, BLSKey: v.BLSPub, BLSPrivateKey: v.BLSPriv},
			// saveGeneratorsFromFile calls Encrypted.Validate() first; with "encrypted" absent the
			// pointer is nil and the value-receiver call panics (see the report) - give it an
			// (invalid) empty object so that the plain keys are used.
			Encrypted: map[string]string{},
		})
	}
	data, err := json.Marshal(f)
	if err != nil {
		return err
	}
	r.keys = filepath.Join(r.dir, "keys.json")
	return os.WriteFile(r.keys, data, 0o600)
}

func (r *rig) openGenDB() error {
	d, err := db.NewDBWithFS(r.genFS, "")
	if err != nil {
		return err
	}
	r.genDB = d
	return nil
}

// startGenerator builds a new Generator over the current Chain/Executer of the node and the
// current generator database and runs Init. withFile: Init imports the keys file (first start);
// later starts find the keys in the generator database (loadGenerator).
func (r *rig) startGenerator(withFile bool) (err error) {
	defer func() {
		if p := recover(); p != nil {
			err = fmt.Errorf("generator init panic: %v", p)
		}
	}()
	ctx, cancel := context.WithCancel(context.Background())
	r.cancel = cancel
	r.cons = &clockConsensus{Executer: r.n.Exec}
	r.abi = newGenABI(r.n.ABI)
	r.pool = txpool.NewTransactionPool(nil)
	r.gen = generator.NewGenerator(&generator.GeneratorParams{
		Consensus: r.cons,
		ABI:       r.abi,
		Pool:      r.pool,
		Chain:     r.n.Chain,
	})
	cfg := &config.Config{
		System:    &config.SystemConfig{DataPath: r.dir},
		Genesis:   &config.GenesisConfig{BlockTime: r.n.Cfg.BlockTime, MaxTransactionsSize: r.maxSize, ChainID: r.n.Cfg.ChainID},
		Generator: &config.GeneratorConfig{Keys: &config.KeysConfig{}},
	}
	if withFile {
		cfg.Generator.Keys.FromFile = r.keys
	}
	err = r.gen.Init(&generator.GeneratorInitParams{CTX: ctx, Cfg: cfg, Logger: r.logger, BlockchainDB: r.n.DB, GeneratorDB: r.genDB})
	r.gen.VerifStopTicker()
	return err
}

func (r *rig) stopGenerator() {
	if r.cancel != nil {
		r.cancel()
		r.cancel = nil
	}
	r.gen = nil
}

// Restart simulates a process restart: new Chain/Executer (node.Restart), generator database
// closed and reopened from its file system, new Generator. crash=true drops everything the
// generator database had not synced.
func (r *rig) Restart(crash bool) error {
	r.stopGenerator()
	if err := r.reopenGenDB(crash); err != nil {
		return err
	}
	if err := r.n.Restart(); err != nil {
		return err
	}
	return r.startGenerator(false)
}

func (r *rig) reopenGenDB(crash bool) error {
	if crash {
		r.genFS.SetIgnoreSyncs(true)
	}
	func() {
		defer func() { _ = recover() }()
		_ = r.genDB.Close()
	}()
	if crash {
		r.genFS.ResetToSyncedState()
		r.genFS.SetIgnoreSyncs(false)
	}
	return r.openGenDB()
}

func (r *rig) Close() {
	r.stopGenerator()
	if r.genDB != nil {
		func() {
			defer func() { _ = recover() }()
			_ = r.genDB.Close()
		}()
		r.genDB = nil
	}
	if r.n != nil {
		r.n.Close()
	}
	if r.dir != "" {
		_ = os.RemoveAll(r.dir)
	}
}

func (r *rig) isOwn(v *node.Validator) bool {
	for _, o := range r.own {
		if o == v {
			return true
		}
	}
	return false
}

// info reads the stored GeneratorInfo of v through the generator's own store view.
func (r *rig) info(v *node.Validator) (generator.GeneratorInfo, bool) {
	i, ok, err := r.gen.VerifStoredInfo(v.Address)
	if err != nil || i == nil {
		return generator.GeneratorInfo{}, ok
	}
	return *i, ok
}

// rawInfo reads the stored info directly from the generator database (no generator code involved
// apart from the key layout).
func (r *rig) rawInfo(v *node.Validator) (generator.GeneratorInfo, bool) {
	data, ok := r.genDB.Get(generator.VerifInfoKey(v.Address))
	if !ok {
		return generator.GeneratorInfo{}, false
	}
	i := generator.GeneratorInfo{}
	if err := i.Decode(data); err != nil {
		return generator.GeneratorInfo{}, true
	}
	return i, true
}

var (
	errNoForge      = errors.New("c15: forge did not hand on a block")
	errBadSignature = errors.New("c15: forged header is not signed by the generator's key")
	errTimestamp    = errors.New("c15: forged header timestamp is not the wall clock of the forge call")
)

// forgeResult is what one run of the real forge step produced.
type forgeResult struct {
	block     *blockchain.Block // in the chain's clock domain (timestamp moved, signed again)
	origTS    uint32
	atHandoff struct {
		info   generator.GeneratorInfo
		exists bool
	}
	logs []string
}

// forgeAt runs Generator.forge with the wall clock mapped to chainTime and the pool holding
// exactly txs. atHandoff (optional) runs inside AddInternal.
func (r *rig) forgeAt(chainTime uint32, v *node.Validator, txs []*blockchain.Transaction, atHandoff func()) (*forgeResult, error) {
	res := &forgeResult{}
	r.pool.VerifC15SetProcessable(txs)
	r.logger.take()
	start := time.Now().Unix()
	r.cons.mu.Lock()
	r.cons.offset = int64(chainTime) - start
	r.cons.handed = nil
	r.cons.handoff = func(b *blockchain.Block) {
		res.atHandoff.info, res.atHandoff.exists = r.rawInfo(v)
		if atHandoff != nil {
			atHandoff()
		}
	}
	r.cons.mu.Unlock()
	var perr error
	func() {
		defer func() {
			if p := recover(); p != nil {
				perr = &node.PanicError{Value: p}
			}
		}()
		r.gen.VerifForge()
	}()
	end := time.Now().Unix()
	r.cons.mu.Lock()
	handed := r.cons.handed
	offset := r.cons.offset
	r.cons.offset = 0
	r.cons.handoff = nil
	r.cons.handed = nil
	r.cons.mu.Unlock()
	res.logs = r.logger.take()
	if perr != nil {
		return res, perr
	}
	if len(handed) != 1 {
		return res, errNoForge
	}
	b := handed[0]
	res.origTS = b.Header.Timestamp
	if int64(b.Header.Timestamp) < start || int64(b.Header.Timestamp) > end {
		return res, errTimestamp
	}
	signer := r.n.ValidatorByAddress(b.Header.GeneratorAddress)
	if signer == nil || !b.Header.VerifySignature(r.n.Cfg.ChainID, signer.EdPub) {
		return res, errBadSignature
	}
	// move the block into the chain's clock domain
	b.Header.Timestamp = uint32(int64(b.Header.Timestamp) + offset)
	b.Header.Sign(r.n.Cfg.ChainID, signer.EdPriv)
	res.block = b
	return res, nil
}

// slotTimeFor returns the chain time `within` seconds into the first slot after the tip's slot
// that is assigned to v (0, false if v is not a generator at the next height).
func (r *rig) slotTimeFor(v *node.Validator, within uint32) (uint32, bool) {
	d := r.n.SlotOf(v)
	if d == 0 {
		return 0, false
	}
	bs := r.n.BlockSlot()
	tip := r.n.Tip().Header
	return bs.GetSlotTime(bs.GetSlotNumber(tip.Timestamp)+d) + within, true
}
