package c15

import (
	"bytes"
	"context"
	"encoding/json"
	"fmt"
	"math/rand"
	"os"
	"path/filepath"
	"sync/atomic"
	"time"

	"github.com/LiskHQ/lisk-engine/pkg/blockchain"
	"github.com/LiskHQ/lisk-engine/pkg/codec"
	"github.com/LiskHQ/lisk-engine/pkg/consensus/contradiction"
	"github.com/LiskHQ/lisk-engine/pkg/db"
	"github.com/LiskHQ/lisk-engine/pkg/engine/config"
	"github.com/LiskHQ/lisk-engine/pkg/engine/endpoint"
	"github.com/LiskHQ/lisk-engine/pkg/generator"
	"github.com/LiskHQ/lisk-engine/pkg/router"

	"verifharness/corr"
	"verifharness/node"
)

// Extra: model-free explorations that do not fit the line protocol.
//
//	small-scope   every pool of up to 2 (quick) / 3 (thorough) transactions over a small domain and
//	              several limits: real selectTransactionsByFee against the reference oracle
//	wallclock     the real forge WITHOUT any clock shift (1 s slots, real time): blocks are processed
//	              exactly as forge produced them (timestamp, signature); forge high, delete, forge
//	              lower, crash-restart, forge again -> contradiction check
//	endpoint      generator_setStatus / getStatus of the real endpoint against what forge reads
//	subset-agg    a generated block carrying the node's aggregate of a SUBSET of the validators
//	              (C06's known defect: the node rejects its own aggregate)
//	keys-file     Init with a keys file without "encrypted" entries
func (prop) Extra(rng *rand.Rand, tier string) corr.ExtraResult {
	res := corr.ExtraResult{Notes: map[string]any{}}
	add := func(fs []corr.Fail) { res.Fails = append(res.Fails, fs...) }

	n, fs := extraSmallScope(tier)
	res.Evaluations += n
	res.Notes["small_scope_evaluations"] = n
	res.Exhaustive = true
	add(fs)

	note, fs := extraEndpoint()
	res.Notes["endpoint"] = note
	res.Evaluations++
	add(fs)

	note, fs = extraSubsetAggregate()
	res.Notes["subset_aggregate"] = note
	res.Evaluations++
	add(fs)

	res.Notes["keys_file_plain_only"] = extraKeysFile()
	res.Evaluations++

	rounds := 1
	if tier == "thorough" {
		rounds = 3
	}
	var wall []string
	for i := 0; i < rounds; i++ {
		note, fs = extraWallClock(int64(100 + i))
		wall = append(wall, note)
		res.Evaluations++
		add(fs)
	}
	res.Notes["wallclock"] = wall

	tolerated := []string{}
	if c := atomic.LoadInt64(&cntImpliesUnset); c > 0 {
		tolerated = append(tolerated, fmt.Sprintf("c15-implies-max-prevotes-unset: %d of %d generated headers leave impliesMaxPrevotes=false where the BFT API says true (the generator never sets the field; nothing verifies it)", c, atomic.LoadInt64(&cntImpliesChecked)))
	}
	res.Notes["tolerated_findings"] = tolerated
	res.Notes["generated_blocks"] = map[string]int64{
		"forged":                         atomic.LoadInt64(&cntForged),
		"with_transactions":              atomic.LoadInt64(&cntForgedWithTxs),
		"with_nonempty_aggregate_commit": atomic.LoadInt64(&cntForgedWithAgg),
		"at_or_below_largest_height":     atomic.LoadInt64(&cntLowerForge),
		"crash_at_handoff_checks":        atomic.LoadInt64(&cntCrashChecks),
		"with_validator_change":          atomic.LoadInt64(&cntForgedVChange),
		"consensus_arguments_compared_generation_vs_validation": atomic.LoadInt64(&cntConsensusSeen),
		"contradictions_on_nonbetter_tip":                       atomic.LoadInt64(&cntNonBetterContra),
	}
	// how many generated blocks sat exactly at each limit producer and verifier share (boundary.go)
	res.Notes["boundary_blocks"] = boundaryNotes()
	add(boundaryDegenerate())
	return res
}

// ---------------------------------------------------------------------------------------------

func extraSmallScope(tier string) (int, []corr.Fail) {
	type choice struct {
		s     int
		nonce uint64
		mult  uint64
		pad   int
		v, e  byte
	}
	var choices []choice
	for s := 0; s < 2; s++ {
		for _, nonce := range []uint64{1, 2} {
			for _, mult := range []uint64{1, 2} {
				for _, pad := range []int{0, 40} {
					for _, ve := range [][2]byte{{node.TxOK, node.TxOK}, {node.TxInvalid, node.TxOK}, {node.TxOK, node.TxError}} {
						choices = append(choices, choice{s, nonce, mult, pad, ve[0], ve[1]})
					}
				}
			}
		}
	}
	txs := make([]ptx, len(choices))
	for i, c := range choices {
		p := newPtx(defaultChainID, c.s, c.nonce, 0, c.pad, c.v, c.e)
		// fee = mult * size exactly: equal multipliers tie
		for k := 0; k < 4; k++ {
			p = newPtx(defaultChainID, c.s, c.nonce, c.mult*uint64(p.size), c.pad, c.v, c.e)
		}
		txs[i] = p
	}
	maxN := 2
	if tier == "thorough" {
		maxN = 3
	}
	x := &runner{}
	count := 0
	var rec func(pool []ptx, from int)
	rec = func(pool []ptx, from int) {
		if len(x.fails) > 20 {
			return
		}
		sum := 0
		for _, p := range pool {
			sum += p.size
		}
		limits := []int{0, sum, sum - 1}
		if len(pool) > 0 {
			limits = append(limits, pool[0].size, sum-pool[0].size)
		}
		for _, limit := range limits {
			if limit < 0 {
				continue
			}
			sel, calls, err := realSelect(pool, limit)
			count++
			if err != nil {
				x.fail("c15-selection-panic", "limit %d pool %s: %v", limit, formatPool(pool), err)
				continue
			}
			x.checkSel(pool, limit, sel, "small scope")
			x.checkCalls(pool, calls, sel)
		}
		if len(pool) == maxN {
			return
		}
		for i := from; i < len(txs); i++ {
			dup := false
			for _, p := range pool {
				if p.sender == txs[i].sender && p.nonce == txs[i].nonce {
					dup = true
				}
			}
			if dup {
				continue
			}
			rec(append(append([]ptx{}, pool...), txs[i]), i+1)
		}
	}
	rec(nil, 0)
	for i := range x.fails {
		x.fails[i].Op = -1
	}
	return count, x.fails
}

// ---------------------------------------------------------------------------------------------

type respWriter struct {
	data interface{}
	err  error
}

func (w *respWriter) Write(d interface{}) { w.data = d }
func (w *respWriter) Error(e error)       { w.err = e }

// extraEndpoint: an operator moves a validator to this node and announces, through the
// generator_setStatus endpoint, the largest height the validator generated elsewhere. The next
// generated header must report it.
func extraEndpoint() (string, []corr.Fail) {
	x := &runner{op: -1}
	r, err := newRig(rigConfig{node: node.Config{NumValidators: 4, Seed: 77}, own: 1, maxSize: 15 * 1024})
	if err != nil {
		return "rig: " + err.Error(), nil
	}
	defer r.Close()
	v := r.own[0]
	cfg := &config.Config{Genesis: &config.GenesisConfig{BlockTime: r.n.Cfg.BlockTime}}
	ep := endpoint.NewGeneratorEndpoint(cfg, r.n.Chain, r.n.Exec, r.gen, r.n.DB, r.genDB, r.n.ABI).Endpoint()
	addr, _ := codec.BytesToLisk32(v.Address)
	call := func(name string, params interface{}) *respWriter {
		data, _ := json.Marshal(params)
		w := &respWriter{}
		func() {
			defer func() {
				if p := recover(); p != nil {
					w.err = fmt.Errorf("panic: %v", p)
				}
			}()
			ep[name](w, router.NewEndpointRequest(context.Background(), r.logger, data))
		}()
		return w
	}
	w := call("setStatus", map[string]interface{}{"address": addr, "height": 50, "maxHeightPreviouslyForged": 40, "maxHeightPrevoted": 0})
	if w.err != nil {
		return "setStatus: " + w.err.Error(), nil
	}
	ts, _ := r.slotTimeFor(v, 3)
	fr, err := r.forgeAt(ts, v, nil, nil)
	if err != nil {
		return fmt.Sprintf("forge: %v %v", err, fr.logs), nil
	}
	note := fmt.Sprintf("setStatus(height=50) then forge: maxHeightGenerated=%d", fr.block.Header.MaxHeightGenerated)
	if fr.block.Header.MaxHeightGenerated != 50 {
		x.fail("c15-endpoint-status-ignored", "generator_setStatus stored height 50 for the validator, the next generated header reports maxHeightGenerated=%d: endpoint and generator use different database keys", fr.block.Header.MaxHeightGenerated)
	}
	// getStatus must show what the generator stored
	w = call("getStatus", map[string]interface{}{})
	if w.err != nil {
		return note + "; getStatus: " + w.err.Error(), x.fails
	}
	found := false
	if resp, ok := w.data.(*endpoint.GetGeneratorsResponse); ok {
		for _, s := range resp.Status {
			if bytes.Equal(s.Address, v.Address) {
				found = true
				info, _ := r.rawInfo(v)
				if s.Height != info.Height || s.MaxHeightGenerated != info.MaxHeightGenerated {
					x.fail("c15-endpoint-status-ignored", "getStatus reports height %d / maxHeightGenerated %d, the generator stored %d / %d", s.Height, s.MaxHeightGenerated, info.Height, info.MaxHeightGenerated)
				}
			}
		}
	}
	if !found {
		x.fail("c15-endpoint-status-ignored", "getStatus has no entry for the address the generator stored its info under")
	}
	return note, x.fails
}

// ---------------------------------------------------------------------------------------------

func extraSubsetAggregate() (string, []corr.Fail) {
	c := corr.Case{Tag: "subset-aggregate", Ops: []string{
		"reset chain nv=4 own=1 seed=10 maxsize=15360",
		"ext 1", "ext 2", "ext 3", "forge 0 -", "ext 1", "ext 2", "ext 3",
		"certify 14", // validators 1,2,3: weight 3 = certificate threshold, not all signers
		"forge 0 -",
	}}
	out, fails := prop{}.RunImpl(c)
	for i := range fails {
		fails[i].Op = -1
	}
	return out[len(out)-1], fails
}

// ---------------------------------------------------------------------------------------------

func extraKeysFile() string {
	dir, err := os.MkdirTemp("", "c15-keysfile-")
	if err != nil {
		return err.Error()
	}
	defer os.RemoveAll(dir)
	v := node.NewValidator(5, 0)
	addr, _ := codec.BytesToLisk32(v.Address)
	file := map[string]interface{}{"keys": []interface{}{map[string]interface{}{
		"address": addr,
		"plain":   &generator.PlainKeys{GeneratorKey: v.EdPub, GeneratorPrivateKey: v.EdPriv, BLSKey: v.BLSPub, BLSPrivateKey: v.BLSPriv},
	}}}
	data, _ := json.Marshal(file)
	path := filepath.Join(dir, "keys.json")
	if err := os.WriteFile(path, data, 0o600); err != nil {
		return err.Error()
	}
	gdb, err := db.NewInMemoryDB()
	if err != nil {
		return err.Error()
	}
	defer gdb.Close()
	g := generator.NewGenerator(&generator.GeneratorParams{})
	res := "ok"
	func() {
		defer func() {
			if p := recover(); p != nil {
				res = fmt.Sprintf("tolerated finding c15-keys-file-plain-only-panics: Generator.Init panics on a keys file whose entries have no \"encrypted\" object (%v)", p)
			}
		}()
		err := g.Init(&generator.GeneratorInitParams{
			CTX: context.Background(), Logger: newRecLogger(), GeneratorDB: gdb,
			Cfg: &config.Config{
				System:    &config.SystemConfig{DataPath: dir},
				Genesis:   &config.GenesisConfig{BlockTime: 10},
				Generator: &config.GeneratorConfig{Keys: &config.KeysConfig{FromFile: path}},
			},
		})
		g.VerifStopTicker()
		if err != nil {
			res = "error: " + err.Error()
		} else if len(g.VerifEnabled()) != 1 {
			res = fmt.Sprintf("keys not enabled: %d", len(g.VerifEnabled()))
		}
	}()
	return res
}

// ---------------------------------------------------------------------------------------------

// extraWallClock runs the real forge with no clock shift at all: slots of two seconds in real time
// (with one-second slots shouldForge never fires after a missed slot: `now <= slot start + 0`).
// Validator 0 is enabled in the generator, validator 1 belongs to another node.
func extraWallClock(seed int64) (string, []corr.Fail) {
	x := &runner{op: -1}
	now := uint32(time.Now().Unix())
	r, err := newRig(rigConfig{node: node.Config{NumValidators: 2, Seed: seed, BlockTime: 2, GenesisTimestamp: now - 2}, own: 1, maxSize: 15 * 1024})
	if err != nil {
		return "rig: " + err.Error(), nil
	}
	defer r.Close()
	a, b := r.n.Validators[0], r.n.Validators[1]
	bs := func() (cur, tip int) {
		s := r.n.BlockSlot()
		return s.GetSlotNumber(uint32(time.Now().Unix())), s.GetSlotNumber(r.n.Tip().Header.Timestamp)
	}
	// waitSlot waits until the current slot is after the tip's slot and assigned to v.
	waitSlot := func(v *node.Validator) (int, bool) {
		for tries := 0; tries < 600; tries++ {
			cur, tip := bs()
			if cur > tip {
				gens, err := r.n.Generators(r.n.Height() + 1)
				if err == nil {
					g, _ := gens.AtTimestamp(r.n.BlockSlot(), uint32(time.Now().Unix()))
					s := r.n.BlockSlot()
					late := uint32(time.Now().Unix()) > s.GetSlotTime(cur) // second half of the slot: past the wait threshold
					if bytes.Equal(g.Address(), v.Address) && late {
						return cur - tip, true
					}
				}
			}
			time.Sleep(25 * time.Millisecond)
		}
		return 0, false
	}
	var hdrs []*blockchain.BlockHeader
	maxGen := uint32(0)
	steps := ""
	forge := func() bool {
		for attempt := 0; attempt < 5; attempt++ {
			if _, ok := waitSlot(a); !ok {
				break
			}
			r.pool.VerifC15SetProcessable(nil)
			r.logger.take()
			r.cons.mu.Lock()
			r.cons.offset = 0
			r.cons.handed = nil
			r.cons.handoff = nil
			r.cons.mu.Unlock()
			r.gen.VerifForge()
			r.cons.mu.Lock()
			handed := r.cons.handed
			r.cons.handed = nil
			r.cons.mu.Unlock()
			if len(handed) != 1 {
				continue // the slot passed between waiting and forging
			}
			blk := handed[0]
			h := blk.Header
			if h.MaxHeightGenerated != maxGen {
				x.fail("c15-max-height-generated", "wall clock: forge at height %d reports maxHeightGenerated %d, largest height generated before is %d", h.Height, h.MaxHeightGenerated, maxGen)
			}
			if h.Height > maxGen {
				maxGen = h.Height
			}
			for _, e := range hdrs {
				if contradiction.AreDistinctHeadersContradicting(contradiction.NewBFTBlockHeader(e.Readonly()), contradiction.NewBFTBlockHeader(h.Readonly())) && better(e, h) {
					x.fail("c15-self-contradiction", "wall clock: header (h=%d mhg=%d mhp=%d) contradicts earlier header (h=%d mhg=%d mhp=%d)", h.Height, h.MaxHeightGenerated, h.MaxHeightPrevoted, e.Height, e.MaxHeightGenerated, e.MaxHeightPrevoted)
				}
			}
			hdrs = append(hdrs, h)
			res := r.n.ProcessResult(blk) // exactly as forged: wall-clock timestamp, generator's signature
			if !res.Applied {
				x.fail("c15-forged-block-rejected", "wall clock: block at height %d exactly as forged is rejected: %v (%s)", h.Height, res.Err, res.ForkChoice)
			}
			steps += fmt.Sprintf(" forge@%d(mhg=%d)", h.Height, h.MaxHeightGenerated)
			return true
		}
		steps += " forge:no-slot"
		return false
	}
	ext := func() bool {
		for attempt := 0; attempt < 5; attempt++ {
			d, ok := waitSlot(b)
			if !ok {
				break
			}
			blk, err := r.n.BuildBlock(node.BlockOpts{Generator: b, SlotsAhead: d})
			if err != nil {
				continue
			}
			if res := r.n.ProcessResult(blk); res.Applied {
				steps += fmt.Sprintf(" ext@%d", blk.Header.Height)
				return true
			}
		}
		steps += " ext:failed"
		return false
	}
	ok := forge() && ext() && forge() // heights 1, 2, 3
	if ok {
		_ = r.n.DeleteTip(false)
		_ = r.n.DeleteTip(false) // tip: height 1
		steps += " del2"
		ok = forge() // height 2, reports 3
	}
	if ok {
		if err := r.Restart(true); err != nil {
			return steps + " restart: " + err.Error(), x.fails
		}
		steps += " crash-restart"
		ok = ext() && forge() // height 3 (other node), height 4: must report 3
	}
	if !ok {
		steps += " (incomplete: timing)"
	}
	return steps, x.fails
}
