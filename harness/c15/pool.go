package c15

import (
	"bytes"
	"fmt"
	"sort"
	"strconv"
	"strings"
	"sync"

	"github.com/LiskHQ/lisk-engine/pkg/blockchain"
	"github.com/LiskHQ/lisk-engine/pkg/codec"

	"verifharness/node"
)

// ---------------------------------------------------------------------------------------------
// Pool transactions of the line protocol: `s:n:f:p:z:v:e`
//   s sender index, n nonce, f fee, p parameter padding (bytes after the two verdict bytes),
//   z encoded size (what Transaction.Size() returns; checked when the transaction is rebuilt),
//   v / e verdict bytes of the mock application for VerifyTransaction / ExecuteTransaction.
// ---------------------------------------------------------------------------------------------

type ptx struct {
	sender int
	nonce  uint64
	fee    uint64
	pad    int
	size   int
	v, e   byte
	tx     *blockchain.Transaction
}

func (p ptx) String() string {
	return fmt.Sprintf("%d:%d:%d:%d:%d:%d:%d", p.sender, p.nonce, p.fee, p.pad, p.size, p.v, p.e)
}

// ok: the generator keeps the transaction (verification Ok, execution neither error nor invalid).
func (p ptx) ok() bool {
	return p.v == node.TxOK && (p.e == node.TxOK || p.e == node.TxFail)
}

func (p ptx) prio() uint64 { return p.fee / uint64(p.size) }

var (
	sendersMu sync.Mutex
	senders   []*node.Validator
)

// sender returns the key holder used as transaction sender #i (shared by all cases).
func sender(i int) *node.Validator {
	sendersMu.Lock()
	defer sendersMu.Unlock()
	for len(senders) <= i {
		senders = append(senders, node.NewValidator(915015, 1000+len(senders)))
	}
	return senders[i]
}

var defaultChainID = []byte{4, 0, 0, 0x99}

// buildTx creates the signed transaction (as node.NewTransaction does).
func buildTx(chainID []byte, s int, nonce, fee uint64, pad int, v, e byte) *blockchain.Transaction {
	snd := sender(s)
	params := make([]byte, 2+pad)
	params[0], params[1] = v, e
	for i := 2; i < len(params); i++ {
		params[i] = byte(i)
	}
	tx := &blockchain.Transaction{
		Module:          "token",
		Command:         "transfer",
		Nonce:           nonce,
		Fee:             fee,
		SenderPublicKey: append([]byte{}, snd.EdPub...),
		Params:          params,
	}
	tx.Signatures = []codec.Hex{tx.GetSignature(chainID, snd.EdPriv)}
	tx.Init()
	return tx
}

func newPtx(chainID []byte, s int, nonce, fee uint64, pad int, v, e byte) ptx {
	tx := buildTx(chainID, s, nonce, fee, pad, v, e)
	return ptx{sender: s, nonce: nonce, fee: fee, pad: pad, size: tx.Size(), v: v, e: e, tx: tx}
}

func formatPool(pool []ptx) string {
	if len(pool) == 0 {
		return "-"
	}
	parts := make([]string, len(pool))
	for i, p := range pool {
		parts[i] = p.String()
	}
	return strings.Join(parts, ",")
}

func parsePool(chainID []byte, s string) ([]ptx, error) {
	if s == "-" {
		return nil, nil
	}
	var res []ptx
	for _, item := range strings.Split(s, ",") {
		f := strings.Split(item, ":")
		if len(f) != 7 {
			return nil, fmt.Errorf("bad tx %q", item)
		}
		var nums [7]uint64
		for i, x := range f {
			n, err := strconv.ParseUint(x, 10, 64)
			if err != nil {
				return nil, fmt.Errorf("bad tx %q", item)
			}
			nums[i] = n
		}
		p := newPtx(chainID, int(nums[0]), nums[1], nums[2], int(nums[3]), byte(nums[5]), byte(nums[6]))
		if p.size != int(nums[4]) {
			return nil, fmt.Errorf("tx %q: encoded size is %d", item, p.size)
		}
		res = append(res, p)
	}
	return res, nil
}

func poolTxs(pool []ptx) []*blockchain.Transaction {
	res := make([]*blockchain.Transaction, len(pool))
	for i, p := range pool {
		res[i] = p.tx
	}
	return res
}

// indexOf maps selected transactions back to pool positions (-1: not a pool transaction).
func indexOf(pool []ptx, sel []*blockchain.Transaction) []int {
	res := make([]int, len(sel))
	for i, tx := range sel {
		res[i] = -1
		for j, p := range pool {
			if bytes.Equal(p.tx.ID, tx.ID) {
				res[i] = j
				break
			}
		}
	}
	return res
}

func formatIdx(idx []int) string {
	if len(idx) == 0 {
		return "-"
	}
	parts := make([]string, len(idx))
	for i, x := range idx {
		parts[i] = strconv.Itoa(x)
	}
	return strings.Join(parts, ",")
}

func parseIdx(s string) ([]int, error) {
	if s == "-" {
		return nil, nil
	}
	var res []int
	for _, x := range strings.Split(s, ",") {
		n, err := strconv.Atoi(x)
		if err != nil {
			return nil, err
		}
		res = append(res, n)
	}
	return res, nil
}

// ---------------------------------------------------------------------------------------------
// Model-free oracle for a selection result (indices into the pool, in block order).
// ---------------------------------------------------------------------------------------------

type selViolation struct{ sig, detail string }

// checkSelection checks the four selection clauses of the property on a result:
//
//	nonce order  - per sender the selected transactions are a prefix of its nonce-sorted list,
//	size bound   - total size <= maxSize,
//	priority     - replaying the result, every pick is a head of maximal fee priority at that
//	               moment, every head that had to be popped before it either failed (and is
//	               skipped with its sender) or - for the end of the loop - did not fit,
//	skipping     - no transaction of a sender at or after its first failing transaction.
//
// It is a reference implementation in Go of "possible result under some tie-break"; it does not
// use the Lean model.
func checkSelection(pool []ptx, maxSize int, sel []int) []selViolation {
	var res []selViolation
	bad := func(sig, f string, a ...interface{}) { res = append(res, selViolation{sig, fmt.Sprintf(f, a...)}) }
	seen := map[int]bool{}
	total := 0
	for _, i := range sel {
		if i < 0 || i >= len(pool) {
			bad("c15-selection-foreign-tx", "selected transaction is not in the pool")
			return res
		}
		if seen[i] {
			bad("c15-selection-duplicate", "pool transaction %d selected twice", i)
			return res
		}
		seen[i] = true
		total += pool[i].size
		if !pool[i].ok() {
			bad("c15-selection-includes-failed", "transaction %d (%s) failed verification/execution but is selected", i, pool[i])
		}
	}
	if total > maxSize {
		bad("c15-selection-size-bound", "selected %d bytes > limit %d", total, maxSize)
	}
	// per-sender nonce-sorted lists (pool positions)
	lists := map[int][]int{}
	var order []int
	for i, p := range pool {
		if _, ok := lists[p.sender]; !ok {
			order = append(order, p.sender)
		}
		lists[p.sender] = append(lists[p.sender], i)
	}
	for _, l := range lists {
		sort.SliceStable(l, func(a, b int) bool { return pool[l[a]].nonce < pool[l[b]].nonce })
	}
	// nonce order + skipping
	taken := map[int]int{}
	for _, i := range sel {
		s := pool[i].sender
		l := lists[s]
		k := taken[s]
		if k >= len(l) || l[k] != i {
			bad("c15-selection-nonce-order", "transaction %d (%s) selected although it is not the next nonce of its sender", i, pool[i])
			return res
		}
		taken[s] = k + 1
	}
	for s, l := range lists {
		for k := 0; k < taken[s]; k++ {
			if !pool[l[k]].ok() {
				bad("c15-selection-skips-failed-sender", "sender %d: transaction %d failed but later nonces were selected", s, l[k])
			}
		}
	}
	if len(res) > 0 {
		return res
	}
	// replay: greedy priority; every tie-break among heads of equal priority is tried
	pos := map[int]int{} // sender -> index of its head in lists[s]
	active := map[int]bool{}
	for _, s := range order {
		active[s] = true
	}
	var possible func(size int, rest []int, depth int) bool
	possible = func(size int, rest []int, depth int) bool {
		if depth > 2*len(pool)+2 {
			return false
		}
		var heads []int
		for _, s := range order {
			if active[s] {
				heads = append(heads, lists[s][pos[s]])
			}
		}
		if len(heads) == 0 {
			return len(rest) == 0 // pool exhausted
		}
		m := uint64(0)
		for _, h := range heads {
			if pool[h].prio() > m {
				m = pool[h].prio()
			}
		}
		for _, c := range heads {
			if pool[c].prio() != m {
				continue
			}
			// heap.Pop may return c
			s := pool[c].sender
			switch {
			case pool[c].size+size > maxSize: // does not fit: the loop ends here
				if len(rest) == 0 {
					return true
				}
			case !pool[c].ok(): // fails: the sender is dropped
				active[s] = false
				ok := possible(size, rest, depth+1)
				active[s] = true
				if ok {
					return true
				}
			default: // passes: it is the next selected transaction
				if len(rest) > 0 && rest[0] == c {
					pos[s]++
					exhausted := pos[s] >= len(lists[s])
					if exhausted {
						active[s] = false
					}
					ok := possible(size+pool[c].size, rest[1:], depth+1)
					pos[s]--
					active[s] = true
					if ok {
						return true
					}
				}
			}
		}
		return false
	}
	if !possible(0, sel, 0) {
		bad("c15-selection-greedy-priority", "the result is not a possible outcome of popping a head of maximal fee priority in every step (under any tie-break): some pick was not maximal among the senders' next transactions, or the loop ended although a maximal head fitted and passed")
	}
	return res
}

// hasCrossSenderTie reports whether two transactions of different senders have the same fee
// priority (then the result of the real selection depends on Go's map iteration order).
func hasCrossSenderTie(pool []ptx) bool {
	by := map[uint64]int{}
	for _, p := range pool {
		if s, ok := by[p.prio()]; ok && s != p.sender {
			return true
		}
		by[p.prio()] = p.sender
	}
	return false
}
