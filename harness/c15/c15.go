// Package c15: correspondence and model-free oracle for the block generator (pkg/generator):
// transaction selection (selectTransactionsByFee), validity of generated blocks on the node
// harness, and the generator never contradicting itself across deletes, chain switches and
// restarts. The real Generator.forge runs unmodified inside a shifted clock (see rig.go).
//
// Line protocol (one output line per op; the Lean driver is lean/Driver/Generator.lean):
//
//	reset sel                                   -> ok
//	sel <maxSize> <pool>                        -> sel <i,j,..|-> size=<bytes>     (pool without cross-sender priority ties)
//	selt <maxSize> <pool> <claimed>             -> valid|invalid                   (pool with ties; claimed = a real output)
//	reset chain nv=<N> own=<k> seed=<s> maxsize=<M>  -> ok    (validators 0..k-1 are enabled in the generator)
//	ext <j>                                     -> h=<height>      (validator j, another node's generator, extends the tip)
//	forge <i> <pool>                            -> forged h= mhg= info=<H>/<G> sel= acc=1   (real forge for own validator i, block processed)
//	forge <i> <pool> vc=<w0-w1-..>[/<pc>/<ct>]  -> forged ... acc=1          (as forge; the application answers AfterTransactionsExecute of this
//	                                                                          block with new BFT weights w_j of validators 0..N-1 and thresholds
//	                                                                          pc/ct, default floor(2W/3)+1 - while the generator dry-runs the block
//	                                                                          and when the node executes it)
//	forgedrop <i> <pool>                        -> forged ... acc=0          (block handed on but lost)
//	forgecrash <i> <pool>                       -> forged ... acc=0          (process dies at the hand-off; generator DB loses unsynced data; restart)
//	del <k>                                     -> h=<height>      (Executer.deleteBlock on the tip, k times)
//	restart | crash                             -> ok              (generator DB reopened [after dropping unsynced data], new Chain/Executer/Generator)
//	info <i>                                    -> info=<H>/<G> | info=none   (stored GeneratorInfo: Height/MaxHeightGenerated)
//	certify <mask>                              -> ok              (validators in mask certify the newest precommitted height)
//
// Boundary families (boundary.go): `reset chain … vmax=<V>` gives the node's block verification the payload limit V
// (the engine gives Chain and Generator the same configuration value; without the key the node keeps 15 KiB);
// `forge <i> <pool> w=first|last` runs forge in the first / last second of the slot in which it may generate;
// a forged block above the VERIFIER's limit (only possible with vmax < maxsize) must be rejected: acc=0;
//
//	vprobe <j> <pool>                           -> vprobe total=<bytes> acc=<0|1>  (block of another generator carrying the whole pool, verifyBlock only)
//
// pool = `s:n:f:p:z:v:e,...` (see pool.go) or `-`.
package c15

import (
	"bytes"
	"encoding/hex"
	"errors"
	"fmt"
	"math/rand"
	"strconv"
	"strings"
	"sync"
	"sync/atomic"

	"github.com/LiskHQ/lisk-engine/pkg/blockchain"
	"github.com/LiskHQ/lisk-engine/pkg/consensus/contradiction"
	"github.com/LiskHQ/lisk-engine/pkg/generator"
	"github.com/LiskHQ/lisk-engine/pkg/labi"

	"verifharness/corr"
	"verifharness/node"
)

type prop struct{}

func init() { corr.Register(prop{}) }

func (prop) ID() string    { return "C15" }
func (prop) Parallel() int { return 4 }

// counters reported in Extra notes
var (
	cntForged          int64
	cntForgedWithAgg   int64
	cntForgedWithTxs   int64
	cntLowerForge      int64
	cntNonBetterContra int64
	cntImpliesUnset    int64
	cntImpliesChecked  int64
	cntCrashChecks     int64
	cntForgedVChange   int64
)

// ---------------------------------------------------------------------------------------------
// generation
// ---------------------------------------------------------------------------------------------

func genVerdicts(rng *rand.Rand, failRate int) (byte, byte) {
	if rng.Intn(100) >= failRate {
		if rng.Intn(5) == 0 {
			return node.TxOK, node.TxFail // executed but failed: stays in the block
		}
		return node.TxOK, node.TxOK
	}
	switch rng.Intn(5) {
	case 0:
		return node.TxInvalid, node.TxOK
	case 1:
		return node.TxError, node.TxOK
	case 2:
		return node.TxFail, node.TxOK // verify: pending
	case 3:
		return node.TxOK, node.TxInvalid
	default:
		return node.TxOK, node.TxError
	}
}

func genPad(rng *rand.Rand) int {
	switch rng.Intn(4) {
	case 0:
		return 0
	case 1:
		return rng.Intn(8)
	case 2:
		return 20 + rng.Intn(100)
	default:
		return 100 + rng.Intn(400)
	}
}

// genPool generates a pool: senders with nonce runs (sometimes with gaps), fees chosen through a
// target fee priority. ties=false: no two transactions of different senders share a fee priority.
func genPool(rng *rand.Rand, chainID []byte, maxSenders, maxTxs int, ties bool, failRate int) []ptx {
	nTx := rng.Intn(maxTxs + 1)
	nSenders := 1 + rng.Intn(maxSenders)
	prioRange := uint64(3 + rng.Intn(40))
	if ties {
		prioRange = uint64(1 + rng.Intn(4))
	}
	nextNonce := map[int]uint64{}
	used := map[uint64]int{}
	var pool []ptx
	for i := 0; i < nTx; i++ {
		s := rng.Intn(nSenders)
		if _, ok := nextNonce[s]; !ok {
			nextNonce[s] = uint64(rng.Intn(4))
			if rng.Intn(10) == 0 {
				nextNonce[s] = 1 << 33 // multi-byte varint nonce
			}
		}
		nonce := nextNonce[s]
		nextNonce[s] = nonce + 1
		if rng.Intn(8) == 0 {
			nextNonce[s] += uint64(1 + rng.Intn(3)) // gap
		}
		v, e := genVerdicts(rng, failRate)
		pad := genPad(rng)
		target := uint64(rng.Intn(int(prioRange)))
		if rng.Intn(15) == 0 {
			target = 0 // fee below size: priority 0
		}
		p := newPtx(chainID, s, nonce, 0, pad, v, e)
		for tries := 0; tries < 200; tries++ {
			fee := target * uint64(p.size)
			if !ties {
				fee += uint64(rng.Intn(p.size))
			}
			p = newPtx(chainID, s, nonce, fee, pad, v, e)
			if ties {
				break
			}
			if o, taken := used[p.prio()]; !taken || o == s {
				break
			}
			target++
		}
		used[p.prio()] = s
		pool = append(pool, p)
	}
	rng.Shuffle(len(pool), func(i, j int) { pool[i], pool[j] = pool[j], pool[i] })
	return pool
}

// genTieFreePool: a pool on which the real selection is deterministic (no two senders share a fee priority).
func genTieFreePool(rng *rand.Rand, maxSenders, maxTxs int) []ptx {
	for {
		pool := genPool(rng, defaultChainID, maxSenders, maxTxs, false, 15)
		if !hasCrossSenderTie(pool) {
			return pool
		}
	}
}

// genLimit picks a size limit: from smaller than any transaction to larger than the whole pool,
// with exact-fit boundaries.
func genLimit(rng *rand.Rand, pool []ptx) int {
	sum, min := 0, 1<<30
	var okSizes []int
	for _, p := range pool {
		sum += p.size
		if p.size < min {
			min = p.size
		}
		if p.ok() {
			okSizes = append(okSizes, p.size)
		}
	}
	if len(pool) == 0 {
		return rng.Intn(500)
	}
	switch rng.Intn(10) {
	case 0:
		return 0
	case 1:
		return min - 1
	case 2:
		return min
	case 3:
		return sum
	case 4:
		return sum - 1
	case 5:
		return 15 * 1024
	case 6, 7:
		// exact / off-by-one around the sum of some transactions that pass
		t := 0
		for _, z := range okSizes {
			if rng.Intn(2) == 0 {
				t += z
			}
		}
		return t + rng.Intn(3) - 1 + 1
	default:
		return rng.Intn(sum + 20)
	}
}

var selABIOnce sync.Once
var selABIMu sync.Mutex
var selABI genABI

// realSelect runs the real selectTransactionsByFee on a fresh execution context of a mock application.
func realSelect(pool []ptx, maxSize int) ([]int, []abiCall, error) {
	selABIMu.Lock()
	defer selABIMu.Unlock()
	selABIOnce.Do(func() {
		m := node.NewMockABI()
		m.LogCalls = false
		selABI = newGenABI(m)
	})
	selABI.takeLog()
	var sel []*blockchain.Transaction
	var err error
	func() {
		defer func() {
			if p := recover(); p != nil {
				err = &node.PanicError{Value: p}
			}
		}()
		sel, err = generator.VerifSelectTransactions(selABI, &blockchain.BlockHeader{Version: 2, Height: 1}, poolTxs(pool), maxSize)
	}()
	calls := selABI.takeLog()
	if err != nil {
		return nil, calls, err
	}
	return indexOf(pool, sel), calls, nil
}

func genSelCase(rng *rand.Rand) corr.Case {
	ops := []string{"reset sel"}
	n := 1 + rng.Intn(3)
	for i := 0; i < n; i++ {
		pool := genTieFreePool(rng, 5, 14)
		ops = append(ops, fmt.Sprintf("sel %d %s", genLimit(rng, pool), formatPool(pool)))
	}
	return corr.Case{Ops: ops, Tag: "sel"}
}

func genSelTieCase(rng *rand.Rand) corr.Case {
	ops := []string{"reset sel"}
	n := 1 + rng.Intn(2)
	for i := 0; i < n; i++ {
		pool := genPool(rng, defaultChainID, 5, 10, true, 15)
		limit := genLimit(rng, pool)
		claimed, _, err := realSelect(pool, limit)
		c := formatIdx(claimed)
		if err != nil {
			c = "-"
		}
		ops = append(ops, fmt.Sprintf("selt %d %s %s", limit, formatPool(pool), c))
	}
	return corr.Case{Ops: ops, Tag: "selt"}
}

// chain case generation -------------------------------------------------------------------------

type chainGen struct {
	rng     *rand.Rand
	nv, own int
	weights string // "" = all 1
	maxSize int
	height  int
	ops     []string
}

func (g *chainGen) reset(seed int) {
	op := fmt.Sprintf("reset chain nv=%d own=%d seed=%d maxsize=%d", g.nv, g.own, seed, g.maxSize)
	if g.weights != "" {
		op += " weights=" + g.weights
	}
	g.ops = []string{op}
	g.height = 0
}

func (g *chainGen) pool() string {
	if g.rng.Intn(100) < 55 {
		return "-"
	}
	return formatPool(genTieFreePool(g.rng, 4, 8))
}

func (g *chainGen) ext(j int) { g.ops = append(g.ops, fmt.Sprintf("ext %d", j)); g.height++ }
func (g *chainGen) forge(i int) {
	g.ops = append(g.ops, fmt.Sprintf("forge %d %s", i, g.pool()))
	g.height++
}
func (g *chainGen) forgeKind(i int) {
	switch r := g.rng.Intn(100); {
	case r < 76:
		g.forge(i)
	case r < 88:
		g.ops = append(g.ops, fmt.Sprintf("forgedrop %d %s", i, g.pool()))
	default:
		g.ops = append(g.ops, fmt.Sprintf("forgecrash %d %s", i, g.pool()))
	}
}
func (g *chainGen) del(k int) {
	if k > g.height {
		k = g.height
	}
	if k <= 0 {
		return
	}
	g.ops = append(g.ops, fmt.Sprintf("del %d", k))
	g.height -= k
}
func (g *chainGen) sprinkle() {
	switch r := g.rng.Intn(100); {
	case r < 8:
		g.ops = append(g.ops, "restart")
	case r < 14:
		g.ops = append(g.ops, "crash")
	case r < 20:
		g.ops = append(g.ops, fmt.Sprintf("info %d", g.rng.Intn(g.own)))
	}
}

// quiet chains: fewer active generators than the prevote threshold, so nothing is ever prevoted or
// finalized and blocks can be deleted to any depth. Random interleaving of all ops.
func genChainQuiet(rng *rand.Rand, seed int) corr.Case {
	type shape struct{ nv, own, foreign int }
	shapes := []shape{{7, 1, 2}, {7, 2, 2}, {4, 1, 1}, {5, 2, 1}, {7, 1, 3}}
	sh := shapes[rng.Intn(len(shapes))]
	g := &chainGen{rng: rng, nv: sh.nv, own: sh.own, maxSize: []int{400, 900, 15 * 1024}[rng.Intn(3)]}
	g.reset(seed)
	n := 8 + rng.Intn(22)
	for i := 0; i < n; i++ {
		switch r := rng.Intn(100); {
		case r < 35:
			g.ext(sh.own + rng.Intn(sh.foreign))
		case r < 75:
			g.forgeKind(rng.Intn(sh.own))
		case r < 90:
			k := 1 + rng.Intn(3)
			if rng.Intn(4) == 0 {
				k = 1 + rng.Intn(8)
			}
			g.del(k)
		default:
			g.sprinkle()
		}
	}
	return corr.Case{Ops: g.ops, Tag: "chain-quiet"}
}

// the scenario of the property: the own validator generates on a long chain kept alive by few
// generators (nothing prevoted), the node moves to a better but SHORTER chain built by a quorum of
// other generators (maxHeightPrevoted rises), and the validator generates again below its largest
// height, several times, with restarts in between.
func genChainSwitch(rng *rand.Rand, seed int) corr.Case {
	// own validators and one more generator (weight 1 each) keep the old chain alive: their weight
	// stays below the prevote threshold. Three generators of weight 3 form the quorum that builds
	// the competing chain (threshold: 8 of 11 resp. 9 of 12).
	own := 1 + rng.Intn(2)
	g := &chainGen{rng: rng, nv: own + 4, own: own, maxSize: []int{600, 15 * 1024}[rng.Intn(2)]}
	g.weights = strings.TrimSuffix(strings.Repeat("1-", own+1), "-") + "-3-3-3"
	g.reset(seed)
	quiet := own
	quorum := []int{own + 1, own + 2, own + 3}
	oldLen := 8 + rng.Intn(8)
	for g.height < oldLen {
		if rng.Intn(3) == 0 {
			g.forgeKind(rng.Intn(g.own))
		} else {
			g.ext(quiet)
		}
		if rng.Intn(6) == 0 {
			g.sprinkle()
		}
	}
	g.forge(rng.Intn(g.own)) // the largest height generated
	if rng.Intn(2) == 0 {
		g.sprinkle()
	}
	// move to the competing chain: delete at least 5 blocks, the quorum builds 3..5 blocks
	k := 5 + rng.Intn(g.height-5)
	if k > g.height-1 {
		k = g.height - 1
	}
	g.del(k)
	rng.Shuffle(len(quorum), func(i, j int) { quorum[i], quorum[j] = quorum[j], quorum[i] })
	nNew := 3 + rng.Intn(3)
	for i := 0; i < nNew; i++ {
		g.ext(quorum[i%len(quorum)])
	}
	// generate below the largest height, repeatedly, with restarts in between
	n := 2 + rng.Intn(4)
	for i := 0; i < n; i++ {
		g.forgeKind(rng.Intn(g.own))
		if rng.Intn(2) == 0 {
			g.sprinkle()
		}
		if rng.Intn(3) == 0 {
			g.ext(quorum[rng.Intn(len(quorum))])
		}
	}
	g.ops = append(g.ops, fmt.Sprintf("info %d", rng.Intn(g.own)))
	return corr.Case{Ops: g.ops, Tag: "chain-switch"}
}

// live chains: all four validators generate in slot order, blocks get prevoted, precommitted and
// certified; the generated blocks carry non-empty aggregate commits and transactions.
func genChainLive(rng *rand.Rand, seed int) corr.Case {
	g := &chainGen{rng: rng, nv: 4, own: 1 + rng.Intn(2), maxSize: []int{500, 1200, 15 * 1024}[rng.Intn(3)]}
	g.reset(seed)
	n := 10 + rng.Intn(16)
	justDeleted := true
	for cursor := 1; cursor <= n; cursor++ {
		v := cursor % g.nv // validators take turns in slot order
		if v < g.own {
			if rng.Intn(6) == 0 {
				g.ops = append(g.ops, fmt.Sprintf("forgedrop %d %s", v, g.pool())) // the slot is missed
			} else {
				g.forge(v)
				justDeleted = false
			}
		} else if rng.Intn(12) != 0 {
			g.ext(v)
			justDeleted = false
		}
		switch r := rng.Intn(100); {
		case r < 30:
			g.ops = append(g.ops, fmt.Sprintf("certify %d", (1<<g.nv)-1))
		case r < 36 && !justDeleted && g.height > 1:
			g.del(1)
			justDeleted = true
		case r < 44:
			g.sprinkle()
		}
	}
	return corr.Case{Ops: g.ops, Tag: "chain-live"}
}

// validator-change chains: the application answers AfterTransactionsExecute of some generated blocks
// with new BFT weights and / or thresholds (what a PoS module does at the end of a round). The
// generated block must carry the validatorsHash of the parameters that are valid from the next
// height on, i.e. the changed ones - the node computes exactly that when it executes the block.
// All validators keep a positive weight, so the slot order never changes; no deletes (the
// changed thresholds move finality).
func genChainVChange(rng *rand.Rand, seed int) corr.Case {
	g := &chainGen{rng: rng, nv: 4, own: 1 + rng.Intn(3), maxSize: []int{500, 1200, 15 * 1024}[rng.Intn(3)]}
	g.reset(seed)
	weights := []int{1, 1, 1, 1}
	n := 6 + rng.Intn(14)
	for cursor := 1; cursor <= n; cursor++ {
		v := cursor % g.nv
		if v < g.own {
			op := fmt.Sprintf("forge %d %s", v, g.pool())
			if rng.Intn(100) < 45 {
				total := 0
				switch rng.Intn(4) {
				case 0: // thresholds only (same weights)
				default:
					for j := range weights {
						if rng.Intn(2) == 0 {
							weights[j] = 1 + rng.Intn(4)
						}
					}
				}
				ws := make([]string, len(weights))
				for j, w := range weights {
					ws[j] = strconv.Itoa(w)
					total += w
				}
				op += " vc=" + strings.Join(ws, "-")
				if rng.Intn(3) == 0 {
					// explicit thresholds anywhere in the admissible range [floor(W/3)+1, W]
					lo := total/3 + 1
					op += fmt.Sprintf("/%d/%d", lo+rng.Intn(total-lo+1), lo+rng.Intn(total-lo+1))
				}
			}
			g.ops = append(g.ops, op)
			g.height++
		} else if rng.Intn(10) != 0 {
			g.ext(v)
		}
		switch r := rng.Intn(100); {
		case r < 25:
			g.ops = append(g.ops, fmt.Sprintf("certify %d", (1<<g.nv)-1))
		case r < 33:
			g.sprinkle()
		}
	}
	return corr.Case{Ops: g.ops, Tag: "chain-vchange"}
}

func (prop) Generate(rng *rand.Rand, tier string) []corr.Case {
	nSel, nTie, nQuiet, nSwitch, nLive := 700, 300, 120, 80, 60
	if tier == "thorough" {
		nSel, nTie, nQuiet, nSwitch, nLive = 20000, 8000, 2500, 1500, 1200
	}
	var cases []corr.Case
	// the counterexample of the unpatched rule first: 10 / 8 / 9
	cases = append(cases, corr.Case{Tag: "chain-10-8-9", Ops: []string{
		"reset chain nv=5 own=1 seed=3 maxsize=15360 weights=1-1-3-3-3",
		"ext 1", "ext 1", "ext 1", "ext 1", "ext 1", "ext 1", "ext 1", "ext 1", "ext 1",
		"forge 0 -", "del 6", "ext 2", "ext 3", "ext 4",
		"forge 0 -", "restart", "forge 0 -", "info 0",
	}})
	for i := 0; i < nSel; i++ {
		cases = append(cases, genSelCase(rng))
	}
	for i := 0; i < nTie; i++ {
		cases = append(cases, genSelTieCase(rng))
	}
	for i := 0; i < nQuiet; i++ {
		cases = append(cases, genChainQuiet(rng, 1+rng.Intn(50)))
	}
	for i := 0; i < nSwitch; i++ {
		cases = append(cases, genChainSwitch(rng, 1+rng.Intn(50)))
	}
	for i := 0; i < nLive; i++ {
		cases = append(cases, genChainLive(rng, 1+rng.Intn(50)))
	}
	// (generated last: the cases above keep their random streams)
	nVC := 60
	if tier == "thorough" {
		nVC = 1200
	}
	// a generated block whose AfterTransactionsExecute answers with new weights, then one with new thresholds only
	cases = append(cases, corr.Case{Tag: "chain-vchange", Ops: []string{
		"reset chain nv=4 own=2 seed=7 maxsize=15360",
		"forge 1 - vc=3-1-1-1", "ext 2", "ext 3", "forge 0 - vc=3-1-1-1/3/6", "forge 1 -", "info 1",
	}})
	for i := 0; i < nVC; i++ {
		cases = append(cases, genChainVChange(rng, 1+rng.Intn(50)))
	}
	// generated blocks into which the application inserts several assets, handed over in non-module order
	cases = append(cases, corr.Case{Tag: "chain-assets", Ops: []string{
		"reset chain nv=4 own=2 seed=9 maxsize=15360",
		"forge 1 - as=2", "ext 2", "ext 3", "forge 0 - as=4", "forge 1 - as=1", "info 1",
	}})
	for i := 0; i < nVC/6; i++ {
		g := &chainGen{rng: rng, nv: 4, own: 1 + rng.Intn(3), maxSize: 15 * 1024}
		g.reset(1 + rng.Intn(50))
		n := 4 + rng.Intn(8)
		for cursor := 1; cursor <= n; cursor++ {
			v := cursor % g.nv
			if v < g.own {
				op := fmt.Sprintf("forge %d %s", v, g.pool())
				if rng.Intn(3) != 0 {
					op += fmt.Sprintf(" as=%d", 1+rng.Intn(4))
				}
				g.ops = append(g.ops, op)
				g.height++
			} else {
				g.ext(v)
			}
		}
		cases = append(cases, corr.Case{Ops: g.ops, Tag: "chain-assets"})
	}
	// producer / verifier at the boundary values of the limits they share (boundary.go)
	cases = append(cases, genBoundaryCases(rng, tier)...)
	return cases
}

// ---------------------------------------------------------------------------------------------
// runner
// ---------------------------------------------------------------------------------------------

type signedHdr struct {
	h       *blockchain.BlockHeader
	applied bool
}

type runner struct {
	fails []corr.Fail
	op    int

	r         *rig
	certified map[int]uint32       // validator -> height it already certified (the pool keeps duplicates)
	maxGen    map[int]uint32       // reference: largest height of a header of own validator i that reached the hand-off
	signed    map[int][]*signedHdr // all headers handed on by validator i, oldest first

	boundaryClass string // boundary class of the block forged last (boundary.go): suffix of the rejection signature
}

func (x *runner) fail(sig, f string, a ...interface{}) {
	x.fails = append(x.fails, corr.Fail{Sig: sig, Detail: fmt.Sprintf(f, a...), Op: x.op})
}

func (x *runner) close() {
	if x.r != nil {
		x.r.Close()
		x.r = nil
	}
}

func kv(words []string, key string) (int, bool) {
	for _, w := range words {
		if strings.HasPrefix(w, key+"=") {
			n, err := strconv.Atoi(w[len(key)+1:])
			return n, err == nil
		}
	}
	return 0, false
}

func (prop) RunImpl(c corr.Case) ([]string, []corr.Fail) {
	x := &runner{}
	defer x.close()
	out := make([]string, len(c.Ops))
	for i, op := range c.Ops {
		x.op = i
		func() {
			defer func() {
				if p := recover(); p != nil {
					out[i] = "panic"
					x.fail("c15-panic", "op %q: %v", op, p)
				}
			}()
			out[i] = x.step(strings.Fields(op))
		}()
	}
	return out, x.fails
}

func (x *runner) step(w []string) string {
	if len(w) == 0 {
		return "bad-op"
	}
	switch w[0] {
	case "reset":
		x.close()
		x.maxGen = map[int]uint32{}
		x.signed = map[int][]*signedHdr{}
		x.certified = map[int]uint32{}
		if len(w) >= 2 && w[1] == "sel" {
			return "ok"
		}
		if len(w) >= 2 && w[1] == "chain" {
			nv, _ := kv(w, "nv")
			own, _ := kv(w, "own")
			seed, _ := kv(w, "seed")
			ms, _ := kv(w, "maxsize")
			cfg := node.Config{NumValidators: nv, Seed: int64(seed)}
			if vm, ok := kv(w, "vmax"); ok && vm > 0 {
				// payload limit of the node's block verification (the engine gives Chain and Generator the
				// same configuration value; without the key the node keeps the engine default of 15 KiB)
				cfg.MaxTransactionsLength = uint32(vm)
			}
			for _, tok := range w {
				if strings.HasPrefix(tok, "weights=") {
					for _, ws := range strings.Split(tok[len("weights="):], "-") {
						n, _ := strconv.Atoi(ws)
						cfg.Weights = append(cfg.Weights, uint64(n))
					}
				}
			}
			r, err := newRig(rigConfig{node: cfg, own: own, maxSize: uint32(ms)})
			if err != nil {
				x.fail("c15-harness", "rig: %v", err)
				return "rig-error"
			}
			r.n.ABI.LogCalls = false
			x.r = r
			return "ok"
		}
		return "bad-op"
	case "sel":
		return x.opSel(w)
	case "selt":
		return x.opSelTie(w)
	}
	if x.r == nil {
		return "bad-op"
	}
	switch w[0] {
	case "ext":
		return x.opExt(w)
	case "forge", "forgedrop", "forgecrash":
		return x.opForge(w)
	case "del":
		return x.opDel(w)
	case "vprobe":
		return x.opVProbe(w)
	case "restart", "crash":
		if err := x.r.Restart(w[0] == "crash"); err != nil {
			x.fail("c15-harness", "restart: %v", err)
			return "restart-error"
		}
		x.certified = map[int]uint32{} // the certificate pool is in memory
		x.checkInfosAfterRestart(w[0])
		return "ok"
	case "info":
		i, err := strconv.Atoi(w[1])
		if err != nil || i >= len(x.r.own) {
			return "bad-op"
		}
		info, ok := x.r.rawInfo(x.r.own[i])
		if !ok {
			return "info=none"
		}
		return fmt.Sprintf("info=%d/%d", info.Height, info.MaxHeightGenerated)
	case "certify":
		mask, _ := strconv.Atoi(w[1])
		_, mhpc, _ := x.r.n.BFTHeights()
		for i, v := range x.r.n.Validators {
			if mask&(1<<i) != 0 && i < x.r.n.Cfg.NumValidators && mhpc > 0 && x.certified[i] != mhpc {
				// (a second single commit of the same validator for the same height would make the
				// node's own aggregate invalid: the certificate pool keeps duplicates - C06)
				x.certified[i] = mhpc
				if err := x.r.n.Certify(v, mhpc, mhpc); err != nil {
					x.fail("c15-harness", "certify: %v", err)
				}
			}
		}
		return "ok"
	}
	return "bad-op"
}

// selection ops --------------------------------------------------------------------------------

func (x *runner) checkCalls(pool []ptx, calls []abiCall, sel []int) {
	// the application saw: verify(t) [execute(t)] per popped transaction; after a failing answer no
	// further request for the sender; the kept transactions in order are the result
	failed := map[int]bool{}
	var kept []int
	for k := 0; k < len(calls); k++ {
		c := calls[k]
		i := -1
		for j, p := range pool {
			if bytes.Equal(p.tx.ID, c.id) {
				i = j
			}
		}
		if i < 0 {
			x.fail("c15-selection-foreign-tx", "application asked about a transaction that is not in the pool")
			return
		}
		s := pool[i].sender
		if failed[s] {
			x.fail("c15-selection-skips-failed-sender", "sender %d: transaction %d was given to the application after a transaction of the sender had failed", s, i)
			return
		}
		if c.exec {
			x.fail("c15-selection-verify-before-execute", "transaction %d executed without preceding verification", i)
			return
		}
		if !c.ok {
			failed[s] = true
			continue
		}
		if k+1 >= len(calls) || !calls[k+1].exec || !bytes.Equal(calls[k+1].id, c.id) {
			x.fail("c15-selection-verify-before-execute", "transaction %d verified but not executed next", i)
			return
		}
		k++
		if !calls[k].ok {
			failed[s] = true
			continue
		}
		kept = append(kept, i)
	}
	if formatIdx(kept) != formatIdx(sel) {
		x.fail("c15-selection-result-differs-from-executed", "executed and kept %s, returned %s", formatIdx(kept), formatIdx(sel))
	}
}

func (x *runner) checkSel(pool []ptx, limit int, sel []int, what string) bool {
	vs := checkSelection(pool, limit, sel)
	for _, v := range vs {
		x.fail(v.sig, "%s: limit %d pool %s result %s: %s", what, limit, formatPool(pool), formatIdx(sel), v.detail)
	}
	return len(vs) == 0
}

func (x *runner) opSel(w []string) string {
	if len(w) != 3 {
		return "bad-op"
	}
	limit, err := strconv.Atoi(w[1])
	pool, err2 := parsePool(defaultChainID, w[2])
	if err != nil || err2 != nil {
		return "bad-op"
	}
	sel, calls, err := realSelect(pool, limit)
	if err != nil {
		var pe *node.PanicError
		if errors.As(err, &pe) {
			x.fail("c15-selection-panic", "limit %d pool %s: %v", limit, w[2], err)
			return "panic"
		}
		return "error"
	}
	x.checkSel(pool, limit, sel, "selectTransactionsByFee")
	x.checkCalls(pool, calls, sel)
	// limitTransactionsWithSize must keep the selection unchanged
	lim := generator.VerifLimitTransactionsWithSize(limit, selTxs(pool, sel))
	if len(lim) != len(sel) {
		x.fail("c15-limit-cuts-selection", "limitTransactionsWithSize(%d) keeps %d of %d selected transactions", limit, len(lim), len(sel))
	}
	size := 0
	for _, i := range sel {
		if i >= 0 {
			size += pool[i].size
		}
	}
	return fmt.Sprintf("sel %s size=%d", formatIdx(sel), size)
}

func selTxs(pool []ptx, sel []int) []*blockchain.Transaction {
	var res []*blockchain.Transaction
	for _, i := range sel {
		if i >= 0 && i < len(pool) {
			res = append(res, pool[i].tx)
		}
	}
	return res
}

func (x *runner) opSelTie(w []string) string {
	if len(w) != 4 {
		return "bad-op"
	}
	limit, err := strconv.Atoi(w[1])
	pool, err2 := parsePool(defaultChainID, w[2])
	claimed, err3 := parseIdx(w[3])
	if err != nil || err2 != nil || err3 != nil {
		return "bad-op"
	}
	// a fresh run of the real code (its result may differ from the claimed one in the tie-break)
	sel, calls, err := realSelect(pool, limit)
	if err != nil {
		x.fail("c15-selection-panic", "limit %d pool %s: %v", limit, w[2], err)
		return "error"
	}
	x.checkSel(pool, limit, sel, "selectTransactionsByFee")
	x.checkCalls(pool, calls, sel)
	// the claimed result (a real output recorded when the case was generated) against the reference
	for _, i := range claimed {
		if i < 0 || i >= len(pool) {
			return "invalid"
		}
	}
	if x.checkSel(pool, limit, claimed, "recorded output of selectTransactionsByFee") {
		return "valid"
	}
	return "invalid"
}

// chain ops ------------------------------------------------------------------------------------

func (x *runner) opExt(w []string) string {
	j, err := strconv.Atoi(w[1])
	if err != nil || j >= len(x.r.n.Validators) || j < len(x.r.own) {
		return "bad-op"
	}
	b, err := x.r.n.BuildBlock(node.BlockOpts{Generator: x.r.n.Validators[j]})
	if err != nil {
		x.fail("c15-harness", "ext %d: build: %v", j, err)
		return "build-error"
	}
	res := x.r.n.ProcessResult(b)
	if !res.Applied {
		x.fail("c15-harness", "ext %d: block of another generator not applied: %v (%s)", j, res.Err, res.ForkChoice)
	}
	return fmt.Sprintf("h=%d", x.r.n.Height())
}

func (x *runner) opDel(w []string) string {
	k, err := strconv.Atoi(w[1])
	if err != nil {
		return "bad-op"
	}
	for i := 0; i < k && x.r.n.Height() > 0; i++ {
		if err := x.r.n.DeleteTip(false); err != nil {
			x.fail("c15-harness", "del: %v", err)
			break
		}
	}
	return fmt.Sprintf("h=%d", x.r.n.Height())
}

func better(e, l *blockchain.BlockHeader) bool {
	return e.MaxHeightPrevoted < l.MaxHeightPrevoted || (e.MaxHeightPrevoted == l.MaxHeightPrevoted && e.Height < l.Height)
}

func (x *runner) checkInfosAfterRestart(kind string) {
	for i, v := range x.r.own {
		info, ok := x.r.rawInfo(v)
		want := x.maxGen[i]
		if (want > 0 && !ok) || info.Height != want {
			x.fail("c15-info-lost-on-restart", "after %s: stored height of validator %d is %d (exists=%v), largest height handed on is %d", kind, i, info.Height, ok, want)
		}
	}
	// keys must have survived in the generator database
	if len(x.r.gen.VerifEnabled()) != len(x.r.own) {
		x.fail("c15-keys-lost-on-restart", "after %s: %d enabled keys, want %d", kind, len(x.r.gen.VerifEnabled()), len(x.r.own))
	}
}

// parseVChange parses `vc=<w0-w1-..>[/<pc>/<ct>]`: new BFT weights of validators 0..N-1 (all
// positive) and the thresholds (default floor(2W/3)+1).
func (x *runner) parseVChange(tok string) (*node.ValidatorChange, bool) {
	if !strings.HasPrefix(tok, "vc=") {
		return nil, false
	}
	parts := strings.Split(tok[3:], "/")
	if len(parts) != 1 && len(parts) != 3 {
		return nil, false
	}
	ws := strings.Split(parts[0], "-")
	if len(ws) != x.r.n.Cfg.NumValidators {
		return nil, false
	}
	var next []*labi.Validator
	total := uint64(0)
	for j, t := range ws {
		wt, err := strconv.ParseUint(t, 10, 32)
		if err != nil || wt == 0 {
			return nil, false
		}
		next = append(next, x.r.n.Validators[j].Labi(wt))
		total += wt
	}
	vc := &node.ValidatorChange{Validators: next, PrecommitThreshold: node.DefaultThreshold(total), CertificateThreshold: node.DefaultThreshold(total)}
	if len(parts) == 3 {
		pc, err1 := strconv.ParseUint(parts[1], 10, 32)
		ct, err2 := strconv.ParseUint(parts[2], 10, 32)
		if err1 != nil || err2 != nil {
			return nil, false
		}
		vc.PrecommitThreshold, vc.CertificateThreshold = pc, ct
	}
	return vc, true
}

func (x *runner) opForge(w []string) string {
	var vc *node.ValidatorChange
	var extraAssets []*blockchain.BlockAsset
	edge := ""
	if len(w) == 4 && w[0] == "forge" {
		if strings.HasPrefix(w[3], "w=") {
			edge = w[3][2:] // slot edge: the second of the slot in which forge runs (boundary.go)
		} else if strings.HasPrefix(w[3], "as=") {
			// the application inserts k further assets, handed over in an order that is NOT the module order
			k, err := strconv.Atoi(w[3][3:])
			if err != nil || k < 1 || k > 4 {
				return "bad-op"
			}
			names := []string{"random", "auth", "zeta", "dex"}[:k]
			for j, nm := range names {
				extraAssets = append(extraAssets, &blockchain.BlockAsset{Module: nm, Data: bytes.Repeat([]byte{byte(j + 1)}, 3+5*j)})
			}
		} else {
			var ok bool
			if vc, ok = x.parseVChange(w[3]); !ok {
				return "bad-op"
			}
		}
		w = w[:3]
	}
	if len(w) != 3 {
		return "bad-op"
	}
	i, err := strconv.Atoi(w[1])
	if err != nil || i >= len(x.r.own) {
		return "bad-op"
	}
	pool, err := parsePool(x.r.n.Cfg.ChainID, w[2])
	if err != nil {
		return "bad-op"
	}
	r := x.r
	v := r.own[i]
	within := uint32(3 + (len(w[2])+x.op)%int(r.n.Cfg.BlockTime-5))
	if edge != "" {
		var ok bool
		if within, ok = x.edgeWithin(edge, v); !ok {
			return "bad-op"
		}
	}
	ts, ok := r.slotTimeFor(v, within)
	if !ok {
		x.fail("c15-harness", "validator %d has no slot", i)
		return "no-slot"
	}
	// reference block of the harness' own builder for the same slot and generator (differential check)
	refOpts := node.BlockOpts{Generator: v, MaxHeightGenerated: node.U32(x.maxGen[i]), ValidatorChange: vc, Assets: extraAssets}
	ref, _ := r.n.BuildBlock(refOpts)
	// what the application inserts into the block: the script that makes it answer
	// AfterTransactionsExecute of this block with the validator change
	r.abi.setInsertAssets(nil)
	if extraAssets != nil {
		r.abi.setInsertAssets(extraAssets)
		defer r.abi.setInsertAssets(nil)
	}
	if vc != nil {
		asset, err := refOpts.ScriptAsset()
		if err != nil || asset == nil {
			x.fail("c15-harness", "script asset: %v", err)
			return "build-error"
		}
		r.abi.setInsertAssets([]*blockchain.BlockAsset{asset})
		defer r.abi.setInsertAssets(nil)
		atomic.AddInt64(&cntForgedVChange, 1)
	}
	var atHandoff func()
	if w[0] == "forgecrash" {
		atHandoff = func() { r.genFS.SetIgnoreSyncs(true) } // nothing after the hand-off reaches the disk
	}
	r.n.ABI.TakeConsensusSeen()
	r.n.ABI.RecordConsensus = true
	fr, err := r.forgeAt(ts, v, poolTxs(pool), atHandoff)
	genSeen := r.n.ABI.TakeConsensusSeen()
	calls := r.abi.takeLog()
	if err != nil {
		if w[0] == "forgecrash" {
			r.genFS.SetIgnoreSyncs(false)
		}
		sig := "c15-forge-failed"
		if errors.Is(err, errBadSignature) {
			sig = "c15-forged-bad-signature"
		} else if errors.Is(err, errTimestamp) {
			sig = "c15-forged-bad-timestamp"
		}
		x.fail(sig, "forge by validator %d at height %d: %v; log: %v", i, r.n.Height()+1, err, fr.logs)
		return "noforge"
	}
	b := fr.block
	h := b.Header
	atomic.AddInt64(&cntForged, 1)
	if !bytes.Equal(h.GeneratorAddress, v.Address) {
		x.fail("c15-forged-wrong-generator", "slot of validator %d, block by %x", i, []byte(h.GeneratorAddress))
	}
	// (1) maxHeightGenerated reports the largest height ever handed on
	if h.MaxHeightGenerated != x.maxGen[i] {
		x.fail("c15-max-height-generated", "validator %d forges at height %d with maxHeightGenerated %d; the largest height it generated before is %d", i, h.Height, h.MaxHeightGenerated, x.maxGen[i])
	}
	if h.Height <= x.maxGen[i] {
		atomic.AddInt64(&cntLowerForge, 1)
	}
	// (2) the largest height was in the generator database (written, see forgecrash: synced) at the hand-off
	newMax := x.maxGen[i]
	if h.Height > newMax {
		newMax = h.Height
	}
	if !fr.atHandoff.exists || fr.atHandoff.info.Height != newMax {
		x.fail("c15-info-not-persisted-before-handoff", "validator %d, height %d: at AddInternal the stored height is %d (exists=%v), want %d", i, h.Height, fr.atHandoff.info.Height, fr.atHandoff.exists, newMax)
	}
	x.maxGen[i] = newMax
	// (3) no contradiction with any earlier header of the validator
	for _, e := range x.signed[i] {
		if contradiction.AreDistinctHeadersContradicting(contradiction.NewBFTBlockHeader(e.h.Readonly()), contradiction.NewBFTBlockHeader(h.Readonly())) {
			if better(e.h, h) {
				x.fail("c15-self-contradiction", "validator %d: header (h=%d mhg=%d mhp=%d) contradicts its earlier header (h=%d mhg=%d mhp=%d) although it is on a better tip", i, h.Height, h.MaxHeightGenerated, h.MaxHeightPrevoted, e.h.Height, e.h.MaxHeightGenerated, e.h.MaxHeightPrevoted)
			} else {
				atomic.AddInt64(&cntNonBetterContra, 1)
			}
		}
	}
	sh := &signedHdr{h: h}
	x.signed[i] = append(x.signed[i], sh)
	// (4) content: selection clauses and the differential check against the harness' block builder
	sel := indexOf(pool, b.Transactions)
	x.checkSel(pool, int(r.maxSize), sel, "forged block")
	x.checkCalls(pool, calls, sel)
	if len(sel) > 0 {
		atomic.AddInt64(&cntForgedWithTxs, 1)
	}
	if h.AggregateCommit != nil && len(h.AggregateCommit.AggregationBits) > 0 {
		atomic.AddInt64(&cntForgedWithAgg, 1)
	}
	if ref != nil {
		x.diffHeader(ref.Header, h, len(b.Transactions) == 0)
	}
	// (5) the node accepts it (boundary.go: which limits the block sits at; oversized = above the limit
	// the reset op gave the VERIFIER, where it differs from the generator's)
	oversized, class := x.noteBoundary(pool, b)
	x.boundaryClass = class
	acc := 0
	switch w[0] {
	case "forge":
		r.n.ABI.TakeConsensusSeen()
		res := r.n.ProcessResult(b)
		x.sameConsensusSeen(b, genSeen, r.n.ABI.TakeConsensusSeen(), res.Applied)
		if res.Applied {
			acc = 1
			sh.applied = true
			if oversized {
				x.fail("c15-oversized-block-accepted", "block at height %d accepted although its payload is above the node's limit %d", b.Header.Height, r.n.Cfg.MaxTransactionsLength)
			}
		} else if !oversized {
			x.rejected(b, res.Err, res.ForkChoice)
		}
	case "forgedrop":
		if err := r.n.VerifyBlock(b); err != nil {
			x.rejected(b, err, "verifyBlock")
		}
	case "forgecrash":
		atomic.AddInt64(&cntCrashChecks, 1)
		if err := r.n.VerifyBlock(b); err != nil {
			x.rejected(b, err, "verifyBlock")
		}
		if err := r.Restart(true); err != nil {
			x.fail("c15-harness", "crash restart: %v", err)
			return "restart-error"
		}
		x.certified = map[int]uint32{}
		x.checkInfosAfterRestart("crash at hand-off")
	}
	info, ok := r.rawInfo(v)
	infoStr := "info=none"
	if ok {
		infoStr = fmt.Sprintf("info=%d/%d", info.Height, info.MaxHeightGenerated)
	}
	return fmt.Sprintf("forged h=%d mhg=%d %s sel=%s acc=%d", h.Height, h.MaxHeightGenerated, infoStr, formatIdx(sel), acc)
}

// sameConsensusSeen: the application must be told the same consensus state (every field of labi.Consensus) while
// the block is generated and while the same node validates it - an application whose state or events depend on the
// argument would otherwise compute other roots than the ones in the header, and the node would reject its own block.
// Compared: BeforeTransactionsExecute, AfterTransactionsExecute and ExecuteTransaction of the transactions that are
// in the block (the generator also executes candidates it then drops).
func (x *runner) sameConsensusSeen(b *blockchain.Block, gen, val []node.ConsensusSeen, applied bool) {
	if !applied {
		return // a rejected block is reported by the acceptance oracle; validation may have stopped early
	}
	inBlock := map[string]bool{}
	for _, tx := range b.Transactions {
		inBlock[hex.EncodeToString(tx.ID)] = true
	}
	pick := func(l []node.ConsensusSeen) map[string]string {
		m := map[string]string{}
		for _, e := range l {
			if e.Height != b.Header.Height {
				continue
			}
			switch e.Hook {
			case node.HookBeforeTxs, node.HookAfterTxs:
				m[string(e.Hook)] = e.Digest
			case node.HookExecuteTx:
				if inBlock[e.TxID] {
					m[string(e.Hook)+" "+e.TxID] = e.Digest // the last execution of a transaction is the one that stayed
				}
			}
		}
		return m
	}
	g, v := pick(gen), pick(val)
	atomic.AddInt64(&cntConsensusSeen, int64(len(v)))
	for k, dv := range v {
		dg, ok := g[k]
		if !ok {
			x.fail("c15-generation-skips-application-call", "block at height %d: validation calls %s, generation did not", b.Header.Height, k)
			continue
		}
		if dg != dv {
			x.fail("c15-generation-consensus-argument-differs", "block at height %d (aggregate commit height %d), %s: the application is told [%s] while the block is generated and [%s] while the same node validates it", b.Header.Height, b.Header.AggregateCommit.Height, k, dg, dv)
		}
	}
}

var cntConsensusSeen int64

func (x *runner) rejected(b *blockchain.Block, err error, how string) {
	if aerr := x.r.n.VerifyAggregateCommit(b.Header.AggregateCommit); aerr != nil {
		x.fail("c15-forged-block-rejected:aggregate-commit", "the node rejects the aggregate commit it produced itself (defect of C06): %v", aerr)
		return
	}
	sig, size := "c15-forged-block-rejected", 0
	for _, tx := range b.Transactions {
		size += tx.Size()
	}
	if x.boundaryClass != "" {
		sig += ":" + x.boundaryClass
	}
	x.fail(sig, "forged block at height %d (payload %d bytes of %d transactions, generator limit %d, verifier limit %d) rejected by the same node (%s): %v", b.Header.Height, size, len(b.Transactions), x.r.maxSize, x.r.n.Cfg.MaxTransactionsLength, how, err)
}

// diffHeader compares the forged header with the header the harness' builder makes for the same
// tip, slot and generator.
func (x *runner) diffHeader(ref, h *blockchain.BlockHeader, emptyPayload bool) {
	d := func(field string, same bool) {
		if !same {
			x.fail("c15-header-differs:"+field, "forged header at height %d differs from the reference builder in %s", h.Height, field)
		}
	}
	d("version", ref.Version == h.Version)
	d("height", ref.Height == h.Height)
	d("previousBlockID", bytes.Equal(ref.PreviousBlockID, h.PreviousBlockID))
	d("generatorAddress", bytes.Equal(ref.GeneratorAddress, h.GeneratorAddress))
	d("maxHeightPrevoted", ref.MaxHeightPrevoted == h.MaxHeightPrevoted)
	d("validatorsHash", bytes.Equal(ref.ValidatorsHash, h.ValidatorsHash))
	d("assetRoot", bytes.Equal(ref.AssetRoot, h.AssetRoot))
	d("aggregateCommit", bytes.Equal(ref.AggregateCommit.Encode(), h.AggregateCommit.Encode()))
	if emptyPayload {
		d("transactionRoot", bytes.Equal(ref.TransactionRoot, h.TransactionRoot))
		d("eventRoot", bytes.Equal(ref.EventRoot, h.EventRoot))
		d("stateRoot", bytes.Equal(ref.StateRoot, h.StateRoot))
	}
	atomic.AddInt64(&cntImpliesChecked, 1)
	if ref.ImpliesMaxPrevotes != h.ImpliesMaxPrevotes {
		// tolerated finding: the generator never sets the field and nothing verifies it
		atomic.AddInt64(&cntImpliesUnset, 1)
	}
}

// ---------------------------------------------------------------------------------------------
// classification
// ---------------------------------------------------------------------------------------------

func (prop) Classify(c corr.Case, out []string) string {
	if len(c.Ops) == 0 {
		return ""
	}
	if strings.HasPrefix(c.Ops[0], "reset sel") {
		feats := map[string]bool{}
		for i, op := range c.Ops[1:] {
			w := strings.Fields(op)
			if len(w) < 3 {
				continue
			}
			pool, err := parsePool(defaultChainID, w[2])
			if err != nil || len(pool) == 0 {
				continue
			}
			nOK, nFail := 0, 0
			for _, p := range pool {
				if p.ok() {
					nOK++
				} else {
					nFail++
				}
			}
			o := ""
			if i+1 < len(out) {
				o = out[i+1]
			}
			if w[0] == "selt" {
				feats["ties:"+o] = true
				continue
			}
			f := strings.Fields(o)
			nSel := 0
			if len(f) >= 2 && f[1] != "-" {
				nSel = len(strings.Split(f[1], ","))
			}
			switch {
			case nSel == 0:
				feats["none"] = true
			case nSel == nOK:
				feats["all-passing"] = true
			default:
				feats["cut-or-skipped"] = true
			}
			if nFail > 0 {
				feats["failing-txs"] = true
			}
		}
		return "sel:" + joinFeats(feats)
	}
	feats := map[string]bool{}
	for i, op := range c.Ops {
		w := strings.Fields(op)
		switch w[0] {
		case "restart", "crash", "forgedrop", "forgecrash", "certify":
			feats[w[0]] = true
		case "del":
			feats["del"] = true
		case "vprobe":
			feats["vprobe"] = true
		case "forge":
			if len(w) == 4 && !strings.HasPrefix(w[3], "w=") {
				feats["vchange"] = true
			}
			if i < len(out) {
				h, ok1 := kv(strings.Fields(out[i]), "h")
				g, ok2 := kv(strings.Fields(out[i]), "mhg")
				if ok1 && ok2 && g >= h {
					feats["lower-forge"] = true
				}
				if strings.Contains(out[i], "sel=") && !strings.Contains(out[i], "sel=-") {
					feats["txs"] = true
				}
				if strings.HasPrefix(c.Tag, "boundary") {
					boundaryFeats(c.Ops[0], w, out[i], feats)
				}
			}
		}
	}
	if len(feats) == 0 {
		return ""
	}
	return c.Tag + ":" + joinFeats(feats)
}

func joinFeats(f map[string]bool) string {
	keys := make([]string, 0, len(f))
	for k := range f {
		keys = append(keys, k)
	}
	sortStrings(keys)
	return strings.Join(keys, "+")
}

func sortStrings(s []string) {
	for i := 1; i < len(s); i++ {
		for j := i; j > 0 && s[j] < s[j-1]; j-- {
			s[j], s[j-1] = s[j-1], s[j]
		}
	}
}
