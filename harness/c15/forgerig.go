package c15

import (
	"github.com/LiskHQ/lisk-engine/pkg/blockchain"
	"github.com/LiskHQ/lisk-engine/pkg/consensus"
	"github.com/LiskHQ/lisk-engine/pkg/db"
	"github.com/LiskHQ/lisk-engine/pkg/generator"
	"github.com/LiskHQ/lisk-engine/pkg/log"
	"github.com/LiskHQ/lisk-engine/pkg/txpool"

	"verifharness/node"
)

// Exported view of the shifted-clock forge step (rig.go) for harness/c15status, which drives the
// REAL Generator.forge next to the generator RPC endpoints over a generator database of its own
// (with a file system that observes the syncs). Nothing here adds behaviour: a ForgeRig is a rig
// assembled from parts the caller built, ForgeAt is forgeAt.

// Clock is the generator.Consensus implementation of rig.go: the real Executer behind the clock
// shift that is active during one forge call.
type Clock = clockConsensus

// NewClock wraps the node's Executer. Give it to generator.NewGenerator as Consensus.
func NewClock(exec *consensus.Executer) *Clock { return &clockConsensus{Executer: exec} }

// Logger returns a logger that keeps the error lines (forge reports failures only through the log).
func NewForgeLogger() log.Logger { return newRecLogger() }

// ForgeRig is the part of the rig forgeAt needs.
type ForgeRig struct{ r *rig }

// NewForgeRig assembles a forge rig; gen must have been built with cons as Consensus and pool as
// Pool, logger must come from NewForgeLogger.
func NewForgeRig(n *node.Node, gen *generator.Generator, cons *Clock, pool *txpool.TransactionPool, genDB *db.DB, logger log.Logger) *ForgeRig {
	l, ok := logger.(recLogger)
	if !ok {
		l = newRecLogger()
	}
	return &ForgeRig{r: &rig{n: n, gen: gen, cons: cons, pool: pool, genDB: genDB, logger: l}}
}

// Forged is the result of one real forge step.
type Forged struct {
	Block         *blockchain.Block // nil if forge handed nothing on; in the chain's clock domain
	HandoffInfo   generator.GeneratorInfo
	HandoffExists bool
	Logs          []string
}

// ForgeAt runs the unmodified Generator.forge in the first slot of v after the tip (empty pool).
// ok=false: v has no slot. err != nil with Block == nil: forge returned without a block (not
// enabled, or a failure reported in Logs). atHandoff runs inside AddInternal.
func (f *ForgeRig) ForgeAt(v *node.Validator, within uint32, atHandoff func()) (res Forged, ok bool, err error) {
	ts, ok := f.r.slotTimeFor(v, within)
	if !ok {
		return res, false, nil
	}
	fr, err := f.r.forgeAt(ts, v, nil, atHandoff)
	if fr != nil {
		res.Block = fr.block
		res.HandoffInfo = fr.atHandoff.info
		res.HandoffExists = fr.atHandoff.exists
		res.Logs = fr.logs
	}
	return res, true, err
}

// IsNoForge: forge returned without handing on a block.
func IsNoForge(err error) bool { return err == errNoForge }
