// C15SWITCH: the REAL Generator.forge on the node harness while the chain changes underneath it.
//
// Class closed: "the generator keeps something in memory across ticks that is invalidated by a change
// of the chain underneath it" (seeded C15-17: the generator list of height tip+1 memoized in two
// struct fields keyed by the height only). forge is a function of (block store, clock, enabled keys):
// whatever it did on an earlier tick on another branch must not show in what it does now.
//
// Histories: forge ticks interleaved with chain changes that KEEP the height - forge at height H on
// branch A (with and without producing a block), delete back 1..3 blocks, apply a sibling branch B whose
// generator list for H+1 differs (the mock application decides the list: a rotation chosen per branch, or
// a validator removed on one branch only), forge again at the same height in every slot of a round;
// replacement of the tip by a sibling in another slot (what the tie-break path does: delete + apply), a
// sync-like run of several deletes and applies without a tick in between, and the same histories with a
// restart of the process before the last ticks (control: a fresh generator).
//
// Model-free oracles (the expectation is read FRESH from the node's store through the consensus / BFT
// API at the moment of the tick - never from anything the generator holds):
//
//	c15-forged-for-foreign-slot              forge handed on a block whose generator is not the owner of the
//	                                         slot according to the node's CURRENT chain
//	c15-own-slot-skipped                     the slot owner's key is enabled, shouldForge holds (reference:
//	                                         first slot after the tip, or later than blockTime/5 into a
//	                                         later slot) and forge handed on nothing without logging a failure
//	c15-forged-block-rejected:switch         the same node's verifyBlock / process rejects the block
//	c15-forged-on-stale-tip                  height / previousBlockID of the block are not tip+1 / tip
//	c15-forged-when-should-not               a block in a slot in which shouldForge is false
//	c15-generator-info-for-unproduced-block  the persisted GeneratorInfo of an enabled key changed in a tick
//	                                         that handed on no block accepted by the node for that key, or
//	                                         names a height other than the largest one handed on
//
// Ops (no model: registered with NoModel):
//
//	reset <seed> <n> <own>     n validators, keys of validators 0..own-1 enabled
//	ext <k>                    k honest empty blocks (of keys that are not enabled in the generator)
//	blk <d> <rot> <drop>       block in the d-th slot after the tip that belongs to a key NOT enabled, whose AfterTransactionsExecute answers the
//	                           validator list rotated by rot with validator drop-1 removed (0 0 = no change)
//	del <k>                    delete k blocks from the tip
//	tick <d> <w>               forge w seconds into the d-th slot after the tip; a block is applied to the node
//	tickdrop <d> <w>           as tick, the block is only verified (it is lost on the way)
//	restart                    process restart (new Chain, Executer, Generator over the same databases)
package c15

import (
	"bytes"
	"errors"
	"fmt"
	"math/rand"
	"strconv"
	"strings"
	"sync/atomic"

	"github.com/LiskHQ/lisk-engine/pkg/blockchain"
	"github.com/LiskHQ/lisk-engine/pkg/generator"
	"github.com/LiskHQ/lisk-engine/pkg/labi"

	"verifharness/corr"
	"verifharness/node"
)

type switchProp struct{}

func init() { corr.Register(switchProp{}) }

func (switchProp) ID() string    { return "C15SWITCH" }
func (switchProp) Parallel() int { return 4 }
func (switchProp) NoModel() bool { return true }

var (
	swTicks         int64 // forge ticks
	swForged        int64 // ticks that handed on a block
	swAfterSwitch   int64 // ticks at a height the generator already ticked at on ANOTHER branch
	swListDiffers   int64 // ... where the generator list of that height differs from the one of the earlier tick
	swOwnerDiffers  int64 // ... and the owner of the ticked slot differs
	swIdleForeign   int64 // own key enabled, slot owned by somebody else, nothing forged (correct)
	swForgedAfterSw int64 // blocks forged at a height ticked before on another branch
	swRestartCtl    int64 // such ticks after a restart (control)
)

// ---------------------------------------------------------------------------------------------
// generation
// ---------------------------------------------------------------------------------------------

type swGen struct {
	rng *rand.Rand
	ops []string
	n   int
	bt  int
}

func (g *swGen) add(f string, a ...interface{}) { g.ops = append(g.ops, fmt.Sprintf(f, a...)) }

// within picks a second of the slot away from the shouldForge threshold (the wall clock may advance
// by one second between the harness' reading and forge's).
func (g *swGen) within(late bool) int {
	wait := g.bt / 5
	if late {
		return wait + 1 + g.rng.Intn(g.bt-wait-3)
	}
	return g.rng.Intn(wait)
}

func (g *swGen) tick(d int, drop bool) {
	op := "tick"
	if drop {
		op = "tickdrop"
	}
	late := d == 1 && g.rng.Intn(2) == 0 || d > 1 && g.rng.Intn(6) != 0
	if d == 1 && !late {
		// first slot after the tip: every second of the slot forges
		g.add("%s %d %d", op, d, g.rng.Intn(g.bt-2))
		return
	}
	g.add("%s %d %d", op, d, g.within(late))
}

// sweep ticks once in every slot of a round on the same tip (blocks are dropped so that the tip stays).
func (g *swGen) sweep() {
	for _, d := range g.rng.Perm(g.n + 1) {
		g.tick(d+1, true)
	}
}

// branch emits `depth` blocks; the last one carries the validator change (rot, drop) that decides the
// generator list of the next height.
func (g *swGen) branch(depth, rot, drop int, slotShift int) {
	for i := 0; i < depth; i++ {
		d := 1 + g.rng.Intn(2)
		if i == 0 {
			d += slotShift
		}
		if i == depth-1 {
			g.add("blk %d %d %d", d, rot, drop)
		} else {
			g.add("blk %d %d 0", d, g.rng.Intn(g.n))
		}
	}
}

func genSwitchCase(rng *rand.Rand, seed int, family string) corr.Case {
	n := 4 + rng.Intn(2)
	own := 1 + rng.Intn(2)
	g := &swGen{rng: rng, n: n, bt: 10}
	g.add("reset %d %d %d", seed, n, own)
	if k := rng.Intn(3); k > 0 {
		g.add("ext %d", k)
	}
	depth := 1 + rng.Intn(3)
	rotA := rng.Intn(n)
	rotB := (rotA + 1 + rng.Intn(n-1)) % n
	dropA, dropB := 0, 0
	if family == "vchange" {
		// validator change on one branch only
		if rng.Intn(2) == 0 {
			rotA, dropA = 0, 0
			dropB = 1 + rng.Intn(n)
		} else {
			dropA = 1 + rng.Intn(n)
			rotB, dropB = 0, 0
			if rng.Intn(2) == 0 {
				rotB = 1 + rng.Intn(n-1)
			}
		}
	}
	if family == "tie" {
		depth = 1
	}
	g.branch(depth, rotA, dropA, 0)
	// ticks on branch A at height H+1: with and without producing a block
	produced := 0
	switch rng.Intn(3) {
	case 0: // a round of ticks, every block lost
		g.sweep()
	case 1: // a few ticks, blocks lost
		for i := 0; i < 1+rng.Intn(3); i++ {
			g.tick(1+rng.Intn(n), true)
		}
	default: // ticks until the own slot; the block (if any) becomes the tip
		g.tick(1+rng.Intn(2), true)
		g.tick(1+rng.Intn(n), false)
		produced = 1 // at most one; `delto` below does not depend on it
	}
	_ = produced
	// back to the branch point and over to branch B, ending at the same height as branch A's tip at the ticks
	switch family {
	case "sync":
		// several deletes and applies without a tick in between, passing through other heights
		g.add("delto %d", depth)
		g.branch(depth, rng.Intn(n), 0, 1)
		g.add("del %d", depth)
		g.branch(depth, rotB, dropB, 2)
	case "tie":
		g.add("delto 1")
		g.branch(1, rotB, dropB, 1+rng.Intn(2))
	default:
		g.add("delto %d", depth)
		g.branch(depth, rotB, dropB, 1)
	}
	if family == "restart" {
		g.add("restart")
	}
	// forge again at the same height: every slot of a round, then let a block through and go on
	g.sweep()
	g.tick(1+rng.Intn(n), false)
	if rng.Intn(2) == 0 {
		g.sweep()
	}
	return corr.Case{Ops: g.ops, Tag: "switch:" + family}
}

func (switchProp) Generate(rng *rand.Rand, tier string) []corr.Case {
	per := 16
	if tier == "thorough" {
		per = 120
	}
	var cases []corr.Case
	seed := 1 + rng.Intn(1000)
	for _, fam := range []string{"switch", "vchange", "tie", "sync", "restart"} {
		for i := 0; i < per; i++ {
			seed++
			cases = append(cases, genSwitchCase(rng, seed, fam))
		}
	}
	return cases
}

// ---------------------------------------------------------------------------------------------
// runner
// ---------------------------------------------------------------------------------------------

type swSeen struct {
	tipID []byte
	list  string
}

type swRunner struct {
	r       *rig
	op      int
	fails   []corr.Fail
	handed  map[int]uint32 // validator index -> largest height of a block handed on and accepted
	hasHand map[int]bool
	base    int               // height of the block that is the parent of the branches (set by the first blk)
	seen    map[uint32]swSeen // height ticked at -> tip and generator list at the last tick there
	fresh   bool              // the generator was started after the last chain change below a ticked height
}

func (x *swRunner) fail(sig, f string, a ...interface{}) {
	x.fails = append(x.fails, corr.Fail{Sig: sig, Detail: fmt.Sprintf(f, a...), Op: x.op})
}

func (x *swRunner) close() {
	if x.r != nil {
		x.r.Close()
		x.r = nil
	}
}

func (switchProp) RunImpl(c corr.Case) ([]string, []corr.Fail) {
	x := &swRunner{}
	defer x.close()
	out := make([]string, 0, len(c.Ops))
	for i, op := range c.Ops {
		x.op = i
		var line string
		func() {
			defer func() {
				if p := recover(); p != nil {
					line = "panic"
					x.fail("c15switch-panic", "%s: %v", op, p)
				}
			}()
			line = x.step(strings.Fields(op))
		}()
		out = append(out, line)
	}
	return out, x.fails
}

func swAtoi(w []string, i int) (int, bool) {
	if i >= len(w) {
		return 0, false
	}
	v, err := strconv.Atoi(w[i])
	return v, err == nil && v >= 0
}

func (x *swRunner) step(w []string) string {
	if len(w) == 0 {
		return "bad-op"
	}
	if w[0] == "reset" {
		x.close()
		seed, ok1 := swAtoi(w, 1)
		n, ok2 := swAtoi(w, 2)
		own, ok3 := swAtoi(w, 3)
		if !ok1 || !ok2 || !ok3 || n < 3 || own < 1 || own > n {
			return "bad-op"
		}
		r, err := newRig(rigConfig{node: node.Config{NumValidators: n, Seed: int64(seed)}, own: own, maxSize: 15 * 1024})
		if err != nil {
			x.fail("c15-harness", "rig: %v", err)
			return "rig-error"
		}
		r.n.ABI.LogCalls = false
		x.r = r
		x.handed, x.hasHand, x.seen, x.base = map[int]uint32{}, map[int]bool{}, map[uint32]swSeen{}, -1
		return "ok"
	}
	if x.r == nil {
		return "no-rig"
	}
	n := x.r.n
	switch w[0] {
	case "ext":
		k, ok := swAtoi(w, 1)
		if !ok {
			return "bad-op"
		}
		for i := 0; i < k; i++ {
			if st := x.foreignBlock(1, nil); st != "" {
				return st
			}
		}
		return fmt.Sprintf("h=%d", n.Height())
	case "blk":
		d, ok1 := swAtoi(w, 1)
		rot, ok2 := swAtoi(w, 2)
		drop, ok3 := swAtoi(w, 3)
		if !ok1 || !ok2 || !ok3 || d < 1 {
			return "bad-op"
		}
		if x.base < 0 {
			x.base = int(n.Height())
		}
		if st := x.foreignBlock(d, x.vchange(rot, drop)); st != "" {
			return st
		}
		return fmt.Sprintf("h=%d list=%s", n.Height(), x.listAt(n.Height()+1))
	case "del", "delto":
		k, ok := swAtoi(w, 1)
		if !ok {
			return "bad-op"
		}
		if w[0] == "delto" {
			// back to the parent of the branches, whatever the ticks added
			k = int(n.Height()) - x.base
			if x.base < 0 || k < 0 {
				return "bad-op"
			}
		}
		for i := 0; i < k; i++ {
			if err := n.DeleteTip(false); err != nil {
				return "del-err"
			}
		}
		return fmt.Sprintf("h=%d", n.Height())
	case "restart":
		if err := x.r.Restart(false); err != nil {
			x.fail("c15-harness", "restart: %v", err)
			return "restart-err"
		}
		x.seen = map[uint32]swSeen{} // a new process has seen nothing
		x.fresh = true
		return "ok"
	case "tick", "tickdrop":
		d, ok1 := swAtoi(w, 1)
		wi, ok2 := swAtoi(w, 2)
		if !ok1 || !ok2 || d < 1 || wi >= int(n.Cfg.BlockTime) {
			return "bad-op"
		}
		return x.tick(d, uint32(wi), w[0] == "tick")
	}
	return "bad-op"
}

// foreignBlock applies a block of the harness' builder in the d-th slot after the tip that belongs to a
// validator whose key is NOT enabled in the generator (blocks of enabled keys come from forge only: the
// generator's stored information would not know about them and its next header would contradict them).
func (x *swRunner) foreignBlock(d int, vc *node.ValidatorChange) string {
	n := x.r.n
	for s := 1; s <= 4*n.Cfg.NumValidators; s++ {
		o, err := n.GeneratorAt(s)
		if err != nil {
			return "build-err"
		}
		if x.ownIndex(o) >= 0 {
			continue
		}
		if d--; d > 0 {
			continue
		}
		b, err := n.BuildBlock(node.BlockOpts{SlotsAhead: s, ValidatorChange: vc})
		if err != nil {
			return "build-err"
		}
		if err := n.Process(b); err != nil {
			return "blk-err"
		}
		return ""
	}
	return "no-foreign-slot"
}

// vchange: the application's answer for the next height: genesis validators rotated by rot, without
// validator drop-1. nil = no change.
func (x *swRunner) vchange(rot, drop int) *node.ValidatorChange {
	if rot == 0 && drop == 0 {
		return nil
	}
	nv := x.r.n.Cfg.NumValidators
	var next []*labi.Validator
	total := uint64(0)
	for i := 0; i < nv; i++ {
		j := (i + rot) % nv
		if drop != 0 && j == (drop-1)%nv {
			continue
		}
		next = append(next, x.r.n.Validators[j].Labi(1))
		total++
	}
	return &node.ValidatorChange{Validators: next, PrecommitThreshold: node.DefaultThreshold(total), CertificateThreshold: node.DefaultThreshold(total)}
}

// listAt renders the generator list of a height as read from the node's store now.
func (x *swRunner) listAt(h uint32) string {
	gens, err := x.r.n.Generators(h)
	if err != nil {
		return "err"
	}
	var sb strings.Builder
	for _, g := range gens {
		if v := x.r.n.ValidatorByAddress(g.Address()); v != nil {
			sb.WriteString(strconv.Itoa(v.Index))
		} else {
			sb.WriteByte('?')
		}
	}
	return sb.String()
}

func (x *swRunner) ownIndex(v *node.Validator) int {
	for i, o := range x.r.own {
		if o == v {
			return i
		}
	}
	return -1
}

func sameInfo(a generator.GeneratorInfo, ae bool, b generator.GeneratorInfo, be bool) bool {
	return ae == be && a.Height == b.Height && a.MaxHeightGenerated == b.MaxHeightGenerated && a.MaxHeightPrevoted == b.MaxHeightPrevoted
}

func (x *swRunner) tick(d int, within uint32, apply bool) string {
	r, n := x.r, x.r.n
	atomic.AddInt64(&swTicks, 1)
	tip := n.Tip().Header
	next := tip.Height + 1
	// --- expectation, read fresh from the node's store ---
	owner, err := n.GeneratorAt(d)
	if err != nil {
		x.fail("c15-harness", "no slot owner at height %d slot +%d: %v", next, d, err)
		return "no-owner"
	}
	list := x.listAt(next)
	bs := n.BlockSlot()
	ts := bs.GetSlotTime(bs.GetSlotNumber(tip.Timestamp)+d) + within
	should := d == 1 || within > n.Cfg.BlockTime/5
	ownIdx := x.ownIndex(owner)
	// bookkeeping of the class: was this height ticked at before on another branch?
	prev, again := x.seen[next]
	afterSwitch := again && !bytes.Equal(prev.tipID, tip.ID)
	note := ""
	if afterSwitch {
		atomic.AddInt64(&swAfterSwitch, 1)
		note = " sw"
		if prev.list != list {
			atomic.AddInt64(&swListDiffers, 1)
			note = " sw-list"
		}
	}
	if should {
		x.seen[next] = swSeen{tipID: append([]byte{}, tip.ID...), list: list}
	}
	before := map[int]generator.GeneratorInfo{}
	beforeEx := map[int]bool{}
	for i, v := range r.own {
		before[i], beforeEx[i] = r.rawInfo(v)
	}
	// --- the real forge ---
	fr, ferr := r.forgeAt(ts, owner, nil, nil)
	var b *blockchain.Block
	accepted := false
	signerIdx := -1
	res := "idle"
	switch {
	case ferr == nil:
		b = fr.block
	case errors.Is(ferr, errNoForge):
		if should && ownIdx >= 0 {
			if len(fr.logs) > 0 {
				x.fail("c15-forge-failed", "height %d slot +%d (owner validator %d, key enabled): forge failed: %v", next, d, owner.Index, fr.logs)
				res = "failed"
			} else {
				x.fail("c15-own-slot-skipped", "height %d on tip %s, slot +%d second %d: the slot belongs to validator %d on the node's current chain (generator list %s), its key is enabled and shouldForge holds, but forge handed on nothing%s", next, node.HashHex(tip.ID), d, within, owner.Index, list, note)
				res = "skipped"
			}
		} else if ownIdx < 0 {
			atomic.AddInt64(&swIdleForeign, 1)
		}
	case errors.Is(ferr, errBadSignature):
		x.fail("c15-forged-bad-signature", "height %d slot +%d: %v", next, d, ferr)
		res = "badsig"
	case errors.Is(ferr, errTimestamp):
		x.fail("c15-forged-bad-timestamp", "height %d slot +%d: %v", next, d, ferr)
		res = "badts"
	default:
		x.fail("c15-forge-panic", "height %d slot +%d: %v", next, d, ferr)
		res = "panic"
	}
	if b != nil {
		atomic.AddInt64(&swForged, 1)
		if afterSwitch {
			atomic.AddInt64(&swForgedAfterSw, 1)
		}
		h := b.Header
		signer := n.ValidatorByAddress(h.GeneratorAddress)
		if signer != nil {
			signerIdx = x.ownIndex(signer)
		}
		res = fmt.Sprintf("forged by=%x", []byte(h.GeneratorAddress[:2]))
		if !should {
			x.fail("c15-forged-when-should-not", "height %d slot +%d second %d: block handed on although the slot is later than the one after the tip and only %d s old (wait %d s)", next, d, within, within, n.Cfg.BlockTime/5)
		}
		if !bytes.Equal(h.GeneratorAddress, owner.Address) {
			x.fail("c15-forged-for-foreign-slot", "height %d on tip %s, slot +%d: forge handed on a block generated by %x, but the slot belongs to validator %d (%x) on the node's current chain (generator list %s)%s", next, node.HashHex(tip.ID), d, []byte(h.GeneratorAddress), owner.Index, []byte(owner.Address), list, note)
		}
		if h.Height != next || !bytes.Equal(h.PreviousBlockID, tip.ID) {
			x.fail("c15-forged-on-stale-tip", "forged block has height %d previous %s, the tip is %s at height %d", h.Height, node.HashHex(h.PreviousBlockID), node.HashHex(tip.ID), tip.Height)
		}
		var rerr error
		if apply {
			pr := n.ProcessResult(b)
			accepted, rerr = pr.Applied, pr.Err
		} else {
			rerr = n.VerifyBlock(b)
			accepted = rerr == nil
		}
		if !accepted {
			x.fail("c15-forged-block-rejected:switch", "forged block at height %d (slot +%d, generator %x) rejected by the same node: %v%s", h.Height, d, []byte(h.GeneratorAddress), rerr, note)
			res += " rejected"
		} else if signerIdx >= 0 {
			if !x.hasHand[signerIdx] || h.Height > x.handed[signerIdx] {
				x.handed[signerIdx] = h.Height
			}
			x.hasHand[signerIdx] = true
		}
	}
	// --- persisted generator information names blocks handed on only ---
	for i, v := range r.own {
		after, afterEx := r.rawInfo(v)
		if sameInfo(before[i], beforeEx[i], after, afterEx) {
			continue
		}
		if b == nil || !accepted || i != signerIdx {
			x.fail("c15-generator-info-for-unproduced-block", "tick at height %d slot +%d: the stored GeneratorInfo of validator %d changed from (exists=%v height=%d) to (height=%d maxHeightGenerated=%d) although no block of this validator accepted by the node was handed on in this tick%s", next, d, v.Index, beforeEx[i], before[i].Height, after.Height, after.MaxHeightGenerated, note)
		} else if after.Height != x.handed[i] {
			x.fail("c15-generator-info-for-unproduced-block", "after the block at height %d the stored GeneratorInfo of validator %d names height %d; the largest height it handed on is %d", b.Header.Height, v.Index, after.Height, x.handed[i])
		}
	}
	if x.fresh {
		atomic.AddInt64(&swRestartCtl, 1)
	}
	if afterSwitch && prev.list != list {
		// would a list-of-the-other-branch owner differ in this slot? (degenerate-run guard)
		atomic.AddInt64(&swOwnerDiffers, 1)
	}
	return fmt.Sprintf("h=%d d=%d owner=%d own=%d list=%s %s%s", next, d, owner.Index, ownIdx, list, res, note)
}

func (switchProp) Classify(c corr.Case, out []string) string {
	sw, swl, forged, forgedSw := false, false, false, false
	for _, l := range out {
		if strings.Contains(l, "forged") {
			forged = true
			if strings.HasSuffix(l, " sw") || strings.HasSuffix(l, " sw-list") {
				forgedSw = true
			}
		}
		if strings.HasSuffix(l, " sw-list") {
			swl = true
		} else if strings.HasSuffix(l, " sw") {
			sw = true
		}
	}
	cl := c.Tag
	switch {
	case swl:
		cl += "+list-differs"
	case sw:
		cl += "+same-list"
	default:
		return ""
	}
	if forgedSw {
		cl += "+forged-after-switch"
	} else if forged {
		cl += "+forged"
	}
	return cl
}

// Extra: degenerate-run guard - the histories must reach ticks at a height the generator ticked at
// before on another branch with a DIFFERENT generator list, and blocks must be forged there.
func (switchProp) Extra(rng *rand.Rand, tier string) corr.ExtraResult {
	res := corr.ExtraResult{Notes: map[string]any{
		"ticks": atomic.LoadInt64(&swTicks), "forged": atomic.LoadInt64(&swForged),
		"ticks_after_switch": atomic.LoadInt64(&swAfterSwitch), "ticks_after_switch_list_differs": atomic.LoadInt64(&swListDiffers),
		"forged_after_switch": atomic.LoadInt64(&swForgedAfterSw), "idle_foreign_slot": atomic.LoadInt64(&swIdleForeign),
		"ticks_after_restart_control": atomic.LoadInt64(&swRestartCtl),
	}}
	res.Evaluations = int(atomic.LoadInt64(&swTicks))
	if atomic.LoadInt64(&swListDiffers) == 0 || atomic.LoadInt64(&swForgedAfterSw) == 0 {
		res.Fails = append(res.Fails, corr.Fail{Sig: "c15switch-degenerate", Detail: fmt.Sprintf("no tick after a chain switch with a different generator list (%d) or no block forged there (%d)", atomic.LoadInt64(&swListDiffers), atomic.LoadInt64(&swForgedAfterSw)), Op: -1})
	}
	return res
}
