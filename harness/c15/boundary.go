package c15

import (
	"fmt"
	"math/rand"
	"sort"
	"strconv"
	"strings"
	"sync/atomic"
	"time"

	"github.com/LiskHQ/lisk-engine/pkg/blockchain"

	"verifharness/corr"
	"verifharness/node"
)

// ---------------------------------------------------------------------------------------------
// Boundary families: producer (pkg/generator) and verifier (Executer.verifyBlock, Block.Validate)
// of the SAME node at the boundary values of every limit they share.
//
// The limits (read off verify.go, block.go, transaction.go, generator.go, certificate.go):
//
//	payload size        generator: `nextTx.Size()+totalSize > maxSize -> stop` (selectTransactionsByFee,
//	                    limitTransactionsWithSize; maxSize = config Genesis.MaxTransactionsSize)
//	                    verifier:  `sum of sizes > chain.MaxTransactionsLength() -> reject`; both values
//	                    come from the one configuration entry (engine.go) - the rig gives the node the
//	                    generator's value with `vmax=<M>` in the reset op
//	transaction params  admission (gossip validator / RPC: Transaction.Validate) and Block.Validate:
//	                    `len(params) > MaxTransactionParamsSize -> reject`
//	slot                generator: forges in every second of its slot (from second 0 after the previous
//	                    slot, from waitThreshold+1 after missed slots); verifier: slot of the timestamp
//	                    is the generator's, not in the future, later than the tip's
//	maxHeightGenerated  generator: largest height generated so far (may equal or exceed the new height);
//	                    verifier: contradiction check against the window
//	aggregate commit    producer GetAggregateCommit: height in (maxHeightCertified, min(maxHeightPrecommitted,
//	                    nextParams-1)]; verifier verifyAggregateCommit: rejects <= mhc, > mhpc, > nextParams-1
//
// There is no limit on the number of transactions or on assets (count / size) in the engine.
//
// Every family goes through the REAL forge (rig.go) and the block is processed by the same node;
// the existing oracle (`c15-forged-block-rejected`) judges it. noteBoundary counts, for the evidence,
// how many forged blocks sat exactly at each limit; a run without exact-boundary blocks fails as
// degenerate (`c15-boundary-degenerate`).
// ---------------------------------------------------------------------------------------------

// boundary counters (evidence: Extra notes "boundary_blocks")
var (
	cntPayloadAtLimit        int64 // payload total == limit (limit > 0, block not empty)
	cntPayloadAtGenLimitOnly int64 // payload total == generator limit, the verifier's limit is another value (older families, limits-differ)
	cntPayloadAtVerLimitOnly int64 // payload total == verifier limit, the generator limit is larger (limits-differ)
	cntPayloadOneBelow       int64 // payload total == limit-1
	cntPayloadCutByOne       int64 // the transaction that ended the selection would have exceeded the limit by exactly 1 byte
	cntPayloadCut            int64 // the selection was ended by the limit
	cntSingleTxAtLimit       int64 // one transaction of exactly the limit
	cntSingleTxOneOver       int64 // the only candidate is one byte larger than the limit: empty block
	cntEmptyPool             int64 // forged from an empty pool
	cntNothingFits           int64 // limit below every offered transaction (nothing fits)
	cntParamsAtLimit         int64 // a transaction with len(params) == MaxTransactionParamsSize in the block
	cntParamsOneBelow        int64
	cntParamsNotAdmitted     int64    // len(params) == MaxTransactionParamsSize+1: Transaction.Validate refuses, never offered to forge
	cntSlotFirstSecond       int64    // timestamp is the first second of the slot
	cntSlotLastSecond        int64    // timestamp is the last second of the slot
	cntSlotAfterMissed       int64    // first second in which shouldForge allows a block after missed slots (slot start + waitThreshold + 1)
	cntMhgEqHeight           int64    // maxHeightGenerated == height (generates again at its largest height)
	cntMhgAdjacent           int64    // maxHeightGenerated == height-1
	cntMhgAboveHeight        int64    // maxHeightGenerated > height
	cntAggAtMhpc             int64    // non-empty aggregate commit at height == maxHeightPrecommitted (upper bound)
	cntAggAtMhcPlus1         int64    // non-empty aggregate commit at height == maxHeightCertified+1 (lower bound)
	cntOversizedRejected     int64    // vmax < maxsize: block above the verifier's limit rejected (as it must be)
	cntOversizedByOne        int64    // ... by exactly one byte
	cntVProbe                [3]int64 // verifier probes with total == limit-1 / limit / limit+1
)

func boundaryNotes() map[string]int64 {
	return map[string]int64{
		"payload_at_limit":                     atomic.LoadInt64(&cntPayloadAtLimit),
		"payload_at_generator_limit_only":      atomic.LoadInt64(&cntPayloadAtGenLimitOnly),
		"payload_at_verifier_limit_only":       atomic.LoadInt64(&cntPayloadAtVerLimitOnly),
		"payload_one_below_limit":              atomic.LoadInt64(&cntPayloadOneBelow),
		"payload_cut_by_limit":                 atomic.LoadInt64(&cntPayloadCut),
		"payload_cut_next_exceeds_by_one":      atomic.LoadInt64(&cntPayloadCutByOne),
		"single_tx_at_limit":                   atomic.LoadInt64(&cntSingleTxAtLimit),
		"single_tx_one_above_limit":            atomic.LoadInt64(&cntSingleTxOneOver),
		"empty_pool":                           atomic.LoadInt64(&cntEmptyPool),
		"limit_below_every_tx":                 atomic.LoadInt64(&cntNothingFits),
		"tx_params_at_limit":                   atomic.LoadInt64(&cntParamsAtLimit),
		"tx_params_one_below_limit":            atomic.LoadInt64(&cntParamsOneBelow),
		"tx_params_one_above_not_admitted":     atomic.LoadInt64(&cntParamsNotAdmitted),
		"slot_first_second":                    atomic.LoadInt64(&cntSlotFirstSecond),
		"slot_last_second":                     atomic.LoadInt64(&cntSlotLastSecond),
		"slot_first_second_after_missed_slots": atomic.LoadInt64(&cntSlotAfterMissed),
		"mhg_equals_height":                    atomic.LoadInt64(&cntMhgEqHeight),
		"mhg_equals_height_minus_1":            atomic.LoadInt64(&cntMhgAdjacent),
		"mhg_above_height":                     atomic.LoadInt64(&cntMhgAboveHeight),
		"aggregate_commit_at_mhpc":             atomic.LoadInt64(&cntAggAtMhpc),
		"aggregate_commit_at_mhc_plus_1":       atomic.LoadInt64(&cntAggAtMhcPlus1),
		"verifier_limit_below_block_rejected":  atomic.LoadInt64(&cntOversizedRejected),
		"verifier_limit_one_below_block":       atomic.LoadInt64(&cntOversizedByOne),
		"verifier_probe_one_below":             atomic.LoadInt64(&cntVProbe[0]),
		"verifier_probe_at_limit":              atomic.LoadInt64(&cntVProbe[1]),
		"verifier_probe_one_above":             atomic.LoadInt64(&cntVProbe[2]),
	}
}

// boundaryDegenerate: the exact-boundary classes every run must have reached (the generators below
// construct them; a run that reaches none of one class did not test that boundary).
func boundaryDegenerate() []corr.Fail {
	var fs []corr.Fail
	notes := boundaryNotes()
	for _, k := range []string{"payload_at_limit", "payload_one_below_limit", "payload_cut_next_exceeds_by_one", "single_tx_at_limit",
		"single_tx_one_above_limit", "empty_pool", "limit_below_every_tx", "tx_params_at_limit", "slot_first_second", "slot_last_second",
		"slot_first_second_after_missed_slots", "mhg_equals_height", "mhg_equals_height_minus_1", "aggregate_commit_at_mhpc",
		"verifier_probe_at_limit", "verifier_probe_one_above", "verifier_limit_one_below_block"} {
		if notes[k] == 0 {
			fs = append(fs, corr.Fail{Sig: "c15-boundary-degenerate", Op: -1,
				Detail: fmt.Sprintf("no generated block / probe of this run was in the boundary class %q: the boundary families did not reach the limit exactly", k)})
		}
	}
	return fs
}

// ---------------------------------------------------------------------------------------------
// reference selection (independent of pkg/generator; deterministic on tie-free pools)
// ---------------------------------------------------------------------------------------------

// refSelect replays the selection rule on pool positions: repeatedly take the sender head of largest
// fee priority; stop at the first one that does not fit; a failing one drops its sender. cut is the
// pool position of the transaction that ended the loop (-1: the pool was exhausted).
func refSelect(pool []ptx, limit int) (sel []int, total int, cut int) {
	lists := map[int][]int{}
	var order []int
	for i, p := range pool {
		if _, ok := lists[p.sender]; !ok {
			order = append(order, p.sender)
		}
		lists[p.sender] = append(lists[p.sender], i)
	}
	for _, l := range lists {
		l := l
		sort.SliceStable(l, func(a, b int) bool { return pool[l[a]].nonce < pool[l[b]].nonce })
	}
	pos := map[int]int{}
	dead := map[int]bool{}
	for {
		best := -1
		for _, s := range order {
			if dead[s] || pos[s] >= len(lists[s]) {
				continue
			}
			h := lists[s][pos[s]]
			if best < 0 || pool[h].prio() > pool[best].prio() {
				best = h
			}
		}
		if best < 0 {
			return sel, total, -1
		}
		if pool[best].size+total > limit {
			return sel, total, best
		}
		if !pool[best].ok() {
			dead[pool[best].sender] = true
			continue
		}
		sel = append(sel, best)
		total += pool[best].size
		pos[pool[best].sender]++
	}
}

// ---------------------------------------------------------------------------------------------
// what the runner records about a forged block (called from opForge before the block is processed)
// ---------------------------------------------------------------------------------------------

// noteBoundary counts the boundary classes of the forged block b (pool: what forge was offered) and
// returns (oversized, class): oversized = the payload is above the limit of the node's block
// verification (possible only when the reset op gave the verifier a smaller limit than the
// generator: the rejection is then REQUIRED); class = the boundary the block sits at, used as suffix
// of the rejection signature.
func (x *runner) noteBoundary(pool []ptx, b *blockchain.Block) (bool, string) {
	r := x.r
	class := ""
	set := func(c string) {
		if class == "" {
			class = c
		}
	}
	total := 0
	for _, tx := range b.Transactions {
		total += tx.Size()
		switch len(tx.Params) {
		case blockchain.MaxTransactionParamsSize:
			atomic.AddInt64(&cntParamsAtLimit, 1)
			set("tx-params-at-limit")
		case blockchain.MaxTransactionParamsSize - 1:
			atomic.AddInt64(&cntParamsOneBelow, 1)
		}
	}
	limit := int(r.maxSize)
	vlimit := int(r.n.Cfg.MaxTransactionsLength)
	if len(pool) == 0 {
		atomic.AddInt64(&cntEmptyPool, 1)
	}
	if len(pool) > 0 {
		fits := false
		for _, p := range pool {
			fits = fits || p.size <= limit
		}
		if !fits {
			atomic.AddInt64(&cntNothingFits, 1)
		}
	}
	// (exact-boundary classes count only when generator and verifier have the SAME limit, as in the engine)
	if total == limit && total > 0 && limit == vlimit {
		atomic.AddInt64(&cntPayloadAtLimit, 1)
		class = "payload-at-limit"
		if len(b.Transactions) == 1 {
			atomic.AddInt64(&cntSingleTxAtLimit, 1)
		}
	}
	if total == limit && total > 0 && limit != vlimit {
		atomic.AddInt64(&cntPayloadAtGenLimitOnly, 1)
	}
	if total == vlimit && total > 0 && limit != vlimit {
		atomic.AddInt64(&cntPayloadAtVerLimitOnly, 1)
		class = "payload-at-verifier-limit"
	}
	if total == limit-1 && limit == vlimit {
		atomic.AddInt64(&cntPayloadOneBelow, 1)
		set("payload-one-below-limit")
	}
	if !hasCrossSenderTie(pool) {
		if _, rt, cut := refSelect(pool, limit); cut >= 0 {
			atomic.AddInt64(&cntPayloadCut, 1)
			if rt+pool[cut].size == limit+1 {
				atomic.AddInt64(&cntPayloadCutByOne, 1)
				if len(pool) == 1 {
					atomic.AddInt64(&cntSingleTxOneOver, 1)
				}
			}
		}
	}
	// slot edges (chain clock domain)
	bs := r.n.BlockSlot()
	h := b.Header
	slot := bs.GetSlotNumber(h.Timestamp)
	tipSlot := bs.GetSlotNumber(r.n.Tip().Header.Timestamp)
	switch off := h.Timestamp - bs.GetSlotTime(slot); {
	case off == 0:
		atomic.AddInt64(&cntSlotFirstSecond, 1)
		set("slot-first-second")
	case off == r.n.Cfg.BlockTime-1:
		atomic.AddInt64(&cntSlotLastSecond, 1)
		set("slot-last-second")
	case off == r.n.Cfg.BlockTime/5+1 && slot > tipSlot+1:
		atomic.AddInt64(&cntSlotAfterMissed, 1)
		set("slot-first-second-after-missed")
	}
	// maxHeightGenerated against the height
	switch {
	case h.MaxHeightGenerated == h.Height:
		atomic.AddInt64(&cntMhgEqHeight, 1)
		set("mhg-equals-height")
	case h.MaxHeightGenerated+1 == h.Height && h.Height > 1:
		atomic.AddInt64(&cntMhgAdjacent, 1)
	case h.MaxHeightGenerated > h.Height:
		atomic.AddInt64(&cntMhgAboveHeight, 1)
	}
	// aggregate commit height against the bounds the verifier uses
	if ac := h.AggregateCommit; ac != nil && len(ac.AggregationBits) > 0 {
		_, mhpc, mhc := r.n.BFTHeights()
		if ac.Height == mhpc {
			atomic.AddInt64(&cntAggAtMhpc, 1)
			set("aggregate-commit-at-mhpc")
		}
		if ac.Height == mhc+1 {
			atomic.AddInt64(&cntAggAtMhcPlus1, 1)
		}
	}
	if total > vlimit {
		atomic.AddInt64(&cntOversizedRejected, 1)
		if total == vlimit+1 {
			atomic.AddInt64(&cntOversizedByOne, 1)
		}
		return true, class
	}
	return false, class
}

// edgeWithin: seconds into the slot for `w=first|last`.
//
//	first  the first second in which shouldForge lets v generate: second 0 of the slot when the tip is
//	       in the slot before, second waitThreshold+1 after missed slots
//	last   the last second of the slot (the wall clock is kept away from a second boundary, because
//	       forge reads the clock twice - shouldForge and initBlockHeader - and a tick in between puts
//	       the header into the next slot: Props/C15_Accept.lean C15_cx_second_clock_read_in_next_slot)
func (x *runner) edgeWithin(edge string, v *node.Validator) (uint32, bool) {
	bt := x.r.n.Cfg.BlockTime
	switch edge {
	case "first":
		if x.r.n.SlotOf(v) > 1 {
			return bt/5 + 1, true
		}
		return 0, true
	case "last":
		for time.Now().Nanosecond() > 600_000_000 {
			time.Sleep(20 * time.Millisecond)
		}
		return bt - 1, true
	}
	return 0, false
}

// opVProbe: `vprobe <j> <pool>` - a block of another generator (validator j, harness builder) whose
// payload is the whole pool, given to Executer.verifyBlock only (nothing is written). Output
// `vprobe total=<bytes> acc=<0|1>`. Model-free: accepted iff total <= limit of the node.
func (x *runner) opVProbe(w []string) string {
	if len(w) != 3 {
		return "bad-op"
	}
	j, err := strconv.Atoi(w[1])
	if err != nil || j >= len(x.r.n.Validators) || j < len(x.r.own) {
		return "bad-op"
	}
	pool, err := parsePool(x.r.n.Cfg.ChainID, w[2])
	if err != nil {
		return "bad-op"
	}
	total := 0
	for _, p := range pool {
		total += p.size
	}
	b, err := x.r.n.BuildBlock(node.BlockOpts{Generator: x.r.n.Validators[j], Txs: poolTxs(pool)})
	if err != nil {
		x.fail("c15-harness", "vprobe: build: %v", err)
		return "build-error"
	}
	limit := int(x.r.n.Cfg.MaxTransactionsLength)
	if d := total - limit; d >= -1 && d <= 1 {
		atomic.AddInt64(&cntVProbe[d+1], 1)
	}
	verr := x.r.n.VerifyBlock(b)
	acc := 0
	if verr == nil {
		acc = 1
	}
	switch {
	case total <= limit && verr != nil:
		x.fail("c15-verifier-rejects-payload-within-limit", "verifyBlock rejects a block whose transactions have %d bytes in total, the limit of the node is %d (a generator may fill a block up to and including the limit): %v; pool %s", total, limit, verr, w[2])
	case total > limit && verr == nil:
		x.fail("c15-verifier-accepts-oversized-payload", "verifyBlock accepts a block whose transactions have %d bytes in total, the limit of the node is %d; pool %s", total, limit, w[2])
	}
	return fmt.Sprintf("vprobe total=%d acc=%d", total, acc)
}

// ---------------------------------------------------------------------------------------------
// generation
// ---------------------------------------------------------------------------------------------

// rebuild p with another padding, keeping its fee priority (so that the order of the pool is unchanged)
func repad(p ptx, pad int) ptx {
	prio := p.prio()
	q := newPtx(defaultChainID, p.sender, p.nonce, p.fee, pad, p.v, p.e)
	for k := 0; k < 4; k++ {
		fee := prio*uint64(q.size) + uint64(q.size)/2
		q = newPtx(defaultChainID, p.sender, p.nonce, fee, pad, p.v, p.e)
		if q.prio() == prio {
			break
		}
	}
	return q
}

// fitPool changes the padding of the k-th selected transaction (k >= 1, in selection order without a
// limit) so that the first k selected transactions have exactly `want` bytes. ok=false: not possible
// (the others are too large already, or a size is skipped by a varint boundary).
func fitPool(pool []ptx, k, want int) ([]ptx, bool) {
	order, _, _ := refSelect(pool, 1<<40)
	if k < 1 || k > len(order) {
		return nil, false
	}
	res := append([]ptx{}, pool...)
	idx := order[k-1]
	others := 0
	for _, i := range order[:k-1] {
		others += pool[i].size
	}
	for tries := 0; tries < 6; tries++ {
		d := want - others - res[idx].size
		if d == 0 {
			break
		}
		pad := res[idx].pad + d
		if pad < 0 {
			return nil, false
		}
		res[idx] = repad(res[idx], pad)
	}
	if others+res[idx].size != want || hasCrossSenderTie(res) {
		return nil, false
	}
	// the selection under the limit `want` must be exactly that prefix
	sel, total, _ := refSelect(res, want)
	if total != want || len(sel) != k {
		return nil, false
	}
	return res, true
}

// genPassingPool: a tie-free pool with mostly passing transactions and more candidates than the
// limit will admit.
func genPassingPool(rng *rand.Rand, minTxs int) []ptx {
	for {
		pool := genPool(rng, defaultChainID, 4, minTxs+3+rng.Intn(4), false, 8)
		if hasCrossSenderTie(pool) {
			continue
		}
		if sel, _, _ := refSelect(pool, 1<<40); len(sel) >= minTxs {
			return pool
		}
	}
}

// poolAt returns a pool whose selection under `limit` ends `delta` bytes from the limit:
//
//	delta = 0   the selected transactions have exactly `limit` bytes
//	delta = -1  they have limit-1 bytes and a further passing candidate does not fit
//	delta = +1  the next candidate of maximal priority would make it limit+1: it must be cut
//
// ok=false if `limit` is too small for the pool at hand.
func poolAt(rng *rand.Rand, limit, delta int) ([]ptx, bool) {
	for tries := 0; tries < 40; tries++ {
		pool := genPassingPool(rng, 2)
		order, _, _ := refSelect(pool, 1<<40)
		// k = number of transactions whose sizes add up to limit (delta 0, +1: the (k)-th is cut) or limit-1
		var ks []int
		for k := 1; k <= len(order); k++ {
			ks = append(ks, k)
		}
		rng.Shuffle(len(ks), func(i, j int) { ks[i], ks[j] = ks[j], ks[i] })
		// several transactions adding up to the limit rather than one padded to it, where possible
		sort.SliceStable(ks, func(i, j int) bool { return ks[i] > 1 && ks[j] == 1 })
		for _, k := range ks {
			want := limit
			switch delta {
			case -1:
				want = limit - 1
			case 1:
				want = limit + 1
			}
			fitted, ok := fitPool(pool, k, want)
			if !ok {
				continue
			}
			sel, total, cut := refSelect(fitted, limit)
			switch delta {
			case 0:
				if total == limit && len(sel) == k {
					return fitted, true
				}
			case -1:
				if total == limit-1 && len(sel) == k && cut >= 0 {
					return fitted, true
				}
			case 1:
				if cut >= 0 && total+fitted[cut].size == limit+1 && len(sel) == k-1 {
					return fitted, true
				}
			}
		}
	}
	return nil, false
}

type boundaryGen struct {
	chainGen
}

func (g *boundaryGen) resetShared(seed int, vmax int) {
	g.reset(seed)
	g.ops[0] += fmt.Sprintf(" vmax=%d", vmax)
}

// turn: the validators generate in slot order; own validators forge the given pool, the others extend
func (g *boundaryGen) forgeNext(pool []ptx, extra string) {
	for {
		v := (g.height + 1) % g.nv
		if v < g.own {
			op := fmt.Sprintf("forge %d %s", v, formatPool(pool))
			if extra != "" {
				op += " " + extra
			}
			g.ops = append(g.ops, op)
			g.height++
			return
		}
		g.ext(v)
	}
}

// genBoundaryCases: the boundary families of all shared limits (see the head of the file).
func genBoundaryCases(rng *rand.Rand, tier string) []corr.Case {
	var cases []corr.Case
	n := 1
	if tier == "thorough" {
		n = 25
	}
	add := func(tag string, g *boundaryGen) {
		cases = append(cases, corr.Case{Ops: g.ops, Tag: tag})
	}
	newGen := func(limit int) *boundaryGen {
		g := &boundaryGen{chainGen{rng: rng, nv: 4, own: 1 + rng.Intn(3), maxSize: limit}}
		g.resetShared(1+rng.Intn(50), limit)
		return g
	}
	edge := func() string {
		switch rng.Intn(4) {
		case 0:
			return "w=first"
		case 1:
			return "w=last"
		}
		return ""
	}

	// (1) limit := sum of a prefix of the fee-ordered selection (+0, +1, -1), one reset per pool
	for i := 0; i < 14*n; i++ {
		pool := genPassingPool(rng, 2)
		order, _, _ := refSelect(pool, 1<<40)
		k := 1 + rng.Intn(len(order))
		sum := 0
		for _, j := range order[:k] {
			sum += pool[j].size
		}
		limit := sum + []int{0, 0, 0, -1, 1}[i%5]
		g := newGen(limit)
		g.forgeNext(pool, edge())
		// further blocks under the same limit, filled exactly / to one below / cut by one by padding
		for j, m := 0, rng.Intn(3); j < m; j++ {
			if p2, ok := poolAt(rng, limit, rng.Intn(3)-1); ok {
				g.forgeNext(p2, edge())
			}
		}
		add("boundary-prefix", g)
	}
	// (2) fixed limits (the configuration values the other families use, and the engine default), pools padded to fit
	for i := 0; i < 12*n; i++ {
		limit := []int{400, 900, 1200, 15 * 1024, 300 + rng.Intn(3000)}[i%5]
		g := newGen(limit)
		for j, m := 0, 2+rng.Intn(3); j < m; j++ {
			delta := []int{0, -1, 1}[(i+j)%3]
			if limit == 15*1024 {
				pool, ok := bigPoolAt(rng, limit, delta)
				if ok {
					g.forgeNext(pool, "")
				}
				continue
			}
			if pool, ok := poolAt(rng, limit, delta); ok {
				g.forgeNext(pool, edge())
			}
		}
		if rng.Intn(2) == 0 {
			g.ops = append(g.ops, "restart")
			if pool, ok := poolAt(rng, limit, 0); ok && limit != 15*1024 {
				g.forgeNext(pool, "")
			}
		}
		add("boundary-pad", g)
	}
	// (3) one transaction of exactly the limit / one byte more / one byte less; empty pool; limit 0
	for i := 0; i < 6*n; i++ {
		p := newPtx(defaultChainID, rng.Intn(3), uint64(rng.Intn(3)), uint64(1000+rng.Intn(100000)), genPad(rng), node.TxOK, node.TxOK)
		limit := p.size + []int{0, -1, 1}[i%3]
		g := newGen(limit)
		g.forgeNext([]ptx{p}, edge())
		g.forgeNext(nil, edge())
		// the transaction of highest priority does not fit (by one byte), smaller ones behind it would: the loop stops
		big := repad(newPtx(defaultChainID, 0, 0, 50_000_000, 0, node.TxOK, node.TxOK), 0)
		if fitted, ok := fitPool([]ptx{big}, 1, limit+1); ok {
			small := newPtx(defaultChainID, 1, 0, 1000, 0, node.TxOK, node.TxOK)
			if small.size <= limit && small.prio() < fitted[0].prio() {
				g.forgeNext([]ptx{fitted[0], small}, "")
			}
		}
		add("boundary-single", g)
	}
	// a limit below every transaction (the engine replaces a configured 0 by the default, so 1.. is the smallest)
	for i := 0; i < 2*n; i++ {
		g := newGen(1 + rng.Intn(100))
		g.forgeNext(nil, edge())
		for {
			if pool := genTieFreePool(rng, 3, 4); len(pool) > 0 {
				g.forgeNext(pool, "")
				break
			}
		}
		add("boundary-tiny", g)
	}
	// (4) transaction parameters of exactly MaxTransactionParamsSize (and one less); one more is not
	// admitted by Transaction.Validate (gossip validator, RPC) and therefore never offered to forge.
	// With the default payload limit; then with fillers that make the payload exactly the limit.
	for i := 0; i < 2*n; i++ {
		limit := 15 * 1024
		g := newGen(limit)
		for _, plen := range []int{blockchain.MaxTransactionParamsSize, blockchain.MaxTransactionParamsSize - 1, blockchain.MaxTransactionParamsSize + 1} {
			p := newPtx(defaultChainID, 0, uint64(g.height), 1_000_000_000, plen-2, node.TxOK, node.TxOK)
			if p.tx.Validate() != nil {
				atomic.AddInt64(&cntParamsNotAdmitted, 1)
				continue
			}
			pool := []ptx{p}
			if i%2 == 0 {
				// fillers of lower priority: together exactly the limit
				f1 := newPtx(defaultChainID, 1, 0, 2000, 100+rng.Intn(100), node.TxOK, node.TxOK)
				f2 := newPtx(defaultChainID, 2, 0, 150, 0, node.TxOK, node.TxOK)
				if fitted, ok := fitPool([]ptx{p, f1, f2}, 3, limit); ok {
					pool = fitted
				}
			}
			g.forgeNext(pool, "")
		}
		add("boundary-params", g)
	}
	// (5) slot edges with missed slots: the own validator's slot comes after slots nobody used
	for i := 0; i < 3*n; i++ {
		limit := []int{900, 15 * 1024}[i%2]
		g := &boundaryGen{chainGen{rng: rng, nv: 4, own: 1, maxSize: limit}}
		g.resetShared(1+rng.Intn(50), limit)
		for j := 0; j < 4; j++ {
			// validator 0 is the only one that generates: three slots are missed before each of its blocks
			pool, _ := poolAt(rng, limit, 0)
			if limit == 15*1024 {
				pool = nil
			}
			g.ops = append(g.ops, fmt.Sprintf("forge 0 %s %s", formatPool(pool), []string{"w=first", "w=last", "w=first", "w=last"}[j]))
			g.height++
		}
		add("boundary-slot", g)
	}
	// (6) maxHeightGenerated edges: generate, delete, generate at the same height again (mhg == height),
	// then on top of it (mhg == height-1), with payloads at the limit; certificates in between put
	// aggregate commits at the precommitted height into the generated blocks
	for i := 0; i < 3*n; i++ {
		limit := 600 + rng.Intn(600)
		g := &boundaryGen{chainGen{rng: rng, nv: 4, own: 2, maxSize: limit}}
		g.resetShared(1+rng.Intn(50), limit)
		full := func() []ptx { p, _ := poolAt(rng, limit, 0); return p }
		v := rng.Intn(2)
		forge := func() { g.ops = append(g.ops, fmt.Sprintf("forge %d %s", v, formatPool(full()))); g.height++ }
		forge()
		g.del(1)
		forge() // same validator, same height: mhg == height
		g.del(1)
		g.ext(2 + rng.Intn(2))
		forge() // one above its largest height: mhg == height-1
		for j := 0; j < 9; j++ {
			g.forgeNext(full(), "")
			g.ops = append(g.ops, "certify 15")
		}
		add("boundary-heights", g)
	}
	// (7) the verifier alone at limit-1 / limit / limit+1 (blocks of another generator, harness builder)
	for i := 0; i < 4*n; i++ {
		limit := []int{400, 900, 15 * 1024, 300 + rng.Intn(2000)}[i%4]
		g := newGen(limit)
		for _, d := range []int{-1, 0, 1} {
			var pool []ptx
			var ok bool
			if limit == 15*1024 {
				pool, ok = bigPoolAt(rng, limit+d, 0)
			} else {
				pool, ok = poolAt(rng, limit+d, 0)
			}
			if !ok {
				continue
			}
			// the probe carries exactly the transactions that add up to limit+d
			sel, _, _ := refSelect(pool, limit+d)
			var exact []ptx
			for _, j := range sel {
				exact = append(exact, pool[j])
			}
			g.ops = append(g.ops, fmt.Sprintf("vprobe %d %s", g.own+rng.Intn(g.nv-g.own), formatPool(exact)))
		}
		g.forgeNext(nil, "")
		add("boundary-verifier", g)
	}
	// (8) the two configuration values differ by one (cannot happen in the engine, where both come from
	// Genesis.MaxTransactionsSize - Props/C15_Wire): the generator fills to its limit, the verifier's
	// limit is one byte lower -> the block MUST be rejected; one byte higher -> accepted
	for i := 0; i < 4*n; i++ {
		limit := 500 + rng.Intn(1500)
		vmax := limit + []int{-1, 1, -1, -2}[i%4]
		g := &boundaryGen{chainGen{rng: rng, nv: 4, own: 1 + rng.Intn(3), maxSize: limit}}
		g.resetShared(1+rng.Intn(50), vmax)
		for j := 0; j < 3; j++ {
			if pool, ok := poolAt(rng, limit, []int{0, -1, 0}[j]); ok {
				g.forgeNextMaybeRejected(pool, limit, vmax)
			}
		}
		add("boundary-limits-differ", g)
	}
	return cases
}

// forgeNextMaybeRejected: like forgeNext, but the chain only grows if the block is within the verifier's limit
func (g *boundaryGen) forgeNextMaybeRejected(pool []ptx, limit, vmax int) {
	_, total, _ := refSelect(pool, limit)
	g.forgeNext(pool, "")
	if total > vmax {
		g.height-- // the forged block is rejected: the tip stays, the slot passes
	}
}

// bigPoolAt: pools for the default limit of 15 KiB: large transactions (paddings of 1-3 kB)
func bigPoolAt(rng *rand.Rand, limit, delta int) ([]ptx, bool) {
	for tries := 0; tries < 20; tries++ {
		var pool []ptx
		n := 8 + rng.Intn(3)
		for i := 0; i < n; i++ {
			pad := 1200 + rng.Intn(1800)
			p := newPtx(defaultChainID, i%5, uint64(i/5), 0, pad, node.TxOK, node.TxOK)
			p = newPtx(defaultChainID, i%5, uint64(i/5), uint64(100-i*7)*uint64(p.size)+uint64(rng.Intn(p.size)), pad, node.TxOK, node.TxOK)
			pool = append(pool, p)
		}
		if hasCrossSenderTie(pool) {
			continue
		}
		want := limit
		if delta == -1 {
			want = limit - 1
		} else if delta == 1 {
			want = limit + 1
		}
		order, _, _ := refSelect(pool, 1<<40)
		sum := 0
		for k := 1; k <= len(order); k++ {
			sum += pool[order[k-1]].size
			if sum < want-200 {
				continue
			}
			if fitted, ok := fitPool(pool, k, want); ok {
				sel, total, cut := refSelect(fitted, limit)
				switch {
				case delta == 0 && total == limit && len(sel) == k,
					delta == -1 && total == limit-1 && len(sel) == k,
					delta == 1 && cut >= 0 && total+fitted[cut].size == limit+1:
					return fitted, true
				}
			}
			break
		}
	}
	return nil, false
}

// boundaryFeats: classification of a forge line of a chain case by the boundary its payload sits at
// (ops[0] is the reset op with maxsize=).
func boundaryFeats(reset string, w []string, out string, feats map[string]bool) {
	limit, ok := kv(strings.Fields(reset), "maxsize")
	if !ok || len(w) < 3 {
		return
	}
	pool, err := parsePool(defaultChainID, w[2])
	if err != nil {
		return
	}
	total := 0
	for _, f := range strings.Fields(out) {
		if strings.HasPrefix(f, "sel=") {
			idx, err := parseIdx(f[4:])
			if err != nil {
				return
			}
			for _, i := range idx {
				if i >= 0 && i < len(pool) {
					total += pool[i].size
				}
			}
		}
	}
	switch {
	case total == limit && total > 0:
		feats["payload-at-limit"] = true
	case total == limit-1:
		feats["payload-one-below"] = true
	}
	if len(w) == 4 && strings.HasPrefix(w[3], "w=") {
		feats["slot-"+w[3][2:]] = true
	}
	if strings.HasSuffix(out, "acc=0") && w[0] == "forge" {
		feats["rejected"] = true
	}
}
