package c13

import (
	"github.com/cockroachdb/pebble"
	"github.com/cockroachdb/pebble/vfs"
)

// PebbleOptions returns the pebble options of the C13 database modes ("default", "small": 16 KB memtables,
// "tiny": 3 KB memtables, both with an L0 compaction threshold of 2) on a caller supplied file system. Other
// harnesses (the durable-state checks of C05) open their flushable databases with the same settings.
func PebbleOptions(fs vfs.FS, mode string) *pebble.Options {
	o := pebbleOptions(nil, mode)
	o.FS = fs
	return o
}
