// Package c13 checks property C13 "Block commit and removal are crash-atomic" on the real code by
// fault enumeration (no Lean driver: the Lean side of C13 is the write-skeleton proof, Props/C13.lean).
//
// A node (verifharness/node: real consensus.Executer, blockchain.Chain, pebble) runs on pebble's
// strict in-memory file system wrapped so that every file / directory sync is counted (fs.go). A
// generated history (blocks with transactions / assets / events, validator changes, finality
// advances with pruning, deletions with and without temp block, restored temp blocks, ClearTempBlocks,
// rejected blocks, genesis processing) is first executed without faults on a reference node, which
// records for every step the database dump before and after, the tip, the BFT store and the number
// of syncs. Then, for EVERY step i and EVERY crash point k = 0..syncs(i): a fresh node replays
// steps 0..i-1, the file system is armed ("ignore every sync after the k-th one"), step i runs to
// its end, the file system is reset to its synced state (power loss), pebble is reopened and the
// node restarted (Chain/Executer Init).
//
// Oracle (model-free):
//   - c13-torn-state            the reopened database is neither the pre-step nor the post-step dump
//   - c13-not-durable           all syncs were honoured, the step returned success, but the dump is not post
//   - c13-inconsistent-restart  Init fails, or the tip / BFT store after restart are not the ones recorded for
//     that dump, or the structural invariants fail (height index <-> header <-> payload, diff keys exactly
//     above the finalized height up to the tip, nothing above the tip, BFT store at the tip)
//   - c13-redo-differs          re-running the interrupted step after the restart does not give the post dump
//   - c13-write-count           the write-ahead log shows a number of batches per step other than one
//     (zero for a rejected step), or replaying the logged batch on the pre dump does not give the post dump
package c13

import (
	"bytes"
	"encoding/binary"
	"encoding/json"
	"errors"
	"fmt"
	"io"
	"math/rand"
	"os"
	"os/exec"
	"sort"
	"strconv"
	"strings"
	"sync"
	"time"

	"github.com/cockroachdb/pebble"
	"github.com/cockroachdb/pebble/record"

	"github.com/LiskHQ/lisk-engine/pkg/blockchain"
	"github.com/LiskHQ/lisk-engine/pkg/codec"
	"github.com/LiskHQ/lisk-engine/pkg/crypto"
	"github.com/LiskHQ/lisk-engine/pkg/db"
	"github.com/LiskHQ/lisk-engine/pkg/db/diffdb"
	"github.com/LiskHQ/lisk-engine/pkg/labi"

	"verifharness/corr"
	"verifharness/node"
)

type prop struct{}

func init() { corr.Register(prop{}) }

func (prop) ID() string                 { return "C13" }
func (prop) NoModel() bool              { return true }
func (prop) Parallel() int              { return 4 }
func (prop) CaseTimeout() time.Duration { return 10 * time.Minute }

// ---------------------------------------------------------------------------------------------
// statistics shared by all cases (reported by Extra)

type statT struct {
	SyncDist     map[string]map[int]int `json:"sync_dist"` // step kind -> syncs per step -> count
	CrashRuns    int                    `json:"crash_runs"`
	Pre          int                    `json:"pre"`
	Post         int                    `json:"post"`
	AbiAhead     int                    `json:"abi_ahead"` // crash points where the application had already committed/reverted but the engine database is pre
	Steps        int                    `json:"steps"`
	GenesisRuns  int                    `json:"genesis_runs"`
	WalChecked   int                    `json:"wal_checked"`
	ReplayBlocks int                    `json:"replay_blocks"`
}

var stats = struct {
	sync.Mutex
	statT
}{statT: statT{SyncDist: map[string]map[int]int{}}}

func (s *statT) merge(o statT) {
	for k, m := range o.SyncDist {
		if s.SyncDist[k] == nil {
			s.SyncDist[k] = map[int]int{}
		}
		for n, c := range m {
			s.SyncDist[k][n] += c
		}
	}
	s.CrashRuns += o.CrashRuns
	s.Pre += o.Pre
	s.Post += o.Post
	s.AbiAhead += o.AbiAhead
	s.Steps += o.Steps
	s.GenesisRuns += o.GenesisRuns
	s.WalChecked += o.WalChecked
	s.ReplayBlocks += o.ReplayBlocks
}

func noteSyncs(kind string, n int) {
	stats.Lock()
	defer stats.Unlock()
	if stats.SyncDist[kind] == nil {
		stats.SyncDist[kind] = map[int]int{}
	}
	stats.SyncDist[kind][n]++
}

// ---------------------------------------------------------------------------------------------
// generator

func (prop) Generate(rng *rand.Rand, tier string) []corr.Case {
	n := 70
	if tier == "thorough" {
		n = 1500
	}
	var cases []corr.Case
	for i := 0; i < n; i++ {
		cases = append(cases, genCase(rng, i, tier))
	}
	// failure-injection family (appended: the cases above keep their random draws), see genInject
	k := 3
	if tier == "thorough" {
		k = 40
	}
	for i := 0; i < k; i++ {
		cases = append(cases, genInject(rng, i))
	}
	return cases
}

// genInject: "errors after the point of no return". Every step kind (process, processValidated of a restored
// temporary block, deleteBlock) runs with ONE failure armed (node.Arm: every method of labi.ABI - also those the engine
// does not call on this path today - fails once; slow event subscribers; p2p publication error):
//
//	inj kind=<injection kind> on=blk|del|restore
//
// The step may succeed or fail; a step that reports an error must have left the database byte-identical and logged no
// batch (c13-torn-state / c13-write-count), a step that succeeds must have written exactly one batch; the crash
// enumeration runs over the disturbed steps like over any other step.
var injPerm []int // order of the injection kinds for the current group of three cases (Generate is sequential)

func genInject(rng *rand.Rand, i int) corr.Case {
	nv := []int{1, 2, 4}[i%3]
	mode := []string{"default", "small"}[i%2]
	kinds := node.InjectionKinds()
	if i%3 == 0 {
		injPerm = rng.Perm(len(kinds))
	}
	if len(injPerm) == len(kinds) {
		p := make([]string, len(kinds))
		for a, b := range injPerm {
			p[a] = kinds[b]
		}
		kinds = p
	}
	ops := []string{fmt.Sprintf("reset nv=%d seed=%d mode=%s keepev=0", nv, rng.Int63n(1<<40), mode), fmt.Sprintf("fill n=%d", 3*nv+2)}
	// the kinds are dealt out over three consecutive cases; every kind disturbs a block step (the chain is long enough
	// for the finalized height to follow the tip: the disturbed block raises it) and a removal or a restore
	for j, k := range kinds {
		if j%3 != i%3 {
			continue
		}
		ops = append(ops, "inj kind="+k+" on=blk")
		if (i+j)%2 == 0 {
			ops = append(ops, "inj kind="+k+" on=del", "blk txs=1 assets=0 bev=0 aev=0")
		} else {
			ops = append(ops, "del temp=1", "inj kind="+k+" on=restore", "restore")
		}
	}
	return corr.Case{Ops: ops, Tag: "inject/" + mode}
}

func genCase(rng *rand.Rand, i int, tier string) corr.Case {
	nv := []int{1, 2, 4, 4}[rng.Intn(4)]
	mode := "default"
	if i%3 == 2 {
		mode = "small"
	}
	if i%9 == 4 {
		mode = "tiny"
	}
	keep := []int{0, 0, -1, 2}[rng.Intn(4)]
	tag := []string{"mixed", "finality", "reorg", "payload"}[i%4]
	reset := fmt.Sprintf("reset nv=%d seed=%d mode=%s keepev=%d", nv, rng.Int63n(1<<40), mode, keep)
	if i%5 == 3 {
		// genesis above height 0 (every migrated network) and block caches smaller / larger than the chain:
		// the restart (PrepareCache) must work at every distance from genesis
		reset += fmt.Sprintf(" gh=%d cache=%d", []int{1, 7, 100, 1 << 20}[rng.Intn(4)], []int{0, 3, 6, 20}[rng.Intn(4)])
	}
	if i%35 == 17 {
		// a chain whose payload limit allows blocks of several hundred KiB: the step's batch is far larger than
		// any internal buffer of the batch or of pebble's memtable, and must still be one atomic write
		reset = fmt.Sprintf("reset nv=%d seed=%d mode=default keepev=%d maxtx=400000", nv, rng.Int63n(1<<40), keep)
		return corr.Case{Ops: []string{reset, "blk txs=2 assets=1 bev=0 aev=0", fmt.Sprintf("blk txs=%d assets=0 bev=1 aev=0 txsize=14000", 12+rng.Intn(9)), "del temp=1", "restore", "blk txs=10 assets=0 bev=0 aev=0 txsize=13000"}, Tag: "bigblock/default"}
	}
	ops := []string{reset}
	blk := func() string {
		p := rng.Intn(4)
		txs, assets, bev, aev := 0, 0, 0, 0
		if p > 0 {
			txs = []int{0, 1, 2, 5}[rng.Intn(4)]
			assets = rng.Intn(3)
			bev = rng.Intn(3)
			aev = rng.Intn(2)
		}
		return fmt.Sprintf("blk txs=%d assets=%d bev=%d aev=%d", txs, assets, bev, aev)
	}
	steps := 8 + rng.Intn(8)
	if tier == "thorough" && i%10 == 0 {
		steps += 12
	}
	switch tag {
	case "finality": // long enough for finality to advance and prune diffs / events
		ops = append(ops, fmt.Sprintf("fill n=%d", 2+rng.Intn(3)+2*nv))
		for s := 0; s < steps/2; s++ {
			ops = append(ops, blk())
		}
		ops = append(ops, "del temp=0", "del temp=1", "restore", blk())
	case "reorg":
		ops = append(ops, fmt.Sprintf("fill n=%d", 1+rng.Intn(3)))
		for s := 0; s < steps; s++ {
			switch rng.Intn(7) {
			case 0, 1:
				ops = append(ops, fmt.Sprintf("del temp=%d", rng.Intn(2)))
			case 2:
				ops = append(ops, "del temp=1", "restore")
			case 3:
				ops = append(ops, "del temp=1", "del temp=1", "cleartemp")
			default:
				ops = append(ops, blk())
			}
		}
		ops = append(ops, "cleartemp")
	case "payload":
		for s := 0; s < steps; s++ {
			ops = append(ops, fmt.Sprintf("blk txs=%d assets=%d bev=%d aev=%d", []int{1, 3, 8, 20}[rng.Intn(4)], rng.Intn(3), rng.Intn(4), rng.Intn(3)))
			if rng.Intn(4) == 0 {
				ops = append(ops, "bad kind="+[]string{"sig", "commitfail", "execfail"}[rng.Intn(3)])
			}
		}
	default:
		for s := 0; s < steps; s++ {
			switch rng.Intn(12) {
			case 0:
				ops = append(ops, "vchange")
			case 1:
				ops = append(ops, fmt.Sprintf("del temp=%d", rng.Intn(2)))
			case 2:
				ops = append(ops, "del temp=1", "restore")
			case 3:
				ops = append(ops, "bad kind="+[]string{"sig", "commitfail", "execfail"}[rng.Intn(3)])
			case 4:
				ops = append(ops, "cleartemp")
			case 5:
				ops = append(ops, fmt.Sprintf("fill n=%d", 1+rng.Intn(2*nv+2)))
			default:
				ops = append(ops, blk())
			}
		}
	}
	return corr.Case{Ops: ops, Tag: tag + "/" + mode}
}

// ---------------------------------------------------------------------------------------------
// file system / database plumbing

func pebbleOptions(w *FS, mode string) *pebble.Options {
	o := &pebble.Options{FS: w}
	switch mode {
	case "small":
		// small memtables: WAL rotation, memtable flushes, manifest edits and compactions happen
		// inside block steps, so that crash points fall between their syncs as well
		o.MemTableSize = 16 << 10
		o.MemTableStopWritesThreshold = 4
		o.L0CompactionThreshold = 2
	case "tiny":
		// a block batch is larger than half a memtable: pebble commits it as a "large batch"
		// (flushable batch, memtable rotation on every block)
		o.MemTableSize = 3 << 10
		o.MemTableStopWritesThreshold = 6
		o.L0CompactionThreshold = 2
	}
	return o
}

func openDB(w *FS, mode string) (*db.DB, error) {
	return db.NewDBWithOptions("", pebbleOptions(w, mode))
}

func closeQuiet(d *db.DB) {
	if d == nil {
		return
	}
	defer func() { _ = recover() }()
	_ = d.Close()
}

func dumpDB(d *db.DB) []node.KV {
	it := d.VerifPebble().NewIter(&pebble.IterOptions{})
	defer it.Close()
	var res []node.KV
	for it.First(); it.Valid(); it.Next() {
		res = append(res, node.KV{Key: append([]byte{}, it.Key()...), Value: append([]byte{}, it.Value()...)})
	}
	return res
}

// canon makes a dump comparable between two executions of the same history: the value of a revert
// diff (key space 51) lists added / updated / deleted keys in the iteration order of a Go map
// (cacheDB.commit ranges over c.data), so the same block gives differently ordered, equivalent diffs.
// The three lists are sorted by key and re-encoded.
func canon(kvs []node.KV) []node.KV {
	for i, kv := range kvs {
		if len(kv.Key) == 0 || kv.Key[0] != 51 {
			continue
		}
		d := &diffdb.Diff{}
		if err := d.Decode(kv.Value); err != nil {
			continue
		}
		sort.Slice(d.Added, func(a, b int) bool { return bytes.Compare(d.Added[a], d.Added[b]) < 0 })
		sort.Slice(d.Updated, func(a, b int) bool { return bytes.Compare(d.Updated[a].Key, d.Updated[b].Key) < 0 })
		sort.Slice(d.Deleted, func(a, b int) bool { return bytes.Compare(d.Deleted[a].Key, d.Deleted[b].Key) < 0 })
		kvs[i].Value = d.Encode()
	}
	return kvs
}

func dumpStr(d *db.DB) string { return node.DumpString(canon(dumpDB(d))) }

// newNode creates a node on w. In mode "small" the database opened by node.New (default options) is
// replaced by one opened with the small-memtable options.
func newNode(cfg node.Config, w *FS, mode string) (*node.Node, error) {
	cfg.FS = w
	cfg.Dir = ""
	n, err := node.New(cfg)
	if err != nil {
		return nil, err
	}
	if mode != "default" {
		if err := n.DB.Close(); err != nil {
			// pebble reports leaked iterators here (finding of the node harness); the files are closed anyway
			_ = err
		}
		d, err := openDB(w, mode)
		if err != nil {
			return nil, err
		}
		n.DB = d
		if err := n.Restart(); err != nil {
			return nil, err
		}
	}
	return n, nil
}

// quiesce waits until pebble's background work (memtable flush, compaction, obsolete file removal)
// has settled: no immutable memtable, no compaction, and no new sync for a few polls.
func quiesce(w *FS, d *db.DB) {
	calm := 0
	last := w.Count()
	for i := 0; i < 20000 && calm < 4; i++ {
		time.Sleep(150 * time.Microsecond)
		m := d.VerifPebble().Metrics()
		c := w.Count()
		if m.MemTable.Count <= 1 && m.Compact.NumInProgress == 0 && c == last {
			calm++
		} else {
			calm = 0
		}
		last = c
	}
}

// ---------------------------------------------------------------------------------------------
// write-ahead log trace

// newRecordReader calls record.NewReader with a log number; the parameter type lives in an internal
// package of pebble and is only reachable through type inference.
func newRecordReader[T ~uint64](f func(io.Reader, T) *record.Reader, r io.Reader, n uint64) *record.Reader {
	return f(r, T(n))
}

type walOp struct {
	del   bool
	key   []byte
	value []byte
}

// walRecords returns the batches found in every write-ahead log file, by log number.
func walRecords(w *FS) map[uint64][][]walOp {
	res := map[uint64][][]walOp{}
	names, err := w.List("")
	if err != nil {
		return res
	}
	for _, name := range names {
		if !strings.HasSuffix(name, ".log") {
			continue
		}
		num, err := strconv.ParseUint(strings.TrimSuffix(name, ".log"), 10, 64)
		if err != nil {
			continue
		}
		f, err := w.FS.Open(name)
		if err != nil {
			continue
		}
		rd := newRecordReader(record.NewReader, f, num)
		var recs [][]walOp
		for {
			r, err := rd.Next()
			if err != nil {
				break
			}
			repr, err := io.ReadAll(r)
			if err != nil || len(repr) < 12 {
				break
			}
			br, _ := pebble.ReadBatch(repr)
			var ops []walOp
			for {
				kind, k, v, ok := br.Next()
				if !ok {
					break
				}
				switch kind {
				case pebble.InternalKeyKindSet:
					ops = append(ops, walOp{key: append([]byte{}, k...), value: append([]byte{}, v...)})
				case pebble.InternalKeyKindDelete:
					ops = append(ops, walOp{del: true, key: append([]byte{}, k...)})
				default:
					ops = append(ops, walOp{del: true, key: []byte(fmt.Sprintf("?kind%d", kind))})
				}
			}
			recs = append(recs, ops)
		}
		_ = f.Close()
		res[num] = recs
	}
	return res
}

// newBatches returns the batches logged since the previous observation.
func newBatches(before, after map[uint64][][]walOp) [][]walOp {
	var nums []uint64
	for n := range after {
		nums = append(nums, n)
	}
	sort.Slice(nums, func(i, j int) bool { return nums[i] < nums[j] })
	var res [][]walOp
	for _, n := range nums {
		a := after[n]
		b := before[n]
		if len(a) > len(b) {
			res = append(res, a[len(b):]...)
		}
	}
	return res
}

// ---------------------------------------------------------------------------------------------
// plan: the history executed on the reference node

type step struct {
	op        int
	kind      string // process | pvalidated | delete | cleartemp | bad
	label     string
	blk       *blockchain.Block
	saveTemp  bool
	wantErr   bool
	pre, post string
	preTip    []byte
	postTip   []byte
	preBFT    string
	postBFT   string
	syncs     int
	batches   int
	inj       string // failure armed for this step (node.Arm); the step may succeed or fail: wantErr is what the reference run saw
}

var errNotApplied = errors.New("block was not applied")

func apply(n *node.Node, st *step) (err error) {
	defer func() {
		if r := recover(); r != nil {
			err = fmt.Errorf("panic: %v", r)
		}
	}()
	var inj *node.Injection
	if st.inj != "" {
		if inj, err = n.Arm(st.inj); err != nil {
			return err
		}
		defer inj.Disarm()
	}
	switch st.kind {
	case "process", "bad":
		r := n.ProcessResult(st.blk)
		if r.Err != nil {
			return r.Err
		}
		if !r.Applied {
			return errNotApplied
		}
		return nil
	case "pvalidated":
		return n.ProcessValidatedPublish(st.blk, true, inj.Publish())
	case "delete":
		return n.DeleteTip(st.saveTemp)
	case "cleartemp":
		n.Chain.DataAccess().ClearTempBlocks()
		return nil
	}
	return fmt.Errorf("unknown step kind %q", st.kind)
}

type runner struct {
	cfg     node.Config
	mode    string
	nv      int
	a       *node.Node
	aw      *FS
	wal     map[uint64][][]walOp
	steps   []*step
	nonce   uint64
	temp    []*blockchain.Block // blocks deleted with saveTemp, newest last
	vstate  int
	fails   []corr.Fail
	genDump string
	genBFT  string
}

func (r *runner) fail(op int, sig, format string, args ...interface{}) {
	if len(r.fails) < 12 {
		r.fails = append(r.fails, corr.Fail{Sig: sig, Detail: fmt.Sprintf(format, args...), Op: op})
	}
}

func kvArg(w []string, key string, def int) int {
	for _, f := range w {
		if strings.HasPrefix(f, key+"=") {
			v, err := strconv.Atoi(f[len(key)+1:])
			if err == nil {
				return v
			}
		}
	}
	return def
}

func strArg(w []string, key, def string) string {
	for _, f := range w {
		if strings.HasPrefix(f, key+"=") {
			return f[len(key)+1:]
		}
	}
	return def
}

// recomputeMHG sets MaxHeightGenerated of every key holder to the largest height it generated on
// the current chain (after a deletion the builder would otherwise claim the deleted height).
func recomputeMHG(n *node.Node) {
	for _, v := range n.Validators {
		v.MaxHeightGenerated = 0
	}
	for h := uint32(1); h <= n.Height(); h++ {
		hd, err := n.HeaderAt(h)
		if err != nil {
			continue
		}
		if v := n.ValidatorByAddress(hd.GeneratorAddress); v != nil && h > v.MaxHeightGenerated {
			v.MaxHeightGenerated = h
		}
	}
}

func (r *runner) blockOpts(w []string) node.BlockOpts {
	n := r.a
	var o node.BlockOpts
	txs := kvArg(w, "txs", 0)
	for i := 0; i < txs; i++ {
		r.nonce++
		exec := node.TxOK
		if r.nonce%5 == 0 {
			exec = node.TxFail
		}
		sender := n.Validators[int(r.nonce)%len(n.Validators)]
		params := append([]byte{node.TxOK, byte(exec)}, bytes.Repeat([]byte{byte(r.nonce)}, int(r.nonce%40)+kvArg(w, "txsize", 0))...)
		o.Txs = append(o.Txs, n.NewTransaction(sender, r.nonce, 1000+r.nonce, params))
	}
	for i := 0; i < kvArg(w, "assets", 0); i++ {
		o.Assets = append(o.Assets, &blockchain.BlockAsset{Module: fmt.Sprintf("mod%c", 'a'+i), Data: bytes.Repeat([]byte{byte(i + 1)}, 5+i*20)})
	}
	for i := 0; i < kvArg(w, "bev", 0); i++ {
		o.BeforeEvents = append(o.BeforeEvents, &blockchain.Event{Module: "reward", Name: "minted", Data: []byte{byte(i), 1}, Topics: []codec.Hex{{0xaa, byte(i)}}})
	}
	for i := 0; i < kvArg(w, "aev", 0); i++ {
		o.AfterEvents = append(o.AfterEvents, &blockchain.Event{Module: "pos", Name: "rewarded", Data: []byte{byte(i), 2}, Topics: []codec.Hex{{0xbb}, {byte(i)}}})
	}
	return o
}

// record executes one step on the reference node and records everything the crash runs compare with.
func (r *runner) record(op int, st *step) {
	n := r.a
	st.op = op
	if r.mode != "default" {
		quiesce(r.aw, n.DB)
	}
	st.pre = dumpStr(n.DB)
	st.preTip = append([]byte{}, n.Tip().Header.ID...)
	st.preBFT = n.BFTDump()
	c0 := r.aw.Count()
	err := apply(n, st)
	if r.mode != "default" {
		quiesce(r.aw, n.DB)
	}
	st.syncs = r.aw.Count() - c0
	st.post = dumpStr(n.DB)
	st.postTip = append([]byte{}, n.Tip().Header.ID...)
	st.postBFT = n.BFTDump()
	wal := walRecords(r.aw)
	nb := newBatches(r.wal, wal)
	r.wal = wal
	st.batches = len(nb)
	n.DrainEvents()
	if st.inj != "" {
		st.wantErr = err != nil // either is legitimate; what a reported error implies is checked below
	}
	if (err != nil) != st.wantErr {
		r.fail(op, "c13-harness-step", "step %s: err=%v wantErr=%v", st.label, err, st.wantErr)
	}
	// op trace: exactly one batch per successful step, none for a rejected one; the batch explains the whole change
	want := 1
	if st.wantErr || (st.kind == "cleartemp" && st.pre == st.post) {
		want = 0
	}
	stats.Lock()
	stats.WalChecked++
	stats.Unlock()
	if len(nb) != want {
		r.fail(op, "c13-write-count", "step %s: %d batches in the write-ahead log, want %d", st.label, len(nb), want)
	}
	if st.wantErr && st.pre != st.post {
		r.fail(op, "c13-torn-state", "rejected step %s changed the database: %v", st.label, node.DiffDumps(parseDump(st.pre), parseDump(st.post)))
	}
	if len(nb) == 1 {
		m := map[string]string{}
		for _, kv := range parseDump(st.pre) {
			m[string(kv.Key)] = string(kv.Value)
		}
		for _, o := range nb[0] {
			if o.del {
				delete(m, string(o.key))
			} else {
				m[string(o.key)] = string(o.value)
			}
		}
		var kvs []node.KV
		for k, v := range m {
			kvs = append(kvs, node.KV{Key: []byte(k), Value: []byte(v)})
		}
		sort.Slice(kvs, func(i, j int) bool { return bytes.Compare(kvs[i].Key, kvs[j].Key) < 0 })
		kvs = canon(kvs)
		if node.DumpString(kvs) != st.post {
			r.fail(op, "c13-write-count", "step %s: the logged batch applied to the pre dump does not give the post dump: %v", st.label, node.DiffDumps(kvs, parseDump(st.post)))
		}
	}
	if v := checkDump(parseDump(st.post), st.postBFT); len(v) > 0 {
		r.fail(op, "c13-inconsistent-restart", "reference node after step %s: %s", st.label, strings.Join(v, "; "))
	}
	noteSyncs(st.kind, st.syncs)
	r.steps = append(r.steps, st)
}

func parseDump(s string) []node.KV {
	var res []node.KV
	for _, l := range strings.Split(s, "\n") {
		if l == "" {
			continue
		}
		i := strings.IndexByte(l, '=')
		res = append(res, node.KV{Key: corr.UnHex(l[:i]), Value: corr.UnHex(l[i+1:])})
	}
	return res
}

// plan interprets one op on the reference node.
func (r *runner) plan(op int, line string) string {
	w := strings.Fields(line)
	n := r.a
	before := len(r.steps)
	switch w[0] {
	case "blk", "fill":
		k := 1
		if w[0] == "fill" {
			k = kvArg(w, "n", 1)
		}
		for i := 0; i < k; i++ {
			o := node.BlockOpts{}
			if w[0] == "blk" {
				o = r.blockOpts(w)
			}
			b, err := n.BuildBlock(o)
			if err != nil {
				r.fail(op, "c13-harness-step", "build: %v", err)
				return "fail build"
			}
			r.record(op, &step{kind: "process", label: fmt.Sprintf("process h=%d txs=%d", b.Header.Height, len(b.Transactions)), blk: b})
		}
	case "vchange":
		nv := n.Cfg.NumValidators
		extra := n.Validators[nv]
		var next []*labi.Validator
		total := uint64(0)
		if r.vstate%2 == 0 {
			if nv == 1 {
				next = []*labi.Validator{n.Validators[0].Labi(1), extra.Labi(1)}
				total = 2
			} else {
				next = append(next, extra.Labi(1))
				total = 1
				for _, v := range n.Validators[1:nv] {
					next = append(next, v.Labi(v.Weight))
					total += v.Weight
				}
			}
		} else {
			for _, v := range n.Validators[:nv] {
				wt := v.Weight
				if wt == 0 {
					wt = 1
				}
				next = append(next, v.Labi(wt))
				total += wt
			}
		}
		r.vstate++
		vc := &node.ValidatorChange{Validators: next, PrecommitThreshold: node.DefaultThreshold(total), CertificateThreshold: node.DefaultThreshold(total)}
		b, err := n.BuildBlock(node.BlockOpts{ValidatorChange: vc})
		if err != nil {
			r.fail(op, "c13-harness-step", "build vchange: %v", err)
			return "fail build"
		}
		r.record(op, &step{kind: "process", label: fmt.Sprintf("process h=%d validator-change", b.Header.Height), blk: b})
	case "del":
		saveTemp := kvArg(w, "temp", 0) == 1
		tip := n.Tip()
		wantErr := tip.Header.Height <= n.Finalized()
		st := &step{kind: "delete", label: fmt.Sprintf("delete h=%d temp=%v", tip.Header.Height, saveTemp), saveTemp: saveTemp, wantErr: wantErr}
		r.record(op, st)
		if !wantErr {
			if saveTemp {
				r.temp = append(r.temp, tip)
			}
			recomputeMHG(n)
		}
	case "restore":
		if len(r.temp) == 0 {
			return "skip"
		}
		b := r.temp[len(r.temp)-1]
		if !bytes.Equal(b.Header.PreviousBlockID, n.Tip().Header.ID) {
			return "skip"
		}
		r.temp = r.temp[:len(r.temp)-1]
		r.record(op, &step{kind: "pvalidated", label: fmt.Sprintf("processValidated h=%d removeTemp", b.Header.Height), blk: b})
		recomputeMHG(n)
	case "cleartemp":
		r.record(op, &step{kind: "cleartemp", label: "ClearTempBlocks"})
		r.temp = nil
	case "inj":
		kind := strArg(w, "kind", "")
		switch strArg(w, "on", "blk") {
		case "blk":
			b, err := n.BuildBlock(r.blockOpts([]string{"txs=1", "bev=1"}))
			if err != nil {
				r.fail(op, "c13-harness-step", "build: %v", err)
				return "fail build"
			}
			st := &step{kind: "process", label: fmt.Sprintf("process h=%d with failure %s armed", b.Header.Height, kind), blk: b, inj: kind}
			r.record(op, st)
			if st.wantErr && bytes.Equal(n.Tip().Header.ID, st.preTip) {
				// refused: the same block again, undisturbed
				r.record(op, &step{kind: "process", label: fmt.Sprintf("process h=%d again", b.Header.Height), blk: b})
			}
		case "del":
			tip := n.Tip()
			if tip.Header.Height <= n.Finalized() {
				return "skip"
			}
			st := &step{kind: "delete", label: fmt.Sprintf("delete h=%d with failure %s armed", tip.Header.Height, kind), inj: kind}
			r.record(op, st)
			if !bytes.Equal(n.Tip().Header.ID, st.preTip) {
				recomputeMHG(n)
			}
		case "restore":
			if len(r.temp) == 0 {
				return "skip"
			}
			b := r.temp[len(r.temp)-1]
			if !bytes.Equal(b.Header.PreviousBlockID, n.Tip().Header.ID) {
				return "skip"
			}
			st := &step{kind: "pvalidated", label: fmt.Sprintf("processValidated h=%d removeTemp with failure %s armed", b.Header.Height, kind), blk: b, inj: kind}
			r.record(op, st)
			if !bytes.Equal(n.Tip().Header.ID, st.preTip) {
				r.temp = r.temp[:len(r.temp)-1]
				recomputeMHG(n)
			}
		default:
			return "unknown op"
		}
	case "bad":
		kind := strArg(w, "kind", "sig")
		var b *blockchain.Block
		var err error
		switch kind {
		case "commitfail":
			b, err = n.BuildBlock(node.BlockOpts{FailHook: node.HookCommit, Txs: r.blockOpts([]string{"txs=1"}).Txs})
		case "execfail":
			b, err = n.BuildBlock(node.BlockOpts{FailHook: node.HookAfterTxs})
		default:
			b, err = n.BuildBlock(node.BlockOpts{})
			if err == nil {
				b, err = node.CopyBlock(b)
				if err == nil {
					b.Header.Signature[0] ^= 1
					b.Header.Init()
				}
			}
		}
		if err != nil {
			r.fail(op, "c13-harness-step", "build bad: %v", err)
			return "fail build"
		}
		r.record(op, &step{kind: "bad", label: "rejected block " + kind, blk: b, wantErr: true})
	default:
		return "unknown op"
	}
	var sy []string
	for _, st := range r.steps[before:] {
		sy = append(sy, strconv.Itoa(st.syncs))
	}
	return fmt.Sprintf("steps=%d syncs=%s", len(r.steps)-before, strings.Join(sy, ","))
}

// ---------------------------------------------------------------------------------------------
// structural invariants of a database dump (model-free)

func u32(b []byte) uint32 { return binary.BigEndian.Uint32(b) }

// checkDump verifies what a restart relies on. bft is the BFT store dump (liskbft.VerifDump) of the
// same database ("" = skip the BFT clause).
func checkDump(kvs []node.KV, bft string) []string {
	var bad []string
	index := map[uint32][]byte{}
	headers := map[string]*blockchain.BlockHeader{}
	txLists := map[string][]byte{}
	txs := map[string]bool{}
	assets := map[string]bool{}
	events := map[uint32]bool{}
	diffs := map[uint32]bool{}
	fin := int64(-1)
	for _, kv := range kvs {
		k := kv.Key
		if len(k) == 0 {
			continue
		}
		switch k[0] {
		case 3:
			h := &blockchain.BlockHeader{}
			if err := h.Decode(kv.Value); err != nil {
				bad = append(bad, fmt.Sprintf("header %x does not decode", k[1:]))
				continue
			}
			if !bytes.Equal(crypto.Hash(kv.Value), k[1:]) {
				bad = append(bad, fmt.Sprintf("header key %x is not the hash of its value", k[1:]))
			}
			headers[string(k[1:])] = h
		case 4:
			index[u32(k[1:])] = kv.Value
		case 5:
			txLists[string(k[1:])] = kv.Value
		case 6:
			txs[string(k[1:])] = true
		case 8:
			assets[string(k[1:])] = true
		case 9:
			events[u32(k[1:])] = true
		case 27:
			fin = int64(u32(kv.Value))
		case 51:
			diffs[u32(k[1:])] = true
		}
	}
	if len(index) == 0 {
		if len(kvs) != 0 {
			bad = append(bad, "no height index but a non-empty database")
		}
		return bad
	}
	tip := uint32(0)
	gen := ^uint32(0) // the genesis block is the lowest indexed height (0 unless the network was migrated)
	for h := range index {
		if h > tip {
			tip = h
		}
		if h < gen {
			gen = h
		}
	}
	indexed := map[string]bool{}
	for h := gen; h <= tip; h++ {
		id, ok := index[h]
		if !ok {
			bad = append(bad, fmt.Sprintf("height index has a hole at %d (tip %d)", h, tip))
			continue
		}
		indexed[string(id)] = true
		hd, ok := headers[string(id)]
		if !ok {
			bad = append(bad, fmt.Sprintf("height index %d points at missing header %x", h, id))
			continue
		}
		if hd.Height != h {
			bad = append(bad, fmt.Sprintf("height index %d points at a header of height %d", h, hd.Height))
		}
		if h > gen {
			if prev, ok := index[h-1]; ok && !bytes.Equal(hd.PreviousBlockID, prev) {
				bad = append(bad, fmt.Sprintf("header at %d does not link to the indexed block at %d", h, h-1))
			}
		}
	}
	for id := range headers {
		if !indexed[id] {
			bad = append(bad, fmt.Sprintf("header %x without height index entry", id))
		}
	}
	usedTx := map[string]bool{}
	for id, list := range txLists {
		if !indexed[id] {
			bad = append(bad, fmt.Sprintf("transaction list of unindexed block %x", id))
		}
		for o := 0; o+32 <= len(list); o += 32 {
			t := string(list[o : o+32])
			usedTx[t] = true
			if !txs[t] {
				bad = append(bad, fmt.Sprintf("block %x lists missing transaction %x", id, t))
			}
		}
	}
	for t := range txs {
		if !usedTx[t] {
			bad = append(bad, fmt.Sprintf("transaction %x belongs to no block", t))
		}
	}
	for id := range assets {
		if !indexed[id] {
			bad = append(bad, fmt.Sprintf("assets of unindexed block %x", id))
		}
	}
	for h := range events {
		if h > tip {
			bad = append(bad, fmt.Sprintf("events at height %d above the tip %d", h, tip))
		}
	}
	if fin < 0 {
		bad = append(bad, "no finalized height")
	} else if fin > int64(tip) {
		bad = append(bad, fmt.Sprintf("finalized height %d above the tip %d", fin, tip))
	}
	for h := range diffs {
		if h > tip {
			bad = append(bad, fmt.Sprintf("revert diff for height %d above the tip %d (diff without its block)", h, tip))
		}
	}
	for h := uint32(fin + 1); fin >= 0 && h <= tip; h++ {
		if !diffs[h] {
			bad = append(bad, fmt.Sprintf("no revert diff for height %d (finalized %d, tip %d)", h, fin, tip))
		}
	}
	if bft != "" {
		// "<mhp> <mhpc> <mhc> | h:gen:... h:gen:... | ..." : the newest block the consensus store absorbed
		parts := strings.Split(bft, "|")
		if len(parts) < 2 {
			bad = append(bad, "BFT store unreadable: "+bft)
		} else {
			maxH := int64(-1)
			for _, f := range strings.Fields(parts[1]) {
				if i := strings.IndexByte(f, ':'); i > 0 {
					if v, err := strconv.ParseInt(f[:i], 10, 64); err == nil && v > maxH {
						maxH = v
					}
				}
			}
			if tip > gen && maxH != int64(tip) {
				bad = append(bad, fmt.Sprintf("consensus store is at height %d, tip is %d", maxH, tip))
			}
			if tip == gen && maxH > int64(gen) {
				bad = append(bad, fmt.Sprintf("consensus store is at height %d, tip is the genesis block", maxH))
			}
			hs := strings.Fields(parts[0])
			if len(hs) == 3 && fin >= 0 {
				if mhpc, err := strconv.ParseInt(hs[1], 10, 64); err == nil && mhpc > fin && mhpc <= int64(tip) && tip > gen {
					// finalized height in the chain database follows maxHeightPrecommitted of the store
					bad = append(bad, fmt.Sprintf("maxHeightPrecommitted %d of the consensus store is ahead of the finalized height %d", mhpc, fin))
				}
			}
		}
	}
	sort.Strings(bad)
	if len(bad) > 6 {
		bad = bad[:6]
	}
	return bad
}

// ---------------------------------------------------------------------------------------------
// crash runs

// crashStep enumerates every crash point of step i.
func (r *runner) crashStep(i int) (runs, pre, post int) {
	st := r.steps[i]
	for k := 0; ; k++ {
		w := NewFS()
		b, err := newNode(r.cfg, w, r.mode)
		if err != nil {
			r.fail(st.op, "c13-harness-step", "replay node: %v", err)
			return
		}
		ok := true
		for _, p := range r.steps[:i] {
			if err := apply(b, p); (err != nil) != p.wantErr {
				r.fail(st.op, "c13-harness-step", "replay of %s: %v", p.label, err)
				ok = false
				break
			}
		}
		stats.Lock()
		stats.ReplayBlocks += i
		stats.Unlock()
		if r.mode != "default" {
			quiesce(w, b.DB)
		}
		if ok && dumpStr(b.DB) != st.pre {
			r.fail(st.op, "c13-harness-step", "replayed history differs from the reference before %s: %v", st.label, node.DiffDumps(canon(dumpDB(b.DB)), parseDump(st.pre)))
			ok = false
		}
		if !ok {
			b.Close()
			return
		}
		snap := b.ABI.Snapshot()
		depth := b.ABI.Depth()
		w.Arm(k)
		stepErr := apply(b, st)
		if r.mode != "default" {
			quiesce(w, b.DB) // crash points inside the background flush / compaction triggered by the step
		}
		used, tripped := w.SinceArm()
		appDepth := b.ABI.Depth()
		oldDB := b.DB
		w.PowerLoss(func() { closeQuiet(oldDB) })
		runs++
		d, err := openDB(w, r.mode)
		if err != nil {
			r.fail(st.op, "c13-inconsistent-restart", "step %s crash point %d/%d: pebble does not reopen: %v", st.label, k, used, err)
			b.Close()
			return
		}
		got := dumpStr(d)
		state := ""
		switch {
		case got == st.post && (got != st.pre || stepErr == nil && !st.wantErr && st.pre == st.post):
			state = "post"
			post++
		case got == st.pre:
			state = "pre"
			pre++
		default:
			r.fail(st.op, "c13-torn-state", "step %s, crash after sync %d of %d: database is neither pre nor post; vs pre: %v; vs post: %v", st.label, k, used,
				trunc(node.DiffDumps(parseDump(st.pre), parseDump(got)), 6), trunc(node.DiffDumps(parseDump(st.post), parseDump(got)), 6))
		}
		if !tripped && stepErr == nil && got != st.post {
			r.fail(st.op, "c13-not-durable", "step %s returned success with every sync honoured (%d) but the reopened database is not the post state", st.label, used)
		}
		if state == "pre" && appDepth != depth {
			stats.Lock()
			stats.AbiAhead++
			stats.Unlock()
		}
		if state != "" {
			wantTip, wantBFT := st.preTip, st.preBFT
			if state == "post" {
				wantTip, wantBFT = st.postTip, st.postBFT
			} else {
				b.ABI.Restore(snap)
			}
			b.DB = d
			b.ABI.Inconsistencies = nil
			if err := b.Restart(); err != nil {
				r.fail(st.op, "c13-inconsistent-restart", "step %s, crash after sync %d (%s state): Init fails: %v", st.label, k, state, err)
			} else {
				if !bytes.Equal(b.Tip().Header.ID, wantTip) {
					r.fail(st.op, "c13-inconsistent-restart", "step %s, crash after sync %d (%s state): restarted on tip %x (h=%d), want %x", st.label, k, state, b.Tip().Header.ID[:6], b.Height(), wantTip[:6])
				}
				bft := b.BFTDump()
				if bft != wantBFT {
					r.fail(st.op, "c13-inconsistent-restart", "step %s, crash after sync %d (%s state): BFT store after restart differs from the one recorded for this tip", st.label, k, state)
				}
				after := dumpStr(b.DB)
				if after != got {
					r.fail(st.op, "c13-inconsistent-restart", "step %s, crash after sync %d: Init changed the database: %v", st.label, k, trunc(node.DiffDumps(parseDump(got), parseDump(after)), 6))
				}
				if v := checkDump(parseDump(after), bft); len(v) > 0 {
					r.fail(st.op, "c13-inconsistent-restart", "step %s, crash after sync %d (%s state): %s", st.label, k, state, strings.Join(v, "; "))
				}
				if len(b.ABI.Inconsistencies) > 0 {
					r.fail(st.op, "c13-inconsistent-restart", "step %s, crash after sync %d (%s state): application sees %v", st.label, k, state, b.ABI.Inconsistencies)
				}
				if state == "pre" {
					// the interrupted step can be redone and then gives the post state
					err := apply(b, st)
					if r.mode != "default" {
						quiesce(w, b.DB)
					}
					if (err != nil) != st.wantErr || dumpStr(b.DB) != st.post {
						r.fail(st.op, "c13-redo-differs", "step %s redone after crash point %d: err=%v, dump differs: %v", st.label, k, err, trunc(node.DiffDumps(canon(dumpDB(b.DB)), parseDump(st.post)), 6))
					}
				}
			}
		} else {
			closeQuiet(d)
		}
		b.Close()
		if !tripped || k > used+2 || k > 400 {
			return
		}
	}
}

func trunc(l []string, n int) []string {
	if len(l) > n {
		return append(l[:n:n], fmt.Sprintf("... %d more", len(l)-n))
	}
	return l
}

// crashGenesis enumerates the crash points of the very first start (pebble creation + genesis block).
func (r *runner) crashGenesis() (runs, pre, post int) {
	for k := 0; ; k++ {
		w := NewFS()
		w.Arm(k)
		cfg := r.cfg
		cfg.FS = w
		cfg.Dir = ""
		n, err := node.New(cfg)
		if err != nil {
			r.fail(0, "c13-harness-step", "genesis run %d: %v", k, err)
			return
		}
		used, tripped := w.SinceArm()
		oldDB := n.DB
		w.PowerLoss(func() { closeQuiet(oldDB) })
		n.Close()
		runs++
		d, err := openDB(w, "default")
		if err != nil {
			r.fail(0, "c13-inconsistent-restart", "genesis, crash after sync %d of %d: pebble does not reopen: %v", k, used, err)
			return
		}
		got := dumpStr(d)
		closeQuiet(d)
		switch got {
		case "":
			pre++
		case r.genDump:
			post++
		default:
			r.fail(0, "c13-torn-state", "genesis, crash after sync %d of %d: database is neither empty nor the genesis state: %v", k, used, trunc(node.DiffDumps(parseDump(r.genDump), parseDump(got)), 6))
		}
		if !tripped && got != r.genDump {
			r.fail(0, "c13-not-durable", "first start with every sync honoured (%d): reopened database is not the genesis state", used)
		}
		// next start: processes the genesis block if it is missing
		n2, err := node.New(cfg)
		if err != nil {
			r.fail(0, "c13-inconsistent-restart", "genesis, crash after sync %d: next start fails: %v", k, err)
		} else {
			if dumpStr(n2.DB) != r.genDump || n2.BFTDump() != r.genBFT {
				r.fail(0, "c13-inconsistent-restart", "genesis, crash after sync %d: next start does not reach the genesis state: %v", k, trunc(node.DiffDumps(canon(dumpDB(n2.DB)), parseDump(r.genDump)), 6))
			}
			n2.Close()
		}
		if !tripped || k > 200 {
			return
		}
	}
}

// ---------------------------------------------------------------------------------------------
// RunImpl

// childResult is what a child process reports for one case.
type childResult struct {
	Out   []string    `json:"out"`
	Fails []corr.Fail `json:"fails"`
	Stats statT       `json:"stats"`
}

// Every case runs in a child process (the vh binary re-executed with C13_CHILD=1; the case travels
// as JSON on stdin, the result on stdout; C13_INPROC=1 runs in-process for debugging). Reason: a
// node is not fully reclaimable inside one process - db.IterateRange never closes its pebble
// iterator (pkg/db/iterator.go), so a database that processed a block keeps its C-allocated
// memtables after Close, and ~120 goroutines per node (pebble table cache / WAL writers) stay
// behind. The 80 000 crash runs of the thorough tier in one process needed more than 49 GB.
func init() {
	if os.Getenv("C13_CHILD") != "1" {
		return
	}
	var c corr.Case
	if err := json.NewDecoder(os.Stdin).Decode(&c); err != nil {
		fmt.Fprintln(os.Stderr, "c13 child: bad case:", err)
		os.Exit(3)
	}
	res := childResult{}
	func() {
		defer func() {
			if r := recover(); r != nil {
				res.Out = []string{fmt.Sprintf("HARNESS-PANIC %v", r)}
				res.Fails = append(res.Fails, corr.Fail{Sig: "harness-panic", Detail: fmt.Sprint(r), Op: -1})
			}
		}()
		res.Out, res.Fails = runCase(c)
	}()
	stats.Lock()
	res.Stats = stats.statT
	stats.Unlock()
	if err := json.NewEncoder(os.Stdout).Encode(res); err != nil {
		os.Exit(3)
	}
	os.Exit(0)
}

func (prop) RunImpl(c corr.Case) ([]string, []corr.Fail) {
	if os.Getenv("C13_INPROC") == "1" {
		return runCase(c)
	}
	in, _ := json.Marshal(c)
	cmd := exec.Command(os.Args[0])
	cmd.Env = append(os.Environ(), "C13_CHILD=1")
	cmd.Stdin = bytes.NewReader(in)
	var stdout, stderr bytes.Buffer
	cmd.Stdout, cmd.Stderr = &stdout, &stderr
	err := cmd.Run()
	var res childResult
	if err == nil {
		err = json.Unmarshal(stdout.Bytes(), &res)
	}
	if err != nil {
		msg := stderr.String()
		if len(msg) > 1500 {
			msg = msg[len(msg)-1500:]
		}
		return []string{"fail child"}, []corr.Fail{{Sig: "c13-harness-child", Detail: fmt.Sprintf("child process: %v: %s", err, msg), Op: -1}}
	}
	stats.Lock()
	stats.merge(res.Stats)
	stats.Unlock()
	return res.Out, res.Fails
}

func runCase(c corr.Case) ([]string, []corr.Fail) {
	out := make([]string, len(c.Ops))
	w0 := strings.Fields(c.Ops[0])
	if len(w0) == 0 || w0[0] != "reset" {
		return []string{"fail no reset"}, []corr.Fail{{Sig: "c13-harness-step", Detail: "case does not start with reset", Op: 0}}
	}
	nv := kvArg(w0, "nv", 4)
	seed := int64(kvArg(w0, "seed", 1))
	mode := strArg(w0, "mode", "default")
	keep := kvArg(w0, "keepev", 0)
	r := &runner{mode: mode, nv: nv}
	r.aw = NewFS()
	cfg := node.Config{NumValidators: nv, BatchSize: nv + 1, Seed: seed, ExtraValidators: 1, KeepEventsForHeights: &keep,
		GenesisHeight: uint32(kvArg(w0, "gh", 0)), MaxBlockCache: kvArg(w0, "cache", 0), MaxTransactionsLength: uint32(kvArg(w0, "maxtx", 0))}
	c0 := r.aw.Count()
	a, err := newNode(cfg, r.aw, mode)
	if err != nil {
		if cfg.GenesisHeight > 0 && strings.Contains(err.Error(), "was not found") {
			// Executer.Init processed the genesis block and then failed to prepare the block cache
			return []string{"fail " + err.Error()}, []corr.Fail{{Sig: "c13-restart-fails-genesis-height", Detail: fmt.Sprintf("first start with genesis height %d: %v", cfg.GenesisHeight, err), Op: 0}}
		}
		return []string{"fail " + err.Error()}, []corr.Fail{{Sig: "c13-harness-step", Detail: "reference node: " + err.Error(), Op: 0}}
	}
	defer a.Close()
	r.a = a
	r.cfg = a.Cfg
	r.genDump = dumpStr(a.DB)
	r.genBFT = a.BFTDump()
	noteSyncs("genesis+open", r.aw.Count()-c0)
	r.wal = walRecords(r.aw)
	if v := checkDump(parseDump(r.genDump), r.genBFT); len(v) > 0 {
		r.fail(0, "c13-inconsistent-restart", "genesis state: %s", strings.Join(v, "; "))
	}
	planOut := make([]string, len(c.Ops))
	for i := 1; i < len(c.Ops); i++ {
		planOut[i] = r.plan(i, c.Ops[i])
	}
	// crash enumeration
	gr, gpre, gpost := 0, 0, 0
	if mode == "default" {
		gr, gpre, gpost = r.crashGenesis()
	}
	out[0] = fmt.Sprintf("ok genesis crashruns=%d pre=%d post=%d", gr, gpre, gpost)
	perOp := map[int][3]int{}
	for i := range r.steps {
		runs, pre, post := r.crashStep(i)
		v := perOp[r.steps[i].op]
		perOp[r.steps[i].op] = [3]int{v[0] + runs, v[1] + pre, v[2] + post}
	}
	tr, tp, tq := gr, gpre, gpost
	for i := 1; i < len(c.Ops); i++ {
		v := perOp[i]
		out[i] = fmt.Sprintf("%s crashruns=%d pre=%d post=%d", planOut[i], v[0], v[1], v[2])
		tr, tp, tq = tr+v[0], tp+v[1], tq+v[2]
	}
	stats.Lock()
	stats.CrashRuns += tr
	stats.Pre += tp
	stats.Post += tq
	stats.Steps += len(r.steps)
	stats.GenesisRuns += gr
	stats.Unlock()
	return out, r.fails
}

func (prop) Classify(c corr.Case, out []string) string {
	var kinds []string
	seen := map[string]bool{}
	multi := false
	for i, op := range c.Ops {
		w := strings.Fields(op)
		if i >= len(out) || !strings.Contains(out[i], "crashruns=") || strings.HasPrefix(out[i], "skip") {
			continue
		}
		k := w[0]
		if k == "del" || k == "bad" {
			k = w[0] + ":" + w[1]
		}
		if !seen[k] {
			seen[k] = true
			kinds = append(kinds, k)
		}
		if j := strings.Index(out[i], "syncs="); j >= 0 {
			for _, s := range strings.Split(strings.Fields(out[i][j+6:])[0], ",") {
				if v, err := strconv.Atoi(s); err == nil && v > 1 {
					multi = true
				}
			}
		}
	}
	if len(kinds) <= 1 {
		return ""
	}
	sort.Strings(kinds)
	cl := strArg(strings.Fields(c.Ops[0]), "mode", "default") + ":" + strings.Join(kinds, "+")
	if multi {
		cl += "+multisync"
	}
	return cl
}

// Extra reports the distribution of syncs per step and the totals of the enumeration.
func (prop) Extra(rng *rand.Rand, tier string) corr.ExtraResult {
	stats.Lock()
	defer stats.Unlock()
	res := corr.ExtraResult{Notes: map[string]any{}}
	dist := map[string]string{}
	for kind, m := range stats.SyncDist {
		var ks []int
		for k := range m {
			ks = append(ks, k)
		}
		sort.Ints(ks)
		var parts []string
		for _, k := range ks {
			parts = append(parts, fmt.Sprintf("%d syncs: %d", k, m[k]))
		}
		dist[kind] = strings.Join(parts, ", ")
	}
	res.Evaluations = stats.CrashRuns
	res.Exhaustive = true
	res.Notes["syncs_per_step"] = dist
	res.Notes["steps"] = stats.Steps
	res.Notes["crash_runs"] = stats.CrashRuns
	res.Notes["genesis_crash_runs"] = stats.GenesisRuns
	res.Notes["reopened_in_pre_state"] = stats.Pre
	res.Notes["reopened_in_post_state"] = stats.Post
	res.Notes["wal_traces_checked"] = stats.WalChecked
	res.Notes["replayed_steps"] = stats.ReplayBlocks
	res.Notes["application_not_in_step_with_engine_at_crash"] = fmt.Sprintf("%d crash points left the engine database in the pre state after the application (abi.Commit / abi.Revert run BEFORE the engine's write) had already moved: outside this property's database (C16); the harness rewinds the mock application", stats.AbiAhead)
	res.Samples = []string{fmt.Sprintf("%d steps, %d crash runs (%d pre, %d post)", stats.Steps, stats.CrashRuns, stats.Pre, stats.Post)}
	return res
}
