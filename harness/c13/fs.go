package c13

import (
	"sync"

	"github.com/cockroachdb/pebble/vfs"
)

// FS wraps the strict in-memory file system of pebble (vfs.NewStrictMem) and counts every
// file / directory Sync. Armed with a limit k it simulates a power loss after the k-th sync: every
// later sync is ignored (MemFS.SetIgnoreSyncs), so that ResetToSyncedState brings back exactly what
// was durable at that point.
type FS struct {
	vfs.FS
	mem *vfs.MemFS

	mu      sync.Mutex
	count   int  // syncs since creation
	armed   bool // a crash point is set
	base    int  // count when Arm was called
	limit   int  // syncs honoured after Arm
	tripped bool // the crash point was reached (syncs are being ignored)
}

// NewFS returns a counting wrapper around a fresh strict MemFS.
func NewFS() *FS {
	m := vfs.NewStrictMem()
	return &FS{FS: m, mem: m}
}

// Count returns the number of syncs since creation.
func (w *FS) Count() int {
	w.mu.Lock()
	defer w.mu.Unlock()
	return w.count
}

// Arm sets the crash point: the next k syncs are honoured, all later ones are lost.
func (w *FS) Arm(k int) {
	w.mu.Lock()
	defer w.mu.Unlock()
	w.armed, w.base, w.limit, w.tripped = true, w.count, k, false
	if k == 0 {
		w.tripped = true
		w.mem.SetIgnoreSyncs(true)
	}
}

// SinceArm returns the number of syncs requested since Arm, and whether the crash point was hit.
func (w *FS) SinceArm() (int, bool) {
	w.mu.Lock()
	defer w.mu.Unlock()
	return w.count - w.base, w.tripped
}

func (w *FS) onSync() {
	w.mu.Lock()
	defer w.mu.Unlock()
	if w.armed && !w.tripped && w.count-w.base >= w.limit {
		w.tripped = true
		w.mem.SetIgnoreSyncs(true)
	}
	w.count++
}

// PowerLoss drops everything that is not durable. closeDB is called while syncs are ignored (what a
// dying process "writes" on the way down is lost as well).
func (w *FS) PowerLoss(closeDB func()) {
	w.mu.Lock()
	w.tripped = true
	w.mem.SetIgnoreSyncs(true)
	w.mu.Unlock()
	closeDB()
	w.mu.Lock()
	w.mem.ResetToSyncedState()
	w.mem.SetIgnoreSyncs(false)
	w.armed, w.tripped = false, false
	w.mu.Unlock()
}

type file struct {
	vfs.File
	w *FS
}

func (f *file) Sync() error {
	f.w.onSync()
	return f.File.Sync()
}

func (w *FS) wrap(f vfs.File, err error) (vfs.File, error) {
	if err != nil || f == nil {
		return f, err
	}
	return &file{File: f, w: w}, nil
}

func (w *FS) Create(name string) (vfs.File, error) { return w.wrap(w.FS.Create(name)) }
func (w *FS) Open(name string, opts ...vfs.OpenOption) (vfs.File, error) {
	return w.wrap(w.FS.Open(name, opts...))
}
func (w *FS) OpenDir(name string) (vfs.File, error) { return w.wrap(w.FS.OpenDir(name)) }
func (w *FS) ReuseForWrite(oldname, newname string) (vfs.File, error) {
	return w.wrap(w.FS.ReuseForWrite(oldname, newname))
}
