// Package emitter is the pseudo-property EMITTER: the real event.EventEmitter (pkg/event) against the Lean
// model LiskVerif.Emitter (Model/Emitter.lean), plus a model-free oracle: every channel's receiver gets exactly
// the messages published on its topics while it was registered, once per registration, in publication order -
// also when the subscriber is slow and the publisher is far ahead (bursts of hundreds of events) - and no
// emitter call hangs while subscribers keep receiving. C04 (finalize events reach the generator exactly for the
// raises) and C20 (emitter with live subscribers) depend on it.
package emitter

import (
	"fmt"
	"math/rand"
	"strconv"
	"strings"
	"sync"
	"time"

	"github.com/LiskHQ/lisk-engine/pkg/event"

	"verifharness/corr"
)

type prop struct{}

func init() { corr.Register(prop{}) }

func (prop) ID() string                 { return "EMITTER" }
func (prop) Parallel() int              { return 4 }
func (prop) CaseTimeout() time.Duration { return 2 * time.Minute }

var topics = []string{"a", "b", "c"}

func (prop) Generate(rng *rand.Rand, tier string) []corr.Case {
	n := 150
	if tier == "thorough" {
		n = 4000
	}
	var cases []corr.Case
	for i := 0; i < n; i++ {
		kind := rng.Intn(10)
		slow := 0
		if kind >= 6 {
			slow = 20 + rng.Intn(200) // microseconds a slow receiver sleeps before each receive
		}
		ops := []string{fmt.Sprintf("reset slow=%d", slow)}
		nch := 0
		tag := "subscribe-only"
		steps := 6 + rng.Intn(20)
		msg := 1
		for s := 0; s < steps; s++ {
			t := topics[rng.Intn(len(topics))]
			r := rng.Intn(100)
			switch {
			case r < 22:
				ops = append(ops, "sub "+t)
				nch++
			case r < 50:
				ops = append(ops, fmt.Sprintf("pub %s %d", t, msg))
				msg++
			case r < 54:
				ops = append(ops, fmt.Sprintf("emit %s %d", t, msg))
				msg++
			case r < 62:
				k := 2 + rng.Intn(8)
				if kind >= 6 && rng.Intn(2) == 0 {
					k = 60 + rng.Intn(200) // far beyond any plausible subscriber buffer
				}
				ops = append(ops, fmt.Sprintf("burst %s %d %d", t, msg, k))
				msg += k
			case r < 70 && nch > 0:
				ops = append(ops, fmt.Sprintf("recv %d", rng.Intn(nch)))
			case r < 76 && nch > 0:
				ops = append(ops, fmt.Sprintf("unsub %s %d", t, rng.Intn(nch)))
			case r < 80:
				ops = append(ops, "unsuball "+t)
			case r < 83:
				ops = append(ops, "close")
			case r < 90 && kind < 3:
				// channels handed in through On (as the node harness does), possibly registered twice
				tag = "on"
				if nch == 0 || rng.Intn(2) == 0 {
					ops = append(ops, "newchan")
					nch++
				}
				ops = append(ops, fmt.Sprintf("on %s %d", t, rng.Intn(nch)))
			default:
				ops = append(ops, "state")
			}
		}
		for c := 0; c < nch; c++ {
			ops = append(ops, fmt.Sprintf("recv %d", c))
		}
		ops = append(ops, "state")
		if slow > 0 {
			tag += "-slow"
		}
		cases = append(cases, corr.Case{Ops: ops, Tag: tag})
	}
	return cases
}

type rcv struct {
	ch   chan interface{}
	mu   sync.Mutex
	log  []int
	done chan struct{}
}

type world struct {
	ee     *event.EventEmitter
	chans  []*rcv
	slow   time.Duration
	dead   bool
	// harness-side reference (needs no model)
	regs   []struct{ t string; c int }
	keys   map[string]bool
	closed map[int]bool
	want   map[int][]int
}

func (w *world) newChan(ch chan interface{}) int {
	id := len(w.chans)
	r := &rcv{ch: ch, done: make(chan struct{})}
	w.chans = append(w.chans, r)
	slow := w.slow
	if id%2 == 0 {
		slow = 0
	}
	go func() {
		defer close(r.done)
		for {
			if slow > 0 {
				time.Sleep(slow)
			}
			m, ok := <-r.ch
			if !ok {
				return
			}
			r.mu.Lock()
			r.log = append(r.log, m.(int))
			r.mu.Unlock()
		}
	}()
	return id
}

// guarded call with a hang watchdog; returns "ok", "panic" or "hang"
func guarded(f func()) string {
	res := make(chan string, 1)
	go func() {
		defer func() {
			if r := recover(); r != nil {
				res <- "panic"
			}
		}()
		f()
		res <- "ok"
	}()
	select {
	case r := <-res:
		return r
	case <-time.After(20 * time.Second):
		return "hang"
	}
}

func (w *world) refPublish(t string, m int) {
	for _, r := range w.regs {
		if r.t == t {
			w.want[r.c] = append(w.want[r.c], m)
		}
	}
}

func (w *world) logOf(c int) []int {
	r := w.chans[c]
	// a publication returns when the receiver TOOK the message; give the receiver a moment to record it
	deadline := time.Now().Add(2 * time.Second)
	for {
		r.mu.Lock()
		n := len(r.log)
		cp := append([]int{}, r.log...)
		r.mu.Unlock()
		if n >= len(w.want[c]) || time.Now().After(deadline) {
			return cp
		}
		time.Sleep(200 * time.Microsecond)
	}
}

func ints(l []int) string {
	if len(l) == 0 {
		return "-"
	}
	s := make([]string, len(l))
	for i, v := range l {
		s[i] = strconv.Itoa(v)
	}
	return strings.Join(s, ",")
}

func (prop) RunImpl(c corr.Case) ([]string, []corr.Fail) {
	var out []string
	var fails []corr.Fail
	w := &world{}
	cleanup := func() {
		if w.ee != nil {
			// release receiver goroutines of channels the emitter no longer closes
			for id, r := range w.chans {
				if !w.closed[id] {
					func() { defer func() { recover() }(); close(r.ch) }()
				}
			}
		}
	}
	defer func() { cleanup() }()
	for i, op := range c.Ops {
		f := strings.Fields(op)
		if f[0] == "reset" {
			cleanup()
			w = &world{ee: event.New(), keys: map[string]bool{}, closed: map[int]bool{}, want: map[int][]int{}}
			for _, kv := range f[1:] {
				if strings.HasPrefix(kv, "slow=") {
					us, _ := strconv.Atoi(kv[5:])
					w.slow = time.Duration(us) * time.Microsecond
				}
			}
			out = append(out, "ok")
			continue
		}
		if w.dead {
			out = append(out, "dead")
			continue
		}
		atoi := func(s string) int { v, err := strconv.Atoi(s); if err != nil { return -1 }; return v }
		res := "bad-op"
		switch {
		case f[0] == "newchan" && len(f) == 1:
			res = strconv.Itoa(w.newChan(make(chan interface{})))
		case f[0] == "on" && len(f) == 3:
			id := atoi(f[2])
			if id >= 0 && id < len(w.chans) {
				res = guarded(func() { w.ee.On(f[1], w.chans[id].ch) })
				w.regs = append(w.regs, struct{ t string; c int }{f[1], id})
				w.keys[f[1]] = true
			}
		case f[0] == "sub" && len(f) == 2:
			var ch chan interface{}
			res = guarded(func() { ch = w.ee.Subscribe(f[1]) })
			if res == "ok" {
				id := w.newChan(ch)
				w.regs = append(w.regs, struct{ t string; c int }{f[1], id})
				w.keys[f[1]] = true
				res = strconv.Itoa(id)
			}
		case (f[0] == "pub" || f[0] == "emit") && len(f) == 3:
			m := atoi(f[2])
			if m >= 0 {
				if f[0] == "pub" {
					res = guarded(func() { w.ee.Publish(f[1], m) })
				} else {
					res = guarded(func() { w.ee.Emit(f[1], m) })
				}
				if res == "ok" {
					w.refPublish(f[1], m)
				}
			}
		case f[0] == "burst" && len(f) == 4:
			m0, n := atoi(f[2]), atoi(f[3])
			if m0 >= 0 && n >= 0 {
				res = guarded(func() {
					for k := 0; k < n; k++ {
						w.ee.Publish(f[1], m0+k)
					}
				})
				if res == "ok" {
					for k := 0; k < n; k++ {
						w.refPublish(f[1], m0+k)
					}
				}
			}
		case f[0] == "close" && len(f) == 1:
			res = guarded(func() { _ = w.ee.Close() })
			if res == "ok" {
				for _, r := range w.regs {
					w.closed[r.c] = true
				}
				w.regs = nil
				w.keys = map[string]bool{}
			}
		case f[0] == "unsuball" && len(f) == 2:
			var err error
			res = guarded(func() { err = w.ee.UnsubscribeAll(f[1]) })
			if res == "ok" {
				if err != nil {
					res = "notfound"
					if w.keys[f[1]] {
						fails = append(fails, corr.Fail{Sig: "emitter-unsubscribeall-error", Detail: "UnsubscribeAll of an existing topic failed: " + err.Error(), Op: i})
					}
				} else {
					var keep []struct{ t string; c int }
					for _, r := range w.regs {
						if r.t == f[1] {
							w.closed[r.c] = true
						} else {
							keep = append(keep, r)
						}
					}
					w.regs = keep
					delete(w.keys, f[1])
				}
			}
		case f[0] == "unsub" && len(f) == 3:
			id := atoi(f[2])
			if id >= 0 && id < len(w.chans) {
				var err error
				res = guarded(func() { err = w.ee.Unsubscribe(f[1], w.chans[id].ch) })
				if res == "ok" {
					if err != nil {
						res = "notfound"
					} else {
						var keep []struct{ t string; c int }
						for _, r := range w.regs {
							if r.t == f[1] && r.c == id {
								w.closed[r.c] = true
							} else {
								keep = append(keep, r)
							}
						}
						w.regs = keep
					}
				}
			}
		case f[0] == "recv" && len(f) == 2:
			id := atoi(f[1])
			if id >= 0 && id < len(w.chans) {
				got := w.logOf(id)
				res = ints(got)
				if ints(got) != ints(w.want[id]) {
					fails = append(fails, corr.Fail{Sig: "emitter-delivery-not-exactly-once-in-order",
						Detail: fmt.Sprintf("channel %d received %d messages [%s], published while registered: %d [%s]", id, len(got), trunc(ints(got)), len(w.want[id]), trunc(ints(w.want[id]))), Op: i})
				}
			}
		case f[0] == "state" && len(f) == 1:
			// registrations are not observable on the real emitter: answer from the harness reference
			var subs, ks, cl []string
			for _, r := range w.regs {
				subs = append(subs, fmt.Sprintf("%s:%d", r.t, r.c))
			}
			for _, t := range topics {
				if w.keys[t] {
					ks = append(ks, t)
				}
			}
			for id := range w.chans {
				if w.closed[id] {
					cl = append(cl, strconv.Itoa(id))
				}
			}
			res = "subs=" + dash(subs) + " topics=" + dash(ks) + " closed=" + dash(cl)
		}
		if res == "panic" {
			w.dead = true
		}
		if res == "hang" {
			w.dead = true
			fails = append(fails, corr.Fail{Sig: "emitter-call-hangs", Detail: "emitter call did not return within 20s although every subscriber keeps receiving: " + op, Op: i})
		}
		out = append(out, res)
	}
	return out, fails
}

func dash(l []string) string {
	if len(l) == 0 {
		return "-"
	}
	return strings.Join(l, ",")
}

func trunc(s string) string {
	if len(s) > 300 {
		return s[:300] + "…"
	}
	return s
}

func (prop) Classify(c corr.Case, out []string) string {
	pubs, subs, panics := 0, 0, 0
	for i, op := range c.Ops {
		if i >= len(out) {
			break
		}
		switch {
		case strings.HasPrefix(op, "pub") || strings.HasPrefix(op, "burst") || strings.HasPrefix(op, "emit"):
			pubs++
		case strings.HasPrefix(op, "sub"):
			subs++
		}
		if out[i] == "panic" {
			panics++
		}
	}
	if pubs == 0 || subs == 0 {
		return ""
	}
	if panics > 0 {
		return c.Tag + "+panic"
	}
	return c.Tag
}
