// Package blsref is the harness' own reference for the NON-cryptographic logic around aggregate BLS
// signatures (LIP-0061 / pkg/crypto/bls.go): which positions a bitmap flags, which weights those
// positions carry, the threshold comparison and the length rules. It never calls pkg/crypto: keys,
// single signatures, aggregates and the one cryptographic check (FastAggregateVerify) come straight
// from the blst binding, the weight of the flagged signers is summed in math/big.
//
// Users: harness/c06bls (oracle for the real pkg/crypto functions) and harness/c03/facts.go (the
// "aggregate commit signature valid" fact handed to the Lean model of block verification, which must
// not be computed by the code under test).
package blsref

import (
	"crypto/sha256"
	"encoding/binary"
	"math/big"

	blst "github.com/supranational/blst/bindings/go"
)

// DST is the domain separation tag of the proof-of-possession ciphersuite used by Lisk.
var DST = []byte("BLS_SIG_BLS12381G2_XMD:SHA-256_SSWU_RO_POP_")

// BitSet: bit i of the bitmap (byte i/8, bit i%8 from the least significant bit); false outside.
func BitSet(bits []byte, i int) bool {
	return i >= 0 && i/8 < len(bits) && bits[i/8]&(1<<uint(i%8)) != 0
}

// Flagged returns the positions 0 <= i < n whose bit is set.
func Flagged(n int, bits []byte) []int {
	var res []int
	for i := 0; i < n; i++ {
		if BitSet(bits, i) {
			res = append(res, i)
		}
	}
	return res
}

// BitmapOf returns the bitmap of ceil(n/8) bytes with exactly the given positions set.
func BitmapOf(n int, positions []int) []byte {
	b := make([]byte, (n+7)/8)
	for _, p := range positions {
		if p >= 0 && p < n {
			b[p/8] |= 1 << uint(p%8)
		}
	}
	return b
}

// LengthOK is the bitmap length rule: exactly one bit per key, rounded up to bytes.
func LengthOK(nKeys, nBytes int) bool {
	want := nKeys / 8
	if nKeys%8 != 0 {
		want++
	}
	return nBytes == want
}

// WeightOf sums the weights at the positions (positions outside the slice count 0) without overflow.
func WeightOf(weights []uint64, positions []int) *big.Int {
	sum := new(big.Int)
	for _, p := range positions {
		if p >= 0 && p < len(weights) {
			sum.Add(sum, new(big.Int).SetUint64(weights[p]))
		}
	}
	return sum
}

// FastAggregateVerify is the one trusted cryptographic call: the aggregate signature is valid for the
// message under the sum of the keys. Malformed keys / signatures and the empty key list give false.
func FastAggregateVerify(keys [][]byte, sig, msg []byte) (ok bool) {
	defer func() {
		if recover() != nil {
			ok = false
		}
	}()
	if len(keys) == 0 {
		return false
	}
	pks := make([]*blst.P1Affine, len(keys))
	for i, k := range keys {
		if len(k) != 48 {
			return false
		}
		pks[i] = new(blst.P1Affine).Uncompress(k)
		if pks[i] == nil {
			return false
		}
	}
	if len(sig) != 96 {
		return false
	}
	s := new(blst.P2Affine).Uncompress(sig)
	if s == nil {
		return false
	}
	return s.FastAggregateVerify(true, pks, msg, DST)
}

// Verdict is the reference decision for an aggregate with its reasons.
type Verdict struct {
	LengthOK    bool     // bitmap length rule
	WeightsOK   bool     // one weight per key (true for the unweighted check)
	Flagged     []int    // flagged positions below len(keys)
	Weight      *big.Int // true weight of the flagged positions
	ThresholdOK bool     // Weight >= threshold
	AggregateOK bool     // FastAggregateVerify over exactly the flagged keys
	Accept      bool     // conjunction
	Wraps       bool     // Weight >= 2^64: a uint64 sum of the flagged weights wraps
}

var two64 = new(big.Int).Lsh(big.NewInt(1), 64)

// Weighted is the reference for BLSVerifyWeightedAggSig: accept iff the bitmap has the right length,
// there is one weight per key, the flagged positions' true weight reaches the threshold and the
// aggregate verifies for exactly the flagged keys.
func Weighted(keys [][]byte, bits, sig []byte, weights []uint64, threshold uint64, msg []byte) Verdict {
	v := Verdict{LengthOK: LengthOK(len(keys), len(bits)), WeightsOK: len(weights) == len(keys), Weight: new(big.Int)}
	if !v.LengthOK || !v.WeightsOK {
		return v
	}
	v.Flagged = Flagged(len(keys), bits)
	v.Weight = WeightOf(weights, v.Flagged)
	v.Wraps = v.Weight.Cmp(two64) >= 0
	v.ThresholdOK = v.Weight.Cmp(new(big.Int).SetUint64(threshold)) >= 0
	if !v.ThresholdOK {
		return v
	}
	sel := make([][]byte, len(v.Flagged))
	for i, p := range v.Flagged {
		sel[i] = keys[p]
	}
	v.AggregateOK = FastAggregateVerify(sel, sig, msg)
	v.Accept = v.AggregateOK
	return v
}

// Plain is the reference for BLSVerifyAggSig (no weights, no threshold).
func Plain(keys [][]byte, bits, sig, msg []byte) Verdict {
	v := Verdict{LengthOK: LengthOK(len(keys), len(bits)), WeightsOK: true, Weight: new(big.Int), ThresholdOK: true}
	if !v.LengthOK {
		return v
	}
	v.Flagged = Flagged(len(keys), bits)
	sel := make([][]byte, len(v.Flagged))
	for i, p := range v.Flagged {
		sel[i] = keys[p]
	}
	v.AggregateOK = FastAggregateVerify(sel, sig, msg)
	v.Accept = v.AggregateOK
	return v
}

// ---- key holders (independent of pkg/crypto) ----

// Holder is a BLS key pair derived from (seed, index).
type Holder struct {
	Index int
	Pub   []byte
	sk    *blst.SecretKey
}

// NewHolder derives the key pair deterministically.
func NewHolder(seed int64, index int) *Holder {
	var ikm [48]byte
	binary.BigEndian.PutUint64(ikm[0:], uint64(seed))
	binary.BigEndian.PutUint64(ikm[8:], uint64(index))
	h := sha256.Sum256(ikm[:16])
	copy(ikm[16:], h[:])
	sk := blst.KeyGen(ikm[:])
	return &Holder{Index: index, Pub: new(blst.P1Affine).From(sk).Compress(), sk: sk}
}

// Sign returns the holder's single signature over the message.
func (h *Holder) Sign(msg []byte) []byte {
	return new(blst.P2Affine).Sign(h.sk, msg, DST).Compress()
}

// Aggregate sums signatures (compressed points); nil if one is malformed or the list is empty.
func Aggregate(sigs [][]byte) []byte {
	if len(sigs) == 0 {
		return nil
	}
	agg := new(blst.P2Aggregate)
	if !agg.AggregateCompressed(sigs, true) {
		return nil
	}
	return agg.ToAffine().Compress()
}

// SignWith signs the message with a serialized secret key (nil if the key is malformed).
func SignWith(priv, msg []byte) []byte {
	sk := new(blst.SecretKey).Deserialize(priv)
	if sk == nil {
		return nil
	}
	return new(blst.P2Affine).Sign(sk, msg, DST).Compress()
}
