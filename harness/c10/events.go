// events.go: the event tree as the engine builds it (blockchain.CalculateEventRoot), for blocks of every size.
//
// C10 states that the root is a function of the key -> value map only.  For the event tree the engine has ONE entry
// point, CalculateEventRoot(events): whatever it does internally with the pairs of the block (one Update, several
// batches, reopening ...), the result must be the LIP-0039 root of the map of all pairs.  The values of this tree are
// raw encoded events (not 32-byte hashes), and the number of pairs of a block goes up to MaxEventsPerBlock *
// EventMaxTopicsPerEvent; the lists here go to 1500 events with 1..4 topics each out of a small shared pool, with the
// pair counts placed around 1024 / 2048 / 4096 (+-2) as well.
//
//	op  evroot k=v,k=v,...|-   (C10; pairs of a whole block, the values are the encoded events)
//	    Go:   the events are decoded from the values, KeyPairs() must give back the pairs, CalculateEventRoot
//	    Lean: SMTSpec.mapRoot (SHA-256) of the pair map, 12-byte keys
//	    oracles: = ONE smt Update of the same pairs over a plain map store, = own LIP-0039 reference root
//
// Pseudo-property C10EVENTS (no model): the same oracles on lists too long for the compiled model in the quick tier,
// and the family "raw": values of 0..200 bytes in several batches with a reopen in between (what the engine never
// does with such a tree) - its outcome is classified, not judged: see rawOutcome.
package c10

import (
	"bytes"
	"fmt"
	"math/rand"
	"strings"

	"github.com/LiskHQ/lisk-engine/pkg/blockchain"
	"github.com/LiskHQ/lisk-engine/pkg/codec"
	"github.com/LiskHQ/lisk-engine/pkg/trie/smt"

	"verifharness/corr"
)

const eventKeyLen = 12

// genEventList: nEvents events (or, with pairs > 0, as many events as give exactly that many pairs), 1..4 topics each.
func genEventList(rng *rand.Rand, nEvents, pairs int) []*blockchain.Event {
	pool := make([][]byte, 1+rng.Intn(4)) // 1..4 shared topics
	for i := range pool {
		pool[i] = randBytes(rng, 1+rng.Intn(40))
	}
	height := uint32(rng.Intn(1 << 20))
	maxTopics := 1 + rng.Intn(4)
	mods := []string{"token", "pos", "auth", "fee", "m"}
	names := []string{"transfer", "lock", "commandExecutionResult", "x"}
	evs := []*blockchain.Event{}
	left := pairs
	for i := 0; (pairs == 0 && i < nEvents) || (pairs > 0 && left > 0); i++ {
		nt := 1 + rng.Intn(maxTopics)
		if pairs > 0 && nt > left {
			nt = left
		}
		left -= nt
		topics := make([]codec.Hex, nt)
		for j := range topics {
			if rng.Intn(8) == 0 {
				topics[j] = randBytes(rng, 1+rng.Intn(32)) // a topic of its own
			} else {
				topics[j] = pool[rng.Intn(len(pool))]
			}
		}
		dataLen := rng.Intn(24)
		if rng.Intn(16) == 0 {
			dataLen = 25 + rng.Intn(176)
		}
		evs = append(evs, &blockchain.Event{
			Module: mods[rng.Intn(len(mods))], Name: names[rng.Intn(len(names))], Data: randBytes(rng, dataLen),
			Topics: topics, Height: height, Index: uint32(i),
		})
	}
	return evs
}

func eventPairs(evs []*blockchain.Event) []kv {
	b := []kv{}
	for _, e := range evs {
		for _, kp := range e.KeyPairs() {
			b = append(b, kv{kp.Key, kp.Value})
		}
	}
	return b
}

// boundaryPairs: pair counts around the sizes at which an implementation would plausibly cut batches.
var boundaryPairs = []int{1023, 1024, 1025, 1026, 1027, 1030, 2047, 2048, 2049, 2052, 4095, 4097}

// genEventRootCases: cases of the main C10 run (with the model).
func genEventRootCases(rng *rand.Rand, tier string) []corr.Case {
	sizes := []int{-1, -1025 - rng.Intn(4), -1030 - rng.Intn(70), 0, 1, 2 + rng.Intn(60), 100 + rng.Intn(200)}
	if tier == "thorough" {
		for _, p := range boundaryPairs {
			sizes = append(sizes, -p)
		}
		for i := 0; i < 12; i++ {
			sizes = append(sizes, rng.Intn(1501))
		}
	}
	sizes[0] = -boundaryPairs[rng.Intn(4)]
	cases := []corr.Case{}
	for _, s := range sizes {
		var evs []*blockchain.Event
		if s < 0 {
			evs = genEventList(rng, 0, -s)
		} else {
			evs = genEventList(rng, s, 0)
		}
		cases = append(cases, corr.Case{Ops: []string{"reset 12", "evroot " + fmtBatch(eventPairs(evs))}, Tag: "eventroot"})
	}
	return cases
}

// eventsOfPairs: the event list behind the pairs of a block (consecutive pairs with the same value = one event).
func eventsOfPairs(b []kv) ([]*blockchain.Event, error) {
	evs := []*blockchain.Event{}
	for i := 0; i < len(b); {
		e, err := blockchain.NewEvent(b[i].v)
		if err != nil {
			return nil, fmt.Errorf("pair %d: value is not an encoded event: %v", i, err)
		}
		kps := e.KeyPairs()
		if len(kps) == 0 || i+len(kps) > len(b) {
			return nil, fmt.Errorf("pair %d: event with %d topics, %d pairs left", i, len(kps), len(b)-i)
		}
		for j, kp := range kps {
			if !bytes.Equal(kp.Key, b[i+j].k) || !bytes.Equal(kp.Value, b[i+j].v) {
				return nil, fmt.Errorf("pair %d: not pair %d of the event encoded in its value", i+j, j)
			}
		}
		evs = append(evs, e)
		i += len(kps)
	}
	return evs, nil
}

// checkEventRoot: CalculateEventRoot against one Update over a plain map store and the LIP-0039 reference.
func checkEventRoot(evs []*blockchain.Event, b []kv, fail func(sig, detail string)) string {
	where := fmt.Sprintf("%d events, %d pairs", len(evs), len(b))
	if len(b) > 0 {
		where += fmt.Sprintf(" (first pair %x=%x, last pair %x=%x)", b[0].k, b[0].v, b[len(b)-1].k, b[len(b)-1].v)
	}
	m := map[string][]byte{}
	applyBatch(m, b)
	want := refRoot(m)
	keys, vals := splitKV(b)
	one, oneErr := smt.NewTrie(nil, eventKeyLen).Update(newMemDB(), keys, vals)
	if oneErr != nil {
		fail("event-root-one-update-error", fmt.Sprintf("%s: one Update over a plain map store: %v", where, oneErr))
	} else if !bytes.Equal(one, want) {
		fail("event-root-one-update-differs-from-reference", fmt.Sprintf("%s: one Update %x, reference root of the %d-key map %x", where, one, len(m), want))
	}
	cp := make([]*blockchain.Event, len(evs))
	copy(cp, evs)
	root, err := blockchain.CalculateEventRoot(cp)
	if err != nil {
		fail("event-root-error", fmt.Sprintf("%s: CalculateEventRoot: %v; the root of the pair map is %x", where, err, want))
		return "err"
	}
	if !bytes.Equal(root, want) {
		fail("event-root-differs-from-reference", fmt.Sprintf("%s: CalculateEventRoot %x, reference root of the %d-key map %x", where, root, len(m), want))
	}
	if oneErr == nil && !bytes.Equal(root, one) {
		fail("event-root-differs-from-one-update", fmt.Sprintf("%s: CalculateEventRoot %x, one Update of the same pairs %x", where, root, one))
	}
	return corr.Hex(root)
}

// evRoot: op "evroot" of the C10 runner.
func (r *runner) evRoot(op string, w []string) string {
	if len(w) != 2 {
		return "bad-op"
	}
	b := parseBatch(w[1])
	evs, err := eventsOfPairs(b)
	if err != nil {
		r.fail("event-root-bad-case", err.Error())
		return "bad-op"
	}
	return checkEventRoot(evs, b, r.fail)
}

// ---------------------------------------------------------------------------------------------
// pseudo-property C10EVENTS

type evProp struct{}

func init() { corr.Register(evProp{}) }

func (evProp) ID() string    { return "C10EVENTS" }
func (evProp) Parallel() int { return 8 }
func (evProp) NoModel() bool { return true }

func (evProp) Generate(rng *rand.Rand, tier string) []corr.Case {
	nRandom, nRaw := 24, 40
	if tier == "thorough" {
		nRandom, nRaw = 300, 600
	}
	cases := []corr.Case{}
	for _, p := range boundaryPairs {
		cases = append(cases, corr.Case{Ops: []string{fmt.Sprintf("events %d 0 %d", rng.Int63(), p)}, Tag: "boundary"})
	}
	for i := 0; i < nRandom; i++ {
		n := rng.Intn(1501)
		if i%4 == 0 {
			n = 380 + rng.Intn(300) // 1..4 topics: around 1024 pairs
		}
		cases = append(cases, corr.Case{Ops: []string{fmt.Sprintf("events %d %d 0", rng.Int63(), n)}, Tag: "random"})
	}
	for i := 0; i < nRaw; i++ {
		cases = append(cases, corr.Case{Ops: []string{fmt.Sprintf("raw %d %d %d", rng.Int63(), 2+rng.Intn(60), 2+rng.Intn(4))}, Tag: "raw"})
	}
	return cases
}

func (evProp) RunImpl(c corr.Case) ([]string, []corr.Fail) {
	out := []string{}
	fails := []corr.Fail{}
	for i, op := range c.Ops {
		fail := func(sig, detail string) {
			if len(detail) > 900 {
				detail = detail[:900] + "..."
			}
			fails = append(fails, corr.Fail{Sig: sig, Detail: op + ": " + detail, Op: i})
		}
		func() {
			defer func() {
				if e := recover(); e != nil {
					out = append(out, "panic")
					fail("event-root-panic", fmt.Sprint(e))
				}
			}()
			var seed int64
			var a, b int
			w := strings.Fields(op)
			if len(w) != 4 {
				out = append(out, "bad-op")
				return
			}
			fmt.Sscan(w[1], &seed)
			fmt.Sscan(w[2], &a)
			fmt.Sscan(w[3], &b)
			rng := rand.New(rand.NewSource(seed))
			switch w[0] {
			case "events":
				evs := genEventList(rng, a, b)
				pairs := eventPairs(evs)
				res := checkEventRoot(evs, pairs, fail)
				out = append(out, fmt.Sprintf("events=%d pairs=%d root=%s", len(evs), len(pairs), res))
			case "raw":
				out = append(out, rawOutcome(rng, a, b, fail))
			default:
				out = append(out, "bad-op")
			}
		}()
	}
	return out, fails
}

// rawOutcome: a trie with values of 0..200 bytes (0 = delete) fed in several batches, reopened (NewTrie at the root
// over the same store) between the batches.  pkg/trie/smt reads stored subtrees back assuming 32-byte leaf values
// (newSubTree), so this is outside what the engine does (the state tree stores hashes, the event tree is built by one
// Update and dropped); the outcome is reported as the class of the case.  What IS required: the first batch on the
// empty trie gives the reference root (that is the event-tree use), and batches of 32-byte values behave.
func rawOutcome(rng *rand.Rand, nKeys, nBatches int, fail func(sig, detail string)) string {
	keys := make([][]byte, nKeys)
	for i := range keys {
		keys[i] = randBytes(rng, eventKeyLen)
		if i > 0 && rng.Intn(3) == 0 {
			copy(keys[i], keys[rng.Intn(i)][:8]) // shared topic part
		}
	}
	store := newMemDB()
	root := emptyHash
	m := map[string][]byte{}
	for bi := 0; bi < nBatches; bi++ {
		b := []kv{}
		for _, k := range keys {
			if rng.Intn(nBatches) == 0 || (bi == 0 && rng.Intn(2) == 0) {
				n := rng.Intn(201)
				if nKeys%3 == 0 {
					n = rng.Intn(34)
				}
				if bi == 0 && n == 0 {
					n = 33
				}
				b = append(b, kv{k, randBytes(rng, n)})
			}
		}
		if len(b) == 0 {
			b = append(b, kv{keys[0], randBytes(rng, 7)})
		}
		ks, vs := splitKV(b)
		var got []byte
		var err error
		panicked := false
		func() {
			defer func() {
				if e := recover(); e != nil {
					panicked = true
				}
			}()
			got, err = smt.NewTrie(root, eventKeyLen).Update(store, ks, vs)
		}()
		applyBatch(m, b)
		want := refRoot(m)
		if bi == 0 {
			if err != nil {
				fail("raw-values-first-batch-error", fmt.Sprintf("first batch %s: %v", clip(fmtBatch(b)), err))
				return "first-batch-error"
			}
			if !bytes.Equal(got, want) {
				fail("raw-values-first-batch-root", fmt.Sprintf("first batch %s: root %x, reference %x", clip(fmtBatch(b)), got, want))
				return "first-batch-wrong-root"
			}
			root = got
			continue
		}
		if panicked { // e.g. key 0001 = 01 stored, then Update of key 8002 at that root: slice bounds out of range in newSubTree
			return fmt.Sprintf("batch %d after reopen: panic", bi+1)
		}
		if err != nil {
			return fmt.Sprintf("batch %d after reopen: error", bi+1)
		}
		if !bytes.Equal(got, want) {
			return fmt.Sprintf("batch %d after reopen: wrong root", bi+1)
		}
		root = got
	}
	return "all batches give the reference root"
}

func (evProp) Classify(c corr.Case, out []string) string {
	if len(out) == 0 {
		return ""
	}
	if c.Tag == "raw" {
		o := out[0]
		switch {
		case strings.HasSuffix(o, "error"):
			return "raw-values:later-batch-error"
		case strings.HasSuffix(o, "panic"):
			return "raw-values:later-batch-panic"
		case strings.HasSuffix(o, "wrong root"):
			return "raw-values:later-batch-wrong-root"
		}
		return "raw-values:" + strings.ReplaceAll(o, " ", "-")
	}
	var ne, np int
	if _, err := fmt.Sscanf(out[0], "events=%d pairs=%d", &ne, &np); err != nil {
		return ""
	}
	switch {
	case np == 0:
		return "events:empty"
	case np <= 1024:
		return "events:pairs<=1024"
	case np <= 2048:
		return "events:pairs<=2048"
	}
	return "events:pairs>2048"
}

func (evProp) Extra(rng *rand.Rand, tier string) corr.ExtraResult { return corr.ExtraResult{} }
