// Package c10: correspondence and model-free oracles for the sparse Merkle trie (pkg/trie/smt).
//
// ops (one output line each):
//
//	reset <keylen> [<subtree height 8|4>]           -> ok
//	update k=v,k=v,...|-   (empty value "-" = delete) -> root
//	reopen                 (NewTrie at the same root over the same DB) -> root
//	prove k,k,...|-                                 -> S:<sibling hashes> Q:<key:value:bitmap;...> | err
//	verify <tag> <root> <keylen> <keys> <siblings> <queries> -> true|false|err (single query: "/1:<bool>" appended)
//	reverify <n> same|copy|wire   (the objects of the n-th most recent verify op once more, pure.go) -> as verify | none
//
// The model driver prints SMTSpec.mapRoot (SHA-256) of the accumulated map, the model of Prove and the
// transcription of Verify.  Model-free oracles: reference LIP-0039 root computed from a plain Go map, history /
// order independence against fresh tries, reopen, Verify(Prove(q)) with claims compared to the Go map, and
// "accepted => the claims agree with the map committed by that root" for every (tampered / forged) proof.
package c10

import (
	"bytes"
	"crypto/sha256"
	"fmt"
	"math/rand"
	"sort"
	"strconv"
	"strings"
	"sync"

	"github.com/LiskHQ/lisk-engine/pkg/codec"
	"github.com/LiskHQ/lisk-engine/pkg/db"
	"github.com/LiskHQ/lisk-engine/pkg/trie/smt"

	"verifharness/corr"
)

type prop struct{}

func init() { corr.Register(prop{}) }

func (prop) ID() string    { return "C10" }
func (prop) Parallel() int { return 8 }

// ---------------------------------------------------------------------------------------------
// plain map database for the generator's mirror trie and the fresh tries of the oracle

type memDB struct {
	mu sync.Mutex
	m  map[string][]byte
}

func newMemDB() *memDB { return &memDB{m: map[string][]byte{}} }
func (d *memDB) Get(k []byte) ([]byte, bool) {
	d.mu.Lock()
	defer d.mu.Unlock()
	v, ok := d.m[string(k)]
	return v, ok
}
func (d *memDB) Set(k, v []byte) {
	d.mu.Lock()
	defer d.mu.Unlock()
	d.m[string(k)] = append([]byte{}, v...)
}
func (d *memDB) Del(k []byte) {
	d.mu.Lock()
	defer d.mu.Unlock()
	delete(d.m, string(k))
}

// ---------------------------------------------------------------------------------------------
// reference specification in Go (LIP-0039 root of a map), independent of pkg/trie/smt

func sha(parts ...[]byte) []byte {
	h := sha256.New()
	for _, p := range parts {
		h.Write(p)
	}
	return h.Sum(nil)
}

var emptyHash = sha()

func bitAt(k []byte, i int) bool { return (k[i/8]<<(uint(i)%8))&0x80 != 0 }

type kv struct{ k, v []byte }

// refRootSorted: kvs sorted by key, all keys of equal length and sharing their first depth bits.
func refRootSorted(kvs []kv, depth int) []byte {
	switch len(kvs) {
	case 0:
		return emptyHash
	case 1:
		return sha([]byte{0}, kvs[0].k, kvs[0].v)
	}
	split := sort.Search(len(kvs), func(i int) bool { return bitAt(kvs[i].k, depth) })
	return sha([]byte{1}, refRootSorted(kvs[:split], depth+1), refRootSorted(kvs[split:], depth+1))
}

func sortedKVs(m map[string][]byte) []kv {
	kvs := make([]kv, 0, len(m))
	for k, v := range m {
		kvs = append(kvs, kv{[]byte(k), v})
	}
	sort.Slice(kvs, func(i, j int) bool { return bytes.Compare(kvs[i].k, kvs[j].k) < 0 })
	return kvs
}

func refRoot(m map[string][]byte) []byte { return refRootSorted(sortedKVs(m), 0) }

// applyBatch: semantics of trie.Update on the reference map (first occurrence of a key wins, empty = delete)
func applyBatch(m map[string][]byte, b []kv) {
	seen := map[string]bool{}
	for _, e := range b {
		if seen[string(e.k)] {
			continue
		}
		seen[string(e.k)] = true
		if len(e.v) == 0 {
			delete(m, string(e.k))
		} else {
			m[string(e.k)] = e.v
		}
	}
}

func copyMap(m map[string][]byte) map[string][]byte {
	r := make(map[string][]byte, len(m))
	for k, v := range m {
		r[k] = v
	}
	return r
}

// ---------------------------------------------------------------------------------------------
// text format

func hexList(l [][]byte) string {
	if len(l) == 0 {
		return "-"
	}
	p := make([]string, len(l))
	for i, x := range l {
		p[i] = corr.Hex(x)
	}
	return strings.Join(p, ",")
}

func unHexList(s string) [][]byte {
	if s == "-" {
		return nil
	}
	parts := strings.Split(s, ",")
	r := make([][]byte, len(parts))
	for i, p := range parts {
		r[i] = corr.UnHex(p)
	}
	return r
}

func fmtBatch(b []kv) string {
	if len(b) == 0 {
		return "-"
	}
	p := make([]string, len(b))
	for i, e := range b {
		p[i] = corr.Hex(e.k) + "=" + corr.Hex(e.v)
	}
	return strings.Join(p, ",")
}

func parseBatch(s string) []kv {
	if s == "-" {
		return nil
	}
	parts := strings.Split(s, ",")
	r := make([]kv, len(parts))
	for i, p := range parts {
		x := strings.Split(p, "=")
		r[i] = kv{corr.UnHex(x[0]), corr.UnHex(x[1])}
	}
	return r
}

type query struct{ key, value, bitmap []byte }

type proof struct {
	sibs    [][]byte
	queries []query
}

func fromSMT(p *smt.Proof) proof {
	r := proof{}
	for _, s := range p.SiblingHashes {
		r.sibs = append(r.sibs, append([]byte{}, s...))
	}
	for _, q := range p.Queries {
		r.queries = append(r.queries, query{append([]byte{}, q.Key...), append([]byte{}, q.Value...), append([]byte{}, q.Bitmap...)})
	}
	return r
}

func (p proof) toSMT() *smt.Proof {
	r := &smt.Proof{SiblingHashes: []codec.Hex{}, Queries: []*smt.QueryProof{}}
	for _, s := range p.sibs {
		r.SiblingHashes = append(r.SiblingHashes, append([]byte{}, s...))
	}
	for _, q := range p.queries {
		r.Queries = append(r.Queries, &smt.QueryProof{Key: append([]byte{}, q.key...), Value: append([]byte{}, q.value...), Bitmap: append([]byte{}, q.bitmap...)})
	}
	return r
}

func (p proof) clone() proof {
	r := proof{}
	for _, s := range p.sibs {
		r.sibs = append(r.sibs, append([]byte{}, s...))
	}
	for _, q := range p.queries {
		r.queries = append(r.queries, query{append([]byte{}, q.key...), append([]byte{}, q.value...), append([]byte{}, q.bitmap...)})
	}
	return r
}

func (p proof) String() string {
	qs := "-"
	if len(p.queries) > 0 {
		parts := make([]string, len(p.queries))
		for i, q := range p.queries {
			parts[i] = corr.Hex(q.key) + ":" + corr.Hex(q.value) + ":" + corr.Hex(q.bitmap)
		}
		qs = strings.Join(parts, ";")
	}
	return "S:" + hexList(p.sibs) + " Q:" + qs
}

func parseQueries(s string) []query {
	if s == "-" {
		return nil
	}
	parts := strings.Split(s, ";")
	r := make([]query, len(parts))
	for i, p := range parts {
		x := strings.Split(p, ":")
		r[i] = query{corr.UnHex(x[0]), corr.UnHex(x[1]), corr.UnHex(x[2])}
	}
	return r
}

func fmtVerify(tag string, root []byte, keyLen int, keys [][]byte, p proof) string {
	s := p.String() // "S:... Q:..."
	parts := strings.SplitN(s, " ", 2)
	return fmt.Sprintf("verify %s %s %d %s %s %s", tag, corr.Hex(root), keyLen, hexList(keys), parts[0][2:], parts[1][2:])
}

// ---------------------------------------------------------------------------------------------
// bit helpers (bytes.ToBools / FromBools semantics)

func toBools(b []byte) []bool {
	r := make([]bool, 8*len(b))
	for i := range r {
		r[i] = bitAt(b, i)
	}
	return r
}

func fromBools(l []bool) []byte {
	n := (len(l) + 7) / 8
	r := make([]byte, n)
	off := 8*n - len(l)
	for i, x := range l {
		if x {
			r[(i+off)/8] |= 0x80 >> uint((i+off)%8)
		}
	}
	return r
}

func stripFalse(l []bool) []bool {
	for len(l) > 0 && !l[0] {
		l = l[1:]
	}
	return l
}

func heightOf(bitmap []byte) int { return len(stripFalse(toBools(bitmap))) }

func flipBit(b []byte, i int) []byte {
	r := append([]byte{}, b...)
	r[i/8] ^= 0x80 >> uint(i%8)
	return r
}

func randBytes(rng *rand.Rand, n int) []byte {
	b := make([]byte, n)
	for i := range b {
		b[i] = byte(rng.Intn(256))
	}
	return b
}

// ---------------------------------------------------------------------------------------------
// generator

var keyLens = []int{1, 2, 12, 32, 38}

// genPool builds the key universe of a case.
func genPool(rng *rand.Rand, keyLen, n int) [][]byte {
	pool := [][]byte{}
	seen := map[string]bool{}
	add := func(k []byte) {
		if !seen[string(k)] {
			seen[string(k)] = true
			pool = append(pool, k)
		}
	}
	bits := 8 * keyLen
	for tries := 0; len(pool) < n && tries < 20*n+50; tries++ {
		switch r := rng.Intn(10); {
		case r < 3 || len(pool) == 0: // uniform
			add(randBytes(rng, keyLen))
		case r < 7: // share a prefix of 8..bits-1 bits (1..bits-1 for short keys) with an existing key
			base := pool[rng.Intn(len(pool))]
			lo := 8
			if bits <= 16 {
				lo = 1
			}
			plen := lo + rng.Intn(bits-lo)
			if rng.Intn(3) == 0 && bits > 16 { // at a subtree boundary +-1
				plen = 8*(1+rng.Intn(keyLen-1)) + rng.Intn(3) - 1
			}
			k := randBytes(rng, keyLen)
			for i := 0; i < plen; i++ {
				if bitAt(base, i) != bitAt(k, i) {
					k = flipBit(k, i)
				}
			}
			if bitAt(base, plen) == bitAt(k, plen) { // part exactly at plen
				k = flipBit(k, plen)
			}
			add(k)
		case r < 9: // differ only in the last bit / in one late bit
			base := pool[rng.Intn(len(pool))]
			if rng.Intn(2) == 0 {
				add(flipBit(base, bits-1))
			} else {
				add(flipBit(base, bits-1-rng.Intn(min(bits, 10))))
			}
		default: // extreme keys
			b := byte(0)
			if rng.Intn(2) == 0 {
				b = 0xff
			}
			k := bytes.Repeat([]byte{b}, keyLen)
			if rng.Intn(2) == 0 {
				k = flipBit(k, rng.Intn(bits))
			}
			add(k)
		}
	}
	return pool
}

func min(a, b int) int {
	if a < b {
		return a
	}
	return b
}

// trieAPI: the exported methods of the (unexported) smt trie type.
type trieAPI interface {
	Update(db smt.DBReadWriter, keys [][]byte, values [][]byte) ([]byte, error)
	Prove(db smt.DBReader, queryKeys [][]byte) (*smt.Proof, error)
	SetSubtreeHeight(subtreeHeight uint8)
}

// newTrie opens a trie at root with the given subtree height (8 = default layout, 4 = nibble subtrees).
func newTrie(root []byte, keyLen, sth int) trieAPI {
	var t trieAPI = smt.NewTrie(root, keyLen)
	if sth != 8 && sth != 0 {
		t.SetSubtreeHeight(uint8(sth))
	}
	return t
}

var (
	layout4Once sync.Once
	layout4OK   bool
)

// layout4Works probes SetSubtreeHeight(4) with two keys that share the first nibble and part in the second one.
// (A trie that bins the second nibble wrongly would run past the key end inside a goroutine of updateNode for
// other key sets - a crash that cannot be recovered - so the layout is only exercised when the probe passes.)
func layout4Works() bool {
	layout4Once.Do(func() {
		defer func() {
			if r := recover(); r != nil {
				layout4OK = false
			}
		}()
		m := map[string][]byte{"\x10\x00": sha([]byte{1}), "\x11\x80": sha([]byte{2})}
		kvs := sortedKVs(m)
		keys, vals := splitKV(kvs)
		root, err := newTrie(nil, 2, 4).Update(newMemDB(), keys, vals)
		layout4OK = err == nil && bytes.Equal(root, refRoot(m))
	})
	return layout4OK
}

// mirror: the generator's own run of the real trie, used to obtain the proofs that are then tampered.
type mirror struct {
	keyLen int
	sth    int
	db     *memDB
	root   []byte
	m      map[string][]byte
	roots  [][]byte
}

func (mi *mirror) update(b []kv) (ok bool) {
	defer func() {
		if r := recover(); r != nil {
			ok = false
		}
	}()
	keys, vals := make([][]byte, len(b)), make([][]byte, len(b))
	for i, e := range b {
		keys[i], vals[i] = e.k, e.v
	}
	t := newTrie(mi.root, mi.keyLen, mi.sth)
	root, err := t.Update(mi.db, keys, vals)
	if err != nil {
		return false
	}
	mi.root = root
	mi.roots = append(mi.roots, root)
	applyBatch(mi.m, b)
	return true
}

func (mi *mirror) prove(keys [][]byte) (p proof, ok bool) {
	defer func() {
		if r := recover(); r != nil {
			ok = false
		}
	}()
	t := newTrie(mi.root, mi.keyLen, mi.sth)
	sp, err := t.Prove(mi.db, keys)
	if err != nil {
		return proof{}, false
	}
	return fromSMT(sp), true
}

// nearKey returns a key sharing at least plen bits with k (and different from k).
func nearKey(rng *rand.Rand, k []byte, plen int) []byte {
	bits := 8 * len(k)
	r := randBytes(rng, len(k))
	for i := 0; i < plen && i < bits; i++ {
		if bitAt(k, i) != bitAt(r, i) {
			r = flipBit(r, i)
		}
	}
	if bytes.Equal(r, k) {
		r = flipBit(r, bits-1)
	}
	return r
}

func genQueryKeys(rng *rand.Rand, mi *mirror, pool [][]byte) [][]byte {
	present := sortedKVs(mi.m)
	n := 1 + rng.Intn(4)
	if rng.Intn(6) == 0 {
		n = 5 + rng.Intn(8)
	}
	mode := rng.Intn(4) // 0 present, 1 absent, 2.. mixed
	keys := [][]byte{}
	for i := 0; i < n; i++ {
		wantPresent := mode == 0 || (mode >= 2 && rng.Intn(2) == 0)
		switch {
		case wantPresent && len(present) > 0:
			keys = append(keys, present[rng.Intn(len(present))].k)
		case rng.Intn(3) == 0:
			keys = append(keys, randBytes(rng, mi.keyLen))
		case rng.Intn(2) == 0 && len(present) > 0:
			k := present[rng.Intn(len(present))].k
			keys = append(keys, nearKey(rng, k, rng.Intn(8*mi.keyLen)))
		default:
			keys = append(keys, pool[rng.Intn(len(pool))])
		}
	}
	if rng.Intn(8) == 0 && len(keys) > 0 { // duplicate query key
		keys = append(keys, keys[rng.Intn(len(keys))])
	}
	return keys
}

// tamper produces (tag, keys, proof, root, keyLen) variants of an honest proof.
type variant struct {
	tag    string
	keys   [][]byte
	p      proof
	root   []byte
	keyLen int
}

func cloneKeys(k [][]byte) [][]byte {
	r := make([][]byte, len(k))
	for i := range k {
		r[i] = append([]byte{}, k[i]...)
	}
	return r
}

func tamper(rng *rand.Rand, mi *mirror, keys [][]byte, hp proof, count int) []variant {
	out := []variant{}
	keyLen := mi.keyLen
	base := func(tag string) variant {
		return variant{tag: tag, keys: cloneKeys(keys), p: hp.clone(), root: append([]byte{}, mi.root...), keyLen: keyLen}
	}
	nq := len(hp.queries)
	// the empty claim: no keys, no queries, no sibling hashes - against the true root, a root with one bit flipped and
	// an arbitrary root (Prove answers an empty key list with this proof; it commits to nothing and must not verify
	// against roots the trie never had)
	if rng.Intn(4) == 0 {
		for k := 0; k < 3; k++ {
			v := base("empty-claim")
			v.keys, v.p = nil, proof{}
			switch k {
			case 1:
				v.root[len(v.root)-1] ^= 1
			case 2:
				for i := range v.root {
					v.root[i] = byte(rng.Intn(256))
				}
			}
			out = append(out, v)
		}
	}
	if nq == 0 {
		return out
	}
	for c := 0; c < count; c++ {
		func() {
			// tampering an already damaged proof may index out of range: skip such a step
			defer func() { _ = recover() }()
			tamperOne(rng, mi, keys, hp, &out, base)
		}()
	}
	return out
}

func tamperOne(rng *rand.Rand, mi *mirror, keys [][]byte, hp proof, outp *[]variant, base func(string) variant) {
	keyLen := mi.keyLen
	bits := 8 * keyLen
	nq := len(hp.queries)
	out := *outp
	defer func() { *outp = out }()
	for once := true; once; once = false {
		i := rng.Intn(nq)
		q := hp.queries[i]
		h := heightOf(q.bitmap)
		switch kind := rng.Intn(30); kind {
		case 0: // value bit flip / set
			v := base("value-flip")
			if len(q.value) > 0 {
				v.p.queries[i].value = flipBit(q.value, rng.Intn(8*len(q.value)))
			} else {
				v.tag = "value-set"
				v.p.queries[i].value = randBytes(rng, 32)
			}
			out = append(out, v)
		case 1: // value removed / truncated / extended
			if len(q.value) == 0 {
				continue
			}
			v := base("value-empty")
			switch rng.Intn(3) {
			case 0:
				v.p.queries[i].value = []byte{}
			case 1:
				v.tag = "value-trunc"
				v.p.queries[i].value = q.value[:len(q.value)-1]
			default:
				v.tag = "value-extend"
				v.p.queries[i].value = append(append([]byte{}, q.value...), byte(rng.Intn(256)))
			}
			out = append(out, v)
		case 2: // key bit flip inside the path
			if h == 0 {
				continue
			}
			v := base("key-flip-path")
			v.p.queries[i].key = flipBit(q.key, rng.Intn(h))
			out = append(out, v)
		case 3: // key bit flip below the node
			if h >= bits {
				continue
			}
			v := base("key-flip-below")
			if len(q.value) == 0 {
				v.tag = "key-flip-below-empty"
			}
			v.p.queries[i].key = flipBit(q.key, h+rng.Intn(bits-h))
			out = append(out, v)
		case 4: // turn an exclusion proof into an inclusion claim
			if bytes.Equal(q.key, keys[i]) {
				continue
			}
			v := base("key-to-query")
			v.p.queries[i].key = append([]byte{}, keys[i]...)
			out = append(out, v)
		case 5: // bitmap bit flip
			if len(q.bitmap) == 0 {
				v := base("bitmap-set")
				v.p.queries[i].bitmap = []byte{byte(1 + rng.Intn(255))}
				out = append(out, v)
				continue
			}
			v := base("bitmap-flip")
			v.p.queries[i].bitmap = flipBit(q.bitmap, rng.Intn(8*len(q.bitmap)))
			out = append(out, v)
		case 6: // bitmap zero byte prepended / appended, bitmap removed
			v := base("bitmap-prepend0")
			switch rng.Intn(3) {
			case 0:
				v.p.queries[i].bitmap = append([]byte{0}, q.bitmap...)
			case 1:
				v.tag = "bitmap-append0"
				v.p.queries[i].bitmap = append(append([]byte{}, q.bitmap...), 0)
			default:
				if len(q.bitmap) == 0 {
					continue
				}
				v.tag = "bitmap-empty"
				v.p.queries[i].bitmap = []byte{}
			}
			out = append(out, v)
		case 7: // bitmap longer than the key
			v := base("bitmap-long")
			v.p.queries[i].bitmap = append([]byte{byte(1 + rng.Intn(255))}, randBytes(rng, keyLen+rng.Intn(2))...)
			out = append(out, v)
		case 8: // drop a sibling hash
			if len(hp.sibs) == 0 {
				continue
			}
			v := base("sib-drop")
			j := rng.Intn(len(hp.sibs))
			v.p.sibs = append(v.p.sibs[:j:j], v.p.sibs[j+1:]...)
			out = append(out, v)
		case 9: // duplicate a sibling hash in place
			if len(hp.sibs) == 0 {
				continue
			}
			v := base("sib-dup")
			j := rng.Intn(len(hp.sibs))
			s := append([][]byte{}, v.p.sibs[:j]...)
			s = append(s, v.p.sibs[j])
			v.p.sibs = append(s, v.p.sibs[j:]...)
			out = append(out, v)
		case 10: // extra sibling hash at the end
			v := base("sib-append")
			if len(hp.sibs) > 0 && rng.Intn(2) == 0 {
				v.p.sibs = append(v.p.sibs, hp.sibs[rng.Intn(len(hp.sibs))])
			} else {
				v.p.sibs = append(v.p.sibs, randBytes(rng, 32))
			}
			out = append(out, v)
		case 11: // swap two different sibling hashes
			if len(hp.sibs) < 2 {
				continue
			}
			a, b := rng.Intn(len(hp.sibs)), rng.Intn(len(hp.sibs))
			if bytes.Equal(hp.sibs[a], hp.sibs[b]) {
				continue
			}
			v := base("sib-swap")
			v.p.sibs[a], v.p.sibs[b] = v.p.sibs[b], v.p.sibs[a]
			out = append(out, v)
		case 12: // sibling bit flip / truncation / emptied
			if len(hp.sibs) == 0 {
				continue
			}
			j := rng.Intn(len(hp.sibs))
			v := base("sib-flip")
			switch rng.Intn(4) {
			case 0, 1:
				v.p.sibs[j] = flipBit(hp.sibs[j], rng.Intn(256))
			case 2:
				v.tag = "sib-trunc"
				v.p.sibs[j] = hp.sibs[j][:31]
			default:
				v.tag = "sib-empty"
				v.p.sibs[j] = []byte{}
			}
			out = append(out, v)
		case 13: // identical duplicate query (legitimate)
			v := base("query-dup")
			v.keys = append(v.keys, keys[i])
			v.p.queries = append(v.p.queries, query{q.key, q.value, q.bitmap})
			out = append(out, v)
		case 14: // query removed (from proof only / from both)
			v := base("query-drop-proof")
			v.p.queries = append(v.p.queries[:i:i], v.p.queries[i+1:]...)
			if rng.Intn(2) == 0 {
				v.tag = "query-drop-both"
				v.keys = append(v.keys[:i:i], v.keys[i+1:]...)
			}
			out = append(out, v)
		case 15: // wrong root
			v := base("root-flip")
			switch rng.Intn(3) {
			case 0:
				v.root = flipBit(mi.root, rng.Intn(256))
			case 1:
				v.tag = "root-random"
				v.root = randBytes(rng, 32)
			default:
				v.tag = "root-old"
				v.root = mi.roots[rng.Intn(len(mi.roots))]
			}
			out = append(out, v)
		case 16: // key/value boundary of the proven leaf shifted
			if len(q.value) < 2 {
				continue
			}
			v := base("keylen-shift")
			if rng.Intn(2) == 0 {
				n := 1 + rng.Intn(len(q.value)-1)
				v.p.queries[i].key = append(append([]byte{}, q.key...), q.value[:n]...)
				v.p.queries[i].value = q.value[n:]
			} else {
				n := 1 + rng.Intn(keyLen)
				if n == keyLen {
					n = keyLen - 1
				}
				if n <= 0 {
					continue
				}
				v.tag = "keylen-shift-short"
				v.p.queries[i].key = q.key[:keyLen-n]
				v.p.queries[i].value = append(append([]byte{}, q.key[keyLen-n:]...), q.value...)
			}
			out = append(out, v)
		case 17: // the verifier asks for a different key
			v := base("qkey-near")
			if rng.Intn(2) == 0 {
				v.keys[i] = nearKey(rng, keys[i], rng.Intn(bits))
			} else {
				v.tag = "qkey-present"
				pres := sortedKVs(mi.m)
				if len(pres) == 0 {
					continue
				}
				v.keys[i] = pres[rng.Intn(len(pres))].k
			}
			out = append(out, v)
		case 18: // wrong key length argument / query key of the wrong length
			v := base("keylen-arg")
			if rng.Intn(2) == 0 {
				v.keyLen = keyLen + 1 - 2*rng.Intn(2)
			} else {
				v.tag = "qkey-len"
				v.keys[i] = append(append([]byte{}, keys[i]...), 0)
			}
			out = append(out, v)
		case 19, 20: // forged second claim at the position of a proven node
			if h >= bits {
				continue
			}
			v := base("forge-samepath")
			k2 := nearKey(rng, q.key, h)
			v.keys = append(v.keys, k2)
			val := randBytes(rng, 32)
			if rng.Intn(4) == 0 {
				val = []byte{}
				v.tag = "forge-samepath-absent"
			}
			v.p.queries = append(v.p.queries, query{k2, val, q.bitmap})
			out = append(out, v)
		case 21, 22: // forged claim whose byte-padded path collides with the path of a proven node
			path := toBools(q.key)[:h]
			pad := 8 - h%8
			if h%8 == 0 {
				pad = 8
			}
			h2 := h + pad
			if h2 > bits {
				continue
			}
			v := base("forge-padded")
			k2 := randBytes(rng, keyLen)
			for j := 0; j < h2; j++ {
				want := j >= pad && path[j-pad]
				if bitAt(k2, j) != want {
					k2 = flipBit(k2, j)
				}
			}
			bm := make([]bool, h2)
			bm[0] = true
			v.keys = append(v.keys, k2)
			v.p.queries = append(v.p.queries, query{k2, randBytes(rng, 32), fromBools(bm)})
			out = append(out, v)
		case 23, 24: // forged claim deeper below a proven node, with a junk sibling hash to climb
			if h+1 > bits {
				continue
			}
			extra := 1 + rng.Intn(min(bits-h, 9))
			v := base("forge-deeper")
			k2 := nearKey(rng, q.key, h+extra)
			if rng.Intn(2) == 0 { // make it smaller / larger than the proven key where possible
				k2 = flipBit(q.key, h+extra-1+rng.Intn(bits-(h+extra)+1))
			}
			bm := append([]bool{true}, make([]bool, extra-1)...)
			bm = append(bm, stripFalse(toBools(q.bitmap))...)
			v.keys = append(v.keys, k2)
			v.p.queries = append(v.p.queries, query{k2, randBytes(rng, 32), fromBools(bm)})
			junk := randBytes(rng, 32)
			pos := 0
			if rng.Intn(3) == 0 {
				pos = rng.Intn(len(v.p.sibs) + 1)
			}
			s := append([][]byte{}, v.p.sibs[:pos]...)
			s = append(s, junk)
			v.p.sibs = append(s, v.p.sibs[pos:]...)
			out = append(out, v)
		case 25: // consistent permutation of the queries (legitimate)
			if nq < 2 {
				continue
			}
			v := base("perm")
			perm := rng.Perm(nq)
			for a, b := range perm {
				v.keys[a] = keys[b]
				v.p.queries[a] = hp.queries[b]
			}
			out = append(out, v)
		case 26: // same key twice with different value/bitmap
			v := base("query-dup-differs")
			v.keys = append(v.keys, keys[i])
			if rng.Intn(2) == 0 {
				v.p.queries = append(v.p.queries, query{q.key, randBytes(rng, 32), q.bitmap})
			} else {
				v.p.queries = append(v.p.queries, query{q.key, q.value, append([]byte{1}, q.bitmap...)})
			}
			out = append(out, v)
		case 27: // proof of one query presented for another proven query (swap two queries, keep keys)
			if nq < 2 {
				continue
			}
			j := rng.Intn(nq)
			if j == i || bytes.Equal(hp.queries[j].key, q.key) {
				continue
			}
			v := base("query-swap")
			v.p.queries[i], v.p.queries[j] = hp.queries[j], hp.queries[i]
			out = append(out, v)
		case 28: // inclusion claim for an absent key reusing the leaf found
			if bytes.Equal(q.key, keys[i]) || len(q.value) == 0 {
				continue
			}
			v := base("claim-absent-present")
			v.p.queries[i].key = append([]byte{}, keys[i]...)
			v.p.queries[i].value = randBytes(rng, 32)
			out = append(out, v)
		default: // random multi-field damage
			v := base("multi")
			for n := 0; n < 2+rng.Intn(2); n++ {
				j := rng.Intn(nq)
				switch rng.Intn(4) {
				case 0:
					if len(v.p.queries[j].value) > 0 {
						v.p.queries[j].value = flipBit(v.p.queries[j].value, rng.Intn(8*len(v.p.queries[j].value)))
					}
				case 1:
					v.p.queries[j].key = flipBit(v.p.queries[j].key, rng.Intn(8*len(v.p.queries[j].key)))
				case 2:
					if len(v.p.queries[j].bitmap) > 0 {
						v.p.queries[j].bitmap = flipBit(v.p.queries[j].bitmap, rng.Intn(8*len(v.p.queries[j].bitmap)))
					}
				default:
					if len(v.p.sibs) > 0 {
						x := rng.Intn(len(v.p.sibs))
						v.p.sibs[x] = flipBit(v.p.sibs[x], rng.Intn(8*len(v.p.sibs[x])))
					}
				}
			}
			out = append(out, v)
		}
	}
}

// strictKinds: tamperings that change what the proof commits to; acceptance is a failure by itself.
var strictKinds = map[string]bool{
	"value-flip": true, "value-set": true, "value-empty": true, "value-trunc": true, "value-extend": true,
	"key-flip-path": true, "key-flip-below": true, "key-to-query": true,
	"bitmap-set": true, "bitmap-flip": true, "bitmap-prepend0": true, "bitmap-append0": true, "bitmap-empty": true, "bitmap-long": true,
	"sib-drop": true, "sib-dup": true, "sib-append": true, "sib-swap": true, "sib-flip": true, "sib-trunc": true, "sib-empty": true,
	"query-drop-proof": true, "root-flip": true, "root-random": true,
	"keylen-shift": true, "keylen-shift-short": true, "keylen-arg": true, "qkey-len": true,
	"forge-samepath": true, "forge-padded": true, "forge-deeper": true,
	"query-dup-differs": true, "claim-absent-present": true,
}

// mustAccept: legitimate transformations of an honest proof.
var mustAccept = map[string]bool{"honest": true, "query-dup": true, "perm": true}

type caseGen struct {
	rng    *rand.Rand
	mi     *mirror
	pool   [][]byte
	ops    []string
	tamper int
}

func (g *caseGen) genBatch(maxN int) []kv {
	rng := g.rng
	n := 1 + rng.Intn(maxN)
	b := make([]kv, 0, n+2)
	present := sortedKVs(g.mi.m)
	for i := 0; i < n; i++ {
		var k []byte
		if len(present) > 0 && rng.Intn(3) == 0 {
			k = present[rng.Intn(len(present))].k // overwrite / delete a stored key
		} else {
			k = g.pool[rng.Intn(len(g.pool))]
		}
		var v []byte
		if rng.Intn(10) < 3 {
			v = []byte{} // delete (possibly of an absent key)
		} else {
			v = randBytes(rng, 32)
		}
		b = append(b, kv{k, v})
	}
	if rng.Intn(4) == 0 { // duplicate key inside the batch: set/set, set/del, del/set
		e := b[rng.Intn(len(b))]
		var v []byte
		if rng.Intn(2) == 0 {
			v = randBytes(rng, 32)
		} else {
			v = []byte{}
		}
		pos := rng.Intn(len(b) + 1)
		b = append(b[:pos:pos], append([]kv{{e.k, v}}, b[pos:]...)...)
	}
	return b
}

func (g *caseGen) proveAndTamper() {
	keys := genQueryKeys(g.rng, g.mi, g.pool)
	g.ops = append(g.ops, "prove "+hexList(keys))
	hp, ok := g.mi.prove(keys)
	if !ok {
		return
	}
	g.ops = append(g.ops, fmtVerify("honest", g.mi.root, g.mi.keyLen, keys, hp))
	nV := 1
	for _, v := range tamper(g.rng, g.mi, keys, hp, g.tamper) {
		g.ops = append(g.ops, fmtVerify(v.tag, v.root, v.keyLen, v.keys, v.p))
		nV++
	}
	// the same proof objects verified again after the tampered ones (pure.go; draws nothing from g.rng)
	g.ops = append(g.ops, reverifyOps(g.ops, nV)...)
}

func genHistory(rng *rand.Rand, keyLen, poolSize, nOps, maxBatch, tamperN int) corr.Case {
	sth := 8
	if rng.Intn(5) == 0 && layout4Works() {
		sth = 4 // nibble subtrees: the root must not depend on the storage layout
	}
	g := &caseGen{rng: rng, pool: genPool(rng, keyLen, poolSize), tamper: tamperN,
		mi: &mirror{keyLen: keyLen, sth: sth, db: newMemDB(), root: emptyHash, m: map[string][]byte{}, roots: [][]byte{emptyHash}}}
	g.ops = []string{fmt.Sprintf("reset %d %d", keyLen, sth)}
	if rng.Intn(6) == 0 {
		g.proveAndTamper() // proofs over the empty trie
	}
	for i := 0; i < nOps; i++ {
		switch r := rng.Intn(10); {
		case r < 5:
			b := g.genBatch(maxBatch)
			g.ops = append(g.ops, "update "+fmtBatch(b))
			if !g.mi.update(b) {
				return corr.Case{Ops: g.ops, Tag: "history"}
			}
		case r < 6:
			g.ops = append(g.ops, "reopen")
		case r < 7 && len(g.mi.m) > 0: // delete everything or most of it, then continue
			pres := sortedKVs(g.mi.m)
			b := []kv{}
			for _, e := range pres {
				if rng.Intn(5) > 0 {
					b = append(b, kv{e.k, []byte{}})
				}
			}
			rng.Shuffle(len(b), func(i, j int) { b[i], b[j] = b[j], b[i] })
			g.ops = append(g.ops, "update "+fmtBatch(b))
			if !g.mi.update(b) {
				return corr.Case{Ops: g.ops, Tag: "history"}
			}
		default:
			g.proveAndTamper()
		}
	}
	return corr.Case{Ops: g.ops, Tag: "history"}
}

// genEvent: the event tree of pkg/blockchain: 12-byte keys, values of arbitrary length, one batch on an empty trie.
func genEvent(rng *rand.Rand) corr.Case {
	n := 1 + rng.Intn(40)
	b := []kv{}
	for i := 0; i < n; i++ {
		topic := randBytes(rng, 8)
		if i > 0 && rng.Intn(3) == 0 {
			topic = b[rng.Intn(len(b))].k[:8]
		}
		idx := []byte{0, 0, byte(i >> 6), byte(i<<2) | byte(rng.Intn(4))}
		b = append(b, kv{append(append([]byte{}, topic...), idx...), randBytes(rng, 1+rng.Intn(150))})
	}
	return corr.Case{Ops: []string{"reset 12", "update " + fmtBatch(b)}, Tag: "event"}
}

// genBig: large maps in few batches.
func genBig(rng *rand.Rand, keyLen, n int) corr.Case {
	g := &caseGen{rng: rng, pool: genPool(rng, keyLen, n), tamper: 12,
		mi: &mirror{keyLen: keyLen, db: newMemDB(), root: emptyHash, m: map[string][]byte{}, roots: [][]byte{emptyHash}}}
	g.ops = []string{fmt.Sprintf("reset %d", keyLen)}
	upd := func(b []kv) bool {
		g.ops = append(g.ops, "update "+fmtBatch(b))
		return g.mi.update(b)
	}
	b := []kv{}
	for _, k := range g.pool {
		b = append(b, kv{k, randBytes(rng, 32)})
	}
	half := len(b) / 2
	if !upd(b[:half]) || !upd(b[half:]) {
		return corr.Case{Ops: g.ops, Tag: "big"}
	}
	g.proveAndTamper()
	d := []kv{}
	for _, k := range g.pool {
		if rng.Intn(3) == 0 {
			d = append(d, kv{k, []byte{}})
		} else if rng.Intn(6) == 0 {
			d = append(d, kv{k, randBytes(rng, 32)})
		}
	}
	if !upd(d) {
		return corr.Case{Ops: g.ops, Tag: "big"}
	}
	g.ops = append(g.ops, "reopen")
	g.proveAndTamper()
	re := []kv{}
	for _, e := range d {
		if len(e.v) == 0 && rng.Intn(2) == 0 {
			re = append(re, kv{e.k, randBytes(rng, 32)})
		}
	}
	if !upd(re) {
		return corr.Case{Ops: g.ops, Tag: "big"}
	}
	g.proveAndTamper()
	return corr.Case{Ops: g.ops, Tag: "big"}
}

// genFull: maps that fill (or nearly fill) all 256 slots of one stored 8-bit subtree - the node count byte of the
// stored subtree is 0xff / 0xfe / 0xfd - followed by operations that read the stored subtree back: proofs, further
// update batches (overwrite, delete, reinsert), reopen.
//
//	variant 0: key length 1, all 256 keys (the top subtree is full)
//	variant 1: key length 2, one first byte with all 256 second bytes (a subtree one level down is full)
//	variant 2: key length 2, every first byte once plus all second bytes under one of them (two full subtrees stacked)
//	variant 3: key length 32, fixed first byte, all 256 second bytes, random tails
//	variant 4: key length 12 or 38, fixed 2-byte prefix, all 256 third bytes (a subtree two levels down)
//
// missing = number of slots left free at first (0, 1 or 2: node counts 256, 255, 254); they are filled later.
func genFull(rng *rand.Rand, variant, missing int, splitFirst bool) corr.Case {
	keyLen := []int{1, 2, 2, 32, 12}[variant]
	if variant == 4 && rng.Intn(2) == 0 {
		keyLen = 38
	}
	fixed := byte(rng.Intn(256))
	fixed2 := byte(rng.Intn(256))
	slot := func(i int) []byte { // the key occupying slot i of the full subtree
		k := make([]byte, keyLen)
		switch variant {
		case 0:
			k[0] = byte(i)
		case 1, 2:
			k[0], k[1] = fixed, byte(i)
		case 3:
			k[0], k[1] = fixed, byte(i)
		case 4:
			k[0], k[1], k[2] = fixed, fixed2, byte(i)
		}
		return k
	}
	tails := map[int][]byte{}
	keys := [][]byte{}
	for i := 0; i < 256; i++ {
		k := slot(i)
		if variant >= 3 {
			t := randBytes(rng, keyLen)
			copy(t, k[:variant-1])
			k = t
			tails[i] = k
		}
		keys = append(keys, k)
	}
	if variant == 2 { // the top subtree full as well: one key under every other first byte
		for b := 0; b < 256; b++ {
			if byte(b) != fixed {
				keys = append(keys, []byte{byte(b), byte(rng.Intn(256))})
			}
		}
	}
	free := map[int]bool{}
	for len(free) < missing {
		free[rng.Intn(256)] = true
	}
	g := &caseGen{rng: rng, tamper: 6,
		mi: &mirror{keyLen: keyLen, sth: 8, db: newMemDB(), root: emptyHash, m: map[string][]byte{}, roots: [][]byte{emptyHash}}}
	// query pool: the keys and near misses
	g.pool = append([][]byte{}, keys...)
	for i := 0; i < 20; i++ {
		g.pool = append(g.pool, nearKey(rng, keys[rng.Intn(len(keys))], rng.Intn(8*keyLen)))
	}
	g.ops = []string{fmt.Sprintf("reset %d 8", keyLen)}
	done := func() corr.Case { return corr.Case{Ops: g.ops, Tag: "full-subtree"} }
	upd := func(b []kv) bool {
		g.ops = append(g.ops, "update "+fmtBatch(b))
		return g.mi.update(b)
	}
	first := []kv{}
	for i, k := range keys {
		if i < 256 && free[i] {
			continue
		}
		first = append(first, kv{k, randBytes(rng, 32)})
	}
	rng.Shuffle(len(first), func(i, j int) { first[i], first[j] = first[j], first[i] })
	if splitFirst { // the second batch completes the subtree written by the first one
		cut := len(first) * (1 + rng.Intn(3)) / 4
		if !upd(first[:cut]) || !upd(first[cut:]) {
			return done()
		}
	} else if !upd(first) {
		return done()
	}
	g.proveAndTamper() // reads the stored subtree back
	if rng.Intn(2) == 0 {
		g.ops = append(g.ops, "reopen")
	}
	// fill the free slots (now exactly 256 nodes), overwrite and delete a few others
	second := []kv{}
	for i := range free {
		second = append(second, kv{keys[i], randBytes(rng, 32)})
	}
	deleted := [][]byte{}
	for n := 0; n < 1+rng.Intn(6); n++ {
		k := keys[rng.Intn(len(keys))]
		if rng.Intn(2) == 0 {
			second = append(second, kv{k, randBytes(rng, 32)})
		} else {
			second = append(second, kv{k, []byte{}})
			deleted = append(deleted, k)
		}
	}
	if !upd(second) {
		return done()
	}
	g.ops = append(g.ops, "reopen")
	g.proveAndTamper()
	// reinsert what was deleted: full again
	third := []kv{}
	for _, k := range deleted {
		third = append(third, kv{k, randBytes(rng, 32)})
	}
	third = append(third, kv{keys[rng.Intn(len(keys))], randBytes(rng, 32)})
	if !upd(third) {
		return done()
	}
	g.proveAndTamper()
	g.ops = append(g.ops, "reopen")
	// and a last batch after the full subtree was stored once more
	if !upd([]kv{{keys[rng.Intn(len(keys))], []byte{}}, {nearKey(rng, keys[0], 8*keyLen-1-rng.Intn(4)), randBytes(rng, 32)}}) {
		return done()
	}
	g.proveAndTamper()
	return done()
}

func (prop) Generate(rng *rand.Rand, tier string) []corr.Case {
	nHist, nEvent, nBig, bigN, nFull := 260, 40, 2, 600, 8
	if tier == "thorough" {
		nHist, nEvent, nBig, bigN, nFull = 4000, 400, 20, 3000, 80
	}
	cases := []corr.Case{}
	for i := 0; i < nHist; i++ {
		keyLen := keyLens[rng.Intn(len(keyLens))]
		poolSize := 4 + rng.Intn(40)
		if rng.Intn(8) == 0 {
			poolSize = 100 + rng.Intn(200)
		}
		maxBatch := 1 + rng.Intn(12)
		if poolSize > 60 {
			maxBatch = 40 + rng.Intn(60)
		}
		cases = append(cases, genHistory(rng, keyLen, poolSize, 4+rng.Intn(10), maxBatch, 3+rng.Intn(8)))
	}
	for i := 0; i < nEvent; i++ {
		cases = append(cases, genEvent(rng))
	}
	for i := 0; i < nBig; i++ {
		keyLen := []int{32, 38, 12, 2}[i%4]
		n := bigN/2 + rng.Intn(bigN)
		cases = append(cases, genBig(rng, keyLen, n))
	}
	// full and nearly full stored subtrees (appended last so that the cases above keep their seeds)
	for i := 0; i < nFull; i++ {
		variant := i % 5
		missing := 0
		switch {
		case i == 5 || i == 6:
			missing = i - 4 // 255 and 254 nodes first, filled up later
		case i > 6:
			missing = rng.Intn(3)
		}
		cases = append(cases, genFull(rng, variant, missing, i%2 == 1))
	}
	// batches with repeated keys through UniqueAndSort and Update (batch.go); appended last as well
	nDup := 12
	if tier == "thorough" {
		nDup = 300
	}
	for i := 0; i < nDup; i++ {
		cases = append(cases, genDupBatches(rng, 12+rng.Intn(14)))
	}
	// event lists of whole blocks through blockchain.CalculateEventRoot (events.go); appended last as well
	cases = append(cases, genEventRootCases(rng, tier)...)
	return cases
}

// ---------------------------------------------------------------------------------------------
// runner

type runner struct {
	keyLen   int
	sth      int
	database *db.DB
	root     []byte
	ref      map[string][]byte            // reference map
	byRoot   map[string]map[string][]byte // root -> the map it commits to
	values32 bool                         // all stored values have 32 bytes (required for reading stored subtrees)
	verified []*verified                  // argument objects of the verify ops so far (reverify, pure.go)
	fails    []corr.Fail
	opIdx    int
	seed     int64
}

func (r *runner) fail(sig, detail string) {
	if len(detail) > 600 {
		detail = detail[:600] + "..."
	}
	r.fails = append(r.fails, corr.Fail{Sig: sig, Detail: detail, Op: r.opIdx})
}

func splitKV(b []kv) ([][]byte, [][]byte) {
	keys, vals := make([][]byte, len(b)), make([][]byte, len(b))
	for i, e := range b {
		keys[i], vals[i] = e.k, e.v
	}
	return keys, vals
}

// freshRoot builds a new trie over an empty database from the map in one batch.
func freshRoot(m map[string][]byte, keyLen int, shuffle *rand.Rand) ([]byte, error) {
	kvs := sortedKVs(m)
	if shuffle != nil {
		shuffle.Shuffle(len(kvs), func(i, j int) { kvs[i], kvs[j] = kvs[j], kvs[i] })
	}
	keys, vals := splitKV(kvs)
	t := smt.NewTrie(nil, keyLen)
	return t.Update(newMemDB(), keys, vals)
}

func (r *runner) checkClaims(where string, keys [][]byte, p proof, m map[string][]byte, sig string) {
	for i, k := range keys {
		if i >= len(p.queries) {
			break
		}
		q := p.queries[i]
		want, present := m[string(k)]
		claimsPresent := bytes.Equal(q.key, k) && len(q.value) > 0
		switch {
		case claimsPresent && !present:
			r.fail(sig, fmt.Sprintf("%s: proof shows %x = %x but the key is absent", where, k, q.value))
		case claimsPresent && !bytes.Equal(want, q.value):
			r.fail(sig, fmt.Sprintf("%s: proof shows %x = %x but the map holds %x", where, k, q.value, want))
		case !claimsPresent && present:
			r.fail(sig, fmt.Sprintf("%s: proof shows %x absent but the map holds %x", where, k, want))
		}
	}
}

func (r *runner) step(op string) string {
	w := strings.Fields(op)
	switch w[0] {
	case "reset":
		if r.database != nil {
			r.database.Close()
		}
		d, err := db.NewInMemoryDB()
		if err != nil {
			panic(err)
		}
		r.database = d
		r.keyLen, _ = strconv.Atoi(w[1])
		r.sth = 8
		if len(w) > 2 {
			r.sth, _ = strconv.Atoi(w[2])
		}
		if r.sth == 4 && !layout4Works() {
			r.fail("root-layout-dependent:subtree-height-4", "SetSubtreeHeight(4): keys 1000,1180 do not give the LIP-0039 root (second nibble binned wrongly); case run with the default layout")
			r.sth = 8
		}
		r.root = emptyHash
		r.ref = map[string][]byte{}
		r.byRoot = map[string]map[string][]byte{string(emptyHash): {}}
		r.values32 = true
		r.verified = nil
		return "ok"
	case "update":
		b := parseBatch(w[1])
		keys, vals := splitKV(b)
		for _, v := range vals {
			if len(v) != 0 && len(v) != 32 {
				r.values32 = false
			}
		}
		t := newTrie(r.root, r.keyLen, r.sth)
		root, err := t.Update(r.database, keys, vals)
		if err != nil {
			r.fail("update-error", fmt.Sprintf("%s: %v", clip(op), err))
			return "err"
		}
		r.root = root
		applyBatch(r.ref, b)
		snap := copyMap(r.ref)
		r.byRoot[string(root)] = snap
		// LIP-0039 root of the reference map
		if want := refRoot(r.ref); !bytes.Equal(root, want) {
			r.fail("root-differs-from-reference", fmt.Sprintf("after %s: root %x, reference root of the %d-key map %x", clip(op), root, len(r.ref), want))
		}
		if len(r.ref) <= 400 {
			r.historyCheck()
		}
		return corr.Hex(root)
	case "evroot": // events.go: blockchain.CalculateEventRoot of a whole block
		return r.evRoot(op, w)
	case "reopen":
		t := newTrie(r.root, r.keyLen, r.sth)
		root, err := t.Update(r.database, [][]byte{}, [][]byte{})
		if err != nil || !bytes.Equal(root, r.root) {
			r.fail("reopen-root-differs", fmt.Sprintf("reopened trie root %x err %v want %x", root, err, r.root))
		}
		if r.values32 {
			// every stored key must be provable from the stored nodes alone
			kvs := sortedKVs(r.ref)
			if len(kvs) > 24 {
				kvs = kvs[:24]
			}
			keys, _ := splitKV(kvs)
			if len(keys) > 0 {
				p, err := t.Prove(r.database, keys)
				if err != nil {
					r.fail("reopen-prove-error", err.Error())
				} else {
					r.checkClaims("reopen", keys, fromSMT(p), r.ref, "reopen-claim-wrong")
				}
			}
		}
		return corr.Hex(root)
	case "prove":
		keys := unHexList(w[1])
		t := newTrie(r.root, r.keyLen, r.sth)
		sp, err := t.Prove(r.database, keys)
		if err != nil {
			wrongLen := false
			for _, k := range keys {
				if len(k) != r.keyLen {
					wrongLen = true
				}
			}
			if !wrongLen {
				r.fail("prove-error", fmt.Sprintf("%s: %v", clip(op), err))
			}
			return "err"
		}
		p := fromSMT(sp)
		ok, verr := r.pureVerify(clip(op), keys, sp, r.root, r.keyLen)
		if !ok || verr != nil {
			r.fail("honest-proof-rejected", fmt.Sprintf("%s: Verify(Prove) = %v, %v; proof %s", clip(op), ok, verr, clip(p.String())))
		}
		r.checkClaims(clip(op), keys, p, r.ref, "prove-claim-wrong")
		return p.String()
	case "verify":
		tag := w[1]
		root := corr.UnHex(w[2])
		keyLen, _ := strconv.Atoi(w[3])
		keys := unHexList(w[4])
		p := proof{sibs: unHexList(w[5]), queries: parseQueries(w[6])}
		// the argument objects are kept: they are verified again by the purity oracle and by later reverify ops
		rec := &verified{tag: tag, keys: corr.SpareList(keys), sp: p.toSMTSpare(), root: corr.Spare(root), keyLen: keyLen}
		r.verified = append(r.verified, rec)
		ok, err := r.pureVerify("["+tag+"] "+clip(op), rec.keys, rec.sp, rec.root, rec.keyLen)
		rec.first = verdictString(ok, err)
		res := "false"
		if err != nil {
			res = "err"
			if ok {
				r.fail("verify-true-with-error", clip(op))
			}
		} else if ok {
			res = "true"
		}
		if ok {
			m, known := r.byRoot[string(root)]
			switch {
			case !known:
				r.fail("proof-accepted-unknown-root", fmt.Sprintf("[%s] accepted against root %x which the trie never had", tag, root))
			case keyLen != r.keyLen:
				r.fail("proof-accepted-wrong-keylen", fmt.Sprintf("[%s] accepted with key length %d", tag, keyLen))
			default:
				before := len(r.fails)
				r.checkClaims("["+tag+"] "+clip(op), keys, p, m, "proof-accepted-wrong-claim:"+tagClass(tag))
				if len(r.fails) == before && strictKinds[tag] {
					r.fail("tamper-accepted:"+tag, fmt.Sprintf("tampered proof accepted (claims still agree with the map): %s", clip(op)))
				}
			}
		} else if mustAccept[tag] {
			if _, known := r.byRoot[string(root)]; known {
				r.fail("honest-proof-rejected:"+tag, fmt.Sprintf("%s -> %s %v", clip(op), res, err))
			}
		}
		if len(keys) == 1 && len(p.queries) == 1 {
			res += "/1:" + strconv.FormatBool(ok && err == nil)
		}
		return res
	case "uniq", "nupdate":
		return r.stepBatch(w, op)
	case "reverify":
		return r.reverify(w, op)
	}
	return "bad-op"
}

// tagClass groups tags for signatures.
func tagClass(tag string) string {
	switch {
	case strings.HasPrefix(tag, "forge-samepath"), tag == "key-to-query", tag == "claim-absent-present":
		return "same-position"
	case tag == "forge-padded":
		return "padded-path"
	case tag == "forge-deeper":
		return "below-proven-node"
	case strings.HasPrefix(tag, "keylen-shift"):
		return "key-length"
	}
	return "other"
}

func clip(s string) string {
	if len(s) > 300 {
		return s[:300] + "..."
	}
	return s
}

// historyCheck: the root after the history equals the root of a fresh trie holding the final map, whatever the
// insertion order.
func (r *runner) historyCheck() {
	fr, err := freshRoot(r.ref, r.keyLen, nil)
	if err != nil || !bytes.Equal(fr, r.root) {
		r.fail("root-history-dependent", fmt.Sprintf("root after history %x, fresh trie with the same %d-key map %x (err %v)", r.root, len(r.ref), fr, err))
	}
	sh := rand.New(rand.NewSource(r.seed + int64(r.opIdx)))
	fr2, err := freshRoot(r.ref, r.keyLen, sh)
	if err != nil || !bytes.Equal(fr2, r.root) {
		r.fail("root-order-dependent", fmt.Sprintf("root %x, fresh trie filled in shuffled order %x (err %v)", r.root, fr2, err))
	}
	if r.values32 && len(r.ref) > 1 && len(r.ref) <= 64 {
		// one key at a time (stored subtrees are read back: needs 32-byte values)
		t := smt.NewTrie(nil, r.keyLen)
		d := newMemDB()
		kvs := sortedKVs(r.ref)
		sh.Shuffle(len(kvs), func(i, j int) { kvs[i], kvs[j] = kvs[j], kvs[i] })
		var root []byte
		var err error
		for _, e := range kvs {
			root, err = t.Update(d, [][]byte{e.k}, [][]byte{e.v})
			if err != nil {
				break
			}
		}
		if err != nil || !bytes.Equal(root, r.root) {
			r.fail("root-batching-dependent", fmt.Sprintf("root %x, one-key-at-a-time trie %x (err %v)", r.root, root, err))
		}
	}
}

func (prop) RunImpl(c corr.Case) ([]string, []corr.Fail) {
	r := &runner{}
	for _, op := range c.Ops {
		r.seed = r.seed*31 + int64(len(op))
	}
	out := make([]string, 0, len(c.Ops))
	for i, op := range c.Ops {
		r.opIdx = i
		func() {
			defer func() {
				if e := recover(); e != nil {
					out = append(out, "panic")
					kind := strings.Fields(op)[0]
					if kind == "verify" {
						kind += ":" + strings.Fields(op)[1]
					}
					r.fail("smt-panic:"+kind, fmt.Sprintf("%s: %v", clip(op), e))
				}
			}()
			out = append(out, r.step(op))
		}()
	}
	// end of case: history independence for big maps too
	if r.database != nil {
		if len(r.ref) > 400 && r.values32 {
			r.opIdx = len(c.Ops) - 1
			func() {
				defer func() {
					if e := recover(); e != nil {
						r.fail("smt-panic:fresh", fmt.Sprint(e))
					}
				}()
				r.historyCheck()
			}()
		}
		r.database.Close()
	}
	return out, r.fails
}

// Extra: model-free soundness fuzzing of Verify with multi-step tampering: every accepted proof must claim what the
// map committed to by the root holds.
func (prop) Extra(rng *rand.Rand, tier string) corr.ExtraResult {
	n := 150
	if tier == "thorough" {
		n = 2500
	}
	res := corr.ExtraResult{Notes: map[string]any{}}
	if !layout4Works() {
		res.Fails = append(res.Fails, corr.Fail{Sig: "root-layout-dependent:subtree-height-4", Op: -1,
			Detail: "SetSubtreeHeight(4): reset 2 4 ; update 1000=<v>,1180=<w> does not give the LIP-0039 root (getBinIndex bins the second nibble with >>15)"})
	}
	res.Notes["layout4"] = layout4Works()
	accepted := map[string]int{}
	rejected := 0
	for it := 0; it < n; it++ {
		keyLen := keyLens[rng.Intn(len(keyLens))]
		pool := genPool(rng, keyLen, 3+rng.Intn(30))
		mi := &mirror{keyLen: keyLen, db: newMemDB(), root: emptyHash, m: map[string][]byte{}, roots: [][]byte{emptyHash}}
		byRoot := map[string]map[string][]byte{string(emptyHash): {}}
		history := []string{fmt.Sprintf("reset %d", keyLen)}
		g := &caseGen{rng: rng, pool: pool, mi: mi}
		okUpd := true
		for u := 0; u < 1+rng.Intn(3) && okUpd; u++ {
			b := g.genBatch(1 + rng.Intn(20))
			history = append(history, "update "+fmtBatch(b))
			okUpd = mi.update(b)
			byRoot[string(mi.root)] = copyMap(mi.m)
		}
		if !okUpd {
			continue
		}
		keys := genQueryKeys(rng, mi, pool)
		hp, ok := mi.prove(keys)
		if !ok {
			continue
		}
		level := tamper(rng, mi, keys, hp, 10)
		all := append([]variant{}, level...)
		for depth := 0; depth < 2; depth++ {
			next := []variant{}
			for _, v := range level {
				if len(v.keys) != len(v.p.queries) || rng.Intn(2) == 0 {
					continue
				}
				for _, w := range tamper(rng, mi, v.keys, v.p, 2) {
					w.tag = v.tag + "+" + w.tag
					next = append(next, w)
				}
			}
			all = append(all, next...)
			level = next
		}
		for _, v := range all {
			res.Evaluations++
			okV, panicked := false, false
			func() {
				defer func() {
					if e := recover(); e != nil {
						panicked = true
					}
				}()
				okV, _ = smt.Verify(v.keys, v.p.toSMT(), v.root, v.keyLen)
			}()
			op := fmtVerify(v.tag, v.root, v.keyLen, v.keys, v.p)
			replay := strings.Join(append(append([]string{}, history...), op), " ; ")
			if panicked {
				res.Fails = append(res.Fails, corr.Fail{Sig: "smt-panic:verify:extra", Detail: clip(replay), Op: -1})
				continue
			}
			if !okV {
				rejected++
				continue
			}
			accepted[v.tag]++
			m, known := byRoot[string(v.root)]
			if !known || v.keyLen != keyLen {
				res.Fails = append(res.Fails, corr.Fail{Sig: "proof-accepted-unknown-root", Detail: clip(replay), Op: -1})
				continue
			}
			r := &runner{}
			r.checkClaims("["+v.tag+"]", v.keys, v.p, m, "proof-accepted-wrong-claim:extra")
			for _, f := range r.fails {
				f.Detail += " ; replay: " + replay
				if len(f.Detail) > 3000 {
					f.Detail = f.Detail[:3000]
				}
				f.Op = -1
				res.Fails = append(res.Fails, f)
			}
		}
	}
	res.Notes["rejected"] = rejected
	res.Notes["accepted_by_kind"] = accepted
	if len(res.Fails) > 40 {
		res.Fails = res.Fails[:40]
	}
	return res
}

func (prop) Classify(c corr.Case, out []string) string {
	feats := map[string]bool{}
	roots := map[string]bool{}
	for i, op := range c.Ops {
		if i >= len(out) {
			break
		}
		w := strings.Fields(op)
		switch w[0] {
		case "reset":
			feats["k"+w[1]] = true
			if len(w) > 2 && w[2] != "8" {
				feats["sth"+w[2]] = true
			}
		case "uniq":
			if out[i] != "panic" && strings.Count(out[i], ",") < strings.Count(w[1], ",") {
				feats["uniq-folded"] = true
			}
		case "update", "nupdate":
			roots[out[i]] = true
			if w[0] == "nupdate" {
				feats["nupdate"] = true
			}
			if strings.Contains(w[1], "=-") {
				feats["del"] = true
			}
			if out[i] == corr.Hex(emptyHash) && len(roots) > 1 {
				feats["emptied"] = true
			}
		case "reopen":
			if len(roots) > 0 {
				feats["reopen"] = true
			}
		case "prove":
			if strings.HasPrefix(out[i], "S:") {
				if strings.Contains(out[i], ":-:") {
					feats["prove-absent"] = true
				} else {
					feats["prove"] = true
				}
			}
		case "verify":
			if w[1] != "honest" {
				if strings.HasPrefix(out[i], "true") {
					feats["tamper-accepted"] = true
				} else {
					feats["tamper-rejected"] = true
				}
			}
		case "reverify":
			if strings.HasPrefix(out[i], "true") {
				feats["reuse"] = true
			}
		}
	}
	if c.Tag == "eventroot" && len(out) == 2 && len(out[1]) == 64 {
		if n := strings.Count(c.Ops[1], "="); n > 1024 {
			return "eventroot:pairs>1024"
		} else if n > 0 {
			return "eventroot:pairs<=1024"
		}
		return "eventroot:empty"
	}
	if c.Tag == "event" && len(roots) == 1 {
		return "event:one-batch-raw-values" // event tree: 12-byte keys, values of any length, single batch
	}
	if len(roots) < 1 || (len(roots) < 2 && !feats["prove"] && !feats["prove-absent"]) {
		return ""
	}
	fs := []string{}
	for f := range feats {
		fs = append(fs, f)
	}
	sort.Strings(fs)
	return c.Tag + ":" + strings.Join(fs, "+")
}
