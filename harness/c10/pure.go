package c10

// Purity of smt.Verify (class "functions that must not mutate their inputs", seeded change C10-11).
//
// smt.Verify(queryKeys, proof, root, keyLength) is a verification entry point: callers keep the proof (to verify it
// again, to hand Proof.Copy() on, to re-encode and relay it).  Every Verify of the runner goes through
// corr.PureCall:
//
//	c10-verify-mutates-argument     keys, root, sibling hashes, every query's Key / Value / Bitmap and the encoding
//	                                of the proof are byte for byte what they were before the call
//	c10-verify-not-idempotent       a second Verify on the SAME objects gives the same verdict
//	c10-verify-copy-differs:<v>     Verify of Proof.Copy(), of decode(encode(proof)) and of a deep clone - taken
//	                                before the first call and taken after it - gives the same verdict
//
// and the op
//
//	reverify <n> same|copy|wire
//
// verifies the objects of the n-th most recent `verify` op of the case once more (the same objects / their
// Proof.Copy() / their re-encoding), i.e. after other proofs were verified in between.  The model driver recomputes
// the transcribed Verify from the arguments it recorded (for `wire`: through the codec model and the regenerated
// smt.Proof schema, Model/SMTWire.lean), so a verdict that depends on how often the proof object was used before
// is a correspondence mismatch as well (Props/C10_Pure.lean: C10_verify_deterministic_on_reuse,
// C10_verify_copy_equiv).

import (
	"fmt"
	"hash/fnv"
	"math/rand"
	"strconv"

	"github.com/LiskHQ/lisk-engine/pkg/codec"
	"github.com/LiskHQ/lisk-engine/pkg/trie/smt"

	"verifharness/corr"
)

// verifyImage: everything smt.Verify can reach through its arguments.
func verifyImage(keys [][]byte, sp *smt.Proof, root []byte, keyLen int) []string {
	img := []string{"keyLength=" + strconv.Itoa(keyLen)}
	img = corr.SnapBytesCap(img, "root", root)
	img = corr.SnapListCap(img, "queryKeys", keys)
	sibs := make([][]byte, len(sp.SiblingHashes))
	for i, s := range sp.SiblingHashes {
		sibs[i] = s
	}
	img = corr.SnapListCap(img, "proof.SiblingHashes", sibs)
	img = append(img, fmt.Sprintf("len(proof.Queries)=%d", len(sp.Queries)))
	for i, q := range sp.Queries {
		if q == nil {
			img = append(img, fmt.Sprintf("proof.Queries[%d]=nil", i))
			continue
		}
		img = corr.SnapBytesCap(img, fmt.Sprintf("proof.Queries[%d].Key", i), q.Key)
		img = corr.SnapBytesCap(img, fmt.Sprintf("proof.Queries[%d].Value", i), q.Value)
		img = corr.SnapBytesCap(img, fmt.Sprintf("proof.Queries[%d].Bitmap", i), q.Bitmap)
	}
	img = corr.SnapBytes(img, "proof.Encode()", sp.Encode())
	return img
}

func verdictString(ok bool, err error) string {
	switch {
	case err != nil && ok:
		return "true+err"
	case err != nil:
		return "err"
	case ok:
		return "true"
	}
	return "false"
}

// toSMTSpare: the proof with every byte string carrying sentinel-filled spare capacity (a receiver that keeps the
// fields of a proof as sub-slices of one buffer): an append to an argument shows as c10-verify-writes-beyond-argument.
func (p proof) toSMTSpare() *smt.Proof {
	r := &smt.Proof{SiblingHashes: []codec.Hex{}, Queries: []*smt.QueryProof{}}
	for _, s := range p.sibs {
		r.SiblingHashes = append(r.SiblingHashes, corr.Spare(s))
	}
	for _, q := range p.queries {
		r.Queries = append(r.Queries, &smt.QueryProof{Key: corr.Spare(q.key), Value: corr.Spare(q.value), Bitmap: corr.Spare(q.bitmap)})
	}
	return r
}

// wireClone: what a second node receives.
func wireClone(sp *smt.Proof) (*smt.Proof, error) {
	q := new(smt.Proof)
	if err := q.Decode(sp.Encode()); err != nil {
		return nil, err
	}
	return q, nil
}

// pureVerify is smt.Verify with the purity oracle around it; it returns what the first call returned.
func (r *runner) pureVerify(ctx string, keys [][]byte, sp *smt.Proof, root []byte, keyLen int) (bool, error) {
	var firstOK bool
	var firstErr error
	calls := 0
	p := corr.Pure{
		Sig: "c10-verify", Name: "smt.Verify", Context: ctx,
		Snap: func() []string { return verifyImage(keys, sp, root, keyLen) },
		Call: func() string {
			ok, err := smt.Verify(keys, sp, root, keyLen)
			if calls == 0 {
				firstOK, firstErr = ok, err
			}
			calls++
			return verdictString(ok, err)
		},
		Variants: func(stage string) []corr.PureVariant {
			on := func(name string, q *smt.Proof, err error) corr.PureVariant {
				return corr.PureVariant{Name: name, Call: func() string {
					if err != nil {
						return "decode-error"
					}
					return verdictString(smt.Verify(keys, q, root, keyLen))
				}}
			}
			vs := []corr.PureVariant{on("Proof.Copy()", sp.Copy(), nil)}
			w, err := wireClone(sp)
			vs = append(vs, on("decode(encode(proof))", w, err))
			if stage == "before" {
				vs = append(vs, on("deep-clone", fromSMT(sp).toSMT(), nil))
			}
			return vs
		},
	}
	_, fails := corr.PureCall(p)
	for _, f := range fails {
		r.failOnce(f.Sig, f.Detail)
	}
	return firstOK, firstErr
}

// failOnce reports a purity violation once per case and signature (a Verify that consumes its proof fails on every
// one of the hundreds of verify ops of a case).
func (r *runner) failOnce(sig, detail string) {
	for _, f := range r.fails {
		if f.Sig == sig {
			return
		}
	}
	r.fail(sig, detail)
}

// verified: the argument objects of a `verify` op, kept for `reverify`.
type verified struct {
	tag    string
	keys   [][]byte
	sp     *smt.Proof
	root   []byte
	keyLen int
	first  string // verdict of the first Verify ("" = it panicked)
}

func (r *runner) reverify(w []string, op string) string {
	n, _ := strconv.Atoi(w[1])
	if n < 1 || n > len(r.verified) {
		return "none"
	}
	rec := r.verified[len(r.verified)-n]
	sp := rec.sp
	switch w[2] {
	case "same":
	case "copy":
		sp = rec.sp.Copy()
	case "wire":
		q, err := wireClone(rec.sp)
		if err != nil {
			r.fail("c10-proof-reencoding-not-decodable", fmt.Sprintf("[%s] %s: %v", rec.tag, op, err))
			return "wire-err"
		}
		sp = q
	default:
		return "bad-op"
	}
	ok, err := smt.Verify(rec.keys, sp, rec.root, rec.keyLen)
	res := verdictString(ok, err)
	if rec.first != "" && res != rec.first {
		r.failOnce("c10-verify-not-idempotent", fmt.Sprintf("[%s] %s: the proof verified %s when it was first checked and %s when it was checked again (%s presentation) after %d other verifications",
			rec.tag, op, rec.first, res, w[2], n-1))
	}
	if res == "true+err" {
		res = "err"
	}
	if len(rec.keys) == 1 && len(sp.Queries) == 1 {
		res += "/1:" + strconv.FormatBool(ok && err == nil)
	}
	return res
}

// auxRng: random choices for the reverify ops that do not advance the generator's main stream (the cases keep the
// operations they had before these ops were added).
func auxRng(ops []string) *rand.Rand {
	h := fnv.New64a()
	h.Write([]byte(ops[len(ops)-1]))
	return rand.New(rand.NewSource(int64(h.Sum64()>>1) + int64(len(ops))))
}

// reverifyOps: after the nV verify ops of one proof (the honest proof first, then its tamperings): the honest
// proof again on the same objects - every tampered variant was verified in between -, its copy and its
// re-encoding, and one of the variants again.
func reverifyOps(ops []string, nV int) []string {
	if nV < 1 {
		return nil
	}
	rng := auxRng(ops)
	modes := []string{"same", "copy", "wire"}
	out := []string{fmt.Sprintf("reverify %d same", nV)}
	if rng.Intn(2) == 0 {
		out = append(out, fmt.Sprintf("reverify %d %s", nV, modes[1+rng.Intn(2)]))
	}
	if nV > 1 && rng.Intn(2) == 0 {
		out = append(out, fmt.Sprintf("reverify %d %s", 1+rng.Intn(nV-1), modes[rng.Intn(3)]))
	}
	if rng.Intn(8) == 0 { // beyond the recorded verifications / a proof of an earlier prove op
		out = append(out, fmt.Sprintf("reverify %d same", nV+1+rng.Intn(12)))
	}
	return out
}
