// Batches with repeated keys, through every exported entry that accepts a batch.
//
//	uniq <k=v,...>     smt.UniqueAndSort (the exported batch normaliser): every key once, carrying the value of its
//	                   LAST write in the batch, sorted by key. Output: the normalised batch. Oracle = a Go reference
//	                   (map, last write wins, sort) - signature c10-batch-normaliser-wrong; and the trie built from the
//	                   normalised batch has the LIP-0039 root of that map.
//	nupdate <k=v,...>  Trie.Update of the normalised batch on the case's trie: root against the spec root of the
//	                   reference map with last-write-wins semantics.
//	update  <k=v,...>  (c10.go) Trie.Update of the raw batch: the trie itself keeps the FIRST write of a key.
//
// The generator below produces batches dominated by repetitions: overwrite, set-then-delete, delete-then-set, runs of
// the same key, a repeated key after another key's duplicate has been folded ([a,a,b,c,b]), all keys twice ([a,a,b,b]).
package c10

import (
	"bytes"
	"fmt"
	"math/rand"
	"sort"

	"github.com/LiskHQ/lisk-engine/pkg/trie/smt"

	"verifharness/corr"
)

// refNormalise: last write of a key wins, sorted by key.
func refNormalise(b []kv) []kv {
	m := map[string][]byte{}
	for _, e := range b {
		m[string(e.k)] = e.v
	}
	out := make([]kv, 0, len(m))
	for k, v := range m {
		out = append(out, kv{[]byte(k), v})
	}
	sort.Slice(out, func(i, j int) bool { return bytes.Compare(out[i].k, out[j].k) < 0 })
	return out
}

func sameBatch(a, b []kv) bool {
	if len(a) != len(b) {
		return false
	}
	for i := range a {
		if !bytes.Equal(a[i].k, b[i].k) || !bytes.Equal(a[i].v, b[i].v) {
			return false
		}
	}
	return true
}

// normalise runs the real UniqueAndSort and checks it against the reference.
func (r *runner) normalise(op string, b []kv) (res []kv, ok bool) {
	keys, vals := splitKV(b)
	// the inputs must not be modified
	keys0, vals0 := cloneKeys(keys), cloneKeys(vals)
	want := refNormalise(b)
	defer func() {
		if e := recover(); e != nil {
			r.fail("c10-batch-normaliser-wrong", fmt.Sprintf("%s: UniqueAndSort panics (%v); last write wins, sorted: %s", clip(op), e, clip(fmtBatch(want))))
			res, ok = nil, false
		}
	}()
	nk, nv := smt.UniqueAndSort(keys, vals)
	if len(nk) != len(nv) {
		r.fail("c10-batch-normaliser-wrong", fmt.Sprintf("%s: UniqueAndSort returns %d keys and %d values", clip(op), len(nk), len(nv)))
		return nil, false
	}
	res = make([]kv, len(nk))
	for i := range nk {
		res[i] = kv{nk[i], nv[i]}
	}
	if !sameBatch(res, want) {
		r.fail("c10-batch-normaliser-wrong", fmt.Sprintf("%s: UniqueAndSort gives %s; last write wins, sorted: %s", clip(op), clip(fmtBatch(res)), clip(fmtBatch(want))))
	}
	for i := range keys {
		if !bytes.Equal(keys[i], keys0[i]) || !bytes.Equal(vals[i], vals0[i]) {
			r.fail("c10-batch-normaliser-wrong", fmt.Sprintf("%s: UniqueAndSort changed its input at position %d", clip(op), i))
			break
		}
	}
	return res, true
}

// stepBatch executes `uniq` and `nupdate`.
func (r *runner) stepBatch(w []string, op string) string {
	if len(w) != 2 {
		return "bad-op"
	}
	b := parseBatch(w[1])
	switch w[0] {
	case "uniq":
		res, ok := r.normalise(op, b)
		if !ok {
			return "panic"
		}
		// root independent of overwrites: a fresh trie fed with the normalised batch commits to the map the writes
		// of the batch produce (last write wins, empty value = no entry)
		okLen := true
		for _, e := range res {
			if len(e.k) != r.keyLen {
				okLen = false
			}
		}
		if okLen {
			m := map[string][]byte{}
			for _, e := range b {
				if len(e.v) == 0 {
					delete(m, string(e.k))
				} else {
					m[string(e.k)] = e.v
				}
			}
			keys, vals := splitKV(res)
			root, err := smt.NewTrie(nil, r.keyLen).Update(newMemDB(), keys, vals)
			if want := refRoot(m); err != nil || !bytes.Equal(root, want) {
				r.fail("c10-batch-normaliser-wrong", fmt.Sprintf("%s: trie of the normalised batch has root %x (err %v), the map written by the batch has %x", clip(op), root, err, want))
			}
		}
		return fmtBatch(res)
	case "nupdate":
		res, ok := r.normalise(op, b)
		if !ok {
			return "panic"
		}
		keys, vals := splitKV(res)
		for _, v := range vals {
			if len(v) != 0 && len(v) != 32 {
				r.values32 = false
			}
		}
		t := newTrie(r.root, r.keyLen, r.sth)
		root, err := t.Update(r.database, keys, vals)
		if err != nil {
			r.fail("update-error", fmt.Sprintf("%s: %v", clip(op), err))
			return "err"
		}
		r.root = root
		for _, e := range b { // every write in order: the last one of a key stays
			if len(e.v) == 0 {
				delete(r.ref, string(e.k))
			} else {
				r.ref[string(e.k)] = e.v
			}
		}
		r.byRoot[string(root)] = copyMap(r.ref)
		if want := refRoot(r.ref); !bytes.Equal(root, want) {
			r.fail("root-differs-from-reference", fmt.Sprintf("after %s: root %x, reference root of the %d-key map (last write of a key wins) %x", clip(op), root, len(r.ref), want))
		}
		if len(r.ref) <= 400 {
			r.historyCheck()
		}
		return corr.Hex(root)
	}
	return "bad-op"
}

// genRepBatch: a batch over a handful of keys in which repetitions dominate.
func genRepBatch(rng *rand.Rand, pool [][]byte) []kv {
	val := func() []byte {
		if rng.Intn(4) == 0 {
			return []byte{} // delete
		}
		return randBytes(rng, 32)
	}
	pick := func() []byte { return pool[rng.Intn(len(pool))] }
	var b []kv
	switch rng.Intn(8) {
	case 0: // every key twice in a row: a,a,b,b,...
		for _, k := range pool[:1+rng.Intn(len(pool))] {
			b = append(b, kv{k, val()}, kv{k, val()})
		}
	case 1: // a duplicate is folded first, then new keys appear and are overwritten: a,a,b,c,b / a,a,b,c,c
		a := pick()
		b = append(b, kv{a, val()}, kv{a, val()})
		var later [][]byte
		for i, n := 0, 2+rng.Intn(3); i < n; i++ {
			k := pick()
			later = append(later, k)
			b = append(b, kv{k, val()})
		}
		for i, n := 0, 1+rng.Intn(2); i < n; i++ {
			b = append(b, kv{later[rng.Intn(len(later))], val()})
		}
	case 2: // all keys once, then all again in another order
		p := cloneKeys(pool)
		for _, k := range p {
			b = append(b, kv{k, val()})
		}
		rng.Shuffle(len(p), func(i, j int) { p[i], p[j] = p[j], p[i] })
		for _, k := range p {
			b = append(b, kv{k, val()})
		}
	case 3: // set-then-delete and delete-then-set of the same keys
		for i, n := 0, 1+rng.Intn(3); i < n; i++ {
			k := pick()
			if rng.Intn(2) == 0 {
				b = append(b, kv{k, randBytes(rng, 32)}, kv{pick(), val()}, kv{k, []byte{}})
			} else {
				b = append(b, kv{k, []byte{}}, kv{pick(), val()}, kv{k, randBytes(rng, 32)})
			}
		}
	case 4: // one key many times
		k := pick()
		for i, n := 0, 2+rng.Intn(5); i < n; i++ {
			b = append(b, kv{k, val()})
			if rng.Intn(3) == 0 {
				b = append(b, kv{pick(), val()})
			}
		}
	default: // random writes
		for i, n := 0, rng.Intn(12); i < n; i++ {
			b = append(b, kv{pick(), val()})
		}
	}
	return b
}

// genDupBatches: a history of normaliser calls and updates (raw and normalised) with repeated keys.
func genDupBatches(rng *rand.Rand, nOps int) corr.Case {
	keyLen := keyLens[rng.Intn(len(keyLens))]
	pool := genPool(rng, keyLen, 2+rng.Intn(5))
	mi := &mirror{keyLen: keyLen, sth: 8, db: newMemDB(), root: emptyHash, m: map[string][]byte{}, roots: [][]byte{emptyHash}}
	ops := []string{fmt.Sprintf("reset %d 8", keyLen)}
	for i := 0; i < nOps; i++ {
		b := genRepBatch(rng, pool)
		switch r := rng.Intn(10); {
		case r < 5:
			ops = append(ops, "uniq "+fmtBatch(b))
		case r < 7:
			ops = append(ops, "nupdate "+fmtBatch(b))
			if !mi.update(refNormalise(b)) {
				return corr.Case{Ops: ops, Tag: "dupbatch"}
			}
		case r < 9:
			if len(b) == 0 {
				continue
			}
			ops = append(ops, "update "+fmtBatch(b))
			if !mi.update(b) {
				return corr.Case{Ops: ops, Tag: "dupbatch"}
			}
		default:
			keys := genQueryKeys(rng, mi, pool)
			ops = append(ops, "prove "+hexList(keys))
		}
	}
	return corr.Case{Ops: ops, Tag: "dupbatch"}
}
